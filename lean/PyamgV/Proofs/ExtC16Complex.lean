import PyamgV.Proofs.C16Bridge
import PyamgV.Proofs.C16Spec
import PyamgV.Proofs.C06CRat
import PyamgV.Proofs.ExtComplexGs
import PyamgV.Proofs.CRatStar
import PyamgV.Driver.C16
import Mathlib.LinearAlgebra.Matrix.ConjTranspose
import Mathlib.Analysis.Complex.Basic
import Mathlib.Analysis.Complex.Order
import Mathlib.LinearAlgebra.Matrix.PosDef

/-! PyamgV (C16, extension E14): the coarse-solver theorems of `C16LinAlg.lean` / `C16Spec.lean` for
*complex* matrices, and soundness of the driver's complex certificates.

1. `ReForm K R`, `PenroseH`, `penroseH_least_squares`, `penroseH_min_norm(_unique)`, `penroseH_of_inverse`,
   `penroseH_unique`: linear algebra over a field `K` with a conjugation `star` and a "real part"
   `re : K →+ R` into an ordered field, `‖v‖² = re (star v ⬝ᵥ v)`, conjugate transpose `ᴴ`; rectangular
   matrices `A : Matrix m n K`, `X : Matrix n m K`.
2. instances `ReForm.rclike 𝕜` (`ℂ`, `ℝ`) and `ReForm.crat` (the Gaussian rationals `CRat` of the models,
   `star = CRat.conj`; `Field CRat` from `ExtComplexGs.lean`).
3. `isPinv_sound_star/_crat`, `isInv_sound_crat`: the Boolean certificates on arrays imply `PenroseH` / `A X = 1`.
4. `CRat.toComplex`, `toMatC`, `toVecC`, `isPinv_sound_complex`, `isInv_sound_complex`: the same over `ℂ`.
5. the executed model `C16.call` with a conjugation: `pinv_call_min_norm_star/_complex`,
   `direct_call_solves_conj/_complex`, `splu_call_spec_conj`, `splu_call_solves_all_conj`.
6. `isHPD_sound_map` (Schur-complement induction over the elimination of `isHPD`), 7. its `CRat` / `ℂ`
   forms for the driver's `posC`, `isHPD_posDef_complex : (toMatC M n).PosDef`.
-/
namespace PyamgV.C16X
open Matrix
set_option linter.unusedSectionVars false

/-- a field with conjugation `star` and a real part: what the theorems need of `ℂ` (`RCLike`) and
of the Gaussian rationals `CRat` of the models -/
structure ReForm (K : Type*) (R : Type*) [Field K] [StarRing K] [Field R] [LinearOrder R]
    [IsStrictOrderedRing R] where
  re : K →+ R
  re_star : ∀ z, re (star z) = re z
  nonneg : ∀ z, 0 ≤ re (star z * z)
  definite : ∀ z, re (star z * z) = 0 → z = 0
  re_mul_real : ∀ p z, star p = p → re (p * z) = re p * re z

section linalg
variable {K R : Type*} [Field K] [StarRing K] [Field R] [LinearOrder R] [IsStrictOrderedRing R]
variable {m n : Type*} [Fintype m] [Fintype n] [DecidableEq m] [DecidableEq n]

namespace ReForm
variable (N : ReForm K R)

/-- `‖v‖₂² = Re (vᴴ v)` -/
def nrm {n : Type*} [Fintype n] (v : n → K) : R := N.re (star v ⬝ᵥ v)

theorem nrm_nonneg (v : n → K) : 0 ≤ N.nrm v := by
  unfold nrm dotProduct
  rw [map_sum]
  exact Finset.sum_nonneg (fun i _ => N.nonneg (v i))

theorem nrm_eq_zero {v : n → K} (h : N.nrm v = 0) : v = 0 := by
  unfold nrm dotProduct at h
  rw [map_sum] at h
  have h' := (Finset.sum_eq_zero_iff_of_nonneg (fun i _ => N.nonneg (v i))).1 h
  funext i
  exact N.definite _ (h' i (Finset.mem_univ i))

theorem nrm_zero : N.nrm (0 : n → K) = 0 := by
  unfold nrm; rw [dotProduct_zero, map_zero]

theorem re_star_dot (u v : n → K) : N.re (star v ⬝ᵥ u) = N.re (star u ⬝ᵥ v) := by
  rw [star_dotProduct, N.re_star]

theorem nrm_add (u v : n → K) : N.nrm (u + v) = N.nrm u + 2 * N.re (star u ⬝ᵥ v) + N.nrm v := by
  unfold nrm
  rw [star_add, add_dotProduct, dotProduct_add, dotProduct_add, map_add, map_add, map_add,
    N.re_star_dot u v]
  ring

end ReForm

/-- the Moore-Penrose equations with the conjugate transpose -/
structure PenroseH (A : Matrix m n K) (X : Matrix n m K) : Prop where
  axa : A * X * A = A
  xax : X * A * X = X
  ax : (A * X)ᴴ = A * X
  xa : (X * A)ᴴ = X * A

/-- `(A z)ᴴ r = zᴴ (Aᴴ r)` -/
theorem star_mulVec_dot (A : Matrix m n K) (z : n → K) (r : m → K) :
    star (A *ᵥ z) ⬝ᵥ r = star z ⬝ᵥ (Aᴴ *ᵥ r) := by
  rw [star_mulVec, dotProduct_mulVec]

/-- the residual of `X b` is orthogonal to the range of `A`: `Aᴴ (A X b − b) = 0` -/
theorem penroseH_normal (A : Matrix m n K) (X : Matrix n m K) (h : PenroseH A X) (b : m → K) :
    Aᴴ *ᵥ (A *ᵥ (X *ᵥ b) - b) = 0 := by
  have h1 : Aᴴ * (A * X) = Aᴴ := by
    have : Aᴴ * (A * X)ᴴ = (A * X * A)ᴴ := by rw [conjTranspose_mul (A * X) A]
    rw [h.ax, h.axa] at this
    exact this
  rw [mulVec_sub, mulVec_mulVec, mulVec_mulVec, Matrix.mul_assoc, h1, sub_self]

/-- `X b` is orthogonal to the null space of `A` -/
theorem penroseH_orth (A : Matrix m n K) (X : Matrix n m K) (h : PenroseH A X) (b : m → K)
    (z : n → K) (hz : A *ᵥ z = 0) : star (X *ᵥ b) ⬝ᵥ z = 0 := by
  have h1 : X *ᵥ b = (X * A) *ᵥ (X *ᵥ b) := by
    rw [mulVec_mulVec, h.xax]
  rw [h1, star_mulVec_dot, h.xa, ← mulVec_mulVec, hz, mulVec_zero, dotProduct_zero]

variable (N : ReForm K R)

/-- `‖A y − b‖² = ‖A (y − X b)‖² + ‖A X b − b‖²` -/
theorem penroseH_pythagoras (A : Matrix m n K) (X : Matrix n m K) (h : PenroseH A X) (b : m → K)
    (y : n → K) :
    N.nrm (A *ᵥ y - b) = N.nrm (A *ᵥ (y - X *ᵥ b)) + N.nrm (A *ᵥ (X *ᵥ b) - b) := by
  have hsplit : A *ᵥ y - b = A *ᵥ (y - X *ᵥ b) + (A *ᵥ (X *ᵥ b) - b) := by
    rw [mulVec_sub]; abel
  have horth : star (A *ᵥ (y - X *ᵥ b)) ⬝ᵥ (A *ᵥ (X *ᵥ b) - b) = 0 := by
    rw [star_mulVec_dot, penroseH_normal A X h b, dotProduct_zero]
  rw [hsplit, N.nrm_add, horth, map_zero]; ring

/-- **least squares** (complex): if `X` satisfies the Penrose equations for `A` (with `ᴴ`), then `X b`
minimises the residual norm `‖A y − b‖₂` over all `y` -/
theorem penroseH_least_squares (A : Matrix m n K) (X : Matrix n m K) (h : PenroseH A X) (b : m → K)
    (y : n → K) : N.nrm (A *ᵥ (X *ᵥ b) - b) ≤ N.nrm (A *ᵥ y - b) := by
  rw [penroseH_pythagoras N A X h b y]
  have := N.nrm_nonneg (A *ᵥ (y - X *ᵥ b))
  linarith

/-- **minimum norm** (complex): every other minimiser `y` of the residual is at least as long as `X b` -/
theorem penroseH_min_norm (A : Matrix m n K) (X : Matrix n m K) (h : PenroseH A X) (b : m → K)
    (y : n → K) (hy : N.nrm (A *ᵥ y - b) ≤ N.nrm (A *ᵥ (X *ᵥ b) - b)) :
    N.nrm (X *ᵥ b) ≤ N.nrm y := by
  have hz : A *ᵥ (y - X *ᵥ b) = 0 := by
    have hp := penroseH_pythagoras N A X h b y
    have hn := N.nrm_nonneg (A *ᵥ (y - X *ᵥ b))
    have h0 : N.nrm (A *ᵥ (y - X *ᵥ b)) = 0 := by linarith
    exact N.nrm_eq_zero h0
  have horth : star (X *ᵥ b) ⬝ᵥ (y - X *ᵥ b) = 0 := penroseH_orth A X h b _ hz
  have hsplit : y = X *ᵥ b + (y - X *ᵥ b) := by abel
  have hn := N.nrm_nonneg (y - X *ᵥ b)
  have e := N.nrm_add (X *ᵥ b) (y - X *ᵥ b)
  rw [← hsplit, horth, map_zero] at e
  rw [e]; linarith

/-- the minimiser of minimum norm is unique: a least-squares solution as short as `X b` *is* `X b` -/
theorem penroseH_min_norm_unique (A : Matrix m n K) (X : Matrix n m K) (h : PenroseH A X) (b : m → K)
    (y : n → K) (hy : N.nrm (A *ᵥ y - b) ≤ N.nrm (A *ᵥ (X *ᵥ b) - b))
    (hs : N.nrm y ≤ N.nrm (X *ᵥ b)) : y = X *ᵥ b := by
  have hz : A *ᵥ (y - X *ᵥ b) = 0 := by
    have hp := penroseH_pythagoras N A X h b y
    have hn := N.nrm_nonneg (A *ᵥ (y - X *ᵥ b))
    have h0 : N.nrm (A *ᵥ (y - X *ᵥ b)) = 0 := by linarith
    exact N.nrm_eq_zero h0
  have horth : star (X *ᵥ b) ⬝ᵥ (y - X *ᵥ b) = 0 := penroseH_orth A X h b _ hz
  have hsplit : y = X *ᵥ b + (y - X *ᵥ b) := by abel
  have hn := N.nrm_nonneg (y - X *ᵥ b)
  have e := N.nrm_add (X *ᵥ b) (y - X *ᵥ b)
  rw [← hsplit, horth, map_zero] at e
  have h0 : N.nrm (y - X *ᵥ b) = 0 := by linarith
  have := N.nrm_eq_zero h0
  exact sub_eq_zero.1 this

/-- an inverse satisfies the Penrose equations (square case) -/
theorem penroseH_of_inverse (A X : Matrix n n K) (h : A * X = 1) : PenroseH A X := by
  have h' : X * A = 1 := (mul_eq_one_comm).1 h
  refine ⟨?_, ?_, ?_, ?_⟩
  · rw [h, Matrix.one_mul]
  · rw [h', Matrix.one_mul]
  · rw [h, conjTranspose_one]
  · rw [h', conjTranspose_one]

/-- the Penrose equations determine `X` -/
theorem penroseH_unique (A : Matrix m n K) (X Y : Matrix n m K) (hX : PenroseH A X) (hY : PenroseH A Y) :
    X = Y := by
  -- X = X A X = X (A Y A) X = X A Y A X ; use hermitian projections
  have e1 : A * X = A * Y := by
    -- A X = (A X)ᴴ = ((A Y A) X)ᴴ = (A X)ᴴ (A Y)ᴴ = A X A Y = A Y
    calc A * X = (A * X)ᴴ := hX.ax.symm
      _ = ((A * Y) * (A * X))ᴴ := by rw [← Matrix.mul_assoc (A * Y) A X, hY.axa]
      _ = (A * X)ᴴ * (A * Y)ᴴ := conjTranspose_mul _ _
      _ = A * X * (A * Y) := by rw [hX.ax, hY.ax]
      _ = A * Y := by rw [← Matrix.mul_assoc (A * X) A Y, hX.axa]
  have e2 : X * A = Y * A := by
    calc X * A = (X * A)ᴴ := hX.xa.symm
      _ = ((X * A) * (Y * A))ᴴ := by rw [Matrix.mul_assoc X A (Y * A), ← Matrix.mul_assoc A Y A, hY.axa]
      _ = (Y * A)ᴴ * (X * A)ᴴ := conjTranspose_mul _ _
      _ = Y * A * (X * A) := by rw [hX.xa, hY.xa]
      _ = Y * A := by rw [Matrix.mul_assoc Y A (X * A), ← Matrix.mul_assoc A X A, hX.axa]
  calc X = X * A * X := hX.xax.symm
    _ = Y * A * X := by rw [e2]
    _ = Y * (A * X) := Matrix.mul_assoc _ _ _
    _ = Y * (A * Y) := by rw [e1]
    _ = Y * A * Y := (Matrix.mul_assoc _ _ _).symm
    _ = Y := hY.xax

/-- ring homomorphisms commuting with `star` carry Penrose pairs to Penrose pairs (used for `CRat → ℂ`) -/
theorem PenroseH.map {L : Type*} [Field L] [StarRing L] (φ : K →+* L) (hφ : ∀ z, φ (star z) = star (φ z))
    {A : Matrix m n K} {X : Matrix n m K} (h : PenroseH A X) : PenroseH (A.map φ) (X.map φ) := by
  have hs : Function.Semiconj φ star star := hφ
  refine ⟨?_, ?_, ?_, ?_⟩
  · rw [← Matrix.map_mul, ← Matrix.map_mul, h.axa]
  · rw [← Matrix.map_mul, ← Matrix.map_mul, h.xax]
  · rw [← Matrix.map_mul, ← conjTranspose_map φ hs, h.ax]
  · rw [← Matrix.map_mul, ← conjTranspose_map φ hs, h.xa]

end linalg

/-! ## Part 2: the two instances -- `RCLike` fields (`ℂ`, `ℝ`) and the Gaussian rationals of the models -/

/-- `ℂ` (any `RCLike` field) with `RCLike.re` -/
noncomputable def ReForm.rclike (𝕜 : Type*) [RCLike 𝕜] : ReForm 𝕜 ℝ where
  re := RCLike.re
  re_star z := by simp
  nonneg z := by
    rw [RCLike.star_def, RCLike.conj_mul]
    norm_cast
    positivity
  definite z h := by
    rw [RCLike.star_def, RCLike.conj_mul] at h
    norm_cast at h
    simpa using h
  re_mul_real p z hp := by
    rw [RCLike.star_def, RCLike.conj_eq_iff_real] at hp
    obtain ⟨r, rfl⟩ := hp
    simp

end PyamgV.C16X

namespace PyamgV.CRat

/-! `Field CRat` (with the division of `Model/CRat.lean`) comes from `Proofs/ExtComplexGs.lean` -/

end PyamgV.CRat

namespace PyamgV.C16X
open Matrix PyamgV.K PyamgV.C02 PyamgV.C16

/-- the Gaussian rationals with `CRat.re` -/
def ReForm.crat : ReForm CRat ℚ where
  re := ⟨⟨CRat.re, rfl⟩, fun _ _ => rfl⟩
  re_star _ := rfl
  nonneg z := by
    show 0 ≤ z.re * z.re - (-z.im) * z.im
    nlinarith [mul_self_nonneg z.re, mul_self_nonneg z.im]
  definite z h := by
    have h' : z.re * z.re - (-z.im) * z.im = 0 := h
    have h1 : z.re = 0 := by nlinarith [mul_self_nonneg z.re, mul_self_nonneg z.im]
    have h2 : z.im = 0 := by nlinarith [mul_self_nonneg z.re, mul_self_nonneg z.im]
    exact CRat.ext' h1 h2
  re_mul_real p z hp := by
    have h1 : (star p).im = p.im := by rw [hp]
    have h2 : p.im = 0 := by
      have : -p.im = p.im := h1
      linarith
    show p.re * z.re - p.im * z.im = p.re * z.re
    rw [h2]; ring

end PyamgV.C16X

/-! ## Part 3: the array certificates of the driver (`isPinv conj`, `isInv`) with a conjugation -/
namespace PyamgV.C16X
open Matrix PyamgV.K PyamgV.C02 PyamgV.C16
set_option linter.unusedSectionVars false

section bridge
variable {K : Type} [Field K] [DecidableEq K] [StarRing K]

theorem toMat_conjT_star (M : Dense K) (n : Nat) : toMat (conjT star M n n) n = (toMat M n)ᴴ := by
  ext i j
  rw [Matrix.conjTranspose_apply, toMat_apply, toMat_apply]
  unfold conjT
  rw [rdD_range_map2 (fun j i => star (rdD M i j)) n n i.1 j.1 i.2 j.2]

/-- the Boolean certificate `isPinv star A X n` the driver evaluates implies the Penrose equations
with the conjugate transpose for the matrices read off the arrays -/
theorem isPinv_sound_star (A X : Dense K) (n : Nat) (h : isPinv star A X n = true) :
    PenroseH (toMat A n) (toMat X n) := by
  unfold isPinv at h
  simp only [Bool.and_eq_true, decide_eq_true_eq] at h
  obtain ⟨⟨⟨h1, h2⟩, h3⟩, h4⟩ := h
  have e1 := congrArg (fun M => toMat M n) h1
  have e2 := congrArg (fun M => toMat M n) h2
  have e3 := congrArg (fun M => toMat M n) h3
  have e4 := congrArg (fun M => toMat M n) h4
  simp only [toMat_mulD, toMat_normalize, toMat_conjT_star] at e1 e2 e3 e4
  exact ⟨e1, e2, e3, e4⟩

end bridge

/-- `isPinv CRat.conj` (the reply of `c16_pinv c`, second flag): Penrose equations over the Gaussian rationals -/
theorem isPinv_sound_crat (A X : Dense CRat) (n : Nat) (h : isPinv CRat.conj A X n = true) :
    PenroseH (toMat A n) (toMat X n) := isPinv_sound_star A X n h

/-- `isInv` on `CRat` arrays (third flag of `c16_pinv c`): `A X = 1` over the Gaussian rationals -/
theorem isInv_sound_crat (M X : Dense CRat) (n : Nat) (h : isInv M X n = true) :
    toMat M n * toMat X n = 1 := isInv_sound M X n h

end PyamgV.C16X

/-! ## Part 4: from the Gaussian rationals to `ℂ` -/
namespace PyamgV.CRat

/-- the embedding `ℚ(i) → ℂ` -/
noncomputable def toComplex : CRat →+* ℂ where
  toFun z := ⟨(z.re : ℝ), (z.im : ℝ)⟩
  map_one' := by apply Complex.ext <;> simp
  map_zero' := by apply Complex.ext <;> simp
  map_mul' a b := by apply Complex.ext <;> simp
  map_add' a b := by apply Complex.ext <;> simp

@[simp] theorem toComplex_re (z : CRat) : (toComplex z).re = (z.re : ℝ) := rfl
@[simp] theorem toComplex_im (z : CRat) : (toComplex z).im = (z.im : ℝ) := rfl

theorem toComplex_star (z : CRat) : toComplex (star z) = star (toComplex z) := by
  apply Complex.ext <;> simp

theorem toComplex_injective : Function.Injective toComplex := toComplex.injective

end PyamgV.CRat

namespace PyamgV.C16X
open Matrix PyamgV.K PyamgV.C02 PyamgV.C16

/-- the complex matrix / vector a `CRat` array stands for -/
noncomputable def toMatC (M : Dense CRat) (n : Nat) : Matrix (Fin n) (Fin n) ℂ := (toMat M n).map CRat.toComplex
noncomputable def toVecC (x : Array CRat) (n : Nat) : Fin n → ℂ := CRat.toComplex ∘ toVec x n

theorem toMatC_apply (M : Dense CRat) (n : Nat) (i j : Fin n) :
    toMatC M n i j = ⟨((rdD M i.1 j.1).re : ℝ), ((rdD M i.1 j.1).im : ℝ)⟩ := rfl

theorem toVecC_matVec (M : Dense CRat) (n : Nat) (x : Array CRat) :
    toVecC (matVec M n n x) n = toMatC M n *ᵥ toVecC x n := by
  funext i
  unfold toVecC toMatC
  rw [Function.comp_apply, toVec_matVec, RingHom.map_mulVec]

/-- **soundness of the complex Penrose certificate**: `isPinv CRat.conj A X n = true` implies the four
Penrose equations, with the conjugate transpose, for the *complex* matrices the arrays stand for -/
theorem isPinv_sound_complex (A X : Dense CRat) (n : Nat) (h : isPinv CRat.conj A X n = true) :
    PenroseH (toMatC A n) (toMatC X n) :=
  (isPinv_sound_crat A X n h).map CRat.toComplex CRat.toComplex_star

/-- **soundness of the complex inverse certificate** -/
theorem isInv_sound_complex (M X : Dense CRat) (n : Nat) (h : isInv M X n = true) :
    toMatC M n * toMatC X n = 1 := by
  unfold toMatC
  rw [← Matrix.map_mul, isInv_sound_crat M X n h]
  exact Matrix.map_one _ (map_zero _) (map_one _)

end PyamgV.C16X

/-! ## Part 5: the executed model `C16.call` with a conjugation (`conj = CRat.conj` in the complex runs
of the driver): the clauses of `C16Spec.lean`, which are stated there for `conj = id` -/
namespace PyamgV.C16X
open Matrix PyamgV.K PyamgV.C02 PyamgV.C16
set_option linter.unusedSectionVars false

section calls
variable {K : Type} [Field K] [DecidableEq K]

theorem call_pinv_conj (conj : K → K) (isPos : K → Bool) (cb : Csr K → Arr K → Except String (Arr K))
    (o : Opts K) (A : Csr K) (b : Arr K) (hn : b.data.size = A.n) (hz : nnz A ≠ 0) :
    (call conj isPos cb .pinv o {} A b).2.1 =
      .ok ⟨matVec (pinvD conj (toDense A A.n) A.n) A.n A.n b.data, b.shape⟩ := by
  unfold call
  rw [if_neg hz]
  simp [solve, factor, applyFact, hn, reshape, matVec_size, Except.bind]

theorem call_lu_conj (conj : K → K) (isPos : K → Bool) (cb : Csr K → Arr K → Except String (Arr K))
    (o : Opts K) (A : Csr K) (b : Arr K) (hn : b.data.size = A.n) (hz : nnz A ≠ 0) (X : Dense K)
    (hX : inverse? conj (toDense A A.n) A.n = some X) :
    (call conj isPos cb .lu o {} A b).2.1 = .ok ⟨matVec X A.n A.n b.data, b.shape⟩ := by
  unfold call
  rw [if_neg hz]
  simp [solve, factor, applyFact, hn, hX, reshape, matVec_size, Except.bind]

theorem call_cholesky_conj (conj : K → K) (isPos : K → Bool) (cb : Csr K → Arr K → Except String (Arr K))
    (o : Opts K) (A : Csr K) (b : Arr K) (hn : b.data.size = A.n) (hz : nnz A ≠ 0) (X : Dense K)
    (hpd : isHPD conj isPos (toDense A A.n) A.n = true)
    (hX : inverse? conj (toDense A A.n) A.n = some X) :
    (call conj isPos cb .cholesky o {} A b).2.1 = .ok ⟨matVec X A.n A.n b.data, b.shape⟩ := by
  unfold call
  rw [if_neg hz]
  simp [solve, factor, applyFact, hn, hX, hpd, reshape, matVec_size, Except.bind]

theorem call_splu_conj (conj : K → K) (isPos : K → Bool) (cb : Csr K → Arr K → Except String (Arr K))
    (o : Opts K) (A : Csr K) (b : Arr K) (hn : b.data.size = A.n) (hz : nnz A ≠ 0) (X : Dense K)
    (hX : inverse? conj (submat (toDense A A.n) (nzCols A) (nzCols A)) (nzCols A).length = some X) :
    (call conj isPos cb .splu o {} A b).2.1 =
      .ok ⟨scatter (nzCols A) (matVec X (nzCols A).length (nzCols A).length (gather (nzCols A) b.data)) A.n, b.shape⟩ := by
  unfold call
  rw [if_neg hz]
  simp [solve, factor, applyFact, hn, hX, reshape, scatter_size, Except.bind]

theorem inverse?_of_isInv_conj (conj : K → K) (M : Dense K) (n : Nat) (h : isInv M (pinvD conj M n) n = true) :
    inverse? conj M n = some (pinvD conj M n) := by
  unfold inverse?; simp [h]

/-- **direct-solver clause with a conjugation** (`pinv` on a nonsingular matrix, `lu`, `cholesky`): when
the computed `pinvD conj` is certified to be the inverse (and `isHPD` holds for `cholesky`), a fresh
solver returns, in the shape of `b`, the unique solution of `A x = b` -/
theorem direct_call_solves_conj (conj : K → K) (isPos : K → Bool) (cb : Csr K → Arr K → Except String (Arr K))
    (o : Opts K) (A : Csr K) (b : Arr K) (hn : b.data.size = A.n) (hz : nnz A ≠ 0)
    (k : Kind) (hk : k = .pinv ∨ k = .lu ∨ (k = .cholesky ∧ isHPD conj isPos (toDense A A.n) A.n = true))
    (hc : isInv (toDense A A.n) (pinvD conj (toDense A A.n) A.n) A.n = true) :
    ∃ x, (call conj isPos cb k o {} A b).2.1 = .ok x ∧ x.shape = b.shape ∧
      toMat (toDense A A.n) A.n *ᵥ toVec x.data A.n = toVec b.data A.n ∧
      ∀ y, toMat (toDense A A.n) A.n *ᵥ y = toVec b.data A.n → y = toVec x.data A.n := by
  have hcall : (call conj isPos cb k o {} A b).2.1 =
      .ok ⟨matVec (pinvD conj (toDense A A.n) A.n) A.n A.n b.data, b.shape⟩ := by
    rcases hk with rfl | rfl | ⟨rfl, hpd⟩
    · exact call_pinv_conj conj isPos cb o A b hn hz
    · exact call_lu_conj conj isPos cb o A b hn hz _ (inverse?_of_isInv_conj conj _ _ hc)
    · exact call_cholesky_conj conj isPos cb o A b hn hz _ hpd (inverse?_of_isInv_conj conj _ _ hc)
  refine ⟨_, hcall, rfl, ?_⟩
  simp only [toVec_matVec]
  exact C16LA.inverse_solution_unique _ _ (isInv_sound _ _ _ hc) _

/-- **sparse LU clause with a conjugation**: as `splu_call_spec`, for every `conj` -/
theorem splu_call_spec_conj (conj : K → K) (isPos : K → Bool) (cb : Csr K → Arr K → Except String (Arr K))
    (o : Opts K) (A : Csr K) (b : Arr K) (hn : b.data.size = A.n) (hz : nnz A ≠ 0)
    (hc : isInv (submat (toDense A A.n) (nzCols A) (nzCols A))
            (pinvD conj (submat (toDense A A.n) (nzCols A) (nzCols A)) (nzCols A).length) (nzCols A).length = true) :
    ∃ x, (call conj isPos cb .splu o {} A b).2.1 = .ok x ∧ x.shape = b.shape ∧
      (∀ k, (toMat (toDense A A.n) A.n *ᵥ toVec x.data A.n) (selIdx (nzCols A) A.n (nzCols_lt A) k) =
              toVec b.data A.n (selIdx (nzCols A) A.n (nzCols_lt A) k)) ∧
      (∀ j, (∀ k, selIdx (nzCols A) A.n (nzCols_lt A) k ≠ j) → toVec x.data A.n j = 0) ∧
      (∀ i, (∀ j, toMat (toDense A A.n) A.n i j = 0) → (toMat (toDense A A.n) A.n *ᵥ toVec x.data A.n) i = 0) := by
  refine ⟨_, call_splu_conj conj isPos cb o A b hn hz _ (inverse?_of_isInv_conj conj _ _ hc), rfl, ?_⟩
  simp only [toVec_scatter _ _ _ (nzCols_lt A) (nzCols_nodup A), toVec_matVec]
  apply C16LA.compress_solves
  have hinv := isInv_sound _ _ _ hc
  rw [toMat_submat _ _ A.n (nzCols_lt A)] at hinv
  rw [toVec_gather _ _ A.n (nzCols_lt A)]
  exact (C16LA.inverse_solution_unique _ _ hinv _).1

/-- ... and the whole system when the rows outside `nz` are zero and `b` vanishes there -/
theorem splu_call_solves_all_conj (conj : K → K) (isPos : K → Bool) (cb : Csr K → Arr K → Except String (Arr K))
    (o : Opts K) (A : Csr K) (b : Arr K) (hn : b.data.size = A.n) (hz : nnz A ≠ 0)
    (hc : isInv (submat (toDense A A.n) (nzCols A) (nzCols A))
            (pinvD conj (submat (toDense A A.n) (nzCols A) (nzCols A)) (nzCols A).length) (nzCols A).length = true)
    (hrows : ∀ i : Fin A.n, (∀ k, selIdx (nzCols A) A.n (nzCols_lt A) k ≠ i) →
      (∀ j, toMat (toDense A A.n) A.n i j = 0) ∧ toVec b.data A.n i = 0) :
    ∃ x, (call conj isPos cb .splu o {} A b).2.1 = .ok x ∧ x.shape = b.shape ∧
      toMat (toDense A A.n) A.n *ᵥ toVec x.data A.n = toVec b.data A.n := by
  refine ⟨_, call_splu_conj conj isPos cb o A b hn hz _ (inverse?_of_isInv_conj conj _ _ hc), rfl, ?_⟩
  simp only [toVec_scatter _ _ _ (nzCols_lt A) (nzCols_nodup A), toVec_matVec]
  apply C16LA.compress_solves_all _ _ _ _ _ hrows
  have hinv := isInv_sound _ _ _ hc
  rw [toMat_submat _ _ A.n (nzCols_lt A)] at hinv
  rw [toVec_gather _ _ A.n (nzCols_lt A)]
  exact (C16LA.inverse_solution_unique _ _ hinv _).1

variable [StarRing K] {R : Type} [Field R] [LinearOrder R] [IsStrictOrderedRing R]

/-- **pseudo-inverse clause with the conjugate transpose**: a fresh `pinv` solver of the model run with
`conj = star` returns, in the shape of `b`, a least-squares solution of `A x = b` of minimum 2-norm --
singular matrices included -- provided `pinvD star` passes the Penrose certificate `isPinv star`;
and it is the only such vector -/
theorem pinv_call_min_norm_star (N : ReForm K R) (isPos : K → Bool)
    (cb : Csr K → Arr K → Except String (Arr K)) (o : Opts K)
    (A : Csr K) (b : Arr K) (hn : b.data.size = A.n) (hz : nnz A ≠ 0)
    (hc : isPinv star (toDense A A.n) (pinvD star (toDense A A.n) A.n) A.n = true) :
    ∃ x, (call star isPos cb .pinv o {} A b).2.1 = .ok x ∧ x.shape = b.shape ∧
      (∀ y, N.nrm (toMat (toDense A A.n) A.n *ᵥ toVec x.data A.n - toVec b.data A.n) ≤
            N.nrm (toMat (toDense A A.n) A.n *ᵥ y - toVec b.data A.n)) ∧
      (∀ y, N.nrm (toMat (toDense A A.n) A.n *ᵥ y - toVec b.data A.n) ≤
            N.nrm (toMat (toDense A A.n) A.n *ᵥ toVec x.data A.n - toVec b.data A.n) →
          N.nrm (toVec x.data A.n) ≤ N.nrm y ∧ (N.nrm y ≤ N.nrm (toVec x.data A.n) → y = toVec x.data A.n)) := by
  refine ⟨_, call_pinv_conj star isPos cb o A b hn hz, rfl, ?_, ?_⟩
  · intro y
    simp only [toVec_matVec]
    exact penroseH_least_squares N _ _ (isPinv_sound_star _ _ _ hc) _ y
  · intro y hy
    simp only [toVec_matVec] at hy ⊢
    exact ⟨penroseH_min_norm N _ _ (isPinv_sound_star _ _ _ hc) _ y hy,
      penroseH_min_norm_unique N _ _ (isPinv_sound_star _ _ _ hc) _ y hy⟩

end calls

/-- **pseudo-inverse clause, complex runs of the driver** (`c16_run c`: `conj = CRat.conj`): the vector
the model returns minimises `‖A y − b‖₂` over *all complex* `y`, has minimum 2-norm among the minimisers
and is the only minimiser of that norm.  `toMatC`, `toVecC`: the arrays read as complex matrices / vectors -/
theorem pinv_call_min_norm_complex (isPos : CRat → Bool)
    (cb : Csr CRat → Arr CRat → Except String (Arr CRat)) (o : Opts CRat)
    (A : Csr CRat) (b : Arr CRat) (hn : b.data.size = A.n) (hz : nnz A ≠ 0)
    (hc : isPinv CRat.conj (toDense A A.n) (pinvD CRat.conj (toDense A A.n) A.n) A.n = true) :
    ∃ x, (call CRat.conj isPos cb .pinv o {} A b).2.1 = .ok x ∧ x.shape = b.shape ∧
      (∀ y : Fin A.n → ℂ,
          (ReForm.rclike ℂ).nrm (toMatC (toDense A A.n) A.n *ᵥ toVecC x.data A.n - toVecC b.data A.n) ≤
          (ReForm.rclike ℂ).nrm (toMatC (toDense A A.n) A.n *ᵥ y - toVecC b.data A.n)) ∧
      (∀ y : Fin A.n → ℂ,
          (ReForm.rclike ℂ).nrm (toMatC (toDense A A.n) A.n *ᵥ y - toVecC b.data A.n) ≤
          (ReForm.rclike ℂ).nrm (toMatC (toDense A A.n) A.n *ᵥ toVecC x.data A.n - toVecC b.data A.n) →
          (ReForm.rclike ℂ).nrm (toVecC x.data A.n) ≤ (ReForm.rclike ℂ).nrm y ∧
          ((ReForm.rclike ℂ).nrm y ≤ (ReForm.rclike ℂ).nrm (toVecC x.data A.n) → y = toVecC x.data A.n)) := by
  refine ⟨_, call_pinv_conj CRat.conj isPos cb o A b hn hz, rfl, ?_, ?_⟩
  · intro y
    simp only [toVecC_matVec]
    exact penroseH_least_squares _ _ _ (isPinv_sound_complex _ _ _ hc) _ y
  · intro y hy
    simp only [toVecC_matVec] at hy ⊢
    exact ⟨penroseH_min_norm _ _ _ (isPinv_sound_complex _ _ _ hc) _ y hy,
      penroseH_min_norm_unique _ _ _ (isPinv_sound_complex _ _ _ hc) _ y hy⟩

/-- **direct solvers, complex runs**: the returned vector is the unique *complex* solution -/
theorem direct_call_solves_complex (isPos : CRat → Bool)
    (cb : Csr CRat → Arr CRat → Except String (Arr CRat)) (o : Opts CRat)
    (A : Csr CRat) (b : Arr CRat) (hn : b.data.size = A.n) (hz : nnz A ≠ 0)
    (k : Kind) (hk : k = .pinv ∨ k = .lu ∨ (k = .cholesky ∧ isHPD CRat.conj isPos (toDense A A.n) A.n = true))
    (hc : isInv (toDense A A.n) (pinvD CRat.conj (toDense A A.n) A.n) A.n = true) :
    ∃ x, (call CRat.conj isPos cb k o {} A b).2.1 = .ok x ∧ x.shape = b.shape ∧
      toMatC (toDense A A.n) A.n *ᵥ toVecC x.data A.n = toVecC b.data A.n ∧
      ∀ y : Fin A.n → ℂ, toMatC (toDense A A.n) A.n *ᵥ y = toVecC b.data A.n → y = toVecC x.data A.n := by
  obtain ⟨x, hx, hs, -, -⟩ := direct_call_solves_conj CRat.conj isPos cb o A b hn hz k hk hc
  have hcall : (call CRat.conj isPos cb k o {} A b).2.1 =
      .ok ⟨matVec (pinvD CRat.conj (toDense A A.n) A.n) A.n A.n b.data, b.shape⟩ := by
    rcases hk with rfl | rfl | ⟨rfl, hpd⟩
    · exact call_pinv_conj CRat.conj isPos cb o A b hn hz
    · exact call_lu_conj CRat.conj isPos cb o A b hn hz _ (inverse?_of_isInv_conj CRat.conj _ _ hc)
    · exact call_cholesky_conj CRat.conj isPos cb o A b hn hz _ hpd (inverse?_of_isInv_conj CRat.conj _ _ hc)
  refine ⟨_, hcall, rfl, ?_⟩
  simp only [toVecC_matVec]
  exact C16LA.inverse_solution_unique _ _ (isInv_sound_complex _ _ _ hc) _

/-- the squared norm of `ReForm.rclike` is the usual one -/
theorem rclike_nrm_eq_sum {𝕜 : Type*} [RCLike 𝕜] {n : Type*} [Fintype n] (v : n → 𝕜) :
    (ReForm.rclike 𝕜).nrm v = ∑ i, ‖v i‖ ^ 2 := by
  unfold ReForm.nrm dotProduct
  rw [map_sum]
  apply Finset.sum_congr rfl
  intro i _
  show RCLike.re (star (v i) * v i) = ‖v i‖ ^ 2
  rw [RCLike.star_def, RCLike.conj_mul]
  norm_cast

end PyamgV.C16X

/-! ## Part 6: the Hermitian-positive-definite certificate `isHPD`

`isHPD conj isPos M n` = `M = Mᴴ` and every pivot of the elimination without pivoting passes `isPos`
(real and positive).  Soundness: then `M` is Hermitian and `Re (xᴴ M x) > 0` for every `x ≠ 0`.
Proof: one elimination step replaces the trailing block by its Schur complement `S`, and
`xᴴ M x = |w|² / p + x'ᴴ S x'` (`w = (M x)_c`, `x'` = `x` without its `c`-th entry). -/
namespace PyamgV.C16X
open Matrix PyamgV.K PyamgV.C02 PyamgV.C16
set_option linter.unusedSectionVars false

section hpd
variable {K : Type} [Field K] [StarRing K] {R : Type} [Field R] [LinearOrder R] [IsStrictOrderedRing R]
variable (N : ReForm K R) {n : Nat}

/-- one step of the elimination on matrices -/
def elimStep (A : Matrix (Fin n) (Fin n) K) (c : Fin n) : Matrix (Fin n) (Fin n) K :=
  Matrix.of fun i j => if i ≤ c then A i j else A i j - A i c / A c c * A c j

/-- the block with indices `≥ c` is Hermitian -/
def HermFrom (c : Nat) (A : Matrix (Fin n) (Fin n) K) : Prop :=
  ∀ i j : Fin n, c ≤ i.1 → c ≤ j.1 → star (A i j) = A j i

/-- the block with indices `≥ c` is positive definite -/
def PDFrom (c : Nat) (A : Matrix (Fin n) (Fin n) K) : Prop :=
  ∀ x : Fin n → K, (∀ i : Fin n, i.1 < c → x i = 0) → x ≠ 0 → 0 < N.re (star x ⬝ᵥ (A *ᵥ x))

theorem re_one_pos : 0 < N.re (1 : K) := by
  have h0 := N.nonneg (1 : K)
  rw [star_one, one_mul] at h0
  rcases lt_or_eq_of_le h0 with h | h
  · exact h
  · exact absurd (N.definite 1 (by rw [star_one, one_mul]; exact h.symm)) one_ne_zero

theorem re_inv_pos {p : K} (hs : star p = p) (hp : 0 < N.re p) : star p⁻¹ = p⁻¹ ∧ 0 < N.re p⁻¹ := by
  have hp0 : p ≠ 0 := by
    rintro rfl; rw [map_zero] at hp; exact lt_irrefl _ hp
  have h1 : star p⁻¹ = p⁻¹ := by rw [star_inv₀, hs]
  refine ⟨h1, ?_⟩
  have h2 := N.re_mul_real p p⁻¹ hs
  rw [mul_inv_cancel₀ hp0] at h2
  have h3 := re_one_pos N
  rw [h2] at h3
  exact (pos_iff_pos_of_mul_pos h3).1 hp

theorem re_normsq_div {p : K} (hs : star p = p) (hp : 0 < N.re p) (w : K) :
    0 ≤ N.re (star w * w / p) ∧ (w ≠ 0 → 0 < N.re (star w * w / p)) := by
  obtain ⟨h1, h2⟩ := re_inv_pos N hs hp
  have e : star w * w / p = p⁻¹ * (star w * w) := by rw [div_eq_mul_inv, mul_comm]
  rw [e, N.re_mul_real _ _ h1]
  refine ⟨mul_nonneg h2.le (N.nonneg w), fun hw => mul_pos h2 ?_⟩
  rcases lt_or_eq_of_le (N.nonneg w) with h | h
  · exact h
  · exact absurd (N.definite w h.symm) hw

theorem herm_step (A : Matrix (Fin n) (Fin n) K) (c : Fin n) (hH : HermFrom c.1 A) :
    HermFrom (c.1 + 1) (elimStep A c) := by
  intro i j hi hj
  have hic : ¬ i ≤ c := by rw [Fin.le_def]; omega
  have hjc : ¬ j ≤ c := by rw [Fin.le_def]; omega
  show star (if i ≤ c then A i j else A i j - A i c / A c c * A c j) =
    (if j ≤ c then A j i else A j i - A j c / A c c * A c i)
  rw [if_neg hic, if_neg hjc, star_sub, star_mul', star_div₀, hH i j (by omega) (by omega),
    hH i c (by omega) (le_refl _), hH c j (le_refl _) (by omega), hH c c (le_refl _) (le_refl _)]
  ring

/-- the Schur-complement identity for one elimination step -/
theorem schur_identity (A : Matrix (Fin n) (Fin n) K) (c : Fin n) (hH : HermFrom c.1 A) (hp : A c c ≠ 0)
    (x : Fin n → K) (hx : ∀ i : Fin n, i.1 < c.1 → x i = 0) :
    star x ⬝ᵥ (A *ᵥ x) =
      star ((A *ᵥ x) c) * (A *ᵥ x) c / A c c +
        star (Function.update x c 0) ⬝ᵥ (elimStep A c *ᵥ Function.update x c 0) := by
  set w := (A *ᵥ x) c with hw
  set x' := Function.update x c 0 with hx'
  have hx'c : x' c = 0 := by rw [hx', Function.update_self]
  have hx'ne : ∀ j, j ≠ c → x' j = x j := fun j hj => by rw [hx', Function.update_of_ne hj]
  -- rows below the pivot
  have hrow : ∀ i : Fin n, ¬ i ≤ c → (elimStep A c *ᵥ x') i = (A *ᵥ x) i - A i c / A c c * w := by
    intro i hi
    have : ∀ j, elimStep A c i j * x' j = A i j * x j - A i c / A c c * (A c j * x j) := by
      intro j
      show (if i ≤ c then A i j else A i j - A i c / A c c * A c j) * x' j = _
      rw [if_neg hi]
      by_cases hj : j = c
      · subst hj; rw [hx'c]; field_simp; ring
      · rw [hx'ne j hj]; ring
    show ∑ j, elimStep A c i j * x' j = (∑ j, A i j * x j) - A i c / A c c * ∑ j, A c j * x j
    rw [Finset.mul_sum, ← Finset.sum_sub_distrib]
    exact Finset.sum_congr rfl (fun j _ => this j)
  -- star w
  have hsw : star w = ∑ i, star (x i) * A i c := by
    rw [hw]
    show star (∑ j, A c j * x j) = _
    rw [star_sum]
    apply Finset.sum_congr rfl
    intro i _
    by_cases hi : i.1 < c.1
    · rw [hx i hi]; simp
    · rw [star_mul', hH c i (le_refl _) (by omega), mul_comm]
  have hterm : ∀ i, star (x i) * (A *ᵥ x) i =
      star (x i) * A i c / A c c * w + star (x' i) * (elimStep A c *ᵥ x') i := by
    intro i
    by_cases hi : i.1 < c.1
    · have : x' i = 0 := by rw [hx'ne i (by intro h; rw [h] at hi; exact lt_irrefl _ hi), hx i hi]
      rw [hx i hi, this]; simp
    · by_cases hic : i = c
      · subst hic
        rw [hx'c]; simp only [star_zero, zero_mul, add_zero]
        rw [← hw]; field_simp
      · have hgt : ¬ i ≤ c := by
          rw [Fin.le_def]; intro hle
          exact hic (Fin.ext (by omega))
        rw [hrow i hgt, hx'ne i hic]; ring
  show ∑ i, star (x i) * (A *ᵥ x) i = star w * w / A c c + ∑ i, star (x' i) * (elimStep A c *ᵥ x') i
  rw [Finset.sum_congr rfl (fun i _ => hterm i), Finset.sum_add_distrib, hsw]
  congr 1
  rw [Finset.sum_mul, div_eq_mul_inv, Finset.sum_mul]
  apply Finset.sum_congr rfl
  intro i _; ring

theorem pd_step (A : Matrix (Fin n) (Fin n) K) (c : Fin n) (hH : HermFrom c.1 A) (hp : 0 < N.re (A c c))
    (hpd : PDFrom N (c.1 + 1) (elimStep A c)) : PDFrom N c.1 A := by
  intro x hx hx0
  have hs : star (A c c) = A c c := hH c c (le_refl _) (le_refl _)
  have hp0 : A c c ≠ 0 := by
    intro h; rw [h, map_zero] at hp; exact lt_irrefl _ hp
  rw [schur_identity A c hH hp0 x hx, map_add]
  obtain ⟨h1, h2⟩ := re_normsq_div N hs hp ((A *ᵥ x) c)
  by_cases hx' : Function.update x c 0 = 0
  · -- `x` is a multiple of the unit vector `e_c`
    have hxj : ∀ j, j ≠ c → x j = 0 := by
      intro j hj
      have := congrFun hx' j
      rwa [Function.update_of_ne hj] at this
    have hxc : x c ≠ 0 := by
      intro h
      apply hx0
      funext j
      by_cases hj : j = c
      · rw [hj, h]; rfl
      · exact hxj j hj
    have hw : (A *ᵥ x) c = A c c * x c := by
      show ∑ j, A c j * x j = _
      rw [Finset.sum_eq_single c]
      · intro j _ hj; rw [hxj j hj, mul_zero]
      · intro h; exact absurd (Finset.mem_univ c) h
    have hwne : (A *ᵥ x) c ≠ 0 := by rw [hw]; exact mul_ne_zero hp0 hxc
    rw [hx', mulVec_zero, dotProduct_zero, map_zero, add_zero]
    exact h2 hwne
  · have hsup : ∀ i : Fin n, i.1 < c.1 + 1 → Function.update x c 0 i = 0 := by
      intro i hi
      by_cases hic : i = c
      · rw [hic, Function.update_self]
      · rw [Function.update_of_ne hic]
        apply hx
        have : i.1 ≠ c.1 := fun h => hic (Fin.ext h)
        omega
    have := hpd _ hsup hx'
    linarith

end hpd
end PyamgV.C16X

namespace PyamgV.C16X
open Matrix PyamgV.K PyamgV.C02 PyamgV.C16
set_option linter.unusedSectionVars false

section hpdArr
variable {K : Type} [Field K] [DecidableEq K] [StarRing K]
variable {L : Type} [Field L] [StarRing L] {R : Type} [Field R] [LinearOrder R] [IsStrictOrderedRing R]

/-- the step function of `isHPD` (a copy of its local definition: `isHPD_eq` holds by `rfl`) -/
def hpdStep (isPos : K → Bool) (n : Nat) : Option (Dense K) → Nat → Option (Dense K) := fun st c =>
  match st with
  | Option.none => Option.none
  | some M =>
    let p := rdD M c c
    if isPos p then
      some ((Array.range n).map (fun i =>
        if i ≤ c then (Array.range n).map (fun j => rdD M i j)
        else
          let f := rdD M i c / p
          (Array.range n).map (fun j => rdD M i j - f * rdD M c j)))
    else Option.none

theorem isHPD_eq (conj : K → K) (isPos : K → Bool) (M : Dense K) (n : Nat) :
    isHPD conj isPos M n =
      (decide (conjT conj M n n = normalize M n n) &&
        ((List.range n).foldl (hpdStep isPos n) (some M)).isSome) := rfl

theorem hpd_foldl_none (isPos : K → Bool) (n : Nat) (l : List Nat) :
    l.foldl (hpdStep isPos n) Option.none = Option.none := by
  induction l with
  | nil => rfl
  | cons c l ih => exact ih

theorem hpdStep_some (isPos : K → Bool) (n : Nat) (M M' : Dense K) (c : Nat) (hc : c < n)
    (h : hpdStep isPos n (some M) c = some M') :
    isPos (rdD M c c) = true ∧ toMat M' n = elimStep (toMat M n) ⟨c, hc⟩ := by
  unfold hpdStep at h
  simp only at h
  by_cases hp : isPos (rdD M c c) = true
  · rw [if_pos hp] at h
    refine ⟨hp, ?_⟩
    have h' := Option.some.inj h
    rw [← h']
    ext i j
    rw [toMat_apply, rdD_range_map _ n i.1 j.1 i.2]
    show _ = if i ≤ (⟨c, hc⟩ : Fin n) then _ else _
    by_cases hic : i.1 ≤ c
    · rw [if_pos hic, if_pos (by rw [Fin.le_def]; exact hic), rd_range_map _ n j.1 j.2]; rfl
    · rw [if_neg hic, if_neg (by rw [Fin.le_def]; exact hic), rd_range_map _ n j.1 j.2]; rfl
  · rw [if_neg hp] at h; cases h

theorem elimStep_map (φ : K →+* L) {n : Nat} (A : Matrix (Fin n) (Fin n) K) (c : Fin n) :
    (elimStep A c).map φ = elimStep (A.map φ) c := by
  ext i j
  show φ (if i ≤ c then A i j else A i j - A i c / A c c * A c j) =
    if i ≤ c then φ (A i j) else φ (A i j) - φ (A i c) / φ (A c c) * φ (A c j)
  split
  · rfl
  · rw [map_sub, map_mul, map_div₀]

theorem HermFrom.map (φ : K →+* L) (hφ : ∀ z, φ (star z) = star (φ z)) {n c : Nat}
    {A : Matrix (Fin n) (Fin n) K} (h : HermFrom c A) : HermFrom c (A.map φ) := by
  intro i j hi hj
  show star (φ (A i j)) = φ (A j i)
  rw [← hφ, h i j hi hj]

/-- the fold of `isHPD` from column `c` on: all pivots positive implies the trailing block of the
matrix (read in any star field `L` containing `K`) is positive definite -/
theorem hpd_fold (N : ReForm L R) (φ : K →+* L) (hφ : ∀ z, φ (star z) = star (φ z))
    (isPos : K → Bool) (hpos : ∀ z, isPos z = true → 0 < N.re (φ z)) (n : Nat) :
    ∀ (k c : Nat), c + k = n → ∀ M : Dense K, HermFrom c (toMat M n) →
      ((List.range' c k).foldl (hpdStep isPos n) (some M)).isSome = true →
      PDFrom N c ((toMat M n).map φ) := by
  intro k
  induction k with
  | zero =>
    intro c hc M _ _ x hx hx0
    exfalso; apply hx0
    funext i
    exact hx i (by have := i.2; omega)
  | succ k ih =>
    intro c hc M hH hf
    have hcn : c < n := by omega
    rw [List.range'_succ, List.foldl_cons] at hf
    cases hs : hpdStep isPos n (some M) c with
    | none => rw [hs, hpd_foldl_none] at hf; cases hf
    | some M' =>
      rw [hs] at hf
      obtain ⟨hp, hM'⟩ := hpdStep_some isPos n M M' c hcn hs
      have hH' : HermFrom (c + 1) (toMat M' n) := by
        rw [hM']; exact herm_step (toMat M n) ⟨c, hcn⟩ hH
      have hpd' := ih (c + 1) (by omega) M' hH' hf
      rw [hM', elimStep_map] at hpd'
      exact pd_step N ((toMat M n).map φ) ⟨c, hcn⟩ (hH.map φ hφ) (hpos _ hp) hpd'

/-- **soundness of the Hermitian-positive-definite certificate**, general form: `K` the scalars of the
arrays, `L ⊇ K` the field the vectors `x` range over -/
theorem isHPD_sound_map (N : ReForm L R) (φ : K →+* L) (hφ : ∀ z, φ (star z) = star (φ z))
    (isPos : K → Bool) (hpos : ∀ z, isPos z = true → 0 < N.re (φ z)) (M : Dense K) (n : Nat)
    (h : isHPD star isPos M n = true) :
    ((toMat M n).map φ)ᴴ = (toMat M n).map φ ∧
    ∀ x : Fin n → L, x ≠ 0 → 0 < N.re (star x ⬝ᵥ ((toMat M n).map φ *ᵥ x)) := by
  rw [isHPD_eq] at h
  simp only [Bool.and_eq_true, decide_eq_true_eq] at h
  obtain ⟨h1, h2⟩ := h
  have e1 : (toMat M n)ᴴ = toMat M n := by
    have := congrArg (fun M => toMat M n) h1
    simpa only [toMat_conjT_star, toMat_normalize] using this
  have hs : Function.Semiconj φ star star := hφ
  refine ⟨by rw [← conjTranspose_map φ hs, e1], ?_⟩
  have hH : HermFrom 0 (toMat M n) := by
    intro i j _ _
    have := congrFun (congrFun e1 j) i
    rwa [conjTranspose_apply] at this
  rw [List.range_eq_range'] at h2
  have := hpd_fold N φ hφ isPos hpos n n 0 (by omega) M hH h2
  intro x hx
  exact this x (fun i hi => absurd hi (Nat.not_lt_zero _)) hx

end hpdArr
end PyamgV.C16X

/-! ## Part 7: `isHPD` as the driver evaluates it on complex input (`c16_hpd c`, the Cholesky branch of
`c16_run c`): `conj = CRat.conj`, `isPos = Drv.C16.posC` (imaginary part zero and real part positive) -/
namespace PyamgV.C16X
open Matrix PyamgV.K PyamgV.C02 PyamgV.C16

theorem posC_pos (z : CRat) (h : Drv.C16.posC z = true) : z.im = 0 ∧ 0 < z.re := by
  unfold Drv.C16.posC at h
  simpa only [Bool.and_eq_true, decide_eq_true_eq] using h

/-- over the Gaussian rationals -/
theorem isHPD_sound_crat (M : Dense CRat) (n : Nat) (h : isHPD CRat.conj Drv.C16.posC M n = true) :
    (toMat M n)ᴴ = toMat M n ∧
    ∀ x : Fin n → CRat, x ≠ 0 → 0 < (star x ⬝ᵥ (toMat M n *ᵥ x)).re := by
  have e : (toMat M n).map (RingHom.id CRat) = toMat M n := by ext i j; rfl
  have := isHPD_sound_map ReForm.crat (RingHom.id CRat) (fun _ => rfl) Drv.C16.posC
    (fun z hz => (posC_pos z hz).2) M n h
  rw [e] at this
  exact this

/-- **soundness of the complex `isHPD` certificate**: the complex matrix the array stands for is
Hermitian and `Re (xᴴ M x) > 0` for every complex `x ≠ 0` -/
theorem isHPD_sound_complex (M : Dense CRat) (n : Nat) (h : isHPD CRat.conj Drv.C16.posC M n = true) :
    (toMatC M n)ᴴ = toMatC M n ∧
    ∀ x : Fin n → ℂ, x ≠ 0 → 0 < (star x ⬝ᵥ (toMatC M n *ᵥ x)).re :=
  isHPD_sound_map (ReForm.rclike ℂ) CRat.toComplex CRat.toComplex_star Drv.C16.posC
    (fun z hz => by
      show 0 < ((z.re : ℚ) : ℝ)
      exact_mod_cast (posC_pos z hz).2) M n h

open ComplexOrder in
/-- ... i.e. the complex matrix is positive definite in Mathlib's sense (`Matrix.PosDef`) -/
theorem isHPD_posDef_complex (M : Dense CRat) (n : Nat) (h : isHPD CRat.conj Drv.C16.posC M n = true) :
    (toMatC M n).PosDef := by
  obtain ⟨h1, h2⟩ := isHPD_sound_complex M n h
  refine Matrix.PosDef.of_dotProduct_mulVec_pos h1 (fun x hx => ?_)
  rw [Complex.pos_iff]
  refine ⟨h2 x hx, ?_⟩
  have e : star (star x ⬝ᵥ (toMatC M n *ᵥ x)) = star x ⬝ᵥ (toMatC M n *ᵥ x) := by
    rw [← star_dotProduct, star_mulVec_dot, h1]
  exact (Complex.conj_eq_iff_im.1 e).symm

/-! the certificates in these statements are literally the ones the driver prints -/
example (n A : String) :
    Drv.C16.handle ["c16_pinv", "c", n, A] =
      some (let M := Drv.C16.parseCMat A
            let X := pinvD CRat.conj M (Drv.nat n)
            Drv.C16.showCMat X ++ "#" ++ Drv.C16.showB (isPinv CRat.conj M X (Drv.nat n)) ++ "#" ++
              Drv.C16.showB (isInv M X (Drv.nat n))) := rfl
example (n A : String) :
    Drv.C16.handle ["c16_hpd", "c", n, A] =
      some (Drv.C16.showB (isHPD CRat.conj Drv.C16.posC (Drv.C16.parseCMat A) (Drv.nat n))) := rfl

end PyamgV.C16X
