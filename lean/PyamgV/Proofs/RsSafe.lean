import PyamgV.Proofs.RsBucket4

/-! PyamgV (C17 for `rs_cf_splitting`): every index the bucket moves use is inside its array —
read off the bucket invariant `BInv` and the "visited positions hold decided nodes" invariant
`VInv`, both of which are proved to hold at every point of the main loop (`step_All`,
`init_AllInv`). These are the two places the source marks `//invalid write!`. With the `Ck`
rules each line below discharges one `rd_safe`/`wr_safe` side condition of the checked model. -/
namespace PyamgV.RS

/-- a node that is still undecided sits at an unvisited position -/
theorem pos_of_U {n L top1 : Nat} {s : St} (hB : BInv n L top1 s) (hV : VInv n top1 s)
    {k : Nat} (hk : k < n) (hU : rdI s.sp k = U) : rdN s.n2i k < top1 := by
  apply Classical.byContradiction
  intro hge
  obtain ⟨h1, h2⟩ := hB.p2 k hk
  have := hV (rdN s.n2i k) (by omega) h1
  rw [h2] at this
  exact this hU

/-- `incr`: "move k to the end of its interval and increment λ_k" -/
theorem incr_bounds {n L top1 : Nat} {s : St} (hB : BInv n L top1 s) (hV : VInv n top1 s)
    (hnL : n + 1 ≤ L) {k : Nat} (hk : k < n) (hU : rdI s.sp k = U)
    (hg : ¬ rdN s.lam k ≥ n - 1) :
    k < s.lam.size ∧ k < s.n2i.size ∧
    rdN s.lam k < s.iptr.size ∧ rdN s.lam k < s.icnt.size ∧
    rdN s.lam k + 1 < s.iptr.size ∧ rdN s.lam k + 1 < s.icnt.size ∧
    1 ≤ rdN s.iptr (rdN s.lam k) + rdN s.icnt (rdN s.lam k) ∧
    rdN s.n2i k < s.i2n.size ∧
    rdN s.iptr (rdN s.lam k) + rdN s.icnt (rdN s.lam k) - 1 < s.i2n.size ∧
    rdN s.i2n (rdN s.n2i k) < s.n2i.size ∧
    rdN s.i2n (rdN s.iptr (rdN s.lam k) + rdN s.icnt (rdN s.lam k) - 1) < s.n2i.size := by
  have hpos := pos_of_U hB hV hk hU
  obtain ⟨hold, hi2n⟩ := hB.p2 k hk
  have hblk := hB.blk (rdN s.n2i k) hpos
  have hlamAt : lamAt s (rdN s.n2i k) = rdN s.lam k := by unfold lamAt; rw [hi2n]
  rw [hlamAt] at hblk
  have hlamL := hB.lamL k hk
  have hnew := hB.blk' (rdN s.lam k) hlamL
    (rdN s.iptr (rdN s.lam k) + rdN s.icnt (rdN s.lam k) - 1) (by omega) (by omega)
  have htop := hB.top
  have hb := (hB.p1 _ (show rdN s.iptr (rdN s.lam k) + rdN s.icnt (rdN s.lam k) - 1 < n by omega)).1
  rw [hB.szl, hB.szn, hB.szp, hB.szc, hB.szi]
  refine ⟨hk, hk, hlamL, hlamL, by omega, by omega, by omega, hold, by omega, ?_, hb⟩
  rw [hi2n]; exact hk

/-- `decr`: "move j to the beginning of its interval and decrement λ_j" -/
theorem decr_bounds {n L top1 : Nat} {s : St} (hB : BInv n L top1 s) (hV : VInv n top1 s)
    {j : Nat} (hj : j < n) (hU : rdI s.sp j = U) (hg : ¬ rdN s.lam j = 0) :
    j < s.lam.size ∧ j < s.n2i.size ∧
    rdN s.lam j < s.iptr.size ∧ rdN s.lam j < s.icnt.size ∧
    1 ≤ rdN s.lam j ∧
    1 ≤ rdN s.icnt (rdN s.lam j) ∧
    rdN s.n2i j < s.i2n.size ∧
    rdN s.iptr (rdN s.lam j) < s.i2n.size ∧
    rdN s.i2n (rdN s.n2i j) < s.n2i.size ∧
    rdN s.i2n (rdN s.iptr (rdN s.lam j)) < s.n2i.size := by
  have hpos := pos_of_U hB hV hj hU
  obtain ⟨hold, hi2n⟩ := hB.p2 j hj
  have hblk := hB.blk (rdN s.n2i j) hpos
  have hlamAt : lamAt s (rdN s.n2i j) = rdN s.lam j := by unfold lamAt; rw [hi2n]
  rw [hlamAt] at hblk
  have hlamL := hB.lamL j hj
  have htop := hB.top
  have hnewlt : rdN s.iptr (rdN s.lam j) < n := by omega
  have hb := (hB.p1 _ hnewlt).1
  rw [hB.szl, hB.szn, hB.szp, hB.szc, hB.szi]
  refine ⟨hj, hj, hlamL, hlamL, by omega, by omega, hold, hnewlt, ?_, hb⟩
  rw [hi2n]; exact hj

/-- head of a main-loop iteration: `i = index_to_node[top]`, `interval_count[lambda[i]]--` -/
theorem step_bounds {n L top1 : Nat} {s : St} (hB : BInv n L top1 s) {top : Nat}
    (htop : top < top1) :
    top < s.i2n.size ∧ rdN s.i2n top < s.lam.size ∧
    rdN s.lam (rdN s.i2n top) < s.icnt.size ∧
    1 ≤ rdN s.icnt (rdN s.lam (rdN s.i2n top)) := by
  have h1 := hB.top
  have hi := (hB.p1 top (by omega)).1
  have hl := hB.lamL _ hi
  have hblk := hB.blk top htop
  unfold lamAt at hblk
  rw [hB.szi, hB.szl, hB.szc]
  exact ⟨by omega, hi, hl, by omega⟩

#print axioms incr_bounds
#print axioms decr_bounds
#print axioms step_bounds
end PyamgV.RS
