import PyamgV.Proofs.ExtC03YGen
import Mathlib.LinearAlgebra.Pi

/-! PyamgV (extension E55, C03): the recorded `gauss_seidel_ne` (Kaczmarz) and `jacobi_ne` calls of the scalar-polymorphic extended
cycle model are linear iterations of the level matrix, over any field and for any conjugation `conj` (`x += conj(a_i) δ`). -/
set_option linter.unusedSectionVars false
namespace PyamgV.C03Y
open PyamgV PyamgV.K Finset
open PyamgV.C03 (Cyc iterN)

variable {𝕜 : Type} [Field 𝕜] [DecidableEq 𝕜] (conj : 𝕜 → 𝕜)

/-! ## `gauss_seidel_ne` -/

/-- `conj` of row `i` of the CSR arrays as a vector -/
def lineV (M : Csr 𝕜) (i : Nat) : Fn 𝕜 := fun p => ExtC09.conjEntry conj M i p

theorem lineV_zero (M : Csr 𝕜) (hc : ColsOK M) (i : Nat) (hi : i < M.n) (p : Nat) (hp : M.n ≤ p) : lineV conj M i p = 0 := by
  unfold lineV ExtC09.conjEntry
  have : (M.jjs i).filter (fun jj => decide (rdN M.aj jj = p)) = [] := by
    apply List.filter_eq_nil_iff.2
    intro jj hjj
    have := hc i hi jj hjj
    simp; omega
  rw [this]; simp

/-- one Kaczmarz row step on functions: `x + ω D_i (b_i − ⟨a_i, x⟩) a_i` -/
def neF (M : Csr 𝕜) (D : Fn 𝕜) (ω : 𝕜) (i : Nat) : Fn 𝕜 → Fn 𝕜 → Fn 𝕜 :=
  fun x b => x + ((b i - ExtC09.csrRow M i x) * D i * ω) • lineV conj M i

/-- its rank-one operator -/
def neOp (M : Csr 𝕜) (D : Fn 𝕜) (ω : 𝕜) (i : Nat) : Fn 𝕜 →ₗ[𝕜] Fn 𝕜 :=
  (D i * ω) • (LinearMap.proj i : Fn 𝕜 →ₗ[𝕜] 𝕜).smulRight (lineV conj M i)

theorem ne_step_isLinIter (M : Csr 𝕜) (D : Fn 𝕜) (ω : 𝕜) (i : Nat) (hi : i < M.n) :
    IsLinIter (ExtC09.csrLin M) (neF conj M D ω i) (neOp conj M D ω i) := by
  intro x b
  unfold neF neOp
  rw [LinearMap.smul_apply, LinearMap.smulRight_apply, smul_smul]
  simp only [LinearMap.proj_apply, Pi.sub_apply, ExtC09.csrLin_apply, if_pos hi]
  congr 2; ring

theorem ne_step_refines (M : Csr 𝕜) (hc : ColsOK M) (Dinv : Array 𝕜) (ω : 𝕜) (i : Nat) (hi : i < M.n) :
    Refines M.n (fun x b => ExtC09.neStep conj ω M b Dinv x i) (neF conj M (ExtC09.vec Dinv) ω i) := by
  intro x b hx hb
  refine ⟨by rw [ExtC09.neStep_size, hx], ?_⟩
  funext p
  unfold neF
  simp only [Pi.add_apply, Pi.smul_apply, smul_eq_mul]
  by_cases hp : p < x.size
  · have := ExtC09.neStep_entry conj ω M b Dinv x i p hp
    unfold ExtC09.vec at this ⊢
    rw [this]
    have h : ExtC09.conjEntry conj M i p = lineV conj M i p := rfl
    rw [h]; ring
  · have h1 : ExtC09.vec (ExtC09.neStep conj ω M b Dinv x i) p = 0 :=
      ExtC09.rd_of_le _ _ (by rw [ExtC09.neStep_size]; omega)
    have h2 : ExtC09.vec x p = 0 := ExtC09.rd_of_le _ _ (by omega)
    rw [h1, h2, lineV_zero conj M hc i hi p (by omega)]; ring

/-- one directional pass over all rows -/
def nePassF (M : Csr 𝕜) (D : Fn 𝕜) (ω : 𝕜) (bw : Bool) : Fn 𝕜 → Fn 𝕜 → Fn 𝕜 :=
  fun x b => (dirRows M.n bw).foldl (fun x i => neF conj M D ω i x b) x

def nePassQ (M : Csr 𝕜) (D : Fn 𝕜) (ω : 𝕜) (bw : Bool) : Fn 𝕜 →ₗ[𝕜] Fn 𝕜 :=
  sweepM (ExtC09.csrLin M) ((dirRows M.n bw).map (neOp conj M D ω))

theorem ne_pass_isLinIter (M : Csr 𝕜) (D : Fn 𝕜) (ω : 𝕜) (bw : Bool) :
    IsLinIter (ExtC09.csrLin M) (nePassF conj M D ω bw) (nePassQ conj M D ω bw) :=
  isLinIter_foldl _ _ _ _ (fun i hi => ne_step_isLinIter conj M D ω i ((mem_dirRows _ _ _).1 hi))

theorem ne_pass_refines (M : Csr 𝕜) (hc : ColsOK M) (Dinv : Array 𝕜) (ω : 𝕜) (bw : Bool) :
    Refines M.n (fun x b => gsnePass conj ω M b Dinv bw x) (nePassF conj M (ExtC09.vec Dinv) ω bw) := by
  intro x b hx hb
  have := Refines.foldl (fun i x b => ExtC09.neStep conj ω M b Dinv x i) (fun i => neF conj M (ExtC09.vec Dinv) ω i)
    (dirRows M.n bw) (fun i hi => ne_step_refines conj M hc Dinv ω i ((mem_dirRows _ _ _).1 hi)) x b hx hb
  show (gsnePass conj ω M b Dinv bw x).size = M.n ∧ ExtC09.vec (gsnePass conj ω M b Dinv bw x) = _
  unfold K.gsnePass
  rw [ExtC09.gaussSeidelNE_eq, hx]
  exact this

/-- operator of the recorded `gauss_seidel_ne` call -/
noncomputable def gsneQ (ω : 𝕜) (M : Csr 𝕜) (it : Nat) (sw : Sweep) : Fn 𝕜 →ₗ[𝕜] Fn 𝕜 :=
  sweepQ (ExtC09.csrLin M) (nePassQ conj M (ExtC09.vec (normInv conj M)) ω) sw it

theorem gsne_refines (ω : 𝕜) (M : Csr 𝕜) (hc : ColsOK M) (it : Nat) (sw : Sweep) :
    Refines M.n (Sm.arr conj (.gsne ω M it sw)) (sweepF (nePassF conj M (ExtC09.vec (normInv conj M)) ω) sw it) := by
  have := sweep_refines (fun bw x b => gsnePass conj ω M b (normInv conj M) bw x) _
    (fun bw => ne_pass_refines conj M hc (normInv conj M) ω bw) sw it
  intro x b hx hb
  have h2 := this x b hx hb
  cases sw <;> exact h2

/-- **Kaczmarz (`gauss_seidel_ne`) in the extended cycle model is a linear iteration of the level matrix** -/
theorem gsne_semLin (ω : 𝕜) (M : Csr 𝕜) (it : Nat) (sw : Sweep) (hc : ColsOK M) :
    SemLin (csrDense M) (viaArr M.n (Sm.arr conj (.gsne ω M it sw))) (Tn M.n ∘ₗ gsneQ conj ω M it sw ∘ₗ Tn M.n) :=
  semLin_csr M hc _ _ _ (gsne_refines conj ω M hc it sw)
    (sweep_isLinIter _ _ _ (fun bw => ne_pass_isLinIter conj M _ ω bw) sw it)

/-! ## `jacobi_ne` -/

/-- `diag(A Aᵀ)⁻¹` on the first `n` coordinates (`get_diagonal(A, norm_eq=2, inv=True)`) -/
def neDinv (M : Csr 𝕜) : Fn 𝕜 →ₗ[𝕜] Fn 𝕜 where
  toFun r := fun i => if i < M.n then ExtC09.rowNormInv conj M i * r i else 0
  map_add' u v := by funext i; by_cases h : i < M.n <;> simp [h, mul_add]
  map_smul' c u := by funext i; by_cases h : i < M.n <;> simp [h, mul_left_comm]

/-- `Aᴴ` (entry-wise `conj` of the transpose) -/
def csrT (M : Csr 𝕜) : Fn 𝕜 →ₗ[𝕜] Fn 𝕜 where
  toFun v := fun p => if p < M.n then ∑ i ∈ range M.n, ExtC09.conjEntry conj M i p * v i else 0
  map_add' u v := by
    funext p; by_cases h : p < M.n <;> simp [h, mul_add, Finset.sum_add_distrib]
  map_smul' c u := by
    funext p; by_cases h : p < M.n
    · simp only [h, if_true, Pi.smul_apply, smul_eq_mul, RingHom.id_apply, Finset.mul_sum]
      apply Finset.sum_congr rfl; intro i _; ring
    · simp [h]

def jacneF (ω : 𝕜) (M : Csr 𝕜) : Fn 𝕜 → Fn 𝕜 → Fn 𝕜 :=
  fun x b => x + ω • csrT conj M (neDinv conj M (b - ExtC09.csrLin M x))

theorem jacne_step_refines (ω : 𝕜) (M : Csr 𝕜) :
    Refines M.n (fun x b => jacobiNE conj ω M (neDelta M b (normInv conj M) x) (List.range M.n) x) (jacneF conj ω M) := by
  intro x b hx hb
  refine ⟨by rw [ExtC09.jacobiNE_size, hx], ?_⟩
  funext p
  unfold jacneF
  simp only [Pi.add_apply, Pi.smul_apply, smul_eq_mul]
  by_cases hp : p < x.size
  · have hpn : p < M.n := by omega
    have := ExtC09.pyJacobiNE_step_entry conj ω M b x p hp hpn
    change ExtC09.vec (jacobiNE conj ω M (neDelta M b (normInv conj M) x) (List.range M.n) x) p = _ at this
    rw [this]
    show ExtC09.vec x p + _ = ExtC09.vec x p + ω * (csrT conj M (neDinv conj M (ExtC09.vec b - ExtC09.csrLin M (ExtC09.vec x)))) p
    congr 1
    simp only [csrT, neDinv, LinearMap.coe_mk, AddHom.coe_mk, if_pos hpn, Finset.mul_sum]
    apply Finset.sum_congr rfl
    intro i hi
    have hin : i < M.n := mem_range.1 hi
    simp only [if_pos hin, Pi.sub_apply, ExtC09.csrLin_apply]
    unfold ExtC09.vec
    ring
  · have h1 : ExtC09.vec (jacobiNE conj ω M (neDelta M b (normInv conj M) x) (List.range M.n) x) p = 0 :=
      ExtC09.rd_of_le _ _ (by rw [ExtC09.jacobiNE_size]; omega)
    have h2 : ExtC09.vec x p = 0 := ExtC09.rd_of_le _ _ (by omega)
    have h3 : ¬ p < M.n := by omega
    rw [h1, h2]
    simp [csrT, h3]

/-- operator of the recorded `jacobi_ne` call: `ω Aᵀ diag(A Aᵀ)⁻¹`, `iterations` times -/
noncomputable def jacneQ (ω : 𝕜) (M : Csr 𝕜) (it : Nat) : Fn 𝕜 →ₗ[𝕜] Fn 𝕜 :=
  powM (ExtC09.csrLin M) (ω • (csrT conj M ∘ₗ neDinv conj M)) it

theorem jacne_refines (ω : 𝕜) (M : Csr 𝕜) (it : Nat) :
    Refines M.n (Sm.arr conj (.jacne ω M it)) (fun x b => iter (jacneF conj ω M) b it x) :=
  (jacne_step_refines conj ω M).iter it

/-- **`jacobi_ne` in the extended cycle model is `x ← x + ω Aᵀ diag(A Aᵀ)⁻¹ (b − A x)`, `iterations` times** -/
theorem jacne_semLin (ω : 𝕜) (M : Csr 𝕜) (it : Nat) (hc : ColsOK M) :
    SemLin (csrDense M) (viaArr M.n (Sm.arr conj (.jacne ω M it))) (Tn M.n ∘ₗ jacneQ conj ω M it ∘ₗ Tn M.n) :=
  semLin_csr M hc _ _ _ (jacne_refines conj ω M it)
    (CF.IsLinIter.pow (jacobi_ne_isLinIter (ExtC09.csrLin M) (csrT conj M) (neDinv conj M) ω) it)

end PyamgV.C03Y
