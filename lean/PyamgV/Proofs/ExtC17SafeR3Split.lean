import PyamgV.Model.ExtC17CkR3Split
import PyamgV.Proofs.ExtC17Safe

/-! PyamgV (C17, extension E19): bounds-safety for the `Ck` models of `rs_cf_splitting_pass2` and
`approx_ideal_restriction_pass1` (`Model/ExtC17CkR3Split.lean`).  Core Lean only. -/
namespace PyamgV.C17
open PyamgV.Ck

set_option linter.unusedSectionVars false
set_option linter.unusedVariables false

/-! ### `rs_cf_splitting_pass2` -/

/-- loop state of a row: `splitting` keeps its length, `Cpt0` is `-1` or a node -/
def P2Inv (n : Nat) (st : Array Int × Int) : Prop := st.1.size = n ∧ st.2 < (n : Int)

theorem rsP2Entry_safe (n : Nat) (sp sj : Array Int) (hS : WFm (patS n sp sj) n) (row : Int)
    (r0 : 0 ≤ row) (r1 : row < (n : Int)) (jj : Int) (j1 : sp.getD row.toNat 0 ≤ jj)
    (j2 : jj < sp.getD (row.toNat + 1) 0) (st : Array Int × Int) (hst : P2Inv n st) :
    Safe (rsP2Entry n sp sj (sp.getD row.toNat 0) (sp.getD (row.toNat + 1) 0) jj st) (P2Inv n) := by
  have hin : row.toNat < n := by omega
  have hr := row_range_m (patS n sp sj) hS row.toNat hin jj j1 j2
  unfold rsP2Entry
  refine Safe.bind (rd_safe sj jj hr.1 hr.2.1) (fun j hj => ?_)
  have hc := col_ok (patS n sp sj) hS jj hr.1 hr.2.1 j hj
  have hjn : j.toNat < st.1.size := by rw [hst.1]; exact hc.2
  refine Safe.bind (rd_safe st.1 j hc.1 hjn) (fun sjv _ => ?_)
  by_cases hf : sjv = 0
  · rw [if_pos hf]
    refine Safe.bind (ffDep_safe (patS n sp sj) hS st.1 hst.1 row r0 r1 j hc.1 (by show j < (n : Int); omega)) (fun dep _ => ?_)
    by_cases hd : dep = true
    · rw [if_pos hd]; exact Safe.pure hst
    · rw [if_neg hd]
      by_cases hcp : st.2 < 0
      · rw [if_pos hcp]
        refine Safe.bind (wr_safe st.1 j 1 hc.1 hjn) (fun spl hspl => ?_)
        exact Safe.pure ⟨by show spl.size = n; rw [hspl, hst.1], by show j < (n : Int); omega⟩
      · rw [if_neg hcp]
        refine Safe.bind (wr_safe st.1 st.2 0 (by omega) (by have := hst.2; rw [hst.1]; omega)) (fun spl hspl => ?_)
        refine Safe.bind (wr_safe spl j 1 hc.1 (by rw [hspl]; exact hjn)) (fun spl2 hspl2 => ?_)
        exact Safe.pure ⟨by show spl2.size = n; rw [hspl2, hspl, hst.1], by show j < (n : Int); omega⟩
  · rw [if_neg hf]; exact Safe.pure hst

/-- **`rs_cf_splitting_pass2`**: `S` a structurally valid `n × n` pattern, `splitting` of length `n` (any
integer entries).  The write `splitting[Cpt0] = F_NODE` only happens with `Cpt0 ≥ 0`, and then `Cpt0` is
a column index met earlier in the same row. -/
theorem rsPass2_safe (n : Nat) (sp sj : Array Int) (hS : WFm (patS n sp sj) n) (splitting : Array Int)
    (hsp : splitting.size = n) :
    Safe (rsPass2 n sp sj splitting) (fun spl => spl.size = n) := by
  unfold rsPass2
  apply forRange_safe (fun spl : Array Int => spl.size = n) 0 (n : Int) _ _ hsp
  intro row r0 r1 spl hspl
  have hin : row.toNat < n := by omega
  refine Safe.bind (rd_safe spl row r0 (by rw [hspl]; exact hin)) (fun sr _ => ?_)
  by_cases hf : sr = 0
  · rw [if_pos hf]
    obtain ⟨q1, q2⟩ := rd_ap_safe (patS n sp sj) hS row r0 r1
    refine Safe.bind q1 (fun s hs => ?_)
    refine Safe.bind q2 (fun e he => ?_)
    have hs' : s = sp.getD row.toNat 0 := hs
    have he' : e = sp.getD (row.toNat + 1) 0 := he
    subst hs'; subst he'
    refine Safe.bind (P := P2Inv n) ?_ (fun r hr => Safe.pure hr.1)
    apply forRange_safe (P2Inv n) _ _ _ _ ⟨hspl, by show (-1 : Int) < (n : Int); omega⟩
    intro jj j1 j2 st hst
    exact rsP2Entry_safe n sp sj hS row r0 r1 jj j1 j2 st hst
  · rw [if_neg hf]; exact Safe.pure hspl

/-! ### `approx_ideal_restriction_pass1` -/

theorem airP1Dist2_safe (n : Nat) (cp cj : Array Int) (hC : WFm (patS n cp cj) n) (splitting : Array Int)
    (hsp : splitting.size = n) (tp : Int) (t0 : 0 ≤ tp) (t1 : tp < (n : Int)) (set : List Int) :
    Safe (airP1Dist2 cp cj splitting tp set) (fun _ => True) := by
  have hin : tp.toNat < n := by omega
  obtain ⟨q1, q2⟩ := rd_ap_safe (patS n cp cj) hC tp t0 t1
  unfold airP1Dist2
  refine Safe.bind q1 (fun s hs => ?_)
  refine Safe.bind q2 (fun e he => ?_)
  have hs' : s = cp.getD tp.toNat 0 := hs
  have he' : e = cp.getD (tp.toNat + 1) 0 := he
  subst hs'; subst he'
  apply forRange_safe (fun _ => True) _ _ _ _ trivial
  intro kk k1 k2 set' _
  have hr := row_range_m (patS n cp cj) hC tp.toNat hin kk k1 k2
  refine Safe.bind (rd_safe cj kk hr.1 hr.2.1) (fun c hc => ?_)
  have hcc := col_ok (patS n cp cj) hC kk hr.1 hr.2.1 c hc
  refine Safe.bind (rd_safe splitting c hcc.1 (by rw [hsp]; exact hcc.2)) (fun sc _ => ?_)
  by_cases h : sc = 0
  · rw [if_pos h]; exact Safe.pure trivial
  · rw [if_neg h]; exact Safe.pure trivial

theorem airP1Row_safe (n : Nat) (cp cj : Array Int) (hC : WFm (patS n cp cj) n) (splitting : Array Int)
    (hsp : splitting.size = n) (distance : Int) (cpoint : Int) (c0 : 0 ≤ cpoint) (c1 : cpoint < (n : Int)) :
    Safe (airP1Row cp cj splitting distance cpoint) (fun _ => True) := by
  have hin : cpoint.toNat < n := by omega
  obtain ⟨q1, q2⟩ := rd_ap_safe (patS n cp cj) hC cpoint c0 c1
  unfold airP1Row
  refine Safe.bind q1 (fun s hs => ?_)
  refine Safe.bind q2 (fun e he => ?_)
  have hs' : s = cp.getD cpoint.toNat 0 := hs
  have he' : e = cp.getD (cpoint.toNat + 1) 0 := he
  subst hs'; subst he'
  apply forRange_safe (fun _ => True) _ _ _ _ trivial
  intro i i1 i2 set _
  have hr := row_range_m (patS n cp cj) hC cpoint.toNat hin i i1 i2
  refine Safe.bind (rd_safe cj i hr.1 hr.2.1) (fun tp htp => ?_)
  have hcc := col_ok (patS n cp cj) hC i hr.1 hr.2.1 tp htp
  refine Safe.bind (rd_safe splitting tp hcc.1 (by rw [hsp]; exact hcc.2)) (fun stp _ => ?_)
  by_cases h : stp = 0
  · rw [if_pos h]
    by_cases hd : distance = 2
    · simp only [if_pos hd]
      exact airP1Dist2_safe n cp cj hC splitting hsp tp hcc.1 (by omega) _
    · simp only [if_neg hd]; exact Safe.pure trivial
  · rw [if_neg h]; exact Safe.pure trivial

/-- **`approx_ideal_restriction_pass1`**, any `distance`: `C` a structurally valid `n × n` pattern,
`splitting` of length `n`, every entry of `Cpts` a node, `Rp` with one entry more than `Cpts` -/
theorem airPass1_safe (n : Nat) (rp cp cj cpts splitting : Array Int) (hC : WFm (patS n cp cj) n)
    (hsp : splitting.size = n) (hcp : IdxIn cpts n) (hrp : rp.size = cpts.size + 1) (distance : Int) :
    Safe (airPass1 rp cp cj cpts splitting distance) (fun rp' => rp'.size = rp.size) := by
  unfold airPass1
  refine Safe.bind (wr_safe rp 0 0 (Int.le_refl 0) (by rw [hrp]; simp)) (fun rp0 hrp0 => ?_)
  refine Safe.bind (P := fun st : Array Int × Int => st.1.size = rp.size) ?_ (fun r hr => Safe.pure hr)
  apply forRange_safe (fun st : Array Int × Int => st.1.size = rp.size) _ _ _ _ hrp0
  intro row r0 r1 st hst
  refine Safe.bind (rd_safe cpts row r0 (by omega)) (fun cpoint hcpt => ?_)
  have hc := hcp row.toNat (by omega)
  have hcpt' : cpoint = cpts.getD row.toNat 0 := hcpt
  rw [← hcpt'] at hc
  refine Safe.bind (airP1Row_safe n cp cj hC splitting hsp distance cpoint hc.1 hc.2) (fun colinds _ => ?_)
  refine Safe.bind (wr_safe st.1 (row+1) _ (by omega) (by rw [hst, hrp]; omega)) (fun rp' hrp' => ?_)
  exact Safe.pure (by show rp'.size = rp.size; rw [hrp', hst])

end PyamgV.C17
