import PyamgV.Proofs.Energy

/-! PyamgV: abstract multigrid cycle (uniform carrier), V/W/F, energy non-expansiveness. -/
namespace PyamgV

variable {K : Type*} [Field K] [LinearOrder K] [IsStrictOrderedRing K]
variable {V : Type*} [AddCommGroup V] [Module K V]

inductive CType | V | W | F (k : Nat)

structure Level (K V : Type*) [Field K] [AddCommGroup V] [Module K V] where
  A : V →ₗ[K] V
  P : V →ₗ[K] V
  R : V →ₗ[K] V
  pre  : V → V → V
  post : V → V → V

/-- iterate `f · b` k times -/
def iter (f : V → V → V) (b : V) : Nat → V → V
  | 0, x => x
  | k+1, x => iter f b k (f x b)

/-- the recursion of `MultilevelSolver.__solve`; `[]` is the coarsest level (direct solve) -/
def cyc (solve : V → V) : CType → List (Level K V) → V → V → V
  | _, [], _, b => solve b
  | c, L :: rest, x, b =>
    let x1 := L.pre x b
    let rc := L.R (b - L.A x1)
    let xc : V := match c with
      | .V => cyc solve .V rest 0 rc
      | .W => cyc solve .W rest (cyc solve .W rest 0 rc) rc
      | .F k => iter (cyc solve .V rest) rc k (cyc solve (.F k) rest 0 rc)
    L.post (x1 + L.P xc) b

/-- an iteration never increases the energy of the error -/
def NonExp (E : EForm K V) (A : V →ₗ[K] V) (f : V → V → V) : Prop :=
  ∀ x b xs, A xs = b → E.en (xs - f x b) ≤ E.en (xs - x)

theorem NonExp.iter {E : EForm K V} {A : V →ₗ[K] V} {f : V → V → V} (h : NonExp E A f)
    (k : Nat) : ∀ x b xs, A xs = b → E.en (xs - iter f b k x) ≤ E.en (xs - x) := by
  induction k with
  | zero => intro x b xs _; simp [PyamgV.iter]
  | succ k ih =>
    intro x b xs hb
    simp only [PyamgV.iter]
    exact le_trans (ih (f x b) b xs hb) (h x b xs hb)

/-- pullback of an energy form along a prolongation -/
def EForm.pull (E : EForm K V) (P : V →ₗ[K] V) : EForm K V where
  a := (E.a.comp P).compl₂ P
  symm := by intro u v; simp [E.symm]
  nonneg := by intro v; simpa using E.nonneg (P v)

@[simp] theorem EForm.pull_en (E : EForm K V) (P : V →ₗ[K] V) (v : V) :
    (E.pull P).en v = E.en (P v) := by simp [EForm.pull, EForm.en]

/-- well-formed hierarchy below a level with matrix `A` and energy form `E`:
Galerkin coarse matrices, restriction adjoint to prolongation (expressed through the energy
forms), non-expansive smoothers, solvable coarse problems, exact coarsest solve. -/
def WFH (solve : V → V) : (A : V →ₗ[K] V) → (E : EForm K V) → List (Level K V) → Prop
  | A, _, [] => ∀ b xs, A xs = b → solve b = xs
  | A, E, L :: rest =>
      L.A = A ∧ NonExp E A L.pre ∧ NonExp E A L.post ∧
      -- `R (A e)` is the coarse right-hand side whose exact solution `w` satisfies the
      -- Galerkin orthogonality `a(P w, P v) = a(e, P v)`; this is `R = Pᵀ`, `A_c = R A P`.
      (∀ e w, (L.R ∘ₗ A ∘ₗ L.P) w = L.R (A e) → ∀ v, E.a (L.P w) (L.P v) = E.a e (L.P v)) ∧
      (∀ e, ∃ w, (L.R ∘ₗ A ∘ₗ L.P) w = L.R (A e)) ∧
      WFH solve (L.R ∘ₗ A ∘ₗ L.P) (E.pull L.P) rest

theorem cyc_nonexp (solve : V → V) (c : CType) :
    ∀ (Ls : List (Level K V)) (A : V →ₗ[K] V) (E : EForm K V),
      WFH solve A E Ls → NonExp E A (cyc solve c Ls) := by
  intro Ls
  induction Ls generalizing c with
  | nil =>
    intro A E h x b xs hb
    have : solve b = xs := h b xs hb
    simp only [cyc, this, sub_self]
    have h0 : E.en (0 : V) = 0 := by simp [EForm.en]
    rw [h0]; exact E.nonneg _
  | cons L rest ih =>
    intro A E h x b xs hb
    obtain ⟨hA, hpre, hpost, horth, hsolv, hrest⟩ := h
    subst hA
    -- unfold one level
    have hcoarse : ∀ c', NonExp (E.pull L.P) (L.R ∘ₗ L.A ∘ₗ L.P) (cyc solve c' rest) :=
      fun c' => ih c' _ _ hrest
    set x1 := L.pre x b with hx1
    set e1 := xs - x1 with he1
    have hrc : L.R (b - L.A x1) = L.R (L.A e1) := by
      rw [he1, ← hb]; simp only [map_sub]
    obtain ⟨w, hw⟩ := hsolv e1
    -- the coarse iterate, whatever the cycle type, does not increase the coarse energy error
    have hxc : ∀ xc : V, (E.pull L.P).en (w - xc) ≤ (E.pull L.P).en (w - 0) →
        E.en (xs - L.post (x1 + L.P xc) b) ≤ E.en (xs - x) := by
      intro xc hle
      have h1 := hpost (x1 + L.P xc) b xs hb
      have h2 : E.en (xs - (x1 + L.P xc)) ≤ E.en e1 := by
        have : xs - (x1 + L.P xc) = e1 - L.P xc := by rw [he1]; abel
        rw [this]
        apply cgc_nonexpansive E L.P e1 w xc (horth e1 w hw)
        simpa using hle
      exact le_trans h1 (le_trans h2 (hpre x b xs hb))
    have hwb : (L.R ∘ₗ L.A ∘ₗ L.P) w = L.R (b - L.A x1) := by rw [hrc]; exact hw
    cases c with
    | V =>
      simp only [cyc]
      exact hxc _ (hcoarse .V 0 _ w hwb)
    | W =>
      simp only [cyc]
      refine hxc _ (le_trans (hcoarse .W _ _ w hwb) (hcoarse .W 0 _ w hwb))
    | F k =>
      simp only [cyc]
      refine hxc _ (le_trans ((hcoarse .V).iter k _ _ w hwb) (hcoarse (.F k) 0 _ w hwb))

#print axioms cyc_nonexp
end PyamgV
