import PyamgV.Proofs.ExtC17R4Svd

/-! PyamgV (C17, extension E32, round 4): bounds-safety (and termination of the sweep loops) of the `Ck` model of `pinv_array`
(`Model/ExtC17R4Svd.lean`): `m` blocks of `n × n` values, the five work arrays of `n²` resp. `n` entries. -/
namespace PyamgV.C17R4
open PyamgV.Ck PyamgV.C17

set_option linter.unusedSectionVars false
set_option linter.unusedVariables false

variable {α : Type} [Inhabited α]

/-- the lengths of `AA` and of the work arrays -/
def PVInv (asz n : Nat) (st : PV α) : Prop :=
  st.aa.size = asz ∧ st.tran.size = n * n ∧ SVInv (n * n) (n * n) n st.sv ∧ st.sinv.size = n * n

/-- **`pinv_array`**: `AA` holds `m` blocks of `n × n` values, any `m`, `n`, both values of `TransA`: no access leaves `AA` or one
of the work arrays `Tran`, `U`, `V`, `SinvUh` (`n²` entries) and `S` (`n`), every `svd_jacobi` sweep loop terminates -/
theorem pinvArray_safe (o : SvOps α) (z : α) (aa : Array α) (m n : Nat) (transA : Bool)
    (haa : (m : Int) * ((n : Int) * (n : Int)) ≤ (aa.size : Int)) :
    Safe (pinvArray o z aa (m : Int) (n : Int) transA) (fun aa' => aa'.size = aa.size) := by
  have ensq : ((n : Int) * (n : Int)).toNat = n * n := by
    have : (n : Int) * (n : Int) = ((n * n : Nat) : Int) := by push_cast; rfl
    rw [this]; exact Int.toNat_natCast _
  have ecast : ((n * n : Nat) : Int) = (n : Int) * (n : Int) := by push_cast; rfl
  have hnn : 0 ≤ (n : Int) * (n : Int) := Int.mul_nonneg (by omega) (by omega)
  unfold pinvArray
  simp only [ensq, Int.toNat_natCast]
  refine Safe.bind (P := fun r : PV α × Int => PVInv aa.size n r.1) ?_ (fun r hr => Safe.pure hr.1)
  refine Safe.mono (forRange_safe_idx
    (fun (i : Int) (r : PV α × Int) => PVInv aa.size n r.1 ∧ r.2 = i * ((n : Int) * (n : Int)))
    0 (m : Int) (by omega) _ _ ⟨⟨rfl, by simp, ⟨by simp, by simp, by simp⟩, by simp⟩, by simp⟩ ?_) (fun r h => h.1)
  intro i i0 i1 st hst
  obtain ⟨⟨g1, g2, ⟨g3, g4, g5⟩, g6⟩, g7⟩ := hst
  -- the block `i` of `AA`
  have hblk : 0 ≤ st.2 ∧ st.2 + (n : Int) * (n : Int) ≤ (aa.size : Int) := by
    rw [g7]
    have a1 : 0 ≤ i * ((n : Int) * (n : Int)) := Int.mul_nonneg i0 hnn
    have a2 : (i + 1) * ((n : Int) * (n : Int)) ≤ (m : Int) * ((n : Int) * (n : Int)) :=
      Int.mul_le_mul_of_nonneg_right (by omega) hnn
    have a3 : (i + 1) * ((n : Int) * (n : Int)) = i * ((n : Int) * (n : Int)) + (n : Int) * (n : Int) := by ring
    omega
  have hsvI : SVInv (n * n) (n * n) n st.1.sv := ⟨g3, g4, g5⟩
  have hU : (n : Int) * (n : Int) ≤ ((n * n : Nat) : Int) := by rw [ecast]
  refine Safe.bind (P := fun p : Array α × SV α => p.1.size = n * n ∧ SVInv (n * n) (n * n) n p.2) ?_ (fun p hp => ?_)
  · cases transA with
    | true =>
      simp only [if_true]
      refine Safe.bind (transposeM_safe st.1.aa st.2 st.1.tran 0 n n hblk.1 (by rw [g1]; exact hblk.2) (by omega)
        (by rw [g2, ecast]; omega)) (fun tran htran => ?_)
      refine Safe.bind (svdJacobi_safe o tran 0 st.1.sv n n (by omega) (by rw [htran, g2, ecast]; omega) hsvI hU hU (by omega))
        (fun r hr => Safe.pure ⟨by show tran.size = n * n; rw [htran, g2], hr⟩)
    | false =>
      simp only [Bool.false_eq_true, if_false]
      refine Safe.bind (svdJacobi_safe o st.1.aa st.2 st.1.sv n n hblk.1 (by rw [g1]; exact hblk.2) hsvI hU hU (by omega))
        (fun r hr => Safe.pure ⟨g2, hr⟩)
  obtain ⟨p1, p2, p3, p4⟩ := hp
  refine Safe.bind (P := fun S : Array α => S.size = n) ?_ (fun S hS => ?_)
  · apply forRange_safe (fun S : Array α => S.size = n) _ _ _ _ p4
    intro j j0 j1 S h
    refine Safe.bind (rd_ok S j j0 (by rw [h]; omega)) (fun sj _ => ?_)
    split
    · exact Safe.pure h
    · exact Safe.mono (wr_ok S j _ j0 (by rw [h]; omega)) (fun a' h' => by rw [h', h])
  refine Safe.bind (P := fun r : Array α × Int => r.1.size = n * n) ?_ (fun r hr => ?_)
  · refine Safe.mono (forRange_safe_idx (fun (j : Int) (r : Array α × Int) => r.1.size = n * n ∧ r.2 = j * (n : Int))
      0 (n : Int) (by omega) _ _ ⟨g6, by simp⟩ ?_) (fun r h => h.1)
    intro j j0 j1 s hs
    refine Safe.bind (P := fun r : Array α × Int × Int => r.1.size = n * n ∧ r.2.1 = j * (n : Int) + (n : Int)) ?_
      (fun r hr => Safe.pure ⟨hr.1, by show r.2.1 = (j + 1) * (n : Int); rw [hr.2]; ring⟩)
    refine Safe.mono (forRange_safe_idx
      (fun (k : Int) (r : Array α × Int × Int) => r.1.size = n * n ∧ r.2.1 = j * (n : Int) + k ∧ r.2.2 = j + k * (n : Int))
      0 (n : Int) (by omega) _ _ ⟨hs.1, by show s.2 = j * (n : Int) + 0; rw [hs.2]; ring, by simp⟩ ?_) (fun r h => ⟨h.1, h.2.1⟩)
    intro k k0 k1 s2 hs2
    have i1 := idx_lt (i := j) (j := k) (A := (n : Int)) (B := (n : Int)) j0 j1 k0 k1
    have i2 := idx_lt (i := k) (j := j) (A := (n : Int)) (B := (n : Int)) k0 k1 j0 j1
    refine Safe.bind (rd_ok p.2.U s2.2.2 (by rw [hs2.2.2]; omega) (by rw [p2, ecast, hs2.2.2]; omega)) (fun u _ => ?_)
    refine Safe.bind (rd_ok S k k0 (by rw [hS]; omega)) (fun sk _ => ?_)
    refine Safe.bind (wr_ok s2.1 s2.2.1 _ (by rw [hs2.2.1]; omega) (by rw [hs2.1, ecast, hs2.2.1]; omega)) (fun sinv hsinv => ?_)
    exact Safe.pure ⟨by show sinv.size = n * n; rw [hsinv, hs2.1], by show s2.2.1 + 1 = j * (n : Int) + (k + 1); rw [hs2.2.1]; ring,
      by show s2.2.2 + (n : Int) = j + (k + 1) * (n : Int); rw [hs2.2.2]; ring⟩
  refine Safe.bind (transposeM_safe p.2.V 0 p.1 0 n n (by omega) (by rw [p3, ecast]; omega) (by omega) (by rw [p1, ecast]; omega))
    (fun tran htran => ?_)
  refine Safe.bind (gemmFF_safe o.toK tran 0 n n r.1 0 n n st.1.aa st.2 n n (by omega) (by rw [htran, p1, ecast]; omega) (by omega)
    (by rw [hr, ecast]; omega) hblk.1 (by rw [g1]; exact hblk.2) (Nat.le_refl n) (Int.le_refl _)) (fun aa' haa' => ?_)
  refine Safe.pure ⟨⟨by show aa'.size = aa.size; rw [haa', g1], by show tran.size = n * n; rw [htran, p1], ⟨p2, p3, hS⟩, hr⟩, ?_⟩
  show st.2 + (n : Int) * (n : Int) = (i + 1) * ((n : Int) * (n : Int))
  rw [g7]; ring

end PyamgV.C17R4
