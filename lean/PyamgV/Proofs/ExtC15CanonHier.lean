import PyamgV.Proofs.ExtC15CanonConv
import PyamgV.Proofs.ExtSpmmHier
import PyamgV.Proofs.ExtPairwise
import Mathlib.Algebra.Ring.Rat

/-! PyamgV (extension E41, C15): format independence of a whole hierarchy, without a hypothesis on the steps.

* `hierarchy_format_independent_canonical`: two inputs (COO / CSC / dense / BSR / CSR, each under the condition that
  makes its conversion canonical) with the same dense meaning and the same stored pattern are converted to identical
  arrays (`toCsr_arrays_unique`); every step of a constructor is a function of the arrays of the level matrix, so
  the loop `Coarsen.build` with ANY step function returns identical level lists -- nothing is assumed about
  strength, splitting / aggregation, interpolation or smoothing;
* `pstepOK_canon`: E27's hypothesis `PStepOK` ("the construction of `P` sees the dense meaning only") holds for every
  construction that reads the level matrix through the canonical form, whatever it does with the arrays afterwards;
* `pwStep_ok`, `pairwise_hierarchy_format_independent`: the hypothesis discharged for one real constructor path
  (`pairwise_solver`, one matching: strength model of C14, kernel model of C12), hence the hierarchy theorem of E27
  for ARBITRARY stored forms of the input (unsorted rows, duplicates, explicit zeros included). -/
namespace PyamgV.Canon
open PyamgV.Spmm

section generic
variable {α : Type} [Semiring α] [DecidableEq α]

/-- **format independence of the hierarchy on canonical input, arbitrary steps**: no `PStepOK` hypothesis -/
theorem hierarchy_format_independent_canonical (size : Csr α → Nat) (step : Csr α → Option (Csr α))
    (ml mc fuel : Nat) (X Y : Input α) (hX : X.wf = true) (hY : Y.wf = true)
    (cX : inputCanonOK X) (cY : inputCanonOK Y) (hrows : X.rows = Y.rows) (hcols : X.cols = Y.cols)
    (hval : ∀ i j, X.val i j = Y.val i j)
    (hpat : ∀ i j, i < X.rows → (inputStored X i j ↔ inputStored Y i j)) :
    Coarsen.build size step ml mc fuel [X.toCsr] = Coarsen.build size step ml mc fuel [Y.toCsr] := by
  rw [toCsr_arrays_unique X Y hX hY cX cY hrows hcols hval hpat]

omit [DecidableEq α] in
/-- the same at CSR level: two canonical stored forms of one matrix with the same explicit-zero pattern -/
theorem hierarchy_canonical_csr (size : Csr α → Nat) (step : Csr α → Option (Csr α)) (ml mc fuel : Nat)
    (A A' : Csr α) (hA : Canonical A) (hA' : Canonical A') (h : A.SameMeaning A')
    (hpat : ∀ i j, i < A.rows → (stored A i j ↔ stored A' i j)) :
    Coarsen.build size step ml mc fuel [A] = Coarsen.build size step ml mc fuel [A'] := by
  rw [canonical_unique A A' hA hA' h hpat]

/-- ... and anything else computed from the arrays (`F` = the constructor as a whole, options included) -/
theorem any_function_of_arrays {β : Type} (F : Csr α → β) (X Y : Input α) (hX : X.wf = true) (hY : Y.wf = true)
    (cX : inputCanonOK X) (cY : inputCanonOK Y) (hrows : X.rows = Y.rows) (hcols : X.cols = Y.cols)
    (hval : ∀ i j, X.val i j = Y.val i j)
    (hpat : ∀ i j, i < X.rows → (inputStored X i j ↔ inputStored Y i j)) : F X.toCsr = F Y.toCsr := by
  rw [toCsr_arrays_unique X Y hX hY cX cY hrows hcols hval hpat]

/-- **`PStepOK` for every construction behind the canonicaliser**: two array-level code paths (`step`, `step'`:
e.g. the CSR and the BSR-with-1x1-blocks path) that agree on canonical arrays and return well-formed prolongators
with one row per unknown see, composed with `sum_duplicates(); eliminate_zeros()`, the dense meaning only -/
theorem pstepOK_canon (step step' : Csr α → Option (Csr α))
    (hagree : ∀ C, Canonical C → NoZeros C → step C = step' C)
    (hstep : ∀ C P, C.wf = true → step C = some P → P.wf = true ∧ P.rows = C.rows) :
    PStepOK (fun A => step (canonNZ A)) (fun A => step' (canonNZ A)) := by
  intro A A' hrel
  have e : canonNZ A = canonNZ A' := canonNZ_unique A A' hrel.wf hrel.wf' hrel.same
  obtain ⟨c1, z1⟩ := canonNZ_canonical A hrel.wf
  have e2 : step' (canonNZ A') = step (canonNZ A) := by rw [← e, hagree _ c1 z1]
  cases h : step (canonNZ A) with
  | none => exact Or.inl ⟨h, e2.trans h⟩
  | some P =>
    obtain ⟨w, r⟩ := hstep _ P c1.1 h
    exact Or.inr ⟨P, P, h, e2.trans h, w, w, r, rfl, rfl, fun _ _ => rfl⟩

end generic

/-! ### one real constructor path: `pairwise_solver` with one matching -/

theorem pwT_wf (n k : Nat) (x : Array Nat) (hx : ∀ v, v < n → 1 ≤ ExtPw.rd x v ∧ ExtPw.rd x v ≤ k) :
    (pwT n k x).wf = true := by
  unfold pwT
  apply ofRows_wf
  · simp
  · intro l hl e he
    rw [List.mem_map] at hl
    obtain ⟨i, hi, rfl⟩ := hl
    have hi' : i < n := List.mem_range.1 hi
    have : e = (ExtPw.rd x i - 1, 1) := by simpa using he
    rw [this]
    show ExtPw.rd x i - 1 < k
    have := hx i hi'
    omega

/-- what the path returns is a well-formed `n x k` matrix with `0 < k < n` -/
theorem pwRaw_spec (norm : String) (tiny θ : Rat) (A P : Csr Rat) (h : pwRaw norm tiny θ A = some P) :
    P.wf = true ∧ P.rows = A.rows ∧ 0 < P.cols ∧ P.cols < A.rows := by
  unfold pwRaw at h
  simp only at h
  split at h
  · cases h
  · rename_i x y k hpw
    split at h
    · cases h
    · rename_i hk
      have hP : P = pwT A.rows k x := by
        injection h with h
        exact h.symm
      subst hP
      obtain ⟨_, _, hx, _, _⟩ := ExtPw.pairwise_model_spec hpw
      refine ⟨pwT_wf _ _ _ hx, rfl, ?_, ?_⟩
      · show 0 < k
        omega
      · show k < A.rows
        omega

/-- on a canonical level matrix without stored zeros `pwStep` IS the array-level path -/
theorem pwStep_eq_raw (norm : String) (tiny θ : Rat) (A : Csr Rat) (hA : Canonical A) (hz : NoZeros A) :
    pwStep norm tiny θ A = pwRaw norm tiny θ A := by
  unfold pwStep
  have := canonNZ_fixed A hA hz
  exact congrArg (pwRaw norm tiny θ) this

/-- **`PStepOK` discharged for the pairwise-aggregation path** -/
theorem pwStep_ok (norm : String) (tiny θ : Rat) : PStepOK (pwStep norm tiny θ) (pwStep norm tiny θ) :=
  pstepOK_canon (pwRaw norm tiny θ) (pwRaw norm tiny θ) (fun _ _ _ => rfl)
    (fun C P _ h => ⟨(pwRaw_spec norm tiny θ C P h).1, (pwRaw_spec norm tiny θ C P h).2.1⟩)

/-- **E27's hierarchy theorem without hypothesis for this constructor path**: started on two ARBITRARY stored
forms of one matrix (unsorted, duplicates, explicit zeros), strength + pairwise aggregation + `R = Pᵀ` + sparse
Galerkin product give the same number of levels and level by level the same dense meaning -/
theorem pairwise_hierarchy_format_independent (norm : String) (tiny θ : Rat) (ml mc fuel : Nat)
    (A A' : Csr Rat) (hrel : LevelRel A A') :
    List.Forall₂ LevelRel (Coarsen.build (fun A => A.rows) (gstep id (pwStep norm tiny θ)) ml mc fuel [A])
      (Coarsen.build (fun A => A.rows) (gstep id (pwStep norm tiny θ)) ml mc fuel [A']) :=
  hierarchy_format_independent id rfl (fun _ _ => rfl) _ _ (pwStep_ok norm tiny θ) ml mc fuel A A' hrel

/-- ... for an input given in two of the accepted formats (no condition on order, duplicates or stored zeros) -/
theorem pairwise_hierarchy_input_independent (norm : String) (tiny θ : Rat) (ml mc fuel : Nat)
    (X Y : Input Rat) (hX : X.wf = true) (hY : Y.wf = true) (hsq : X.rows = X.cols)
    (hrows : X.rows = Y.rows) (hcols : X.cols = Y.cols) (hval : ∀ i j, X.val i j = Y.val i j) :
    List.Forall₂ LevelRel (Coarsen.build (fun A => A.rows) (gstep id (pwStep norm tiny θ)) ml mc fuel [X.toCsr])
      (Coarsen.build (fun A => A.rows) (gstep id (pwStep norm tiny θ)) ml mc fuel [Y.toCsr]) :=
  hierarchy_input_independent id rfl (fun _ _ => rfl) _ _ (pwStep_ok norm tiny θ) ml mc fuel X Y hX hY hsq hrows hcols hval

/-! ### the instances the driver runs (`ext_c15_canon`), Gaussian rationals -/
namespace CRatInst

/-- `canonNZC` (what `ext_c15_canon nz` prints) returns the same arrays for all stored forms of one matrix -/
theorem canonNZC_unique (A A' : Csr CRat) (hA : A.wf = true) (hA' : A'.wf = true) (hr : A.rows = A'.rows)
    (hc : A.cols = A'.cols) (h : ∀ i j, valC A i j = valC A' i j) : canonNZC A = canonNZC A' :=
  canonNZ_unique A A' hA hA' ⟨hr, hc, h⟩

theorem canonNZC_meaning (A : Csr CRat) (i j : Nat) : valC (canonNZC A) i j = valC A i j := val_canonNZ A i j

theorem canonNZC_canonical (A : Csr CRat) (hA : A.wf = true) :
    isCanonicalC (canonNZC A) = true ∧ noStoredZerosC (canonNZC A) = true := by
  obtain ⟨c, z⟩ := canonNZ_canonical A hA
  exact ⟨(isCanonical_iff _).2 c, (noStoredZeros_iff _ c.1).2 z⟩

theorem canonSDC_canonical (A : Csr CRat) (hA : A.wf = true) : isCanonicalC (canonSDC A) = true :=
  (isCanonical_iff _).2 (canonSD_canonical A hA)

/-- the conversions of the inputs the driver accepts, flagged canonical by the checker, with the same meaning and
the same stored pattern: identical arrays -/
theorem toCsrC_unique (X Y : Input CRat) (hX : X.wf = true) (hY : Y.wf = true)
    (cX : isCanonicalC (toCsrC X) = true) (cY : isCanonicalC (toCsrC Y) = true)
    (hrows : X.rows = Y.rows) (hcols : X.cols = Y.cols) (hval : ∀ i j, X.val i j = Y.val i j)
    (hpat : ∀ i j, i < X.rows → (stored (toCsrC X) i j ↔ stored (toCsrC Y) i j)) : toCsrC X = toCsrC Y := by
  apply canonical_unique _ _ ((isCanonical_iff _).1 cX) ((isCanonical_iff _).1 cY)
  · refine ⟨by show X.toCsr.rows = Y.toCsr.rows; rw [X.toCsr_rows, Y.toCsr_rows, hrows],
      by show X.toCsr.cols = Y.toCsr.cols; rw [X.toCsr_cols, Y.toCsr_cols, hcols], ?_⟩
    intro i j
    show X.toCsr.val i j = Y.toCsr.val i j
    rw [X.val_toCsr hX, Y.val_toCsr hY, hval]
  · intro i j hi
    have : i < X.rows := by rw [← X.toCsr_rows]; exact hi
    exact hpat i j this

end CRatInst

end PyamgV.Canon
