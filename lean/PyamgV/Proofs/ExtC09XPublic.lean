import PyamgV.Proofs.ExtC09XDense

/-! PyamgV (extension E33, property C09): the PUBLIC block routines on CSR input.  One theorem per routine ties the three
layers: public model (`pub…`, conversion included) = kernel model on the converted matrix = dense splitting update
written with the CSR rows / dense entries of the INPUT matrix (`csrRow`, `csrEntry`). -/
namespace PyamgV.ExtC09X
open PyamgV PyamgV.K PyamgV.ExtC09 Finset

set_option linter.unusedSectionVars false
set_option linter.unusedVariables false

variable {R : Type} [Field R] [DecidableEq R]

/-! ### the full-range `block_jacobi` kernel call without a closedness hypothesis -/

theorem rd_bjacTemp_full {bs : Nat} (hbs : 0 < bs) (nb : Nat) (x : Array R) (hx : x.size = nb * bs) (q : Nat) :
    rd (bjacTemp bs (List.range nb) (Array.replicate x.size 0) x) q = rd x q := by
  rw [rd_bjacTemp hbs _ _ _ (by simp)]
  by_cases h : q / bs ∈ List.range nb
  · rw [if_pos h]
  · rw [if_neg h, rd_replicate_zero, rd_of_le]
    have h1 : nb ≤ q / bs := by simpa using h
    have h2 := (Nat.le_div_iff_mul_le hbs).1 h1
    omega

theorem blockJacobi_full_entry (ω : R) (B : Bsr R) (b Dinv x : Array R) (hbs : 0 < B.bs) (hx : x.size = B.nb * B.bs)
    (p : Nat) (hp : p < x.size) :
    rd (blockJacobi ω B b Dinv (List.range B.nb) (Array.replicate x.size 0) x) p =
      (1 - ω) * rd x p + ω * ∑ l ∈ range B.bs, dinvAt B.bs Dinv (p / B.bs) (p % B.bs) l *
        (rd b (p / B.bs * B.bs + l) - offDot B (p / B.bs) (fun q => rd x q) l) := by
  show rd ((List.range B.nb).foldl (bjacStep ω B b Dinv (bjacTemp B.bs (List.range B.nb) (Array.replicate x.size 0) x)) x) p = _
  have hrow : p / B.bs ∈ List.range B.nb := by
    rw [List.mem_range, Nat.div_lt_iff_lt_mul hbs]; omega
  rw [bjacSweep_entry ω B b Dinv _ x _ hbs p hp, if_pos hrow, rd_bjacTemp_full hbs B.nb x hx]
  have : (fun q => rd (bjacTemp B.bs (List.range B.nb) (Array.replicate x.size 0) x) q) = (fun q => rd x q) :=
    funext (fun q => rd_bjacTemp_full hbs B.nb x hx q)
  rw [this]

/-! ### `block_jacobi` -/

/-- **`relaxation.block_jacobi` on CSR input, three layers**: the public model (conversion `A.tobsr` included) is the
`block_jacobi` kernel model on the converted matrix `B`, and that is, entry by entry,
`(1-ω) x + ω Dinv (b − (A − blockdiag A) x)` written with the CSR rows of the INPUT matrix `A`; if `Dinv` is the inverse of
the block diagonal of `A` (dense entries of `A`), it is `x + ω blockdiag(A)⁻¹ (b − A x)` -/
theorem pubBlockJacobi_layers (ω : R) (A : Csr R) (bs : Nat) (b Dinv x : Array R)
    (hbs : 0 < bs) (hdiv : A.n % bs = 0) (hx : x.size = A.n) (hb : b.size = A.n)
    (hD : Dinv.size = A.n / bs * (bs * bs)) :
    ∃ B, A.toBsr bs = some B ∧ B.bs = bs ∧ B.nb = A.n / bs ∧
      pubBlockJacobi ω A bs b Dinv 1 x =
        some (blockJacobi ω B b Dinv (List.range B.nb) (Array.replicate x.size 0) x) ∧
      (blockJacobi ω B b Dinv (List.range B.nb) (Array.replicate x.size 0) x).size = x.size ∧
      (∀ p < A.n, rd (blockJacobi ω B b Dinv (List.range B.nb) (Array.replicate x.size 0) x) p =
        (1 - ω) * rd x p + ω * ∑ l ∈ range bs, dinvAt bs Dinv (p / bs) (p % bs) l *
          (rd b (p / bs * bs + l) - csrRow A (p / bs * bs + l) (fun q => if q / bs = p / bs then 0 else rd x q))) ∧
      ((∀ I < A.n / bs, CsrLeftInv A bs Dinv I) →
        ∀ p < A.n, rd (blockJacobi ω B b Dinv (List.range B.nb) (Array.replicate x.size 0) x) p =
          rd x p + ω * ∑ l ∈ range bs, dinvAt bs Dinv (p / bs) (p % bs) l *
            (rd b (p / bs * bs + l) - csrRow A (p / bs * bs + l) (fun q => rd x q))) := by
  obtain ⟨B, hB⟩ := toBsr_isSome A bs hbs hdiv
  obtain ⟨_, hBs, hn, _⟩ := toBsr_sem A bs B hB
  have hnb := toBsr_nb A bs B hB
  have hx' : x.size = B.nb * B.bs := by rw [hBs, hn, hx]
  have hb' : b.size = B.nb * B.bs := by rw [hBs, hn, hb]
  have hD' : Dinv.size = B.nb * (B.bs * B.bs) := by rw [hBs, hnb, hD]
  have hbs' : 0 < B.bs := by rw [hBs]; exact hbs
  have hrow : ∀ p < A.n, p / bs < B.nb := by
    intro p hp; rw [Nat.div_lt_iff_lt_mul hbs, hn]; exact hp
  have hentry : ∀ p < A.n, rd (blockJacobi ω B b Dinv (List.range B.nb) (Array.replicate x.size 0) x) p =
      (1 - ω) * rd x p + ω * ∑ l ∈ range bs, dinvAt bs Dinv (p / bs) (p % bs) l *
        (rd b (p / bs * bs + l) - offDot B (p / bs) (fun q => rd x q) l) := by
    intro p hp
    have := blockJacobi_full_entry ω B b Dinv x hbs' hx' p (by omega)
    rw [hBs] at this
    exact this
  refine ⟨B, hB, hBs, hnb, ?_, blockJacobi_size _ _ _ _ _ _ _, ?_, ?_⟩
  · unfold pubBlockJacobi
    rw [hB, Option.bind_some, pyBlockJacobi_one ω B b Dinv x hx' hb' hD']
  · intro p hp
    rw [hentry p hp]
    congr 2
    apply Finset.sum_congr rfl
    intro l hl
    rw [toBsr_offDot A bs B hB (p / bs) (hrow p hp) l (mem_range.1 hl)]
  · intro hinv p hp
    rw [hentry p hp]
    have hL : LeftInv B Dinv (p / bs) := toBsr_leftInv A bs B hB Dinv _ (hrow p hp) (hinv _ (by rw [← hnb]; exact hrow p hp))
    have hsplit := dinv_split B Dinv (p / bs) hL (p % bs) (by rw [hBs]; exact Nat.mod_lt _ hbs)
      (fun l => rd b (p / bs * bs + l)) (fun q => rd x q)
    rw [hBs] at hsplit
    rw [hsplit, Nat.div_add_mod' p bs]
    have : ∀ l ∈ range bs, dinvAt bs Dinv (p / bs) (p % bs) l * (rd b (p / bs * bs + l) - rowDotB B (p / bs) (fun q => rd x q) l) =
        dinvAt bs Dinv (p / bs) (p % bs) l * (rd b (p / bs * bs + l) - csrRow A (p / bs * bs + l) (fun q => rd x q)) := by
      intro l hl
      rw [toBsr_rowDotB A bs B hB (p / bs) (hrow p hp) l (mem_range.1 hl)]
    rw [Finset.sum_congr rfl this]
    ring

/-- `iterations = k + 1` is one iteration followed by `iterations = k` -/
theorem pubBlockJacobi_succ (ω : R) (A : Csr R) (bs : Nat) (b Dinv x : Array R) (k : Nat) :
    pubBlockJacobi ω A bs b Dinv (k + 1) x =
      (pubBlockJacobi ω A bs b Dinv 1 x).bind (fun y => pubBlockJacobi ω A bs b Dinv k y) := by
  unfold pubBlockJacobi
  cases hB : A.toBsr bs with
  | none => rfl
  | some B =>
    simp only [Option.bind_some]
    unfold pyBlockJacobi
    by_cases h1 : x.size ≠ B.nb * B.bs ∨ b.size ≠ B.nb * B.bs ∨ Dinv.size ≠ B.nb * (B.bs * B.bs)
    · rw [if_pos h1, if_pos h1]; rfl
    · rw [if_neg h1, if_neg h1]
      simp only [Option.bind_some, K.iter]
      rw [blockJacobi_size, if_neg h1]

/-- the exact solution of `A x = b` (CSR rows of the input) is returned unchanged by the public `block_jacobi`,
every `omega`, `iterations`, block size accepted by SciPy -/
theorem pubBlockJacobi_fixed_point (ω : R) (A : Csr R) (bs : Nat) (b Dinv x : Array R) (iters : Nat)
    (hbs : 0 < bs) (hdiv : A.n % bs = 0) (hx : x.size = A.n) (hb : b.size = A.n)
    (hD : Dinv.size = A.n / bs * (bs * bs))
    (hinv : ∀ I < A.n / bs, CsrLeftInv A bs Dinv I)
    (hsol : ∀ i < A.n, csrRow A i (fun q => rd x q) = rd b i) :
    pubBlockJacobi ω A bs b Dinv iters x = some x := by
  obtain ⟨B, hB, hBs, hnb, h1, hsz, _, hsplit⟩ := pubBlockJacobi_layers ω A bs b Dinv x hbs hdiv hx hb hD
  have hfix : blockJacobi ω B b Dinv (List.range B.nb) (Array.replicate x.size 0) x = x := by
    apply array_ext_rd _ _ hsz
    intro p hp
    rw [hsz, hx] at hp
    rw [hsplit hinv p hp]
    have : ∑ l ∈ range bs, dinvAt bs Dinv (p / bs) (p % bs) l *
        (rd b (p / bs * bs + l) - csrRow A (p / bs * bs + l) (fun q => rd x q)) = 0 := by
      apply Finset.sum_eq_zero
      intro l hl
      have hl' := mem_range.1 hl
      have : p / bs * bs + l < A.n := by
        have h2 : p / bs < A.n / bs := (Nat.div_lt_iff_lt_mul hbs).2 (by rw [Nat.div_mul_cancel (Nat.dvd_of_mod_eq_zero hdiv)]; exact hp)
        have h3 : (p / bs + 1) * bs ≤ A.n / bs * bs := Nat.mul_le_mul_right bs h2
        rw [Nat.div_mul_cancel (Nat.dvd_of_mod_eq_zero hdiv), Nat.succ_mul] at h3
        omega
      rw [hsol _ this]; ring
    rw [this]; ring
  obtain ⟨_, _, hn, _⟩ := toBsr_sem A bs B hB
  unfold pubBlockJacobi
  rw [hB, Option.bind_some]
  unfold pyBlockJacobi
  rw [if_neg (by rw [hBs, hn, hnb]; simp [hx, hb, hD])]
  congr 1
  exact iter_fixed (fun x => blockJacobi ω B b Dinv (List.range B.nb) (Array.replicate x.size 0) x) x hfix _

/-! ### `cf_block_jacobi` / `fc_block_jacobi` -/

/-- **`relaxation.cf_block_jacobi` / `fc_block_jacobi` on CSR input, three layers**: the public model is the sequence of
`block_jacobi_indexed` kernel calls on the converted matrix (CF: the C sweeps, then the F sweeps; FC: the other way round),
and every such kernel call, on any vector `z` and index list inside the matrix, is entry by entry the damped block Jacobi
update on the indexed block rows written with the CSR rows of the INPUT matrix, and leaves the other block rows alone -/
theorem pubCFBlockJacobi_layers (cFirst : Bool) (ω : R) (A : Csr R) (bs : Nat) (b Dinv x : Array R) (C F : List Nat)
    (fIt cIt : Nat) (hbs : 0 < bs) (hdiv : A.n % bs = 0) (hx : x.size = A.n) (hb : b.size = A.n)
    (hD : Dinv.size = A.n / bs * (bs * bs)) (hC : ∀ i ∈ C, i < A.n / bs) (hF : ∀ i ∈ F, i < A.n / bs) :
    ∃ B, A.toBsr bs = some B ∧ B.bs = bs ∧ B.nb = A.n / bs ∧
      pubCFBlockJacobi cFirst ω A bs b Dinv C F 1 fIt cIt x =
        some (if cFirst then iter (blockJacobiIndexed ω B b Dinv F) fIt (iter (blockJacobiIndexed ω B b Dinv C) cIt x)
              else iter (blockJacobiIndexed ω B b Dinv C) cIt (iter (blockJacobiIndexed ω B b Dinv F) fIt x)) ∧
      ∀ (idx : List Nat) (z : Array R), z.size = A.n → (∀ i ∈ idx, i < A.n / bs) →
        (blockJacobiIndexed ω B b Dinv idx z).size = z.size ∧
        (∀ p < A.n, rd (blockJacobiIndexed ω B b Dinv idx z) p =
          if p / bs ∈ idx then
            (1 - ω) * rd z p + ω * ∑ l ∈ range bs, dinvAt bs Dinv (p / bs) (p % bs) l *
              (rd b (p / bs * bs + l) - csrRow A (p / bs * bs + l) (fun q => if q / bs = p / bs then 0 else rd z q))
          else rd z p) ∧
        ((∀ I ∈ idx, CsrLeftInv A bs Dinv I) → ∀ p < A.n, p / bs ∈ idx →
          rd (blockJacobiIndexed ω B b Dinv idx z) p =
            rd z p + ω * ∑ l ∈ range bs, dinvAt bs Dinv (p / bs) (p % bs) l *
              (rd b (p / bs * bs + l) - csrRow A (p / bs * bs + l) (fun q => rd z q))) := by
  obtain ⟨B, hB⟩ := toBsr_isSome A bs hbs hdiv
  obtain ⟨_, hBs, hn, _⟩ := toBsr_sem A bs B hB
  have hnb := toBsr_nb A bs B hB
  have hx' : x.size = B.nb * B.bs := by rw [hBs, hn, hx]
  have hb' : b.size = B.nb * B.bs := by rw [hBs, hn, hb]
  have hD' : Dinv.size = B.nb * (B.bs * B.bs) := by rw [hBs, hnb, hD]
  have hbs' : 0 < B.bs := by rw [hBs]; exact hbs
  have hrow : ∀ p < A.n, p / bs < B.nb := by
    intro p hp; rw [Nat.div_lt_iff_lt_mul hbs, hn]; exact hp
  refine ⟨B, hB, hBs, hnb, ?_, ?_⟩
  · unfold pubCFBlockJacobi
    rw [hB, Option.bind_some, pyCFBlockJacobi_one cFirst ω B b Dinv x C F fIt cIt hx' hb' hD'
      (fun i hi => by rw [hnb]; exact hC i hi) (fun i hi => by rw [hnb]; exact hF i hi)]
  · intro idx z hz hidx
    have hentry : ∀ p < A.n, rd (blockJacobiIndexed ω B b Dinv idx z) p =
        if p / bs ∈ idx then
          (1 - ω) * rd z p + ω * ∑ l ∈ range bs, dinvAt bs Dinv (p / bs) (p % bs) l *
            (rd b (p / bs * bs + l) - offDot B (p / bs) (fun q => rd z q) l)
        else rd z p := by
      intro p hp
      have := blockJacobiIndexed_entry ω B b Dinv z idx hbs' p (by omega)
      rw [hBs] at this
      exact this
    refine ⟨blockJacobiIndexed_size _ _ _ _ _ _, ?_, ?_⟩
    · intro p hp
      rw [hentry p hp]
      by_cases hmem : p / bs ∈ idx
      · rw [if_pos hmem, if_pos hmem]
        congr 2
        apply Finset.sum_congr rfl
        intro l hl
        rw [toBsr_offDot A bs B hB (p / bs) (hrow p hp) l (mem_range.1 hl)]
      · rw [if_neg hmem, if_neg hmem]
    · intro hinv p hp hmem
      rw [hentry p hp, if_pos hmem]
      have hL : LeftInv B Dinv (p / bs) := toBsr_leftInv A bs B hB Dinv _ (hrow p hp) (hinv _ hmem)
      have hsplit := dinv_split B Dinv (p / bs) hL (p % bs) (by rw [hBs]; exact Nat.mod_lt _ hbs)
        (fun l => rd b (p / bs * bs + l)) (fun q => rd z q)
      rw [hBs] at hsplit
      rw [hsplit, Nat.div_add_mod' p bs]
      have : ∀ l ∈ range bs, dinvAt bs Dinv (p / bs) (p % bs) l * (rd b (p / bs * bs + l) - rowDotB B (p / bs) (fun q => rd z q) l) =
          dinvAt bs Dinv (p / bs) (p % bs) l * (rd b (p / bs * bs + l) - csrRow A (p / bs * bs + l) (fun q => rd z q)) := by
        intro l hl
        rw [toBsr_rowDotB A bs B hB (p / bs) (hrow p hp) l (mem_range.1 hl)]
      rw [Finset.sum_congr rfl this]
      ring

/-- rows of block row `I` are rows of the matrix -/
theorem row_in_range {n bs I l : Nat} (hbs : 0 < bs) (hdiv : n % bs = 0) (hI : I < n / bs) (hl : l < bs) : I * bs + l < n := by
  have h3 : (I + 1) * bs ≤ n / bs * bs := Nat.mul_le_mul_right bs hI
  rw [Nat.div_mul_cancel (Nat.dvd_of_mod_eq_zero hdiv), Nat.succ_mul] at h3
  omega

/-- the exact solution of `A x = b` (CSR rows of the input) is returned unchanged by the public `cf_block_jacobi` /
`fc_block_jacobi`: every `omega`, `iterations`, `f_iterations`, `c_iterations`, C/F lists inside the matrix -/
theorem pubCFBlockJacobi_fixed_point (cFirst : Bool) (ω : R) (A : Csr R) (bs : Nat) (b Dinv x : Array R) (C F : List Nat)
    (iters fIt cIt : Nat) (hbs : 0 < bs) (hdiv : A.n % bs = 0) (hx : x.size = A.n) (hb : b.size = A.n)
    (hD : Dinv.size = A.n / bs * (bs * bs)) (hC : ∀ i ∈ C, i < A.n / bs) (hF : ∀ i ∈ F, i < A.n / bs)
    (hinv : ∀ I < A.n / bs, CsrLeftInv A bs Dinv I)
    (hsol : ∀ i < A.n, csrRow A i (fun q => rd x q) = rd b i) :
    pubCFBlockJacobi cFirst ω A bs b Dinv C F iters fIt cIt x = some x := by
  obtain ⟨B, hB⟩ := toBsr_isSome A bs hbs hdiv
  obtain ⟨_, hBs, hn, _⟩ := toBsr_sem A bs B hB
  have hnb := toBsr_nb A bs B hB
  unfold pubCFBlockJacobi
  rw [hB, Option.bind_some]
  apply pyCFBlockJacobi_fixed_point cFirst ω B b Dinv x C F iters fIt cIt (by rw [hBs]; exact hbs)
    (by rw [hBs, hn, hx]) (by rw [hBs, hn, hb]) (by rw [hBs, hnb, hD])
    (fun i hi => by rw [hnb]; exact hC i hi) (fun i hi => by rw [hnb]; exact hF i hi)
  · intro I hI
    exact toBsr_leftInv A bs B hB Dinv I hI (hinv I (by rw [← hnb]; exact hI))
  · intro I hI l hl
    rw [hBs] at hl
    rw [toBsr_rowDotB A bs B hB I hI l hl, hBs]
    exact hsol _ (row_in_range hbs hdiv (by rw [← hnb]; exact hI) hl)

/-! ### `block_gauss_seidel` -/

/-- **`relaxation.block_gauss_seidel` on CSR input, three layers**: the public model is the sequence of block-row steps
`bgsStep` of the `block_gauss_seidel` kernel model on the converted matrix (forward: `0, …, nb-1`; backward: reversed;
symmetric: forward then backward), and every step, on any vector `z`, written with the CSR rows / dense entries of the INPUT
matrix: block `I` becomes `Dinv_I (b_I − Σ_{q ∉ block I} A_{·q} z_q)`, which is `z_I + Dinv_I (b − A z)_I` when `Dinv_I` is a left
inverse of the diagonal block of `A`, and makes rows `I·bs … I·bs+bs-1` of `A z' = b` hold exactly when it is a right inverse -/
theorem pubBlockGaussSeidel_layers (A : Csr R) (bs : Nat) (b Dinv x : Array R) (sw : Sweep)
    (hbs : 0 < bs) (hdiv : A.n % bs = 0) (hx : x.size = A.n) (hb : b.size = A.n)
    (hD : Dinv.size = A.n / bs * (bs * bs)) :
    ∃ B, A.toBsr bs = some B ∧ B.bs = bs ∧ B.nb = A.n / bs ∧
      pubBlockGaussSeidel A bs b Dinv 1 sw x = some (match sw with
        | .forward => (List.range B.nb).foldl (bgsStep B b Dinv) x
        | .backward => (List.range B.nb).reverse.foldl (bgsStep B b Dinv) x
        | .symmetric => (List.range B.nb).reverse.foldl (bgsStep B b Dinv) ((List.range B.nb).foldl (bgsStep B b Dinv) x)) ∧
      ∀ (z : Array R) (I : Nat), I < A.n / bs →
        (bgsStep B b Dinv z I).size = z.size ∧
        (∀ p < z.size, rd (bgsStep B b Dinv z I) p =
          if p / bs = I then
            ∑ l ∈ range bs, dinvAt bs Dinv I (p % bs) l *
              (rd b (I * bs + l) - csrRow A (I * bs + l) (fun q => if q / bs = I then 0 else rd z q))
          else rd z p) ∧
        (CsrLeftInv A bs Dinv I → ∀ p < z.size, p / bs = I →
          rd (bgsStep B b Dinv z I) p = rd z p + ∑ l ∈ range bs, dinvAt bs Dinv I (p % bs) l *
            (rd b (I * bs + l) - csrRow A (I * bs + l) (fun q => rd z q))) ∧
        (CsrRightInv A bs Dinv I → I * bs + bs ≤ z.size → ∀ l < bs,
          csrRow A (I * bs + l) (fun q => rd (bgsStep B b Dinv z I) q) = rd b (I * bs + l)) := by
  obtain ⟨B, hB⟩ := toBsr_isSome A bs hbs hdiv
  obtain ⟨_, hBs, hn, _⟩ := toBsr_sem A bs B hB
  have hnb := toBsr_nb A bs B hB
  have hx' : x.size = B.nb * B.bs := by rw [hBs, hn, hx]
  have hb' : b.size = B.nb * B.bs := by rw [hBs, hn, hb]
  have hD' : Dinv.size = B.nb * (B.bs * B.bs) := by rw [hBs, hnb, hD]
  have hbs' : 0 < B.bs := by rw [hBs]; exact hbs
  refine ⟨B, hB, hBs, hnb, ?_, ?_⟩
  · unfold pubBlockGaussSeidel
    rw [hB, Option.bind_some]
    unfold pyBlockGaussSeidel
    rw [if_neg (by simp [hx', hb', hD'])]
    cases sw <;> simp [K.iter, K.bgsPass, K.blockGaussSeidel, K.dirRows]
  · intro z I hI
    have hI' : I < B.nb := by rw [hnb]; exact hI
    have hentry : ∀ p < z.size, rd (bgsStep B b Dinv z I) p =
        if p / bs = I then
          ∑ l ∈ range bs, dinvAt bs Dinv I (p % bs) l * (rd b (I * bs + l) - offDot B I (fun q => rd z q) l)
        else rd z p := by
      intro p hp
      have := bgsStep_entry B b Dinv z I hbs' p hp
      rw [hBs] at this
      exact this
    refine ⟨bgsStep_size _ _ _ _ _, ?_, ?_, ?_⟩
    · intro p hp
      rw [hentry p hp]
      by_cases hpi : p / bs = I
      · rw [if_pos hpi, if_pos hpi]
        apply Finset.sum_congr rfl
        intro l hl
        rw [toBsr_offDot A bs B hB I hI' l (mem_range.1 hl)]
      · rw [if_neg hpi, if_neg hpi]
    · intro hL p hp hpi
      have hL' : LeftInv B Dinv I := toBsr_leftInv A bs B hB Dinv I hI' hL
      have := bgsStep_splitting B b Dinv z I hbs' hL' p hp (by rw [hBs]; exact hpi)
      rw [hBs] at this
      rw [this]
      congr 1
      apply Finset.sum_congr rfl
      intro l hl
      rw [toBsr_rowDotB A bs B hB I hI' l (mem_range.1 hl)]
    · intro hRi hin l hl
      have hR' : RightInv B Dinv I := toBsr_rightInv A bs B hB Dinv I hI' hRi
      have := bgsStep_residual_zero B b Dinv z I hbs' (by rw [hBs]; exact hin) hR' l (by rw [hBs]; exact hl)
      rw [toBsr_rowDotB A bs B hB I hI' l hl, hBs] at this
      exact this

/-- the exact solution of `A x = b` (CSR rows of the input) is returned unchanged by the public `block_gauss_seidel`:
every sweep kind, `iterations`, block size accepted by SciPy -/
theorem pubBlockGaussSeidel_fixed_point (A : Csr R) (bs : Nat) (b Dinv x : Array R) (iters : Nat) (sw : Sweep)
    (hbs : 0 < bs) (hdiv : A.n % bs = 0) (hx : x.size = A.n) (hb : b.size = A.n)
    (hD : Dinv.size = A.n / bs * (bs * bs))
    (hinv : ∀ I < A.n / bs, CsrLeftInv A bs Dinv I)
    (hsol : ∀ i < A.n, csrRow A i (fun q => rd x q) = rd b i) :
    pubBlockGaussSeidel A bs b Dinv iters sw x = some x := by
  obtain ⟨B, hB⟩ := toBsr_isSome A bs hbs hdiv
  obtain ⟨_, hBs, hn, _⟩ := toBsr_sem A bs B hB
  have hnb := toBsr_nb A bs B hB
  unfold pubBlockGaussSeidel
  rw [hB, Option.bind_some]
  apply pyBlockGaussSeidel_fixed_point B b Dinv x iters sw (by rw [hBs]; exact hbs)
    (by rw [hBs, hn, hx]) (by rw [hBs, hn, hb]) (by rw [hBs, hnb, hD])
  · intro I hI
    exact toBsr_leftInv A bs B hB Dinv I hI (hinv I (by rw [← hnb]; exact hI))
  · intro I hI l hl
    rw [hBs] at hl
    rw [toBsr_rowDotB A bs B hB I hI l hl, hBs]
    exact hsol _ (row_in_range hbs hdiv (by rw [← hnb]; exact hI) hl)

end PyamgV.ExtC09X
