import PyamgV.Proofs.C20Dirichlet

/-! PyamgV (C20): symmetry and positive semi-definiteness of the stiffness matrix returned by the
model of `q12d`, with and without Dirichlet elimination, for every grid shape. -/
namespace PyamgV.C20

/-- a sum over the triples of the assembled operator is invariant under transposition -/
theorem assemble_swap (X Y : Nat) (K : Nat → Nat → Rat) (hK : ∀ a b, a < 8 → b < 8 → K a b = K b a)
    (g : Nat → Nat → Rat → Rat) :
    ((assemble X Y K).map fun t => g t.1 t.2.1 t.2.2).sum = ((assemble X Y K).map fun t => g t.2.1 t.1 t.2.2).sum := by
  unfold assemble
  rw [sum_flatMap', sum_flatMap']
  congr 1
  apply List.map_congr_left
  intro base _
  rw [sum_elem, sum_elem]
  conv_rhs => rw [sum_swap]
  congr 1
  apply List.map_congr_left
  intro a ha
  congr 1
  apply List.map_congr_left
  intro b hb
  simp only
  rw [hK a b (List.mem_range.1 ha) (List.mem_range.1 hb)]

theorem entry_restrict (X Y : Nat) (T : List Triple) (r c : Nat) :
    entry (restrict X Y T) r c = (T.map fun t =>
      if (interior X Y (t.1 / 2) && interior X Y (t.2.1 / 2)) = true then
        (if renDof X Y t.1 = r ∧ renDof X Y t.2.1 = c then t.2.2 else 0) else 0).sum := by
  unfold entry restrict
  rw [List.map_map, sum_filter']
  rfl

theorem kloc_symm' (DX DY lame mu : Rat) : ∀ a b, a < 8 → b < 8 →
    kloc (M2.inv ⟨DX, 0, 0, DY⟩) lame mu a b = kloc (M2.inv ⟨DX, 0, 0, DY⟩) lame mu b a :=
  fun a b ha hb => kloc_symm _ lame mu a b ha hb

/-- **the stiffness matrix is symmetric** (free and Dirichlet, every grid shape, spacing, parameters) -/
theorem q12dCore_symm (X Y : Nat) (DX DY lame mu : Rat) (dirichlet : Bool) (r c : Nat) :
    entry (q12dCore X Y DX DY lame mu dirichlet).A r c = entry (q12dCore X Y DX DY lame mu dirichlet).A c r := by
  cases dirichlet
  · exact assemble_symm X Y _ (kloc_symm' DX DY lame mu) r c
  · show entry (restrict X Y (assemble X Y _)) r c = entry (restrict X Y (assemble X Y _)) c r
    rw [entry_restrict, entry_restrict]
    refine (assemble_swap X Y _ (kloc_symm' DX DY lame mu) (fun p q w =>
      if (interior X Y (p / 2) && interior X Y (q / 2)) = true then
        (if renDof X Y p = r ∧ renDof X Y q = c then w else 0) else 0)).trans ?_
    congr 1
    apply List.map_congr_left
    intro t _
    rw [Bool.and_comm]
    by_cases hb : (interior X Y (t.1 / 2) && interior X Y (t.2.1 / 2)) = true
    · rw [if_pos hb, if_pos hb]
      by_cases h2 : renDof X Y t.2.1 = r ∧ renDof X Y t.1 = c
      · rw [if_pos h2, if_pos ⟨h2.2, h2.1⟩]
      · rw [if_neg h2, if_neg (fun h' => h2 ⟨h'.2, h'.1⟩)]
    · rw [if_neg hb, if_neg hb]

theorem qform_restrict (X Y : Nat) (T : List Triple) (x : Nat → Rat) :
    qform (restrict X Y T) x = qform T (fun t => if interior X Y (t / 2) = true then x (renDof X Y t) else 0) := by
  unfold qform restrict
  rw [List.map_map, sum_filter']
  congr 1
  apply List.map_congr_left
  intro t _
  simp only [Function.comp]
  by_cases h1 : interior X Y (t.1 / 2) = true <;> by_cases h2 : interior X Y (t.2.1 / 2) = true <;> simp [h1, h2]

/-- **the stiffness matrix is positive semi-definite** (free and Dirichlet) for positive spacings,
`mu ≥ 0` and `lame + mu ≥ 0` -/
theorem q12dCore_psd (X Y : Nat) (DX DY lame mu : Rat) (hDX : 0 < DX) (hDY : 0 < DY) (hmu : 0 ≤ mu)
    (hl : 0 ≤ lame + mu) (dirichlet : Bool) (x : Nat → Rat) :
    0 ≤ qform (q12dCore X Y DX DY lame mu dirichlet).A x := by
  cases dirichlet
  · exact assemble_psd X Y _ (kloc_psd DX DY lame mu hDX hDY hmu hl) x
  · show 0 ≤ qform (restrict X Y (assemble X Y _)) x
    rw [qform_restrict]
    exact assemble_psd X Y _ (kloc_psd DX DY lame mu hDX hDY hmu hl) _

/-- the Lame parameters computed from `E > 0`, `-1 < nu < 1/2` satisfy the hypotheses of `q12dCore_psd` -/
theorem lame_ok (E nu : Rat) (hE : 0 < E) (h1 : -1 < nu) (h2 : nu < 1 / 2) :
    0 ≤ E / (2 + 2 * nu) ∧ 0 ≤ E * nu / ((1 + nu) * (1 - 2 * nu)) + E / (2 + 2 * nu) := by
  have ha : 0 < 1 + nu := by linarith
  have hb : 0 < 1 - 2 * nu := by linarith
  have hc : 0 < 2 + 2 * nu := by linarith
  refine ⟨le_of_lt (div_pos hE hc), ?_⟩
  have e : E * nu / ((1 + nu) * (1 - 2 * nu)) + E / (2 + 2 * nu) = E / (2 * (1 + nu) * (1 - 2 * nu)) := by
    have ha' := ne_of_gt ha
    have hb' := ne_of_gt hb
    have hc' := ne_of_gt hc
    have h2 : (2 + 2 * nu) = 2 * (1 + nu) := by ring
    have n1 : (1 + nu) * (1 - 2 * nu) ≠ 0 := mul_ne_zero ha' hb'
    have n2 : 2 * (1 + nu) ≠ 0 := mul_ne_zero two_ne_zero ha'
    have n3 : 2 * (1 + nu) * (1 - 2 * nu) ≠ 0 := mul_ne_zero n2 hb'
    rw [h2, div_add_div _ _ n1 n2, div_eq_div_iff (mul_ne_zero n1 n2) n3]
    ring
  rw [e]
  exact le_of_lt (div_pos hE (by positivity))

/-- what `q12d` returns when it accepts its arguments: `q12dCore` on the (enlarged, for Dirichlet) mesh
with the Lame parameters of `(E, nu)`; the spacings are nonzero -/
theorem q12d_some (X0 Y0 : Nat) (sp : Option (Rat × Rat)) (E nu : Rat) (d : Bool) (R : Q12)
    (h : q12d X0 Y0 sp E nu d = some R) :
    R = q12dCore (if d then X0 + 1 else X0) (if d then Y0 + 1 else Y0) (sp.getD (1, 1)).1 (sp.getD (1, 1)).2
        (E * nu / ((1 + nu) * (1 - 2 * nu))) (E / (2 + 2 * nu)) d ∧
      (sp.getD (1, 1)).1 ≠ 0 ∧ (sp.getD (1, 1)).2 ≠ 0 ∧ 1 ≤ X0 ∧ 1 ≤ Y0 := by
  unfold q12d at h
  split at h
  · exact absurd h (by simp)
  · rename_i h0
    dsimp only at h
    split at h
    · exact absurd h (by simp)
    · split at h
      · exact absurd h (by simp)
      · rename_i hdet
        refine ⟨(Option.some.inj h).symm, ?_, ?_, by omega, by omega⟩
        · intro hz; apply hdet; rw [hz]; ring
        · intro hz; apply hdet; rw [hz]; ring

end PyamgV.C20
