import PyamgV.Model.C02Cycle
import PyamgV.Proofs.GsArrayRefine
import PyamgV.Proofs.SorAdjoint
import PyamgV.Proofs.C02Thm

/-! PyamgV (C02 glue): the *executable* cycle model `PyamgV.C02.cycle` (arrays, CSR, the kernel models
of C09) read as functions `Nat → R` is the abstract recursion `cyc` the energy theorems are about.
Part 1: vectors and sparse matrix-vector products. -/
namespace PyamgV

variable {R : Type} [Field R] [LinearOrder R] [IsStrictOrderedRing R] [DecidableEq R]

theorem fn_map_range (n : Nat) (f : Nat → R) (i : Nat) :
    fn ((Array.range n).map f) i = if i < n then f i else 0 := by
  unfold fn K.rd
  by_cases h : i < n
  · simp [h]
  · simp [h]

theorem size_map_range (n : Nat) (f : Nat → R) : ((Array.range n).map f).size = n := by simp

theorem foldl_add_eq_sum {β : Type} (l : List β) (g : β → R) (s : R) :
    l.foldl (fun s j => s + g j) s = s + (l.map g).sum := by
  induction l generalizing s with
  | nil => simp
  | cons a l ih => simp only [List.foldl_cons, List.map_cons, List.sum_cons]; rw [ih]; ring

/-- `A @ x` of the model is the CSR operator of the proofs -/
theorem spmv_refines (A : K.Csr R) (x : Array R) :
    fn (C02.spmv A x) = csrOp A.n (rowOf A) (fn x) := by
  funext i
  unfold C02.spmv
  rw [fn_map_range]
  by_cases h : i < A.n
  · rw [if_pos h, csrOp_apply _ _ _ _ h, foldl_add_eq_sum]
    unfold rowDot rowOf fn
    simp [List.map_map, Function.comp_def]
  · rw [if_neg h]; simp [csrOp, h]

theorem spmv_size (A : K.Csr R) (x : Array R) : (C02.spmv A x).size = A.n := by
  unfold C02.spmv; simp

theorem fn_zero_of_size (x : Array R) (i : Nat) (h : x.size ≤ i) : fn x i = 0 := by
  unfold fn K.rd; simp [h]

theorem vsub_refines (x y : Array R) (h : y.size ≤ x.size) : fn (C02.vsub x y) = fn x - fn y := by
  funext i
  unfold C02.vsub
  rw [fn_map_range]
  by_cases hi : i < x.size
  · simp [hi, fn]
  · have h1 := fn_zero_of_size x i (by omega)
    have h2 := fn_zero_of_size y i (by omega)
    simp [hi, h1, h2]

theorem vadd_refines (x y : Array R) (h : y.size ≤ x.size) : fn (C02.vadd x y) = fn x + fn y := by
  funext i
  unfold C02.vadd
  rw [fn_map_range]
  by_cases hi : i < x.size
  · simp [hi, fn]
  · have h1 := fn_zero_of_size x i (by omega)
    have h2 := fn_zero_of_size y i (by omega)
    simp [hi, h1, h2]

theorem vsub_size (x y : Array R) : (C02.vsub x y).size = x.size := by unfold C02.vsub; simp
theorem vadd_size (x y : Array R) : (C02.vadd x y).size = x.size := by unfold C02.vadd; simp

theorem zeros_refines (n : Nat) : fn (C02.zeros n : Array R) = 0 := by
  funext i
  unfold C02.zeros fn K.rd
  by_cases h : i < n <;> simp [h]

theorem zeros_size (n : Nat) : (C02.zeros n : Array R).size = n := by unfold C02.zeros; simp

/-! Part 2: the SOR kernel model refines `sorSweepFn` (as `gaussSeidel_refines` for Gauss-Seidel);
the drivers of relaxation.py are one sweep over a concatenated row order. -/

/-- one row of the executable SOR kernel = one row of the proof model -/
theorem sorStep_refines (ω : R) (A : K.Csr R) (b x : Array R) (i : Nat) (hi : i < x.size) :
    fn ((fun (x : Array R) (i : Nat) =>
      let (rsum, diag) := (A.jjs i).foldl (fun (acc : R × R) jj =>
        let j := K.rdN A.aj jj
        if i = j then (acc.1, K.rd A.ax jj) else (acc.1 + K.rd A.ax jj * K.rd x j, acc.2))
        ((0:R), (0:R))
      if diag = 0 then x else K.wr x i (ω * ((K.rd b i - rsum) / diag) + (1 - ω) * K.rd x i)) x i) =
    sorRowFn ω i (rowOf A i) (fn b) (fn x) := by
  have hscan : (A.jjs i).foldl (fun (acc : R × R) jj =>
        let j := K.rdN A.aj jj
        if i = j then (acc.1, K.rd A.ax jj) else (acc.1 + K.rd A.ax jj * K.rd x j, acc.2))
        ((0:R), (0:R)) = rowScan i (rowOf A i) (fn x) := by
    unfold rowScan rowOf
    rw [List.foldl_map]
    apply List.foldl_ext
    intro acc jj _
    by_cases h : i = K.rdN A.aj jj
    · simp only [h, if_true]
    · have h' : ¬ K.rdN A.aj jj = i := fun e => h e.symm
      simp only [h, h', if_false]
      rfl
  simp only
  rw [hscan]
  unfold sorRowFn
  rw [show rowScan i (rowOf A i) (fn x) = ((rowScan i (rowOf A i) (fn x)).1,
    (rowScan i (rowOf A i) (fn x)).2) from rfl]
  simp only
  by_cases hd : (rowScan i (rowOf A i) (fn x)).2 = 0
  · rw [if_pos hd, if_pos hd]
  · rw [if_neg hd, if_neg hd, fn_wr _ _ _ hi]
    rfl

/-- **the executable SOR sweep refines `sorSweepFn`** -/
theorem sorGaussSeidel_refines (ω : R) (A : K.Csr R) (b : Array R) :
    ∀ (rows : List Nat) (x : Array R), (∀ i ∈ rows, i < x.size) →
      (K.sorGaussSeidel ω A b rows x).size = x.size ∧
      fn (K.sorGaussSeidel ω A b rows x) = sorSweepFn ω (rowOf A) (fn b) rows (fn x) := by
  intro rows
  induction rows with
  | nil => intro x _; exact ⟨rfl, rfl⟩
  | cons i rows ih =>
    intro x hrows
    have hi : i < x.size := hrows i (by simp)
    unfold K.sorGaussSeidel sorSweepFn
    rw [List.foldl_cons, List.foldl_cons]
    have hstep := sorStep_refines ω A b x i hi
    simp only at hstep
    have hsz : ((fun (x : Array R) (i : Nat) =>
        let (rsum, diag) := (A.jjs i).foldl (fun (acc : R × R) jj =>
          let j := K.rdN A.aj jj
          if i = j then (acc.1, K.rd A.ax jj) else (acc.1 + K.rd A.ax jj * K.rd x j, acc.2))
          ((0:R), (0:R))
        if diag = 0 then x else K.wr x i (ω * ((K.rd b i - rsum) / diag) + (1 - ω) * K.rd x i)) x i).size
          = x.size := by
      simp only
      split
      · rfl
      · simp [K.wr]
    have := ih _ (fun j hj => by rw [hsz]; exact hrows j (by simp [hj]))
    unfold K.sorGaussSeidel sorSweepFn at this
    refine ⟨this.1.trans hsz, ?_⟩
    rw [this.2, hstep]

/-- the rows visited by `relaxation.gauss_seidel(A, x, b, iterations, sweep)`, in order -/
def pyOrder (n iters : Nat) : K.Sweep → List Nat
  | .forward => (List.replicate iters (K.dirRows n false)).flatten
  | .backward => (List.replicate iters (K.dirRows n true)).flatten
  | .symmetric => (List.replicate iters (K.dirRows n false ++ K.dirRows n true)).flatten

theorem iter_foldl_flatten {β : Type} (step : β → Nat → β) (o : List Nat) (k : Nat) (x : β) :
    K.iter (fun x => o.foldl step x) k x = ((List.replicate k o).flatten).foldl step x := by
  induction k generalizing x with
  | zero => rfl
  | succ k ih =>
    simp only [K.iter, List.replicate_succ, List.flatten_cons, List.foldl_append]
    exact ih _

theorem pyOrder_lt (n iters : Nat) (sw : K.Sweep) : ∀ i ∈ pyOrder n iters sw, i < n := by
  intro i hi
  have hdir : ∀ bw, ∀ j ∈ K.dirRows n bw, j < n := by
    intro bw j hj
    unfold K.dirRows at hj
    split at hj
    · simpa using hj
    · simpa using hj
  cases sw <;> simp only [pyOrder, List.mem_flatten, List.mem_replicate] at hi <;>
    obtain ⟨l, ⟨_, rfl⟩, hl⟩ := hi
  · exact hdir _ i hl
  · exact hdir _ i hl
  · rcases List.mem_append.1 hl with h | h
    · exact hdir _ i h
    · exact hdir _ i h

theorem gs_iter (A : K.Csr R) (b : Array R) (o : List Nat) (k : Nat) (x : Array R) :
    K.iter (fun x => K.gaussSeidel A b o x) k x = K.gaussSeidel A b (List.replicate k o).flatten x := by
  unfold K.gaussSeidel; exact iter_foldl_flatten _ _ _ _

theorem sor_iter (ω : R) (A : K.Csr R) (b : Array R) (o : List Nat) (k : Nat) (x : Array R) :
    K.iter (fun x => K.sorGaussSeidel ω A b o x) k x =
      K.sorGaussSeidel ω A b (List.replicate k o).flatten x := by
  unfold K.sorGaussSeidel; exact iter_foldl_flatten _ _ _ _

theorem gs_append (A : K.Csr R) (b : Array R) (o₁ o₂ : List Nat) (x : Array R) :
    K.gaussSeidel A b o₂ (K.gaussSeidel A b o₁ x) = K.gaussSeidel A b (o₁ ++ o₂) x := by
  unfold K.gaussSeidel; rw [List.foldl_append]

theorem sor_append (ω : R) (A : K.Csr R) (b : Array R) (o₁ o₂ : List Nat) (x : Array R) :
    K.sorGaussSeidel ω A b o₂ (K.sorGaussSeidel ω A b o₁ x) = K.sorGaussSeidel ω A b (o₁ ++ o₂) x := by
  unfold K.sorGaussSeidel; rw [List.foldl_append]

/-- the Python driver is one kernel sweep over `pyOrder` (plain kernel iff `ω = 1`) -/
theorem pyGaussSeidel_eq (ω : R) (A : K.Csr R) (b : Array R) (iters : Nat) (sw : K.Sweep) (x : Array R) :
    K.pyGaussSeidel ω A b iters sw x =
      if ω = 1 then K.gaussSeidel A b (pyOrder A.n iters sw) x
      else K.sorGaussSeidel ω A b (pyOrder A.n iters sw) x := by
  by_cases hω : ω = 1
  · rw [if_pos hω]
    have hp : ∀ bw, K.gsPass ω A b bw = fun x => K.gaussSeidel A b (K.dirRows A.n bw) x := by
      intro bw; funext x; simp [K.gsPass, hω]
    cases sw <;> simp only [K.pyGaussSeidel, pyOrder, hp]
    · exact gs_iter _ _ _ _ _
    · exact gs_iter _ _ _ _ _
    · simp only [gs_append]; exact gs_iter _ _ _ _ _
  · rw [if_neg hω]
    have hp : ∀ bw, K.gsPass ω A b bw = fun x => K.sorGaussSeidel ω A b (K.dirRows A.n bw) x := by
      intro bw; funext x; simp [K.gsPass, hω]
    cases sw <;> simp only [K.pyGaussSeidel, pyOrder, hp]
    · exact sor_iter _ _ _ _ _ _
    · exact sor_iter _ _ _ _ _ _
    · simp only [sor_append]; exact sor_iter _ _ _ _ _ _

end PyamgV
