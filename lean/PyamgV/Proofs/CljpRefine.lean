import PyamgV.Model.KCljp
import PyamgV.Proofs.ColoringLoop

/-! PyamgV (C13, CLJP): the cover invariant proved directly on the executable kernel model
`PyamgV.KCljp` (the one validated against the real kernel). Edges are the positions of `Sj`.

Invariant (`Good`):
* (I1) a removed entry `(i, pos, m)` has `i` a C-point or `i` depending on a C-point;
* (I2) every entry into an F-point is removed;
* (I3) `weight[m] ≥ #{unremoved entries into m}` — through an abstract relation `ge w k`
  ("`w ≥ k`") with the laws floating-point `+1`, `-1`, `<` satisfy by monotonicity of rounding.

Consequence (`pass_good`, `cover_of_good`): in every state reached by whole passes from the
initial state, once no node is undecided every F-point that depends on some node depends on a
C-point. Preconditions, exactly what the Python wrapper establishes: no self loops (P6 would
decrement a weight for an entry the initialisation never counted), `T` is the transpose
pattern, column indices in range, and positions identify entries (`PosInj`, a consequence of a
monotone row pointer). Core Lean only. -/
namespace PyamgV.KCljp

variable {W : Type} [Inhabited W]

/-- laws of the weight arithmetic: `ge w k` reads "`w ≥ k`" -/
structure WLaw (o : WOps W) (ge : W → Nat → Prop) : Prop where
  inc : ∀ w k, ge w k → ge (o.inc w) (k+1)
  dec : ∀ w k, ge w (k+1) → ge (o.dec w) k
  one : ∀ w, ge w 1 → o.lt w o.one = false
  mono : ∀ w k, ge w (k+1) → ge w k

/-- all stored entries `(row, position, column)` -/
def allE (S : Csr) : List (Nat × Nat × Nat) :=
  (List.range S.n).flatMap (fun i => (S.rowPos i).map (fun pm => (i, pm.1, pm.2)))

theorem mem_allE {S : Csr} {i : Nat} (hi : i < S.n) {pm : Nat × Nat} (h : pm ∈ S.rowPos i) :
    (i, pm.1, pm.2) ∈ allE S := by
  unfold allE
  rw [List.mem_flatMap]
  exact ⟨i, List.mem_range.2 hi, List.mem_map.2 ⟨pm, h, rfl⟩⟩

theorem allE_row {S : Csr} {e : Nat × Nat × Nat} (h : e ∈ allE S) :
    e.1 < S.n ∧ (e.2.1, e.2.2) ∈ S.rowPos e.1 := by
  unfold allE at h
  rw [List.mem_flatMap] at h
  obtain ⟨i, hi, he⟩ := h
  rw [List.mem_map] at he
  obtain ⟨pm, hpm, rfl⟩ := he
  exact ⟨List.mem_range.1 hi, hpm⟩

/-- structural assumptions on the strength pattern -/
structure SOK (S T : Csr) : Prop where
  cols : ∀ e ∈ allE S, e.2.2 < S.n
  noself : ∀ e ∈ allE S, e.1 ≠ e.2.2
  posInj : ∀ e ∈ allE S, ∀ e' ∈ allE S, e.2.1 = e'.2.1 → e = e'
  posLt : ∀ e ∈ allE S, e.2.1 < rdN S.ap S.n
  nodup : (allE S).Nodup
  tn : T.n = S.n
  tcols : ∀ c, c < S.n → ∀ pj ∈ T.rowPos c, pj.2 < S.n
  transp : ∀ c, c < S.n → ∀ pj ∈ T.rowPos c, ∃ pos, (pos, c) ∈ S.rowPos pj.2

/-- number of unremoved entries into `m` -/
def cnt (S : Csr) (mark : Array Int) (m : Nat) : Nat :=
  (allE S).countP (fun e => decide (e.2.2 = m) && decide (rdI mark e.2.1 ≠ 0))

structure Good (S : Csr) (ge : W → Nat → Prop) (s : St W) : Prop where
  ssz : s.split.size = S.n
  msz : s.mark.size = rdN S.ap S.n
  wsz : s.wt.size = S.n
  i1 : ∀ e ∈ allE S, rdI s.mark e.2.1 = 0 →
    rdI s.split e.1 = CN ∨ ∃ pc ∈ S.rowPos e.1, rdI s.split pc.2 = CN
  i2 : ∀ m, m < S.n → rdI s.split m = FN → ∀ e ∈ allE S, e.2.2 = m → rdI s.mark e.2.1 = 0
  i3 : ∀ m, m < S.n → ge (rdW s.wt m) (cnt S s.mark m)

theorem rdI_wrI (a : Array Int) (i j : Nat) (v : Int) :
    rdI (wrI a i v) j = if i = j ∧ i < a.size then v else rdI a j := by
  unfold rdI wrI
  simp only [Array.getD_eq_getD_getElem?, Array.getElem?_setIfInBounds]
  by_cases h : i = j
  · subst h
    by_cases h2 : i < a.size <;> simp [h2]
  · simp [h]

theorem rdW_wrW (a : Array W) (i j : Nat) (v : W) :
    rdW (wrW a i v) j = if i = j ∧ i < a.size then v else rdW a j := by
  unfold rdW wrW
  simp only [Array.getD_eq_getD_getElem?, Array.getElem?_setIfInBounds]
  by_cases h : i = j
  · subst h
    by_cases h2 : i < a.size <;> simp [h2]
  · simp [h]

theorem countP_flip' {α : Type} {l : List α} (hnd : l.Nodup) {p q : α → Bool} {k : α}
    (hk : k ∈ l) (hsame : ∀ m ∈ l, m ≠ k → q m = p m) (hp : p k = false) (hq : q k = true) :
    l.countP q = l.countP p + 1 := by
  induction l with
  | nil => simp at hk
  | cons a as ih =>
    rw [List.nodup_cons] at hnd
    rw [List.countP_cons, List.countP_cons]
    rcases List.mem_cons.1 hk with hka | hka
    · subst hka
      have hrest : as.countP q = as.countP p := by
        apply List.countP_congr
        intro m hm
        have hne : m ≠ k := fun e => hnd.1 (e ▸ hm)
        rw [hsame m (by simp [hm]) hne]
      rw [hrest, hp, hq]; simp
    · have hne : a ≠ k := fun e => hnd.1 (e ▸ hka)
      have := ih hnd.2 hka (fun m hm hmk => hsame m (by simp [hm]) hmk)
      rw [this, hsame a (by simp) hne]; omega

/-- removing the entry at `pos` lowers the count of its column by one and no other -/
theorem cnt_remove {S T : Csr} (hS : SOK S T) (mark : Array Int) (hm : mark.size = rdN S.ap S.n)
    (e : Nat × Nat × Nat) (he : e ∈ allE S) (hmark : rdI mark e.2.1 ≠ 0) :
    cnt S mark e.2.2 = cnt S (wrI mark e.2.1 0) e.2.2 + 1 ∧
    ∀ m, m ≠ e.2.2 → cnt S (wrI mark e.2.1 0) m = cnt S mark m := by
  have hlt : e.2.1 < mark.size := by rw [hm]; exact hS.posLt e he
  have hnew : ∀ e' ∈ allE S, rdI (wrI mark e.2.1 0) e'.2.1 =
      if e' = e then 0 else rdI mark e'.2.1 := by
    intro e' he'
    rw [rdI_wrI]
    by_cases hee : e' = e
    · rw [if_pos hee, hee, if_pos ⟨rfl, hlt⟩]
    · rw [if_neg hee, if_neg]
      intro h
      exact hee (hS.posInj e' he' e he h.1.symm)
  refine ⟨?_, ?_⟩
  · unfold cnt
    apply countP_flip' hS.nodup (k := e) he
    · intro x hx hxe
      rw [hnew x hx, if_neg hxe]
    · rw [hnew e he, if_pos rfl]; simp
    · simp [hmark]
  · intro m hm
    unfold cnt
    apply List.countP_congr
    intro x hx
    by_cases hxe : x = e
    · subst hxe
      have : ¬ x.2.2 = m := fun h => hm h.symm
      simp [this]
    · rw [hnew x hx, if_neg hxe]

theorem ge_one_of_pos {o : WOps W} {ge : W → Nat → Prop} (hL : WLaw o ge) (w : W) :
    ∀ k, 1 ≤ k → ge w k → ge w 1 := by
  intro k
  induction k with
  | zero => intro h; omega
  | succ k ih =>
    intro _ hk
    by_cases h1 : k = 0
    · subst h1; exact hk
    · exact ih (by omega) (hL.mono w k hk)

/-- the one state change of P5/P6 -/
theorem remove_good {S T : Csr} (hS : SOK S T) {o : WOps W} {ge : W → Nat → Prop}
    (hL : WLaw o ge) (s : St W) (hG : Good S ge s) (e : Nat × Nat × Nat) (he : e ∈ allE S)
    (hmark : rdI s.mark e.2.1 ≠ 0) (hU : rdI s.split e.2.2 = UN)
    (hJ : rdI s.split e.1 = CN ∨ ∃ pc ∈ S.rowPos e.1, rdI s.split pc.2 = CN) :
    Good S ge (removeEdge o s e.2.1 e.2.2) ∧
    (∀ v, rdI s.split v = CN → rdI (removeEdge o s e.2.1 e.2.2).split v = CN) := by
  have hkn : e.2.2 < S.n := hS.cols e he
  have hplt : e.2.1 < s.mark.size := by rw [hG.msz]; exact hS.posLt e he
  obtain ⟨hc1, hc2⟩ := cnt_remove hS s.mark hG.msz e he hmark
  -- marks only go to zero
  have hmark0 : ∀ x, rdI s.mark x = 0 → rdI (wrI s.mark e.2.1 0) x = 0 := by
    intro x hx
    rw [rdI_wrI]
    by_cases h : e.2.1 = x ∧ e.2.1 < s.mark.size
    · rw [if_pos h]
    · rw [if_neg h]; exact hx
  have hmarkE : ∀ e' ∈ allE S, rdI (wrI s.mark e.2.1 0) e'.2.1 = 0 →
      e' = e ∨ rdI s.mark e'.2.1 = 0 := by
    intro e' he' h0
    by_cases hee : e' = e
    · exact Or.inl hee
    · right
      rw [rdI_wrI, if_neg] at h0
      · exact h0
      · intro h; exact hee (hS.posInj e' he' e he h.1.symm)
  have hwk : rdW (wrW s.wt e.2.2 (o.dec (rdW s.wt e.2.2))) e.2.2 = o.dec (rdW s.wt e.2.2) := by
    rw [rdW_wrW, if_pos ⟨rfl, by rw [hG.wsz]; exact hkn⟩]
  have hwo : ∀ m, m ≠ e.2.2 → rdW (wrW s.wt e.2.2 (o.dec (rdW s.wt e.2.2))) m = rdW s.wt m := by
    intro m hm
    rw [rdW_wrW, if_neg (fun h => hm h.1.symm)]
  have hge : ge (o.dec (rdW s.wt e.2.2)) (cnt S (wrI s.mark e.2.1 0) e.2.2) := by
    apply hL.dec
    rw [← hc1]; exact hG.i3 e.2.2 hkn
  -- the intermediate state (edge removed, weight decremented)
  have hmid : Good S ge ({ s with mark := wrI s.mark e.2.1 0,
                                  wt := wrW s.wt e.2.2 (o.dec (rdW s.wt e.2.2)) } : St W) := by
    refine ⟨hG.ssz, by simpa [wrI] using hG.msz, by simpa [wrW] using hG.wsz, ?_, ?_, ?_⟩
    · intro e' he' h0
      rcases hmarkE e' he' h0 with h | h
      · rw [h]; exact hJ
      · exact hG.i1 e' he' h
    · intro m hm hF e' he' hem
      exact hmark0 _ (hG.i2 m hm hF e' he' hem)
    · intro m hm
      by_cases hmk : m = e.2.2
      · rw [hmk, hwk]; exact hge
      · show ge (rdW (wrW s.wt e.2.2 (o.dec (rdW s.wt e.2.2))) m) (cnt S (wrI s.mark e.2.1 0) m)
        rw [hwo m hmk, hc2 m hmk]; exact hG.i3 m hm
  unfold removeEdge
  simp only
  by_cases hlt : o.lt (o.dec (rdW s.wt e.2.2)) o.one = true
  · rw [if_pos hlt]
    have hsp : ∀ v, rdI (wrI s.split e.2.2 FN) v = if e.2.2 = v then FN else rdI s.split v := by
      intro v
      rw [rdI_wrI]
      by_cases hv : e.2.2 = v
      · rw [if_pos ⟨hv, by rw [hG.ssz]; exact hkn⟩, if_pos hv]
      · rw [if_neg (fun h => hv h.1), if_neg hv]
    have hC : ∀ v, rdI s.split v = CN → rdI (wrI s.split e.2.2 FN) v = CN := by
      intro v hv
      rw [hsp]
      by_cases hkv : e.2.2 = v
      · rw [← hkv, hU] at hv; exact absurd hv (by decide)
      · rw [if_neg hkv]; exact hv
    -- all entries into k are removed
    have hzero : cnt S (wrI s.mark e.2.1 0) e.2.2 = 0 := by
      apply Classical.byContradiction
      intro hne
      have := hL.one _ (ge_one_of_pos hL _ _ (by omega) hge)
      rw [this] at hlt; exact absurd hlt (by decide)
    refine ⟨⟨by simpa [wrI] using hG.ssz, hmid.msz, hmid.wsz, ?_, ?_, hmid.i3⟩, hC⟩
    · intro e' he' h0
      rcases hmid.i1 e' he' h0 with h | ⟨pc, hpc, h⟩
      · exact Or.inl (hC _ h)
      · exact Or.inr ⟨pc, hpc, hC _ h⟩
    · intro m hm hF e' he' hem
      show rdI (wrI s.mark e.2.1 0) e'.2.1 = 0
      have hF' : rdI (wrI s.split e.2.2 FN) m = FN := hF
      rw [hsp] at hF'
      by_cases hkm : e.2.2 = m
      · -- the node that has just become F
        unfold cnt at hzero
        rw [List.countP_eq_zero] at hzero
        have := hzero e' he'
        apply Classical.byContradiction
        intro hne
        apply this
        simp [hem, hkm, hne]
      · rw [if_neg hkm] at hF'
        exact hmid.i2 m hm hF' e' he' hem
  · rw [if_neg hlt]
    exact ⟨hmid, fun v hv => hv⟩

/-- justification attached to a removable entry, stable once established (C is permanent) -/
def Just (S : Csr) (s : St W) (e : Nat × Nat × Nat) : Prop :=
  rdI s.split e.1 = CN ∨ ∃ pc ∈ S.rowPos e.1, rdI s.split pc.2 = CN

/-- a fold of guarded removals over entries that are all justified keeps the invariant -/
theorem fold_remove {S T : Csr} (hS : SOK S T) {o : WOps W} {ge : W → Nat → Prop}
    (hL : WLaw o ge) (guard : St W → Nat × Nat × Nat → Bool)
    (hguard : ∀ s e, guard s e = true → rdI s.split e.2.2 = UN ∧ rdI s.mark e.2.1 ≠ 0) :
    ∀ (es : List (Nat × Nat × Nat)) (s : St W), Good S ge s →
      (∀ e ∈ es, e ∈ allE S ∧ Just S s e) →
      Good S ge (es.foldl (guardedRemove o guard) s) ∧
      (∀ v, rdI s.split v = CN → rdI (es.foldl (guardedRemove o guard) s).split v = CN) := by
  intro es
  induction es with
  | nil => intro s hG _; exact ⟨hG, fun _ h => h⟩
  | cons e es ih =>
    intro s hG hes
    rw [List.foldl_cons]
    obtain ⟨heE, heJ⟩ := hes e (by simp)
    have hstep : Good S ge (guardedRemove o guard s e) ∧
        (∀ v, rdI s.split v = CN → rdI (guardedRemove o guard s e).split v = CN) := by
      unfold guardedRemove
      by_cases hg : guard s e = true
      · rw [if_pos hg]
        obtain ⟨hU, hm⟩ := hguard s e hg
        exact remove_good hS hL s hG e heE hm hU heJ
      · rw [if_neg hg]; exact ⟨hG, fun _ h => h⟩
    obtain ⟨hG1, hC1⟩ := hstep
    have hes' : ∀ e' ∈ es, e' ∈ allE S ∧ Just S (guardedRemove o guard s e) e' := by
      intro e' he'
      obtain ⟨h1, h2⟩ := hes e' (by simp [he'])
      refine ⟨h1, ?_⟩
      rcases h2 with h | ⟨pc, hpc, h⟩
      · exact Or.inl (hC1 _ h)
      · exact Or.inr ⟨pc, hpc, hC1 _ h⟩
    obtain ⟨hG2, hC2⟩ := ih _ hG1 hes'
    exact ⟨hG2, fun v hv => hC2 v (hC1 v hv)⟩

theorem g5_guard (s : St W) (e : Nat × Nat × Nat) (h : g5 s e = true) :
    rdI s.split e.2.2 = UN ∧ rdI s.mark e.2.1 ≠ 0 := by
  unfold g5 at h
  simp only [Bool.and_eq_true, beq_iff_eq, bne_iff_ne] at h
  exact h

theorem g6_guard (c : Nat) (s : St W) (e : Nat × Nat × Nat) (h : g6 c s e = true) :
    rdI s.split e.2.2 = UN ∧ rdI s.mark e.2.1 ≠ 0 := by
  unfold g6 at h
  simp only [Bool.and_eq_true, beq_iff_eq, bne_iff_ne] at h
  exact h.1

theorem rowE_mem {S : Csr} {c : Nat} (hc : c < S.n) :
    ∀ e ∈ S.rowE c, e ∈ allE S ∧ e.1 = c := by
  intro e he
  unfold Csr.rowE at he
  rw [List.mem_map] at he
  obtain ⟨pm, hpm, rfl⟩ := he
  exact ⟨mem_allE hc hpm, rfl⟩

/-- P5 for one C-point -/
theorem p5_good {S T : Csr} (hS : SOK S T) {o : WOps W} {ge : W → Nat → Prop} (hL : WLaw o ge)
    (s : St W) (hG : Good S ge s) (c : Nat) (hc : c < S.n) (hC : rdI s.split c = CN) :
    Good S ge (p5 o S s c) ∧ (∀ v, rdI s.split v = CN → rdI (p5 o S s c).split v = CN) := by
  unfold p5
  apply fold_remove hS hL g5 g5_guard (S.rowE c) s hG
  intro e he
  obtain ⟨h1, h2⟩ := rowE_mem hc e he
  exact ⟨h1, Or.inl (by rw [h2]; exact hC)⟩

theorem p6Cache_same (T : Csr) (c : Nat) : ∀ (l : List (Nat × Nat)) (s : St W),
    (l.foldl (fun s pj =>
      if rdI s.split pj.2 == UN then { s with cache := wrI s.cache pj.2 c } else s) s).split = s.split ∧
    (l.foldl (fun s pj =>
      if rdI s.split pj.2 == UN then { s with cache := wrI s.cache pj.2 c } else s) s).mark = s.mark ∧
    (l.foldl (fun s pj =>
      if rdI s.split pj.2 == UN then { s with cache := wrI s.cache pj.2 c } else s) s).wt = s.wt := by
  intro l
  induction l with
  | nil => intro s; exact ⟨rfl, rfl, rfl⟩
  | cons a as ih =>
    intro s
    rw [List.foldl_cons]
    obtain ⟨h1, h2, h3⟩ := ih (if rdI s.split a.2 == UN then { s with cache := wrI s.cache a.2 c } else s)
    refine ⟨h1.trans ?_, h2.trans ?_, h3.trans ?_⟩ <;> split <;> rfl

theorem good_congr {S : Csr} {ge : W → Nat → Prop} {s t : St W} (hG : Good S ge s)
    (h1 : t.split = s.split) (h2 : t.mark = s.mark) (h3 : t.wt = s.wt) : Good S ge t := by
  refine ⟨by rw [h1]; exact hG.ssz, by rw [h2]; exact hG.msz, by rw [h3]; exact hG.wsz, ?_, ?_, ?_⟩
  · intro e he h0; rw [h1]; rw [h2] at h0; exact hG.i1 e he h0
  · intro m hm hF e he hem; rw [h2]; rw [h1] at hF; exact hG.i2 m hm hF e he hem
  · intro m hm; rw [h3, h2]; exact hG.i3 m hm

/-- P6 for one C-point -/
theorem p6_good {S T : Csr} (hS : SOK S T) {o : WOps W} {ge : W → Nat → Prop} (hL : WLaw o ge)
    (s : St W) (hG : Good S ge s) (c : Nat) (hc : c < S.n) (hC : rdI s.split c = CN) :
    Good S ge (p6 o S T s c) ∧ (∀ v, rdI s.split v = CN → rdI (p6 o S T s c).split v = CN) := by
  unfold p6
  obtain ⟨hc1, hc2, hc3⟩ := p6Cache_same (W := W) T c (T.rowPos c) s
  have hG0 : Good S ge (p6Cache T s c) := good_congr hG hc1 hc2 hc3
  have hC0 : ∀ v, rdI s.split v = CN → rdI (p6Cache T s c).split v = CN := by
    intro v hv; unfold p6Cache; rw [hc1]; exact hv
  -- outer fold over the nodes j that depend on c
  have key : ∀ (l : List (Nat × Nat)), (∀ pj ∈ l, pj ∈ T.rowPos c) → ∀ (s1 : St W),
      Good S ge s1 → rdI s1.split c = CN →
      Good S ge (l.foldl (fun s pj => (S.rowE pj.2).foldl (guardedRemove o (g6 c)) s) s1) ∧
      (∀ v, rdI s1.split v = CN →
        rdI (l.foldl (fun s pj => (S.rowE pj.2).foldl (guardedRemove o (g6 c)) s) s1).split v = CN) := by
    intro l
    induction l with
    | nil => intro _ s1 h1 _; exact ⟨h1, fun _ h => h⟩
    | cons pj l ih =>
      intro hl s1 hG1 hC1
      rw [List.foldl_cons]
      have hpj := hl pj (by simp)
      have hjn : pj.2 < S.n := hS.tcols c hc pj hpj
      obtain ⟨pos, hpos⟩ := hS.transp c hc pj hpj
      have hin := fold_remove hS hL (g6 c) (g6_guard c) (S.rowE pj.2) s1 hG1 (by
        intro e he
        obtain ⟨h1, h2⟩ := rowE_mem hjn e he
        refine ⟨h1, Or.inr ⟨(pos, c), ?_, hC1⟩⟩
        rw [h2]; exact hpos)
      obtain ⟨hG2, hC2⟩ := hin
      obtain ⟨hG3, hC3⟩ := ih (fun x hx => hl x (by simp [hx])) _ hG2 (hC2 c hC1)
      exact ⟨hG3, fun v hv => hC3 v (hC2 v hv)⟩
  obtain ⟨hG1, hC1⟩ := key (T.rowPos c) (fun _ h => h) (p6Cache T s c) hG0 (hC0 c hC)
  exact ⟨hG1, fun v hv => hC1 v (hC0 v hv)⟩

/-- a fold of per-C-point phases over the freshly selected nodes -/
theorem phase_good {S : Csr} {ge : W → Nat → Prop} (f : St W → Nat → St W)
    (hf : ∀ s c, Good S ge s → c < S.n → rdI s.split c = CN →
      Good S ge (f s c) ∧ ∀ v, rdI s.split v = CN → rdI (f s c).split v = CN) :
    ∀ (dl : List Nat) (s : St W), Good S ge s → (∀ c ∈ dl, c < S.n ∧ rdI s.split c = CN) →
      Good S ge (dl.foldl f s) ∧ ∀ v, rdI s.split v = CN → rdI (dl.foldl f s).split v = CN := by
  intro dl
  induction dl with
  | nil => intro s hG _; exact ⟨hG, fun _ h => h⟩
  | cons c dl ih =>
    intro s hG hdl
    rw [List.foldl_cons]
    obtain ⟨hcn, hcC⟩ := hdl c (by simp)
    obtain ⟨hG1, hC1⟩ := hf s c hG hcn hcC
    obtain ⟨hG2, hC2⟩ := ih (f s c) hG1 (fun c' hc' =>
      ⟨(hdl c' (by simp [hc'])).1, hC1 c' (hdl c' (by simp [hc'])).2⟩)
    exact ⟨hG2, fun v hv => hC2 v (hC1 v hv)⟩

/-! ### selection -/

theorem markC_fold (n : Nat) : ∀ (dl : List Nat) (s : St W), s.split.size = n →
    (∀ i ∈ dl, i < n) →
    (dl.foldl (fun s i => { s with split := wrI s.split i CN }) s).mark = s.mark ∧
    (dl.foldl (fun s i => { s with split := wrI s.split i CN }) s).wt = s.wt ∧
    (dl.foldl (fun s i => { s with split := wrI s.split i CN }) s).split.size = n ∧
    ∀ v, rdI (dl.foldl (fun s i => { s with split := wrI s.split i CN }) s).split v =
      if v ∈ dl then CN else rdI s.split v := by
  intro dl
  induction dl with
  | nil => intro s hs _; exact ⟨rfl, rfl, hs, fun v => by simp⟩
  | cons i dl ih =>
    intro s hs hdl
    rw [List.foldl_cons]
    have hi : i < n := hdl i (by simp)
    obtain ⟨h1, h2, h3, h4⟩ := ih ({ s with split := wrI s.split i CN } : St W)
      (by simpa [wrI] using hs) (fun j hj => hdl j (by simp [hj]))
    refine ⟨h1, h2, h3, ?_⟩
    intro v
    rw [h4 v]
    by_cases hv : v ∈ dl
    · rw [if_pos hv, if_pos (by simp [hv])]
    · rw [if_neg hv]
      show rdI (wrI s.split i CN) v = _
      rw [rdI_wrI]
      by_cases hiv : i = v
      · rw [if_pos ⟨hiv, by rw [hs]; exact hi⟩, if_pos (by simp [hiv])]
      · rw [if_neg (fun h => hiv h.1), if_neg (by
          intro h; rcases List.mem_cons.1 h with h | h
          · exact hiv h.symm
          · exact hv h)]

theorem select_mem (o : WOps W) (S T : Csr) (s : St W) :
    ∀ i ∈ select o S T s, i < S.n ∧ rdI s.split i = UN := by
  intro i hi
  unfold select at hi
  rw [List.mem_filter] at hi
  refine ⟨List.mem_range.1 hi.1, ?_⟩
  have := hi.2
  simp only [Bool.and_eq_true, beq_iff_eq] at this
  exact this.1.1

theorem markC_good {S : Csr} {ge : W → Nat → Prop} (s : St W) (hG : Good S ge s)
    (dl : List Nat) (hdl : ∀ i ∈ dl, i < S.n ∧ rdI s.split i = UN) :
    Good S ge (markC s dl) ∧ (∀ c ∈ dl, c < S.n ∧ rdI (markC s dl).split c = CN) := by
  unfold markC
  obtain ⟨h1, h2, h3, h4⟩ := markC_fold (W := W) S.n dl
    ({ s with unassigned := s.unassigned - dl.length } : St W) hG.ssz (fun i hi => (hdl i hi).1)
  have hC : ∀ v, rdI s.split v = CN →
      rdI (dl.foldl (fun s i => { s with split := wrI s.split i CN })
        ({ s with unassigned := s.unassigned - dl.length } : St W)).split v = CN := by
    intro v hv
    rw [h4 v]
    by_cases hvd : v ∈ dl
    · rw [if_pos hvd]
    · rw [if_neg hvd]; exact hv
  refine ⟨⟨h3, by rw [h1]; exact hG.msz, by rw [h2]; exact hG.wsz, ?_, ?_, ?_⟩, ?_⟩
  · intro e he h0
    rw [h1] at h0
    rcases hG.i1 e he h0 with h | ⟨pc, hpc, h⟩
    · exact Or.inl (hC _ h)
    · exact Or.inr ⟨pc, hpc, hC _ h⟩
  · intro m hm hF e he hem
    rw [h1]
    rw [h4 m] at hF
    by_cases hmd : m ∈ dl
    · rw [if_pos hmd] at hF; exact absurd hF (by decide)
    · rw [if_neg hmd] at hF
      exact hG.i2 m hm hF e he hem
  · intro m hm
    rw [h2, h1]; exact hG.i3 m hm
  · intro c hc
    refine ⟨(hdl c hc).1, ?_⟩
    rw [h4 c, if_pos hc]

/-- **one whole pass of the selection loop keeps the invariant** -/
theorem pass_good {S T : Csr} (hS : SOK S T) {o : WOps W} {ge : W → Nat → Prop} (hL : WLaw o ge)
    (s : St W) (hG : Good S ge s) : Good S ge (pass o S T s) := by
  unfold pass
  simp only
  obtain ⟨hG1, hC1⟩ := markC_good s hG (select o S T s) (select_mem o S T s)
  obtain ⟨hG2, hC2⟩ := phase_good (p5 o S) (fun s c h1 h2 h3 => p5_good hS hL s h1 c h2 h3)
    (select o S T s) _ hG1 hC1
  have hC3 : ∀ c ∈ select o S T s, c < S.n ∧
      rdI ((select o S T s).foldl (p5 o S) (markC s (select o S T s))).split c = CN :=
    fun c hc => ⟨(hC1 c hc).1, hC2 c (hC1 c hc).2⟩
  exact (phase_good (p6 o S T) (fun s c h1 h2 h3 => p6_good hS hL s h1 c h2 h3)
    (select o S T s) _ hG2 hC3).1

/-- **cover** from the invariant, once no node is undecided -/
theorem cover_of_good {S T : Csr} (hS : SOK S T) {ge : W → Nat → Prop} (s : St W)
    (hG : Good S ge s)
    (hvals : ∀ v, v < S.n → rdI s.split v = CN ∨ rdI s.split v = FN)
    (k : Nat) (hk : k < S.n) (hkF : rdI s.split k = FN)
    (pm : Nat × Nat) (hdep : pm ∈ S.rowPos k) :
    ∃ pc ∈ S.rowPos k, rdI s.split pc.2 = CN := by
  have he := mem_allE hk hdep
  have hmn : pm.2 < S.n := hS.cols _ he
  rcases hvals pm.2 hmn with hC | hF
  · exact ⟨pm, hdep, hC⟩
  · have h0 := hG.i2 pm.2 hmn hF _ he rfl
    rcases hG.i1 _ he h0 with h | h
    · rw [hkF] at h; exact absurd h (by decide)
    · exact h

/-! ### initial state -/

def stepW (o : WOps W) (w : Array W) (e : Nat × Nat × Nat) : Array W :=
  if e.1 ≠ e.2.2 then wrW w e.2.2 (o.inc (rdW w e.2.2)) else w

theorem initWeights_eq (o : WOps W) (S : Csr) (w0 : Array W) :
    initWeights o S w0 = (allE S).foldl (stepW o) w0 := by
  unfold initWeights allE
  rw [List.foldl_flatMap]
  congr 1
  funext w i
  rw [List.foldl_map]
  rfl

theorem weights_count {o : WOps W} {ge : W → Nat → Prop} (hL : WLaw o ge) (n m : Nat)
    (hm : m < n) : ∀ (es : List (Nat × Nat × Nat)) (w : Array W) (k : Nat),
    (∀ e ∈ es, e.1 ≠ e.2.2 ∧ e.2.2 < n) → w.size = n → ge (rdW w m) k →
    (es.foldl (stepW o) w).size = n ∧
    ge (rdW (es.foldl (stepW o) w) m) (k + es.countP (fun e => decide (e.2.2 = m))) := by
  intro es
  induction es with
  | nil => intro w k _ hw hk; exact ⟨hw, by simpa using hk⟩
  | cons e es ih =>
    intro w k hes hw hk
    rw [List.foldl_cons, List.countP_cons]
    obtain ⟨hne, hen⟩ := hes e (by simp)
    have hstep : stepW o w e = wrW w e.2.2 (o.inc (rdW w e.2.2)) := by
      unfold stepW; rw [if_pos hne]
    rw [hstep]
    have hsz : (wrW w e.2.2 (o.inc (rdW w e.2.2))).size = n := by simpa [wrW] using hw
    by_cases hem : e.2.2 = m
    · have hk' : ge (rdW (wrW w e.2.2 (o.inc (rdW w e.2.2))) m) (k + 1) := by
        rw [rdW_wrW, if_pos ⟨hem, by rw [hw]; exact hen⟩, hem]
        exact hL.inc _ _ hk
      obtain ⟨h1, h2⟩ := ih _ (k+1) (fun x hx => hes x (by simp [hx])) hsz hk'
      refine ⟨h1, ?_⟩
      have : (if decide (e.2.2 = m) = true then 1 else 0) = 1 := by simp [hem]
      rw [this]
      have e2 : k + (List.countP (fun e => decide (e.2.2 = m)) es + 1) =
          k + 1 + List.countP (fun e => decide (e.2.2 = m)) es := by omega
      rw [e2]; exact h2
    · have hk' : ge (rdW (wrW w e.2.2 (o.inc (rdW w e.2.2))) m) k := by
        rw [rdW_wrW, if_neg (fun h => hem h.1)]; exact hk
      obtain ⟨h1, h2⟩ := ih _ k (fun x hx => hes x (by simp [hx])) hsz hk'
      refine ⟨h1, ?_⟩
      have : (if decide (e.2.2 = m) = true then 1 else 0) = 0 := by simp [hem]
      rw [this]; exact h2

/-- the state the kernel starts its selection loop from -/
def initState (o : WOps W) (S : Csr) (w0 : Array W) : St W :=
  { split := Array.replicate S.n UN, mark := Array.replicate (rdN S.ap S.n) 1,
    wt := initWeights o S w0, cache := Array.replicate S.n (-1), unassigned := S.n }

theorem init_good {S T : Csr} (hS : SOK S T) {o : WOps W} {ge : W → Nat → Prop} (hL : WLaw o ge)
    (w0 : Array W) (hw : w0.size = S.n) (h0 : ∀ m, m < S.n → ge (rdW w0 m) 0) :
    Good S ge (initState o S w0) := by
  have hmk : ∀ e ∈ allE S, rdI (Array.replicate (rdN S.ap S.n) (1 : Int)) e.2.1 = 1 := by
    intro e he
    have := hS.posLt e he
    simp [rdI, this]
  have hall : ∀ e ∈ allE S, e.1 ≠ e.2.2 ∧ e.2.2 < S.n := fun e he => ⟨hS.noself e he, hS.cols e he⟩
  refine ⟨by simp [initState], by simp [initState], ?_, ?_, ?_, ?_⟩
  · show (initWeights o S w0).size = S.n
    rw [initWeights_eq]
    by_cases hn : 0 < S.n
    · exact (weights_count hL S.n 0 hn (allE S) w0 0 hall hw (h0 0 hn)).1
    · -- no rows: nothing to fold over
      have : allE S = [] := by
        unfold allE
        have : S.n = 0 := by omega
        rw [this]; rfl
      rw [this]; exact hw
  · intro e he h
    have := hmk e he
    have h' : rdI (Array.replicate (rdN S.ap S.n) (1 : Int)) e.2.1 = 0 := h
    rw [this] at h'; exact absurd h' (by decide)
  · intro m hm hF
    have : rdI (Array.replicate S.n UN) m = FN := hF
    simp [rdI, hm] at this
    exact absurd this (by decide)
  · intro m hm
    show ge (rdW (initWeights o S w0) m) (cnt S (Array.replicate (rdN S.ap S.n) 1) m)
    rw [initWeights_eq]
    have hc : cnt S (Array.replicate (rdN S.ap S.n) 1) m =
        (allE S).countP (fun e => decide (e.2.2 = m)) := by
      unfold cnt
      apply List.countP_congr
      intro e he
      rw [hmk e he]; simp
    rw [hc]
    have := (weights_count hL S.n m hm (allE S) w0 0 hall hw (h0 m hm)).2
    simpa using this

/-- the invariant holds after any number of passes -/
theorem passes_good {S T : Csr} (hS : SOK S T) {o : WOps W} {ge : W → Nat → Prop} (hL : WLaw o ge) :
    ∀ (fuel : Nat) (s : St W), Good S ge s → Good S ge (run.go o S T fuel s).1 := by
  intro fuel
  induction fuel with
  | zero => intro s h; simpa [run.go] using h
  | succ f ih =>
    intro s h
    unfold run.go
    by_cases hu : s.unassigned > 0
    · rw [if_pos hu]; exact ih _ (pass_good hS hL s h)
    · rw [if_neg hu]; exact h

/-- **C13, CLJP on the validated kernel model**: whatever the weights (any type with the `WLaw`
laws — rationals, or doubles by monotonicity of rounding) and whatever the fuel, if the state the
selection loop stops in has no undecided node, every F-point that strongly depends on some node
strongly depends on a C-point. -/
theorem cljp_model_cover {S T : Csr} (hS : SOK S T) {o : WOps W} {ge : W → Nat → Prop}
    (hL : WLaw o ge) (w0 : Array W) (hw : w0.size = S.n) (h0 : ∀ m, m < S.n → ge (rdW w0 m) 0)
    (fuel : Nat)
    (hdone : ∀ v, v < S.n →
      rdI (run.go o S T fuel (initState o S w0)).1.split v = CN ∨
      rdI (run.go o S T fuel (initState o S w0)).1.split v = FN)
    (k : Nat) (hk : k < S.n)
    (hkF : rdI (run.go o S T fuel (initState o S w0)).1.split k = FN)
    (pm : Nat × Nat) (hdep : pm ∈ S.rowPos k) :
    ∃ pc ∈ S.rowPos k, rdI (run.go o S T fuel (initState o S w0)).1.split pc.2 = CN :=
  cover_of_good hS _ (passes_good hS hL fuel _ (init_good hS hL w0 hw h0)) hdone k hk hkF pm hdep

#print axioms cljp_model_cover
end PyamgV.KCljp
