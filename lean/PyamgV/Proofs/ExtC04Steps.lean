import PyamgV.Proofs.Coarsen
import PyamgV.Proofs.C04Loop
import PyamgV.Model.ExtC04Steps
/-! PyamgV (C04 extension E13): every proceeding step of the five constructors strictly decreases the
number of unknowns, hence `Coarsen.build` instantiated with these steps returns strictly decreasing
sizes without any hypothesis on the step (`Coarsen.build_decreasing` assumes it).

Measures.  *Rows* (`A.shape[0]`, the measure of property C04) strictly decrease on every proceeding
step of all five constructors.  *Nodes* (`rows / blocksize`, what the aggregation-type loops compare
with `max_coarse`) strictly decrease for `ruge_stuben` / `air` / `rootnode` / `pairwise` steps, and for
`smoothed_aggregation` steps with at least as many candidates as the block size of the level; with
fewer candidates they need not (`sa_nodes_need_not_decrease`). Core only. -/
namespace PyamgV.ExtC04
open PyamgV.Coarsen

theorem numC_le (s : List Bool) : numC s ≤ s.length := List.countP_le_length

theorem ok_iff (l : Lv) : l.ok = true ↔ 0 < l.bs ∧ l.rows % l.bs = 0 := by
  simp [Lv.ok]

/-! ### one step -/

/-- ruge_stuben: a proceeding step has `0 < #C < n` and the coarse level has `#C` rows -/
theorem stepRS_proceed (l : Lv) (s : List Bool) (r b : Nat) (h : stepRS l s = .proceed r b) :
    l.bs = 1 ∧ s.length = l.rows ∧ r = numC s ∧ b = 1 ∧ 0 < r ∧ r < l.rows := by
  unfold stepRS at h
  have hle := numC_le s
  split at h
  · cases h
  · split at h
    · cases h
    · split at h
      · cases h
      · injection h with h1 h2
        refine ⟨by omega, by omega, h1.symm, h2.symm, by omega, by omega⟩

/-- air: a proceeding step works on a matrix that is not diagonal (`nnz ≠ rows`), has
`0 < #C < #block rows` and the coarse level has `#C * blocksize` rows in blocks of the same size -/
theorem stepAIR_proceed (l : Lv) (nnz : Nat) (s : List Bool) (r b : Nat)
    (h : stepAIR l nnz s = .proceed r b) :
    l.ok = true ∧ nnz ≠ l.rows ∧ s.length * l.bs = l.rows ∧ r = numC s * l.bs ∧ b = l.bs ∧
    0 < numC s ∧ numC s < s.length ∧ 0 < r ∧ r < l.rows := by
  unfold stepAIR at h
  have hle := numC_le s
  split at h
  · cases h
  · rename_i hok
    have hok' : l.ok = true := by simpa using hok
    have hb := ((ok_iff l).1 hok').1
    split at h
    · cases h
    · split at h
      · cases h
      · split at h
        · cases h
        · rename_i h1 h2 h3
          injection h with hr hbs
          have hc0 : 0 < numC s := by omega
          have hc1 : numC s < s.length := by omega
          have hlt : numC s * l.bs < s.length * l.bs := Nat.mul_lt_mul_of_pos_right hc1 hb
          have hpos : 0 < numC s * l.bs := Nat.mul_pos hc0 hb
          refine ⟨hok', h1, by omega, hr.symm, hbs.symm, hc0, hc1, by omega, by omega⟩

theorem stepSA_proceed (l : Lv) (nagg ncand r b : Nat) (h : stepSA l nagg ncand = .proceed r b) :
    l.ok = true ∧ r = nagg * ncand ∧ b = ncand ∧ r < l.rows := by
  unfold stepSA at h
  split at h
  · cases h
  · rename_i hok
    split at h
    · cases h
    · injection h with hr hb
      exact ⟨by simpa using hok, hr.symm, hb.symm, by omega⟩

theorem stepRN_proceed (l : Lv) (nagg r b : Nat) (h : stepRN l nagg = .proceed r b) :
    l.ok = true ∧ r = nagg * l.bs ∧ b = l.bs ∧ r < l.rows := by
  unfold stepRN at h
  split at h
  · cases h
  · rename_i hok
    split at h
    · cases h
    · injection h with hr hb
      exact ⟨by simpa using hok, hr.symm, hb.symm, by omega⟩

theorem stepPW_proceed (l : Lv) (pr pc r b : Nat) (h : stepPW l pr pc = .proceed r b) :
    l.ok = true ∧ pr = l.rows ∧ r = pc ∧ b = l.bs ∧ r < l.rows := by
  unfold stepPW at h
  split at h
  · cases h
  · rename_i hok
    split at h
    · cases h
    · split at h
      · cases h
      · injection h with hr hb
        exact ⟨by simpa using hok, by omega, hr.symm, hb.symm, by omega⟩

/-- **rows**: every proceeding step of every constructor returns strictly fewer rows -/
theorem step_rows_decrease (l : Lv) (i : StepIn) (r b : Nat) (h : step l i = .proceed r b) :
    r < l.rows := by
  cases i with
  | rs s => exact (stepRS_proceed l s r b h).2.2.2.2.2
  | air nnz s => exact (stepAIR_proceed l nnz s r b h).2.2.2.2.2.2.2.2
  | sa nagg ncand => exact (stepSA_proceed l nagg ncand r b h).2.2.2
  | rn nagg => exact (stepRN_proceed l nagg r b h).2.2.2
  | pw pr pc => exact (stepPW_proceed l pr pc r b h).2.2.2.2

/-- the classical steps never produce an empty level -/
theorem step_classical_nonempty (l : Lv) (i : StepIn) (r b : Nat) (h : step l i = .proceed r b)
    (hi : (∃ s, i = .rs s) ∨ (∃ nnz s, i = .air nnz s)) : 0 < r := by
  rcases hi with ⟨s, rfl⟩ | ⟨nnz, s, rfl⟩
  · exact (stepRS_proceed l s r b h).2.2.2.2.1
  · exact (stepAIR_proceed l nnz s r b h).2.2.2.2.2.2.2.1
/-- an aggregation-type step produces an empty level exactly when `P` has no column -/
theorem stepSA_empty_iff (l : Lv) (nagg ncand r b : Nat) (h : stepSA l nagg ncand = .proceed r b) :
    r = 0 ↔ nagg = 0 ∨ ncand = 0 := by
  rw [(stepSA_proceed l nagg ncand r b h).2.1]; exact Nat.mul_eq_zero

/-- the block size of the fine level of a proceeding step is positive and divides its rows -/
theorem step_proceed_ok (l : Lv) (i : StepIn) (r b : Nat) (h : step l i = .proceed r b) :
    0 < l.bs ∧ l.rows % l.bs = 0 := by
  cases i with
  | rs s =>
    have := stepRS_proceed l s r b h
    rw [this.1]; exact ⟨by omega, Nat.mod_one _⟩
  | air nnz s => exact (ok_iff l).1 (stepAIR_proceed l nnz s r b h).1
  | sa nagg ncand => exact (ok_iff l).1 (stepSA_proceed l nagg ncand r b h).1
  | rn nagg => exact (ok_iff l).1 (stepRN_proceed l nagg r b h).1
  | pw pr pc => exact (ok_iff l).1 (stepPW_proceed l pr pc r b h).1

/-- fewer rows in blocks of the same size: fewer nodes -/
theorem nodes_lt_of_rows_lt (rows bs r : Nat) (hb : 0 < bs) (hd : rows % bs = 0) (h : r < rows) :
    r / bs < rows / bs := by
  rw [Nat.div_lt_iff_lt_mul hb, Nat.div_mul_cancel (Nat.dvd_of_mod_eq_zero hd)]
  exact h

/-- **nodes** (`rows / blocksize`): every proceeding step returns strictly fewer nodes, except
possibly a smoothed-aggregation step with fewer candidates than the block size of the level -/
theorem step_nodes_decrease (l : Lv) (i : StepIn) (r b : Nat) (h : step l i = .proceed r b)
    (hsa : ∀ nagg ncand, i = .sa nagg ncand → l.bs ≤ ncand) :
    r / b < l.rows / l.bs := by
  have ⟨hb, hd⟩ := step_proceed_ok l i r b h
  have hrows := step_rows_decrease l i r b h
  cases i with
  | rs s =>
    have := stepRS_proceed l s r b h
    rw [this.2.2.2.1, this.1]; simpa using hrows
  | air nnz s =>
    rw [(stepAIR_proceed l nnz s r b h).2.2.2.2.1]
    exact nodes_lt_of_rows_lt _ _ _ hb hd hrows
  | rn nagg =>
    rw [(stepRN_proceed l nagg r b h).2.2.1]
    exact nodes_lt_of_rows_lt _ _ _ hb hd hrows
  | pw pr pc =>
    rw [(stepPW_proceed l pr pc r b h).2.2.2.1]
    exact nodes_lt_of_rows_lt _ _ _ hb hd hrows
  | sa nagg ncand =>
    have hp := stepSA_proceed l nagg ncand r b h
    have hk := hsa nagg ncand rfl
    have hk0 : 0 < ncand := by omega
    rw [hp.2.2.1, hp.2.1, Nat.mul_div_cancel _ hk0]
    -- nagg * bs ≤ nagg * ncand < rows = (rows / bs) * bs
    have h1 : nagg * l.bs ≤ nagg * ncand := Nat.mul_le_mul_left _ hk
    have h2 : nagg * ncand < l.rows := by rw [← hp.2.1]; exact hrows
    have h3 : l.rows / l.bs * l.bs = l.rows := Nat.div_mul_cancel (Nat.dvd_of_mod_eq_zero hd)
    have h4 : nagg * l.bs < l.rows / l.bs * l.bs := by omega
    exact Nat.lt_of_mul_lt_mul_right h4

/-- with fewer candidates than the block size a smoothed-aggregation step can proceed (fewer rows)
and keep the number of nodes: 2 nodes in 2 x 2 blocks, one candidate, two aggregates -/
theorem sa_nodes_need_not_decrease :
    ∃ l nagg ncand r b, step l (.sa nagg ncand) = .proceed r b ∧ r < l.rows ∧ ¬ (r / b < l.rows / l.bs) :=
  ⟨⟨0, 4, 2⟩, 2, 1, 2, 1, by decide, by decide, by decide⟩

/-- the guards are decisions about the two counts only: characterisation of stall / proceed for the
classical guard on a well-formed call -/
theorem stepRS_stall_iff (l : Lv) (s : List Bool) (hb : l.bs = 1) (hs : s.length = l.rows) :
    stepRS l s = .stall ↔ (numC s = l.rows ∨ numC s = 0) := by
  unfold stepRS
  rw [if_neg (by omega), if_neg (by omega), hs]
  split <;> simp_all

/-- aggregation-type guard: proceed exactly when `P` has fewer columns than rows -/
theorem stepPW_proceed_iff (l : Lv) (pc : Nat) (hok : l.ok = true) :
    stepPW l l.rows pc = .proceed pc l.bs ↔ pc < l.rows := by
  unfold stepPW
  rw [if_neg (by simp [hok]), if_neg (by simp)]
  split
  · constructor
    · intro h; cases h
    · intro h; omega
  · constructor
    · intro _; omega
    · intro _; rfl

theorem stepSA_proceed_iff (l : Lv) (nagg ncand : Nat) (hok : l.ok = true) :
    stepSA l nagg ncand = .proceed (nagg * ncand) ncand ↔ nagg * ncand < l.rows := by
  unfold stepSA
  rw [if_neg (by simp [hok])]
  split
  · constructor
    · intro h; cases h
    · intro h; omega
  · constructor
    · intro _; omega
    · intro _; rfl

/-! ### the loop with these steps -/

theorem extend_some (oracle : Lv → StepIn) (l l' : Lv) (h : extend oracle l = some l') :
    step l (oracle l) = .proceed l'.rows l'.bs ∧ l'.idx = l.idx + 1 := by
  unfold extend at h
  split at h
  · rename_i r b hs
    injection h with h
    subst h
    exact ⟨hs, rfl⟩
  · cases h

/-- whatever the numerical part of the step does: a level that was appended has fewer rows -/
theorem extend_rows_shrink (oracle : Lv → StepIn) (l l' : Lv) (h : extend oracle l = some l') :
    l'.rows < l.rows :=
  step_rows_decrease l (oracle l) _ _ (extend_some oracle l l' h).1

theorem extend_nodes_shrink (oracle : Lv → StepIn)
    (hsa : ∀ l nagg ncand, oracle l = .sa nagg ncand → l.bs ≤ ncand)
    (blockwise : Bool) (l l' : Lv) (h : extend oracle l = some l') :
    nodes blockwise l' < nodes blockwise l := by
  have hs := (extend_some oracle l l' h).1
  unfold nodes
  cases blockwise with
  | false => simpa using step_rows_decrease l (oracle l) _ _ hs
  | true => simpa using step_nodes_decrease l (oracle l) _ _ hs (hsa l)

/-- `Coarsen.build_decreasing` with the measure that decreases separated from the size the `while`
condition looks at -/
theorem build_measure_decreasing {L : Type} (size μ : L → Nat) (extend : L → Option L)
    (maxLevels maxCoarse : Nat) (hshrink : ∀ l l', extend l = some l' → μ l' < μ l) :
    ∀ (fuel : Nat) (lv : List L), lv.Pairwise (fun a b => μ a < μ b) →
      (build size extend maxLevels maxCoarse fuel lv).Pairwise (fun a b => μ a < μ b) := by
  intro fuel
  induction fuel with
  | zero => intro lv h; simpa [build] using h
  | succ fuel ih =>
    intro lv h
    cases lv with
    | nil => simp [build]
    | cons last rest =>
      simp only [build]
      split
      · cases he : extend last with
        | none => simpa using h
        | some nxt =>
          simp only
          apply ih
          rw [List.pairwise_cons]
          refine ⟨?_, h⟩
          intro b hb
          have h1 := hshrink last nxt he
          rcases List.mem_cons.1 hb with rfl | hb'
          · exact h1
          · exact Nat.lt_trans h1 ((List.pairwise_cons.1 h).1 b hb')
      · exact h

/-- the loop of any of the five constructors (levels coarsest first) -/
def buildC (blockwise : Bool) (oracle : Lv → StepIn) (maxLevels maxCoarse fuel : Nat) (l0 : Lv) : List Lv :=
  build (nodes blockwise) (extend oracle) maxLevels maxCoarse fuel [l0]

/-- **`sizes_decrease` without hypothesis on the step**: for every numerical behaviour of the steps
(`oracle`), every limits, every finest level, the rows of the returned levels strictly decrease
(the list is coarsest first) -/
theorem build_rows_decrease (blockwise : Bool) (oracle : Lv → StepIn)
    (maxLevels maxCoarse fuel : Nat) (l0 : Lv) :
    (buildC blockwise oracle maxLevels maxCoarse fuel l0).Pairwise (fun a b => a.rows < b.rows) :=
  build_measure_decreasing (nodes blockwise) Lv.rows (extend oracle) maxLevels maxCoarse
    (extend_rows_shrink oracle) fuel [l0] (List.pairwise_singleton _ _)

/-- the same in the measure the loop itself compares with `max_coarse` (this is
`Coarsen.build_decreasing` with its hypothesis discharged), provided smoothed-aggregation steps have
at least as many candidates as the block size of their level -/
theorem build_nodes_decrease (blockwise : Bool) (oracle : Lv → StepIn)
    (hsa : ∀ l nagg ncand, oracle l = .sa nagg ncand → l.bs ≤ ncand)
    (maxLevels maxCoarse fuel : Nat) (l0 : Lv) :
    (buildC blockwise oracle maxLevels maxCoarse fuel l0).Pairwise
      (fun a b => nodes blockwise a < nodes blockwise b) :=
  build_decreasing (nodes blockwise) (extend oracle) maxLevels maxCoarse
    (extend_nodes_shrink oracle hsa blockwise) fuel [l0] (List.pairwise_singleton _ _)

/-- consecutive levels carry consecutive indices: the oracle is asked about `levels[len - 1]` -/
theorem build_idx (blockwise : Bool) (oracle : Lv → StepIn) (maxLevels maxCoarse : Nat) :
    ∀ (fuel : Nat) (lv : List Lv), lv.Pairwise (fun a b => b.idx < a.idx) →
      (build (nodes blockwise) (extend oracle) maxLevels maxCoarse fuel lv).Pairwise
        (fun a b => b.idx < a.idx) := by
  intro fuel
  induction fuel with
  | zero => intro lv h; simpa [build] using h
  | succ fuel ih =>
    intro lv h
    cases lv with
    | nil => simp [build]
    | cons last rest =>
      simp only [build]
      split
      · cases he : extend oracle last with
        | none => simpa using h
        | some nxt =>
          simp only
          apply ih
          rw [List.pairwise_cons]
          refine ⟨?_, h⟩
          intro b hb
          have h1 := (extend_some oracle last nxt he).2
          rcases List.mem_cons.1 hb with rfl | hb'
          · omega
          · have := (List.pairwise_cons.1 h).1 b hb'; omega
      · exact h

/-- a list of levels with strictly increasing measures between `lb` and `M` has at most `M + 1 - lb` entries -/
theorem length_le_of_increasing {L : Type} (μ : L → Nat) (M : Nat) :
    ∀ (lv : List L) (lb : Nat), lv.Pairwise (fun a b => μ a < μ b) → (∀ a ∈ lv, lb ≤ μ a ∧ μ a ≤ M) →
      lv.length ≤ M + 1 - lb := by
  intro lv
  induction lv with
  | nil => intro lb _ _; simp
  | cons x xs ih =>
    intro lb hp hb
    have hx := hb x (by simp)
    have hp' := List.pairwise_cons.1 hp
    have := ih (lb + 1) hp'.2 (by
      intro a ha
      have h1 := hp'.1 a ha
      have h2 := hb a (by simp [ha])
      omega)
    simp only [List.length_cons]
    omega

/-- the loop needs no `max_levels` to end: whatever the limits and the fuel, it returns at most
`rows + 1` levels for a finest level with `rows` rows -/
theorem build_length_le (blockwise : Bool) (oracle : Lv → StepIn) (maxLevels maxCoarse fuel : Nat) (l0 : Lv) :
    (buildC blockwise oracle maxLevels maxCoarse fuel l0).length ≤ l0.rows + 1 := by
  have hinv := PyamgV.C04.build_induct (nodes blockwise) (extend oracle) maxLevels maxCoarse
    (fun lv => (∀ a ∈ lv, a.rows ≤ l0.rows) ∧ ∀ a ∈ lv.head?, ∀ b ∈ lv, a.rows ≤ b.rows)
    (by
      intro last rest nxt h _ _ he
      have hs := extend_rows_shrink oracle last nxt he
      have hl := h.1 last (by simp)
      refine ⟨?_, ?_⟩
      · intro a ha
        rcases List.mem_cons.1 ha with rfl | ha'
        · omega
        · exact h.1 a ha'
      · intro a ha b hb
        simp at ha; subst ha
        rcases List.mem_cons.1 hb with rfl | hb'
        · omega
        · have := h.2 last (by simp) b hb'; omega)
    fuel [l0] (by simp)
  have hp := build_rows_decrease blockwise oracle maxLevels maxCoarse fuel l0
  have := length_le_of_increasing Lv.rows l0.rows _ 0 hp (by
    intro a ha
    exact ⟨Nat.zero_le _, hinv.1 a ha⟩)
  simpa [buildC] using this

/-- beyond the observed table the step does not proceed -/
theorem tableOracle_beyond (tbl : Array StepIn) (l : Lv) (h : tbl.size ≤ l.idx) :
    extend (tableOracle tbl) l = none := by
  unfold extend tableOracle
  have : tbl.getD l.idx (.pw 0 0) = .pw 0 0 := by
    simp [Array.getD, Nat.not_lt.2 h]
  rw [this]
  show (match stepPW l 0 0 with | .proceed r b => some (Lv.mk (l.idx + 1) r b) | _ => none) = none
  split
  · rename_i r b hs
    have := stepPW_proceed l 0 0 r b hs
    omega
  · rfl

#print axioms step_rows_decrease
#print axioms step_nodes_decrease
#print axioms build_rows_decrease
#print axioms build_nodes_decrease
#print axioms build_length_le
end PyamgV.ExtC04
