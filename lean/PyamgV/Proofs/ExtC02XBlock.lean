import PyamgV.Proofs.ExtC09Block
import PyamgV.Proofs.C02Model

/-! PyamgV (extension E35, property C02): the **block Gauss-Seidel and block Jacobi kernels are energy
non-expansive**, stated for the executable array models `K.blockGaussSeidel`, `K.blockJacobi`,
`K.pyBlockGaussSeidel`, `K.pyBlockJacobi` of `Model/ExtC09Block.lean` (the ones C09 compares with relaxation.h /
relaxation.py) on a BSR matrix whose operator `bsrOp A` is symmetric positive semidefinite.

* `bgsStep_energy` : one block row of `block_gauss_seidel` with `A_ii Dinv_i = I` is an exact subspace correction:
  the new error is energy-orthogonal to the correction (its block-row residual vanishes, `bgsStep_residual_zero`),
  so the energy of the error does not increase.
* `blockGaussSeidel_array_nonexp`, `pyBlockGaussSeidel_array_nonexp` : any block-row order; forward / backward /
  symmetric sweeps, any number of iterations.
* `blockJacobi_array_operator` : the kernel call over all block rows is `x + ω D_B⁻¹ (b − A x)` (`bDinv`),
  `pyBlockJacobi_array_nonexp` : non-expansive under the damping bound `ω ‖D_B⁻¹ r‖²_A ≤ 2 ⟨D_B⁻¹ r, r⟩`. -/
set_option linter.unusedSectionVars false
set_option linter.unusedVariables false
namespace PyamgV.C02X
open PyamgV PyamgV.K PyamgV.ExtC09 Finset

variable {R : Type} [Field R] [LinearOrder R] [IsStrictOrderedRing R] [DecidableEq R]

/-! ### the operator of a BSR matrix -/

theorem blkDot_add (A : Bsr R) (js : List Nat) (u v : Nat → R) (l : Nat) :
    blkDot A js (u + v) l = blkDot A js u l + blkDot A js v l := by
  unfold blkDot
  induction js with
  | nil => simp
  | cons j js ih =>
    rw [List.map_cons, List.sum_cons, List.map_cons, List.sum_cons, List.map_cons, List.sum_cons, ih]
    have : (∑ m ∈ range A.bs, blkAt A j l m * (u + v) (rdN A.bj j * A.bs + m)) =
        (∑ m ∈ range A.bs, blkAt A j l m * u (rdN A.bj j * A.bs + m)) +
        ∑ m ∈ range A.bs, blkAt A j l m * v (rdN A.bj j * A.bs + m) := by
      simp only [Pi.add_apply, mul_add, Finset.sum_add_distrib]
    rw [this]; ring

theorem blkDot_smul (A : Bsr R) (js : List Nat) (c : R) (u : Nat → R) (l : Nat) :
    blkDot A js (c • u) l = c * blkDot A js u l := by
  unfold blkDot
  induction js with
  | nil => simp
  | cons j js ih =>
    rw [List.map_cons, List.sum_cons, List.map_cons, List.sum_cons, ih]
    have : (∑ m ∈ range A.bs, blkAt A j l m * (c • u) (rdN A.bj j * A.bs + m)) =
        c * ∑ m ∈ range A.bs, blkAt A j l m * u (rdN A.bj j * A.bs + m) := by
      rw [Finset.mul_sum]
      apply Finset.sum_congr rfl
      intro m _; simp only [Pi.smul_apply, smul_eq_mul]; ring
    rw [this]; ring

/-- `u ↦ A u` for a BSR matrix with `nb` block rows of size `bs` (zero beyond `nb·bs`) -/
def bsrOp (A : Bsr R) : (Nat → R) →ₗ[R] (Nat → R) where
  toFun u := fun p => if p < A.nb * A.bs then rowDotB A (p / A.bs) u (p % A.bs) else 0
  map_add' u v := by
    funext p
    by_cases h : p < A.nb * A.bs
    · simp only [h, if_true, Pi.add_apply]; exact blkDot_add A _ u v _
    · simp [h]
  map_smul' c u := by
    funext p
    by_cases h : p < A.nb * A.bs
    · simp only [h, if_true, Pi.smul_apply, smul_eq_mul, RingHom.id_apply]; exact blkDot_smul A _ c u _
    · simp [h]

theorem bsrOp_apply (A : Bsr R) (u : Nat → R) (i l : Nat) (hbs : 0 < A.bs) (hi : i < A.nb) (hl : l < A.bs) :
    bsrOp A u (i * A.bs + l) = rowDotB A i u l := by
  have hlt : i * A.bs + l < A.nb * A.bs := by
    calc i * A.bs + l < i * A.bs + A.bs := by omega
      _ = (i + 1) * A.bs := by ring
      _ ≤ A.nb * A.bs := Nat.mul_le_mul_right _ hi
  show (if i * A.bs + l < A.nb * A.bs then _ else 0) = _
  rw [if_pos hlt, blk_div hbs _ _ hl, blk_mod _ _ hl]

theorem lt_of_div_lt {bs nb p : Nat} (hbs : 0 < bs) (h : p / bs < nb) : p < nb * bs := by
  have h1 : p < (p / bs + 1) * bs := by
    have := Nat.div_add_mod p bs
    have := Nat.mod_lt p hbs
    nlinarith
  exact lt_of_lt_of_le h1 (Nat.mul_le_mul_right _ h)

/-! ### block Gauss-Seidel -/

/-- **one block row of the `block_gauss_seidel` kernel does not increase the energy of the error** -/
theorem bgsStep_energy (A : Bsr R) (hbs : 0 < A.bs)
    (hs : IsAdj (euc R (A.nb * A.bs)) (euc R (A.nb * A.bs)) (bsrOp A) (bsrOp A))
    (hp : ∀ v, 0 ≤ (euc R (A.nb * A.bs)).a (bsrOp A v) v)
    (b Dinv x : Array R) (hx : x.size = A.nb * A.bs) (i : Nat) (hi : i < A.nb) (hR : RightInv A Dinv i)
    (xs : Nat → R) (hxs : ∀ p, p < A.nb * A.bs → bsrOp A xs p = fn b p) :
    ((euc R (A.nb * A.bs)).ofOp (bsrOp A) hs hp).en (xs - fn (bgsStep A b Dinv x i)) ≤
    ((euc R (A.nb * A.bs)).ofOp (bsrOp A) hs hp).en (xs - fn x) := by
  set x' := bgsStep A b Dinv x i with hx'
  have hin : i * A.bs + A.bs ≤ x.size := by
    rw [hx]
    calc i * A.bs + A.bs = (i + 1) * A.bs := by ring
      _ ≤ A.nb * A.bs := Nat.mul_le_mul_right _ hi
  have key : xs - fn x' = (xs - fn x) - (fn x' - fn x) := by abel
  rw [key]
  apply EForm.en_sub_le
  rw [← key]
  show (euc R (A.nb * A.bs)).a (bsrOp A (xs - fn x')) (fn x' - fn x) = 0
  rw [euc_apply]
  apply Finset.sum_eq_zero
  intro p hp'
  have hpn : p < A.nb * A.bs := mem_range.1 hp'
  by_cases hpi : p / A.bs = i
  · -- the block-row residual of the new iterate vanishes
    have hl : p % A.bs < A.bs := Nat.mod_lt _ hbs
    have hpe : p = i * A.bs + p % A.bs := by rw [← hpi]; exact (Nat.div_add_mod' p A.bs).symm
    have h1 : bsrOp A (fn x') p = fn b p := by
      rw [hpe, bsrOp_apply A _ i _ hbs hi hl]
      exact bgsStep_residual_zero A b Dinv x i hbs hin hR _ hl
    rw [map_sub, Pi.sub_apply, hxs p hpn, h1]; simp
  · have h2 : fn x' p = fn x p := by
      show rd (bgsStep A b Dinv x i) p = rd x p
      rw [bgsStep_entry A b Dinv x i hbs p (by rw [hx]; exact hpn), if_neg hpi]
    rw [Pi.sub_apply, h2]; simp

/-- **the `block_gauss_seidel` kernel over any list of block rows** (forward, backward, repeated) with exact
inverse diagonal blocks on a symmetric PSD matrix: the energy of the error w.r.t. any solution never increases -/
theorem blockGaussSeidel_array_nonexp (A : Bsr R) (hbs : 0 < A.bs)
    (hs : IsAdj (euc R (A.nb * A.bs)) (euc R (A.nb * A.bs)) (bsrOp A) (bsrOp A))
    (hp : ∀ v, 0 ≤ (euc R (A.nb * A.bs)).a (bsrOp A v) v)
    (b Dinv : Array R) (rows : List Nat) (hrows : ∀ i ∈ rows, i < A.nb)
    (hR : ∀ i ∈ rows, RightInv A Dinv i)
    (xs : Nat → R) (hxs : ∀ p, p < A.nb * A.bs → bsrOp A xs p = fn b p) :
    ∀ x : Array R, x.size = A.nb * A.bs →
      (blockGaussSeidel A b Dinv rows x).size = A.nb * A.bs ∧
      ((euc R (A.nb * A.bs)).ofOp (bsrOp A) hs hp).en (xs - fn (blockGaussSeidel A b Dinv rows x)) ≤
      ((euc R (A.nb * A.bs)).ofOp (bsrOp A) hs hp).en (xs - fn x) := by
  induction rows with
  | nil => intro x hx; exact ⟨hx, le_refl _⟩
  | cons i rest ih =>
    intro x hx
    have h1 := bgsStep_energy A hbs hs hp b Dinv x hx i (hrows i (by simp)) (hR i (by simp)) xs hxs
    have hsz : (bgsStep A b Dinv x i).size = A.nb * A.bs := by rw [bgsStep_size, hx]
    obtain ⟨h2, h3⟩ := ih (fun j hj => hrows j (by simp [hj])) (fun j hj => hR j (by simp [hj]))
      (bgsStep A b Dinv x i) hsz
    unfold K.blockGaussSeidel at h2 h3 ⊢
    simp only [List.foldl_cons]
    exact ⟨h2, le_trans h3 h1⟩

theorem kiter_energy {β : Type} (P : β → Prop) (en : β → R) (f : β → β)
    (h : ∀ x, P x → P (f x) ∧ en (f x) ≤ en x) :
    ∀ (k : Nat) (x : β), P x → P (K.iter f k x) ∧ en (K.iter f k x) ≤ en x := by
  intro k
  induction k with
  | zero => intro x hx; exact ⟨hx, le_refl _⟩
  | succ k ih =>
    intro x hx
    obtain ⟨h1, h2⟩ := h x hx
    obtain ⟨h3, h4⟩ := ih (f x) h1
    simp only [K.iter]
    exact ⟨h3, le_trans h4 h2⟩

/-- **the Python driver `block_gauss_seidel`** (forward / backward / symmetric, any `iterations`) with exact
inverse diagonal blocks on a symmetric PSD BSR matrix does not increase the energy of the error -/
theorem pyBlockGaussSeidel_array_nonexp (A : Bsr R) (hbs : 0 < A.bs)
    (hs : IsAdj (euc R (A.nb * A.bs)) (euc R (A.nb * A.bs)) (bsrOp A) (bsrOp A))
    (hp : ∀ v, 0 ≤ (euc R (A.nb * A.bs)).a (bsrOp A v) v)
    (b Dinv : Array R) (hb : b.size = A.nb * A.bs) (hD : Dinv.size = A.nb * (A.bs * A.bs))
    (hR : ∀ i, i < A.nb → RightInv A Dinv i) (iters : Nat) (sw : Sweep)
    (xs : Nat → R) (hxs : ∀ p, p < A.nb * A.bs → bsrOp A xs p = fn b p)
    (x : Array R) (hx : x.size = A.nb * A.bs) :
    ∃ y, pyBlockGaussSeidel A b Dinv iters sw x = some y ∧ y.size = A.nb * A.bs ∧
      ((euc R (A.nb * A.bs)).ofOp (bsrOp A) hs hp).en (xs - fn y) ≤
      ((euc R (A.nb * A.bs)).ofOp (bsrOp A) hs hp).en (xs - fn x) := by
  have hpass : ∀ bw, ∀ x : Array R, x.size = A.nb * A.bs →
      (bgsPass A b Dinv bw x).size = A.nb * A.bs ∧
      ((euc R (A.nb * A.bs)).ofOp (bsrOp A) hs hp).en (xs - fn (bgsPass A b Dinv bw x)) ≤
      ((euc R (A.nb * A.bs)).ofOp (bsrOp A) hs hp).en (xs - fn x) := by
    intro bw x hx
    unfold K.bgsPass
    exact blockGaussSeidel_array_nonexp A hbs hs hp b Dinv _
      (fun i hi => (mem_dirRows _ _ _).1 hi) (fun i hi => hR i ((mem_dirRows _ _ _).1 hi)) xs hxs x hx
  unfold K.pyBlockGaussSeidel
  rw [if_neg (by simp [hx, hb, hD])]
  cases sw with
  | forward =>
    obtain ⟨h1, h2⟩ := kiter_energy (fun x : Array R => x.size = A.nb * A.bs)
      (fun x => ((euc R (A.nb * A.bs)).ofOp (bsrOp A) hs hp).en (xs - fn x)) _ (hpass false) iters x hx
    exact ⟨_, rfl, h1, h2⟩
  | backward =>
    obtain ⟨h1, h2⟩ := kiter_energy (fun x : Array R => x.size = A.nb * A.bs)
      (fun x => ((euc R (A.nb * A.bs)).ofOp (bsrOp A) hs hp).en (xs - fn x)) _ (hpass true) iters x hx
    exact ⟨_, rfl, h1, h2⟩
  | symmetric =>
    obtain ⟨h1, h2⟩ := kiter_energy (fun x : Array R => x.size = A.nb * A.bs)
      (fun x => ((euc R (A.nb * A.bs)).ofOp (bsrOp A) hs hp).en (xs - fn x))
      (fun x => bgsPass A b Dinv true (bgsPass A b Dinv false x))
      (fun x hx => by
        obtain ⟨a1, a2⟩ := hpass false x hx
        obtain ⟨a3, a4⟩ := hpass true _ a1
        exact ⟨a3, le_trans a4 a2⟩) iters x hx
    exact ⟨_, rfl, h1, h2⟩

/-! ### block Jacobi -/

/-- `r ↦ D_B⁻¹ r`: block `i` of the result is `Dinv_i r_i` (zero beyond `nb·bs`) -/
def bDinv (nb bs : Nat) (Dinv : Array R) : (Nat → R) →ₗ[R] (Nat → R) where
  toFun r := fun p => if p < nb * bs then ∑ l ∈ range bs, dinvAt bs Dinv (p / bs) (p % bs) l * r (p / bs * bs + l) else 0
  map_add' u v := by
    funext p
    by_cases h : p < nb * bs
    · simp only [h, if_true, Pi.add_apply, mul_add, Finset.sum_add_distrib]
    · simp [h]
  map_smul' c u := by
    funext p
    by_cases h : p < nb * bs
    · simp only [h, if_true, Pi.smul_apply, smul_eq_mul, RingHom.id_apply, Finset.mul_sum]
      apply Finset.sum_congr rfl
      intro l _; ring
    · simp [h]

/-- **the `block_jacobi` kernel call over all block rows is `x + ω D_B⁻¹ (b − A x)`** when every `Dinv_i` is a
left inverse of the diagonal block and all stored block columns are `< nb` -/
theorem blockJacobi_array_operator (ω : R) (A : Bsr R) (hbs : 0 < A.bs) (b Dinv temp0 x : Array R)
    (hx : x.size = A.nb * A.bs) (ht : temp0.size = x.size)
    (hcols : ∀ i, i < A.nb → ∀ jj ∈ A.jjs i, rdN A.bj jj < A.nb)
    (hL : ∀ i, i < A.nb → LeftInv A Dinv i) :
    fn (blockJacobi ω A b Dinv (List.range A.nb) temp0 x) =
      fn x + ω • bDinv A.nb A.bs Dinv (fn b - bsrOp A (fn x)) := by
  funext p
  show rd (blockJacobi ω A b Dinv (List.range A.nb) temp0 x) p = _
  by_cases hpn : p < A.nb * A.bs
  · have hrow : p / A.bs ∈ List.range A.nb := by
      rw [List.mem_range]; exact (Nat.div_lt_iff_lt_mul hbs).2 hpn
    rw [blockJacobi_splitting ω A b Dinv temp0 x (List.range A.nb) hbs ht
      (fun i hi jj hjj => by rw [List.mem_range] at hi ⊢; exact hcols i hi jj hjj)
      (fun i hi => hL i (by simpa using hi)) p (by rw [hx]; exact hpn) hrow]
    have hi : p / A.bs < A.nb := by simpa using hrow
    simp only [Pi.add_apply, Pi.smul_apply, smul_eq_mul, bDinv, LinearMap.coe_mk, AddHom.coe_mk, hpn, if_true]
    congr 2
    apply Finset.sum_congr rfl
    intro l hl
    have hl' := mem_range.1 hl
    rw [Pi.sub_apply, bsrOp_apply A _ _ _ hbs hi hl']
    rfl
  · have hz : rd (blockJacobi ω A b Dinv (List.range A.nb) temp0 x) p = 0 :=
      rd_of_le _ _ (by rw [blockJacobi_size, hx]; omega)
    have hz2 : fn x p = 0 := rd_of_le _ _ (by rw [hx]; omega)
    rw [hz]
    simp [bDinv, hpn, hz2]

/-- **the Python driver `block_jacobi`** (any `iterations`) on a symmetric PSD BSR matrix with exact inverse
diagonal blocks is non-expansive under the damping bound `ω ‖D_B⁻¹ r‖²_A ≤ 2 ⟨D_B⁻¹ r, r⟩` (`ω λ_max(D_B⁻¹ A) ≤ 2`) -/
theorem pyBlockJacobi_array_nonexp (ω : R) (h0 : 0 ≤ ω) (A : Bsr R) (hbs : 0 < A.bs)
    (hs : IsAdj (euc R (A.nb * A.bs)) (euc R (A.nb * A.bs)) (bsrOp A) (bsrOp A))
    (hp : ∀ v, 0 ≤ (euc R (A.nb * A.bs)).a (bsrOp A v) v)
    (b Dinv : Array R) (hb : b.size = A.nb * A.bs) (hDs : Dinv.size = A.nb * (A.bs * A.bs))
    (hcols : ∀ i, i < A.nb → ∀ jj ∈ A.jjs i, rdN A.bj jj < A.nb)
    (hL : ∀ i, i < A.nb → LeftInv A Dinv i)
    (hD : ∀ r, ω * (euc R (A.nb * A.bs)).a (bsrOp A (bDinv A.nb A.bs Dinv r)) (bDinv A.nb A.bs Dinv r) ≤
      2 * (euc R (A.nb * A.bs)).a (bDinv A.nb A.bs Dinv r) r)
    (iters : Nat) (xs : Nat → R) (hxs : ∀ p, p < A.nb * A.bs → bsrOp A xs p = fn b p)
    (x : Array R) (hx : x.size = A.nb * A.bs) :
    ∃ y, pyBlockJacobi ω A b Dinv iters x = some y ∧ y.size = A.nb * A.bs ∧
      ((euc R (A.nb * A.bs)).ofOp (bsrOp A) hs hp).en (xs - fn y) ≤
      ((euc R (A.nb * A.bs)).ofOp (bsrOp A) hs hp).en (xs - fn x) := by
  -- `b` agrees with `A xs` where the energy form looks; use the truncated right-hand side
  have hxs' : bsrOp A xs = fn b := by
    funext p
    by_cases hpn : p < A.nb * A.bs
    · exact hxs p hpn
    · have : fn b p = 0 := rd_of_le _ _ (by rw [hb]; omega)
      rw [this]; simp [bsrOp, hpn]
  have hne := jacobi_nonexp (euc R (A.nb * A.bs)) (bsrOp A) (bDinv A.nb A.bs Dinv) hs hp ω h0 hD
  have hstep : ∀ x : Array R, x.size = A.nb * A.bs →
      (blockJacobi ω A b Dinv (List.range A.nb) (Array.replicate x.size 0) x).size = A.nb * A.bs ∧
      ((euc R (A.nb * A.bs)).ofOp (bsrOp A) hs hp).en
        (xs - fn (blockJacobi ω A b Dinv (List.range A.nb) (Array.replicate x.size 0) x)) ≤
      ((euc R (A.nb * A.bs)).ofOp (bsrOp A) hs hp).en (xs - fn x) := by
    intro x hx
    refine ⟨by rw [blockJacobi_size, hx], ?_⟩
    rw [blockJacobi_array_operator ω A hbs b Dinv _ x hx (by simp) hcols hL]
    exact hne (fn x) (fn b) xs hxs'
  unfold K.pyBlockJacobi
  rw [if_neg (by simp [hx, hb, hDs])]
  obtain ⟨h1, h2⟩ := kiter_energy (fun x : Array R => x.size = A.nb * A.bs)
    (fun x => ((euc R (A.nb * A.bs)).ofOp (bsrOp A) hs hp).en (xs - fn x)) _ hstep iters x hx
  exact ⟨_, rfl, h1, h2⟩

#print axioms bgsStep_energy
#print axioms pyBlockGaussSeidel_array_nonexp
#print axioms pyBlockJacobi_array_nonexp
end PyamgV.C02X
