import PyamgV.Generated.PyLogic3_aggstr
import PyamgV.Proofs.ExtPy2Tactic
/-! PyamgV (extension E59): event constructors and the outcome of a run, shared by `Proofs/ExtPy3AggstrLloyd.lean` (C12)
and `Proofs/ExtPy3AggstrStrength.lean` (C14). -/
open PyamgV.ExtPy PyamgV.ExtPy2 PyamgV.ExtPy3Aggstr
namespace PyamgV.ExtPy3AggstrP

def callEv (f : String) (args : List PyVal) (kw : List (String × PyVal)) : PyVal :=
  .tuple [.str "call", .obj f, .list args, .dict kw]
def binEv (op : String) (a b : PyVal) : PyVal := .tuple [.str "binop", .str op, a, b]
def unEv (op : String) (a : PyVal) : PyVal := .tuple [.str "unop", .str op, a]
def getEv (x key : PyVal) : PyVal := .tuple [.str "getitem", x, key]
def setEv (x key v : PyVal) : PyVal := .tuple [.str "setitem", x, key, v]

/-- result (or exception class) and trace of a run -/
def outcome (o : Except PyErr PyVal × St) : Except String PyVal × List PyVal :=
  (match o.1 with | .ok v => .ok v | .error e => .error e.cls, o.2.trace)

def bools : List Bool := [false, true]

end PyamgV.ExtPy3AggstrP
