import PyamgV.Proofs.ExtCGVec
import PyamgV.Proofs.ExtC07Restart

/-! PyamgV (extension E43, property C07): **restarted complex GMRES(MGS)** on `Vector K n` (`cgmresRestart`, op
`ext_cg_cycle mgsr`): entry `j·r + m` of the callback log is the iterate of inner iteration `m` of the cycle started at
the restart point `x^(j)`, hence (single-cycle theorem `cgmres_mgs_vec_optimal_krylov`) the minimiser of the
preconditioned residual norm over `x^(j) + K_{m+1}(M A, M (b − A x^(j)))`, provided the estimate `g[m+1]` of that
cycle is non-zero. -/
set_option linter.unusedSectionVars false
set_option linter.unusedVariables false
namespace PyamgV.ExtCG
open PyamgV.C07 PyamgV.CHerm PyamgV.C07.CH Finset

local notation "gF" => PyamgV.C07.F

variable {K : Type} [Field K] [StarRing K] [DecidableEq K]
variable {F₀ : Type} [Field F₀] [LinearOrder F₀] [IsStrictOrderedRing F₀] {n : Nat}
variable (R : ReMap K F₀) (A M : Vector (Vector K n) n) (sqrt : K → K) (hS : ExactSqrt R sqrt) (b x0 : Vector K n)

include R in
theorem cgVec_xs_len (k : Nat) : (cgVec A M sqrt b x0 k).xs.length = k := cgmresMgs_length R A M sqrt b x0 k

include R in
theorem cgVec_xs_stable (m : Nat) : ∀ d, (cgVec A M sqrt b x0 (m + 1 + d)).xs[m]? = (cgVec A M sqrt b x0 (m + 1)).xs[m]?
  | 0 => rfl
  | d+1 => by
    have h : ∃ x, (cgVec A M sqrt b x0 (m + 1 + d + 1)).xs = (cgVec A M sqrt b x0 (m + 1 + d)).xs ++ [x] := ⟨_, rfl⟩
    obtain ⟨x, hx⟩ := h
    rw [show m + 1 + (d + 1) = m + 1 + d + 1 by omega, hx,
      List.getElem?_append_left (by rw [cgVec_xs_len R]; omega)]
    exact cgVec_xs_stable m d

include R in
/-- entry `m` of the log of a cycle of `r > m` inner iterations is the iterate `x_{m+1}` of the theorems -/
theorem cgmresMgs_getElem (r m : Nat) (h : m < r) :
    (cgmresMgs (vecOps star A M) star sqrt nzK n b x0 r)[m]? = some (xkV A M sqrt b x0 m) := by
  have e1 : cgmresMgs (vecOps star A M) star sqrt nzK n b x0 r = (cgVec A M sqrt b x0 r).xs := rfl
  have e2 : xkV A M sqrt b x0 m = (cgVec A M sqrt b x0 (m + 1)).xs.getLast?.getD x0 := rfl
  obtain ⟨d, rfl⟩ : ∃ d, r = m + 1 + d := ⟨r - (m + 1), by omega⟩
  rw [e1, e2, cgVec_xs_stable R A M sqrt b x0 m d, List.getLast?_eq_getElem?, cgVec_xs_len R]
  have hm : m < (cgVec A M sqrt b x0 (m + 1)).xs.length := by rw [cgVec_xs_len R]; omega
  simp [List.getElem?_eq_getElem hm]

include hS in
/-- **restarted complex GMRES(MGS) on `Vector K n`**: optimality of every logged iterate within its cycle -/
theorem cgmres_restart_vec_optimal (r cycles j m : Nat) (hj : j < cycles) (hm : m < r) (hmn : m + 1 < n)
    (hg : gF (cgVec A M sqrt b (cgmresRestartPt (vecOps star A M) star sqrt nzK n b x0 r j) (m + 1)).g (m + 1) ≠ 0) :
    ∃ xk, (cgmresRestart (vecOps star A M) star sqrt nzK n b x0 r cycles)[j * r + m]? = some xk ∧
      toFn xk - toFn (cgmresRestartPt (vecOps star A M) star sqrt nzK n b x0 r j) ∈
        ckry (linOf M ∘ₗ linOf A)
          (linOf M (toFn b - linOf A (toFn (cgmresRestartPt (vecOps star A M) star sqrt nzK n b x0 r j)))) (m + 1) ∧
      ∀ y : Vector K n, toFn y - toFn (cgmresRestartPt (vecOps star A M) star sqrt nzK n b x0 r j) ∈
          ckry (linOf M ∘ₗ linOf A)
            (linOf M (toFn b - linOf A (toFn (cgmresRestartPt (vecOps star A M) star sqrt nzK n b x0 r j)))) (m + 1) →
        normSqH R (presV A M b xk) ≤ normSqH R (presV A M b y) := by
  set xj := cgmresRestartPt (vecOps star A M) star sqrt nzK n b x0 r j with hxj
  have hblock := flatMap_block
    (fun i => cgmresMgs (vecOps star A M) star sqrt nzK n b (cgmresRestartPt (vecOps star A M) star sqrt nzK n b x0 r i) r)
    r (fun i => cgmresMgs_length R A M sqrt b _ r) cycles j m hj hm
  have hlog : (cgmresRestart (vecOps star A M) star sqrt nzK n b x0 r cycles)[j * r + m]? =
      some (xkV A M sqrt b xj m) := by
    unfold cgmresRestart
    rw [hblock]
    exact cgmresMgs_getElem R A M sqrt b xj r m hm
  obtain ⟨h1, h2⟩ := cgmres_mgs_vec_optimal_krylov R A M sqrt hS b xj m hmn hg
  exact ⟨_, hlog, h1, h2⟩

#print axioms cgmres_restart_vec_optimal
end PyamgV.ExtCG
