import PyamgV.Proofs.ExtC05RefineGJ2
import PyamgV.Proofs.ExtC05RefineOp

/-! PyamgV (C05, extension E12, part 3): **the executed preconditioner matrix `C05.denseM` is the
textbook operator, and it is a symmetric matrix when the flag is `True`.**

* `solveLvl_affine`: one cycle of the executable model is `x + M (b − A x)` with
  `M = MopL S c (levels)` (`Proofs/C03Lin.lean`: the textbook composition, every level with its own
  matrix) over the smoother operators `smOp` / `jacOp` of `Proofs/C05Adj.lean`;
* `denseM_entries`: entry `(i, j)` of `denseM` is `(M e_j)_i`;
* `MopL_eq_Mop`: on a Galerkin hierarchy `MopL` is the operator `Mop` of `Proofs/LinIter.lean`
  (`denseM_entries_Mop`);
* `MopL_sym`: adjoint smoother pairs, symmetric level matrices, `R = Pᵀ`, symmetric coarsest solve
  ⇒ `MopL .V`, `MopL .W` self-adjoint (no Galerkin condition);
* `flag_denseM_symmetric`: **flag `True`** for the lists `pre`, `post` whose smoothers are installed
  on a model hierarchy with symmetric level matrices, `R = Pᵀ` and an invertible coarsest matrix
  ⇒ `denseM` is a symmetric matrix. A statement about the definition the driver executes. -/
namespace PyamgV.C05
open PyamgV Finset

set_option linter.unusedSectionVars false
variable {R : Type} [Field R] [LinearOrder R] [IsStrictOrderedRing R] [DecidableEq R]

/-! ### the smoothers of a model level are linear iterations with the operators `smOp` -/

/-- data of a model level: pairwise distinct C-points and one stored non-zero diagonal entry per row -/
def LvlOK (L : Lvl R) : Prop :=
  L.C.Nodup ∧ ∀ i, i < L.A.n → HasDiag i (rowOf L.A i) (diagFn L.A i) ∧ diagFn L.A i ≠ 0

theorem wfls_abs (nc : Nat) : ∀ (Ls : List (Lvl R)) (n : Nat), Shaped nc n Ls → (∀ L ∈ Ls, LvlOK L) →
    WFLs (Ls.map absLvl) := by
  intro Ls
  induction Ls with
  | nil => intro _ _ _; trivial
  | cons L rest ih =>
    intro n hs hok
    obtain ⟨hAn, _, hC, hrest⟩ := hs
    obtain ⟨hCn, hdiag⟩ := hok L (by simp)
    have hC' : ∀ i ∈ L.C, i < L.A.n := by rw [hAn]; exact hC
    have hlin := fun s => sm_isLinIter L.A.n (rowOf L.A) (diagFn L.A) hdiag L.C (fpts L.A L.C) hC'
      (fpts_lt L.A L.C) hCn (fpts_nodup L.A L.C) s
    exact ⟨hlin L.pre, hlin L.post, ih L.R.n hrest (fun L' hL' => hok L' (by simp [hL']))⟩

theorem map_toLevel (Ls : List (Lvl R)) :
    Ls.map (fun L => (absLvl L).toLevel) = (Ls.map absLvl).map (·.toLevel) := by
  simp [List.map_map]

/-- **one cycle of the executable model is `x ← x + M (b − A x)` with the textbook operator**
`M = MopL S c levels` composed from the smoother operators `smOp`, `P`, `R`, the level matrices and
the inverse `S` of the coarsest matrix -/
theorem solveLvl_affine (ofRat : Rat → R) (hof : ∀ q, ofRat q = (q : R)) (Ac : K.Csr R)
    (S : (Nat → R) →ₗ[R] (Nat → R)) (hS : CoarseInv Ac S) (c : Cyc) (L : Lvl R) (Ls : List (Lvl R))
    (n : Nat) (hshape : Shaped Ac.n n (L :: Ls)) (hok : ∀ L' ∈ L :: Ls, LvlOK L')
    (x b y : Array R) (hx : x.size = n) (hb : b.size = n)
    (h : solveLvl ofRat Ac c (L :: Ls) x b = some y) :
    y.size = n ∧
    fn y = fn x + MopL S (ctype c) ((L :: Ls).map absLvl) (fn b - csrOp L.A.n (rowOf L.A) (fn x)) := by
  obtain ⟨h1, h2⟩ := solveLvl_refines ofRat hof Ac (fun v => S v)
    (fun b y hb h => solveDense_csr Ac S hS b y hb h) (L :: Ls) c n x b y hshape hx hb h
  refine ⟨h1, ?_⟩
  rw [h2, map_toLevel]
  exact cycL_isLinIter S (Ls.map absLvl) (ctype c) (absLvl L) (wfls_abs Ac.n (L :: Ls) n hshape hok)
    (fn x) (fn b)

/-- the operator of the preconditioner the model hierarchy defines -/
def precOp (S : (Nat → R) →ₗ[R] (Nat → R)) (c : Cyc) (Ls : List (Lvl R)) : (Nat → R) →ₗ[R] (Nat → R) :=
  MopL S (ctype c) (Ls.map absLvl)

/-- one application of the preconditioner (zero initial guess) is `M b` -- also for the one-level
hierarchy, where `M = S` -/
theorem solveLvl_zero (ofRat : Rat → R) (hof : ∀ q, ofRat q = (q : R)) (Ac : K.Csr R)
    (S : (Nat → R) →ₗ[R] (Nat → R)) (hS : CoarseInv Ac S) (c : Cyc) (Ls : List (Lvl R))
    (n : Nat) (hshape : Shaped Ac.n n Ls) (hok : ∀ L' ∈ Ls, LvlOK L')
    (b y : Array R) (hb : b.size = n)
    (h : solveLvl ofRat Ac c Ls (zeros n) b = some y) :
    y.size = n ∧ fn y = precOp S c Ls (fn b) := by
  have hz : (zeros n : Array R).size = n := by rw [zeros_eq, zeros_size]
  have hzf : fn (zeros n : Array R) = 0 := by rw [zeros_eq]; exact zeros_refines _
  cases Ls with
  | nil =>
    obtain ⟨h1, h2⟩ := solveLvl_refines ofRat hof Ac (fun v => S v)
      (fun b y hb h => solveDense_csr Ac S hS b y hb h) [] c n _ b y hshape hz hb h
    refine ⟨h1, ?_⟩
    rw [h2]
    cases c <;> rfl
  | cons L rest =>
    obtain ⟨h1, h2⟩ := solveLvl_affine ofRat hof Ac S hS c L rest n hshape hok _ b y hz hb h
    refine ⟨h1, ?_⟩
    rw [h2, hzf]
    simp [precOp]

/-! ### the matrix `denseM` -/

theorem mapM_some {α β : Type} (f : α → Option β) (d : β) (a0 : α) :
    ∀ (l : List α) (ys : List β), l.mapM f = some ys →
      ys.length = l.length ∧ ∀ i, i < l.length → f (l.getD i a0) = some (ys.getD i d) := by
  intro l
  induction l with
  | nil =>
    intro ys h
    simp only [List.mapM_nil] at h
    have : ys = [] := by cases h; rfl
    subst this
    exact ⟨rfl, fun i hi => absurd hi (by simp)⟩
  | cons a rest ih =>
    intro ys h
    rw [List.mapM_cons] at h
    cases hfa : f a with
    | none => rw [hfa] at h; exact absurd h (by simp)
    | some y =>
      cases hr : rest.mapM f with
      | none => rw [hfa, hr] at h; exact absurd h (by simp)
      | some ys' =>
        rw [hfa, hr] at h
        have hys : ys = y :: ys' := by
          have : some (y :: ys') = some ys := h
          exact (Option.some.inj this).symm
        subst hys
        obtain ⟨h1, h2⟩ := ih ys' hr
        refine ⟨by simp [h1], ?_⟩
        intro i hi
        cases i with
        | zero => simpa using hfa
        | succ i =>
          have := h2 i (by simpa using hi)
          simpa using this

theorem fn_unit (n j : Nat) (hj : j < n) : fn (unit n j : Array R) = Pi.single j 1 := by
  funext i
  unfold unit
  rw [fn_map_range, Pi.single_apply]
  by_cases hi : i < n
  · rw [if_pos hi]
  · rw [if_neg hi, if_neg (by omega)]

theorem unit_size (n j : Nat) : (unit n j : Array R).size = n := by simp [unit]

theorem mget_mOfCols (n : Nat) (cols : List (Array R)) (i j : Nat) (hi : i < n) (hj : j < cols.length) :
    mget (mOfCols n cols) i j = K.rd (cols.getD j #[]) i := by
  unfold mget mOfCols
  rw [getD_map_range n _ i #[] hi]
  unfold K.rd
  simp [Array.getD_eq_getD_getElem?, List.getD_eq_getElem?_getD, hj]

/-- the size of the finest problem as `denseM` computes it -/
def topN (Ac : K.Csr R) : List (Lvl R) → Nat
  | [] => Ac.n
  | L :: _ => L.A.n

theorem denseM_unfold (ofRat : Rat → R) (Ac : K.Csr R) (c : Cyc) (Ls : List (Lvl R)) :
    denseM ofRat Ac c Ls =
      ((List.range (topN Ac Ls)).mapM (fun j =>
        solveLvl ofRat Ac c Ls (zeros (topN Ac Ls)) (unit (topN Ac Ls) j))).map (mOfCols (topN Ac Ls)) := by
  cases Ls <;> rfl

theorem topN_eq (Ac : K.Csr R) (n : Nat) (Ls : List (Lvl R)) (hs : Shaped Ac.n n Ls) :
    topN Ac Ls = n := by
  cases Ls with
  | nil => exact Eq.symm hs
  | cons L _ => exact hs.1

/-- **the executed matrix `denseM` is the matrix of the textbook operator**: entry `(i, j)` is
`(M e_j)_i` with `M = MopL S c levels` -/
theorem denseM_entries (ofRat : Rat → R) (hof : ∀ q, ofRat q = (q : R)) (Ac : K.Csr R)
    (S : (Nat → R) →ₗ[R] (Nat → R)) (hS : CoarseInv Ac S) (c : Cyc) (Ls : List (Lvl R))
    (n : Nat) (hshape : Shaped Ac.n n Ls) (hok : ∀ L' ∈ Ls, LvlOK L')
    (M : Mat R) (h : denseM ofRat Ac c Ls = some M) :
    M.size = n ∧ ∀ i j, i < n → j < n → mget M i j = precOp S c Ls (Pi.single j 1) i := by
  rw [denseM_unfold, topN_eq Ac n Ls hshape] at h
  cases hm : (List.range n).mapM (fun j => solveLvl ofRat Ac c Ls (zeros n) (unit n j)) with
  | none => rw [hm] at h; exact absurd h (by simp)
  | some cols =>
    rw [hm] at h
    have hM : M = mOfCols n cols := by simpa using h.symm
    obtain ⟨hlen, hcols⟩ := mapM_some _ (#[] : Array R) 0 _ _ hm
    rw [List.length_range] at hlen hcols
    subst hM
    refine ⟨by simp [mOfCols], ?_⟩
    intro i j hi hj
    have hcj := hcols j hj
    rw [List.getD_eq_getElem?_getD, List.getElem?_range hj] at hcj
    simp only [Option.getD_some] at hcj
    obtain ⟨_, h2⟩ := solveLvl_zero ofRat hof Ac S hS c Ls n hshape hok (unit n j) _ (unit_size n j) hcj
    rw [mget_mOfCols n cols i j hi (by rw [hlen]; exact hj)]
    have := congrFun h2 i
    rw [fn_unit n j hj] at this
    exact this

/-- the same with the operator `Mop` of `Proofs/LinIter.lean` on a Galerkin hierarchy -/
theorem denseM_entries_Mop (ofRat : Rat → R) (hof : ∀ q, ofRat q = (q : R)) (Ac : K.Csr R)
    (S : (Nat → R) →ₗ[R] (Nat → R)) (hS : CoarseInv Ac S) (c : Cyc) (Ls : List (Lvl R))
    (n : Nat) (hshape : Shaped Ac.n n Ls) (hok : ∀ L' ∈ Ls, LvlOK L')
    (hgal : GalerkinL (Ls.map absLvl))
    (M : Mat R) (h : denseM ofRat Ac c Ls = some M) :
    M.size = n ∧ ∀ i j, i < n → j < n →
      mget M i j = Mop S (ctype c) (Ls.map absLvl) (Pi.single j 1) i := by
  have := denseM_entries ofRat hof Ac S hS c Ls n hshape hok M h
  unfold precOp at this
  rw [MopL_eq_Mop S _ _ hgal] at this
  exact this

/-! ### symmetry -/

/-- symmetric model hierarchy: every level matrix and the coarsest matrix are symmetric and the
restriction is the transpose of the prolongation (as operators on the first `n` coordinates) -/
def SymH (Ac : K.Csr R) : List (Lvl R) → Prop
  | [] => IsAdj (euc R Ac.n) (euc R Ac.n) (csrOp Ac.n (rowOf Ac)) (csrOp Ac.n (rowOf Ac))
  | L :: rest =>
      IsAdj (euc R L.A.n) (euc R L.A.n) (csrOp L.A.n (rowOf L.A)) (csrOp L.A.n (rowOf L.A)) ∧
      IsAdj (euc R L.A.n) (euc R L.R.n) (csrOp L.P.n (rowOf L.P)) (csrOp L.R.n (rowOf L.R)) ∧
      SymH Ac rest

/-- the smoothers of the model hierarchy are the ones `change_smoothers(ml, pre, post)` installs:
level `i` carries `smOf (preAt pre i)` and `smOf (postAt post i)` (what the driver's `parseLevels`
builds) -/
def Installed (pre post : List Cfg) : Nat → List (Lvl R) → Prop
  | _, [] => True
  | i, L :: rest => smOf (preAt pre i) = some L.pre ∧ smOf (postAt post i) = some L.post ∧
      Installed pre post (i+1) rest

def eucs : List (Lvl R) → List (EForm R (Nat → R))
  | [] => []
  | L :: rest => euc R L.R.n :: eucs rest

theorem wfs_abs (Ac : K.Csr R) (S : (Nat → R) →ₗ[R] (Nat → R))
    (hSs : IsAdj (euc R Ac.n) (euc R Ac.n) S S) (pre post : List Cfg) :
    ∀ (Ls : List (Lvl R)) (i n : Nat), Shaped Ac.n n Ls → (∀ L ∈ Ls, LvlOK L) → SymH Ac Ls →
      Installed pre post i Ls →
      (∀ j, i ≤ j → j < i + Ls.length → levelOk (preAt pre j) (postAt post j) = true) →
      WFS S (euc R n) (eucs Ls) (Ls.map absLvl) := by
  intro Ls
  induction Ls with
  | nil =>
    intro i n hs _ _ _ _
    have hn : n = Ac.n := hs
    subst hn
    exact hSs
  | cons L rest ih =>
    intro i n hs hok hsym hinst hlev
    obtain ⟨hAn, _, hC, hrest⟩ := hs
    obtain ⟨hCn, hdiag⟩ := hok L (by simp)
    obtain ⟨hA, hP, hsymr⟩ := hsym
    obtain ⟨hpre, hpost, hinstr⟩ := hinst
    subst hAn
    have hl := hlev i (Nat.le_refl i) (by simp)
    have hpart := levelOk_partner _ _ hl L.pre L.post hpre hpost
    have hadj := partner_adjoint L.A.n (csrOp L.A.n (rowOf L.A)) (diagFn L.A) L.C (fpts L.A L.C) hA hC
      (fpts_lt L.A L.C) L.pre L.post hpart
    refine ⟨hA, hadj, hP, ?_⟩
    exact ih (i+1) L.R.n hrest (fun L' hL' => hok L' (by simp [hL'])) hsymr hinstr
      (fun j h1 h2 => hlev j (by omega) (by simp only [List.length_cons]; omega))

theorem symH_coarse (Ac : K.Csr R) : ∀ (Ls : List (Lvl R)), SymH Ac Ls →
    IsAdj (euc R Ac.n) (euc R Ac.n) (csrOp Ac.n (rowOf Ac)) (csrOp Ac.n (rowOf Ac)) := by
  intro Ls
  induction Ls with
  | nil => intro h; exact h
  | cons L rest ih => intro h; exact ih h.2.2

/-- a self-adjoint operator has a symmetric matrix -/
theorem isAdj_entries (n : Nat) (M : (Nat → R) →ₗ[R] (Nat → R)) (h : IsAdj (euc R n) (euc R n) M M)
    (i j : Nat) (hi : i < n) (hj : j < n) :
    M (Pi.single j 1) i = M (Pi.single i 1) j := by
  have h1 := euc_single n i hi (M (Pi.single j 1)) (1 : R)
  have h2 := euc_single n j hj (M (Pi.single i 1)) (1 : R)
  rw [one_smul, one_mul] at h1 h2
  rw [← h1, ← h2, h (Pi.single j 1) (Pi.single i 1), (euc R n).symm]

/-- **C05 for the executed definition.** Let `pre`, `post` be the lists handed to
`change_smoothers` and let the model hierarchy `Ls` (non-coarsest levels) with coarsest matrix `Ac`
carry the smoothers they install (`Installed`; all inside the cycle model: Gauss–Seidel / SOR
forward, backward, symmetric, Jacobi, cf/fc Jacobi, none). If the decision table reports
`symmetric_smoothing = True`, the level matrices and `Ac` are symmetric, `R = Pᵀ` on every level,
every level matrix stores one non-zero diagonal entry per row, and `Ac` is invertible (`CoarseInv`),
then the matrix `denseM` of the V-cycle and of the W-cycle preconditioner -- computed by the kernel
models, the drivers of relaxation.py and the recursion of `__solve` -- **is symmetric**. -/
theorem flag_denseM_symmetric_of_inv (ofRat : Rat → R) (hof : ∀ q, ofRat q = (q : R))
    (pre post : List Cfg) (hp : 1 ≤ pre.length) (hq : 1 ≤ post.length)
    (Ac : K.Csr R) (Ls : List (Lvl R))
    (hflag : flag pre post Ls.length = some true) (hinst : Installed pre post 0 Ls)
    (n : Nat) (hshape : Shaped Ac.n n Ls) (hok : ∀ L ∈ Ls, LvlOK L) (hsym : SymH Ac Ls)
    (S : (Nat → R) →ₗ[R] (Nat → R)) (hS : CoarseInv Ac S)
    (c : Cyc) (M : Mat R) (h : denseM ofRat Ac c Ls = some M) :
    M.size = n ∧ ∀ i j, i < n → j < n → mget M i j = mget M j i := by
  obtain ⟨hsz, hent⟩ := denseM_entries ofRat hof Ac S hS c Ls n hshape hok M h
  refine ⟨hsz, ?_⟩
  have hlev := flag_sound pre post Ls.length hp hq hflag
  have hwfs := wfs_abs Ac S (coarseInv_sym Ac S hS (symH_coarse Ac Ls hsym)) pre post Ls 0 n hshape hok hsym hinst
    (fun j _ h2 => hlev j (by omega))
  obtain ⟨hV, hW⟩ := MopL_sym S (Ls.map absLvl) (euc R n) (eucs Ls) hwfs
  have hadj : IsAdj (euc R n) (euc R n) (precOp S c Ls) (precOp S c Ls) := by
    cases c with
    | V => exact hV
    | W => exact hW
  intro i j hi hj
  rw [hent i j hi hj, hent j i hj hi]
  exact isAdj_entries n _ hadj i j hi hj

/-! ### the same without any assumption on the coarsest solve: success of `denseM` is enough -/

/-- the inverse of the coarsest matrix as the elimination of the model computes it (column `j` =
`solveDense` applied to `e_j`) -/
def coarseS (Ac : K.Csr R) : (Nat → R) →ₗ[R] (Nat → R) := invOp Ac.n (denseOfCsr Ac Ac.n)

theorem denseM_size (ofRat : Rat → R) (Ac : K.Csr R) (c : Cyc) (Ls : List (Lvl R)) (n : Nat)
    (hshape : Shaped Ac.n n Ls) (M : Mat R) (h : denseM ofRat Ac c Ls = some M) : M.size = n := by
  rw [denseM_unfold, topN_eq Ac n Ls hshape] at h
  cases hm : (List.range n).mapM (fun j => solveLvl ofRat Ac c Ls (zeros n) (unit n j)) with
  | none => rw [hm] at h; exact absurd h (by simp)
  | some cols =>
    rw [hm] at h
    have hM : M = mOfCols n cols := by simpa using h.symm
    rw [hM]; simp [mOfCols]

/-- a successful `denseM` of a non-empty problem has inverted the coarsest matrix -/
theorem denseM_coarseInv (ofRat : Rat → R) (Ac : K.Csr R) (c : Cyc) (Ls : List (Lvl R)) (n : Nat)
    (hn : 0 < n) (hshape : Shaped Ac.n n Ls) (M : Mat R) (h : denseM ofRat Ac c Ls = some M) :
    CoarseInv Ac (coarseS Ac) := by
  rw [denseM_unfold, topN_eq Ac n Ls hshape] at h
  cases hm : (List.range n).mapM (fun j => solveLvl ofRat Ac c Ls (zeros n) (unit n j)) with
  | none => rw [hm] at h; exact absurd h (by simp)
  | some cols =>
    obtain ⟨_, hcols⟩ := mapM_some _ (#[] : Array R) 0 _ _ hm
    have h0 := hcols 0 (by rw [List.length_range]; exact hn)
    obtain ⟨b', y', hy'⟩ := solveLvl_coarse_success ofRat Ac Ls c _ _ _ h0
    exact coarseInv_of_success Ac b' y' hy'

/-- **`denseM` is the matrix of the textbook operator** `MopL (Ac⁻¹) c levels` over the smoother
operators `smOp` -- for every model hierarchy of the right shapes with one stored non-zero diagonal
entry per row, whenever `denseM` returns a matrix (no assumption on the coarsest matrix: its
inverse `coarseS Ac` is the one the elimination produces) -/
theorem denseM_is_operator (ofRat : Rat → R) (hof : ∀ q, ofRat q = (q : R)) (Ac : K.Csr R)
    (c : Cyc) (Ls : List (Lvl R)) (n : Nat) (hshape : Shaped Ac.n n Ls) (hok : ∀ L' ∈ Ls, LvlOK L')
    (M : Mat R) (h : denseM ofRat Ac c Ls = some M) :
    M.size = n ∧ ∀ i j, i < n → j < n →
      mget M i j = MopL (coarseS Ac) (ctype c) (Ls.map absLvl) (Pi.single j 1) i := by
  refine ⟨denseM_size ofRat Ac c Ls n hshape M h, ?_⟩
  intro i j hi hj
  have hS := denseM_coarseInv ofRat Ac c Ls n (by omega) hshape M h
  exact (denseM_entries ofRat hof Ac (coarseS Ac) hS c Ls n hshape hok M h).2 i j hi hj

/-- … and of the operator `Mop` of `Proofs/LinIter.lean` when the hierarchy is Galerkin -/
theorem denseM_is_Mop (ofRat : Rat → R) (hof : ∀ q, ofRat q = (q : R)) (Ac : K.Csr R)
    (c : Cyc) (Ls : List (Lvl R)) (n : Nat) (hshape : Shaped Ac.n n Ls) (hok : ∀ L' ∈ Ls, LvlOK L')
    (hgal : GalerkinL (Ls.map absLvl))
    (M : Mat R) (h : denseM ofRat Ac c Ls = some M) :
    M.size = n ∧ ∀ i j, i < n → j < n →
      mget M i j = Mop (coarseS Ac) (ctype c) (Ls.map absLvl) (Pi.single j 1) i := by
  have := denseM_is_operator ofRat hof Ac c Ls n hshape hok M h
  rw [MopL_eq_Mop _ _ _ hgal] at this
  exact this

/-- **C05 for the executed definition, final form.** `pre`, `post`: the lists handed to
`change_smoothers`; `Ls`, `Ac`: a model hierarchy carrying the smoothers they install (`Installed`,
all inside the cycle model), of matching shapes, one stored non-zero diagonal entry per row of every
level matrix, symmetric level matrices and coarsest matrix, `R = Pᵀ` on every level (`SymH`).
If the decision table reports `symmetric_smoothing = True`, then **whenever `denseM` returns a matrix
`M` -- for the V- and for the W-cycle -- `M` is symmetric.** -/
theorem flag_denseM_symmetric (ofRat : Rat → R) (hof : ∀ q, ofRat q = (q : R))
    (pre post : List Cfg) (hp : 1 ≤ pre.length) (hq : 1 ≤ post.length)
    (Ac : K.Csr R) (Ls : List (Lvl R))
    (hflag : flag pre post Ls.length = some true) (hinst : Installed pre post 0 Ls)
    (n : Nat) (hshape : Shaped Ac.n n Ls) (hok : ∀ L ∈ Ls, LvlOK L) (hsym : SymH Ac Ls)
    (c : Cyc) (M : Mat R) (h : denseM ofRat Ac c Ls = some M) :
    M.size = n ∧ ∀ i j, i < n → j < n → mget M i j = mget M j i := by
  refine ⟨denseM_size ofRat Ac c Ls n hshape M h, ?_⟩
  intro i j hi hj
  have hS := denseM_coarseInv ofRat Ac c Ls n (by omega) hshape M h
  exact (flag_denseM_symmetric_of_inv ofRat hof pre post hp hq Ac Ls hflag hinst n hshape hok hsym
    (coarseS Ac) hS c M h).2 i j hi hj


#print axioms solveLvl_affine
#print axioms denseM_entries
#print axioms denseM_entries_Mop
#print axioms flag_denseM_symmetric_of_inv
#print axioms denseM_is_operator
#print axioms denseM_is_Mop
#print axioms flag_denseM_symmetric
end PyamgV.C05
