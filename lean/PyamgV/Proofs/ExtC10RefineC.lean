import PyamgV.Proofs.ExtC10RefineB
import Mathlib.LinearAlgebra.Pi

/-! PyamgV (C10, extension E8, part C): the array-level kernel model refines the proof-side
definitions.  `GS.mgs` commutes with isometric linear embeddings (`mgs_map`); the rows of an aggregate
embed into all unknowns by zero extension (`embed`), which turns the aggregate's stored columns into
the masked candidates of `C10.fitAgg`.  Result: `fit_refines_q`, `fit_refines_r` (the array model's
`Ax` and `R` are the columns and the `R` entries of `C10.fitAgg`), and the four fit theorems
restated for the array model. -/
namespace PyamgV.GS
variable {K : Type*} [Field K] [LinearOrder K] [IsStrictOrderedRing K]
variable {V : Type*} [AddCommGroup V] [Module K V] {W : Type*} [AddCommGroup W] [Module K W]

theorem orth_map (eV : EForm K V) (eW : EForm K W) (φ : V →ₗ[K] W)
    (hiso : ∀ u v, eW.a (φ u) (φ v) = eV.a u v) :
    ∀ (qs : List V) (v : V), orth eW (qs.map φ) (φ v) = (φ (orth eV qs v).1, (orth eV qs v).2) := by
  intro qs
  induction qs with
  | nil => intro v; rfl
  | cons q qs ih =>
    intro v
    simp only [List.map_cons, orth, hiso]
    rw [← map_smul, ← map_sub, ih]

theorem newCol_map (eV : EForm K V) (eW : EForm K W) (φ : V →ₗ[K] W)
    (hiso : ∀ u v, eW.a (φ u) (φ v) = eV.a u v) (sqrt : K → K) (thr : K) (rem : V) :
    newCol eW sqrt thr (φ rem) = (φ (newCol eV sqrt thr rem).1, (newCol eV sqrt thr rem).2) := by
  unfold newCol
  simp only [hiso]
  by_cases h : sqrt (eV.a rem rem) > thr
  · simp only [if_pos h, map_smul]
  · simp only [if_neg h, map_zero]

theorem mgs_map (eV : EForm K V) (eW : EForm K W) (φ : V →ₗ[K] W)
    (hiso : ∀ u v, eW.a (φ u) (φ v) = eV.a u v) (sqrt : K → K) (tol : K) :
    ∀ (bs qs : List V), mgs eW sqrt tol (bs.map φ) (qs.map φ) =
      ⟨(mgs eV sqrt tol bs qs).q.map φ, (mgs eV sqrt tol bs qs).r, (mgs eV sqrt tol bs qs).drop.map φ⟩ := by
  intro bs
  induction bs with
  | nil => intro qs; rfl
  | cons b bs ih =>
    intro qs
    simp only [List.map_cons, mgs, orth_map eV eW φ hiso, newCol_map eV eW φ hiso, hiso]
    have := ih (qs ++ [(newCol eV sqrt (tol * sqrt (eV.a b b)) (orth eV qs b).1).1])
    rw [List.map_append, List.map_cons, List.map_nil] at this
    rw [this]
    simp only [map_sub, map_smul]

end PyamgV.GS

namespace PyamgV.C10R
open PyamgV PyamgV.C10M

variable {K : Type} [Field K] [LinearOrder K] [IsStrictOrderedRing K]

/-- valid CSC arrays `(Ap, Ai)` of `AggOp` (`nFine` nodes, `nCol` aggregates): column pointers
ascending and inside `Ai`, node indices in range, and **each node occurs at most once** (in at most
one aggregate, and once there) -/
structure ValidAgg (nFine nCol : Nat) (ap ai : Array Nat) : Prop where
  mono : ∀ j < nCol, rdN ap j ≤ rdN ap (j+1)
  hend : rdN ap nCol ≤ ai.size
  rows : ∀ ii < rdN ap nCol, rdN ai ii < nFine
  inj : ∀ ii < rdN ap nCol, ∀ ii' < rdN ap nCol, rdN ai ii = rdN ai ii' → ii = ii'

/-- the candidates as a function of (unknown, candidate): `B.ravel()[i*K2 + c]` -/
def candB (nFine K1 K2 : Nat) (b : Array K) : Fin (nFine * K1) → Nat → K :=
  fun i c => b.getD (i.val * K2 + c) 0

/-- `agg` is the aggregate map of the CSC arrays: unknown `i` (of node `i / K1`) belongs to
aggregate `a` iff the node is listed in column `a` -/
def AggSpec (nFine nCol K1 : Nat) (ap ai : Array Nat) (agg : Fin (nFine * K1) → Option (Fin nCol)) : Prop :=
  ∀ i a, agg i = some a ↔ ∃ ii, rdN ap a.val ≤ ii ∧ ii < rdN ap (a.val + 1) ∧ rdN ai ii = i.val / K1

theorem pos_of_lt_mul_left (x k y : Nat) (h : x < k * y) : 0 < k := by
  rcases Nat.eq_zero_or_pos k with h0 | h0
  · rw [h0, Nat.zero_mul] at h; omega
  · exact h0

theorem pos_of_lt_mul_right (x k y : Nat) (h : x < y * k) : 0 < k :=
  pos_of_lt_mul_left x k y (by rw [Nat.mul_comm]; exact h)

section embed
variable {nFine nCol : Nat} {ap ai : Array Nat} (hV : ValidAgg nFine nCol ap ai) (K1 : Nat) (a : Fin nCol)
include hV

theorem seg_lt (ii : Nat) (h : ii < rdN ap (a.val + 1)) : ii < rdN ap nCol :=
  Nat.lt_of_lt_of_le h (ap_mono ap nCol hV.mono nCol (a.val + 1) a.isLt (Nat.le_refl _))

theorem dof_lt (t : Fin (K1 * (rdN ap (a.val+1) - rdN ap a.val))) :
    rdN ai (rdN ap a.val + t.val / K1) * K1 + t.val % K1 < nFine * K1 := by
  have hK1 : 0 < K1 := pos_of_lt_mul_left _ _ _ t.isLt
  have hq : t.val / K1 < rdN ap (a.val+1) - rdN ap a.val :=
    Nat.div_lt_of_lt_mul t.isLt
  have hr := Nat.mod_lt t.val hK1
  generalize t.val / K1 = q at hq
  have hrow := hV.rows _ (seg_lt hV a (rdN ap a.val + q) (by omega))
  have := Nat.mul_le_mul_right K1 (Nat.succ_le_of_lt hrow)
  rw [Nat.succ_mul] at this
  omega

/-- row `t` of aggregate `a`'s block ↦ the unknown it was copied from -/
def dof (t : Fin (K1 * (rdN ap (a.val+1) - rdN ap a.val))) : Fin (nFine * K1) :=
  ⟨rdN ai (rdN ap a.val + t.val / K1) * K1 + t.val % K1, dof_lt hV K1 a t⟩

theorem dof_injective : Function.Injective (dof hV K1 a) := by
  intro t t' h
  have hv : rdN ai (rdN ap a.val + t.val / K1) * K1 + t.val % K1 =
      rdN ai (rdN ap a.val + t'.val / K1) * K1 + t'.val % K1 := congrArg Fin.val h
  have hK1 : 0 < K1 := pos_of_lt_mul_left _ _ _ t.isLt
  have hq : t.val / K1 < rdN ap (a.val+1) - rdN ap a.val := Nat.div_lt_of_lt_mul t.isLt
  have hq' : t'.val / K1 < rdN ap (a.val+1) - rdN ap a.val := Nat.div_lt_of_lt_mul t'.isLt
  have e1 := Nat.div_add_mod t.val K1
  have e2 := Nat.div_add_mod t'.val K1
  have hr := Nat.mod_lt t.val hK1
  have hr' := Nat.mod_lt t'.val hK1
  apply Fin.ext
  generalize t.val / K1 = q at hq hv e1
  generalize t'.val / K1 = q' at hq' hv e2
  generalize t.val % K1 = r at hv e1 hr
  generalize t'.val % K1 = r' at hv e2 hr'
  have hu := pos_unique K1 r (rdN ai (rdN ap a.val + q)) r' (rdN ai (rdN ap a.val + q')) hr hr'
    (by rw [Nat.mul_comm K1 (rdN ai (rdN ap a.val + q)), Nat.mul_comm K1 (rdN ai (rdN ap a.val + q'))]; omega)
  have hii := hV.inj _ (seg_lt hV a (rdN ap a.val + q) (by omega)) _
    (seg_lt hV a (rdN ap a.val + q') (by omega)) hu.2
  have : q = q' := by omega
  rw [this, hu.1] at e1
  omega

theorem dof_range (agg : Fin (nFine * K1) → Option (Fin nCol)) (hagg : AggSpec nFine nCol K1 ap ai agg)
    (i : Fin (nFine * K1)) : agg i = some a ↔ ∃ t, dof hV K1 a t = i := by
  have hK1 : 0 < K1 := pos_of_lt_mul_right _ _ _ i.isLt
  rw [hagg i a]
  constructor
  · rintro ⟨ii, h1, h2, h3⟩
    have hlt : (ii - rdN ap a.val) * K1 + i.val % K1 < K1 * (rdN ap (a.val+1) - rdN ap a.val) := by
      have := pos_lt K1 (rdN ap (a.val+1) - rdN ap a.val) (i.val % K1) (ii - rdN ap a.val)
        (Nat.mod_lt _ hK1) (by omega)
      rw [Nat.mul_comm K1 (ii - rdN ap a.val)] at this
      omega
    refine ⟨⟨(ii - rdN ap a.val) * K1 + i.val % K1, hlt⟩, ?_⟩
    apply Fin.ext
    show rdN ai (rdN ap a.val + ((ii - rdN ap a.val) * K1 + i.val % K1) / K1) * K1 +
      ((ii - rdN ap a.val) * K1 + i.val % K1) % K1 = i.val
    rw [Nat.mul_comm (ii - rdN ap a.val) K1, Nat.mul_add_div hK1, Nat.mul_add_mod,
      Nat.mod_mod, Nat.div_eq_of_lt (Nat.mod_lt _ hK1), Nat.add_zero,
      show rdN ap a.val + (ii - rdN ap a.val) = ii by omega, h3]
    exact Nat.div_add_mod' i.val K1
  · rintro ⟨t, ht⟩
    have hq : t.val / K1 < rdN ap (a.val+1) - rdN ap a.val := Nat.div_lt_of_lt_mul t.isLt
    have hr := Nat.mod_lt t.val hK1
    have hi : i.val = rdN ai (rdN ap a.val + t.val / K1) * K1 + t.val % K1 := by rw [← ht]; rfl
    rw [hi]
    generalize t.val / K1 = q at hq
    generalize t.val % K1 = r at hr
    refine ⟨rdN ap a.val + q, by omega, by omega, ?_⟩
    rw [Nat.mul_comm (rdN ai (rdN ap a.val + q)) K1, Nat.mul_add_div hK1, Nat.div_eq_of_lt hr, Nat.add_zero]

/-- zero extension of a vector on the aggregate's rows to all unknowns -/
noncomputable def embed : (Fin (K1 * (rdN ap (a.val+1) - rdN ap a.val)) → K) →ₗ[K] (Fin (nFine * K1) → K) :=
  Function.ExtendByZero.linearMap K (dof hV K1 a)

omit [LinearOrder K] [IsStrictOrderedRing K] in
theorem embed_dof (u : Fin (K1 * (rdN ap (a.val+1) - rdN ap a.val)) → K) (t) :
    embed hV K1 a u (dof hV K1 a t) = u t :=
  (dof_injective hV K1 a).extend_apply u (0 : Fin (nFine * K1) → K) t

omit [LinearOrder K] [IsStrictOrderedRing K] in
theorem embed_off (u : Fin (K1 * (rdN ap (a.val+1) - rdN ap a.val)) → K) (i : Fin (nFine * K1))
    (h : ¬ ∃ t, dof hV K1 a t = i) : embed hV K1 a u i = 0 :=
  Function.extend_apply' u (0 : Fin (nFine * K1) → K) i h

theorem embed_iso (u v : Fin (K1 * (rdN ap (a.val+1) - rdN ap a.val)) → K) :
    (C10.dotForm (K := K)).a (embed hV K1 a u) (embed hV K1 a v) = (C10.dotForm (K := K)).a u v := by
  rw [C10.dotForm_apply, C10.dotForm_apply]
  symm
  apply Fintype.sum_of_injective (dof hV K1 a) (dof_injective hV K1 a)
  · intro i hi
    rw [embed_off hV K1 a u i (by simpa using hi), zero_mul]
  · intro t
    rw [embed_dof, embed_dof]

end embed

section post
variable (sqrt : K → K) (ok : K → Bool) (tol : K) {nFine nCol : Nat} (K1 K2 : Nat) {ap ai : Array Nat}
  (b : Array K) (hV : ValidAgg nFine nCol ap ai)
include hV

/-- the kernel's final state holds, for every aggregate, the Gram-Schmidt result of the copied block -/
theorem fit_post (a : Fin nCol) :
    AggPost sqrt tol K1 K2 ap
      ⟨copyBlocks (fieldOps sqrt ok) nCol K1 K2 ap ai b, Array.replicate (nCol * K2 * K2) 0, true⟩
      (fitCandidates (fieldOps sqrt ok) nCol K1 K2 ap ai b tol) a.val := by
  have hcs := (copyBlocks_spec K1 K2 ai b sqrt ok nCol ap).1
  have h := fitLoop_spec sqrt ok tol K1 K2 ap nCol hV.mono
    ⟨copyBlocks (fieldOps sqrt ok) nCol K1 K2 ap ai b, Array.replicate (nCol * K2 * K2) 0, true⟩
    (by show _ ≤ (copyBlocks (fieldOps sqrt ok) nCol K1 K2 ap ai b).size
        rw [hcs]; exact Nat.mul_le_mul_left _ hV.hend)
    (by show _ ≤ (Array.replicate (nCol * K2 * K2) (0 : K)).size
        rw [Array.size_replicate])
    nCol (Nat.le_refl _) _ (fitCandidates_eq (fieldOps sqrt ok) nCol K1 K2 ap ai b tol)
  exact h.2.2.2.2 a.val a.isLt

end post

section main
variable (sqrt : K → K) (ok : K → Bool) (tol : K) {nFine nCol : Nat} (K1 K2 : Nat) {ap ai : Array Nat}
  (b : Array K) (hV : ValidAgg nFine nCol ap ai) (agg : Fin (nFine * K1) → Option (Fin nCol))
  (hagg : AggSpec nFine nCol K1 ap ai agg)
include hV hagg

omit [IsStrictOrderedRing K] in
/-- the masked candidate column of `C10.fitAgg` is the zero extension of the column the kernel
copied into `Ax` -/
theorem masked_eq_embed (a : Fin nCol) (c : Nat) (hc : c < K2) :
    C10.masked agg (candB nFine K1 K2 b) a c =
      embed hV K1 a (colV (copyBlocks (fieldOps sqrt ok) nCol K1 K2 ap ai b) (K1 * K2 * rdN ap a.val) K2
        (K1 * (rdN ap (a.val+1) - rdN ap a.val)) c) := by
  funext i
  unfold C10.masked
  by_cases h : agg i = some a
  · obtain ⟨t, ht⟩ := (dof_range hV K1 a agg hagg i).1 h
    rw [if_pos h, ← ht, embed_dof]
    have hK1 : 0 < K1 := pos_of_lt_mul_left _ _ _ t.isLt
    have hq : t.val / K1 < rdN ap (a.val+1) - rdN ap a.val := Nat.div_lt_of_lt_mul t.isLt
    have hr := Nat.mod_lt t.val hK1
    have e : t.val = K1 * (t.val / K1) + t.val % K1 := (Nat.div_add_mod _ _).symm
    show b.getD ((rdN ai (rdN ap a.val + t.val / K1) * K1 + t.val % K1) * K2 + c) 0 =
      (copyBlocks (fieldOps sqrt ok) nCol K1 K2 ap ai b).getD (K1 * K2 * rdN ap a.val + c + K2 * t.val) 0
    generalize t.val / K1 = q at hq e
    generalize t.val % K1 = r at hr e
    rw [e]
    have hlt : rdN ap a.val + q < rdN ap nCol := seg_lt hV a _ (by omega)
    have hcp := (copyBlocks_spec K1 K2 ai b sqrt ok nCol ap).2 a.val a.isLt (rdN ap a.val + q) (by omega)
      (by omega) (Nat.lt_of_lt_of_le hlt hV.hend) (r * K2 + c) (by
        have := pos_lt K2 K1 c r hc hr
        rw [Nat.mul_comm K1 K2, Nat.mul_comm r K2]; omega)
    rw [show K1 * K2 * rdN ap a.val + c + K2 * (K1 * q + r) = K1 * K2 * (rdN ap a.val + q) + (r * K2 + c) by ring,
      hcp]
    congr 1
    ring
  · rw [if_neg h, embed_off hV K1 a _ i (fun ht => h ((dof_range hV K1 a agg hagg i).2 ht))]

/-- **`C10.fitAgg` = zero extension of the Gram-Schmidt run on the stored block** -/
theorem fitAgg_eq (a : Fin nCol) :
    C10.fitAgg sqrt tol agg (candB nFine K1 K2 b) K2 a =
      ⟨(aggOut sqrt tol K1 K2 ap (copyBlocks (fieldOps sqrt ok) nCol K1 K2 ap ai b) a.val).q.map (embed hV K1 a),
       (aggOut sqrt tol K1 K2 ap (copyBlocks (fieldOps sqrt ok) nCol K1 K2 ap ai b) a.val).r,
       (aggOut sqrt tol K1 K2 ap (copyBlocks (fieldOps sqrt ok) nCol K1 K2 ap ai b) a.val).drop.map (embed hV K1 a)⟩ := by
  unfold C10.fitAgg aggOut
  have hm : (List.range K2).map (C10.masked agg (candB nFine K1 K2 b) a) =
      ((List.range K2).map (colV (copyBlocks (fieldOps sqrt ok) nCol K1 K2 ap ai b) (K1 * K2 * rdN ap a.val) K2
        (K1 * (rdN ap (a.val+1) - rdN ap a.val)))).map (embed hV K1 a) := by
    rw [List.map_map]
    apply List.map_congr_left
    intro c hc
    exact masked_eq_embed sqrt ok K1 K2 b hV agg hagg a c (List.mem_range.1 hc)
  rw [hm]
  exact GS.mgs_map C10.dotForm C10.dotForm (embed hV K1 a) (embed_iso hV K1 a) sqrt tol _ []

omit hV hagg [LinearOrder K] [IsStrictOrderedRing K] in
theorem getD_map_lin {V W : Type} [AddCommGroup V] [Module K V] [AddCommGroup W] [Module K W]
    (φ : V →ₗ[K] W) (l : List V) (c : Nat) : (l.map φ).getD c 0 = φ (l.getD c 0) := by
  simp only [List.getD_eq_getElem?_getD, List.getElem?_map]
  cases l[c]? with
  | none => simp
  | some v => simp

/-- **refinement, `Q`**: the entry of `Ax` in block `ii` of aggregate `a`, block row `k1`, column
`c`, is the value of column `c` of `C10.fitAgg … a` at the unknown `Ai[ii]*K1 + k1` -/
theorem fit_refines_q (a : Fin nCol) (ii : Nat) (h1 : rdN ap a.val ≤ ii) (h2 : ii < rdN ap (a.val+1))
    (k1 : Nat) (hk1 : k1 < K1) (c : Nat) (hc : c < K2) (i : Fin (nFine * K1))
    (hi : i.val = rdN ai ii * K1 + k1) :
    (fitCandidates (fieldOps sqrt ok) nCol K1 K2 ap ai b tol).ax.getD (K1 * K2 * ii + k1 * K2 + c) 0 =
      (C10.fitAgg sqrt tol agg (candB nFine K1 K2 b) K2 a).q.getD c 0 i := by
  rw [fitAgg_eq sqrt ok tol K1 K2 b hV agg hagg a]
  simp only [getD_map_lin]
  have hK1 : 0 < K1 := by omega
  have hlt : (ii - rdN ap a.val) * K1 + k1 < K1 * (rdN ap (a.val+1) - rdN ap a.val) := by
    have := pos_lt K1 (rdN ap (a.val+1) - rdN ap a.val) k1 (ii - rdN ap a.val) hk1 (by omega)
    rw [Nat.mul_comm K1 (ii - rdN ap a.val)] at this
    omega
  have hdof : i = dof hV K1 a ⟨(ii - rdN ap a.val) * K1 + k1, hlt⟩ := by
    apply Fin.ext
    rw [hi]
    show _ = rdN ai (rdN ap a.val + ((ii - rdN ap a.val) * K1 + k1) / K1) * K1 +
      ((ii - rdN ap a.val) * K1 + k1) % K1
    rw [Nat.mul_comm (ii - rdN ap a.val) K1, Nat.mul_add_div hK1, Nat.mul_add_mod,
      Nat.mod_eq_of_lt hk1, Nat.div_eq_of_lt hk1, Nat.add_zero,
      show rdN ap a.val + (ii - rdN ap a.val) = ii by omega]
  rw [hdof, embed_dof]
  have hp := (fit_post sqrt ok tol K1 K2 b hV a).1 c hc
  rw [← hp]
  show _ = (fitCandidates (fieldOps sqrt ok) nCol K1 K2 ap ai b tol).ax.getD
    (K1 * K2 * rdN ap a.val + c + K2 * ((ii - rdN ap a.val) * K1 + k1)) 0
  congr 1
  obtain ⟨d, hd⟩ := Nat.exists_eq_add_of_le h1
  rw [hd, Nat.add_sub_cancel_left]
  ring

/-- **refinement, `R`**: block `a` of the kernel's `R` holds the `R` entries of `C10.fitAgg … a`
(upper triangle: the recorded projections; diagonal: the norm or `0` for a dropped column; lower
triangle: `0`) -/
theorem fit_refines_r (a : Fin nCol) (bi bj : Nat) (hbi : bi < K2) (hbj : bj < K2) :
    (fitCandidates (fieldOps sqrt ok) nCol K1 K2 ap ai b tol).r.getD (a.val * K2 * K2 + K2 * bi + bj) 0 =
      if bi < bj then ((C10.fitAgg sqrt tol agg (candB nFine K1 K2 b) K2 a).r.getD bj ([], 0)).1.getD bi 0
      else if bi = bj then ((C10.fitAgg sqrt tol agg (candB nFine K1 K2 b) K2 a).r.getD bj ([], 0)).2
      else 0 := by
  rw [fitAgg_eq sqrt ok tol K1 K2 b hV agg hagg a]
  obtain ⟨_, p2, p3, p4⟩ := fit_post sqrt ok tol K1 K2 b hV a
  by_cases h : bi < bj
  · rw [if_pos h]; exact p2 bj hbj bi h
  · rw [if_neg h]
    by_cases h' : bi = bj
    · rw [if_pos h', h']; exact p3 bj hbj
    · rw [if_neg h', p4 bj hbj bi (by omega) hbi]
      show (Array.replicate (nCol * K2 * K2) (0 : K)).getD _ 0 = 0
      simp only [Array.getD_eq_getD_getElem?, Array.getElem?_replicate]
      split <;> rfl

end main
end PyamgV.C10R
