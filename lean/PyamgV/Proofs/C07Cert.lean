import PyamgV.Proofs.C07Vec
import PyamgV.Model.C07Argmin

/-! PyamgV (C07): the certificate checker `certV` of `Model/C07Argmin.lean` is sound — the oracle of
the failing-input search (`c07_krylov_argmin`) does not have to be trusted for real systems:
whatever produced `(d, y)`, if `certV G vs t x0 d y = true` (i.e. `y = x0 + Σ d_i v_i` and
`G (t − y) ⟂ v_i` for every `i`, both decided exactly over the field) and `G` is symmetric positive
semidefinite, then `y` minimises `(t − y)ᵀ G (t − y)` over `x0 + span{v_i}`.  With `t = A⁻¹ b`,
`G = A`, `(MA)ᵀ MA`, `AᵀA`, `I` and `v_i` the power basis these are the minimisers C07 promises. -/
namespace PyamgV.C07

variable {K : Type} [Field K] [LinearOrder K] [IsStrictOrderedRing K] {n : Nat}

/-- `x + Σ c_i v_i` in a module -/
def combF {V : Type} [AddCommGroup V] [Module K V] : V → List K → List V → V
  | x, c :: cs, v :: vs => combF (x + c • v) cs vs
  | x, [], _ => x
  | x, _ :: _, [] => x

theorem toFn_combV (x : Vector K n) (d : List K) (vs : List (Vector K n)) :
    toFn (combV x d vs) = combF (toFn x) d (vs.map toFn) := by
  induction d generalizing x vs with
  | nil => cases vs <;> simp [combV, combF]
  | cons c cs ih =>
    cases vs with
    | nil => simp [combV, combF]
    | cons v vs =>
      simp only [combV, combF, List.map_cons]
      rw [ih, toFn_add, toFn_smul]

theorem combF_mem {V : Type} [AddCommGroup V] [Module K V] (x : V) (d : List K) (vs : List V) :
    combF x d vs - x ∈ Submodule.span K {v | v ∈ vs} := by
  induction d generalizing x vs with
  | nil => cases vs <;> simp [combF]
  | cons c cs ih =>
    cases vs with
    | nil => simp [combF]
    | cons v vs =>
      simp only [combF]
      have h1 : combF (x + c • v) cs vs - (x + c • v) ∈ Submodule.span K {w | w ∈ v :: vs} :=
        Submodule.span_mono (fun w hw => List.mem_cons_of_mem v hw) (ih (x + c • v) vs)
      have h2 : c • v ∈ Submodule.span K {w | w ∈ v :: vs} :=
        Submodule.smul_mem _ _ (Submodule.subset_span (List.mem_cons_self))
      have : combF (x + c • v) cs vs - x = (combF (x + c • v) cs vs - (x + c • v)) + c • v := by abel
      rw [this]; exact Submodule.add_mem _ h1 h2

/-- **soundness of the certificate**: an accepted `(d, y)` is the minimiser of `(t − ·)ᵀ G (t − ·)`
over `x0 + span{v_i}` -/
theorem certV_sound (G : Vector (Vector K n) n) (vs : List (Vector K n)) (t x0 : Vector K n)
    (d : List K) (y : Vector K n) (hG : IsSymm G) (hpsd : ∀ v, 0 ≤ (dotForm K n).a (linOf G v) v)
    (h : certV G vs t x0 d y = true) (d' : List K) :
    energyV G (subV t y) ≤ energyV G (subV t (combV x0 d' vs)) := by
  unfold certV at h
  rw [Bool.and_eq_true, decide_eq_true_eq, List.all_eq_true] at h
  obtain ⟨hy, horth⟩ := h
  have hs := linOf_symm hG
  let E := KSim.aForm (linOf G) (dotForm K n) hs hpsd
  set W := Submodule.span K {w | w ∈ vs.map toFn} with hW
  -- G (t − y) is orthogonal to the whole span
  have hperp : ∀ w ∈ W, E.a (toFn t - toFn y) w = 0 := by
    intro w hw
    induction hw using Submodule.span_induction with
    | mem w hw =>
      obtain ⟨v, hv, rfl⟩ := List.mem_map.mp hw
      have h0 := horth v hv
      rw [decide_eq_true_eq, vdot_eq, toFn_vmv] at h0
      show (dotForm K n).a (linOf G (toFn t - toFn y)) (toFn v) = 0
      rw [(dotForm K n).symm, ← toFn_sub]
      exact h0
    | zero => simp
    | add u w _ _ hu hw => rw [map_add, hu, hw, add_zero]
    | smul c u _ hu => rw [map_smul, hu, smul_zero]
  have hy' : toFn y - toFn x0 ∈ W := by
    rw [← hy, toFn_combV]; exact combF_mem _ _ _
  have hz : toFn (combV x0 d' vs) - toFn x0 ∈ W := by
    rw [toFn_combV]; exact combF_mem _ _ _
  have hdd : toFn y - toFn (combV x0 d' vs) ∈ W := by
    have : toFn y - toFn (combV x0 d' vs) = (toFn y - toFn x0) - (toFn (combV x0 d' vs) - toFn x0) := by abel
    rw [this]; exact Submodule.sub_mem _ hy' hz
  have hsplit : toFn t - toFn (combV x0 d' vs) - (toFn y - toFn (combV x0 d' vs)) = toFn t - toFn y := by abel
  have key := E.en_sub_le (toFn t - toFn (combV x0 d' vs)) (toFn y - toFn (combV x0 d' vs))
    (by rw [hsplit]; exact hperp _ hdd)
  rw [hsplit] at key
  rw [energyV_eq, energyV_eq, toFn_subV, toFn_subV]
  exact key

#print axioms certV_sound
end PyamgV.C07
