import PyamgV.Model.ExtC17CkR3CC
import PyamgV.Proofs.ExtC17SafeR3Cr

/-! PyamgV (C17, extension E19): bounds-safety and termination of the `Ck` model of `connected_components`
(`Model/ExtC17CkR3CC.lean`).  Termination of `while(!DFS.empty())`: the measure
`2·(number of unmarked nodes) + |DFS|` drops with every pass (a pop costs 1, a push pays 2 and costs 1).
Core Lean only. -/
namespace PyamgV.C17
open PyamgV.Ck

set_option linter.unusedSectionVars false
set_option linter.unusedVariables false

/-- `true` for a marked node (`components[j] != -1`) -/
def ccMarked (x : Int) : Bool := x != -1

/-- number of unmarked nodes -/
def unm (n : Nat) (c : Array Int) : Nat := nzc ccMarked c n

theorem idxIn_pop {a : Array Int} {n : Nat} (h : IdxIn a n) : IdxIn a.pop n := by
  intro p hp
  rw [Array.size_pop] at hp
  have e : a.pop.getD p 0 = a.getD p 0 := by
    simp only [Array.getD_eq_getD_getElem?, Array.getElem?_pop, if_pos hp]
  rw [e]; exact h p (by omega)

/-- `components` keeps its length, the stack holds nodes -/
def CCInv (n : Nat) (st : CCSt) : Prop := st.1.size = n ∧ IdxIn st.2 n

def ccMu (n : Nat) (st : CCSt) : Nat := 2 * unm n st.1 + st.2.size

theorem ccVisit_safe (n : Nat) (ap aj : Array Int) (hA : WFm (patS n ap aj) n) (comp : Int) (hc : 0 ≤ comp)
    (top : Int) (t0 : 0 ≤ top) (t1 : top < (n : Int)) (st : CCSt) (hst : CCInv n st) :
    Safe (ccVisit ap aj comp top st) (fun st' => CCInv n st' ∧ ccMu n st' ≤ ccMu n st) := by
  obtain ⟨q1, q2⟩ := rd_ap_safe (patS n ap aj) hA top t0 t1
  unfold ccVisit
  refine Safe.bind q1 (fun s hs => ?_)
  refine Safe.bind q2 (fun e he => ?_)
  have hs' : s = ap.getD top.toNat 0 := hs
  have he' : e = ap.getD (top.toNat + 1) 0 := he
  subst hs'; subst he'
  apply forRange_safe (fun st' : CCSt => CCInv n st' ∧ ccMu n st' ≤ ccMu n st) _ _ _ _ ⟨hst, Nat.le_refl _⟩
  intro jj j1 j2 st' hst'
  have hr := row_range_m (patS n ap aj) hA top.toNat (by show top.toNat < n; omega) jj j1 j2
  refine Safe.bind (rd_safe aj jj hr.1 hr.2.1) (fun j hj => ?_)
  have hcc := col_ok (patS n ap aj) hA jj hr.1 hr.2.1 j hj
  have hjs : j.toNat < st'.1.size := by rw [hst'.1.1]; exact hcc.2
  refine Safe.bind (rd_safe st'.1 j hcc.1 hjs) (fun cj hcj => ?_)
  by_cases hun : cj = -1
  · rw [if_pos hun]
    refine Safe.bind (wr_val st'.1 j comp hcc.1 hjs) (fun c hcw => ?_)
    have hold : ccMarked (st'.1.getD j.toNat default) = false := by
      have : st'.1.getD j.toNat default = -1 := by rw [← hcj]; exact hun
      rw [this]; rfl
    have hnew : ccMarked comp = true := by
      show (comp != -1) = true
      exact bne_iff_ne.mpr (by omega)
    have hdrop := nzc_set_lt ccMarked st'.1 j.toNat comp hnew hold hjs n hcc.2
    refine Safe.pure ⟨⟨by show c.size = n; rw [hcw]; simp [hst'.1.1], idxIn_push hst'.1.2 j hcc.1 (by omega)⟩, ?_⟩
    have hd : unm n c + 1 ≤ unm n st'.1 := by rw [hcw]; exact hdrop
    have h2 : 2 * unm n st'.1 + st'.2.size ≤ ccMu n st := hst'.2
    show 2 * unm n c + (st'.2.push j).size ≤ ccMu n st
    rw [Array.size_push]; omega
  · rw [if_neg hun]; exact Safe.pure hst'

/-- a pass of the loop body on a non-empty stack lowers the measure -/
theorem ccPass_safe (n : Nat) (ap aj : Array Int) (hA : WFm (patS n ap aj) n) (comp : Int) (hc : 0 ≤ comp)
    (s : CCSt) (hs : CCInv n s) (hne : s.2.size ≠ 0) :
    Safe (ccPass ap aj comp s) (fun s' => CCInv n s' ∧ ccMu n s' + 1 ≤ ccMu n s) := by
  have htop := hs.2 (s.2.size - 1) (by omega)
  have hpop : ccMu n (s.1, s.2.pop) + 1 = ccMu n s := by
    show 2 * unm n s.1 + s.2.pop.size + 1 = 2 * unm n s.1 + s.2.size
    rw [Array.size_pop]; omega
  unfold ccPass
  refine Safe.mono (ccVisit_safe n ap aj hA comp hc _ htop.1 htop.2 (s.1, s.2.pop) ⟨hs.1, idxIn_pop hs.2⟩)
    (fun s' h => ⟨h.1, by have := h.2; omega⟩)

/-- every depth-first search terminates: within `2·unmarked + |DFS|` passes -/
theorem ccWhile_safe (n : Nat) (ap aj : Array Int) (hA : WFm (patS n ap aj) n) (comp : Int) (hc : 0 ≤ comp) :
    ∀ (fuel : Nat) (st : Ck CCSt), Safe st (CCInv n) → ccMu n st.val ≤ fuel →
      ∃ r, ccWhile ap aj comp fuel st = some r ∧ Safe r (CCInv n) := by
  intro fuel
  induction fuel with
  | zero =>
    intro st hst hm
    have he : st.val.2.size = 0 := by unfold ccMu at hm; omega
    exact ⟨st, by unfold ccWhile; rw [if_pos he], hst⟩
  | succ f ih =>
    intro st hst hm
    unfold ccWhile
    by_cases he : st.val.2.size = 0
    · rw [if_pos he]; exact ⟨st, rfl, hst⟩
    · rw [if_neg he]
      have hb := Safe.bind_val hst.1 (ccPass_safe n ap aj hA comp hc st.val hst.2 he)
      refine ih _ (Safe.mono hb (fun _ h => h.1)) ?_
      have hle := hb.2.2
      omega

/-- **`connected_components`**: `A` a structurally valid `n × n` pattern (symmetric or not), `components` of
length `n`: no access leaves `Ap`, `Aj`, `components`, and every `while(!DFS.empty())` loop terminates
within `2n + 1` passes -/
theorem connectedComponents_safe (n : Nat) (ap aj comps : Array Int) (hA : WFm (patS n ap aj) n)
    (hc : comps.size = n) :
    Safe (connectedComponents n ap aj comps) (fun r => r.1.size = n ∧ 0 ≤ r.2) := by
  unfold connectedComponents
  refine Safe.bind (P := fun c : Array Int => c.size = n) ?_ (fun c0 hc0 => ?_)
  · apply forRange_safe (fun c : Array Int => c.size = n) _ _ _ _ hc
    intro i i0 i1 c hcs
    exact Safe.mono (wr_safe c i (-1) i0 (by rw [hcs]; omega)) (fun a' h => by rw [h, hcs])
  apply forRange_safe (fun st : Array Int × Int => st.1.size = n ∧ 0 ≤ st.2) _ _ _ _ ⟨hc0, Int.le_refl 0⟩
  intro i i0 i1 st hst
  have his : i.toNat < st.1.size := by rw [hst.1]; omega
  refine Safe.bind (rd_safe st.1 i i0 his) (fun ci _ => ?_)
  by_cases hun : ci = -1
  · rw [if_pos hun]
    refine Safe.bind (wr_safe st.1 i st.2 i0 his) (fun c hcw => ?_)
    have hcs : c.size = n := by rw [hcw, hst.1]
    refine Safe.bind (P := CCInv n) ?_ (fun r hr => Safe.pure ⟨hr.1, by show 0 ≤ st.2 + 1; omega⟩)
    apply orFault_safe
    refine ccWhile_safe n ap aj hA st.2 hst.2 _ (pure (c, #[i]))
      (Safe.pure ⟨hcs, idxIn_push (idxIn_empty n) i i0 i1⟩) ?_
    have := nzc_le ccMarked c n
    show 2 * unm n c + (#[i] : Array Int).size ≤ 2 * n + 1
    unfold unm
    simp; omega
  · rw [if_neg hun]; exact Safe.pure hst

end PyamgV.C17
