import PyamgV.Model.ExtPairwise
import PyamgV.Proofs.Pairwise
import Mathlib.Algebra.Order.BigOperators.Group.Finset
/-! PyamgV (C12 extension): the executable kernel model `ExtPw.pairwise` refines the transition
system `Pairwise.Step` (every pass of the `while` body is one `single`/`pair` step), the loop ends
with an empty multimap = no unaggregated node, hence `Pairwise.pairwise_spec` applies to the
model's output; composition of `m` matchings has aggregates of at most `2^m` nodes. -/
namespace PyamgV.ExtPw

/-! ### arrays -/
theorem rd_wr (a : Array Nat) (i v u : Nat) :
    rd (wr a i v) u = if u = i ∧ i < a.size then v else rd a u := by
  unfold rd wr
  by_cases h : u = i
  · subst h
    by_cases hs : u < a.size
    · simp [hs]
    · simp [hs]
  · have h' : ¬ i = u := fun e => h e.symm
    simp [h, h']

theorem size_wr (a : Array Nat) (i v : Nat) : (wr a i v).size = a.size := by
  unfold wr; simp

theorem rd_push (a : Array Nat) (v u : Nat) :
    rd (a.push v) u = if u = a.size then v else rd a u := by
  unfold rd
  by_cases h : u = a.size
  · subst h; simp
  · rw [if_neg h]
    by_cases hl : u < a.size
    · simp [Array.getElem?_push, h]
    · have : a.size < u := by omega
      simp [Array.getElem?_push, h]

theorem rd_ge (a : Array Nat) (u : Nat) (h : a.size ≤ u) : rd a u = 0 := by
  unfold rd; simp [h]

theorem rd_replicate (n u : Nat) : rd (Array.replicate n 0) u = 0 := by
  unfold rd
  by_cases h : u < n <;> simp [h]

/-! ### the multimap: only the set of nodes matters for the refinement -/
def nodes (l : MMap) : List Nat := l.map (·.2)

theorem mem_nodes_insert (k : Int) (v u : Nat) (l : MMap) :
    u ∈ nodes (mmInsert k v l) ↔ u = v ∨ u ∈ nodes l := by
  induction l with
  | nil => simp [mmInsert, nodes]
  | cons e l ih =>
    unfold mmInsert
    by_cases h : e.1 ≤ k
    · rw [if_pos h]
      have : nodes (e :: mmInsert k v l) = e.2 :: nodes (mmInsert k v l) := rfl
      rw [this, List.mem_cons, ih]
      have : nodes (e :: l) = e.2 :: nodes l := rfl
      rw [this, List.mem_cons]
      constructor
      · rintro (h | h | h) <;> simp [h]
      · rintro (h | h | h) <;> simp [h]
    · rw [if_neg h]
      simp [nodes]

theorem length_insert (k : Int) (v : Nat) (l : MMap) : (mmInsert k v l).length = l.length + 1 := by
  induction l with
  | nil => rfl
  | cons e l ih =>
    unfold mmInsert
    by_cases h : e.1 ≤ k
    · rw [if_pos h]; simp [ih]
    · rw [if_neg h]; simp

theorem mem_nodes_erase (v u : Nat) (l : MMap) :
    u ∈ nodes (mmErase v l) ↔ u ∈ nodes l ∧ u ≠ v := by
  unfold nodes mmErase
  simp only [List.mem_map, List.mem_filter]
  constructor
  · rintro ⟨e, ⟨he, hne⟩, rfl⟩
    exact ⟨⟨e, he, rfl⟩, by simpa using hne⟩
  · rintro ⟨⟨e, he, rfl⟩, hne⟩
    exact ⟨e, ⟨he, by simpa using hne⟩, rfl⟩

theorem length_erase_le (v : Nat) (l : MMap) : (mmErase v l).length ≤ l.length :=
  List.length_filter_le _ _

theorem length_erase_lt (v : Nat) (l : MMap) (h : v ∈ nodes l) :
    (mmErase v l).length < l.length := by
  induction l with
  | nil => simp [nodes] at h
  | cons e l ih =>
    unfold mmErase
    by_cases he : e.2 = v
    · rw [List.filter_cons_of_neg (by simp [he])]
      have := length_erase_le v l
      unfold mmErase at this
      simp only [List.length_cons]; omega
    · rw [List.filter_cons_of_pos (by simp [he])]
      have hv : v ∈ nodes l := by
        have : nodes (e :: l) = e.2 :: nodes l := rfl
        rw [this, List.mem_cons] at h
        rcases h with h | h
        · exact absurd h.symm he
        · exact h
      have := ih hv
      unfold mmErase at this
      simp only [List.length_cons]; omega

theorem mmKey_mem (v : Nat) (l : MMap) (k : Int) (h : mmKey v l = some k) : v ∈ nodes l := by
  induction l with
  | nil => simp [mmKey] at h
  | cons e l ih =>
    unfold mmKey at h
    have : nodes (e :: l) = e.2 :: nodes l := rfl
    rw [this, List.mem_cons]
    by_cases he : e.2 = v
    · exact Or.inl he.symm
    · rw [if_neg he] at h; exact Or.inr (ih h)

theorem mem_nodes_dec (v u : Nat) (l : MMap) : u ∈ nodes (mmDec v l) ↔ u ∈ nodes l := by
  unfold mmDec
  cases hk : mmKey v l with
  | none => exact Iff.rfl
  | some k =>
    show u ∈ nodes (mmInsert (k - 1) v (mmErase v l)) ↔ _
    rw [mem_nodes_insert, mem_nodes_erase]
    have hv := mmKey_mem v l k hk
    constructor
    · rintro (h | h)
      · rw [h]; exact hv
      · exact h.1
    · intro h
      by_cases e : u = v
      · exact Or.inl e
      · exact Or.inr ⟨h, e⟩

theorem length_dec_le (v : Nat) (l : MMap) : (mmDec v l).length ≤ l.length := by
  unfold mmDec
  cases hk : mmKey v l with
  | none => exact Nat.le_refl _
  | some k =>
    show (mmInsert (k - 1) v (mmErase v l)).length ≤ _
    rw [length_insert]
    have := length_erase_lt v l (mmKey_mem v l k hk)
    omega

theorem decRow_spec (x aj : Array Nat) (idx : List Nat) (mm : MMap) :
    (∀ u, u ∈ nodes (decRow x aj idx mm) ↔ u ∈ nodes mm) ∧
    (decRow x aj idx mm).length ≤ mm.length := by
  unfold decRow
  induction idx generalizing mm with
  | nil => exact ⟨fun _ => Iff.rfl, Nat.le_refl _⟩
  | cons jj idx ih =>
    rw [List.foldl_cons]
    by_cases h : rd x (rd aj jj) = 0
    · rw [if_pos h]
      obtain ⟨h1, h2⟩ := ih (mmDec (rd aj jj) mm)
      exact ⟨fun u => (h1 u).trans (mem_nodes_dec _ u mm),
        Nat.le_trans h2 (length_dec_le _ mm)⟩
    · rw [if_neg h]; exact ih mm

/-! ### the selection loop returns an unaggregated column index of the row -/
theorem pick_spec (x aj : Array Nat) (ax : Array Rat) (idx : List Nat) (m : Rat) (j : Nat)
    (h : pick x aj ax idx = some (m, j)) : (∃ jj, j = rd aj jj) ∧ rd x j = 0 := by
  unfold pick at h
  suffices H : ∀ (best : Option (Rat × Nat)),
      (∀ m j, best = some (m, j) → (∃ jj, j = rd aj jj) ∧ rd x j = 0) →
      ∀ m j, idx.foldl (fun (best : Option (Rat × Nat)) jj =>
        if rd x (rd aj jj) = 0 then
          match best with
          | none => some (ax.getD jj 0, rd aj jj)
          | some (mx, _) => if mx ≤ ax.getD jj 0 then some (ax.getD jj 0, rd aj jj) else best
        else best) best = some (m, j) → (∃ jj, j = rd aj jj) ∧ rd x j = 0 from
    H none (fun _ _ e => by cases e) m j h
  clear h
  induction idx with
  | nil => intro best hb m j e; exact hb m j e
  | cons jj idx ih =>
    intro best hb m j e
    rw [List.foldl_cons] at e
    refine ih _ ?_ m j e
    intro m' j' e'
    by_cases hz : rd x (rd aj jj) = 0
    · rw [if_pos hz] at e'
      cases best with
      | none =>
        simp only [Option.some.injEq, Prod.mk.injEq] at e'
        rw [← e'.2]; exact ⟨⟨jj, rfl⟩, hz⟩
      | some b =>
        obtain ⟨mx, jx⟩ := b
        simp only at e'
        by_cases hle : mx ≤ ax.getD jj 0
        · rw [if_pos hle] at e'
          simp only [Option.some.injEq, Prod.mk.injEq] at e'
          rw [← e'.2]; exact ⟨⟨jj, rfl⟩, hz⟩
        · rw [if_neg hle] at e'
          exact hb m' j' e'
    · rw [if_neg hz] at e'
      exact hb m' j' e'

/-! ### refinement -/
/-- the abstract state of `Proofs/Pairwise.lean` -/
def abs (s : PSt) : Pairwise.St := ⟨fun v => rd s.x v, fun a => rd s.y a, s.next⟩

structure PInv (n : Nat) (s : PSt) : Prop where
  hx : s.x.size = n
  hy : s.y.size + 1 = s.next
  hmm : ∀ v, v ∈ nodes s.mm ↔ (v < n ∧ rd s.x v = 0)
  hreach : Pairwise.Reach (abs s)

theorem iter_none (ap aj : Array Nat) (ax : Array Rat) (s : PSt) (i : Nat)
    (hp : pick (wr s.x i s.next) aj ax (rowIdx ap i) = none) :
    iter ap aj ax s i = ⟨wr s.x i s.next, s.y.push i,
      mmErase i (decRow (wr s.x i s.next) aj (rowIdx ap i) s.mm), s.next + 1⟩ := by
  simp only [iter, hp]

theorem iter_some (ap aj : Array Nat) (ax : Array Rat) (s : PSt) (i : Nat) (mv : Rat) (j : Nat)
    (hp : pick (wr s.x i s.next) aj ax (rowIdx ap i) = some (mv, j)) :
    iter ap aj ax s i = ⟨wr (wr s.x i s.next) j s.next, s.y.push i,
      mmErase j (decRow (wr (wr s.x i s.next) j s.next) aj (rowIdx ap j)
        (mmErase i (decRow (wr (wr s.x i s.next) j s.next) aj (rowIdx ap i) s.mm))),
      s.next + 1⟩ := by
  simp only [iter, hp]

theorem iter_inv {n : Nat} (ap aj : Array Nat) (ax : Array Rat) (s : PSt) (i : Nat)
    (hI : PInv n s) (hi : i ∈ nodes s.mm) (hAj : 0 < n → ∀ jj, rd aj jj < n) :
    PInv n (iter ap aj ax s i) ∧ (iter ap aj ax s i).mm.length < s.mm.length := by
  obtain ⟨hin, hxi⟩ := (hI.hmm i).1 hi
  have hnext : 1 ≤ s.next := by have := hI.hy; omega
  have hisz : i < s.x.size := by rw [hI.hx]; exact hin
  cases hp : pick (wr s.x i s.next) aj ax (rowIdx ap i) with
  | none =>
    rw [iter_none ap aj ax s i hp]
    show PInv n ⟨wr s.x i s.next, s.y.push i,
        mmErase i (decRow (wr s.x i s.next) aj (rowIdx ap i) s.mm), s.next + 1⟩ ∧
      (mmErase i (decRow (wr s.x i s.next) aj (rowIdx ap i) s.mm)).length < s.mm.length
    obtain ⟨hd1, hd2⟩ := decRow_spec (wr s.x i s.next) aj (rowIdx ap i) s.mm
    refine ⟨⟨?_, ?_, ?_, ?_⟩, ?_⟩
    · show (wr s.x i s.next).size = n
      rw [size_wr]; exact hI.hx
    · show (s.y.push i).size + 1 = s.next + 1
      rw [Array.size_push, hI.hy]
    · intro v
      show v ∈ nodes (mmErase i (decRow (wr s.x i s.next) aj (rowIdx ap i) s.mm)) ↔
        (v < n ∧ rd (wr s.x i s.next) v = 0)
      rw [mem_nodes_erase, hd1, hI.hmm, rd_wr]
      by_cases hv : v = i
      · rw [if_pos ⟨hv, hisz⟩]
        constructor
        · intro h; exact absurd hv h.2
        · intro h; omega
      · rw [if_neg (fun h => hv h.1)]
        constructor
        · intro h; exact h.1
        · intro h; exact ⟨h, hv⟩
    · have hstep := Pairwise.Step.single (abs s) i hxi
      have e : abs ⟨wr s.x i s.next, s.y.push i,
          mmErase i (decRow (wr s.x i s.next) aj (rowIdx ap i) s.mm), s.next + 1⟩ =
          ⟨fun v => if v = i then (abs s).next else (abs s).x v,
           fun a => if a = (abs s).next - 1 then i else (abs s).y a, (abs s).next + 1⟩ := by
        unfold abs
        congr 1
        · funext v
          show rd (wr s.x i s.next) v = if v = i then s.next else rd s.x v
          rw [rd_wr]
          by_cases hv : v = i
          · rw [if_pos ⟨hv, hisz⟩, if_pos hv]
          · rw [if_neg (fun h => hv h.1), if_neg hv]
        · funext a
          show rd (s.y.push i) a = if a = s.next - 1 then i else rd s.y a
          rw [rd_push]
          have : s.y.size = s.next - 1 := by have := hI.hy; omega
          rw [this]
      rw [e]
      exact Pairwise.Reach.step hI.hreach hstep
    · have := length_erase_lt i _ ((hd1 i).2 hi)
      omega
  | some b =>
    obtain ⟨mv, j⟩ := b
    rw [iter_some ap aj ax s i mv j hp]
    show PInv n ⟨wr (wr s.x i s.next) j s.next, s.y.push i,
        mmErase j (decRow (wr (wr s.x i s.next) j s.next) aj (rowIdx ap j)
          (mmErase i (decRow (wr (wr s.x i s.next) j s.next) aj (rowIdx ap i) s.mm))),
        s.next + 1⟩ ∧
      (mmErase j (decRow (wr (wr s.x i s.next) j s.next) aj (rowIdx ap j)
          (mmErase i (decRow (wr (wr s.x i s.next) j s.next) aj (rowIdx ap i) s.mm)))).length
        < s.mm.length
    obtain ⟨⟨jj, hjj⟩, hj0⟩ := pick_spec _ _ _ _ _ _ hp
    have hjn : j < n := by rw [hjj]; exact hAj (by omega) jj
    rw [rd_wr] at hj0
    have hji : j ≠ i := by
      intro e
      rw [if_pos ⟨e, hisz⟩] at hj0; omega
    rw [if_neg (fun h => hji h.1)] at hj0
    have hjsz : j < (wr s.x i s.next).size := by rw [size_wr, hI.hx]; exact hjn
    have hrd : ∀ v, rd (wr (wr s.x i s.next) j s.next) v =
        if v = i ∨ v = j then s.next else rd s.x v := by
      intro v
      rw [rd_wr, rd_wr]
      by_cases hvj : v = j
      · rw [if_pos ⟨hvj, hjsz⟩, if_pos (Or.inr hvj)]
      · rw [if_neg (fun h => hvj h.1)]
        by_cases hvi : v = i
        · rw [if_pos ⟨hvi, hisz⟩, if_pos (Or.inl hvi)]
        · rw [if_neg (fun h => hvi h.1), if_neg (by rintro (h | h); exact hvi h; exact hvj h)]
    generalize hX : wr (wr s.x i s.next) j s.next = X at hrd ⊢
    obtain ⟨hd1, hd2⟩ := decRow_spec X aj (rowIdx ap i) s.mm
    obtain ⟨he1, he2⟩ := decRow_spec X aj (rowIdx ap j)
      (mmErase i (decRow X aj (rowIdx ap i) s.mm))
    refine ⟨⟨?_, ?_, ?_, ?_⟩, ?_⟩
    · show X.size = n
      rw [← hX, size_wr, size_wr]; exact hI.hx
    · show (s.y.push i).size + 1 = s.next + 1
      rw [Array.size_push, hI.hy]
    · intro v
      show v ∈ nodes (mmErase j (decRow X aj (rowIdx ap j)
          (mmErase i (decRow X aj (rowIdx ap i) s.mm)))) ↔ (v < n ∧ rd X v = 0)
      rw [mem_nodes_erase, he1, mem_nodes_erase, hd1, hI.hmm, hrd]
      by_cases hv : v = i ∨ v = j
      · rw [if_pos hv]
        constructor
        · intro h; rcases hv with hv | hv
          · exact absurd hv h.1.2
          · exact absurd hv h.2
        · intro h; omega
      · rw [if_neg hv]
        constructor
        · intro h; exact h.1.1
        · intro h; exact ⟨⟨h, fun e => hv (Or.inl e)⟩, fun e => hv (Or.inr e)⟩
    · have hstep := Pairwise.Step.pair (abs s) i j hxi hj0 (fun e => hji e.symm)
      have e : abs ⟨X, s.y.push i, mmErase j (decRow X aj (rowIdx ap j)
            (mmErase i (decRow X aj (rowIdx ap i) s.mm))), s.next + 1⟩ =
          ⟨fun v => if v = i ∨ v = j then (abs s).next else (abs s).x v,
           fun a => if a = (abs s).next - 1 then i else (abs s).y a, (abs s).next + 1⟩ := by
        unfold abs
        congr 1
        · funext v
          exact hrd v
        · funext a
          show rd (s.y.push i) a = if a = s.next - 1 then i else rd s.y a
          rw [rd_push]
          have : s.y.size = s.next - 1 := by have := hI.hy; omega
          rw [this]
      rw [e]
      exact Pairwise.Reach.step hI.hreach hstep
    · have h1 := length_erase_lt i _ ((hd1 i).2 hi)
      have h2 := length_erase_le j (decRow X aj (rowIdx ap j)
        (mmErase i (decRow X aj (rowIdx ap i) s.mm)))
      omega

theorem loop_inv {n : Nat} (ap aj : Array Nat) (ax : Array Rat)
    (hAj : 0 < n → ∀ jj, rd aj jj < n) :
    ∀ (f : Nat) (s : PSt), PInv n s → s.mm.length ≤ f →
      PInv n (loop ap aj ax f s) ∧ (loop ap aj ax f s).mm = [] := by
  intro f
  induction f with
  | zero =>
    intro s hI hl
    unfold loop
    exact ⟨hI, List.eq_nil_of_length_eq_zero (by omega)⟩
  | succ f ih =>
    intro s hI hl
    unfold loop
    cases hm : s.mm with
    | nil => exact ⟨hI, hm⟩
    | cons e l =>
      show PInv n (loop ap aj ax f (iter ap aj ax s e.2)) ∧ _
      have hi : e.2 ∈ nodes s.mm := by rw [hm]; simp [nodes]
      obtain ⟨h1, h2⟩ := iter_inv ap aj ax s e.2 hI hi hAj
      exact ih _ h1 (by omega)

/-! ### the initial state -/
theorem initMM_fold (g : Nat → Int) (l : List Nat) (mm : MMap) :
    (∀ v, v ∈ nodes (l.foldl (fun mm i => mmInsert (g i) i mm) mm) ↔ (v ∈ l ∨ v ∈ nodes mm)) ∧
    (l.foldl (fun mm i => mmInsert (g i) i mm) mm).length = l.length + mm.length := by
  induction l generalizing mm with
  | nil => simp
  | cons a l ih =>
    rw [List.foldl_cons]
    obtain ⟨h1, h2⟩ := ih (mmInsert (g a) a mm)
    refine ⟨fun v => ?_, ?_⟩
    · rw [h1, mem_nodes_insert, List.mem_cons]
      constructor
      · rintro (h | h | h) <;> simp [h]
      · rintro ((h | h) | h) <;> simp [h]
    · rw [h2, length_insert, List.length_cons]; omega

theorem init_inv (n : Nat) (ap aj : Array Nat) :
    PInv n (init n ap aj) ∧ (init n ap aj).mm.length = n := by
  obtain ⟨h1, h2⟩ := initMM_fold (fun i => (initM n ap aj).getD i 0) (List.range n) []
  refine ⟨⟨?_, ?_, ?_, ?_⟩, ?_⟩
  · show (Array.replicate n 0).size = n
    simp
  · rfl
  · intro v
    show v ∈ nodes (initMM n (initM n ap aj)) ↔ (v < n ∧ rd (Array.replicate n 0) v = 0)
    unfold initMM
    rw [h1, rd_replicate, List.mem_range]
    simp [nodes]
  · have e : abs (init n ap aj) = ⟨fun _ => 0, fun a => rd #[] a, 1⟩ := by
      unfold abs init
      congr 1
      funext v
      exact rd_replicate n v
    rw [e]
    exact Pairwise.Reach.init _
  · show (initMM n (initM n ap aj)).length = n
    unfold initMM
    rw [h2]; simp

theorem valid_aj {n : Nat} {ap aj : Array Nat} {ax : Array Rat} (h : valid n ap aj ax = true) :
    0 < n → ∀ jj, rd aj jj < n := by
  intro hn jj
  unfold valid at h
  simp only [Bool.and_eq_true] at h
  have hall := h.2
  rw [List.all_eq_true] at hall
  unfold rd
  by_cases hj : jj < aj.size
  · have := hall aj[jj] (by simp)
    simpa [hj] using this
  · simpa [hj] using hn

/-! ### the theorems about the executable model -/

/-- **refinement**: a run of the executable kernel model is a path of `Pairwise.Step` from the
initial state, and it stops only when no node is left unaggregated. -/
theorem pairwise_refines {n : Nat} {ap aj : Array Nat} {ax : Array Rat} {x y : Array Nat} {k : Nat}
    (h : pairwise n ap aj ax = some (x, y, k)) :
    Pairwise.Reach ⟨fun v => rd x v, fun a => rd y a, k + 1⟩ ∧
    (∀ v, v < n → rd x v ≠ 0) ∧ x.size = n ∧ y.size = k := by
  unfold pairwise at h
  by_cases hv : valid n ap aj ax = true
  · rw [if_pos hv] at h
    simp only [Option.some.injEq, Prod.mk.injEq] at h
    obtain ⟨hx, hy, hk⟩ := h
    obtain ⟨hI0, hl0⟩ := init_inv n ap aj
    obtain ⟨hI, hE⟩ := loop_inv ap aj ax (valid_aj hv) n (init n ap aj) hI0 (by omega)
    generalize loop ap aj ax n (init n ap aj) = s at hx hy hk hI hE
    have hn1 : s.next = k + 1 := by have := hI.hy; omega
    refine ⟨?_, ?_, ?_, ?_⟩
    · have := hI.hreach
      unfold abs at this
      rw [hx, hy, hn1] at this
      exact this
    · intro v hvn h0
      have := (hI.hmm v).2 ⟨hvn, by rw [hx]; exact h0⟩
      rw [hE] at this
      simp [nodes] at this
    · rw [← hx]; exact hI.hx
    · rw [← hy]; have := hI.hy; omega
  · rw [if_neg hv] at h
    cases h

/-- **the executable `pairwise_aggregation` model returns a matching-type aggregation**: `x` has one
1-based id per node, all ids lie in `1..k`, `y` has `k` roots, every id `a` in `1..k` is used (by
its root `y[a-1]`, a node `< n`), and the aggregate `a` consists of exactly one or two nodes. -/
theorem pairwise_model_spec {n : Nat} {ap aj : Array Nat} {ax : Array Rat} {x y : Array Nat} {k : Nat}
    (h : pairwise n ap aj ax = some (x, y, k)) :
    x.size = n ∧ y.size = k ∧
    (∀ v, v < n → 1 ≤ rd x v ∧ rd x v ≤ k) ∧
    (∀ a, 1 ≤ a → a ≤ k → rd y (a - 1) < n ∧ rd x (rd y (a - 1)) = a) ∧
    (∀ a, 1 ≤ a → a ≤ k → ∃ i j, i < n ∧ j < n ∧ ∀ v, rd x v = a ↔ (v = i ∨ v = j)) := by
  obtain ⟨hR, hdone, hx, hy⟩ := pairwise_refines h
  obtain ⟨s1, s2, s3⟩ := Pairwise.pairwise_spec (n := n) hR hdone
  have lt_of_ne : ∀ u, rd x u ≠ 0 → u < n := by
    intro u hu
    by_cases hlt : u < n
    · exact hlt
    · exact absurd (rd_ge x u (by omega)) hu
  refine ⟨hx, hy, ?_, ?_, ?_⟩
  · intro v hv
    have := s1 v hv
    have h2 : rd x v < k + 1 := this.2
    exact ⟨this.1, by omega⟩
  · intro a ha1 ha2
    have hr : rd x (rd y (a - 1)) = a := s3 a ha1 (show a < k + 1 by omega)
    exact ⟨lt_of_ne _ (by omega), hr⟩
  · intro a ha1 ha2
    obtain ⟨i, j, hij⟩ := s2 a ha1 (show a < k + 1 by omega)
    have hi : rd x i = a := (hij i).2 (Or.inl rfl)
    have hj : rd x j = a := (hij j).2 (Or.inr rfl)
    exact ⟨i, j, lt_of_ne i (by omega), lt_of_ne j (by omega), hij⟩

/-- the model rejects exactly the index arrays on which the kernel would read out of bounds;
on every other input it returns (the fuel `n` is never exhausted: `pairwise_refines`). -/
theorem pairwise_isSome_iff (n : Nat) (ap aj : Array Nat) (ax : Array Rat) :
    (pairwise n ap aj ax).isSome ↔ valid n ap aj ax = true := by
  unfold pairwise
  by_cases hv : valid n ap aj ax = true
  · rw [if_pos hv]; simp [hv]
  · rw [if_neg hv]; simp [hv]

/-! ### composition of matchings (`T = T1 @ T2 @ ...`) -/

/-- every aggregate of the assignment map `f` on the nodes `0..n-1` has at most `c` nodes -/
def FiberLe (n : Nat) (f : Nat → Nat) (c : Nat) : Prop :=
  ∀ a, ((Finset.range n).filter (fun v => f v = a)).card ≤ c

/-- it suffices to bound the aggregates with an id in the range of the map -/
theorem fiberLe_of_bounded {n n' c : Nat} {f : Nat → Nat} (hmap : ∀ v, v < n → f v < n')
    (h : ∀ a, a < n' → ((Finset.range n).filter (fun v => f v = a)).card ≤ c) : FiberLe n f c := by
  intro a
  by_cases ha : a < n'
  · exact h a ha
  · refine Nat.le_trans (Nat.le_of_eq ?_) (Nat.zero_le c)
    rw [Finset.card_eq_zero, Finset.filter_eq_empty_iff]
    intro v hv e
    rw [Finset.mem_range] at hv
    have := hmap v hv
    omega

theorem fiberLe_comp {n n' c d : Nat} {f g : Nat → Nat} (hf : FiberLe n f c)
    (hmap : ∀ v, v < n → f v < n') (hg : FiberLe n' g d) : FiberLe n (g ∘ f) (c * d) := by
  intro a
  have h1 := Finset.card_le_mul_card_image_of_maps_to
    (s := (Finset.range n).filter (fun v => (g ∘ f) v = a))
    (t := (Finset.range n').filter (fun b => g b = a)) (f := f)
    (by
      intro v hv
      rw [Finset.mem_filter, Finset.mem_range] at hv
      rw [Finset.mem_filter, Finset.mem_range]
      exact ⟨hmap v hv.1, hv.2⟩)
    c
    (by
      intro b _
      refine Nat.le_trans (Finset.card_le_card ?_) (hf b)
      intro v hv
      rw [Finset.mem_filter, Finset.mem_filter] at hv
      rw [Finset.mem_filter]
      exact ⟨hv.1.1, hv.2⟩)
  exact Nat.le_trans h1 (Nat.mul_le_mul_left c (hg a))

/-- the composed assignment map of a list of matchings, first matching first -/
def composeAll : List (Nat → Nat) → Nat → Nat
  | [] => id
  | f :: fs => composeAll fs ∘ f

/-- a chain of matchings: `f` maps the `n` nodes of one level into the `n'` nodes (= aggregates) of
the next, with aggregates of at most two nodes -/
inductive MatchChain : Nat → List (Nat → Nat) → Prop
  | nil (n : Nat) : MatchChain n []
  | cons {n n' : Nat} {f : Nat → Nat} {fs : List (Nat → Nat)} :
      (∀ v, v < n → f v < n') → FiberLe n f 2 → MatchChain n' fs → MatchChain n (f :: fs)

/-- **composition**: the aggregates of `m` composed matchings have at most `2^m` nodes. -/
theorem matchChain_fiber {n : Nat} {fs : List (Nat → Nat)} (h : MatchChain n fs) :
    FiberLe n (composeAll fs) (2 ^ fs.length) := by
  induction h with
  | nil n =>
    intro a
    show ((Finset.range n).filter (fun v => v = a)).card ≤ 1
    refine Nat.le_trans (Finset.card_le_card (t := {a}) ?_) (by simp)
    intro v hv
    rw [Finset.mem_filter] at hv
    rw [Finset.mem_singleton]; exact hv.2
  | cons hmap hf _ ih =>
    have := fiberLe_comp hf hmap ih
    rw [List.length_cons, Nat.pow_succ, Nat.mul_comm]
    exact this

/-- the 0-based assignment map `Tj = x - 1` of one kernel-model run is a link of a `MatchChain`:
it maps the `n` nodes into `0..k-1` and every aggregate has at most two nodes. -/
theorem pairwise_model_link {n : Nat} {ap aj : Array Nat} {ax : Array Rat} {x y : Array Nat} {k : Nat}
    (h : pairwise n ap aj ax = some (x, y, k)) :
    (∀ v, v < n → rd x v - 1 < k) ∧ FiberLe n (fun v => rd x v - 1) 2 := by
  obtain ⟨_, _, s1, _, s3⟩ := pairwise_model_spec h
  refine ⟨fun v hv => by have := s1 v hv; omega, ?_⟩
  intro a
  by_cases hak : a + 1 ≤ k
  · obtain ⟨i, j, _, _, hij⟩ := s3 (a + 1) (by omega) hak
    refine Nat.le_trans (Finset.card_le_card (t := {i, j}) ?_) Finset.card_le_two
    intro v hv
    rw [Finset.mem_filter, Finset.mem_range] at hv
    have := s1 v hv.1
    have hv2 : rd x v - 1 = a := hv.2
    have hxa : rd x v = a + 1 := by omega
    rw [Finset.mem_insert, Finset.mem_singleton]
    exact (hij v).1 hxa
  · refine Nat.le_trans (Nat.le_of_eq ?_) (Nat.zero_le 2)
    rw [Finset.card_eq_zero, Finset.filter_eq_empty_iff]
    intro v hv
    rw [Finset.mem_range] at hv
    have := s1 v hv
    show ¬ (rd x v - 1 = a)
    omega

end PyamgV.ExtPw
