import PyamgV.Proofs.ExtC07CForm
import Mathlib.LinearAlgebra.Matrix.ConjTranspose
import Mathlib.LinearAlgebra.Matrix.Notation
import Mathlib.Data.Matrix.Mul
import Mathlib.Algebra.BigOperators.Fin
import Mathlib.Algebra.Module.BigOperators
import Mathlib.LinearAlgebra.Finsupp.LinearCombination

/-! PyamgV (extension E37, property C07): the **least-squares characterisation of GMRES / FGMRES in the Hermitian
setting** (complex counterpart of `Proofs/Gmres.lean`).

* `gmres_petrov` / `gmres_optimal` -- Arnoldi relation `B z_j = Σ_l H_{lj} v_l` + `v_0 … v_k` orthonormal for the
  Hermitian form + *normal equations* `Hᴴ(β e₀ − H y) = 0` of the small problem ⇒ the residual of
  `x₀ + Σ y_j z_j` is orthogonal to `B·span{z_j}`, hence (`petrov_optimal`) its norm is minimal over
  `x₀ + span_K{z_j}`.  (`B = M A`, `z = v` for left-preconditioned GMRES; `B = A`, `z_j = M_j v_j` for FGMRES.)
* `qr_normal_eq` -- what the complex Givens sweep establishes: a *unitary* `Q` (`Qᴴ Q = 1`) bringing the
  `(k+1) × k` Hessenberg matrix to a form with zero last row, and `y` solving the remaining system, give the
  normal equations.
* `gmres_optimal_of_qr` -- both joined.

The executable GMRES models of the framework run in binary64 on real data only (`CRat` has no square root), so the
complex case is delivered at this algorithmic level. -/
namespace PyamgV.CHerm.CGmres
open PyamgV.CHerm

variable {K F V : Type*} [Field K] [StarRing K] [Field F] [LinearOrder F] [IsStrictOrderedRing F]
  [AddCommGroup V] [Module K V]

/-- Arnoldi data after `k` steps: `v_0..v_k` orthonormal for the Hermitian form, `B z_j = Σ_l H l j • v_l` -/
structure Arnoldi (E : HForm K F V) (B : V →ₗ[K] V) (k : Nat) where
  v : Fin (k+1) → V
  z : Fin k → V
  H : Matrix (Fin (k+1)) (Fin k) K
  orth : ∀ i j, E.h (v i) (v j) = if i = j then 1 else 0
  rel : ∀ j, B (z j) = ∑ l, H l j • v l

variable {E : HForm K F V} {B : V →ₗ[K] V} {k : Nat}

/-- coefficient vector of the residual in the basis `v`: `β e₀ − H y` -/
def rho (Ar : Arnoldi E B k) (β : K) (y : Fin k → K) : Fin (k+1) → K :=
  fun l => (if l = 0 then β else 0) - ∑ j, Ar.H l j * y j

theorem resid_expand (Ar : Arnoldi E B k) (β : K) (y : Fin k → K) (r0 : V)
    (hr0 : r0 = β • Ar.v 0) :
    r0 - B (∑ j, y j • Ar.z j) = ∑ l, rho Ar β y l • Ar.v l := by
  unfold rho
  simp only [sub_smul, Finset.sum_sub_distrib]
  congr 1
  · rw [hr0]
    simp [Finset.sum_ite_eq', ite_smul]
  · rw [map_sum]
    simp only [map_smul, Ar.rel, Finset.smul_sum, smul_smul]
    rw [Finset.sum_comm]
    refine Finset.sum_congr rfl (fun l _ => ?_)
    rw [Finset.sum_smul]
    refine Finset.sum_congr rfl (fun j _ => ?_)
    rw [mul_comm]

/-- `⟨Σ c_l v_l, B z_j⟩ = Σ_l conj(c_l) H_{lj}` -/
theorem inner_expand (Ar : Arnoldi E B k) (c : Fin (k+1) → K) (j : Fin k) :
    E.h (∑ l, c l • Ar.v l) (B (Ar.z j)) = ∑ l, star (c l) * Ar.H l j := by
  rw [Ar.rel, E.sum_left]
  refine Finset.sum_congr rfl (fun l _ => ?_)
  rw [E.smul_left, E.sum_right]
  congr 1
  rw [Finset.sum_eq_single l]
  · rw [E.smul_right, Ar.orth, if_pos rfl, mul_one]
  · intro m _ hm
    rw [E.smul_right, Ar.orth, if_neg (Ne.symm hm), mul_zero]
  · intro h; exact absurd (Finset.mem_univ l) h

/-- **normal equations `Hᴴ (β e₀ − H y) = 0` ⇒ Petrov-Galerkin condition** -/
theorem gmres_petrov (Ar : Arnoldi E B k) (β : K) (y : Fin k → K) (r0 : V)
    (hr0 : r0 = β • Ar.v 0)
    (hne : ∀ j, ∑ l, star (Ar.H l j) * rho Ar β y l = 0) :
    ∀ j, E.h (r0 - B (∑ j, y j • Ar.z j)) (B (Ar.z j)) = 0 := by
  intro j
  rw [resid_expand Ar β y r0 hr0, inner_expand]
  have := congrArg star (hne j)
  rw [star_sum, star_zero] at this
  rw [← this]
  refine Finset.sum_congr rfl (fun l _ => ?_)
  rw [star_mul, star_star]

/-- residual optimality of the GMRES iterate `x₀ + Σ y_j z_j` over `x₀ + span_K{z_j}` for the (preconditioned)
system `B x = c`, `r₀ = c − B x₀`, Hermitian setting -/
theorem gmres_optimal (Ar : Arnoldi E B k) (β : K) (y : Fin k → K) (c x0 : V)
    (hr0 : c - B x0 = β • Ar.v 0)
    (hne : ∀ j, ∑ l, star (Ar.H l j) * rho Ar β y l = 0) :
    ∀ x', x' - x0 ∈ Submodule.span K (Set.range Ar.z) →
      E.en (c - B (x0 + ∑ j, y j • Ar.z j)) ≤ E.en (c - B x') := by
  apply petrov_optimal E B c x0 _ (Submodule.span K (Set.range Ar.z))
  · have : x0 + ∑ j, y j • Ar.z j - x0 = ∑ j, y j • Ar.z j := by abel
    rw [this]
    exact Submodule.sum_mem _ (fun j _ => Submodule.smul_mem _ _
      (Submodule.subset_span ⟨j, rfl⟩))
  · apply petrov_of_span
    rintro w ⟨j, rfl⟩
    have h := gmres_petrov Ar β y (c - B x0) hr0 hne j
    have : c - B (x0 + ∑ j, y j • Ar.z j) = c - B x0 - B (∑ j, y j • Ar.z j) := by
      rw [map_add]; abel
    rw [this]; exact h

/-! ### what the (complex) Givens sweep provides -/

open Matrix

/-- If `Qᴴ Q = 1`, the last row of `Q H` vanishes, and `y` solves the remaining system
`(Q H)_{top} y = (Q g)_{top}`, then `Hᴴ (g − H y) = 0`. -/
theorem qr_normal_eq (H : Matrix (Fin (k+1)) (Fin k) K) (Q : Matrix (Fin (k+1)) (Fin (k+1)) K)
    (g : Fin (k+1) → K) (y : Fin k → K)
    (hQ : Qᴴ * Q = 1)
    (hlast : ∀ j, (Q * H) (Fin.last k) j = 0)
    (hsolve : ∀ i : Fin k, ((Q * H) *ᵥ y) i.castSucc = (Q *ᵥ g) i.castSucc) :
    Hᴴ *ᵥ (g - H *ᵥ y) = 0 := by
  have h1 : Hᴴ *ᵥ (g - H *ᵥ y) = (Q * H)ᴴ *ᵥ (Q *ᵥ (g - H *ᵥ y)) := by
    rw [Matrix.conjTranspose_mul, Matrix.mulVec_mulVec, Matrix.mul_assoc, hQ, Matrix.mul_one]
  rw [h1]
  have h2 : Q *ᵥ (g - H *ᵥ y) = Q *ᵥ g - (Q * H) *ᵥ y := by
    rw [Matrix.mulVec_sub, Matrix.mulVec_mulVec]
  rw [h2]
  funext j
  simp only [Matrix.mulVec, dotProduct, Matrix.conjTranspose_apply, Pi.zero_apply, Pi.sub_apply]
  rw [Fin.sum_univ_castSucc]
  have htop : ∀ i : Fin k, star ((Q * H) i.castSucc j) *
      ((Q *ᵥ g) i.castSucc - ((Q * H) *ᵥ y) i.castSucc) = 0 := by
    intro i; rw [hsolve i]; ring
  have hbot : (Q * H) (Fin.last k) j = 0 := hlast j
  simp only [Matrix.mulVec, dotProduct] at htop
  rw [Finset.sum_eq_zero (fun i _ => htop i), hbot, star_zero]
  ring

/-- the two pieces joined: the iterate computed from a unitary triangularisation of the Hessenberg matrix is
residual-optimal over `x₀ + span_K{z_j}` -/
theorem gmres_optimal_of_qr (Ar : Arnoldi E B k) (β : K) (y : Fin k → K) (c x0 : V)
    (hr0 : c - B x0 = β • Ar.v 0)
    (Q : Matrix (Fin (k+1)) (Fin (k+1)) K) (hQ : Qᴴ * Q = 1)
    (hlast : ∀ j, (Q * Ar.H) (Fin.last k) j = 0)
    (hsolve : ∀ i : Fin k, ((Q * Ar.H) *ᵥ y) i.castSucc =
      (Q *ᵥ (fun l => if l = 0 then β else 0)) i.castSucc) :
    ∀ x', x' - x0 ∈ Submodule.span K (Set.range Ar.z) →
      E.en (c - B (x0 + ∑ j, y j • Ar.z j)) ≤ E.en (c - B x') := by
  apply gmres_optimal Ar β y c x0 hr0
  intro j
  have h := qr_normal_eq Ar.H Q (fun l => if l = 0 then β else 0) y hQ hlast hsolve
  have hj := congrFun h j
  simp only [Matrix.mulVec, dotProduct, Matrix.conjTranspose_apply, Pi.sub_apply,
    Pi.zero_apply] at hj
  rw [← hj]
  rfl

/-- the residual norm in coordinates: `‖c − B(x₀ + Σ y_j z_j)‖² = re Σ_l conj(ρ_l) ρ_l` with `ρ = β e₀ − H y`
(the small least-squares functional GMRES minimises) -/
theorem resid_norm_coords (Ar : Arnoldi E B k) (β : K) (y : Fin k → K) (c x0 : V)
    (hr0 : c - B x0 = β • Ar.v 0) :
    E.en (c - B (x0 + ∑ j, y j • Ar.z j)) = E.re (∑ l, star (rho Ar β y l) * rho Ar β y l) := by
  have : c - B (x0 + ∑ j, y j • Ar.z j) = c - B x0 - B (∑ j, y j • Ar.z j) := by
    rw [map_add]; abel
  rw [this, resid_expand Ar β y _ hr0]
  unfold HForm.en
  congr 1
  rw [E.sum_left]
  refine Finset.sum_congr rfl (fun l _ => ?_)
  rw [E.smul_left, E.sum_right]
  congr 1
  rw [Finset.sum_eq_single l]
  · rw [E.smul_right, Ar.orth, if_pos rfl, mul_one]
  · intro m _ hm
    rw [E.smul_right, Ar.orth, if_neg (Ne.symm hm), mul_zero]
  · intro h; exact absurd (Finset.mem_univ l) h


/-- **least-squares characterisation**: a coefficient vector `y` minimising the small functional
`‖β e₀ − H y‖²` over `Kᵏ` gives the iterate of smallest residual norm over `x₀ + span_K{z_j}` -/
theorem gmres_optimal_of_lsq (Ar : Arnoldi E B k) (β : K) (y : Fin k → K) (c x0 : V)
    (hr0 : c - B x0 = β • Ar.v 0)
    (hmin : ∀ y' : Fin k → K, E.re (∑ l, star (rho Ar β y l) * rho Ar β y l) ≤
      E.re (∑ l, star (rho Ar β y' l) * rho Ar β y' l)) :
    ∀ x', x' - x0 ∈ Submodule.span K (Set.range Ar.z) →
      E.en (c - B (x0 + ∑ j, y j • Ar.z j)) ≤ E.en (c - B x') := by
  intro x' hx'
  obtain ⟨y', hy'⟩ := (Submodule.mem_span_range_iff_exists_fun K).mp hx'
  have : x' = x0 + ∑ j, y' j • Ar.z j := by rw [hy']; abel
  rw [this, resid_norm_coords Ar β y c x0 hr0, resid_norm_coords Ar β y' c x0 hr0]
  exact hmin y'

#print axioms gmres_optimal
#print axioms gmres_optimal_of_lsq
#print axioms qr_normal_eq
#print axioms gmres_optimal_of_qr
#print axioms resid_norm_coords
end PyamgV.CHerm.CGmres
