import PyamgV.Proofs.ExtC07CForm

/-! PyamgV (extension E37, property C07): **preconditioned conjugate gradients in the Hermitian setting** -- the
recurrences of `pyamg/krylov/_cg.py` (`z = M r`, `rz = ⟨r, z⟩`, `α = rz / ⟨A p, p⟩`, `p = z + β p`) over a field
with involution and a Hermitian form `E` (`Proofs/ExtC07CForm.lean`), `A`, `M` Hermitian, `A` positive definite.
The step lengths `α`, `β` are fixed by the involution (`alpha_star`, `beta_star`), the residuals are `M`-orthogonal,
the directions `A`-conjugate (`pInv_succ`), hence the `k`-th iterate minimises the energy norm
`re ⟨A(x* − x), x* − x⟩` of the error over `x₀ + span_K{p_0 … p_{k-1}}` (`cpcg_optimal`; the span is the *complex*
one) and that span is the Krylov space `K_k(MA, M r₀)` (`dirs_eq_kry`, `cpcg_optimal_krylov`).  This is the complex
counterpart of `Proofs/PCG.lean`; with `K = F`, `star = id`, `re = id` it specialises to it. -/
namespace PyamgV.CHerm
namespace CPCG

variable {K F V : Type*} [Field K] [StarRing K] [Field F] [LinearOrder F] [IsStrictOrderedRing F]
  [AddCommGroup V] [Module K V]

structure St (K V : Type*) where
  x : V
  r : V
  p : V
  rz : K

/-- one pass of the `while True:` body of `_cg.py` (steps 3–8) -/
def step (A M : V →ₗ[K] V) (E : HForm K F V) (s : St K V) : St K V :=
  let Ap := A s.p
  let pAp := E.h Ap s.p
  let alpha := s.rz / pAp
  let x' := s.x + alpha • s.p
  let r' := s.r - alpha • Ap
  let z' := M r'
  let rz' := E.h r' z'
  let beta := rz' / s.rz
  ⟨x', r', z' + beta • s.p, rz'⟩

def init (A M : V →ₗ[K] V) (E : HForm K F V) (b x0 : V) : St K V :=
  let r := b - A x0
  ⟨x0, r, M r, E.h r (M r)⟩

def seq (A M : V →ₗ[K] V) (E : HForm K F V) (b x0 : V) : Nat → St K V
  | 0 => init A M E b x0
  | k+1 => step A M E (seq A M E b x0 k)

/-- hypotheses: `A` and `M` Hermitian for the form `E`, `A` positive definite -/
structure Hyp (A M : V →ₗ[K] V) (E : HForm K F V) : Prop where
  symA : ∀ u v, E.h (A u) v = E.h u (A v)
  symM : ∀ u v, E.h (M u) v = E.h u (M v)
  pd : ∀ v, E.h (A v) v = 0 → v = 0
  psd : ∀ v, 0 ≤ E.re (E.h (A v) v)

section
variable (A M : V →ₗ[K] V) (E : HForm K F V) (b x0 : V)

local notation "S" => seq A M E b x0

structure PInv (k : Nat) : Prop where
  res : ∀ j, j ≤ k → (S j).r = b - A (S j).x
  rp : ∀ i j, j < i → i ≤ k → E.h (S i).r (S j).p = 0
  pp : ∀ i j, j < i → i ≤ k → E.h (A (S i).p) (S j).p = 0
  rr : ∀ i j, j < i → i ≤ k → E.h (S i).r (M (S j).r) = 0
  rpk : ∀ j, j ≤ k → E.h (S j).r (S j).p = (S j).rz

theorem pInv_zero : PInv A M E b x0 0 := by
  refine ⟨?_, ?_, ?_, ?_, ?_⟩
  · intro j hj; have : j = 0 := by omega
    subst this; simp [seq, init]
  · intro i j h1 h2; omega
  · intro i j h1 h2; omega
  · intro i j h1 h2; omega
  · intro j hj; have : j = 0 := by omega
    subst this; simp [seq, init]

def alpha (j : Nat) : K := (S j).rz / E.h (A (S j).p) (S j).p
def beta (j : Nat) : K := (S (j+1)).rz / (S j).rz

theorem x_succ (j : Nat) : (S (j+1)).x = (S j).x + alpha A M E b x0 j • (S j).p := rfl
theorem r_succ (j : Nat) : (S (j+1)).r = (S j).r - alpha A M E b x0 j • A (S j).p := rfl
theorem rz_succ (j : Nat) : (S (j+1)).rz = E.h (S (j+1)).r (M (S (j+1)).r) := rfl
theorem p_succ (j : Nat) :
    (S (j+1)).p = M (S (j+1)).r + beta A M E b x0 j • (S j).p := rfl
theorem p_zero : (S 0).p = M (S 0).r := rfl

/-- `rz_j = ⟨r_j, M r_j⟩` in every state -/
theorem rz_eq (j : Nat) : (S j).rz = E.h (S j).r (M (S j).r) := by
  cases j with
  | zero => rfl
  | succ m => rfl

def NoBreak (k : Nat) : Prop := ∀ j, j ≤ k → (S j).rz ≠ 0

/-- the energy "norm" `re ⟨A v, v⟩` -/
def enA (v : V) : F := E.re (E.h (A v) v)

def dirs (k : Nat) : Submodule K V :=
  Submodule.span K {v | ∃ j, j < k ∧ v = (S j).p}

/-- `K_k(MA, M r₀)` (span over `K`) -/
def kry (k : Nat) : Submodule K V :=
  Submodule.span K {v | ∃ j, j < k ∧ v = ((M ∘ₗ A) ^ j) (M (S 0).r)}

variable {A M E b x0}

/-- `rz`, `⟨A p, p⟩`, hence `α` and `β`, are fixed by the involution ("real") -/
theorem rz_star (hA : Hyp A M E) (j : Nat) : star (S j).rz = (S j).rz := by
  rw [rz_eq]; exact E.herm_star' hA.symM _
theorem pAp_star (hA : Hyp A M E) (j : Nat) :
    star (E.h (A (S j).p) (S j).p) = E.h (A (S j).p) (S j).p := E.herm_star hA.symA _
theorem alpha_star (hA : Hyp A M E) (j : Nat) : star (alpha A M E b x0 j) = alpha A M E b x0 j :=
  star_div_of_real (rz_star hA j) (pAp_star hA j)
theorem beta_star (hA : Hyp A M E) (j : Nat) : star (beta A M E b x0 j) = beta A M E b x0 j :=
  star_div_of_real (rz_star hA (j+1)) (rz_star hA j)

theorem pAp_ne (hA : Hyp A M E) {k : Nat} (hI : PInv A M E b x0 k) (hnb : NoBreak A M E b x0 k)
    (j : Nat) (hj : j ≤ k) : E.h (A (S j).p) (S j).p ≠ 0 := by
  intro h
  have hp : (S j).p = 0 := hA.pd _ h
  have := hI.rpk j hj
  rw [hp] at this
  simp at this
  exact hnb j hj this.symm

theorem alpha_ne (hA : Hyp A M E) {k : Nat} (hI : PInv A M E b x0 k)
    (hnb : NoBreak A M E b x0 k) (j : Nat) (hj : j ≤ k) : alpha A M E b x0 j ≠ 0 := by
  unfold alpha
  exact div_ne_zero (hnb j hj) (pAp_ne hA hI hnb j hj)

theorem Ap_eq (hA : Hyp A M E) {k : Nat} (hI : PInv A M E b x0 k) (hnb : NoBreak A M E b x0 k)
    (j : Nat) (hj : j ≤ k) :
    A (S j).p = (alpha A M E b x0 j)⁻¹ • ((S j).r - (S (j+1)).r) := by
  have ha := alpha_ne hA hI hnb j hj
  rw [r_succ]
  simp only [sub_sub_cancel]
  rw [smul_smul, inv_mul_cancel₀ ha, one_smul]

/-- `M r_j` as a combination of directions -/
theorem Mr_eq (j : Nat) :
    M (S (j+1)).r = (S (j+1)).p - beta A M E b x0 j • (S j).p := by
  rw [p_succ]; abel

theorem pInv_succ (hA : Hyp A M E) {k : Nat} (hI : PInv A M E b x0 k)
    (hnb : NoBreak A M E b x0 k) : PInv A M E b x0 (k+1) := by
  have hpAp := pAp_ne hA hI hnb k (le_refl k)
  have hrz := hnb k (le_refl k)
  have hrp : ∀ j, j ≤ k → E.h (S (k+1)).r (S j).p = 0 := by
    intro j hj
    rw [r_succ, E.sub_left, E.smul_left, alpha_star hA]
    by_cases hjk : j = k
    · subst hjk
      rw [hI.rpk j (le_refl j)]
      unfold alpha
      rw [div_mul_cancel₀ _ hpAp, sub_self]
    · have hlt : j < k := by omega
      rw [hI.rp k j hlt (le_refl k), hI.pp k j hlt (le_refl k)]; ring
  have hrMr : ∀ j, j ≤ k → E.h (S (k+1)).r (M (S j).r) = 0 := by
    intro j hj
    cases j with
    | zero => rw [← p_zero]; exact hrp 0 hj
    | succ m =>
      rw [Mr_eq, E.sub_right, E.smul_right, hrp (m+1) hj, hrp m (by omega)]; ring
  refine ⟨?_, ?_, ?_, ?_, ?_⟩
  · intro j hj
    by_cases hjk : j = k+1
    · subst hjk
      rw [r_succ, x_succ, hI.res k (le_refl k)]
      simp only [map_add, map_smul]; abel
    · exact hI.res j (by omega)
  · intro i j h1 h2
    by_cases hik : i = k+1
    · subst hik; exact hrp j (by omega)
    · exact hI.rp i j h1 (by omega)
  · intro i j h1 h2
    by_cases hik : i = k+1
    · subst hik
      have hj : j ≤ k := by omega
      rw [p_succ]
      simp only [map_add, map_smul]
      rw [E.add_left, E.smul_left, beta_star hA, hA.symA (M (S (k+1)).r) (S j).p, Ap_eq hA hI hnb j hj,
        E.smul_right, E.sub_right, hA.symM (S (k+1)).r (S j).r, hA.symM (S (k+1)).r (S (j+1)).r]
      by_cases hjk : j = k
      · subst hjk
        rw [hrMr j (le_refl j), ← rz_succ]
        have ha := alpha_ne hA hI hnb j (le_refl j)
        unfold beta alpha at *
        field_simp
        ring
      · have hlt : j < k := by omega
        rw [hrMr j hj, hrMr (j+1) (by omega), hI.pp k j hlt (le_refl k)]; ring
    · exact hI.pp i j h1 (by omega)
  · intro i j h1 h2
    by_cases hik : i = k+1
    · subst hik; exact hrMr j (by omega)
    · exact hI.rr i j h1 (by omega)
  · intro j hj
    by_cases hjk : j = k+1
    · subst hjk
      rw [p_succ, E.add_right, E.smul_right, hrp k (le_refl k), ← rz_succ]; ring
    · exact hI.rpk j (by omega)

theorem pInv_all (hA : Hyp A M E) : ∀ k, NoBreak A M E b x0 k → PInv A M E b x0 (k+1) := by
  intro k
  induction k with
  | zero => intro h; exact pInv_succ hA (pInv_zero A M E b x0) h
  | succ k ih =>
    intro h
    exact pInv_succ hA (ih (fun j hj => h j (by omega))) h

theorem pInv_of (hA : Hyp A M E) (k : Nat) (hnb : ∀ j, j < k → (S j).rz ≠ 0) :
    PInv A M E b x0 k := by
  cases k with
  | zero => exact pInv_zero A M E b x0
  | succ m => exact pInv_all hA m (fun j hj => hnb j (by omega))

theorem dirs_mono {k m : Nat} (h : k ≤ m) : dirs A M E b x0 k ≤ dirs A M E b x0 m := by
  refine Submodule.span_mono ?_
  rintro v ⟨j, hj, rfl⟩; exact ⟨j, by omega, rfl⟩

theorem kry_mono {k m : Nat} (h : k ≤ m) : kry A M E b x0 k ≤ kry A M E b x0 m := by
  refine Submodule.span_mono ?_
  rintro v ⟨j, hj, rfl⟩; exact ⟨j, by omega, rfl⟩

theorem x_mem (k : Nat) : (S k).x - x0 ∈ dirs A M E b x0 k := by
  induction k with
  | zero => simp [seq, init]
  | succ k ih =>
    rw [x_succ]
    have h1 : (S k).x - x0 ∈ dirs A M E b x0 (k+1) := dirs_mono (by omega) ih
    have h2 : alpha A M E b x0 k • (S k).p ∈ dirs A M E b x0 (k+1) :=
      Submodule.smul_mem _ _ (Submodule.subset_span ⟨k, by omega, rfl⟩)
    have : (S k).x + alpha A M E b x0 k • (S k).p - x0 =
        ((S k).x - x0) + alpha A M E b x0 k • (S k).p := by abel
    rw [this]; exact Submodule.add_mem _ h1 h2

/-- the error of iterate `k` is `A`-orthogonal to the span of the first `k` directions -/
theorem err_orth (hA : Hyp A M E) (xs : V) (hxs : A xs = b) (k : Nat)
    (hnb : ∀ j, j < k → (S j).rz ≠ 0) :
    ∀ v ∈ dirs A M E b x0 k, E.h (A (xs - (S k).x)) v = 0 := by
  have hI := pInv_of (b := b) (x0 := x0) hA k hnb
  have hr : A (xs - (S k).x) = (S k).r := by
    rw [map_sub, hxs, hI.res k (le_refl k)]
  rw [hr]
  apply E.orth_span
  rintro w ⟨j, hj, rfl⟩
  exact hI.rp k j hj (le_refl k)

/-- **PCG optimality over the (complex) span of its directions** -/
theorem cpcg_optimal (hA : Hyp A M E) (xs : V) (hxs : A xs = b) (k : Nat)
    (hnb : ∀ j, j < k → (S j).rz ≠ 0) :
    (S k).x - x0 ∈ dirs A M E b x0 k ∧
    ∀ y, y - x0 ∈ dirs A M E b x0 k → enA A E (xs - (S k).x) ≤ enA A E (xs - y) :=
  ⟨x_mem k, (E.aForm A hA.symA hA.psd).proj_optimal xs x0 (S k).x (dirs A M E b x0 k) (x_mem k)
    (err_orth hA xs hxs k hnb)⟩

/-! ### the directions span `K_k(MA, M r₀)` -/

theorem MA_kry {k : Nat} {v : V} (hv : v ∈ kry A M E b x0 k) :
    M (A v) ∈ kry A M E b x0 (k+1) := by
  induction hv using Submodule.span_induction with
  | mem w hw =>
    obtain ⟨j, hj, rfl⟩ := hw
    refine Submodule.subset_span ⟨j+1, by omega, ?_⟩
    rw [pow_succ']; rfl
  | zero => simp
  | add u w _ _ hu hw => rw [map_add, map_add]; exact Submodule.add_mem _ hu hw
  | smul c u _ hu => rw [map_smul, map_smul]; exact Submodule.smul_mem _ _ hu

theorem zp_mem_kry (j : Nat) :
    M (S j).r ∈ kry A M E b x0 (j+1) ∧ (S j).p ∈ kry A M E b x0 (j+1) := by
  induction j with
  | zero =>
    have h0 : M (S 0).r ∈ kry A M E b x0 1 :=
      Submodule.subset_span ⟨0, by omega, by simp⟩
    exact ⟨h0, h0⟩
  | succ j ih =>
    have hr : M (S (j+1)).r ∈ kry A M E b x0 (j+2) := by
      rw [r_succ, map_sub, map_smul]
      exact Submodule.sub_mem _ (kry_mono (by omega) ih.1)
        (Submodule.smul_mem _ _ (MA_kry ih.2))
    refine ⟨hr, ?_⟩
    rw [p_succ]
    exact Submodule.add_mem _ hr (Submodule.smul_mem _ _ (kry_mono (by omega) ih.2))

theorem dirs_le_kry (k : Nat) : dirs A M E b x0 k ≤ kry A M E b x0 k := by
  refine Submodule.span_le.mpr ?_
  rintro v ⟨j, hj, rfl⟩
  exact kry_mono (by omega) (zp_mem_kry j).2

theorem Mr_mem_dirs (j : Nat) : M (S j).r ∈ dirs A M E b x0 (j+1) := by
  cases j with
  | zero => exact Submodule.subset_span ⟨0, by omega, rfl⟩
  | succ m =>
    rw [Mr_eq]
    exact Submodule.sub_mem _ (Submodule.subset_span ⟨m+1, by omega, rfl⟩)
      (Submodule.smul_mem _ _ (Submodule.subset_span ⟨m, by omega, rfl⟩))

theorem MA_dirs (hA : Hyp A M E) {k : Nat} (hI : PInv A M E b x0 k)
    (hnb : NoBreak A M E b x0 k) {m : Nat} (hm : m ≤ k + 1) {v : V}
    (hv : v ∈ dirs A M E b x0 m) : M (A v) ∈ dirs A M E b x0 (m+1) := by
  induction hv using Submodule.span_induction with
  | mem w hw =>
    obtain ⟨j, hj, rfl⟩ := hw
    rw [Ap_eq hA hI hnb j (by omega), map_smul, map_sub]
    refine Submodule.smul_mem _ _ (Submodule.sub_mem _ ?_ ?_)
    · exact dirs_mono (by omega) (Mr_mem_dirs j)
    · exact dirs_mono (by omega) (Mr_mem_dirs (j+1))
  | zero => simp
  | add u w _ _ hu hw => rw [map_add, map_add]; exact Submodule.add_mem _ hu hw
  | smul c u _ hu => rw [map_smul, map_smul]; exact Submodule.smul_mem _ _ hu

theorem pow_mem_dirs (hA : Hyp A M E) :
    ∀ j, (∀ i, i < j → (S i).rz ≠ 0) →
      ((M ∘ₗ A) ^ j) (M (S 0).r) ∈ dirs A M E b x0 (j+1) := by
  intro j
  induction j with
  | zero =>
    intro _
    simpa using (Mr_mem_dirs (A := A) (M := M) (E := E) (b := b) (x0 := x0) 0)
  | succ j ih =>
    intro hnb
    have hprev := ih (fun i hi => hnb i (by omega))
    have hI := pInv_of (b := b) (x0 := x0) hA j (fun i hi => hnb i (by omega))
    have hN : NoBreak A M E b x0 j := fun i hi => hnb i (by omega)
    rw [pow_succ']
    exact MA_dirs hA hI hN (le_refl _) hprev

theorem dirs_eq_kry (hA : Hyp A M E) (k : Nat) (hnb : ∀ j, j + 1 < k → (S j).rz ≠ 0) :
    dirs A M E b x0 k = kry A M E b x0 k := by
  refine le_antisymm (dirs_le_kry k) (Submodule.span_le.mpr ?_)
  rintro v ⟨j, hj, rfl⟩
  exact dirs_mono (by omega) (pow_mem_dirs hA j (fun i hi => hnb i (by omega)))

/-- **C07 for preconditioned CG, Hermitian case**: the `k`-th iterate minimises the energy norm of the error over
`x₀ + K_k(MA, M r₀)` (complex span) -/
theorem cpcg_optimal_krylov (hA : Hyp A M E) (xs : V) (hxs : A xs = b) (k : Nat)
    (hnb : ∀ j, j < k → (S j).rz ≠ 0) :
    (S k).x - x0 ∈ kry A M E b x0 k ∧
    ∀ y, y - x0 ∈ kry A M E b x0 k → enA A E (xs - (S k).x) ≤ enA A E (xs - y) := by
  have hd := dirs_eq_kry (b := b) (x0 := x0) hA k (fun j hj => hnb j (by omega))
  have := cpcg_optimal hA xs hxs k hnb
  rw [hd] at this
  exact this

theorem cpcg_monotone (hA : Hyp A M E) (xs : V) (hxs : A xs = b) (k : Nat)
    (hnb : ∀ j, j < k + 1 → (S j).rz ≠ 0) :
    enA A E (xs - (S (k+1)).x) ≤ enA A E (xs - (S k).x) := by
  have h := (cpcg_optimal hA xs hxs (k+1) hnb).2 (S k).x
  exact h (dirs_mono (Nat.le_succ k) (x_mem k))

/-- the energy norm of the error is a real quantity: `⟨A v, v⟩` is fixed by the involution -/
theorem enA_real (hA : Hyp A M E) (v : V) : star (E.h (A v) v) = E.h (A v) v := E.herm_star hA.symA v

#print axioms cpcg_optimal_krylov
#print axioms cpcg_monotone
end
end CPCG
end PyamgV.CHerm
