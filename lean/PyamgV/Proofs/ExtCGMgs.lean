import PyamgV.Proofs.ExtCGGiv
import PyamgV.Proofs.ExtC07Kry

/-! PyamgV (extension E43, properties C06/C07): **complex GMRES with modified Gram--Schmidt** -- the executable model
`cgmresStep` (`Model/ExtCGGmres.lean`), instantiated with the operations of a `K`-module carrying a Hermitian form
(`Ops.ofHerm`, `dot u v = ⟨u, v⟩` conjugate-linear in `u`) and an exact square root.

* `orthO_spec` -- the MGS loop with conjugated inner products: the remainder is orthogonal to an orthonormal list and
  differs from the input by the recorded combination;
* `arnoldi_step` -- one Arnoldi step: new unit vector orthogonal to the old ones, Arnoldi relation;
* `cgSeq_live` -- by induction over the inner iterations: a non-zero entry `g[k]` certifies that there was no
  breakdown so far (all sub-diagonal entries non-zero, every rotation live), the Arnoldi vectors are orthonormal,
  satisfy the Arnoldi relation for `B = M A`, and the Givens data satisfy the rotated-basis invariant `RB`;
* `cgmres_mgs_estimate` (C06): `‖M (b − A x_{m+1})‖² = |g[m+1]|²` for the iterate handed to `callback`;
* `cgmres_mgs_optimal` / `cgmres_mgs_optimal_krylov` (C07): that iterate minimises `‖M (b − A x)‖` over
  `x₀ + span{v_0 … v_m} = x₀ + K_{m+1}(M A, M r₀)`. -/
set_option linter.unusedSectionVars false
set_option linter.unusedVariables false
namespace PyamgV.ExtCG
open PyamgV.C07 PyamgV.CHerm PyamgV.C07.CH Finset

variable {K : Type} [Field K] [StarRing K] [DecidableEq K]
variable {F₀ : Type} [Field F₀] [LinearOrder F₀] [IsStrictOrderedRing F₀]
variable {V : Type} [AddCommGroup V] [Module K V]

local notation "gF" => PyamgV.C07.F

/-! ### list combinations -/

/-- `Σ_l c_l v_l` over two lists -/
def lsum : List K → List V → V
  | c :: cs, v :: vs => c • v + lsum cs vs
  | _, _ => 0

theorem lsum_eq_sum : ∀ (cs : List K) (vs : List V), cs.length = vs.length →
    lsum cs vs = ∑ l ∈ range vs.length, gF cs l • vs.getD l 0
  | [], [], _ => by simp [lsum]
  | c :: cs, v :: vs, h => by
    simp only [lsum, List.length_cons]
    rw [sum_range_succ', lsum_eq_sum cs vs (by simpa using h)]
    simp [C07.F, add_comm]
  | [], _ :: _, h => by simp at h
  | _ :: _, [], h => by simp at h

theorem getD_map_range (v : Nat → V) (m l : Nat) (h : l < m) : ((List.range m).map v).getD l 0 = v l := by
  simp [List.getD_eq_getElem?_getD, h]

theorem lsum_map_range (cs : List K) (v : Nat → V) (m : Nat) (h : cs.length = m) :
    lsum cs ((List.range m).map v) = ∑ l ∈ range m, gF cs l • v l := by
  rw [lsum_eq_sum cs _ (by simp [h])]
  simp only [List.length_map, List.length_range]
  exact sum_congr rfl (fun l hl => by rw [getD_map_range v m l (mem_range.1 hl)])

variable (A AH M : V →ₗ[K] V) (E : HForm K F₀ V)

theorem combO_eq_lsum : ∀ (y : List K) (vs : List V) (x : V),
    combO (Ops.ofHerm A AH M E) x y vs = x + lsum y vs
  | [], _, x => by simp [combO, lsum]
  | _ :: _, [], x => by simp [combO, lsum]
  | c :: cs, v :: vs, x => by
    simp only [combO, lsum]
    rw [combO_eq_lsum cs vs]
    simp only [Ops.ofHerm]
    abel

/-! ### modified Gram--Schmidt with conjugated inner products -/

/-- orthonormal list (one-sided; the other side follows from conjugate symmetry) -/
def ONL : List V → Prop
  | [] => True
  | q :: qs => E.h q q = 1 ∧ (∀ x ∈ qs, E.h q x = 0) ∧ ONL qs

theorem h_lsum_zero (q : V) : ∀ (cs : List K) (qs : List V), (∀ x ∈ qs, E.h q x = 0) → E.h q (lsum cs qs) = 0
  | [], _, _ => by simp [lsum]
  | _ :: _, [], _ => by simp [lsum]
  | c :: cs, v :: vs, h => by
    simp only [lsum]
    rw [E.add_right, E.smul_right, h v (by simp), h_lsum_zero q cs vs (fun x hx => h x (by simp [hx]))]
    ring

theorem orthO_spec : ∀ (vs : List V) (w : V), ONL E vs →
    (orthO (Ops.ofHerm A AH M E) vs w).2.length = vs.length ∧
    w = (orthO (Ops.ofHerm A AH M E) vs w).1 + lsum (orthO (Ops.ofHerm A AH M E) vs w).2 vs ∧
    ∀ x ∈ vs, E.h x (orthO (Ops.ofHerm A AH M E) vs w).1 = 0
  | [], w, _ => by simp [orthO, lsum]
  | q :: qs, w, h => by
    obtain ⟨hqq, hqo, hqs⟩ := h
    obtain ⟨h1, h2, h3⟩ := orthO_spec qs (w - E.h q w • q) hqs
    have hstep : orthO (Ops.ofHerm A AH M E) (q :: qs) w =
        ((orthO (Ops.ofHerm A AH M E) qs (w - E.h q w • q)).1,
          E.h q w :: (orthO (Ops.ofHerm A AH M E) qs (w - E.h q w • q)).2) := rfl
    rw [hstep]
    set r := orthO (Ops.ofHerm A AH M E) qs (w - E.h q w • q) with hr
    refine ⟨by simp [h1], ?_, ?_⟩
    · simp only [lsum]
      have : w = (w - E.h q w • q) + E.h q w • q := by abel
      conv_lhs => rw [this, h2]
      abel
    · intro x hx
      rcases List.mem_cons.1 hx with rfl | hx
      · have h4 : r.1 = (w - E.h x w • x) - lsum r.2 qs := by
          conv_rhs => rw [h2]
          abel
        show E.h x r.1 = 0
        rw [h4, E.sub_right, E.sub_right, E.smul_right, hqq, h_lsum_zero E x r.2 qs hqo]
        ring
      · exact h3 x hx

theorem onl_range' (v : Nat → V) : ∀ (m a : Nat),
    (∀ i j, a ≤ i → i < a + m → a ≤ j → j < a + m → E.h (v i) (v j) = if i = j then 1 else 0) →
    ONL E ((List.range' a m).map v)
  | 0, _, _ => by simp [ONL]
  | m+1, a, h => by
    simp only [List.range', List.map_cons, ONL]
    refine ⟨by rw [h a a (le_refl a) (by omega) (le_refl a) (by omega), if_pos rfl], ?_, ?_⟩
    · intro x hx
      obtain ⟨j, hj, rfl⟩ := List.mem_map.1 hx
      rw [List.mem_range'_1] at hj
      rw [h a j (le_refl a) (by omega) (by omega) (by omega), if_neg (by omega)]
    · exact onl_range' v m (a + 1) (fun i j h1 h2 h3 h4 => h i j (by omega) (by omega) (by omega) (by omega))

theorem onl_range (v : Nat → V) (m : Nat)
    (h : ∀ i j, i < m → j < m → E.h (v i) (v j) = if i = j then 1 else 0) : ONL E ((List.range m).map v) := by
  rw [List.range_eq_range']
  exact onl_range' E v m 0 (fun i j _ h2 _ h4 => h i j (by omega) (by omega))

/-! ### one Arnoldi step -/

variable (R : ReMap K F₀) (hER : ∀ z, E.re z = R.re z) (sqrt : K → K) (hS : ExactSqrt R sqrt)

include hER hS in
theorem sqrt_norm_sq (w : V) : sqrt (E.h w w) * sqrt (E.h w w) = E.h w w :=
  hS.sq _ (E.self_star w) (by rw [← hER]; exact E.nonneg w)

include hER hS in
/-- new Arnoldi vector and Hessenberg column from an orthonormal basis `v_0 … v_k` -/
theorem arnoldi_step (k : Nat) (v : Nat → V)
    (hON : ∀ i j, i ≤ k → j ≤ k → E.h (v i) (v j) = if i = j then 1 else 0) (vk : V) :
    (arnoldiO (Ops.ofHerm A AH M E) sqrt nzK ((List.range (k + 1)).map v) vk).2.length = k + 2 ∧
    (gF (arnoldiO (Ops.ofHerm A AH M E) sqrt nzK ((List.range (k + 1)).map v) vk).2 (k + 1) ≠ 0 →
      E.h (arnoldiO (Ops.ofHerm A AH M E) sqrt nzK ((List.range (k + 1)).map v) vk).1
          (arnoldiO (Ops.ofHerm A AH M E) sqrt nzK ((List.range (k + 1)).map v) vk).1 = 1 ∧
      (∀ l, l ≤ k → E.h (v l) (arnoldiO (Ops.ofHerm A AH M E) sqrt nzK ((List.range (k + 1)).map v) vk).1 = 0) ∧
      M (A vk) = ∑ l ∈ range (k + 1),
          gF (arnoldiO (Ops.ofHerm A AH M E) sqrt nzK ((List.range (k + 1)).map v) vk).2 l • v l +
        gF (arnoldiO (Ops.ofHerm A AH M E) sqrt nzK ((List.range (k + 1)).map v) vk).2 (k + 1) •
          (arnoldiO (Ops.ofHerm A AH M E) sqrt nzK ((List.range (k + 1)).map v) vk).1) := by
  have hONL : ONL E ((List.range (k + 1)).map v) :=
    onl_range E v (k + 1) (fun i j hi hj => hON i j (by omega) (by omega))
  obtain ⟨h1, h2, h3⟩ := orthO_spec A AH M E ((List.range (k + 1)).map v) (M (A vk)) hONL
  have hdef : arnoldiO (Ops.ofHerm A AH M E) sqrt nzK ((List.range (k + 1)).map v) vk =
      ((newColO (Ops.ofHerm A AH M E) sqrt nzK
          (orthO (Ops.ofHerm A AH M E) ((List.range (k + 1)).map v) (M (A vk))).1).1,
        (orthO (Ops.ofHerm A AH M E) ((List.range (k + 1)).map v) (M (A vk))).2 ++
          [(newColO (Ops.ofHerm A AH M E) sqrt nzK
            (orthO (Ops.ofHerm A AH M E) ((List.range (k + 1)).map v) (M (A vk))).1).2]) := rfl
  rw [hdef]
  set r := orthO (Ops.ofHerm A AH M E) ((List.range (k + 1)).map v) (M (A vk)) with hr
  have hlen : r.2.length = k + 1 := by rw [h1]; simp
  have hnc : newColO (Ops.ofHerm A AH M E) sqrt nzK r.1 =
      if nzK (sqrt (E.h r.1 r.1)) then ((1 / sqrt (E.h r.1 r.1)) • r.1, sqrt (E.h r.1 r.1)) else ((0 : K) • r.1, 0) := rfl
  refine ⟨by simp [hlen], ?_⟩
  have hlast : gF (r.2 ++ [(newColO (Ops.ofHerm A AH M E) sqrt nzK r.1).2]) (k + 1) =
      (newColO (Ops.ofHerm A AH M E) sqrt nzK r.1).2 := by
    rw [← hlen]; exact gF_append_len _ _
  have hlt : ∀ l, l < k + 1 → gF (r.2 ++ [(newColO (Ops.ofHerm A AH M E) sqrt nzK r.1).2]) l = gF r.2 l :=
    fun l hl => gF_append_lt _ _ l (by rw [hlen]; exact hl)
  rw [hlast]
  intro hne
  rw [sum_congr rfl (fun l hl => by rw [hlt l (mem_range.1 hl)])]
  rw [hnc] at hne ⊢
  by_cases hnz : nzK (sqrt (E.h r.1 r.1)) = true
  · rw [if_pos hnz] at hne ⊢
    simp only at hne ⊢
    have hsq := sqrt_norm_sq E R hER sqrt hS r.1
    have hre := hS.real (E.h r.1 r.1)
    generalize sqrt (E.h r.1 r.1) = t at hsq hre hne
    refine ⟨?_, ?_, ?_⟩
    · rw [E.smul_left, E.smul_right, ← hsq, star_div₀, star_one, hre]
      field_simp
    · intro l hl
      rw [E.smul_right, h3 (v l) (List.mem_map.2 ⟨l, by simp; omega, rfl⟩), mul_zero]
    · rw [smul_smul, mul_one_div, div_self hne, one_smul]
      rw [← lsum_map_range r.2 v (k + 1) hlen, add_comm]
      exact h2
  · rw [if_neg hnz] at hne
    exact absurd rfl hne

/-! ### the states of the model -/

theorem cgivensUpdate_g_length (lf : Bool) (k : Nat) (cs sn g col : List K) :
    (cgivensUpdate star sqrt nzK lf k cs sn g col).g.length = g.length + 1 := by
  unfold cgivensUpdate
  simp only
  split
  · rw [length_crotL]; simp
  · simp

variable (n : Nat) (b x0 : V)

/-- the states of the complex GMRES(MGS) model over the module -/
def cgSeq (k : Nat) : GmSt K V :=
  iter (cgmresStep (Ops.ofHerm A AH M E) star sqrt nzK n x0) k (gmresInit (Ops.ofHerm A AH M E) sqrt b x0)

/-- the Arnoldi vector created in inner iteration `l - 1` (`l = 0`: the normalised start residual) -/
def vG (l : Nat) : V := ((cgSeq A AH M E sqrt n b x0 l).vs.getLast?).getD 0

local notation "St" => cgSeq A AH M E sqrt n b x0
local notation "vv" => vG A AH M E sqrt n b x0

theorem cgSeq_succ (k : Nat) :
    St (k + 1) = cgmresStep (Ops.ofHerm A AH M E) star sqrt nzK n x0 (St k) := rfl

theorem cgSeq_shape : ∀ k, (St k).vs = (List.range (k + 1)).map vv ∧ (St k).cols.length = k ∧
    (St k).rcols.length = k ∧ (St k).cs.length = k ∧ (St k).sn.length = k ∧ (St k).g.length = k + 1 ∧
    (St k).xs.length = k := by
  intro k
  induction k with
  | zero =>
    refine ⟨?_, rfl, rfl, rfl, rfl, rfl, rfl⟩
    simp [vG, cgSeq, iter, gmresInit]
  | succ k ih =>
    obtain ⟨h1, h2, h3, h4, h5, h6, h7⟩ := ih
    have hv : vv (k + 1) = (arnoldiO (Ops.ofHerm A AH M E) sqrt nzK (St k).vs ((St k).vs.getLast?.getD x0)).1 := by
      unfold vG
      rw [cgSeq_succ]
      simp [cgmresStep]
    rw [cgSeq_succ]
    refine ⟨?_, by simp [cgmresStep, h2], by simp [cgmresStep, h3], by simp [cgmresStep, h4],
      by simp [cgmresStep, h5], ?_, by simp [cgmresStep, h7]⟩
    · show (St k).vs ++ [_] = _
      rw [List.range_succ, List.map_append, ← h1, List.map_singleton, hv]
    · show (cgivensUpdate star sqrt nzK _ _ _ _ _ _).g.length = _
      rw [cgivensUpdate_g_length, h6]

theorem cgSeq_last (k : Nat) : (St k).vs.getLast?.getD x0 = vv k := by
  rw [(cgSeq_shape A AH M E sqrt n b x0 k).1, List.range_succ, List.map_append]
  simp

/-- the Hessenberg columns are never changed once written -/
theorem cgSeq_cols_stable (k j : Nat) (hj : j < k) :
    (St (k + 1)).cols.getD j [] = (St k).cols.getD j [] := by
  rw [cgSeq_succ]
  show ((St k).cols ++ [_]).getD j [] = _
  exact getD_append_lt' _ _ _ _ (by rw [(cgSeq_shape A AH M E sqrt n b x0 k).2.1]; exact hj)

/-- the liveness invariant: see the header -/
structure Live (k : Nat) : Prop where
  beta : sqrt (E.h (M (b - A x0)) (M (b - A x0))) ≠ 0
  on : ∀ i j, i ≤ k → j ≤ k → E.h (vv i) (vv j) = if i = j then 1 else 0
  collen : ∀ j, j < k → ((St k).cols.getD j []).length = j + 2
  arn : ∀ j, j < k → M (A (vv j)) = ∑ l ∈ range (j + 2), gF ((St k).cols.getD j []) l • vv l
  sub : ∀ j, j < k → gF ((St k).cols.getD j []) (j + 1) ≠ 0
  rb : ∃ u p, RB E (M ∘ₗ A) (M (b - A x0)) k vv vv (St k).cs (St k).sn (St k).rcols (St k).g u p

include hER hS in
/-- **a non-zero `g[k]` certifies a breakdown-free history with all invariants** -/
theorem cgSeq_live : ∀ k, k < n → gF (St k).g k ≠ 0 → Live A AH M E sqrt n b x0 k := by
  intro k
  induction k with
  | zero =>
    intro _ h0
    have hg : (St 0).g = [sqrt (E.h (M (b - A x0)) (M (b - A x0)))] := rfl
    have hβ : sqrt (E.h (M (b - A x0)) (M (b - A x0))) ≠ 0 := by rw [hg] at h0; simpa [C07.F] using h0
    have hv0 : vv 0 = (1 / sqrt (E.h (M (b - A x0)) (M (b - A x0)))) • M (b - A x0) := by
      simp [vG, cgSeq, iter, gmresInit, Ops.ofHerm]
    have hsq := sqrt_norm_sq E R hER sqrt hS (M (b - A x0))
    have hre := hS.real (E.h (M (b - A x0)) (M (b - A x0)))
    have h00 : E.h (vv 0) (vv 0) = 1 := by
      rw [hv0, E.smul_left, E.smul_right]
      generalize sqrt (E.h (M (b - A x0)) (M (b - A x0))) = t at hsq hre hβ
      rw [← hsq, star_div₀, star_one, hre]
      field_simp
    refine ⟨hβ, ?_, by intro j hj; omega, by intro j hj; omega, by intro j hj; omega, ?_⟩
    · intro i j hi hj
      have hi0 : i = 0 := by omega
      have hj0 : j = 0 := by omega
      subst hi0 hj0
      rw [if_pos rfl]; exact h00
    · refine ⟨fun _ => 0, vv 0, ?_⟩
      rw [hg]
      apply rb_init E (M ∘ₗ A) _ vv vv _ _ h00
      rw [hv0, smul_smul, mul_one_div, div_self hβ, one_smul]
  | succ k ih =>
    intro hkn hgk
    obtain ⟨hvs, hlc, hlrc, hlcs, hlsn, hlg, hlxs⟩ := cgSeq_shape A AH M E sqrt n b x0 k
    have hlf : (k + 1 == n) = false := by simp; omega
    -- unfold the step
    have hstep := cgSeq_succ A AH M E sqrt n b x0 k
    have hlastv := cgSeq_last A AH M E sqrt n b x0 k
    set s := St k with hs
    set a := arnoldiO (Ops.ofHerm A AH M E) sqrt nzK s.vs (vv k) with ha
    have hcols : (St (k + 1)).cols = s.cols ++ [a.2] := by
      rw [hstep]; simp only [cgmresStep, hlastv]; rfl
    have hupd : (St (k + 1)).g = (cgivensUpdate star sqrt nzK false k s.cs s.sn s.g a.2).g ∧
        (St (k + 1)).cs = s.cs ++ [(cgivensUpdate star sqrt nzK false k s.cs s.sn s.g a.2).c] ∧
        (St (k + 1)).sn = s.sn ++ [(cgivensUpdate star sqrt nzK false k s.cs s.sn s.g a.2).s] ∧
        (St (k + 1)).rcols = s.rcols ++ [(cgivensUpdate star sqrt nzK false k s.cs s.sn s.g a.2).rc] := by
      rw [hstep]; simp only [cgmresStep, hlastv, hlc, hlf]; exact ⟨rfl, rfl, rfl, rfl⟩
    have hvnew : vv (k + 1) = a.1 := by
      show ((St (k + 1)).vs.getLast?).getD 0 = a.1
      rw [hstep]; simp [cgmresStep, hlastv, ha]
    set rc0 := capplyRots star 0 s.cs s.sn a.2 with hrc0
    -- the rotation was live
    by_cases hnz : nzK (gF rc0 (k + 1)) = true
    · have hU := cgivensUpdate_rot sqrt k s.cs s.sn s.g a.2 hnz
      rw [hU] at hupd
      obtain ⟨hg', hcs', hsn', hrc'⟩ := hupd
      simp only at hg' hcs' hsn' hrc'
      set c := (clartg star sqrt nzK (gF rc0 k) (gF rc0 (k + 1))).1 with hc
      set sg := (clartg star sqrt nzK (gF rc0 k) (gF rc0 (k + 1))).2 with hsg
      have hj1 : gF rc0 (k + 1) ≠ 0 := nzK_true hnz
      obtain ⟨hcr, hunit, hzero⟩ := clartg_spec R sqrt hS (gF rc0 k) (gF rc0 (k + 1)) hj1
      -- g[k] was non-zero
      have hgl : (s.g ++ [0]).length = k + 2 := by simp [hlg]
      have hgk1 : gF (St (k + 1)).g (k + 1) = -(star sg) * gF s.g k := by
        rw [hg', F_crotL k c sg (s.g ++ [0]) (by rw [hgl]; omega), if_neg (by omega), if_pos rfl]
        have h0 : gF (s.g ++ [0]) (k + 1) = 0 := by rw [← hlg]; exact gF_append_len s.g 0
        rw [h0, gF_append_lt s.g [0] k (by rw [hlg]; omega)]; ring
      have hgk0 : gF s.g k ≠ 0 := by
        intro h0; apply hgk; rw [hgk1, h0, mul_zero]
      have L := ih (by omega) hgk0
      -- the Arnoldi step
      have harn := arnoldi_step A AH M E R hER sqrt hS k vv L.on (vv k)
      rw [← hvs, ← ha] at harn
      obtain ⟨hal, harn2⟩ := harn
      have hhigh : gF rc0 (k + 1) = gF a.2 (k + 1) := by
        rw [hrc0, capplyRots_high 0 s.cs s.sn a.2 (k + 1) (by rw [hlcs]; omega)]
      obtain ⟨hnn, hno, hrel⟩ := harn2 (by rw [← hhigh]; exact hj1)
      rw [← hvnew] at hnn hno hrel
      have hcolk : (St (k + 1)).cols.getD k [] = a.2 := by
        rw [hcols, ← hlc]; exact getD_append_len' _ _ _
      have hcollt : ∀ j, j < k → (St (k + 1)).cols.getD j [] = s.cols.getD j [] :=
        fun j hj => cgSeq_cols_stable A AH M E sqrt n b x0 k j hj
      refine ⟨L.beta, ?_, ?_, ?_, ?_, ?_⟩
      · intro i j hi hj
        by_cases hik : i = k + 1
        · by_cases hjk : j = k + 1
          · rw [hik, hjk, if_pos rfl]; exact hnn
          · rw [hik, if_neg (by omega)]
            exact E.orth_symm (hno j (by omega))
        · by_cases hjk : j = k + 1
          · rw [hjk, if_neg hik]; exact hno i (by omega)
          · exact L.on i j (by omega) (by omega)
      · intro j hj
        by_cases hjk : j < k
        · rw [hcollt j hjk]; exact L.collen j hjk
        · have : j = k := by omega
          rw [this, hcolk]; exact hal
      · intro j hj
        by_cases hjk : j < k
        · rw [hcollt j hjk]; exact L.arn j hjk
        · have : j = k := by omega
          rw [this, hcolk, sum_range_succ]; exact hrel
      · intro j hj
        by_cases hjk : j < k
        · rw [hcollt j hjk]; exact L.sub j hjk
        · have : j = k := by omega
          rw [this, hcolk, ← hhigh]; exact hj1
      · obtain ⟨u, p, hRB⟩ := L.rb
        refine ⟨(fun i => if i = k then c • p + star sg • vv (k + 1) else u i), (-sg • p + c • vv (k + 1)), ?_⟩
        rw [hg', hcs', hsn', hrc']
        refine rb_step E (M ∘ₗ A) _ k vv vv s.cs s.sn s.rcols s.g u p hRB hnn hno a.2 hal ?_ c sg hcr hunit hzero hj1
        rw [sum_range_succ]; exact hrel
    · -- no rotation: `g[k+1] = 0`
      have hnz' : nzK (gF rc0 (k + 1)) = false := by simpa using hnz
      have hU := cgivensUpdate_norot sqrt k s.cs s.sn s.g a.2 hnz'
      rw [hU] at hupd
      exfalso
      apply hgk
      rw [hupd.1, ← hlg]
      exact gF_append_len s.g 0

/-! ### the iterate handed to `callback` -/

/-- the iterate recorded in inner iteration `m` (`x_{m+1}`) -/
def xG (m : Nat) : V := (St (m + 1)).xs.getLast?.getD x0

local notation "xx" => xG A AH M E sqrt n b x0

theorem backSub_length (rcols : List (List K)) (g : List K) (i : Nat) : (backSub rcols g i []).length = i := by
  obtain ⟨pre, hl, he⟩ := backSub_suffix rcols g i []
  rw [he]; simp [hl]

theorem xG_eq (m : Nat) :
    xx m = x0 + ∑ j ∈ range (m + 1), gF (backSub (St (m + 1)).rcols (St (m + 1)).g (m + 1) []) j • vv j := by
  obtain ⟨hvs, hlc, -⟩ := cgSeq_shape A AH M E sqrt n b x0 m
  have hx : (St (m + 1)).xs = (St m).xs ++ [combO (Ops.ofHerm A AH M E) x0
      (backSub (St (m + 1)).rcols (St (m + 1)).g ((St m).cols.length + 1) []) (St m).vs] := rfl
  unfold xG
  rw [hx, hlc, hvs, combO_eq_lsum, lsum_map_range _ _ _ (backSub_length _ _ _)]
  simp

include hER hS in
/-- **C06 clause for complex `gmres_mgs`**: the recorded estimate is the norm of the preconditioned residual of the
iterate handed to `callback`, `‖M (b − A x_{m+1})‖² = |g[m+1]|²` (a non-zero estimate certifies "no breakdown") -/
theorem cgmres_mgs_estimate (m : Nat) (hmn : m + 1 < n) (hg : gF (St (m + 1)).g (m + 1) ≠ 0) :
    E.en (M (b - A (xx m))) = E.re (star (gF (St (m + 1)).g (m + 1)) * gF (St (m + 1)).g (m + 1)) := by
  obtain ⟨u, p, hRB⟩ := (cgSeq_live A AH M E R hER sqrt hS n b x0 (m + 1) hmn hg).rb
  have hr0 : M (b - A x0) = M b - (M ∘ₗ A) x0 := by simp [map_sub]
  rw [hr0] at hRB
  have h := rb_estimate E (M ∘ₗ A) (M b) x0 (m + 1) vv vv _ _ _ _ u p hRB
  rw [← xG_eq] at h
  rw [← h]
  simp [map_sub]

include hER hS in
/-- **C07 clause for complex `gmres_mgs`**: the iterate minimises `‖M (b − A x)‖` over `x₀ + span{v_0 … v_m}` -/
theorem cgmres_mgs_optimal (m : Nat) (hmn : m + 1 < n) (hg : gF (St (m + 1)).g (m + 1) ≠ 0) :
    xx m - x0 ∈ Submodule.span K (vv '' {j | j < m + 1}) ∧
    ∀ x', x' - x0 ∈ Submodule.span K (vv '' {j | j < m + 1}) →
      E.en (M (b - A (xx m))) ≤ E.en (M (b - A x')) := by
  obtain ⟨u, p, hRB⟩ := (cgSeq_live A AH M E R hER sqrt hS n b x0 (m + 1) hmn hg).rb
  have hr0 : M (b - A x0) = M b - (M ∘ₗ A) x0 := by simp [map_sub]
  rw [hr0] at hRB
  have h := rb_optimal E (M ∘ₗ A) (M b) x0 (m + 1) vv vv _ _ _ _ u p hRB
  rw [← xG_eq] at h
  refine ⟨?_, ?_⟩
  · rw [xG_eq]
    have : x0 + ∑ j ∈ range (m + 1), gF (backSub (St (m + 1)).rcols (St (m + 1)).g (m + 1) []) j • vv j - x0 =
        ∑ j ∈ range (m + 1), gF (backSub (St (m + 1)).rcols (St (m + 1)).g (m + 1) []) j • vv j := by abel
    rw [this]
    exact Submodule.sum_mem _ (fun j hj => Submodule.smul_mem _ _
      (Submodule.subset_span ⟨j, mem_range.1 hj, rfl⟩))
  · intro x' hx'
    have := h x' hx'
    simpa [map_sub] using this

/-- the Krylov space `K_k(B, r) = span{r, B r, …, B^{k-1} r}` over `K` -/
def ckry (B : V →ₗ[K] V) (r : V) (k : Nat) : Submodule K V :=
  Submodule.span K ((fun i => (B ^ i) r) '' {i | i < k})

include hER hS in
/-- without breakdown the Arnoldi vectors span the preconditioned Krylov space -/
theorem cgmres_mgs_basis_span (m : Nat) (hmn : m + 1 < n) (hg : gF (St (m + 1)).g (m + 1) ≠ 0) :
    Submodule.span K (vv '' {j | j < m + 1}) = ckry (M ∘ₗ A) (M (b - A x0)) (m + 1) := by
  have L := cgSeq_live A AH M E R hER sqrt hS n b x0 (m + 1) hmn hg
  have hset : {j : Nat | j < m + 1} = {i | i ≤ m} := by ext i; simp [Nat.lt_succ_iff]
  unfold ckry
  rw [hset]
  have hv0 : vv 0 = (1 / sqrt (E.h (M (b - A x0)) (M (b - A x0)))) • M (b - A x0) := by
    simp [vG, cgSeq, iter, gmresInit, Ops.ofHerm]
  exact arnoldi_span_krylov (M ∘ₗ A) vv (fun l j => gF ((St (m + 1)).cols.getD j []) l) (M (b - A x0))
    (sqrt (E.h (M (b - A x0)) (M (b - A x0)))) L.beta
    (by rw [hv0, smul_smul, mul_one_div, div_self L.beta, one_smul]) m
    (fun j hj => by simpa using L.arn j (by omega)) (fun j hj => L.sub j (by omega))

include hER hS in
/-- **C07 as stated, complex `gmres_mgs`**: after `m + 1 < n` inner iterations with `g[m+1] ≠ 0` the iterate handed
to `callback` lies in `x₀ + K_{m+1}(M A, M r₀)` and minimises the norm of the preconditioned residual over it -/
theorem cgmres_mgs_optimal_krylov (m : Nat) (hmn : m + 1 < n) (hg : gF (St (m + 1)).g (m + 1) ≠ 0) :
    xx m - x0 ∈ ckry (M ∘ₗ A) (M (b - A x0)) (m + 1) ∧
    ∀ x', x' - x0 ∈ ckry (M ∘ₗ A) (M (b - A x0)) (m + 1) →
      E.en (M (b - A (xx m))) ≤ E.en (M (b - A x')) := by
  rw [← cgmres_mgs_basis_span A AH M E R hER sqrt hS n b x0 m hmn hg]
  exact cgmres_mgs_optimal A AH M E R hER sqrt hS n b x0 m hmn hg

#print axioms cgmres_mgs_estimate
#print axioms cgmres_mgs_optimal_krylov
end PyamgV.ExtCG
