import PyamgV.Proofs.ExtC05Bridge
import PyamgV.Proofs.ExtC05RefineEx

/-! PyamgV (C05, extension E23): non-vacuity of `flag_denseM_symmetric_checked` -- on the two-level
3-point Poisson hierarchy of `Proofs/ExtC05RefineEx.lean` (forward / backward Gauss–Seidel, over `ℚ`,
`ofRat = id`, exactly as the driver runs it) the Boolean `c05Check` evaluates to `true` (kernel
evaluation), the flag is `True`, and `denseM` returns a matrix; a hierarchy with `R ≠ Pᵀ` fails it. -/
namespace PyamgV.C05Ex
open PyamgV PyamgV.C05 PyamgV.C02Ex

theorem check5 : c05Check id pre post Ac3 [L5] = true := by decide +kernel

/-- the symmetric V- and W-cycle matrices of the example through the checked theorem: no hypothesis left
that is not evaluated -/
theorem example_denseM_symmetric_checked (c : Cyc) (M : Mat ℚ) (h : denseM id Ac3 c [L5] = some M) :
    M.size = 3 ∧ ∀ i j, i < 3 → j < 3 → mget M i j = mget M j i :=
  flag_denseM_symmetric_checked_rat pre post Ac3 [L5] flag5 check5 c M h

/-- the checker does reject: the same hierarchy with `A` in the place of `R` (`R ≠ Pᵀ`, wrong shape) -/
theorem check5_rejects :
    c05Check id pre post Ac3 [⟨A3, P3, A3, [0, 2], .gs 1 .forward 1, .gs 1 .backward 1⟩] = false := by
  decide +kernel

#print axioms check5
#print axioms example_denseM_symmetric_checked
end PyamgV.C05Ex
