import PyamgV.Proofs.ExtC10bProject
import Mathlib.Tactic.IntervalCases

/-! PyamgV (extension E24, property C10): the constraint theorem for the executable GMRES
energy-minimisation model **without per-instance hypotheses**.

`gmres_run_keeps_product`: for every input on which `C10bM.energyGmres` returns (pattern not empty, all
local Gram matrices invertible -- the model's `some`), with a row-scaling preconditioner or a
block-diagonal one whose blocks are the row blocks of the pattern: `T'·B_c = T·B_c` and nothing outside
the pattern changes.  Ingredients: the dense projection annihilates `B_c` (`satisfyDense_annihilates`,
exact inverse `inv_leftInv`), masking and the preconditioner keep matrices inside the pattern, and the
generic loop invariant `gmresLoop_dims`. -/
namespace PyamgV.C10b
open PyamgV PyamgV.C10M PyamgV.C10bM Matrix
set_option linter.unusedSectionVars false

variable {K : Type} [Field K] [DecidableEq K] {n m : Nat}

/-- zero outside the block pattern (entries inside the `n × m` frame) -/
def OffZero (n m rpb cpb : Nat) (pat : Pat) (X : Mat K) : Prop :=
  ∀ i j, i < n → j < m → ¬ ((pat.getD (i / rpb) #[]).contains (j / cpb) = true) → X.get i j = 0

theorem shaped_ofFn (n m : Nat) (f : Nat → Nat → K) : Shaped n m (Mat.ofFn n m f) := by
  refine ⟨ofFn_size' n m f, fun i hi => ?_⟩
  rw [ofFn_getD' n m f i hi]; simp

theorem get_out_of_rows (X : Mat K) (i j : Nat) (h : X.rows ≤ i) : X.get i j = 0 := by
  unfold Mat.get
  have : X.getD i #[] = #[] := by
    simp [Array.getD_eq_getD_getElem?, Array.getElem?_eq_none (show X.size ≤ i from h)]
  rw [this]; simp

theorem mask_offZero (rpb cpb : Nat) (pat : Pat) (X : Mat K) (hX : Dim n m X) :
    OffZero n m rpb cpb pat (maskDense rpb cpb pat X) := by
  intro i j hi hj hc
  unfold maskDense
  rw [ofFn_get' _ _ _ i j (by rw [hX.1]; exact hi) (by rw [hX.2]; exact hj), if_neg hc]

theorem neg_offZero (rpb cpb : Nat) (pat : Pat) (X : Mat K) (hX : Dim n m X) (h : OffZero n m rpb cpb pat X) :
    OffZero n m rpb cpb pat (Mat.neg X) := by
  intro i j hi hj hc
  unfold Mat.neg
  rw [ofFn_get' _ _ _ i j (by rw [hX.1]; exact hi) (by rw [hX.2]; exact hj), h i j hi hj hc, sub_zero]

/-- the preconditioners of the loop: a row scaling, or the block-diagonal inverse with the blocks of the pattern -/
def PreOK (rpb : Nat) : Precond K → Prop
  | .rows _ => True
  | .blocks bs _ => bs = rpb

theorem pre_offZero (rpb cpb : Nat) (pat : Pat) (pre : Precond K) (hpre : PreOK rpb pre) (hr : 0 < rpb) (X : Mat K)
    (hX : Dim n m X) (h : OffZero n m rpb cpb pat X) : OffZero n m rpb cpb pat (pre.apply X) := by
  intro i j hi hj hc
  cases pre with
  | rows d =>
    unfold Precond.apply
    dsimp only
    rw [ofFn_get' _ _ _ i j (by rw [hX.1]; exact hi) (by rw [hX.2]; exact hj), h i j hi hj hc, mul_zero]
  | blocks bs zs =>
    have hbs : bs = rpb := hpre
    subst hbs
    unfold Precond.apply
    dsimp only
    rw [ofFn_get' _ _ _ i j (by rw [hX.1]; exact hi) (by rw [hX.2]; exact hj), sumL_eq]
    apply List.sum_eq_zero
    intro x hx
    obtain ⟨a, ha, rfl⟩ := List.mem_map.1 hx
    rw [List.mem_range] at ha
    have hdiv : (i / bs * bs + a) / bs = i / bs := by
      rw [Nat.mul_comm, Nat.mul_add_div hr, Nat.div_eq_of_lt ha, Nat.add_zero]
    have : X.get (i / bs * bs + a) j = 0 := by
      rcases Nat.lt_or_ge (i / bs * bs + a) n with hl | hg
      · apply h _ j hl hj
        rw [hdiv]; exact hc
      · exact get_out_of_rows X _ j (by rw [hX.1]; exact hg)
    rw [this, mul_zero]

theorem dim_pre (pre : Precond K) (X : Mat K) (hn : 0 < n) (hX : Dim n m X) :
    Dim n m (pre.apply X) ∧ Shaped n m (pre.apply X) := by
  cases pre with
  | rows d =>
    unfold Precond.apply; dsimp only; rw [hX.1, hX.2]
    exact ⟨dim_ofFn n m hn _, shaped_ofFn n m _⟩
  | blocks bs zs =>
    unfold Precond.apply; dsimp only; rw [hX.1, hX.2]
    exact ⟨dim_ofFn n m hn _, shaped_ofFn n m _⟩

/-- the pattern's block columns lie inside the rows -/
def PatIn (m cpb : Nat) (pat : Pat) : Prop :=
  ∀ ib, ib < pat.size → ∀ jb ∈ (pat.getD ib #[]).toList, (jb + 1) * cpb ≤ m

/-- the operator of the loop produces constrained matrices of the right shape -/
theorem gmresOp_good (conj : K → K) (rpb cpb nd : Nat) (pat : Pat) (A : Mat K) (pre : Precond K) (B X Y : Mat K)
    (hn : 0 < n) (hr : 0 < rpb) (hA : A.rows = n) (hB : B.cols = nd) (hpat : PatIn m cpb pat) (hpre : PreOK rpb pre)
    (hX : Dim n m X) (h : gmresOp conj rpb cpb nd pat A pre B X = some Y) :
    Dim n m Y ∧ toMx n m Y * toMx m nd B = 0 := by
  refine ⟨dim_gmresOp conj rpb cpb nd pat A pre B X Y n m hn hA hX h, ?_⟩
  unfold gmresOp at h
  have h1 : Dim n m (Mat.mul A X) := by
    unfold Mat.mul; rw [hA, hX.2]; exact dim_ofFn n m hn _
  have h2 : Dim n m (maskDense rpb cpb pat (Mat.mul A X)) := by
    unfold maskDense; rw [h1.1, h1.2]; exact dim_ofFn n m hn _
  obtain ⟨h3, h4⟩ := dim_pre pre _ hn h2
  exact satisfyDense_annihilates conj rpb cpb nd pat _ B Y n m hr h4 h3.2 hB hpat
    (pre_offZero rpb cpb pat pre hpre hr _ h2 (mask_offZero rpb cpb pat _ h1)) h

theorem gmresR_good (conj : K → K) (rpb cpb nd : Nat) (pat : Pat) (A : Mat K) (pre : Precond K) (B T R : Mat K)
    (hn : 0 < n) (hr : 0 < rpb) (hA : A.rows = n) (hB : B.cols = nd) (hpat : PatIn m cpb pat) (hpre : PreOK rpb pre)
    (hT : Dim n m T)
    (h : satisfyDense conj rpb cpb nd pat (pre.apply (Mat.neg (maskDense rpb cpb pat (Mat.mul A T)))) B = some R) :
    Dim n m R ∧ toMx n m R * toMx m nd B = 0 := by
  refine ⟨dim_gmresR conj rpb cpb nd pat A pre B T R n m hn hA hT h, ?_⟩
  have h1 : Dim n m (Mat.mul A T) := by
    unfold Mat.mul; rw [hA, hT.2]; exact dim_ofFn n m hn _
  have h2 : Dim n m (maskDense rpb cpb pat (Mat.mul A T)) := by
    unfold maskDense; rw [h1.1, h1.2]; exact dim_ofFn n m hn _
  have h2' : Dim n m (Mat.neg (maskDense rpb cpb pat (Mat.mul A T))) := by
    unfold Mat.neg; rw [h2.1, h2.2]; exact dim_ofFn n m hn _
  obtain ⟨h3, h4⟩ := dim_pre pre _ hn h2'
  exact satisfyDense_annihilates conj rpb cpb nd pat _ B R n m hr h4 h3.2 hB hpat
    (pre_offZero rpb cpb pat pre hpre hr _ h2' (neg_offZero rpb cpb pat _ h2 (mask_offZero rpb cpb pat _ h1))) h

/-- every projected matrix of a run annihilates `B_c` -- the hypothesis of `gmres_run_constrained`, for
every input -/
theorem energyGmres_projs_constrained (sc : SOps K) (rpb cpb nd : Nat) (pat : Pat) (A : Mat K) (pre : Precond K)
    (T B : Mat K) (maxiter : Nat) (tol : K) (cpts : Array Nat) (out : EnergyGmresOut K)
    (hn : 0 < n) (hr : 0 < rpb) (hA : A.rows = n) (hT : Dim n m T) (hB : B.cols = nd) (hpat : PatIn m cpb pat)
    (hpre : PreOK rpb pre)
    (hrun : energyGmres sc rpb cpb nd pat A pre T B maxiter tol cpts = some out) :
    ∀ Y ∈ out.core.projs, toMx n m Y * toMx m nd B = 0 := by
  unfold energyGmres at hrun
  dsimp only at hrun
  by_cases hz : (pat.foldl (fun acc J => acc + J.size) 0) * rpb * cpb = 0
  · rw [if_pos hz] at hrun; cases hrun
  · rw [if_neg hz] at hrun
    cases hR : satisfyDense sc.conj rpb cpb nd pat (pre.apply (Mat.neg (maskDense rpb cpb pat (Mat.mul A T)))) B with
    | none => rw [hR] at hrun; cases hrun
    | some R =>
      rw [hR] at hrun
      simp only [Option.some.injEq] at hrun
      rw [← hrun]
      dsimp only
      have hRg := gmresR_good sc.conj rpb cpb nd pat A pre B T R hn hr hA hB hpat hpre hT hR
      unfold gmresCore
      dsimp only
      have key := gmresLoop_dims (matOps sc.conj) sc (gmresOp sc.conj rpb cpb nd pat A pre B) tol
        (fun X => Dim n m X ∧ toMx n m X * toMx m nd B = 0)
        (fun a X h => ⟨dim_smul n m hn a X h.1, by
          dsimp only [matOps]
          rw [toMx_smul n m a X h.1, Matrix.smul_mul, h.2, smul_zero]⟩)
        (fun X Y hX hY => ⟨dim_sub n m hn X Y hX.1, by
          dsimp only [matOps]
          rw [toMx_sub n m X Y hX.1, Matrix.sub_mul, hX.2, hY.2, sub_zero]⟩)
        (fun X Y hX h => gmresOp_good sc.conj rpb cpb nd pat A pre B X Y hn hr hA hB hpat hpre hX.1 h)
        maxiter (gmresInit (matOps sc.conj) sc R maxiter)
        (gmresInit_inv (matOps sc.conj) sc R maxiter _ (fun a X h => ⟨dim_smul n m hn a X h.1, by
            dsimp only [matOps]
            rw [toMx_smul n m a X h.1, Matrix.smul_mul, h.2, smul_zero]⟩)
          (fun Y hY => by
            have : Y = R := by simpa [gmresInit] using hY
            rw [this]; exact hRg))
        (fun Y hY => by
          have : Y = R := by simpa [gmresInit] using hY
          rw [this]; exact hRg)
      intro Y hY
      exact (key Y hY).2

/-- **GMRES energy minimisation keeps the constraint, executable model, every input**: whenever
`energyGmres` returns, the prolongator before the root-node reset satisfies `T'·B_c = T·B_c`, every update
direction annihilates `B_c`, and `T'` is `C10.applyUpdates` of the updates `(y_j, V_j)` -/
theorem gmres_run_keeps_product (sc : SOps K) (rpb cpb nd : Nat) (pat : Pat) (A : Mat K) (pre : Precond K)
    (T B : Mat K) (maxiter : Nat) (tol : K) (cpts : Array Nat) (out : EnergyGmresOut K)
    (hn : 0 < n) (hr : 0 < rpb) (hA : A.rows = n) (hT : Dim n m T) (hB : B.cols = nd) (hpat : PatIn m cpb pat)
    (hpre : PreOK rpb pre)
    (hrun : energyGmres sc rpb cpb nd pat A pre T B maxiter tol cpts = some out) :
    (∀ u ∈ out.core.ups, toMx n m u.2 * toMx m nd B = 0) ∧
    toMx n m out.core.T = C10.applyUpdates (toMx n m T) (out.core.ups.map fun u => (u.1, toMx n m u.2)) ∧
    toMx n m out.core.T * toMx m nd B = toMx n m T * toMx m nd B ∧
    out.T = resetRoots cpts out.core.T :=
  gmres_run_constrained sc rpb cpb nd pat A pre T B maxiter tol cpts out n m nd hn hA hT hrun
    (energyGmres_projs_constrained sc rpb cpb nd pat A pre T B maxiter tol cpts out hn hr hA hT hB hpat hpre hrun)

/-! ### the pattern clause, every input -/

theorem gmresOp_off (conj : K → K) (rpb cpb nd : Nat) (pat : Pat) (A : Mat K) (pre : Precond K) (B X Y : Mat K)
    (hn : 0 < n) (hr : 0 < rpb) (hc : 0 < cpb) (hA : A.rows = n) (hpat : PatIn m cpb pat) (hpre : PreOK rpb pre)
    (hX : Dim n m X) (h : gmresOp conj rpb cpb nd pat A pre B X = some Y) :
    OffZero n m rpb cpb pat Y := by
  unfold gmresOp satisfyDense at h
  have h1 : Dim n m (Mat.mul A X) := by
    unfold Mat.mul; rw [hA, hX.2]; exact dim_ofFn n m hn _
  have h2 : Dim n m (maskDense rpb cpb pat (Mat.mul A X)) := by
    unfold maskDense; rw [h1.1, h1.2]; exact dim_ofFn n m hn _
  obtain ⟨_, h4⟩ := dim_pre pre _ hn h2
  intro i j hi hj hcont
  rw [projectDense_off conj rpb cpb nd pat _ _ B Y n m hr hc h4 hpat h i j hi hcont]
  exact pre_offZero rpb cpb pat pre hpre hr _ h2 (mask_offZero rpb cpb pat _ h1) i j hi hj hcont

theorem gmresR_off (conj : K → K) (rpb cpb nd : Nat) (pat : Pat) (A : Mat K) (pre : Precond K) (B T R : Mat K)
    (hn : 0 < n) (hr : 0 < rpb) (hc : 0 < cpb) (hA : A.rows = n) (hpat : PatIn m cpb pat) (hpre : PreOK rpb pre)
    (hT : Dim n m T)
    (h : satisfyDense conj rpb cpb nd pat (pre.apply (Mat.neg (maskDense rpb cpb pat (Mat.mul A T)))) B = some R) :
    OffZero n m rpb cpb pat R := by
  unfold satisfyDense at h
  have h1 : Dim n m (Mat.mul A T) := by
    unfold Mat.mul; rw [hA, hT.2]; exact dim_ofFn n m hn _
  have h2 : Dim n m (maskDense rpb cpb pat (Mat.mul A T)) := by
    unfold maskDense; rw [h1.1, h1.2]; exact dim_ofFn n m hn _
  have h2' : Dim n m (Mat.neg (maskDense rpb cpb pat (Mat.mul A T))) := by
    unfold Mat.neg; rw [h2.1, h2.2]; exact dim_ofFn n m hn _
  obtain ⟨_, h4⟩ := dim_pre pre _ hn h2'
  intro i j hi hj hcont
  rw [projectDense_off conj rpb cpb nd pat _ _ B R n m hr hc h4 hpat h i j hi hcont]
  exact pre_offZero rpb cpb pat pre hpre hr _ h2' (neg_offZero rpb cpb pat _ h2 (mask_offZero rpb cpb pat _ h1)) i j hi hj hcont

theorem offZero_toMx (rpb cpb : Nat) (pat : Pat) (X : Mat K) (h : OffZero n m rpb cpb pat X) :
    ∀ (i : Fin n) (j : Fin m), ¬ ((pat.getD (i.val / rpb) #[]).contains (j.val / cpb) = true) → toMx n m X i j = 0 :=
  fun i j hc => h i.val j.val i.isLt j.isLt hc

/-- every projected matrix of a run vanishes outside the pattern -/
theorem energyGmres_projs_pattern (sc : SOps K) (rpb cpb nd : Nat) (pat : Pat) (A : Mat K) (pre : Precond K)
    (T B : Mat K) (maxiter : Nat) (tol : K) (cpts : Array Nat) (out : EnergyGmresOut K)
    (hn : 0 < n) (hr : 0 < rpb) (hc : 0 < cpb) (hA : A.rows = n) (hT : Dim n m T) (hpat : PatIn m cpb pat)
    (hpre : PreOK rpb pre)
    (hrun : energyGmres sc rpb cpb nd pat A pre T B maxiter tol cpts = some out) :
    ∀ Y ∈ out.core.projs, ∀ (i : Fin n) (j : Fin m),
      ¬ ((pat.getD (i.val / rpb) #[]).contains (j.val / cpb) = true) → toMx n m Y i j = 0 := by
  unfold energyGmres at hrun
  dsimp only at hrun
  by_cases hz : (pat.foldl (fun acc J => acc + J.size) 0) * rpb * cpb = 0
  · rw [if_pos hz] at hrun; cases hrun
  · rw [if_neg hz] at hrun
    cases hR : satisfyDense sc.conj rpb cpb nd pat (pre.apply (Mat.neg (maskDense rpb cpb pat (Mat.mul A T)))) B with
    | none => rw [hR] at hrun; cases hrun
    | some R =>
      rw [hR] at hrun
      simp only [Option.some.injEq] at hrun
      rw [← hrun]
      dsimp only
      have hRd := dim_gmresR sc.conj rpb cpb nd pat A pre B T R n m hn hA hT hR
      have hRo := gmresR_off sc.conj rpb cpb nd pat A pre B T R hn hr hc hA hpat hpre hT hR
      unfold gmresCore
      dsimp only
      have hsm : ∀ (a : K) (X : Mat K), (Dim n m X ∧ OffZero n m rpb cpb pat X) →
          (Dim n m ((matOps sc.conj).smul a X) ∧ OffZero n m rpb cpb pat ((matOps sc.conj).smul a X)) := by
        intro a X h
        refine ⟨dim_smul n m hn a X h.1, fun i j hi hj hcont => ?_⟩
        dsimp only [matOps]
        unfold Mat.smul
        rw [ofFn_get' _ _ _ i j (by rw [h.1.1]; exact hi) (by rw [h.1.2]; exact hj), h.2 i j hi hj hcont, mul_zero]
      have key := gmresLoop_dims (matOps sc.conj) sc (gmresOp sc.conj rpb cpb nd pat A pre B) tol
        (fun X => Dim n m X ∧ OffZero n m rpb cpb pat X) hsm
        (fun X Y hX hY => ⟨dim_sub n m hn X Y hX.1, fun i j hi hj hcont => by
          dsimp only [matOps]
          unfold Mat.sub
          rw [ofFn_get' _ _ _ i j (by rw [hX.1.1]; exact hi) (by rw [hX.1.2]; exact hj),
            hX.2 i j hi hj hcont, hY.2 i j hi hj hcont, sub_zero]⟩)
        (fun X Y hX h => ⟨dim_gmresOp sc.conj rpb cpb nd pat A pre B X Y n m hn hA hX.1 h,
          gmresOp_off sc.conj rpb cpb nd pat A pre B X Y hn hr hc hA hpat hpre hX.1 h⟩)
        maxiter (gmresInit (matOps sc.conj) sc R maxiter)
        (gmresInit_inv (matOps sc.conj) sc R maxiter _ hsm
          (fun Y hY => by
            have : Y = R := by simpa [gmresInit] using hY
            rw [this]; exact ⟨hRd, hRo⟩))
        (fun Y hY => by
          have : Y = R := by simpa [gmresInit] using hY
          rw [this]; exact ⟨hRd, hRo⟩)
      intro Y hY
      exact offZero_toMx rpb cpb pat Y (key Y hY).2

/-- **GMRES energy minimisation, executable model, every input**: `T'·B_c = T·B_c` and no entry outside
the allowed pattern changes (the two clauses of the property for constrained smoothing) -/
theorem gmres_run_property (sc : SOps K) (rpb cpb nd : Nat) (pat : Pat) (A : Mat K) (pre : Precond K)
    (T B : Mat K) (maxiter : Nat) (tol : K) (cpts : Array Nat) (out : EnergyGmresOut K)
    (hn : 0 < n) (hr : 0 < rpb) (hc : 0 < cpb) (hA : A.rows = n) (hT : Dim n m T) (hB : B.cols = nd)
    (hpat : PatIn m cpb pat) (hpre : PreOK rpb pre)
    (hrun : energyGmres sc rpb cpb nd pat A pre T B maxiter tol cpts = some out) :
    toMx n m out.core.T * toMx m nd B = toMx n m T * toMx m nd B ∧
    (∀ (i : Fin n) (j : Fin m), ¬ ((pat.getD (i.val / rpb) #[]).contains (j.val / cpb) = true) →
      toMx n m out.core.T i j = toMx n m T i j) ∧
    out.T = resetRoots cpts out.core.T := by
  obtain ⟨_, _, h3, h4⟩ := gmres_run_keeps_product sc rpb cpb nd pat A pre T B maxiter tol cpts out hn hr hA hT hB hpat hpre hrun
  refine ⟨h3, ?_, h4⟩
  exact (gmres_run_pattern (fun i j => (pat.getD (i.val / rpb) #[]).contains (j.val / cpb) = true)
    sc rpb cpb nd pat A pre T B maxiter tol cpts out hn hA hT hrun
    (energyGmres_projs_pattern sc rpb cpb nd pat A pre T B maxiter tol cpts out hn hr hc hA hT hpat hpre hrun)).2

/-- the preconditioners `mkPrecond` builds are of the admitted kind when the block size is the row block
size of the pattern (as in every call of the check: `rpb = bs`) -/
theorem mkPrecond_ok (weighting bs : Nat) (A : Mat K) (aux : Array K) (pre : Precond K)
    (h : mkPrecond weighting bs A aux = some pre) : PreOK bs pre := by
  unfold mkPrecond at h
  dsimp only at h
  by_cases h0 : weighting = 0
  · rw [if_pos h0] at h; cases h; trivial
  · rw [if_neg h0] at h
    by_cases h1 : weighting = 1 ∨ weighting = 4
    · rw [if_pos h1] at h; cases h; trivial
    · rw [if_neg h1] at h
      rw [Option.map_eq_some_iff] at h
      obtain ⟨zs, _, rfl⟩ := h
      rfl

/-- the concrete run of `Proofs/ExtC10bGmresArr.lean` satisfies every hypothesis of `gmres_run_property` -/
theorem exRun_property (out : EnergyGmresOut Rat) (h : exRun = some out) :
    toMx 2 2 out.core.T * toMx 2 1 exB = toMx 2 2 exT * toMx 2 1 exB ∧
    (∀ (i : Fin 2) (j : Fin 2), ¬ (((#[#[0, 1], #[0, 1]] : Pat).getD (i.val / 1) #[]).contains (j.val / 1) = true) →
      toMx 2 2 out.core.T i j = toMx 2 2 exT i j) ∧
    out.T = resetRoots #[] out.core.T :=
  gmres_run_property exSc 1 1 1 #[#[0, 1], #[0, 1]] exA (.rows #[1 / 2, 1 / 3]) exT exB 2 0 #[] out
    (by decide) (by decide) (by decide) rfl ⟨rfl, rfl⟩ rfl
    (by
      intro ib hib jb hjb
      have hib' : ib < 2 := hib
      have : ∀ x ∈ (#[0, 1] : Array Nat).toList, (x + 1) * 1 ≤ 2 := by decide
      interval_cases ib <;> exact this jb hjb)
    trivial h

#print axioms gmres_run_keeps_product
#print axioms gmres_run_property
end PyamgV.C10b
