import PyamgV.Proofs.StdAgg1

/-! PyamgV (C12): `standard_aggregation`, pass 1 — the invariant is preserved by every step. -/
namespace PyamgV.Agg
open PyamgV

theorem P1_init (G : Graph) : P1 G 0 ⟨Array.replicate G.n 0, Array.replicate G.n (-7), 1⟩ := by
  have hz : ∀ i, rd (Array.replicate G.n (0:Int)) i = 0 := by
    intro i; unfold rd; by_cases h : i < G.n <;> simp [Array.getD, h]
  refine ⟨by simp, by simp, by simp, by simp, ?_, ?_, ?_, ?_, ?_, ?_, ?_⟩
  · intro i _; exact Or.inl (hz i)
  · intro i hi h; rw [hz i] at h; omega
  · intro i hi; omega
  · intro i hi; omega
  · intro a h1 h2; simp only at h2; omega
  · intro a b h1 h2 h3; simp only at h3; omega
  · intro j _ h; rw [hz j] at h; omega

theorem pass1Step_inv (G : Graph) (hG : GraphOK G) (t : Nat) (ht : t < G.n) (s : St)
    (h : P1 G t s) : P1 G (t+1) (pass1Step G s t) := by
  have hnpos : (1 : Int) ≤ (G.n : Int) := by omega
  unfold pass1Step
  by_cases hx : rd s.x t ≠ 0
  · -- already marked
    rw [if_pos hx]
    refine ⟨h.xsize, h.ysize, h.next1, by have := h.nextt; omega, h.vals, ?_, ?_, ?_, ?_, h.incr, h.memb⟩
    · intro i hi hiso; have := h.iso i hi hiso; exact ⟨this.1, by omega⟩
    · intro i hi hin h0
      by_cases hit : i = t
      · subst hit; exact absurd h0 hx
      · exact h.zero i (by omega) hin h0
    · intro i hi hin hisoI
      by_cases hit : i = t
      · subst hit
        rcases h.vals i hin with h0 | h0 | h0
        · exact absurd h0 hx
        · exact h0
        · -- an aggregated node has a root which is a different, adjacent node: not isolated
          exfalso
          obtain ⟨hr0, hrt, hrx⟩ := h.root (rd s.x i) h0.1 h0.2
          rcases h.memb i hin h0.1 with hm | hm
          · omega
          · have hrn : (rd s.y (rd s.x i - 1).toNat).toNat < G.n := by omega
            have := (hG.symm _ i hrn hin).1 hm
            have := hisoI _ this
            omega
      · exact h.isoC i (by omega) hin hisoI
    · intro a h1 h2; have := h.root a h1 h2; exact ⟨this.1, by omega, this.2.2⟩
  · have hx0 : rd s.x t = 0 := by simpa using hx
    rw [if_neg hx]
    obtain ⟨sc1, sc2, sc3⟩ := scan1_spec s.x t (G.adj t) false
    show P1 G (t+1) (if (scan1 s.x t (G.adj t) false).1 = false then
        { s with x := wr s.x t (-(G.n : Int)) }
      else if (scan1 s.x t (G.adj t) false).2 = false then
        { x := fill (wr s.x t s.next) (G.adj t) s.next, y := wr s.y (s.next - 1).toNat (t : Int), next := s.next + 1 }
      else s)
    by_cases hN : (scan1 s.x t (G.adj t) false).1 = false
    · -- isolated node
      rw [if_pos hN]
      have hA : (scan1 s.x t (G.adj t) false).2 = false := by
        cases hb : (scan1 s.x t (G.adj t) false).2 with
        | false => rfl
        | true => have := sc3 hb; rw [hN] at this; exact absurd this (by simp)
      have hisoT : Isolated G t := by
        intro j hj
        by_cases hne : j = t
        · exact hne
        · exfalso
          have := (sc2 hA).2 (Or.inr ⟨j, hj, hne⟩)
          rw [hN] at this; exact absurd this (by simp)
      have hts : t < s.x.size := by rw [h.xsize]; exact ht
      have hnew : ∀ k, rd (wr s.x t (-(G.n : Int))) k = if k = t then -(G.n : Int) else rd s.x k := by
        intro k; rw [rd_wr]
        by_cases hkt : t = k
        · subst hkt; simp [hts]
        · have : k ≠ t := fun e => hkt e.symm
          simp [hkt, this]
      refine ⟨by simp [h.xsize], h.ysize, h.next1, by have := h.nextt; dsimp only; omega, ?_, ?_, ?_, ?_, ?_, h.incr, ?_⟩
      · intro i hi; simp only [hnew]; split
        · exact Or.inr (Or.inl rfl)
        · exact h.vals i hi
      · intro i hi hv; simp only [hnew] at hv
        by_cases hit : i = t
        · subst hit; exact ⟨hisoT, by omega⟩
        · simp only [hit, if_false] at hv; have := h.iso i hi hv; exact ⟨this.1, by omega⟩
      · intro i hi hin hv; simp only [hnew] at hv
        by_cases hit : i = t
        · subst hit; simp at hv; omega
        · simp only [hit, if_false] at hv
          obtain ⟨j, hj, hji, hjx⟩ := h.zero i (by omega) hin hv
          have hjt : j ≠ t := by intro e; subst e; rw [hx0] at hjx; omega
          exact ⟨j, hj, hji, by simp only [hnew, hjt, if_false]; exact hjx⟩
      · intro i hi hin hisoI; simp only [hnew]
        by_cases hit : i = t
        · simp [hit]
        · simp only [hit, if_false]; exact h.isoC i (by omega) hin hisoI
      · intro a h1 h2
        have h2' : a < s.next := h2
        obtain ⟨r0, rt, rx⟩ := h.root a h1 h2'
        have hne : (rd s.y (a - 1).toNat).toNat ≠ t := by omega
        show 0 ≤ rd s.y (a - 1).toNat ∧ (rd s.y (a - 1).toNat).toNat < t + 1 ∧
          rd (wr s.x t (-(G.n : Int))) (rd s.y (a - 1).toNat).toNat = a
        refine ⟨r0, by omega, ?_⟩
        rw [hnew, if_neg hne]; exact rx
      · intro j hj hv; simp only [hnew] at hv ⊢
        by_cases hjt : j = t
        · subst hjt; simp at hv; omega
        · simp only [hjt, if_false] at hv ⊢; exact h.memb j hj hv
    · have hN' : (scan1 s.x t (G.adj t) false).1 = true := by simpa using hN
      rw [if_neg hN]
      by_cases hA : (scan1 s.x t (G.adj t) false).2 = false
      · -- new aggregate rooted at t
        rw [if_pos hA]
        have hfree : ∀ j ∈ G.adj t, j ≠ t → rd s.x j = 0 := by
          intro j hj hjt
          by_cases hne : rd s.x j = 0
          · exact hne
          · exfalso
            have := sc1.2 ⟨j, hj, hjt, hne⟩
            rw [hA] at this; exact absurd this (by simp)
        obtain ⟨j0, hj0, hj0t⟩ : ∃ j ∈ G.adj t, j ≠ t := by
          have := (sc2 hA).1 hN'
          rcases this with h' | h'
          · exact absurd h' (by simp)
          · exact h'
        have hts : t < s.x.size := by rw [h.xsize]; exact ht
        have hb : ∀ j ∈ G.adj t, j < (wr s.x t s.next).size := by
          intro j hj; simp [h.xsize]; exact hG.bound t ht j hj
        obtain ⟨fsz, fsp⟩ := fill_spec s.next (G.adj t) (wr s.x t s.next) hb
        have hnew : ∀ k, rd (fill (wr s.x t s.next) (G.adj t) s.next) k =
            if k ∈ G.adj t ∨ k = t then s.next else rd s.x k := by
          intro k; rw [fsp k, rd_wr]
          by_cases hk : k ∈ G.adj t
          · simp [hk]
          · by_cases hkt : t = k
            · subst hkt; simp [hts]
            · have : k ≠ t := fun e => hkt e.symm
              simp [hk, hkt, this]
        have hidx : (s.next - 1).toNat < s.y.size := by rw [h.ysize]; have := h.nextt; have := h.next1; omega
        have hnewy : ∀ k, rd (wr s.y (s.next - 1).toNat (t : Int)) k =
            if k = (s.next - 1).toNat then (t : Int) else rd s.y k := by
          intro k; rw [rd_wr]
          by_cases hk : (s.next - 1).toNat = k
          · subst hk; rw [if_pos ⟨rfl, hidx⟩, if_pos rfl]
          · have : k ≠ (s.next - 1).toNat := fun e => hk e.symm
            rw [if_neg (fun hh => hk hh.1), if_neg this]
        have hn1 := h.next1
        refine ⟨by simp [fsz, h.xsize], by simp [h.ysize], by simp only; omega,
          by simp only; have := h.nextt; omega, ?_, ?_, ?_, ?_, ?_, ?_, ?_⟩
        · intro i hi; simp only [hnew]; split
          · exact Or.inr (Or.inr ⟨hn1, by omega⟩)
          · rcases h.vals i hi with h0 | h0 | h0
            · exact Or.inl h0
            · exact Or.inr (Or.inl h0)
            · exact Or.inr (Or.inr ⟨h0.1, by omega⟩)
        · intro i hi hv; simp only [hnew] at hv
          split at hv
          · omega
          · have := h.iso i hi hv; exact ⟨this.1, by omega⟩
        · intro i hi hin hv; simp only [hnew] at hv
          split at hv
          · omega
          · rename_i hni
            have hit : i ≠ t := fun e => hni (Or.inr e)
            obtain ⟨j, hj, hji, hjx⟩ := h.zero i (by omega) hin hv
            refine ⟨j, hj, hji, ?_⟩
            simp only [hnew]; split
            · exact hn1
            · exact hjx
        · intro i hi hin hisoI; simp only [hnew]
          have hit : i ≠ t := by
            intro e; subst e; exact hj0t (hisoI j0 hj0)
          have hnadj : i ∉ G.adj t := by
            intro hm
            have := (hG.symm t i ht hin).1 hm
            exact hit (hisoI t this).symm
          simp only [hnadj, hit, or_self, if_false]
          exact h.isoC i (by omega) hin hisoI
        · intro a h1 h2
          have h2' : a < s.next + 1 := h2
          show 0 ≤ rd (wr s.y (s.next - 1).toNat (t : Int)) (a - 1).toNat ∧
            (rd (wr s.y (s.next - 1).toNat (t : Int)) (a - 1).toNat).toNat < t + 1 ∧
            rd (fill (wr s.x t s.next) (G.adj t) s.next)
              (rd (wr s.y (s.next - 1).toNat (t : Int)) (a - 1).toNat).toNat = a
          by_cases ha : a = s.next
          · subst ha
            rw [hnewy, if_pos rfl]
            refine ⟨by omega, by simp, ?_⟩
            rw [hnew]; simp
          · have halt : a < s.next := by omega
            obtain ⟨r0, rt, rx⟩ := h.root a h1 halt
            have hidxne : (a - 1).toNat ≠ (s.next - 1).toNat := by omega
            rw [hnewy, if_neg hidxne]
            refine ⟨r0, by omega, ?_⟩
            have hrn : (rd s.y (a - 1).toNat).toNat < G.n := by omega
            have hrt : (rd s.y (a - 1).toNat).toNat ≠ t := by omega
            have hradj : (rd s.y (a - 1).toNat).toNat ∉ G.adj t := by
              intro hm
              have := hfree _ hm hrt
              rw [rx] at this; omega
            rw [hnew, if_neg (by intro hc; rcases hc with hc | hc; exact hradj hc; exact hrt hc)]
            exact rx
        · intro a b h1 h2 h3
          have h3' : b < s.next + 1 := h3
          show rd (wr s.y (s.next - 1).toNat (t : Int)) (a - 1).toNat <
               rd (wr s.y (s.next - 1).toNat (t : Int)) (b - 1).toNat
          have hane : (a - 1).toNat ≠ (s.next - 1).toNat := by omega
          rw [hnewy, hnewy, if_neg hane]
          by_cases hb' : b = s.next
          · subst hb'
            rw [if_pos rfl]
            obtain ⟨r0, rt, _⟩ := h.root a h1 (by omega)
            omega
          · have hbne : (b - 1).toNat ≠ (s.next - 1).toNat := by omega
            rw [if_neg hbne]
            exact h.incr a b h1 h2 (by omega)
        · intro j hj hv
          have hv' : 1 ≤ rd (fill (wr s.x t s.next) (G.adj t) s.next) j := hv
          show j = (rd (wr s.y (s.next - 1).toNat (t : Int))
                (rd (fill (wr s.x t s.next) (G.adj t) s.next) j - 1).toNat).toNat ∨
              j ∈ G.adj (rd (wr s.y (s.next - 1).toNat (t : Int))
                (rd (fill (wr s.x t s.next) (G.adj t) s.next) j - 1).toNat).toNat
          rw [hnew] at hv' ⊢
          by_cases hc : j ∈ G.adj t ∨ j = t
          · rw [if_pos hc, hnewy, if_pos rfl]
            rcases hc with hc | hc
            · right; simpa using hc
            · left; simp [hc]
          · rw [if_neg hc] at hv' ⊢
            have hlt : rd s.x j < s.next := by
              rcases h.vals j hj with h0 | h0 | h0 <;> omega
            have hidxne : (rd s.x j - 1).toNat ≠ (s.next - 1).toNat := by omega
            rw [hnewy, if_neg hidxne]
            exact h.memb j hj hv'
      · -- has an aggregated neighbour: left for pass 2
        have hA' : (scan1 s.x t (G.adj t) false).2 = true := by simpa using hA
        rw [if_neg hA]
        obtain ⟨j, hj, hjt, hjx⟩ := sc1.1 hA'
        have hjn : j < G.n := hG.bound t ht j hj
        refine ⟨h.xsize, h.ysize, h.next1, by have := h.nextt; omega, h.vals, ?_, ?_, ?_, ?_, h.incr, h.memb⟩
        · intro i hi hiso; have := h.iso i hi hiso; exact ⟨this.1, by omega⟩
        · intro i hi hin h0
          by_cases hit : i = t
          · subst hit
            refine ⟨j, hj, hjt, ?_⟩
            rcases h.vals j hjn with h1 | h1 | h1
            · exact absurd h1 hjx
            · exfalso
              have := (h.iso j hjn h1).1
              have hm := (hG.symm i j hin hjn).1 hj
              exact hjt (this i hm).symm
            · exact h1.1
          · exact h.zero i (by omega) hin h0
        · intro i hi hin hisoI
          by_cases hit : i = t
          · subst hit; exact absurd (hisoI j hj) hjt
          · exact h.isoC i (by omega) hin hisoI
        · intro a h1 h2; have := h.root a h1 h2; exact ⟨this.1, by omega, this.2.2⟩

theorem pass1_inv (G : Graph) (hG : GraphOK G) : P1 G G.n (pass1 G) := by
  unfold pass1
  exact foldl_range_inv (fun k s => P1 G k s) _ G.n _ (P1_init G)
    (fun k s hk hp => pass1Step_inv G hG k hk s hp)

#print axioms pass1_inv
end PyamgV.Agg
