import PyamgV.Proofs.Mis

/-! PyamgV (C18): `vertex_coloring_mis` (graph.h:212) — colour `K` is given to a maximal
independent set of the still uncoloured nodes, computed by
`maximal_independent_set_serial(…, active = -1-K, C = K, F = -2-K, x)`; the value `-2-K`
written to rejected nodes *is* the active marker of the next round.

Proved here: the generalised invariant of the serial MIS kernel on an array that already holds
other values (old colours), and the round invariant of the colouring: after round `K` every entry
is a colour `< K+1` or the next active marker, adjacent distinct nodes never share a colour, and
colour `K` is used whenever some node was still uncoloured. (The bookkeeping `N += returned
count` of the outer `while(N < num_rows)` is the remaining piece.) Core Lean only. -/
namespace PyamgV.Col
open PyamgV

/-- generalised invariant of `misSerial` started from an arbitrary array `x0` in which the
markers `C` and `F` do not occur -/
structure GInv (G : Graph) (act C F : Int) (x0 : Array Int) (k : Nat) (x : Array Int) : Prop where
  size : x.size = G.n
  vals : ∀ i, i < G.n → (rd x0 i ≠ act ∧ rd x i = rd x0 i) ∨
    (rd x0 i = act ∧ (rd x i = act ∨ rd x i = C ∨ rd x i = F))
  done : ∀ i, i < k → i < G.n → rd x i ≠ act
  cnb : ∀ i, i < G.n → rd x i = C → ∀ j ∈ G.adj i, j ≠ i → rd x j ≠ act ∧ rd x j ≠ C
  idle : (∀ i, i < G.n → rd x i ≠ C) → ∀ i, i < G.n → rd x i = rd x0 i

theorem gstep_inv (G : Graph) (hG : GraphOK G) (act C F : Int)
    (hCA : C ≠ act) (hFA : F ≠ act) (hCF : C ≠ F) (x0 : Array Int)
    (k : Nat) (hk : k < G.n) (x : Array Int) (h : GInv G act C F x0 k x) :
    GInv G act C F x0 (k+1) (misStep G act C F x k) := by
  unfold misStep
  by_cases hx : rd x k ≠ act
  · simp only [hx, ne_eq, not_false_eq_true, if_true]
    refine ⟨h.size, h.vals, ?_, h.cnb, h.idle⟩
    intro i hi hin
    by_cases hik : i = k
    · subst hik; exact hx
    · exact h.done i (by omega) hin
  · have hxk : rd x k = act := by simpa using hx
    simp only [hxk, ne_eq, not_true_eq_false, if_false]
    have hb : ∀ j ∈ G.adj k, j < (wr x k C).size := by
      intro j hj; simp [h.size]; exact hG.bound k hk j hj
    obtain ⟨hsz, hsp⟩ := misInner_spec act F hFA (G.adj k) (wr x k C) hb
    have hw : ∀ m, rd (wr x k C) m = if m = k then C else rd x m := by
      intro m; rw [rd_wr]
      by_cases hmk : k = m
      · subst hmk; simp [h.size, hk]
      · have : m ≠ k := fun e => hmk e.symm
        simp [hmk, this]
    have hnew : ∀ m, rd (misInner act F (wr x k C) (G.adj k)) m =
        if m = k then C else if m ∈ G.adj k ∧ rd x m = act then F else rd x m := by
      intro m; rw [hsp m, hw m]
      by_cases hmk : m = k
      · subst hmk; simp [hCA]
      · simp [hmk]
    have hk0 : rd x0 k = act := by
      rcases h.vals k hk with ⟨h1, h2⟩ | ⟨h1, _⟩
      · rw [h2] at hxk; exact absurd hxk h1
      · exact h1
    refine ⟨by simpa [h.size] using hsz, ?_, ?_, ?_, ?_⟩
    · intro i hi
      rw [hnew i]
      by_cases hik : i = k
      · subst hik; rw [if_pos rfl]; exact Or.inr ⟨hk0, Or.inr (Or.inl rfl)⟩
      · rw [if_neg hik]
        by_cases hc : i ∈ G.adj k ∧ rd x i = act
        · rw [if_pos hc]
          rcases h.vals i hi with ⟨h1, h2⟩ | ⟨h1, _⟩
          · rw [h2] at hc; exact absurd hc.2 h1
          · exact Or.inr ⟨h1, Or.inr (Or.inr rfl)⟩
        · rw [if_neg hc]; exact h.vals i hi
    · intro i hi hin
      rw [hnew i]
      by_cases hik : i = k
      · rw [if_pos hik]; exact hCA
      · rw [if_neg hik]
        by_cases hc : i ∈ G.adj k ∧ rd x i = act
        · rw [if_pos hc]; exact hFA
        · rw [if_neg hc]; exact h.done i (by omega) hin
    · intro i hi hiC j hj hji
      have hjn : j < G.n := hG.bound i hi j hj
      rw [hnew i] at hiC
      rw [hnew j]
      by_cases hik : i = k
      · -- the new C node: its neighbours were not C, and the active ones become F
        subst hik
        rw [if_neg hji]
        by_cases hja : rd x j = act
        · rw [if_pos ⟨hj, hja⟩]; exact ⟨hFA, fun e => hCF e.symm⟩
        · rw [if_neg (fun hc => hja hc.2)]
          refine ⟨hja, ?_⟩
          intro hjC
          have hij : i ∈ G.adj j := (hG.symm i j hi hjn).1 hj
          exact (h.cnb j hjn hjC i hij (Ne.symm hji)).1 hxk
      · rw [if_neg hik] at hiC
        have hiC' : rd x i = C := by
          by_cases hc : i ∈ G.adj k ∧ rd x i = act
          · rw [if_pos hc] at hiC; exact absurd hiC.symm hCF
          · rw [if_neg hc] at hiC; exact hiC
        have hold := h.cnb i hi hiC' j hj hji
        by_cases hjk : j = k
        · rw [hjk] at hold; exact absurd hxk hold.1
        · rw [if_neg hjk, if_neg (fun hc => hold.1 hc.2)]; exact hold
    · intro hnoC
      have := hnoC k hk
      rw [hnew k, if_pos rfl] at this
      exact absurd rfl this

theorem gmis_inv (G : Graph) (hG : GraphOK G) (act C F : Int)
    (hCA : C ≠ act) (hFA : F ≠ act) (hCF : C ≠ F) (x0 : Array Int) (hsz : x0.size = G.n)
    (hfresh : ∀ i, i < G.n → rd x0 i ≠ C ∧ rd x0 i ≠ F) :
    GInv G act C F x0 G.n (misSerial G act C F x0) := by
  unfold misSerial
  apply foldl_range_inv (fun k s => GInv G act C F x0 k s)
  · refine ⟨hsz, ?_, fun i hi => by omega, ?_, fun _ i _ => rfl⟩
    · intro i hi
      by_cases ha : rd x0 i = act
      · exact Or.inr ⟨ha, Or.inl ha⟩
      · exact Or.inl ⟨ha, rfl⟩
    · intro i hi hiC; exact absurd hiC (hfresh i hi).1
  · intro k s hk hp; exact gstep_inv G hG act C F hCA hFA hCF x0 k hk s hp

/-- state between rounds: colours `0..K-1`, or the active marker `-1-K` -/
structure R (G : Graph) (K : Nat) (x : Array Int) : Prop where
  size : x.size = G.n
  vals : ∀ i, i < G.n → (0 ≤ rd x i ∧ rd x i < (K : Int)) ∨ rd x i = -1 - (K : Int)
  proper : ∀ i, i < G.n → 0 ≤ rd x i → ∀ j ∈ G.adj i, j ≠ i → rd x j ≠ rd x i
  used : ∀ c : Nat, c < K → ∃ i, i < G.n ∧ rd x i = (c : Int)

/-- **one colouring round** -/
theorem round_inv (G : Graph) (hG : GraphOK G) (K : Nat) (x : Array Int) (h : R G K x)
    (hsome : ∃ i, i < G.n ∧ rd x i = -1 - (K : Int)) :
    R G (K+1) (misSerial G (-1 - (K : Int)) (K : Int) (-2 - (K : Int)) x) := by
  have hCA : (K : Int) ≠ -1 - (K : Int) := by omega
  have hFA : -2 - (K : Int) ≠ -1 - (K : Int) := by omega
  have hCF : (K : Int) ≠ -2 - (K : Int) := by omega
  have hfresh : ∀ i, i < G.n → rd x i ≠ (K : Int) ∧ rd x i ≠ -2 - (K : Int) := by
    intro i hi
    rcases h.vals i hi with h1 | h1 <;> constructor <;> omega
  have hI := gmis_inv G hG _ _ _ hCA hFA hCF x h.size hfresh
  generalize misSerial G (-1 - (K : Int)) (K : Int) (-2 - (K : Int)) x = x' at hI
  -- entry classification after the round
  have hcls : ∀ i, i < G.n →
      (0 ≤ rd x i ∧ rd x i < (K : Int) ∧ rd x' i = rd x i) ∨
      (rd x i = -1 - (K : Int) ∧ (rd x' i = (K : Int) ∨ rd x' i = -2 - (K : Int))) := by
    intro i hi
    rcases hI.vals i hi with ⟨h1, h2⟩ | ⟨h1, h2⟩
    · rcases h.vals i hi with h3 | h3
      · exact Or.inl ⟨h3.1, h3.2, h2⟩
      · exact absurd h3 h1
    · right
      refine ⟨h1, ?_⟩
      rcases h2 with h2 | h2 | h2
      · exact absurd h2 (hI.done i hi hi)
      · exact Or.inl h2
      · exact Or.inr h2
  refine ⟨hI.size, ?_, ?_, ?_⟩
  · intro i hi
    rcases hcls i hi with ⟨h1, h2, h3⟩ | ⟨_, h2 | h2⟩
    · left; rw [h3]; constructor <;> omega
    · left; rw [h2]; constructor <;> omega
    · right; rw [h2]; omega
  · intro i hi hpos j hj hji
    have hjn : j < G.n := hG.bound i hi j hj
    rcases hcls i hi with ⟨h1, h2, h3⟩ | ⟨_, h2 | h2⟩
    · -- old colour: a neighbour with the same colour would be old as well
      rcases hcls j hjn with ⟨g1, g2, g3⟩ | ⟨_, g2 | g2⟩
      · rw [h3, g3]; exact h.proper i hi h1 j hj hji
      · rw [h3, g2]; omega
      · rw [h3, g2]; omega
    · rw [h2]; exact (hI.cnb i hi h2 j hj hji).2
    · rw [h2] at hpos; omega
  · intro c hc
    by_cases hcK : c = K
    · subst hcK
      -- if no node received colour K nothing was written, but an active node cannot survive
      apply Classical.byContradiction
      intro hne
      have hnoC : ∀ i, i < G.n → rd x' i ≠ (c : Int) := by
        intro i hi hiC; exact hne ⟨i, hi, hiC⟩
      obtain ⟨i0, hi0, ha⟩ := hsome
      have := hI.idle hnoC i0 hi0
      rw [ha] at this
      exact hI.done i0 hi0 hi0 this
    · obtain ⟨i, hi, hic⟩ := h.used c (by omega)
      refine ⟨i, hi, ?_⟩
      rcases hcls i hi with ⟨_, _, h3⟩ | ⟨h1, _⟩
      · rw [h3]; exact hic
      · rw [hic] at h1; omega

/-- the initial `std::fill(x, -1)` is the round-0 state -/
theorem R_init (G : Graph) : R G 0 (Array.replicate G.n (-1)) := by
  refine ⟨by simp, ?_, ?_, ?_⟩
  · intro i hi; right; simp [rd, hi]
  · intro i hi hpos; simp [rd, hi] at hpos
  · intro c hc; omega

#print axioms round_inv
end PyamgV.Col
