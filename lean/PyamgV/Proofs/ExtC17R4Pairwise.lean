import PyamgV.Model.ExtC17R4Pairwise
import PyamgV.Proofs.ExtC17R4Graph

/-! PyamgV (C17, extension E32, round 4): bounds-safety, iterator validity and termination of the `Ck` model of
`pairwise_aggregation` (`Model/ExtC17R4Pairwise.lean`).  Invariant of the `while` loop: every node with `x == 0` still has
its pair in the multimap (so `mmap_iterators[..]` is only dereferenced / erased while valid), the pairs belong to nodes
`0..n-1`, and `(next_aggregate - 1) + |mmap| ≤ n` (so `y[next_aggregate-1]` is in range and `n` passes suffice: every pass
erases the pair of the selected node).  Core Lean only. -/
namespace PyamgV.C17R4
open PyamgV.Ck PyamgV.C17

set_option linter.unusedSectionVars false
set_option linter.unusedVariables false

variable {α : Type} [Inhabited α]

/-! ### the multimap -/

def nodes (l : MMap) : List Int := l.map (·.2)

theorem mem_nodes_insert (k v u : Int) (l : MMap) : u ∈ nodes (mmInsert k v l) ↔ u = v ∨ u ∈ nodes l := by
  induction l with
  | nil => simp [mmInsert, nodes]
  | cons e l ih =>
    unfold mmInsert
    by_cases h : e.1 ≤ k
    · rw [if_pos h]
      have e1 : nodes (e :: mmInsert k v l) = e.2 :: nodes (mmInsert k v l) := rfl
      have e2 : nodes (e :: l) = e.2 :: nodes l := rfl
      rw [e1, List.mem_cons, ih, e2, List.mem_cons]
      constructor
      · rintro (h | h | h)
        · exact Or.inr (Or.inl h)
        · exact Or.inl h
        · exact Or.inr (Or.inr h)
      · rintro (h | h | h)
        · exact Or.inr (Or.inl h)
        · exact Or.inl h
        · exact Or.inr (Or.inr h)
    · rw [if_neg h]
      simp [nodes]

theorem length_insert (k v : Int) (l : MMap) : (mmInsert k v l).length = l.length + 1 := by
  induction l with
  | nil => rfl
  | cons e l ih =>
    unfold mmInsert
    by_cases h : e.1 ≤ k
    · rw [if_pos h]; simp [ih]
    · rw [if_neg h]; simp

theorem mem_nodes_erase (v u : Int) (l : MMap) : u ∈ nodes (mmErase v l) ↔ u ∈ nodes l ∧ u ≠ v := by
  unfold nodes mmErase
  simp only [List.mem_map, List.mem_filter]
  constructor
  · rintro ⟨e, ⟨he, hne⟩, rfl⟩
    exact ⟨⟨e, he, rfl⟩, by simpa using hne⟩
  · rintro ⟨⟨e, he, rfl⟩, hne⟩
    exact ⟨e, ⟨he, by simpa using hne⟩, rfl⟩

theorem length_erase_le (v : Int) (l : MMap) : (mmErase v l).length ≤ l.length := List.length_filter_le _ _

theorem length_erase_lt (v : Int) (l : MMap) (h : v ∈ nodes l) : (mmErase v l).length < l.length := by
  induction l with
  | nil => simp [nodes] at h
  | cons e l ih =>
    unfold mmErase
    by_cases he : e.2 = v
    · rw [List.filter_cons_of_neg (by simp [he])]
      have := length_erase_le v l
      unfold mmErase at this
      simp only [List.length_cons]; omega
    · rw [List.filter_cons_of_pos (by simp [he])]
      have hv : v ∈ nodes l := by
        have e2 : nodes (e :: l) = e.2 :: nodes l := rfl
        rw [e2, List.mem_cons] at h
        rcases h with h | h
        · exact absurd h.symm he
        · exact h
      have := ih hv
      unfold mmErase at this
      simp only [List.length_cons]; omega

theorem mmKey_mem (v : Int) (l : MMap) (k : Int) (h : mmKey v l = some k) : v ∈ nodes l := by
  induction l with
  | nil => simp [mmKey] at h
  | cons e l ih =>
    unfold mmKey at h
    have e2 : nodes (e :: l) = e.2 :: nodes l := rfl
    rw [e2, List.mem_cons]
    by_cases he : e.2 = v
    · exact Or.inl he.symm
    · rw [if_neg he] at h; exact Or.inr (ih h)

theorem mmKey_of_mem (v : Int) (l : MMap) (h : v ∈ nodes l) : ∃ k, mmKey v l = some k := by
  induction l with
  | nil => simp [nodes] at h
  | cons e l ih =>
    unfold mmKey
    by_cases he : e.2 = v
    · rw [if_pos he]; exact ⟨_, rfl⟩
    · rw [if_neg he]
      have e2 : nodes (e :: l) = e.2 :: nodes l := rfl
      rw [e2, List.mem_cons] at h
      rcases h with h | h
      · exact absurd h.symm he
      · exact ih h

/-- re-keying a node whose pair is in the multimap: in range, same nodes, not longer -/
theorem mmDecCk_safe (v : Int) (l : MMap) (h : v ∈ nodes l) :
    Safe (mmDecCk v l) (fun l' => (∀ u, u ∈ nodes l' ↔ u ∈ nodes l) ∧ l'.length ≤ l.length) := by
  obtain ⟨k, hk⟩ := mmKey_of_mem v l h
  unfold mmDecCk
  rw [hk]
  refine Safe.pure ⟨fun u => ?_, ?_⟩
  · rw [mem_nodes_insert, mem_nodes_erase]
    constructor
    · rintro (e | e)
      · rw [e]; exact h
      · exact e.1
    · intro hu
      by_cases e : u = v
      · exact Or.inl e
      · exact Or.inr ⟨hu, e⟩
  · rw [length_insert]
    have := length_erase_lt v l h
    omega

/-- erasing through a valid iterator: in range, the node is gone, strictly shorter -/
theorem mmEraseCk_safe (v : Int) (l : MMap) (h : v ∈ nodes l) :
    Safe (mmEraseCk v l) (fun l' => (∀ u, u ∈ nodes l' ↔ u ∈ nodes l ∧ u ≠ v) ∧ l'.length < l.length) := by
  obtain ⟨k, hk⟩ := mmKey_of_mem v l h
  unfold mmEraseCk
  rw [hk]
  exact Safe.pure ⟨fun u => mem_nodes_erase v u l, length_erase_lt v l h⟩

/-! ### rows of a matrix with values -/

theorem row_factsG {n : Nat} (G : Csr α) (hG : WFm G n) (i : Int) (i0 : 0 ≤ i) (i1 : i < (G.n : Int)) :
    Safe (rd G.ap i) (fun s => s = G.ap.getD i.toNat 0) ∧ Safe (rd G.ap (i+1)) (fun e => e = G.ap.getD (i.toNat + 1) 0) ∧
    ∀ jj, G.ap.getD i.toNat 0 ≤ jj → jj < G.ap.getD (i.toNat + 1) 0 →
      (0 ≤ jj ∧ jj.toNat < G.ax.size) ∧ Safe (rd G.aj jj) (fun j => j = G.aj.getD jj.toNat 0 ∧ 0 ≤ j ∧ j < (n : Int)) := by
  obtain ⟨q1, q2⟩ := rd_ap_safe G hG i i0 i1
  refine ⟨q1, q2, fun jj j1 j2 => ?_⟩
  have hr := row_range_m G hG i.toNat (by omega) jj j1 j2
  refine ⟨⟨hr.1, hr.2.2⟩, Safe.mono (rd_safe G.aj jj hr.1 hr.2.1) (fun j hj => ?_)⟩
  have hcc := col_ok G hG jj hr.1 hr.2.1 j hj
  exact ⟨hj, hcc.1, by omega⟩

/-! ### the straight-line loops -/

theorem pwCount_safe {n : Nat} {ap aj : Array Int} (hA : WFm (patS n ap aj) n) :
    Safe (pwCount n ap aj) (fun m => m.size = n) := by
  unfold pwCount
  apply forRange_safe (fun m : Array Int => m.size = n) _ _ _ _ (by simp)
  intro i i0 i1 m hm
  obtain ⟨q1, q2, hrow⟩ := row_facts hA i i0 i1
  refine Safe.bind q1 (fun s hs => ?_)
  refine Safe.bind q2 (fun e he => ?_)
  subst hs; subst he
  apply forRange_safe (fun m : Array Int => m.size = n) _ _ _ _ hm
  intro jj j1 j2 m' hm'
  refine Safe.bind (hrow jj j1 j2) (fun c hc => ?_)
  by_cases hci : c ≠ i
  · rw [if_pos hci]
    refine Safe.bind (rd_safe m' c hc.2.1 (by rw [hm']; omega)) (fun mc _ => ?_)
    exact Safe.mono (wr_safe m' c _ hc.2.1 (by rw [hm']; omega)) (fun m'' h => by rw [h, hm'])
  · rw [if_neg hci]; exact Safe.pure hm'

theorem pwInit_safe (n : Nat) (m : Array Int) (hm : m.size = n) :
    Safe (pwInit n m) (fun r => r.2.size = n ∧ (∀ v, v ∈ nodes r.1 → 0 ≤ v ∧ v < (n : Int)) ∧
      (∀ v : Nat, v < n → (v : Int) ∈ nodes r.1) ∧ r.1.length = n) := by
  unfold pwInit
  refine Safe.mono (forRange_safe_idx
    (fun (i : Int) (r : MMap × Array Int) => r.2.size = n ∧ (∀ v, v ∈ nodes r.1 → 0 ≤ v ∧ v < i) ∧
      (∀ v : Nat, (v : Int) < i → (v : Int) ∈ nodes r.1) ∧ (r.1.length : Int) = i)
    0 (n : Int) (by omega) _ _ ⟨by simp, fun v hv => by simp [nodes] at hv, fun v hv => by omega, rfl⟩ ?_)
    (fun r h => ⟨h.1, h.2.1, fun v hv => h.2.2.1 v (by omega), by have := h.2.2.2; omega⟩)
  intro i i0 i1 r hr
  obtain ⟨h1, h2, h3, h4⟩ := hr
  refine Safe.bind (rd_safe m i i0 (by rw [hm]; omega)) (fun mi _ => ?_)
  refine Safe.bind (wr_safe r.2 i i i0 (by rw [h1]; omega)) (fun its hits => ?_)
  refine Safe.pure ⟨by show its.size = n; rw [hits, h1], fun v hv => ?_, fun v hv => ?_, ?_⟩
  · have hv' : v ∈ nodes (mmInsert mi i r.1) := hv
    rw [mem_nodes_insert] at hv'
    rcases hv' with e | e
    · omega
    · have := h2 v e; omega
  · show (v : Int) ∈ nodes (mmInsert mi i r.1)
    rw [mem_nodes_insert]
    by_cases e : (v : Int) = i
    · exact Or.inl e
    · exact Or.inr (h3 v (by omega))
  · show ((mmInsert mi i r.1).length : Int) = i + 1
    rw [length_insert]; omega

/-- the search: a neighbour that is found is a node with `x == 0` -/
theorem pwSearch_safe (o : PwOps α) {n : Nat} (G : Csr α) (hG : WFm G n) (i : Int) (i0 : 0 ≤ i) (i1 : i < (G.n : Int))
    (x : Array Int) (hx : x.size = n) :
    Safe (pwSearch o G.aj G.ax (G.ap.getD i.toNat 0) (G.ap.getD (i.toNat + 1) 0) x)
      (fun r => r.2.1 = true → 0 ≤ r.1 ∧ r.1 < (n : Int) ∧ x.getD r.1.toNat 0 = 0) := by
  obtain ⟨_, _, hrow⟩ := row_factsG G hG i i0 i1
  unfold pwSearch
  apply forRange_safe (fun r : Int × Bool × α => r.2.1 = true → 0 ≤ r.1 ∧ r.1 < (n : Int) ∧ x.getD r.1.toNat 0 = 0)
    _ _ _ _ (fun h => by cases h)
  intro jj j1 j2 st hst
  obtain ⟨hjx, hrd⟩ := hrow jj j1 j2
  refine Safe.bind hrd (fun c hc => ?_)
  refine Safe.bind (rd_safe x c hc.2.1 (by rw [hx]; omega)) (fun xc hxc => ?_)
  have hxc' : xc = x.getD c.toNat 0 := hxc
  by_cases hz : xc = 0
  · rw [if_pos hz]
    refine Safe.bind (rd_safe G.ax jj hjx.1 hjx.2) (fun a _ => ?_)
    by_cases hge : o.ge a st.2.2 = true
    · rw [if_pos hge]; exact Safe.pure (fun _ => ⟨hc.2.1, hc.2.2, by rw [← hxc']; exact hz⟩)
    · rw [if_neg hge]; exact Safe.pure hst
  · rw [if_neg hz]; exact Safe.pure hst

/-- the re-keying loop: every neighbour with `x == 0` has a valid iterator -/
theorem pwDecRow_safe {n : Nat} {ap aj : Array Int} (hA : WFm (patS n ap aj) n) (i : Int) (i0 : 0 ≤ i) (i1 : i < (n : Int))
    (x its : Array Int) (hx : x.size = n) (hits : its.size = n) (mm : MMap)
    (hval : ∀ v : Nat, v < n → x.getD v 0 = 0 → (v : Int) ∈ nodes mm) :
    Safe (pwDecRow aj (ap.getD i.toNat 0) (ap.getD (i.toNat + 1) 0) x its mm)
      (fun mm' => (∀ u, u ∈ nodes mm' ↔ u ∈ nodes mm) ∧ mm'.length ≤ mm.length) := by
  obtain ⟨_, _, hrow⟩ := row_facts hA i i0 i1
  unfold pwDecRow
  apply forRange_safe (fun mm' : MMap => (∀ u, u ∈ nodes mm' ↔ u ∈ nodes mm) ∧ mm'.length ≤ mm.length) _ _ _ _
    ⟨fun _ => Iff.rfl, Nat.le_refl _⟩
  intro jj j1 j2 mm' hmm'
  refine Safe.bind (hrow jj j1 j2) (fun c hc => ?_)
  refine Safe.bind (rd_safe x c hc.2.1 (by rw [hx]; omega)) (fun xc hxc => ?_)
  have hxc' : xc = x.getD c.toNat 0 := hxc
  by_cases hz : xc = 0
  · rw [if_pos hz]
    refine Safe.bind (rd_safe its c hc.2.1 (by rw [hits]; omega)) (fun _ _ => ?_)
    have hin : c ∈ nodes mm' := by
      rw [hmm'.1]
      have := hval c.toNat (by omega) (by rw [← hxc']; exact hz)
      have e : ((c.toNat : Nat) : Int) = c := by omega
      rw [e] at this; exact this
    refine Safe.mono (mmDecCk_safe c mm' hin) (fun mm'' h => ⟨fun u => (h.1 u).trans (hmm'.1 u), by omega⟩)
  · rw [if_neg hz]; exact Safe.pure hmm'

/-! ### the `while` loop -/

structure PWInv (n : Nat) (st : PW) : Prop where
  sx : st.x.size = n
  sy : st.y.size = n
  sits : st.its.size = n
  range : ∀ v, v ∈ nodes st.mm → 0 ≤ v ∧ v < (n : Int)
  valid : ∀ v : Nat, v < n → st.x.getD v 0 = 0 → (v : Int) ∈ nodes st.mm
  next1 : 1 ≤ st.next
  room : st.next - 1 + (st.mm.length : Int) ≤ (n : Int)

theorem getD_set2 (x : Array Int) (i : Nat) (v : Int) (hi : i < x.size) (k : Nat) :
    (x.setIfInBounds i v).getD k 0 = if i = k then v else x.getD k 0 := by
  rw [getD_setInt]
  by_cases hk : i = k
  · rw [if_pos ⟨hk, hi⟩, if_pos hk]
  · rw [if_neg (fun h => hk h.1), if_neg hk]

/-- one pass of the `while` body for the node `i` at the head of the multimap: in range, every iterator it uses is valid,
and the multimap gets shorter -/
theorem pwIter_safe (o : PwOps α) {n : Nat} (G : Csr α) (hG : WFm G n) (hn : G.n = n) (st : PW) (hst : PWInv n st)
    (i : Int) (hi : i ∈ nodes st.mm) :
    Safe (pwIter o G.ap G.aj G.ax i st) (fun st' => PWInv n st' ∧ st'.mm.length < st.mm.length) := by
  have hA : WFm (patS n G.ap G.aj) n :=
    ⟨by show G.ap.size = n + 1; rw [hG.ap_size, hn], hG.ap0, by intro k hk; exact hG.mono k (by rw [hn]; exact hk),
     by show G.ap.getD n 0 ≤ _; rw [← hn]; exact hG.last_j, by show G.ap.getD n 0 ≤ _; rw [← hn]; exact hG.last_j, hG.cols⟩
  obtain ⟨i0, i1⟩ := hst.range i hi
  have hlen : 1 ≤ st.mm.length := by
    cases hm : st.mm with
    | nil => rw [hm] at hi; simp [nodes] at hi
    | cons e l => simp
  have hroom := hst.room
  have hnext := hst.next1
  obtain ⟨q1, q2, _⟩ := row_facts hA i i0 i1
  unfold pwIter
  refine Safe.bind q1 (fun s hs => ?_)
  refine Safe.bind q2 (fun e he => ?_)
  subst hs; subst he
  have hisx : i.toNat < st.x.size := by rw [hst.sx]; omega
  refine Safe.bind (wr_val st.x i st.next i0 hisx) (fun x1 hx1 => ?_)
  have hx1s : x1.size = n := by rw [hx1]; simp [hst.sx]
  have hx1v : ∀ k, x1.getD k 0 = if i.toNat = k then st.next else st.x.getD k 0 := by
    intro k; rw [hx1]; exact getD_set2 st.x i.toNat st.next hisx k
  refine Safe.bind (pwSearch_safe o G hG i i0 (by rw [hn]; exact i1) x1 hx1s) (fun r hr => ?_)
  by_cases hf : r.2.1 = true
  · -- a neighbour `j = r.1` was found
    obtain ⟨j0, j1, hj⟩ := hr hf
    have hji : i.toNat ≠ r.1.toNat := by
      intro h
      rw [hx1v, if_pos h] at hj
      omega
    have hxj : st.x.getD r.1.toNat 0 = 0 := by rw [hx1v, if_neg hji] at hj; exact hj
    have hjin : r.1 ∈ nodes st.mm := by
      have := hst.valid r.1.toNat (by omega) hxj
      have e : ((r.1.toNat : Nat) : Int) = r.1 := by omega
      rw [e] at this; exact this
    simp only [if_pos hf]
    have hjsx : r.1.toNat < x1.size := by rw [hx1s]; omega
    refine Safe.bind (wr_val x1 r.1 st.next j0 hjsx) (fun x2 hx2 => ?_)
    have hx2s : x2.size = n := by rw [hx2]; simp [hx1s]
    have hx2v : ∀ k, x2.getD k 0 = if r.1.toNat = k then st.next else if i.toNat = k then st.next else st.x.getD k 0 := by
      intro k; rw [hx2, getD_set2 x1 r.1.toNat st.next hjsx k, hx1v k]
    have hx2z : ∀ v : Nat, v < n → x2.getD v 0 = 0 → st.x.getD v 0 = 0 ∧ v ≠ i.toNat ∧ v ≠ r.1.toNat := by
      intro v hv hz
      rw [hx2v v] at hz
      by_cases h1 : r.1.toNat = v
      · rw [if_pos h1] at hz; omega
      · rw [if_neg h1] at hz
        by_cases h2 : i.toNat = v
        · rw [if_pos h2] at hz; omega
        · rw [if_neg h2] at hz; exact ⟨hz, fun h => h2 h.symm, fun h => h1 h.symm⟩
    refine Safe.bind (wr_safe st.y (st.next - 1) i (by omega) (by rw [hst.sy]; omega)) (fun y1 hy1 => ?_)
    refine Safe.bind (pwDecRow_safe hA i i0 i1 x2 st.its hx2s hst.sits st.mm
      (fun v hv hz => hst.valid v hv (hx2z v hv hz).1)) (fun mm1 hmm1 => ?_)
    refine Safe.bind (rd_safe st.its i i0 (by rw [hst.sits]; omega)) (fun _ _ => ?_)
    refine Safe.bind (mmEraseCk_safe i mm1 (by rw [hmm1.1]; exact hi)) (fun mm2 hmm2 => ?_)
    -- the second half: the row of `j`
    refine Safe.bind (P := fun xm : Array Int × MMap => xm.1 = x2 ∧
        (∀ u, u ∈ nodes xm.2 ↔ (u ∈ nodes mm2 ∧ u ≠ r.1)) ∧ xm.2.length < mm2.length) ?_ (fun xm hxm => ?_)
    · refine Safe.bind (wr_val x2 r.1 st.next j0 (by rw [hx2s]; omega)) (fun x3 hx3 => ?_)
      have hx3e : x3 = x2 := by
        rw [hx3]
        apply Array.ext_getElem?
        intro k
        have h2 := hx2v k
        by_cases hk : r.1.toNat = k
        · subst hk
          have hlt : r.1.toNat < x2.size := by rw [hx2s]; omega
          have : x2.getD r.1.toNat 0 = st.next := by rw [h2, if_pos rfl]
          rw [Array.getD_eq_getD_getElem?, Array.getElem?_eq_getElem hlt] at this
          simp only [Option.getD_some] at this
          simp [Array.getElem?_setIfInBounds, hlt, this]
        · simp [Array.getElem?_setIfInBounds, hk]
      obtain ⟨p1, p2, _⟩ := row_facts hA r.1 j0 j1
      refine Safe.bind p1 (fun s2 hs2 => ?_)
      refine Safe.bind p2 (fun e2 he2 => ?_)
      subst hs2; subst he2
      have hval2 : ∀ v : Nat, v < n → x3.getD v 0 = 0 → (v : Int) ∈ nodes mm2 := by
        intro v hv hz
        rw [hx3e] at hz
        obtain ⟨z1, z2, _⟩ := hx2z v hv hz
        rw [hmm2.1, hmm1.1]
        exact ⟨hst.valid v hv z1, by omega⟩
      refine Safe.bind (pwDecRow_safe hA r.1 j0 j1 x3 st.its (by rw [hx3e]; exact hx2s) hst.sits mm2 hval2) (fun mm3 hmm3 => ?_)
      refine Safe.bind (rd_safe st.its r.1 j0 (by rw [hst.sits]; omega)) (fun _ _ => ?_)
      have hjin3 : r.1 ∈ nodes mm3 := by
        rw [hmm3.1, hmm2.1, hmm1.1]
        exact ⟨hjin, by omega⟩
      refine Safe.bind (mmEraseCk_safe r.1 mm3 hjin3) (fun mm4 hmm4 => ?_)
      refine Safe.pure ⟨hx3e, fun u => ?_, ?_⟩
      · show u ∈ nodes mm4 ↔ _
        rw [hmm4.1, hmm3.1]
      · show mm4.length < mm2.length
        have := hmm3.2; have := hmm4.2; omega
    obtain ⟨e1, e2, e3⟩ := hxm
    refine Safe.pure ⟨⟨by show xm.1.size = n; rw [e1]; exact hx2s, by show y1.size = n; rw [hy1, hst.sy], hst.sits,
      fun v hv => ?_, fun v hv hz => ?_, by show 1 ≤ st.next + 1; omega, ?_⟩, ?_⟩
    · have hv' : v ∈ nodes xm.2 := hv
      rw [e2, hmm2.1, hmm1.1] at hv'
      exact hst.range v hv'.1.1
    · show (v : Int) ∈ nodes xm.2
      have hz' : x2.getD v 0 = 0 := by rw [← e1]; exact hz
      obtain ⟨z1, z2, z3⟩ := hx2z v hv hz'
      rw [e2, hmm2.1, hmm1.1]
      exact ⟨⟨hst.valid v hv z1, by omega⟩, by omega⟩
    · show st.next + 1 - 1 + (xm.2.length : Int) ≤ (n : Int)
      have := hmm1.2; have := hmm2.2
      omega
    · show xm.2.length < st.mm.length
      have := hmm1.2; have := hmm2.2
      omega
  · -- no neighbour left
    simp only [if_neg hf]
    have hx1z : ∀ v : Nat, v < n → x1.getD v 0 = 0 → st.x.getD v 0 = 0 ∧ v ≠ i.toNat := by
      intro v hv hz
      rw [hx1v v] at hz
      by_cases h2 : i.toNat = v
      · rw [if_pos h2] at hz; omega
      · rw [if_neg h2] at hz; exact ⟨hz, fun h => h2 h.symm⟩
    refine Safe.bind (Safe.pure (P := fun x2 : Array Int => x2 = x1) rfl) (fun x2 hx2 => ?_)
    subst hx2
    refine Safe.bind (wr_safe st.y (st.next - 1) i (by omega) (by rw [hst.sy]; omega)) (fun y1 hy1 => ?_)
    refine Safe.bind (pwDecRow_safe hA i i0 i1 x2 st.its hx1s hst.sits st.mm
      (fun v hv hz => hst.valid v hv (hx1z v hv hz).1)) (fun mm1 hmm1 => ?_)
    refine Safe.bind (rd_safe st.its i i0 (by rw [hst.sits]; omega)) (fun _ _ => ?_)
    refine Safe.bind (mmEraseCk_safe i mm1 (by rw [hmm1.1]; exact hi)) (fun mm2 hmm2 => ?_)
    refine Safe.bind (Safe.pure (P := fun xm : Array Int × MMap => xm = (x2, mm2)) rfl) (fun xm hxm => ?_)
    subst hxm
    refine Safe.pure ⟨⟨hx1s, by show y1.size = n; rw [hy1, hst.sy], hst.sits, fun v hv => ?_, fun v hv hz => ?_,
      by show 1 ≤ st.next + 1; omega, ?_⟩, ?_⟩
    · have hv' : v ∈ nodes mm2 := hv
      rw [hmm2.1, hmm1.1] at hv'
      exact hst.range v hv'.1
    · show (v : Int) ∈ nodes mm2
      obtain ⟨z1, z2⟩ := hx1z v hv hz
      rw [hmm2.1, hmm1.1]
      exact ⟨hst.valid v hv z1, by omega⟩
    · show st.next + 1 - 1 + (mm2.length : Int) ≤ (n : Int)
      have := hmm1.2; have := hmm2.2
      omega
    · show mm2.length < st.mm.length
      have := hmm1.2; have := hmm2.2
      omega

/-- `while (!mmap.empty())` terminates within `|mmap|` passes -/
theorem pwWhile_safe (o : PwOps α) {n : Nat} (G : Csr α) (hG : WFm G n) (hn : G.n = n) :
    ∀ (fuel : Nat) (st : Ck PW), Safe st (PWInv n) → st.val.mm.length ≤ fuel →
      ∃ r, pwWhile o G.ap G.aj G.ax fuel st = some r ∧ Safe r (PWInv n) := by
  intro fuel
  induction fuel with
  | zero =>
    intro st hst hf
    unfold pwWhile
    cases hm : st.val.mm with
    | nil => exact ⟨st, rfl, hst⟩
    | cons e l => rw [hm] at hf; simp at hf
  | succ f ih =>
    intro st hst hf
    unfold pwWhile
    cases hm : st.val.mm with
    | nil => exact ⟨st, rfl, hst⟩
    | cons e l =>
      simp only
      have hin : e.2 ∈ nodes st.val.mm := by rw [hm]; simp [nodes]
      have hb := Safe.bind_val hst.1 (pwIter_safe o G hG hn st.val hst.2 e.2 hin)
      refine ih _ (Safe.mono hb (fun _ h => h.1)) ?_
      have := hb.2.2
      omega

/-- **`pairwise_aggregation`**: any structurally valid `n × n` matrix (symmetric or not, self loops, duplicates), `x`, `y` of
length `n`: no access leaves `Sp`, `Sj`, `Sx`, `x`, `y`, `m`, `mmap_iterators`; no erased multimap iterator is used; the
loop `while (!mmap.empty())` terminates within `n` passes; the returned number of aggregates is in `0..n` -/
theorem pairwiseAgg_safe (o : PwOps α) (G : Csr α) (hG : WFm G G.n) (x y : Array Int) (hx : x.size = G.n) (hy : y.size = G.n) :
    Safe (pairwiseAgg o G.n G.ap G.aj G.ax x y)
      (fun r => r.1.size = G.n ∧ r.2.1.size = G.n ∧ 0 ≤ r.2.2 ∧ r.2.2 ≤ (G.n : Int)) := by
  have hA : WFm (patS G.n G.ap G.aj) G.n := ⟨hG.ap_size, hG.ap0, hG.mono, hG.last_j, hG.last_j, hG.cols⟩
  unfold pairwiseAgg
  refine Safe.bind (fillN_safe G.n 0 x hx) (fun x0 hx0 => ?_)
  refine Safe.bind (pwCount_safe hA) (fun m hm => ?_)
  refine Safe.bind (pwInit_safe G.n m hm) (fun mi hmi => ?_)
  obtain ⟨m1, m2, m3, m4⟩ := hmi
  refine Safe.bind (P := PWInv G.n) ?_ (fun r hr => Safe.pure ⟨hr.sx, hr.sy, ?_, ?_⟩)
  · apply orFault_safe
    refine pwWhile_safe o G hG rfl G.n (pure ⟨x0, y, mi.2, mi.1, 1⟩)
      (Safe.pure ⟨hx0.1, hy, m1, m2, fun v hv _ => m3 v hv, Int.le_refl 1, ?_⟩) ?_
    · show (1 : Int) - 1 + (mi.1.length : Int) ≤ (G.n : Int)
      rw [m4]; omega
    · show mi.1.length ≤ G.n
      omega
  · show 0 ≤ r.next - 1
    have := hr.next1; omega
  · show r.next - 1 ≤ (G.n : Int)
    have := hr.room; omega

end PyamgV.C17R4
