/-! PyamgV (C12): `pairwise_aggregation` (smoothed_aggregation.h:336) as a transition system —
whatever node the multimap yields and whichever unaggregated neighbour is matched, each
aggregate receives one or two nodes, ids are consecutive, the recorded root lies in its
aggregate, and a node is never reassigned. The kernel's loop body is one `Step`; the loop ends
when no node is unaggregated (the multimap holds exactly the unaggregated nodes). Core only. -/
namespace PyamgV.Pairwise

structure St where
  x : Nat → Nat          -- 0 = not aggregated, a+1 = aggregate a
  y : Nat → Nat          -- root of aggregate a
  next : Nat             -- number of aggregates + 1

inductive Step : St → St → Prop
  | single (s : St) (i : Nat) (hi : s.x i = 0) :
      Step s ⟨fun v => if v = i then s.next else s.x v,
              fun a => if a = s.next - 1 then i else s.y a, s.next + 1⟩
  | pair (s : St) (i j : Nat) (hi : s.x i = 0) (hj : s.x j = 0) (hij : i ≠ j) :
      Step s ⟨fun v => if v = i ∨ v = j then s.next else s.x v,
              fun a => if a = s.next - 1 then i else s.y a, s.next + 1⟩

inductive Reach : St → Prop
  | init (y0 : Nat → Nat) : Reach ⟨fun _ => 0, y0, 1⟩
  | step {s t : St} : Reach s → Step s t → Reach t

structure Inv (s : St) : Prop where
  next1 : 1 ≤ s.next
  rng : ∀ v, s.x v < s.next
  two : ∀ a, 1 ≤ a → a < s.next → ∃ i j, ∀ v, s.x v = a ↔ (v = i ∨ v = j)
  root : ∀ a, 1 ≤ a → a < s.next → s.x (s.y (a - 1)) = a

theorem step_inv {s t : St} (h : Inv s) (hs : Step s t) : Inv t := by
  cases hs with
  | single i hi =>
    refine ⟨by show 1 ≤ s.next + 1; omega, ?_, ?_, ?_⟩
    · intro v
      show (if v = i then s.next else s.x v) < s.next + 1
      by_cases hv : v = i
      · rw [if_pos hv]; omega
      · rw [if_neg hv]; have := h.rng v; omega
    · intro a ha1 ha2
      have ha2' : a < s.next + 1 := ha2
      by_cases haN : a = s.next
      · refine ⟨i, i, fun v => ?_⟩
        show (if v = i then s.next else s.x v) = a ↔ _
        by_cases hv : v = i
        · rw [if_pos hv, haN]; simp [hv]
        · rw [if_neg hv]
          constructor
          · intro hx; have := h.rng v; omega
          · intro hx; rcases hx with hx | hx <;> exact absurd hx hv
      · obtain ⟨p, q, hpq⟩ := h.two a ha1 (by omega)
        refine ⟨p, q, fun v => ?_⟩
        show (if v = i then s.next else s.x v) = a ↔ _
        by_cases hv : v = i
        · rw [if_pos hv]
          constructor
          · intro hx; omega
          · intro hx
            have := (hpq v).2 hx
            rw [hv, hi] at this; omega
        · rw [if_neg hv]; exact hpq v
    · intro a ha1 ha2
      have ha2' : a < s.next + 1 := ha2
      show (if (if a - 1 = s.next - 1 then i else s.y (a - 1)) = i then s.next
        else s.x (if a - 1 = s.next - 1 then i else s.y (a - 1))) = a
      have hn := h.next1
      clear ha2
      by_cases haN : a = s.next
      · have hcond : a - 1 = s.next - 1 := by omega
        rw [if_pos hcond, if_pos rfl]; exact haN.symm
      · have hcond : ¬ a - 1 = s.next - 1 := by omega
        rw [if_neg hcond]
        have hr := h.root a ha1 (by omega)
        have : s.y (a - 1) ≠ i := by intro e; rw [e, hi] at hr; omega
        rw [if_neg this]; exact hr
  | pair i j hi hj hij =>
    refine ⟨by show 1 ≤ s.next + 1; omega, ?_, ?_, ?_⟩
    · intro v
      show (if v = i ∨ v = j then s.next else s.x v) < s.next + 1
      by_cases hv : v = i ∨ v = j
      · rw [if_pos hv]; omega
      · rw [if_neg hv]; have := h.rng v; omega
    · intro a ha1 ha2
      have ha2' : a < s.next + 1 := ha2
      by_cases haN : a = s.next
      · refine ⟨i, j, fun v => ?_⟩
        show (if v = i ∨ v = j then s.next else s.x v) = a ↔ _
        by_cases hv : v = i ∨ v = j
        · rw [if_pos hv, haN]; simp [hv]
        · rw [if_neg hv]
          constructor
          · intro hx; have := h.rng v; omega
          · intro hx; exact absurd hx hv
      · obtain ⟨p, q, hpq⟩ := h.two a ha1 (by omega)
        refine ⟨p, q, fun v => ?_⟩
        show (if v = i ∨ v = j then s.next else s.x v) = a ↔ _
        by_cases hv : v = i ∨ v = j
        · rw [if_pos hv]
          constructor
          · intro hx; omega
          · intro hx
            have := (hpq v).2 hx
            rcases hv with hv | hv
            · rw [hv, hi] at this; omega
            · rw [hv, hj] at this; omega
        · rw [if_neg hv]; exact hpq v
    · intro a ha1 ha2
      have ha2' : a < s.next + 1 := ha2
      show (if (if a - 1 = s.next - 1 then i else s.y (a - 1)) = i ∨
          (if a - 1 = s.next - 1 then i else s.y (a - 1)) = j then s.next
        else s.x (if a - 1 = s.next - 1 then i else s.y (a - 1))) = a
      have hn := h.next1
      clear ha2
      by_cases haN : a = s.next
      · have hcond : a - 1 = s.next - 1 := by omega
        rw [if_pos hcond, if_pos (Or.inl rfl)]; exact haN.symm
      · have hcond : ¬ a - 1 = s.next - 1 := by omega
        rw [if_neg hcond]
        have hr := h.root a ha1 (by omega)
        have h1 : s.y (a - 1) ≠ i := by intro e; rw [e, hi] at hr; omega
        have h2 : s.y (a - 1) ≠ j := by intro e; rw [e, hj] at hr; omega
        rw [if_neg (by intro hh; rcases hh with hh | hh; exact h1 hh; exact h2 hh)]; exact hr

theorem reach_inv {s : St} (h : Reach s) : Inv s := by
  induction h with
  | init y0 =>
    exact ⟨Nat.le_refl 1, fun _ => by show 0 < 1; omega,
      fun a h1 h2 => by have h2' : a < 1 := h2; omega,
      fun a h1 h2 => by have h2' : a < 1 := h2; omega⟩
  | step _ hs ih => exact step_inv ih hs

/-- **C12, pairwise aggregation**: at the end (no node left unaggregated) every node is in
exactly one aggregate `1..next-1`, every aggregate has one or two members and contains its
root. -/
theorem pairwise_spec {s : St} (h : Reach s) (hdone : ∀ v, v < n → s.x v ≠ 0) :
    (∀ v, v < n → 1 ≤ s.x v ∧ s.x v < s.next) ∧
    (∀ a, 1 ≤ a → a < s.next → ∃ i j, ∀ v, s.x v = a ↔ (v = i ∨ v = j)) ∧
    (∀ a, 1 ≤ a → a < s.next → s.x (s.y (a - 1)) = a) := by
  have hI := reach_inv h
  refine ⟨fun v hv => ⟨by have := hdone v hv; omega, hI.rng v⟩, hI.two, hI.root⟩

#print axioms pairwise_spec
end PyamgV.Pairwise
