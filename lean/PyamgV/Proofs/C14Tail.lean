import PyamgV.Proofs.C14Out

/-! PyamgV (C14): the distance-type measures (`distance_measure_common` = tail of
`algebraic_distance` / `affinity_distance`, and `distance_strength_of_connection`) satisfy the common
contract except that the diagonal is always present (finding `soc-added-diagonal`). -/
namespace PyamgV.C14
open PyamgV PyamgV.N

theorem addDiag_cols (i : Nat) (row : Row) (j : Nat) :
    j ∈ (addDiag i row).map Prod.fst ↔ j = i ∨ j ∈ row.map Prod.fst := by
  induction row with
  | nil => simp [addDiag]
  | cons c t ih =>
    obtain ⟨k, v⟩ := c
    unfold addDiag
    by_cases h1 : k < i
    · simp only [h1, if_true, List.map_cons, List.mem_cons, ih]
      constructor
      · rintro (h | h | h)
        · exact Or.inr (Or.inl h)
        · exact Or.inl h
        · exact Or.inr (Or.inr h)
      · rintro (h | h | h)
        · exact Or.inr (Or.inl h)
        · exact Or.inl h
        · exact Or.inr (Or.inr h)
    · by_cases h2 : k = i
      · subst h2; simp
      · simp [h1, h2]

theorem addDiag_nonneg (i : Nat) (row : Row) (h : ∀ cv ∈ row, 0 ≤ cv.2) : ∀ cv ∈ addDiag i row, 0 ≤ cv.2 := by
  induction row with
  | nil => intro cv hcv; simp [addDiag] at hcv; subst hcv; simp
  | cons c t ih =>
    obtain ⟨k, v⟩ := c
    have hv : 0 ≤ v := h (k, v) List.mem_cons_self
    have ht : ∀ cv ∈ t, 0 ≤ cv.2 := fun cv hcv => h cv (List.mem_cons_of_mem _ hcv)
    unfold addDiag
    by_cases h1 : k < i
    · simp only [h1, if_true]
      intro cv hcv
      rcases List.mem_cons.1 hcv with rfl | h'
      · exact hv
      · exact ih ht cv h'
    · by_cases h2 : k = i
      · simp only [h1, h2, if_true, if_false, lt_self_iff_false]
        intro cv hcv
        rcases List.mem_cons.1 hcv with rfl | h'
        · simp; linarith
        · exact ht cv h'
      · simp only [h1, h2, if_false]
        intro cv hcv
        rcases List.mem_cons.1 hcv with rfl | h'
        · simp
        · exact h cv h'

/-- after `+ I` row `i` has a diagonal entry of value at least one -/
theorem addDiag_diag (i : Nat) (row : Row) (h : ∀ cv ∈ row, 0 ≤ cv.2) :
    ∃ cv ∈ addDiag i row, cv.1 = i ∧ 1 ≤ cv.2 := by
  induction row with
  | nil => exact ⟨(i, 1), by simp [addDiag], rfl, le_refl _⟩
  | cons c t ih =>
    obtain ⟨k, v⟩ := c
    have hv : 0 ≤ v := h (k, v) List.mem_cons_self
    have ht : ∀ cv ∈ t, 0 ≤ cv.2 := fun cv hcv => h cv (List.mem_cons_of_mem _ hcv)
    unfold addDiag
    by_cases h1 : k < i
    · simp only [h1, if_true]
      obtain ⟨cv, hcv, h2, h3⟩ := ih ht
      exact ⟨cv, List.mem_cons_of_mem _ hcv, h2, h3⟩
    · by_cases h2 : k = i
      · simp only [h1, h2, if_true, if_false, lt_self_iff_false]
        exact ⟨(i, v + 1), List.mem_cons_self, rfl, by simp; linarith⟩
      · simp only [h1, h2, if_false]
        exact ⟨(i, 1), List.mem_cons_self, rfl, le_refl _⟩

theorem invRow_cols (row : Row) : (invRow row).map Prod.fst = row.map Prod.fst := by
  unfold invRow; simp [List.map_map, Function.comp_def]

theorem invRow_nonneg (row : Row) (h : ∀ cv ∈ row, 0 ≤ cv.2) : ∀ cv ∈ invRow row, 0 ≤ cv.2 := by
  intro cv hcv
  unfold invRow at hcv
  obtain ⟨c, hc, rfl⟩ := List.mem_map.1 hcv
  exact div_nonneg zero_le_one (h c hc)

theorem elimZeros_sub (row : Row) : ∀ cv ∈ elimZeros row, cv ∈ row := by
  intro cv h; unfold elimZeros at h; exact (List.mem_filter.1 h).1

/-- the filter only keeps entries of the row or writes `0` / `1`: non-negativity is preserved -/
theorem distFilterRow_nonneg (big ε : Rat) (i : Nat) (row : Row) (h : ∀ cv ∈ row, 0 ≤ cv.2) :
    ∀ cv ∈ distFilterRow big ε i row, 0 ≤ cv.2 := by
  intro cv hcv
  rw [distFilterRow_eq] at hcv
  obtain ⟨c, hc, rfl⟩ := List.mem_map.1 hcv
  by_cases h1 : c.1 = i
  · simp [h1]
  · by_cases h2 : c.2 ≥ ε * minOff big i row
    · simp [h1, h2]
    · simp only [h1, h2, if_false]; exact h c hc

/-- **contract of `algebraic_distance` / `affinity_distance`** (given finite non-negative distances on the
pattern of `A`, `0 < tiny ≤ 1`): the columns of row `i` of the result are the diagonal or columns of
the input row; the diagonal is always present (also where the input stores none — finding
`soc-added-diagonal`); entries lie in `[0,1]`; the row attains `1` -/
theorem distCommonRow_contract (big tiny ε : Rat) (ht : 0 < tiny) (ht1 : tiny ≤ 1) (i : Nat) (row : Row)
    (hd : ∀ cv ∈ row, 0 ≤ cv.2) :
    (∀ j ∈ (distCommonRow big tiny ε i row).map Prod.fst, j = i ∨ j ∈ row.map Prod.fst) ∧
    i ∈ (distCommonRow big tiny ε i row).map Prod.fst ∧
    (∀ cv ∈ distCommonRow big tiny ε i row, 0 ≤ cv.2 ∧ cv.2 ≤ 1) ∧
    (∃ cv ∈ distCommonRow big tiny ε i row, cv.2 = 1) := by
  unfold distCommonRow
  simp only
  -- the distances after dropping self-distances and zeros
  have h0 : ∀ cv ∈ elimZeros (row.map fun cv => if cv.1 = i then (cv.1, 0) else cv), 0 ≤ cv.2 := by
    intro cv hcv
    have := elimZeros_sub _ cv hcv
    obtain ⟨c, hc, rfl⟩ := List.mem_map.1 this
    by_cases h1 : c.1 = i
    · simp [h1]
    · simp only [h1, if_false]; exact hd c hc
  have h0c : ∀ j ∈ (elimZeros (row.map fun cv => if cv.1 = i then (cv.1, 0) else cv)).map Prod.fst,
      j ∈ row.map Prod.fst := by
    intro j hj
    obtain ⟨cv, hcv, rfl⟩ := List.mem_map.1 hj
    have := elimZeros_sub _ cv hcv
    obtain ⟨c, hc, rfl⟩ := List.mem_map.1 this
    refine List.mem_map.2 ⟨c, hc, ?_⟩
    by_cases h1 : c.1 = i <;> simp [h1]
  have h1 := distFilterRow_nonneg big ε i _ h0
  have h1' : ∀ cv ∈ elimZeros (distFilterRow big ε i
      (elimZeros (row.map fun cv => if cv.1 = i then (cv.1, 0) else cv))), 0 ≤ cv.2 :=
    fun cv hcv => h1 cv (elimZeros_sub _ cv hcv)
  have h2 := invRow_nonneg _ h1'
  have h3 := addDiag_nonneg i _ h2
  have hc := scaleRow_contract tiny ht _ h3
  refine ⟨?_, ?_, hc.1, ?_⟩
  · intro j hj
    rw [scaleRow_cols, addDiag_cols, invRow_cols] at hj
    rcases hj with h | h
    · exact Or.inl h
    · right
      obtain ⟨cv, hcv, rfl⟩ := List.mem_map.1 h
      have hm := elimZeros_sub _ cv hcv
      have : cv.1 ∈ (distFilterRow big ε i
          (elimZeros (row.map fun cv => if cv.1 = i then (cv.1, 0) else cv))).map Prod.fst :=
        List.mem_map.2 ⟨cv, hm, rfl⟩
      rw [distFilterRow_cols] at this
      exact h0c _ this
  · rw [scaleRow_cols, addDiag_cols]; exact Or.inl rfl
  · obtain ⟨cv, hcv, _, hge⟩ := addDiag_diag i _ h2
    exact hc.2 ⟨cv, hcv, le_trans ht1 hge⟩

end PyamgV.C14

namespace PyamgV.C14
open PyamgV PyamgV.N

/-- inverting positive, bounded "distances" and scaling: entries in `[0,1]`, a non-empty row attains 1 -/
theorem invScale_contract (tiny : Rat) (ht : 0 < tiny) (r : Row) (hpos : ∀ cv ∈ r, 0 < cv.2)
    (hbd : ∀ cv ∈ r, cv.2 ≤ 1 / tiny) (hne : r ≠ []) :
    (∀ cv ∈ scaleRow tiny (invRow r), 0 ≤ cv.2 ∧ cv.2 ≤ 1) ∧ ∃ cv ∈ scaleRow tiny (invRow r), cv.2 = 1 := by
  have hnn := invRow_nonneg r (fun cv hcv => le_of_lt (hpos cv hcv))
  have hc := scaleRow_contract tiny ht _ hnn
  refine ⟨hc.1, hc.2 ?_⟩
  obtain ⟨c, hc0⟩ := List.exists_mem_of_ne_nil r hne
  refine ⟨(c.1, 1 / c.2), by unfold invRow; exact List.mem_map.2 ⟨c, hc0, rfl⟩, ?_⟩
  have h1 := hbd c hc0
  have h2 := hpos c hc0
  show tiny ≤ 1 / c.2
  rw [le_div_iff₀ h2]
  have := (le_div_iff₀ ht).1 h1
  linarith [mul_comm tiny c.2]

theorem addDiag_mem (i : Nat) (row : Row) (cv : Nat × Rat) (h : cv ∈ addDiag i row) :
    cv = (i, 1) ∨ cv ∈ row ∨ ∃ v, (i, v) ∈ row ∧ cv = (i, v + 1) := by
  induction row with
  | nil => simp [addDiag] at h; exact Or.inl h
  | cons c t ih =>
    obtain ⟨k, v⟩ := c
    unfold addDiag at h
    by_cases h1 : k < i
    · simp only [h1, if_true] at h
      rcases List.mem_cons.1 h with rfl | h'
      · exact Or.inr (Or.inl List.mem_cons_self)
      · rcases ih h' with h2 | h2 | ⟨w, hw, h2⟩
        · exact Or.inl h2
        · exact Or.inr (Or.inl (List.mem_cons_of_mem _ h2))
        · exact Or.inr (Or.inr ⟨w, List.mem_cons_of_mem _ hw, h2⟩)
    · by_cases h2 : k = i
      · subst h2
        simp only [lt_self_iff_false, if_false, if_true] at h
        rcases List.mem_cons.1 h with rfl | h'
        · exact Or.inr (Or.inr ⟨v, List.mem_cons_self, rfl⟩)
        · exact Or.inr (Or.inl (List.mem_cons_of_mem _ h'))
      · simp only [h1, h2, if_false] at h
        rcases List.mem_cons.1 h with rfl | h'
        · exact Or.inl rfl
        · exact Or.inr (Or.inl h')

/-- **contract of `distance_strength_of_connection`** for every `theta` (also `inf`), relative or
absolute drop: given positive distances bounded by `1/tiny - 1` (the code clamps them at `1e-6`),
`tiny ≤ 1/2`: columns of row `i` ⊆ input columns ∪ {diagonal}, the diagonal is always present, entries
in `[0,1]`, the row attains 1 -/
theorem distStrengthRow_contract (big tiny : Rat) (ht : 0 < tiny) (ht2 : tiny ≤ 1 / 2) (θ : Option Rat)
    (relative : Bool) (i : Nat) (row : Row) (hd : ∀ cv ∈ row, 0 ≤ cv.2)
    (hbd : ∀ cv ∈ row, cv.2 + 1 ≤ 1 / tiny) :
    (∀ j ∈ (distStrengthRow big tiny θ relative i row).map Prod.fst, j = i ∨ j ∈ row.map Prod.fst) ∧
    i ∈ (distStrengthRow big tiny θ relative i row).map Prod.fst ∧
    (∀ cv ∈ distStrengthRow big tiny θ relative i row, 0 ≤ cv.2 ∧ cv.2 ≤ 1) ∧
    (∃ cv ∈ distStrengthRow big tiny θ relative i row, cv.2 = 1) := by
  -- the four filter variants: same columns, each value is 0, 1 or a value of the row
  have h2le : (2 : Rat) ≤ 1 / tiny := by
    rw [le_div_iff₀ ht]; linarith
  have key : ∀ r1 : Row, r1.map Prod.fst = row.map Prod.fst →
      (∀ cv ∈ r1, cv.2 = 0 ∨ cv.2 = 1 ∨ cv ∈ row) →
      (∀ j ∈ (scaleRow tiny (invRow (addDiag i (elimZeros r1)))).map Prod.fst, j = i ∨ j ∈ row.map Prod.fst) ∧
      i ∈ (scaleRow tiny (invRow (addDiag i (elimZeros r1)))).map Prod.fst ∧
      (∀ cv ∈ scaleRow tiny (invRow (addDiag i (elimZeros r1))), 0 ≤ cv.2 ∧ cv.2 ≤ 1) ∧
      (∃ cv ∈ scaleRow tiny (invRow (addDiag i (elimZeros r1))), cv.2 = 1) := by
    intro r1 hcols hvals
    have hv1 : ∀ cv ∈ elimZeros r1, 0 < cv.2 ∧ cv.2 + 1 ≤ 1 / tiny := by
      intro cv hcv
      unfold elimZeros at hcv
      obtain ⟨hm, hnz⟩ := List.mem_filter.1 hcv
      simp only [ne_eq, decide_eq_true_eq] at hnz
      rcases hvals cv hm with h | h | h
      · exact absurd h hnz
      · rw [h]; exact ⟨one_pos, by linarith⟩
      · exact ⟨lt_of_le_of_ne (hd cv h) (Ne.symm hnz), hbd cv h⟩
    have hpos : ∀ cv ∈ addDiag i (elimZeros r1), 0 < cv.2 ∧ cv.2 ≤ 1 / tiny := by
      intro cv hcv
      rcases addDiag_mem i _ cv hcv with h | h | ⟨v, hv, h⟩
      · rw [h]; exact ⟨one_pos, by linarith⟩
      · exact ⟨(hv1 cv h).1, by linarith [(hv1 cv h).2]⟩
      · rw [h]; have := hv1 (i, v) hv; exact ⟨by simp; linarith [this.1], this.2⟩
    have hne : addDiag i (elimZeros r1) ≠ [] := by
      obtain ⟨cv, hcv, _⟩ := addDiag_diag i (elimZeros r1) (fun cv hcv => le_of_lt (hv1 cv hcv).1)
      exact List.ne_nil_of_mem hcv
    have hc := invScale_contract tiny ht _ (fun cv hcv => (hpos cv hcv).1) (fun cv hcv => (hpos cv hcv).2) hne
    refine ⟨?_, ?_, hc.1, hc.2⟩
    · intro j hj
      rw [scaleRow_cols, invRow_cols, addDiag_cols] at hj
      rcases hj with h | h
      · exact Or.inl h
      · right
        obtain ⟨cv, hcv, rfl⟩ := List.mem_map.1 h
        rw [← hcols]
        exact List.mem_map.2 ⟨cv, elimZeros_sub _ cv hcv, rfl⟩
    · rw [scaleRow_cols, invRow_cols, addDiag_cols]; exact Or.inl rfl
  unfold distStrengthRow
  cases relative <;> cases θ <;> simp only
  · -- absolute, theta = inf
    apply key
    · rw [List.map_map]; apply List.map_congr_left; intro cv _; by_cases h : cv.1 = i <;> simp [h]
    · intro cv hcv
      obtain ⟨c, hc, rfl⟩ := List.mem_map.1 hcv
      by_cases h : c.1 = i
      · simp [h]
      · simp only [h, if_false]; exact Or.inr (Or.inr hc)
  · -- absolute, finite theta
    rename_i t
    apply key
    · unfold absDistFilterRow
      rw [List.map_map]; apply List.map_congr_left; intro cv _
      by_cases h : cv.1 = i
      · simp [h]
      · by_cases h2 : cv.2 ≥ t <;> simp [h, h2]
    · intro cv hcv
      unfold absDistFilterRow at hcv
      obtain ⟨c, hc, rfl⟩ := List.mem_map.1 hcv
      by_cases h : c.1 = i
      · simp [h]
      · by_cases h2 : c.2 ≥ t
        · simp [h, h2]
        · simp only [h, h2, if_false]; exact Or.inr (Or.inr hc)
  · -- relative, theta = inf: no filter
    exact key row rfl (fun cv hcv => Or.inr (Or.inr hcv))
  · -- relative, finite theta
    rename_i t
    apply key
    · exact distFilterRow_cols big t i row
    · intro cv hcv
      rw [distFilterRow_eq] at hcv
      obtain ⟨c, hc, rfl⟩ := List.mem_map.1 hcv
      by_cases h : c.1 = i
      · simp [h]
      · by_cases h2 : c.2 ≥ t * minOff big i row
        · simp [h, h2]
        · simp only [h, h2, if_false]; exact Or.inr (Or.inr hc)

end PyamgV.C14

namespace PyamgV.C14
open PyamgV PyamgV.N

/-- **contract of `energy_based_strength_of_connection`** (CSR input) after the energy measure has been
written onto the pattern of `A`: columns of row `i` ⊆ input columns ∪ {diagonal}, the diagonal is always
present (finding `soc-added-diagonal`), entries in `[0,1]`, the row attains 1 -/
theorem energyTailRow_contract (tiny θ : Rat) (ht : 0 < tiny) (ht1 : tiny ≤ 1) (i : Nat) (row : Row)
    (hsub : ∀ cv ∈ row, absQ cv.2 = 0 ∨ tiny ≤ absQ cv.2) :
    (∀ j ∈ (energyTailRow tiny θ i row).map Prod.fst, j = i ∨ j ∈ row.map Prod.fst) ∧
    i ∈ (energyTailRow tiny θ i row).map Prod.fst ∧
    (∀ cv ∈ energyTailRow tiny θ i row, 0 ≤ cv.2 ∧ cv.2 ≤ 1) ∧
    (∃ cv ∈ energyTailRow tiny θ i row, cv.2 = 1) := by
  unfold energyTailRow
  have hc := pubClassicalRow_contract absQ absQ absQ_nonneg tiny tiny θ ht i row hsub
  have h1 : ∀ cv ∈ elimZeros (pubClassicalRow absQ absQ tiny tiny θ i row), 0 ≤ cv.2 :=
    fun cv hcv => le_of_lt (hc.1 cv (elimZeros_sub _ cv hcv)).1
  have h2 := addDiag_nonneg i _ h1
  have hs := scaleRow_contract tiny ht _ h2
  refine ⟨?_, ?_, hs.1, ?_⟩
  · intro j hj
    rw [scaleRow_cols, addDiag_cols] at hj
    rcases hj with h | h
    · exact Or.inl h
    · right
      obtain ⟨cv, hcv, rfl⟩ := List.mem_map.1 h
      have hm := elimZeros_sub _ cv hcv
      exact (pubClassicalRow_cols_sublist absQ absQ tiny tiny θ i row).subset (List.mem_map.2 ⟨cv, hm, rfl⟩)
  · rw [scaleRow_cols, addDiag_cols]; exact Or.inl rfl
  · obtain ⟨cv, hcv, _, hge⟩ := addDiag_diag i _ h1
    exact hs.2 ⟨cv, hcv, le_trans ht1 hge⟩

end PyamgV.C14
