import PyamgV.Model.ExtC05YCycle
import PyamgV.Proofs.ExtC05ZCheck

/-! PyamgV (C05, extension E47): the hierarchies of the EXTENDED cycle model (`Model/ExtC05YCycle.lean`, `denseMY`) all of
whose installed smoothers belong to the first cycle model (`SmY.base`): `toBaseH` projects them to hierarchies of the first
model (import-free, evaluated by the driver op `ext_c05z_spdy`).  `Proofs/ExtC05ZY.lean`: on such a hierarchy `denseMY = denseM`
of the projection, so `flag_denseM_spd_checked` applies to the executed extended model. -/
namespace PyamgV.C05Z
open PyamgV.K PyamgV.C05 PyamgV.C05Y

variable {α : Type}

def baseSm : SmY → Option Sm
  | .base s => some s
  | .ext _ _ _ => none

def toBase (L : LvlY α) : Option (Lvl α) :=
  match baseSm L.pre, baseSm L.post with
  | some s, some t => some ⟨L.A, L.P, L.R, L.C, s, t⟩
  | _, _ => none

def toBaseH : List (LvlY α) → Option (List (Lvl α))
  | [] => some []
  | L :: rest =>
    match toBase L, toBaseH rest with
    | some L', some r => some (L' :: r)
    | _, _ => none

end PyamgV.C05Z
