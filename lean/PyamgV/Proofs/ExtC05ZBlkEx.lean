import PyamgV.Proofs.ExtC05ZBlk
import PyamgV.Proofs.ExtC05YEx

/-! PyamgV (C05, extension E47): non-vacuity of the checked block-smoother theorems -- on the 4-point Poisson matrix of
`Proofs/ExtC05YEx.lean` with block size 2 the Boolean `blkSmCheck` evaluates to `true` (kernel evaluation), the CSR operator
is symmetric by the dense test, so the executed forward / backward block Gauss–Seidel smoothers are an adjoint pair with no
hypothesis left; a matrix with a singular diagonal block and a block size that does not divide `n` are rejected. -/
namespace PyamgV.C05ZBEx
open PyamgV PyamgV.C05 PyamgV.C05Y PyamgV.K PyamgV.C05YEx PyamgV.C05ZB

theorem blk4 : blkSmCheck A4 2 = true := by decide +kernel

theorem sym4 : IsAdj (euc ℚ A4.n) (euc ℚ A4.n) (ExtC09.csrLin A4) (ExtC09.csrLin A4) :=
  csrLin_sym_of_dense A4 (by decide +kernel) (by decide +kernel)

/-- executed forward / backward block Gauss–Seidel (block size 2) on the 4-point Poisson matrix: an adjoint pair -/
theorem example_bgs_pair (k : Nat) :
    ∃ B D, A4.toBsr 2 = some B ∧ blockDinv B = some D ∧
      IsAdj (euc ℚ A4.n) (euc ℚ A4.n)
        (powM (ExtC09.csrLin A4) (sweepM (ExtC09.csrLin A4) (dirL .forward (bgsSteps B D))) k)
        (powM (ExtC09.csrLin A4) (sweepM (ExtC09.csrLin A4) (dirL .backward (bgsSteps B D))) k) := by
  obtain ⟨B, D, h1, h2, h3, _⟩ := executed_bgs_pair_checked A4 2 blk4 sym4 k
  exact ⟨B, D, h1, h2, h3⟩

/-- singular diagonal block `[[1, 1], [1, 1]]` -/
def Asing : Csr ℚ := ⟨2, #[0, 2, 4], #[0, 1, 0, 1], #[1, 1, 1, 1]⟩

theorem blk_rejects : blkSmCheck Asing 2 = false ∧ blkSmCheck A4 3 = false := by decide +kernel

#print axioms blk4
#print axioms example_bgs_pair
#print axioms blk_rejects
end PyamgV.C05ZBEx
