import PyamgV.Proofs.ExtC03YThm
import PyamgV.Proofs.ExtComplexGs

/-! PyamgV (extension E55, C03): concrete recorded COMPLEX hierarchies (Gaussian rationals, `conj = CRat.conj`) and BSR-level
smoothers for the scalar-polymorphic extended cycle model, evaluated by the kernel (`decide +kernel`: no extra axioms): the
hypothesis `AllOK` of the theorems is satisfiable for every smoother family on a complex Hermitian and on a complex
nonsymmetric matrix, the conjugation matters (the `_ne` / `_nr` kernels run with `id` instead of `conj` give other iterates),
a stale matrix copy / a wrong inverse block are rejected, and the theorems (stated for an arbitrary field) apply to the
executable model with the scalar operations of `Model/CRat.lean`. -/
namespace PyamgV.C03Y.Witness
open PyamgV PyamgV.C03Y
open PyamgV.C03 (Cyc iterN)

abbrev c (re im : Rat) : CRat := ⟨re, im⟩

/-- the Hermitian positive definite matrix `[[2, -i], [i, 2]]` dense, as CSR / CSC arrays (the CSC arrays of a Hermitian matrix
are the conjugated CSR arrays), as one `2 × 2` BSR block with its exact inverse `1/3 [[2, i], [-i, 2]]`, and as `1 × 1` blocks -/
def AH : Mat CRat := [[c 2 0, c 0 (-1)], [c 0 1, c 2 0]]
def MH : K.Csr CRat := ⟨2, #[0, 2, 4], #[0, 1, 0, 1], #[c 2 0, c 0 (-1), c 0 1, c 2 0]⟩
def MHcsc : K.Csr CRat := ⟨2, #[0, 2, 4], #[0, 1, 0, 1], #[c 2 0, c 0 1, c 0 (-1), c 2 0]⟩
def BH : K.Bsr CRat := ⟨1, 2, #[0, 1], #[0], #[c 2 0, c 0 (-1), c 0 1, c 2 0]⟩
def DinvH : Array CRat := #[c (2/3) 0, c 0 (1/3), c 0 (-1/3), c (2/3) 0]
def BH1 : K.Bsr CRat := ⟨2, 1, #[0, 2, 4], #[0, 1, 0, 1], #[c 2 0, c 0 (-1), c 0 1, c 2 0]⟩
def DinvH1 : Array CRat := #[c (1/2) 0, c (1/2) 0]
/-- a complex nonsymmetric matrix `[[2, -i], [1, 2 + i]]` -/
def AN : Mat CRat := [[c 2 0, c 0 (-1)], [c 1 0, c 2 1]]
def MN : K.Csr CRat := ⟨2, #[0, 2, 4], #[0, 1, 0, 1], #[c 2 0, c 0 (-1), c 1 0, c 2 1]⟩
def MNcsc : K.Csr CRat := ⟨2, #[0, 2, 4], #[0, 1, 0, 1], #[c 2 0, c 1 0, c 0 (-1), c 2 1]⟩
def BN1 : K.Bsr CRat := ⟨2, 1, #[0, 2, 4], #[0, 1, 0, 1], #[c 2 0, c 0 (-1), c 1 0, c 2 1]⟩
/-- `1 / (2 + i) = (2 − i) / 5` -/
def DinvN1 : Array CRat := #[c (1/2) 0, c (2/5) (-1/5)]
def P2 : Mat CRat := [[c 1 0], [c 0 1]]
/-- `R = Pᴴ` -/
def R2 : Mat CRat := [[c 1 0, c 0 (-1)]]
/-- exact Galerkin coarse solve for `AH`: `R AH P = 2`, `S = 1/2` -/
def S2 : Mat CRat := [[c (1/2) 0]]

/-- Hermitian level: Chebyshev-like polynomial with a complex coefficient / symmetric Kaczmarz -/
def L1 : LvlY CRat := ⟨AH, P2, R2, .poly MH [c (-1/5) (1/10), c 1 0] 2, .gsne (c (3/2) 0) MH 1 .symmetric⟩
/-- block Gauss-Seidel / Schwarz with two one-point subdomains -/
def L2 : LvlY CRat := ⟨AH, P2, R2, .bgs BH DinvH 1 .forward,
  .schwarz MH #[c (1/2) 0, c (1/2) 0] #[0, 1, 2] #[0, 1] #[0, 1, 2] 1 .backward⟩
/-- block Jacobi with a complex damping parameter / `jacobi_ne` -/
def L3 : LvlY CRat := ⟨AH, P2, R2, .bjac (c (2/3) (1/3)) BH DinvH 2, .jacne (c (1/2) 0) MH 1⟩
/-- `gauss_seidel_nr` on the CSC arrays / CF Jacobi -/
def L4 : LvlY CRat := ⟨AH, P2, R2, .gsnr (c 1 0) MHcsc 1 .symmetric, .cfjac true (c (2/3) 0) MH [0] [1] 1 2 1⟩
/-- SOR with a complex `omega` / Jacobi kernels -/
def L5 : LvlY CRat := ⟨AH, P2, R2, .gs (c (5/4) (1/4)) MH 1 .backward, .jac (c (2/3) 0) MH 2⟩
/-- the smoothers of BSR levels: point Gauss-Seidel on the one-block arrays / FC block Jacobi on `1 × 1` blocks -/
def L6 : LvlY CRat := ⟨AH, P2, R2, .bsrgs (c 1 0) BH 1 .symmetric, .cfbjac false (c (2/3) 0) BH1 DinvH1 [0] [1] 1 2 1⟩
/-- point SOR / point Jacobi on BSR arrays -/
def L7 : LvlY CRat := ⟨AH, P2, R2, .bsrgs (c (5/4) 0) BH1 2 .backward, .bsrjac (c (2/3) 0) BH 1⟩
/-- the complex nonsymmetric matrix: Kaczmarz / `gauss_seidel_nr`, `jacobi_ne` / CF block Jacobi, point smoothers -/
def N1 : LvlY CRat := ⟨AN, P2, R2, .gsne (c 1 0) MN 1 .forward, .gsnr (c (1/2) 0) MNcsc 2 .backward⟩
def N2 : LvlY CRat := ⟨AN, P2, R2, .jacne (c (1/2) 0) MN 1, .cfbjac true (c 1 0) BN1 DinvN1 [1] [0] 1 1 1⟩
def N3 : LvlY CRat := ⟨AN, P2, R2, .bsrgs (c 1 0) BN1 1 .forward, .gs (c 1 0) MN 1 .symmetric⟩

/-- **non-vacuity over the Gaussian rationals**: every smoother family has recorded complex calls satisfying the hypothesis of
the theorems, on a Hermitian and on a nonsymmetric matrix -/
theorem all_ok : AllOK [L1, L2, L3, L4, L5, L6, L7, N1, N2, N3] := by decide +kernel

/-- a stale matrix copy (the closure holds the CSR arrays of the conjugate matrix) is rejected -/
theorem stale_copy_rejected : ¬ (Sm.gsne (c 1 0) MHcsc 1 .forward).OK AH := by decide +kernel

/-- an inverse block that is not the inverse of the diagonal block (here: its conjugate) is rejected -/
theorem wrong_inverse_rejected :
    ¬ (Sm.bjac (c 1 0) BH #[c (2/3) 0, c 0 (-1/3), c 0 (1/3), c (2/3) 0] 1).OK AH := by decide +kernel

/-- the BSR arrays read as point rows must be the level matrix too: the point rows of `BH` are not `AN` -/
theorem bsr_point_rows_checked : ¬ (Sm.bsrgs (c 1 0) BH 1 .forward).OK AN := by decide +kernel

/-- **the conjugation matters**: Kaczmarz without it gives another iterate on the Hermitian matrix ... -/
theorem conj_matters_ne :
    applySm CRat.conj AH (.gsne (c 1 0) MH 1 .forward) [c 0 0, c 0 0] [c 1 0, c 0 0] ≠
      applySm id AH (.gsne (c 1 0) MH 1 .forward) [c 0 0, c 0 0] [c 1 0, c 0 0] := by decide +kernel
/-- ... and moves the exact solution `x = (1, 1)` of `AH x = (2 − i, 2 + i)`: with `id` the call is not of the form
`x + Q (b − A x)` for the kernel's own `Dinv`-scaling, with `conj` it is (`sm_semLin`) -/
theorem conj_fixed_point_ne :
    applySm CRat.conj AH (.gsne (c 1 0) MH 1 .forward) [c 1 0, c 1 0] [c 2 (-1), c 2 1] = [c 1 0, c 1 0] := by
  decide +kernel
theorem conj_matters_nr :
    applySm CRat.conj AN (.gsnr (c 1 0) MNcsc 1 .forward) [c 0 0, c 0 0] [c 1 0, c 0 0] ≠
      applySm id AN (.gsnr (c 1 0) MNcsc 1 .forward) [c 0 0, c 0 0] [c 1 0, c 0 0] := by decide +kernel

/-- concrete runs of the extended model over the Gaussian rationals (two levels, exact coarse solve) -/
theorem run_blocks : cycY CRat.conj S2 .W 1 [L2] [c 0 0, c 0 0] [c 3 0, c 0 0] = [c 2 0, c 0 (-1)] := by decide +kernel
theorem exact_solution : matVec AH [c 1 0, c 1 0] = [c 2 (-1), c 2 1] := by decide +kernel
theorem exact_solution_N : matVec AN [c 1 0, c 0 1] = [c 3 0, c 0 2] := by decide +kernel

/-- the recorded calls do something: they are not the identity -/
theorem cfbjac_nontrivial :
    applySm CRat.conj AN (.cfbjac true (c 1 0) BN1 DinvN1 [1] [0] 1 1 1) [c 0 0, c 0 0] [c 1 0, c 0 1] ≠ [c 0 0, c 0 0] := by
  decide +kernel

/-- **the field-generic theorems apply to the executable complex model** (the `Field CRat` structure of Proofs/ExtComplexGs.lean
is built from the very operations of Model/CRat.lean): the exact solution is a fixed point of a W-cycle through all seven
Hermitian levels ... -/
theorem fixed_point_complex :
    sem (cycY CRat.conj S2 .W 2 [L1, L2, L3, L4, L5, L6, L7] [c 1 0, c 1 0] [c 2 (-1), c 2 1]) = sem [c 1 0, c 1 0] :=
  cycY_fixed_point CRat.conj S2 .W 2 L1 [L2, L3, L4, L5, L6, L7]
    (fun L hL => all_ok L (by simp at hL ⊢; rcases hL with h | h | h | h | h | h | h <;> simp [h]))
    [c 1 0, c 1 0] [c 2 (-1), c 2 1] (by rw [← sem_matVec]; exact congrArg sem exact_solution)

/-- ... and of an F-cycle through the nonsymmetric levels -/
theorem fixed_point_complex_nonsymmetric :
    sem (cycY CRat.conj S2 .F 2 [N1, N2, N3] [c 1 0, c 0 1] [c 3 0, c 0 2]) = sem [c 1 0, c 0 1] :=
  cycY_fixed_point CRat.conj S2 .F 2 N1 [N2, N3]
    (fun L hL => all_ok L (by simp at hL ⊢; rcases hL with h | h | h <;> simp [h]))
    [c 1 0, c 0 1] [c 3 0, c 0 2] (by rw [← sem_matVec]; exact congrArg sem exact_solution_N)

/-- the preconditioner of the complex model is the linear map `M` -/
theorem precond_complex (v : Vec CRat) :
    sem (precY CRat.conj S2 .F [L3, L6] (fun _ => true) v) = MopY CRat.conj S2 .F 1 [L3, L6] (sem v) :=
  precY_eq CRat.conj S2 .F L3 [L6] (fun L hL => all_ok L (by simp at hL ⊢; rcases hL with h | h <;> simp [h]))
    (fun _ => true) v

end PyamgV.C03Y.Witness
