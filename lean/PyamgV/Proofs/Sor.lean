import PyamgV.Proofs.GsSweep

/-! PyamgV: SOR row update (`sor_gauss_seidel` kernel) is non-expansive for 0 ≤ ω ≤ 2. -/
namespace PyamgV

variable {K : Type*} [Field K] [LinearOrder K] [IsStrictOrderedRing K] [DecidableEq K]

/-- the SOR kernel's update of row `i`:  x[i] = ω·((b[i]-rsum)/diag) + (1-ω)·x[i] -/
def sorRowFn (ω : K) (i : Nat) (row : Row K) (b x : Nat → K) : Nat → K :=
  let (rsum, diag) := rowScan i row x
  if diag = 0 then x else Function.update x i (ω * ((b i - rsum) / diag) + (1 - ω) * x i)

/-- SOR is the damped Gauss–Seidel correction -/
theorem sorRow_eq (ω : K) (i : Nat) (row : Row K) (b x : Nat → K) :
    sorRowFn ω i row b x = x + ω • (gsRowFn i row b x - x) := by
  unfold sorRowFn gsRowFn
  rw [show rowScan i row x = ((rowScan i row x).1, (rowScan i row x).2) from rfl]
  by_cases h : (rowScan i row x).2 = 0
  · simp [h]
  · simp only [h, if_false]
    funext j
    by_cases hj : j = i
    · subst hj; simp; ring
    · simp [Function.update_of_ne hj]

/-- the Gauss–Seidel correction is the exact (energy-orthogonal) coordinate correction -/
theorem gsRow_orth (n : Nat) (rows : Nat → Row K) (hsym) (hpsd) (i : Nat) (hi : i < n)
    (d : K) (hd : HasDiag i (rows i) d) (hd0 : d ≠ 0) (b x xs : Nat → K)
    (hxs : ∀ j, j < n → csrOp n rows xs j = b j) :
    (energy n rows hsym hpsd).a ((xs - x) - (gsRowFn i (rows i) b x - x))
      (gsRowFn i (rows i) b x - x) = 0 := by
  set x' := gsRowFn i (rows i) b x with hx'
  have hupd : ∃ c : K, x' - x = c • Pi.single i 1 := by
    obtain ⟨_, h2⟩ := rowScan_spec i (rows i) x (0, 0)
    have hdiag : (rowScan i (rows i) x).2 = d := by
      unfold rowScan; rw [h2]; unfold HasDiag at hd; rw [hd]; simp
    refine ⟨(b i - (rowScan i (rows i) x).1) / d - x i, ?_⟩
    rw [hx']; unfold gsRowFn
    rw [show rowScan i (rows i) x = ((rowScan i (rows i) x).1, (rowScan i (rows i) x).2) from rfl]
    simp only [hdiag, hd0, if_false]
    funext j
    by_cases hj : j = i
    · subst hj; simp
    · simp [Function.update_of_ne hj, Pi.single_apply, hj]
  obtain ⟨c, hc⟩ := hupd
  have hres := gsRow_residual_zero i (rows i) b x d hd hd0
  rw [← hx'] at hres
  have : (xs - x) - (x' - x) = xs - x' := by abel
  rw [this, hc]
  show (euc K n).a (csrOp n rows (xs - x')) (c • Pi.single i 1) = 0
  rw [euc_single n i hi, map_sub]
  simp only [Pi.sub_apply, csrOp_apply n rows x' i hi]
  rw [hxs i hi, hres]; ring

theorem sorRow_energy (n : Nat) (rows : Nat → Row K) (hsym) (hpsd) (i : Nat) (hi : i < n)
    (d : K) (hd : HasDiag i (rows i) d) (ω : K) (h0 : 0 ≤ ω) (h2 : ω ≤ 2) (b x xs : Nat → K)
    (hxs : ∀ j, j < n → csrOp n rows xs j = b j) :
    (energy n rows hsym hpsd).en (xs - sorRowFn ω i (rows i) b x) ≤
    (energy n rows hsym hpsd).en (xs - x) := by
  by_cases hd0 : d = 0
  · obtain ⟨_, hh⟩ := rowScan_spec i (rows i) x (0, 0)
    have hdiag : (rowScan i (rows i) x).2 = 0 := by
      unfold rowScan; rw [hh]; unfold HasDiag at hd; rw [hd]; simp [hd0]
    have : sorRowFn ω i (rows i) b x = x := by
      unfold sorRowFn
      rw [show rowScan i (rows i) x = ((rowScan i (rows i) x).1, (rowScan i (rows i) x).2) from rfl]
      simp [hdiag]
    rw [this]
  · rw [sorRow_eq]
    have horth := gsRow_orth n rows hsym hpsd i hi d hd hd0 b x xs hxs
    have : xs - (x + ω • (gsRowFn i (rows i) b x - x)) =
        (xs - x) - ω • (gsRowFn i (rows i) b x - x) := by abel
    rw [this, EForm.en_sub_smul _ _ _ ω horth]
    have hn := (energy n rows hsym hpsd).nonneg (gsRowFn i (rows i) b x - x)
    have : 0 ≤ ω * (2 - ω) := mul_nonneg h0 (by linarith)
    unfold EForm.en at *
    nlinarith [mul_nonneg this hn]

#print axioms sorRow_energy
end PyamgV
