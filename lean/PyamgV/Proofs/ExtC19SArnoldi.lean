import PyamgV.Model.ExtC19SArnoldi
import PyamgV.Proofs.C07GmresArn
import PyamgV.Proofs.Utils
import Mathlib.Algebra.BigOperators.Group.Finset.Basic
import Mathlib.Algebra.BigOperators.Ring.Finset
import Mathlib.Algebra.Module.BigOperators
import Mathlib.Algebra.Order.BigOperators.Ring.Finset

/-! PyamgV (C19, extension E39): the Arnoldi branch of the executable model of `_approximate_eigenvalues`
(`Model/ExtC19SArnoldi.lean`), instantiated with the operations of a `K`-module with a definite symmetric form and
an exact square root.

* `arnStep_inv` / `aeRun_inv`: every state of the model carries pairwise orthogonal vectors `v_0 .. v_m`, all of
  norm one except possibly the one appended by the pass that detected a breakdown (norm zero or one), and columns
  with `A v_j = sum_{l <= j+1} H_{l j} v_l` (`ArnInv`).
* function level (`ArnF`): `H_{ij} = <v_i, A v_j>` for `i, j < m` (`H = V^T A V`), `H` is upper Hessenberg, symmetric
  (hence tridiagonal) for symmetric `A`; for `x = V y`:
  `A x = V (H_m y) + (H_{m,m-1} y_{m-1}) v_m` (`ArnF.apply_ritz`), so an eigenpair `(theta, y)` of the leading block
  `H_m` has residual `A x - theta x = (H_{m,m-1} y_{m-1}) v_m` (`ArnF.residual`, the `error` quantity of
  `approximate_spectral_radius`), `<A x, x> = theta <x, x>` and `<x, x> = sum y_i^2`.
* hence every (real) Ritz value lies between any two Rayleigh bounds of `A` and `|theta| <= rho` whenever
  `|<A x, x>| <= rho <x, x>`, and after an exact breakdown `H_{m,m-1} = 0` Ritz pairs are eigenpairs of `A`. -/
namespace PyamgV.C19S
open PyamgV.C07 PyamgV.GS
set_option linter.unusedSectionVars false

variable {K : Type} [Field K] [LinearOrder K] [IsStrictOrderedRing K]
variable {V : Type} [AddCommGroup V] [Module K V]

/-! ### list-level helpers -/

theorem comb_eq_sum : ∀ (c : List K) (vs : List V), c.length ≤ vs.length →
    comb c vs = ∑ i ∈ Finset.range vs.length, c.getD i 0 • vs.getD i 0 := by
  intro c
  induction c with
  | nil =>
    intro vs _
    have : comb ([] : List K) vs = 0 := by cases vs <;> rfl
    rw [this]
    symm
    apply Finset.sum_eq_zero
    intro i _
    simp
  | cons a as ih =>
    intro vs h
    cases vs with
    | nil => simp at h
    | cons q qs =>
      simp only [comb, List.length_cons]
      rw [Finset.sum_range_succ', ih qs (by simpa using h)]
      simp only [List.getD_cons_succ, List.getD_cons_zero]
      rw [add_comm]

theorem onz_getD (e : EForm K V) : ∀ (vs : List V), ONZ e vs → ∀ i j, i < j → j < vs.length →
    e.a (vs.getD i 0) (vs.getD j 0) = 0 := by
  intro vs
  induction vs with
  | nil => intro _ i j _ hj; simp at hj
  | cons q qs ih =>
    intro h i j hij hj
    obtain ⟨_, h2, h3⟩ := h
    cases j with
    | zero => omega
    | succ j' =>
      have hj' : j' < qs.length := by simpa using hj
      cases i with
      | zero =>
        simp only [List.getD_cons_zero, List.getD_cons_succ]
        rw [List.getD_eq_getElem _ _ hj']
        exact h2 _ (List.getElem_mem hj')
      | succ i' =>
        simp only [List.getD_cons_succ]
        exact ih h3 i' j' (by omega) hj'

theorem onz_getD_norm (e : EForm K V) : ∀ (vs : List V), ONZ e vs → ∀ i, i < vs.length →
    e.a (vs.getD i 0) (vs.getD i 0) = 0 ∨ e.a (vs.getD i 0) (vs.getD i 0) = 1 := by
  intro vs
  induction vs with
  | nil => intro _ i hi; simp at hi
  | cons q qs ih =>
    intro h i hi
    obtain ⟨h1, _, h3⟩ := h
    cases i with
    | zero => simpa using h1
    | succ i' =>
      simp only [List.getD_cons_succ]
      exact ih h3 i' (by simpa using hi)

/-! ### one pass of the Arnoldi branch keeps the invariant -/

/-- the operations of the model over the module (the unused `AH`, `M` are arbitrary) -/
def mDiv (v : V) (c : K) : V := (1 / c) • v
def ltK (a b : K) : Bool := decide (a < b)
def iszK (a : K) : Bool := decide (a = 0)

variable (A AH M : V →ₗ[K] V) (e : EForm K V)

/-- whichever vector the model appends (`w / h`, or `w` itself when `h = 0`): `h q = w`, norm 0/1, norm 1 when `h != 0` -/
theorem normalise_spec (hdef : ∀ v, e.a v v = 0 → v = 0) (sqrt : K → K)
    (hsq : ∀ a, 0 ≤ a → sqrt a * sqrt a = a) (rem q : V)
    (hq : q = mDiv rem (sqrt (e.a rem rem)) ∨ (sqrt (e.a rem rem) = 0 ∧ q = rem)) :
    sqrt (e.a rem rem) • q = rem ∧ (e.a q q = 0 ∨ e.a q q = 1) ∧ (sqrt (e.a rem rem) ≠ 0 → e.a q q = 1) ∧
    (∀ p, e.a p rem = 0 → e.a q p = 0) := by
  have hs := hsq _ (e.nonneg rem)
  by_cases h0 : sqrt (e.a rem rem) = 0
  · have hrem : rem = 0 := by
      apply hdef
      rw [← hs, h0]; ring
    have hq0 : q = 0 := by
      rcases hq with hq | ⟨_, hq⟩
      · rw [hq, mDiv, hrem]; simp
      · rw [hq, hrem]
    subst hrem
    subst hq0
    refine ⟨by simp, Or.inl (by simp), fun hne => absurd h0 hne, fun p _ => by simp⟩
  · have hq' : q = (1 / sqrt (e.a rem rem)) • rem := by
      rcases hq with hq | ⟨hz, _⟩
      · exact hq
      · exact absurd hz h0
    have h1 : e.a q q = 1 := by
      rw [hq']
      simp only [map_smul, LinearMap.smul_apply, smul_eq_mul]
      generalize sqrt (e.a rem rem) = t at hs h0
      rw [← hs]; field_simp
    refine ⟨?_, Or.inr h1, fun _ => h1, ?_⟩
    · rw [hq', smul_smul, mul_one_div, div_self h0, one_smul]
    · intro p hp
      rw [hq']
      simp only [map_smul, LinearMap.smul_apply, smul_eq_mul]
      rw [e.symm rem p, hp]; ring

/-- appending a vector `q` with `h q = ` (Gram-Schmidt remainder of `B v_k`) and the column (coefficients, `h`) keeps
the list-level Arnoldi invariant (the argument of `GS.arnoldiStep_inv`, for any normalisation rule) -/
theorem arnL_snoc (hdef : ∀ v, e.a v v = 0 → v = 0) (B : V →ₗ[K] V) (vs : List V) (cols : List (List K))
    (vk : V) (hlast : vs.getD cols.length 0 = vk) (h : ArnL e B vs cols) (q : V) (hh : K)
    (hrem : hh • q = (orth e vs (B vk)).1) (hq01 : e.a q q = 0 ∨ e.a q q = 1)
    (hqo : ∀ p ∈ vs, e.a q p = 0) :
    ArnL e B (vs ++ [q]) (cols ++ [(orth e vs (B vk)).2 ++ [hh]]) := by
  have hz : ∀ p ∈ vs, e.a p p = 0 → p = 0 := fun p _ hp => hdef p hp
  obtain ⟨o1, _, o3⟩ := orth_spec e vs (B vk) h.onz hz
  refine ⟨ONZ_append e vs _ h.onz hq01 hqo, by simp [h.len], ?_, ?_⟩
  · intro j hj
    rw [List.length_append, List.length_singleton] at hj
    by_cases hjc : j < cols.length
    · have hjv : j < vs.length := by have := h.len; omega
      rw [List.getD_append _ _ _ _ hjv, List.getD_append _ _ _ _ hjc,
        comb_append_right _ _ _ (h.clen j hjc)]
      exact h.rel j hjc
    · have hje : j = cols.length := by omega
      subst hje
      have hjv : cols.length < vs.length := by have := h.len; omega
      rw [List.getD_append _ _ _ _ hjv, hlast, List.getD_append_right _ _ _ _ (Nat.le_refl _)]
      simp only [Nat.sub_self, List.getD_cons_zero]
      rw [comb_snoc _ _ _ _ o3, hrem]
      exact o1
  · intro j hj
    rw [List.length_append, List.length_singleton] at hj
    by_cases hjc : j < cols.length
    · rw [List.getD_append _ _ _ _ hjc, List.length_append]
      have := h.clen j hjc; omega
    · have hje : j = cols.length := by omega
      subst hje
      rw [List.getD_append_right _ _ _ _ (Nat.le_refl _)]
      simp only [Nat.sub_self, List.getD_cons_zero, List.length_append, List.length_singleton]
      omega

/-- the invariant of the Arnoldi branch -/
structure ArnInv (s : AeSt K V) : Prop where
  arn : ArnL e A s.vs s.cols
  unit : ∀ i, i < s.cols.length → e.a (s.vs.getD i 0) (s.vs.getD i 0) = 1
  last : s.brk = false → e.a (s.vs.getD s.cols.length 0) (s.vs.getD s.cols.length 0) = 1
  collen : ∀ j, j < s.cols.length → (s.cols.getD j []).length = j + 2

variable (sqrt : K → K) (tol : K)

/-- the Arnoldi pass of the model over the module -/
abbrev arnStepM : AeSt K V → AeSt K V := arnStep (Ops.ofModule A AH M e) mDiv sqrt ltK iszK tol

theorem arnStep_inv (hdef : ∀ v, e.a v v = 0 → v = 0) (hsq : ∀ a, 0 ≤ a → sqrt a * sqrt a = a)
    (htol : 0 < tol) (s : AeSt K V) (h : ArnInv A e s) :
    ArnInv A e (arnStepM A AH M e sqrt tol s) := by
  unfold arnStepM arnStep
  by_cases hb : s.brk = true
  · rw [if_pos hb]; exact h
  · rw [if_neg hb]
    have hbf : s.brk = false := by simpa using hb
    have hlen := h.arn.len
    have hlast : s.vs.getLast? = some (s.vs.getD s.cols.length 0) := by
      rw [List.getLast?_eq_getElem?]
      have : s.vs.length - 1 = s.cols.length := by omega
      rw [this, List.getD_eq_getElem?_getD]
      have hm : s.cols.length < s.vs.length := by omega
      simp [List.getElem?_eq_getElem hm]
    rw [hlast]
    simp only [orthO_eq]
    set vk := s.vs.getD s.cols.length 0 with hvk
    have hAvk : (Ops.ofModule A AH M e).A vk = A vk := rfl
    rw [hAvk]
    set o := orth e s.vs (A vk) with ho
    have hnrm : nrmO (Ops.ofModule A AH M e) sqrt o.1 = sqrt (e.a o.1 o.1) := rfl
    rw [hnrm]
    set hh := sqrt (e.a o.1 o.1) with hhh
    have hz : ∀ p ∈ s.vs, e.a p p = 0 → p = 0 := fun p _ hp => hdef p hp
    obtain ⟨_, o2, o3⟩ := orth_spec e s.vs (A vk) h.arn.onz hz
    -- common part: whichever `q` is appended
    have key : ∀ (q : V) (b : Bool), (q = mDiv o.1 hh ∨ (hh = 0 ∧ q = o.1)) → (b = false → hh ≠ 0) →
        ArnInv A e ⟨s.vs ++ [q], s.cols ++ [o.2 ++ [hh]], s.beta, b⟩ := by
      intro q b hq hbq
      obtain ⟨n1, n2, n3, n4⟩ := normalise_spec e hdef sqrt hsq o.1 q hq
      have hqo : ∀ p ∈ s.vs, e.a q p = 0 := fun p hp => n4 p (o2 p hp)
      refine ⟨arnL_snoc e hdef A s.vs s.cols vk hvk.symm h.arn q hh n1 n2 hqo, ?_, ?_, ?_⟩
      · intro i hi
        simp only [List.length_append, List.length_singleton] at hi
        have hiv : i < s.vs.length := by omega
        simp only
        rw [List.getD_append _ _ _ _ hiv]
        by_cases hic : i < s.cols.length
        · exact h.unit i hic
        · have : i = s.cols.length := by omega
          subst this
          exact h.last hbf
      · intro hbb
        simp only at hbb
        simp only [List.length_append, List.length_singleton]
        have : s.cols.length + 1 = s.vs.length := hlen
        rw [this, List.getD_append_right _ _ _ _ (Nat.le_refl _)]
        simp only [Nat.sub_self, List.getD_cons_zero]
        exact n3 (hbq hbb)
      · intro j hj
        simp only [List.length_append, List.length_singleton] at hj
        simp only
        by_cases hjc : j < s.cols.length
        · rw [List.getD_append _ _ _ _ hjc]; exact h.collen j hjc
        · have : j = s.cols.length := by omega
          subst this
          rw [List.getD_append_right _ _ _ _ (Nat.le_refl _)]
          simp only [Nat.sub_self, List.getD_cons_zero, List.length_append, List.length_singleton]
          rw [ho, o3]; omega
    by_cases hlt : ltK hh tol = true
    · rw [if_pos hlt]
      apply key _ true
      · by_cases hz0 : iszK hh = true
        · rw [if_pos hz0]
          right
          exact ⟨by simpa [iszK] using hz0, rfl⟩
        · rw [if_neg hz0]; left; rfl
      · intro hc; cases hc
    · rw [if_neg hlt]
      apply key _ false (Or.inl rfl)
      intro _
      have : ¬ hh < tol := by simpa [ltK] using hlt
      have : 0 < hh := lt_of_lt_of_le htol (not_lt.mp this)
      exact ne_of_gt this

/-- the model run over the module, Arnoldi branch -/
abbrev arnRunM (v0 : V) (k : Nat) : AeSt K V :=
  aeRun (Ops.ofModule A AH M e) mDiv sqrt ltK iszK tol false v0 k

theorem aeInit_inv (hdef : ∀ v, e.a v v = 0 → v = 0) (hsq : ∀ a, 0 ≤ a → sqrt a * sqrt a = a)
    (v0 : V) (hv0 : v0 ≠ 0) : ArnInv A e (aeInit (Ops.ofModule A AH M e) mDiv sqrt v0) := by
  have hn : nrmO (Ops.ofModule A AH M e) sqrt v0 = sqrt (e.a v0 v0) := rfl
  simp only [aeInit, hn]
  have hne : sqrt (e.a v0 v0) ≠ 0 := by
    intro h0
    apply hv0
    apply hdef
    rw [← hsq _ (e.nonneg v0), h0]; ring
  obtain ⟨_, n2, n3, _⟩ := normalise_spec e hdef sqrt hsq v0 (mDiv v0 (sqrt (e.a v0 v0))) (Or.inl rfl)
  refine ⟨⟨⟨n2, by simp, trivial⟩, by simp, by simp, by simp⟩, by simp, ?_, by simp⟩
  intro _
  simpa using n3 hne

/-- **every state of the Arnoldi model satisfies the invariant** (any number of passes, through a breakdown) -/
theorem aeRun_inv (hdef : ∀ v, e.a v v = 0 → v = 0) (hsq : ∀ a, 0 ≤ a → sqrt a * sqrt a = a)
    (htol : 0 < tol) (v0 : V) (hv0 : v0 ≠ 0) (k : Nat) :
    ArnInv A e (arnRunM A AH M e sqrt tol v0 k) := by
  induction k with
  | zero => exact aeInit_inv A AH M e sqrt hdef hsq v0 hv0
  | succ k ih =>
    have : arnRunM A AH M e sqrt tol v0 (k + 1) = arnStepM A AH M e sqrt tol (arnRunM A AH M e sqrt tol v0 k) := by
      simp only [arnRunM, aeRun, iter]; rfl
    rw [this]
    exact arnStep_inv A AH M e sqrt tol hdef hsq htol _ ih

/-! ### function level: `H = V^T A V`, Ritz pairs -/

/-- Arnoldi relation for `v_0 .. v_m`, `H` with `m` columns -/
structure ArnF (m : Nat) (v : Nat → V) (H : Nat → Nat → K) : Prop where
  orth : ∀ i j, i ≤ m → j ≤ m → i ≠ j → e.a (v i) (v j) = 0
  unit : ∀ i, i < m → e.a (v i) (v i) = 1
  rel : ∀ j, j < m → A (v j) = ∑ l ∈ Finset.range (m + 1), H l j • v l
  hess : ∀ i j, j + 1 < i → H i j = 0

/-- the basis of a state as a function, and its Hessenberg entries -/
def basisOf (s : AeSt K V) (i : Nat) : V := s.vs.getD i 0

theorem ArnInv.toF {s : AeSt K V} (h : ArnInv A e s) :
    ArnF A e s.cols.length (basisOf s) (hEntry s.cols) := by
  have hlen := h.arn.len
  refine ⟨?_, h.unit, ?_, ?_⟩
  · intro i j hi hj hij
    rcases Nat.lt_or_gt_of_ne hij with hlt | hgt
    · exact onz_getD e s.vs h.arn.onz i j hlt (by omega)
    · rw [e.symm]; exact onz_getD e s.vs h.arn.onz j i hgt (by omega)
  · intro j hj
    have := h.arn.rel j hj
    rw [comb_eq_sum _ _ (h.arn.clen j hj), ← hlen] at this
    exact this
  · intro i j hij
    unfold hEntry
    by_cases hj : j < s.cols.length
    · apply List.getD_eq_default
      rw [h.collen j hj]; omega
    · have hc : s.cols.getD j [] = [] := List.getD_eq_default _ _ (by omega)
      rw [hc]; rfl

namespace ArnF
variable {A e}
variable {m : Nat} {v : Nat → V} {H : Nat → Nat → K} (h : ArnF A e m v H)
include h

/-- `H = V^T A V`: `H_{ij} = <v_i, A v_j>` for every unit `v_i`, `i <= m`, and every processed column -/
theorem entry' (i j : Nat) (hi : i ≤ m) (hu : e.a (v i) (v i) = 1) (hj : j < m) : e.a (v i) (A (v j)) = H i j := by
  rw [h.rel j hj]
  simp only [map_sum, map_smul, smul_eq_mul]
  rw [Finset.sum_eq_single i]
  · rw [hu, mul_one]
  · intro l hl hli
    rw [h.orth i l hi (by have := Finset.mem_range.1 hl; omega) (Ne.symm hli), mul_zero]
  · intro hni
    exact absurd (Finset.mem_range.2 (by omega)) hni

theorem entry (i j : Nat) (hi : i < m) (hj : j < m) : e.a (v i) (A (v j)) = H i j :=
  h.entry' i j (le_of_lt hi) (h.unit i hi) hj

/-- for a symmetric operator the leading block of `H` is symmetric (so tridiagonal, with `hess`) -/
theorem symm (hA : ∀ x y, e.a (A x) y = e.a x (A y)) (i j : Nat) (hi : i < m) (hj : j < m) : H i j = H j i := by
  rw [← h.entry i j hi hj, ← h.entry j i hj hi, ← hA, e.symm]

theorem tridiag (hA : ∀ x y, e.a (A x) y = e.a x (A y)) (i j : Nat) (hi : i < m) (hj : j < m) (hij : i + 1 < j) :
    H i j = 0 := by
  rw [h.symm hA i j hi hj]; exact h.hess j i hij

/-- the Ritz vector `V y` -/
def rv (m : Nat) (v : Nat → V) (y : Nat → K) : V := ∑ j ∈ Finset.range m, y j • v j

omit h in
theorem rv_add (y z : Nat → K) : rv m v (fun i => y i + z i) = rv m v y + rv m v z := by
  simp only [rv, add_smul, Finset.sum_add_distrib]

omit h in
theorem rv_smul (c : K) (y : Nat → K) : rv m v (fun i => c * y i) = c • rv m v y := by
  simp only [rv, Finset.smul_sum, smul_smul]

/-- `<v_i, V z> = z_i`-type identities -/
theorem inner_rv (y z : Nat → K) : e.a (rv m v y) (rv m v z) = ∑ j ∈ Finset.range m, y j * z j := by
  simp only [rv, map_sum, map_smul, LinearMap.sum_apply, LinearMap.smul_apply, smul_eq_mul]
  refine Finset.sum_congr rfl (fun i hi => ?_)
  have him := Finset.mem_range.1 hi
  rw [Finset.sum_eq_single i]
  · rw [h.unit i him]; ring
  · intro l hl hli
    rw [h.orth l i (by have := Finset.mem_range.1 hl; omega) (by omega) hli]; ring
  · intro hni; exact absurd hi hni

theorem last_rv (z : Nat → K) : e.a (v m) (rv m v z) = 0 := by
  simp only [rv, map_sum, map_smul, smul_eq_mul]
  apply Finset.sum_eq_zero
  intro l hl
  have := Finset.mem_range.1 hl
  rw [h.orth m l (le_refl m) (by omega) (by omega), mul_zero]

/-- `A V y = V (H_m y) + (H_{m,m-1} y_{m-1}) v_m` -/
theorem apply_ritz (hm : 1 ≤ m) (y : Nat → K) :
    A (rv m v y) = rv m v (fun l => ∑ j ∈ Finset.range m, H l j * y j) + (H m (m - 1) * y (m - 1)) • v m := by
  have h1 : A (rv m v y) = ∑ j ∈ Finset.range m, ∑ l ∈ Finset.range (m + 1), (H l j * y j) • v l := by
    simp only [rv, map_sum, map_smul]
    refine Finset.sum_congr rfl (fun j hj => ?_)
    rw [h.rel j (Finset.mem_range.1 hj), Finset.smul_sum]
    refine Finset.sum_congr rfl (fun l _ => ?_)
    rw [smul_smul, mul_comm]
  rw [h1, Finset.sum_comm]
  have h2 : ∀ l, ∑ j ∈ Finset.range m, (H l j * y j) • v l = (∑ j ∈ Finset.range m, H l j * y j) • v l := by
    intro l; rw [Finset.sum_smul]
  simp only [h2]
  rw [Finset.sum_range_succ]
  congr 1
  congr 1
  rw [Finset.sum_eq_single (m - 1)]
  · intro j hj hjm
    have := Finset.mem_range.1 hj
    rw [h.hess m j (by omega), zero_mul]
  · intro hni; exact absurd (Finset.mem_range.2 (by omega)) hni

/-- `(theta, y)` is an eigenpair of the leading `m x m` block of `H` (entries of `y` beyond `m` are not used) -/
def IsRitz (m : Nat) (H : Nat → Nat → K) (θ : K) (y : Nat → K) : Prop :=
  (∃ i, i < m ∧ y i ≠ 0) ∧ ∀ i, i < m → ∑ j ∈ Finset.range m, H i j * y j = θ * y i

omit h in
theorem IsRitz.pos (hr : IsRitz m H θ y) : 1 ≤ m := by
  obtain ⟨⟨i, hi, _⟩, _⟩ := hr; omega

/-- **residual of a Ritz pair**: `A x - theta x = (H_{m,m-1} y_{m-1}) v_m`, `x = V y` (the quantity
`error = H[nvecs, nvecs-1] * evect[-1, max_index]` of `approximate_spectral_radius`) -/
theorem residual {θ : K} {y : Nat → K} (hr : IsRitz m H θ y) :
    A (rv m v y) - θ • rv m v y = (H m (m - 1) * y (m - 1)) • v m := by
  rw [h.apply_ritz hr.pos y]
  have : rv m v (fun l => ∑ j ∈ Finset.range m, H l j * y j) = θ • rv m v y := by
    rw [← rv_smul]
    simp only [rv]
    refine Finset.sum_congr rfl (fun l hl => ?_)
    rw [hr.2 l (Finset.mem_range.1 hl)]
  rw [this]; abel

/-- the Ritz vector of a Ritz pair is not zero: `<x, x> = sum y_i^2 > 0` -/
theorem rv_pos {θ : K} {y : Nat → K} (hr : IsRitz m H θ y) : 0 < e.a (rv m v y) (rv m v y) := by
  rw [h.inner_rv]
  obtain ⟨⟨i, hi, hyi⟩, _⟩ := hr
  apply Finset.sum_pos'
  · intro j _; exact mul_self_nonneg _
  · exact ⟨i, Finset.mem_range.2 hi, mul_self_pos.2 hyi⟩

/-- Galerkin condition: `<A x, V z> = theta <y, z>` -/
theorem galerkin {θ : K} {y : Nat → K} (hr : IsRitz m H θ y) (z : Nat → K) :
    e.a (A (rv m v y)) (rv m v z) = θ * ∑ j ∈ Finset.range m, y j * z j := by
  have hres := h.residual hr
  have : A (rv m v y) = θ • rv m v y + (H m (m - 1) * y (m - 1)) • v m := by
    rw [← hres]; abel
  rw [this]
  simp only [map_add, map_smul, LinearMap.add_apply, LinearMap.smul_apply, smul_eq_mul]
  rw [h.inner_rv, h.last_rv, mul_zero, add_zero]

/-- the Rayleigh quotient of the Ritz vector is the Ritz value -/
theorem rayleigh {θ : K} {y : Nat → K} (hr : IsRitz m H θ y) :
    e.a (A (rv m v y)) (rv m v y) = θ * e.a (rv m v y) (rv m v y) := by
  rw [h.galerkin hr y, h.inner_rv]

/-- **every Ritz value lies between any two Rayleigh bounds** (`lo = lambda_min`, `hi = lambda_max` for symmetric `A`) -/
theorem ritz_between {θ : K} {y : Nat → K} (hr : IsRitz m H θ y) (lo hi : K)
    (hlo : ∀ x, lo * e.a x x ≤ e.a (A x) x) (hhi : ∀ x, e.a (A x) x ≤ hi * e.a x x) : lo ≤ θ ∧ θ ≤ hi := by
  have hp := h.rv_pos hr
  have h1 := hlo (rv m v y)
  have h2 := hhi (rv m v y)
  rw [h.rayleigh hr] at h1 h2
  exact ⟨le_of_mul_le_mul_right h1 hp, le_of_mul_le_mul_right h2 hp⟩

/-- **`|theta| <= rho`** whenever `|<A x, x>| <= rho <x, x>` (`rho` = spectral radius for symmetric `A`) -/
theorem ritz_abs_le {θ : K} {y : Nat → K} (hr : IsRitz m H θ y) (ρ : K)
    (hray : ∀ x, |e.a (A x) x| ≤ ρ * e.a x x) : |θ| ≤ ρ := by
  have hp := h.rv_pos hr
  have h1 := hray (rv m v y)
  rw [h.rayleigh hr, abs_mul, abs_of_pos hp] at h1
  exact le_of_mul_le_mul_right h1 hp

/-- **breakdown = invariant subspace**: when `H_{m,m-1} = 0` every Ritz pair is an eigenpair of `A` -/
theorem eigen_of_breakdown {θ : K} {y : Nat → K} (hr : IsRitz m H θ y) (h0 : H m (m - 1) = 0) :
    A (rv m v y) = θ • rv m v y ∧ rv m v y ≠ 0 := by
  have hres := h.residual hr
  rw [h0, zero_mul, zero_smul, sub_eq_zero] at hres
  refine ⟨hres, ?_⟩
  intro hz
  have := h.rv_pos hr
  rw [hz] at this
  simp at this

/-- the squared norm of the residual is `(H_{m,m-1} y_{m-1})^2 <v_m, v_m>` -/
theorem residual_norm {θ : K} {y : Nat → K} (hr : IsRitz m H θ y) :
    e.a (A (rv m v y) - θ • rv m v y) (A (rv m v y) - θ • rv m v y) =
      (H m (m - 1) * y (m - 1)) ^ 2 * e.a (v m) (v m) := by
  rw [h.residual hr]
  simp only [map_smul, LinearMap.smul_apply, smul_eq_mul]
  ring

end ArnF

#print axioms aeRun_inv
#print axioms ArnF.ritz_abs_le
#print axioms ArnF.eigen_of_breakdown
end PyamgV.C19S
