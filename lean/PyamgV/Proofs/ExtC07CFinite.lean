import PyamgV.Proofs.ExtC07CVec
import Mathlib.LinearAlgebra.Dimension.Finrank
import Mathlib.LinearAlgebra.FiniteDimensional.Basic

/-! PyamgV (C07, extension E37): finite termination of preconditioned CG in the **Hermitian setting** -- "an n-by-n
system is solved in at most n steps" for complex systems: as long as `rz ≠ 0` the residuals `r_0 … r_k` are pairwise
`M`-orthogonal with `⟨r_j, M r_j⟩ ≠ 0`, hence linearly independent over `K`; there are at most `dim_K V` of them.
`cpcg_solves` (abstract sequence), `cg_cmodel_solves` (recurrence model on a module), `cg_hvec_solves` (the `Vector`
definition the driver runs). -/
set_option linter.unusedSectionVars false
namespace PyamgV.CHerm.CPCG

variable {K F V : Type*} [Field K] [StarRing K] [Field F] [LinearOrder F] [IsStrictOrderedRing F]
  [AddCommGroup V] [Module K V]
variable (A M : V →ₗ[K] V) (E : HForm K F V) (b x0 : V)

local notation "S" => seq A M E b x0

theorem cpcg_finite [FiniteDimensional K V] (hA : Hyp A M E) :
    ∃ j, j ≤ Module.finrank K V ∧ (S j).rz = 0 := by
  by_contra hcon
  have hnb : ∀ j, j ≤ Module.finrank K V → (S j).rz ≠ 0 := by
    intro j hj h; exact hcon ⟨j, hj, h⟩
  set n := Module.finrank K V with hn
  have hI : PInv A M E b x0 (n+1) := pInv_all hA n hnb
  let v : Fin (n+1) → V := fun i => (S i.1).r
  have horth : ∀ i j : Fin (n+1), i ≠ j → E.h (v j) (M (v i)) = 0 := by
    intro i j hij
    show E.h (S j.1).r (M (S i.1).r) = 0
    rcases Nat.lt_or_gt_of_ne (fun h => hij (Fin.ext h)) with h | h
    · exact hI.rr j.1 i.1 h (by have := j.2; omega)
    · rw [← hA.symM, E.conj_symm, hI.rr i.1 j.1 h (by have := i.2; omega), star_zero]
  have hli : LinearIndependent K v := by
    rw [linearIndependent_iff']
    intro s g hsum i hi
    have h0 : E.h (∑ j ∈ s, g j • v j) (M (v i)) = 0 := by rw [hsum, E.zero_left]
    rw [E.sum_left, Finset.sum_eq_single i] at h0
    · rw [E.smul_left] at h0
      have hne : E.h (v i) (M (v i)) ≠ 0 := by
        show E.h (S i.1).r (M (S i.1).r) ≠ 0
        rw [← rz_eq]; exact hnb i.1 (by have := i.2; omega)
      have := (mul_eq_zero.mp h0).resolve_right hne
      exact star_eq_zero.mp this
    · intro j _ hji
      rw [E.smul_left, horth i j (Ne.symm hji), mul_zero]
    · intro hni; exact absurd hi hni
  have := hli.fintype_card_le_finrank
  simp at this
  omega

/-- **preconditioned CG solves an `n`-dimensional Hermitian system in at most `n` steps** (`M` definite) -/
theorem cpcg_solves [FiniteDimensional K V] (hA : Hyp A M E)
    (hMdef : ∀ v, E.h v (M v) = 0 → v = 0) :
    ∃ j, j ≤ Module.finrank K V ∧ A (S j).x = b := by
  classical
  obtain ⟨j, hj, hz⟩ := cpcg_finite (b := b) (x0 := x0) A M E hA
  have hex : ∃ j, (S j).rz = 0 := ⟨j, hz⟩
  let m := Nat.find hex
  have hm : (S m).rz = 0 := Nat.find_spec hex
  have hmin : ∀ i, i < m → (S i).rz ≠ 0 := fun i hi => Nat.find_min hex hi
  have hmj : m ≤ j := Nat.find_min' hex hz
  have hI : PInv A M E b x0 m := pInv_of hA m hmin
  have hr : (S m).r = 0 := hMdef _ ((rz_eq A M E b x0 m).symm.trans hm)
  refine ⟨m, by omega, ?_⟩
  have := hI.res m (le_refl m)
  rw [hr] at this
  exact (sub_eq_zero.mp this.symm).symm

end PyamgV.CHerm.CPCG

namespace PyamgV.C07.CH
open PyamgV.CHerm PyamgV.C07

section model
variable {K F : Type} [Field K] [StarRing K] [Field F] [LinearOrder F] [IsStrictOrderedRing F]
variable {V : Type} [AddCommGroup V] [Module K V]
variable (A AH M : V →ₗ[K] V) (E : HForm K F V) (b x0 : V)

/-- the recurrence model of `_cg.py` reaches the exact solution within `dim V` steps, Hermitian case -/
theorem cg_cmodel_solves [FiniteDimensional K V] (hA : CPCG.Hyp A M E)
    (hMdef : ∀ v, E.h v (M v) = 0 → v = 0) :
    ∃ j, j ≤ Module.finrank K V ∧ A (cgSeq A AH M E b x0 j).x = b := by
  obtain ⟨j, hj, h⟩ := CPCG.cpcg_solves A M E b x0 hA hMdef
  exact ⟨j, hj, by rw [(cg_refines A AH M E b x0 j).1]; exact h⟩
end model

section vec
variable {K F : Type} [Field K] [StarRing K] [Field F] [LinearOrder F] [IsStrictOrderedRing F] {n : Nat}
variable (R : ReMap K F) (A M : Vector (Vector K n) n) (b x0 : Vector K n)

/-- **an `n × n` Hermitian positive definite system is solved by the executable CG model in at most `n` steps**
(`M` Hermitian positive definite) -/
theorem cg_hvec_solves (hA : IsHerm A) (hM : IsHerm M) (hpd : IsHPD R A) (hMpd : IsHPD R M) :
    ∃ j, j ≤ n ∧ vmv A (cgVecH A M b x0 j).x = b := by
  have hMdef : ∀ v, (dotH R n).h v (linOf M v) = 0 → v = 0 := by
    intro v h; by_contra hv
    have := hMpd v hv
    rw [linOf_herm R hM, h, map_zero] at this; exact lt_irrefl _ this
  obtain ⟨j, hj, h⟩ := cg_cmodel_solves (linOf A) (linOf (vctrans star A)) (linOf M) (dotH R n)
    (toFn b) (toFn x0) (hyp_ofH R hA hM hpd) hMdef
  rw [Module.finrank_fin_fun] at hj
  refine ⟨j, hj, toFn_injective ?_⟩
  rw [toFn_vmv]
  rw [← cgVecH_map R A M b x0 j] at h
  exact h
end vec

#print axioms cg_hvec_solves
end PyamgV.C07.CH
