import PyamgV.Model.ExtC04YPairwise
import PyamgV.Proofs.ExtC15CanonHier
import PyamgV.Proofs.ExtC04YConv
/-! PyamgV (extension E54, property C15): format independence of the `pairwise_solver` hierarchy for ANY number of
matchings -- in particular the default `matchings = 2` (E41 covered one matching).

* `pwMRaw_spec`: the array-level path (strength, kernel, `T_temp`, `T @ T_temp`, `T_temp.T @ Ac @ T_temp`, stall
  test) returns a well-formed `n x k` prolongator with `k < n`;
* `pwMRaw_one`: with one matching it IS E41's `pwRaw`;
* `pwMStep_ok`: E27's hypothesis `PStepOK` discharged for the path behind the canonicaliser;
* `pairwiseM_hierarchy_format_independent` / `..._input_independent` (`Input`: COO / CSC / dense / BSR / CSR) /
  `..._input_independentX` (`InputX`: LIL and DIA as well): two arbitrary stored forms / two input formats of one
  matrix give the same number of levels and level by level the same dense meaning. -/
namespace PyamgV.CanonM
open PyamgV.Spmm PyamgV.Canon PyamgV.ConvX

theorem zeroT_wf (n : Nat) : (zeroT n).wf = true := by
  unfold zeroT
  apply ofRows_wf
  · simp
  · intro l hl e he
    rw [List.mem_map] at hl
    obtain ⟨_, _, rfl⟩ := hl
    cases he

theorem pwOnce_spec {norm : String} {tiny θ : Rat} {A : Csr Rat} {x : Array Nat} {k : Nat}
    (h : pwOnce norm tiny θ A = some (x, k)) : ∀ v, v < A.rows → 1 ≤ ExtPw.rd x v ∧ ExtPw.rd x v ≤ k := by
  unfold pwOnce at h
  simp only at h
  split at h
  · cases h
  · rename_i x' y' k' hpw
    injection h with h
    injection h with h1 h2
    subst h1 h2
    exact (ExtPw.pairwise_model_spec hpw).2.2.1

theorem pwTemp_wf {norm : String} {tiny θ : Rat} {A : Csr Rat} {x : Array Nat} {k : Nat}
    (h : pwOnce norm tiny θ A = some (x, k)) : (pwTemp A.rows x k).wf = true := by
  unfold pwTemp
  by_cases hk : k = 0
  · rw [if_pos hk]; exact zeroT_wf _
  · rw [if_neg hk]; exact pwT_wf _ _ _ (pwOnce_spec h)

theorem pwTemp_rows (n : Nat) (x : Array Nat) (k : Nat) : (pwTemp n x k).rows = n := by
  unfold pwTemp; split <;> rfl

theorem pwTemp_cols (n : Nat) (x : Array Nat) (k : Nat) : (pwTemp n x k).cols = if k = 0 then 1 else k := by
  unfold pwTemp; split <;> rfl

/-- invariant of the loop over the matchings: `T` is a well-formed matrix with one row per unknown of the level -/
theorem pwLoop_spec (norm : String) (tiny θ : Rat) (n : Nat) :
    ∀ (m : Nat) (Ac : Csr Rat) (T : Option (Csr Rat)) (P : Csr Rat),
      (∀ T0, T = some T0 → T0.wf = true ∧ T0.rows = n) → (T = none → Ac.rows = n) →
      pwLoop norm tiny θ m Ac T = some P → P.wf = true ∧ P.rows = n := by
  intro m
  induction m with
  | zero =>
    intro Ac T P hT _ h
    exact hT P h
  | succ m ih =>
    intro Ac T P hT hN h
    rw [pwLoop] at h
    split at h
    · cases h
    · rename_i x k hon
      have hTt := pwTemp_wf hon
      have hT' : ∀ T0, (match T with
          | none => pwTemp Ac.rows x k
          | some T0 => mul T0 (pwTemp Ac.rows x k)) = T0 → T0.wf = true ∧ T0.rows = n := by
        intro T0 e
        cases T with
        | none =>
          simp only at e
          rw [← e]
          exact ⟨hTt, by rw [pwTemp_rows]; exact hN rfl⟩
        | some T1 =>
          simp only at e
          rw [← e]
          exact ⟨mul_wf _ _ hTt, by rw [mul_rows]; exact (hT T1 rfl).2⟩
      simp only at h
      split at h
      · injection h with h
        exact hT' P h
      · exact ih _ _ P (fun T0 e => hT' T0 (Option.some.inj e)) (fun e => by cases e) h

/-- **what the path returns is a well-formed `n x k` matrix with `k < n`**, whatever the number of matchings -/
theorem pwMRaw_spec (m : Nat) (norm : String) (tiny θ : Rat) (A P : Csr Rat) (h : pwMRaw m norm tiny θ A = some P) :
    P.wf = true ∧ P.rows = A.rows ∧ P.cols < A.rows := by
  unfold pwMRaw at h
  split at h
  · cases h
  · rename_i P' hl
    split at h
    · cases h
    · rename_i hk
      injection h with h
      subst h
      obtain ⟨h1, h2⟩ := pwLoop_spec norm tiny θ A.rows m A none P' (fun _ e => by cases e) (fun _ => rfl) hl
      exact ⟨h1, h2, by omega⟩

/-- one matching: E41's path -/
theorem pwMRaw_one (norm : String) (tiny θ : Rat) (A : Csr Rat) : pwMRaw 1 norm tiny θ A = pwRaw norm tiny θ A := by
  unfold pwMRaw pwRaw
  rw [pwLoop]
  unfold pwOnce
  simp only
  cases hpw : ExtPw.pairwise A.rows
      (C14.rowsToOut (C14.pubClassicalNorm norm tiny θ (rowsOfCsr A))).1
      (C14.rowsToOut (C14.pubClassicalNorm norm tiny θ (rowsOfCsr A))).2.1
      (C14.rowsToOut (C14.pubClassicalNorm norm tiny θ (rowsOfCsr A))).2.2 with
  | none => rfl
  | some r =>
    obtain ⟨x, y, k⟩ := r
    simp only
    have hx := (ExtPw.pairwise_model_spec hpw).2.2.1
    by_cases hk : k = 0
    · subst hk
      have hn : A.rows = 0 := by
        by_contra hne
        have := hx 0 (by omega)
        omega
      simp only [if_true, true_or]
      rw [if_pos]
      omega
    · have e : (pwLoop norm tiny θ 0 A (some (pwTemp A.rows x k))) = some (pwTemp A.rows x k) := by rw [pwLoop]
      simp only [hk, if_false, false_or]
      have e2 : pwTemp A.rows x k = pwT A.rows k x := by unfold pwTemp; rw [if_neg hk]
      rw [e2]
      rfl

theorem pwMStep_eq_raw (m : Nat) (norm : String) (tiny θ : Rat) (A : Csr Rat) (hA : Canonical A) (hz : NoZeros A) :
    pwMStep m norm tiny θ A = pwMRaw m norm tiny θ A := by
  unfold pwMStep
  exact congrArg (pwMRaw m norm tiny θ) (canonNZ_fixed A hA hz)

/-- **`PStepOK` discharged for the pairwise-aggregation path with any number of matchings** -/
theorem pwMStep_ok (m : Nat) (norm : String) (tiny θ : Rat) : PStepOK (pwMStep m norm tiny θ) (pwMStep m norm tiny θ) :=
  pstepOK_canon (pwMRaw m norm tiny θ) (pwMRaw m norm tiny θ) (fun _ _ _ => rfl)
    (fun C P _ h => ⟨(pwMRaw_spec m norm tiny θ C P h).1, (pwMRaw_spec m norm tiny θ C P h).2.1⟩)

/-- **the hierarchy theorem without hypothesis, any number of matchings** (`m = 2`: the default options of
`pairwise_solver`): two ARBITRARY stored forms of one matrix give the same number of levels and level by level the
same dense meaning -/
theorem pairwiseM_hierarchy_format_independent (m : Nat) (norm : String) (tiny θ : Rat) (ml mc fuel : Nat)
    (A A' : Csr Rat) (hrel : LevelRel A A') :
    List.Forall₂ LevelRel (Coarsen.build (fun A => A.rows) (gstep id (pwMStep m norm tiny θ)) ml mc fuel [A])
      (Coarsen.build (fun A => A.rows) (gstep id (pwMStep m norm tiny θ)) ml mc fuel [A']) :=
  hierarchy_format_independent id rfl (fun _ _ => rfl) _ _ (pwMStep_ok m norm tiny θ) ml mc fuel A A' hrel

theorem pairwiseM_hierarchy_input_independent (m : Nat) (norm : String) (tiny θ : Rat) (ml mc fuel : Nat)
    (X Y : Input Rat) (hX : X.wf = true) (hY : Y.wf = true) (hsq : X.rows = X.cols)
    (hrows : X.rows = Y.rows) (hcols : X.cols = Y.cols) (hval : ∀ i j, X.val i j = Y.val i j) :
    List.Forall₂ LevelRel (Coarsen.build (fun A => A.rows) (gstep id (pwMStep m norm tiny θ)) ml mc fuel [X.toCsr])
      (Coarsen.build (fun A => A.rows) (gstep id (pwMStep m norm tiny θ)) ml mc fuel [Y.toCsr]) :=
  hierarchy_input_independent id rfl (fun _ _ => rfl) _ _ (pwMStep_ok m norm tiny θ) ml mc fuel X Y hX hY hsq hrows hcols hval

/-- ... for all seven input formats (LIL and DIA included) -/
theorem pairwiseM_hierarchy_input_independentX (m : Nat) (norm : String) (tiny θ : Rat) (ml mc fuel : Nat)
    (X Y : InputX Rat) (hX : X.wf = true) (hY : Y.wf = true) (hsq : X.rows = X.cols)
    (hrows : X.rows = Y.rows) (hcols : X.cols = Y.cols) (hval : ∀ i j, X.val i j = Y.val i j) :
    List.Forall₂ LevelRel (Coarsen.build (fun A => A.rows) (gstep id (pwMStep m norm tiny θ)) ml mc fuel [X.toCsr])
      (Coarsen.build (fun A => A.rows) (gstep id (pwMStep m norm tiny θ)) ml mc fuel [Y.toCsr]) :=
  hierarchy_input_independentX id rfl (fun _ _ => rfl) _ _ (pwMStep_ok m norm tiny θ) ml mc fuel X Y hX hY hsq hrows hcols hval

#print axioms pwMRaw_spec
#print axioms pwMRaw_one
#print axioms pairwiseM_hierarchy_input_independentX
end PyamgV.CanonM
