import PyamgV.Model.C03Cyc
import PyamgV.Proofs.C03Lin
import Mathlib.Algebra.Order.Field.Rat
import Mathlib.Algebra.Module.Pi
import Mathlib.Tactic.Ring

/-! PyamgV (C03): meaning of the executable dense model `Model/C03Cyc.lean`.

A list `v` denotes the sequence `sem v : ℕ → ℚ`, `i ↦ v.getD i 0`; a matrix `A` (list of rows)
denotes the linear map `msem A` on `ℕ → ℚ`.  Every operation of the model is a homomorphism for
these meanings *without any shape condition* (zero padding), so the model cycle `cycM` is, under
`sem`, literally the abstract recursion `cyc` of `Proofs/Cycle.lean`, and the executable matrix
`mopM` denotes the textbook operator `MopL`. -/
namespace PyamgV.C03
open PyamgV

abbrev F := Nat → Rat

def sem (v : Vec) : F := fun i => v.getD i 0

@[simp] theorem sem_nil : sem [] = 0 := by funext i; simp [sem]
@[simp] theorem sem_cons_zero (a : Rat) (v : Vec) : sem (a :: v) 0 = a := by simp [sem]
@[simp] theorem sem_cons_succ (a : Rat) (v : Vec) (i : Nat) : sem (a :: v) (i + 1) = sem v i := by
  simp [sem]

theorem sem_vadd (x y : Vec) : sem (vadd x y) = sem x + sem y := by
  induction x generalizing y with
  | nil => simp [vadd]
  | cons a x ih =>
    cases y with
    | nil => simp [vadd]
    | cons c y =>
      funext i
      cases i with
      | zero => simp [vadd]
      | succ i => have := congrFun (ih y) i; simpa [vadd] using this

theorem sem_vneg (x : Vec) : sem (vneg x) = - sem x := by
  induction x with
  | nil => simp [vneg]
  | cons a x ih =>
    funext i
    cases i with
    | zero => simp [vneg]
    | succ i => have := congrFun ih i; simpa [vneg] using this

theorem sem_vsub (x y : Vec) : sem (vsub x y) = sem x - sem y := by
  induction x generalizing y with
  | nil => simp [vsub, sem_vneg]
  | cons a x ih =>
    cases y with
    | nil => simp [vsub]
    | cons c y =>
      funext i
      cases i with
      | zero => simp [vsub]
      | succ i => have := congrFun (ih y) i; simpa [vsub] using this

theorem sem_vsmul (a : Rat) (x : Vec) : sem (vsmul a x) = a • sem x := by
  induction x with
  | nil => simp [vsmul]
  | cons c x ih =>
    funext i
    cases i with
    | zero => simp [vsmul]
    | succ i => have := congrFun ih i; simpa [vsmul] using this

theorem sem_zeros (n : Nat) : sem (zeros n) = 0 := by
  induction n with
  | zero => simp [zeros]
  | succ n ih =>
    funext i
    cases i with
    | zero => simp [zeros, List.replicate_succ]
    | succ i => have := congrFun ih i; simpa [zeros, List.replicate_succ] using this

/-- a (finite) row applied to a sequence -/
def dotF : Vec → F → Rat
  | [], _ => 0
  | a :: r, f => a * f 0 + dotF r (fun j => f (j + 1))

@[simp] theorem dotF_nil (f : F) : dotF [] f = 0 := rfl

theorem dotF_add (r : Vec) (f g : F) : dotF r (f + g) = dotF r f + dotF r g := by
  induction r generalizing f g with
  | nil => simp [dotF]
  | cons a r ih =>
    have := ih (fun j => f (j + 1)) (fun j => g (j + 1))
    have h2 : (fun j => (f + g) (j + 1)) = (fun j => f (j + 1)) + (fun j => g (j + 1)) := by
      funext j; simp
    simp only [dotF]
    rw [h2, this]; simp only [Pi.add_apply]; ring

theorem dotF_smul (r : Vec) (c : Rat) (f : F) : dotF r (c • f) = c * dotF r f := by
  induction r generalizing f with
  | nil => simp [dotF]
  | cons a r ih =>
    have := ih (fun j => f (j + 1))
    have h2 : (fun j => (c • f) (j + 1)) = c • (fun j => f (j + 1)) := by
      funext j; simp
    simp only [dotF]
    rw [h2, this]; simp only [Pi.smul_apply, smul_eq_mul]; ring

theorem dotF_zero (r : Vec) : dotF r 0 = 0 := by
  have := dotF_smul r 0 0
  simpa using this

theorem dot_eq (r x : Vec) : dot r x = dotF r (sem x) := by
  induction r generalizing x with
  | nil => cases x <;> simp [dot]
  | cons a r ih =>
    cases x with
    | nil =>
      simp only [dot, dotF, sem_nil, Pi.zero_apply, mul_zero, zero_add]
      exact (dotF_zero r).symm
    | cons c x =>
      have h1 : (fun j => sem (c :: x) (j + 1)) = sem x := by funext j; simp
      simp [dot, dotF, h1, ih x]

theorem dotF_vadd (r s : Vec) (f : F) : dotF (vadd r s) f = dotF r f + dotF s f := by
  induction r generalizing s f with
  | nil => simp [vadd]
  | cons a r ih =>
    cases s with
    | nil => simp [vadd]
    | cons c s => simp only [vadd, dotF, ih]; ring

theorem dotF_vneg (r : Vec) (f : F) : dotF (vneg r) f = - dotF r f := by
  induction r generalizing f with
  | nil => simp [vneg]
  | cons a r ih =>
    have := ih (fun j => f (j + 1))
    simp only [vneg, List.map_cons, dotF] at this ⊢
    rw [this]; ring

theorem dotF_vsub (r s : Vec) (f : F) : dotF (vsub r s) f = dotF r f - dotF s f := by
  induction r generalizing s f with
  | nil => simp [vsub, dotF_vneg]
  | cons a r ih =>
    cases s with
    | nil => simp [vsub]
    | cons c s => simp only [vsub, dotF, ih]; ring

theorem dotF_vsmul (a : Rat) (r : Vec) (f : F) : dotF (vsmul a r) f = a * dotF r f := by
  induction r generalizing f with
  | nil => simp [vsmul]
  | cons c r ih =>
    have := ih (fun j => f (j + 1))
    simp only [vsmul, List.map_cons, dotF] at this ⊢
    rw [this]; ring

/-- meaning of a matrix: row `i` applied to the sequence (rows beyond the last are zero) -/
def msem (A : Mat) : F →ₗ[Rat] F where
  toFun f := fun i => dotF (A.getD i []) f
  map_add' f g := by funext i; simp [dotF_add]
  map_smul' c f := by funext i; simp [dotF_smul]

theorem msem_apply (A : Mat) (f : F) (i : Nat) : msem A f i = dotF (A.getD i []) f := rfl

theorem sem_matVec (A : Mat) (x : Vec) : sem (matVec A x) = msem A (sem x) := by
  funext i
  induction A generalizing i with
  | nil => simp [matVec, msem_apply, sem]
  | cons r A ih =>
    cases i with
    | zero => simp [matVec, msem_apply, sem, dot_eq]
    | succ i =>
      have := ih i
      simpa [matVec, msem_apply, sem] using this

theorem dotF_rowComb (r : Vec) (B : Mat) (f : F) :
    dotF (rowComb r B) f = dotF r (fun k => dotF (B.getD k []) f) := by
  induction r generalizing B with
  | nil => simp [rowComb]
  | cons a r ih =>
    cases B with
    | nil =>
      have h0 : (fun k : Nat => dotF (([] : Mat).getD k []) f) = (0 : F) := by funext k; simp
      rw [h0, dotF_zero]; simp [rowComb]
    | cons row B =>
      simp only [rowComb, dotF_vadd, dotF_vsmul, ih, dotF]
      simp

theorem msem_matMul (A B : Mat) : msem (matMul A B) = msem A ∘ₗ msem B := by
  apply LinearMap.ext; intro f; funext i
  simp only [LinearMap.comp_apply, msem_apply]
  have hB : msem B f = fun k => dotF (B.getD k []) f := rfl
  rw [hB]
  induction A generalizing i with
  | nil => simp [matMul]
  | cons r A ih =>
    cases i with
    | zero => simp [matMul, dotF_rowComb]
    | succ i => have := ih i; simpa [matMul] using this

theorem getD_madd (A B : Mat) (i : Nat) : (madd A B).getD i [] = vadd (A.getD i []) (B.getD i []) := by
  induction A generalizing B i with
  | nil => simp [madd, vadd]
  | cons r A ih =>
    cases B with
    | nil =>
      simp only [madd, List.getD_nil]
      cases h : (r :: A).getD i [] <;> simp [vadd]
    | cons s B =>
      cases i with
      | zero => simp [madd]
      | succ i => simpa [madd] using ih B i

theorem msem_madd (A B : Mat) : msem (madd A B) = msem A + msem B := by
  apply LinearMap.ext; intro f; funext i
  simp only [LinearMap.add_apply, Pi.add_apply, msem_apply, getD_madd, dotF_vadd]

theorem vsub_nil_right (x : Vec) : vsub x [] = x := by cases x <;> simp [vsub, vneg]

theorem getD_map_vneg (B : Mat) (i : Nat) : (B.map vneg).getD i [] = vneg (B.getD i []) := by
  induction B generalizing i with
  | nil => simp only [List.map_nil, List.getD_nil]; rfl
  | cons s B ih => cases i with
    | zero => simp
    | succ i => simpa using ih i

theorem getD_msub (A B : Mat) (i : Nat) : (msub A B).getD i [] = vsub (A.getD i []) (B.getD i []) := by
  induction A generalizing B i with
  | nil => simp only [msub, getD_map_vneg, List.getD_nil, vsub]
  | cons r A ih =>
    cases B with
    | nil => simp [msub, vsub_nil_right]
    | cons s B =>
      cases i with
      | zero => simp [msub]
      | succ i => simpa [msub] using ih B i

theorem msem_msub (A B : Mat) : msem (msub A B) = msem A - msem B := by
  apply LinearMap.ext; intro f; funext i
  simp only [LinearMap.sub_apply, Pi.sub_apply, msem_apply, getD_msub, dotF_vsub]

theorem msem_compMat (A M₁ M₂ : Mat) :
    msem (compMat A M₁ M₂) = compM (msem A) (msem M₁) (msem M₂) := by
  simp [compMat, compM, msem_msub, msem_madd, msem_matMul]

theorem msem_iterMat (A M : Mat) (k : Nat) (M0 : Mat) :
    msem (iterMat A M k M0) = iterM (msem A) (msem M) k (msem M0) := by
  induction k generalizing M0 with
  | zero => rfl
  | succ k ih => simp [iterMat, iterM, ih, msem_compMat]

/-! ## the abstract hierarchy denoted by the model data -/

def absLvl (L : Lvl) : LinLevel Rat F where
  A := msem L.A
  P := msem L.P
  R := msem L.R
  pre := fun x b => x + msem L.Qpre (b - msem L.A x)
  post := fun x b => x + msem L.Qpost (b - msem L.A x)
  Qpre := msem L.Qpre
  Qpost := msem L.Qpost

def ctype : Cyc → Nat → CType
  | .V, _ => .V
  | .W, _ => .W
  | .F, k => .F k

theorem wfls (Ls : List Lvl) : WFLs (Ls.map absLvl) := by
  induction Ls with
  | nil => trivial
  | cons L Ls ih => exact ⟨fun _ _ => rfl, fun _ _ => rfl, ih⟩

theorem sem_smooth (A Q : Mat) (x b : Vec) :
    sem (smooth A Q x b) = sem x + msem Q (sem b - msem A (sem x)) := by
  simp [smooth, sem_vadd, sem_matVec, sem_vsub]

theorem sem_iterN (g : Vec → Vec) (f : F → F → F) (b : F) (hg : ∀ v, sem (g v) = f (sem v) b)
    (k : Nat) (v : Vec) : sem (iterN g k v) = iter f b k (sem v) := by
  induction k generalizing v with
  | zero => rfl
  | succ k ih => simp [iterN, PyamgV.iter, ih, hg]

/-- one level of `__solve` around an arbitrary coarse-correction map -/
def levelStep (L : Lvl) (coarse : Vec → Vec) (x b : Vec) : Vec :=
  let x1 := smooth L.A L.Qpre x b
  let coarse_b := matVec L.R (vsub b (matVec L.A x1))
  smooth L.A L.Qpost (vadd x1 (matVec L.P (coarse coarse_b))) b

theorem sem_levelStep (L : Lvl) (coarse : Vec → Vec) (g : F → F)
    (h : ∀ cb, sem (coarse cb) = g (sem cb)) (x b : Vec) :
    sem (levelStep L coarse x b) =
      (absLvl L).post ((absLvl L).pre (sem x) (sem b) +
        (absLvl L).P (g ((absLvl L).R (sem b - (absLvl L).A ((absLvl L).pre (sem x) (sem b))))))
        (sem b) := by
  simp only [levelStep, sem_smooth, sem_vadd, sem_matVec, sem_vsub, h, absLvl]

theorem cyc_single {K : Type*} [Field K] [LinearOrder K] [IsStrictOrderedRing K]
    {V : Type*} [AddCommGroup V] [Module K V] (S : V →ₗ[K] V) (c : CType) (L : Level K V) (x b : V) :
    cyc (fun v => S v) c [L] x b = L.post (L.pre x b + L.P (S (L.R (b - L.A (L.pre x b))))) b := by
  cases c with
  | V => simp [cyc]
  | W => simp [cyc]
  | F k =>
    have hi := iter_ignore (V := V) (fun b => S b)
    simp only [cyc]
    rw [hi]

/-- **refinement**: under `sem`, the executable model of `__solve` is the abstract recursion `cyc`
(for every shape of the data, every cycle type and `cycles_per_level`) -/
theorem cycM_sem (S : Mat) : ∀ (Ls : List Lvl) (c : Cyc) (cpl : Nat) (L : Lvl) (x b : Vec),
    sem (cycM S c cpl (L :: Ls) x b) =
      cyc (fun v => msem S v) (ctype c cpl) ((L :: Ls).map (fun l => (absLvl l).toLevel))
        (sem x) (sem b) := by
  intro Ls
  induction Ls with
  | nil =>
    intro c cpl L x b
    have h1 : cycM S c cpl [L] x b = levelStep L (matVec S) x b := by cases c <;> rfl
    rw [h1, sem_levelStep L (matVec S) (fun v => msem S v) (fun cb => sem_matVec S cb)]
    simp only [List.map_cons, List.map_nil]
    rw [cyc_single]
  | cons L' rest ih =>
    intro c cpl L x b
    cases c with
    | V =>
      have h1 : cycM S .V cpl (L :: L' :: rest) x b =
          levelStep L (fun cb => cycM S .V 1 (L' :: rest) (zeros cb.length) cb) x b := rfl
      rw [h1, sem_levelStep L _
        (fun rc => cyc (fun v => msem S v) .V ((L' :: rest).map (fun l => (absLvl l).toLevel)) 0 rc)
        (fun cb => by rw [ih .V 1 L', sem_zeros]; rfl)]
      rfl
    | W =>
      have h1 : cycM S .W cpl (L :: L' :: rest) x b =
          levelStep L (fun cb => cycM S .W 1 (L' :: rest)
            (cycM S .W 1 (L' :: rest) (zeros cb.length) cb) cb) x b := rfl
      rw [h1, sem_levelStep L _
        (fun rc => cyc (fun v => msem S v) .W ((L' :: rest).map (fun l => (absLvl l).toLevel))
          (cyc (fun v => msem S v) .W ((L' :: rest).map (fun l => (absLvl l).toLevel)) 0 rc) rc)
        (fun cb => by rw [ih .W 1 L', ih .W 1 L', sem_zeros]; rfl)]
      rfl
    | F =>
      have h1 : cycM S .F cpl (L :: L' :: rest) x b =
          levelStep L (fun cb => iterN (fun cx => cycM S .V 1 (L' :: rest) cx cb) cpl
            (cycM S .F cpl (L' :: rest) (zeros cb.length) cb)) x b := rfl
      rw [h1, sem_levelStep L _
        (fun rc => iter (cyc (fun v => msem S v) .V ((L' :: rest).map (fun l => (absLvl l).toLevel)))
          rc cpl
          (cyc (fun v => msem S v) (.F cpl) ((L' :: rest).map (fun l => (absLvl l).toLevel)) 0 rc))
        (fun cb => by
          rw [sem_iterN _
            (cyc (fun v => msem S v) .V ((L' :: rest).map (fun l => (absLvl l).toLevel))) (sem cb)
            (fun v => by rw [ih .V 1 L']; rfl), ih .F cpl L', sem_zeros]; rfl)]
      rfl

theorem map_toLevel (Ls : List Lvl) :
    Ls.map (fun l => (absLvl l).toLevel) = (Ls.map absLvl).map (·.toLevel) := by
  simp [List.map_map]

/-- the executable matrix `mopM` denotes the textbook operator `MopL` -/
theorem msem_mopM (S : Mat) : ∀ (Ls : List Lvl) (c : Cyc) (cpl : Nat),
    msem (mopM S c cpl Ls) = MopL (msem S) (ctype c cpl) (Ls.map absLvl) := by
  intro Ls
  induction Ls with
  | nil => intro c cpl; cases c <;> rfl
  | cons L rest ih =>
    intro c cpl
    cases rest with
    | nil =>
      have h1 : mopM S c cpl [L] =
          compMat L.A (compMat L.A L.Qpre (matMul L.P (matMul S L.R))) L.Qpost := by cases c <;> rfl
      have h2 : MopL (msem S) (ctype c cpl) ([L].map absLvl) =
          compM (msem L.A) (compM (msem L.A) (msem L.Qpre) (msem L.P ∘ₗ msem S ∘ₗ msem L.R))
            (msem L.Qpost) := by cases c <;> rfl
      rw [h1, h2]; simp only [msem_compMat, msem_matMul]
    | cons L' rest' =>
      cases c with
      | V =>
        have h1 : mopM S .V cpl (L :: L' :: rest') =
            compMat L.A (compMat L.A L.Qpre (matMul L.P (matMul (mopM S .V 1 (L' :: rest')) L.R)))
              L.Qpost := rfl
        have h2 : MopL (msem S) (ctype .V cpl) ((L :: L' :: rest').map absLvl) =
            compM (msem L.A) (compM (msem L.A) (msem L.Qpre)
              (msem L.P ∘ₗ MopL (msem S) .V ((L' :: rest').map absLvl) ∘ₗ msem L.R))
              (msem L.Qpost) := rfl
        rw [h1, h2]; simp only [msem_compMat, msem_matMul]
        rw [ih .V 1]; rfl
      | W =>
        have h1 : mopM S .W cpl (L :: L' :: rest') =
            compMat L.A (compMat L.A L.Qpre (matMul L.P (matMul
              (compMat L'.A (mopM S .W 1 (L' :: rest')) (mopM S .W 1 (L' :: rest'))) L.R)))
              L.Qpost := rfl
        have h2 : MopL (msem S) (ctype .W cpl) ((L :: L' :: rest').map absLvl) =
            compM (msem L.A) (compM (msem L.A) (msem L.Qpre)
              (msem L.P ∘ₗ compM (msem L'.A) (MopL (msem S) .W ((L' :: rest').map absLvl))
                (MopL (msem S) .W ((L' :: rest').map absLvl)) ∘ₗ msem L.R))
              (msem L.Qpost) := rfl
        rw [h1, h2]; simp only [msem_compMat, msem_matMul]
        rw [ih .W 1]; rfl
      | F =>
        have h1 : mopM S .F cpl (L :: L' :: rest') =
            compMat L.A (compMat L.A L.Qpre (matMul L.P (matMul
              (iterMat L'.A (mopM S .V 1 (L' :: rest')) cpl (mopM S .F cpl (L' :: rest'))) L.R)))
              L.Qpost := rfl
        have h2 : MopL (msem S) (ctype .F cpl) ((L :: L' :: rest').map absLvl) =
            compM (msem L.A) (compM (msem L.A) (msem L.Qpre)
              (msem L.P ∘ₗ iterM (msem L'.A) (MopL (msem S) .V ((L' :: rest').map absLvl)) cpl
                (MopL (msem S) (.F cpl) ((L' :: rest').map absLvl)) ∘ₗ msem L.R))
              (msem L.Qpost) := rfl
        rw [h1, h2]; simp only [msem_compMat, msem_matMul, msem_iterMat]
        rw [ih .V 1, ih .F cpl]; rfl

end PyamgV.C03
