import PyamgV.Proofs.ExtC12Lloyd

/-! PyamgV (C12, E18): the AggOp assembly of `lloyd_aggregation` and the aggregation as a whole. -/
namespace PyamgV.ExtLloyd
open PyamgV.N PyamgV.BF

theorem rdN_push (a : Array Nat) (x i : Nat) :
    rdN (a.push x) i = if i = a.size then x else rdN a i := by
  simp only [rdN, Array.getD_eq_getD_getElem?, Array.getElem?_push]
  by_cases h : i = a.size
  · simp [h]
  · simp [h]

/-- CSR arrays of the matrix with a single one at `(i, cl[i])` in the rows with `cl[i] >= 0` -/
structure AggSpec (cl : Array Int) (ip ix : Array Nat) (dat : Array Int) : Prop where
  size_ip : ip.size = cl.size + 1
  first : rdN ip 0 = 0
  last : rdN ip cl.size = ix.size
  size_dat : dat.size = ix.size
  /-- an assigned node has exactly one entry: a one in the column of its cluster -/
  row1 : ∀ i, i < cl.size → 0 ≤ rdI cl i →
    rdN ip (i + 1) = rdN ip i + 1 ∧ rdN ip i < ix.size ∧ rdN ix (rdN ip i) = (rdI cl i).toNat ∧
      rdI dat (rdN ip i) = 1
  /-- an unassigned node (`cl[i] = -1`) has an empty row -/
  row0 : ∀ i, i < cl.size → rdI cl i < 0 → rdN ip (i + 1) = rdN ip i

def aggStep (cl : Array Int) (s : Array Nat × Array Nat) (i : Nat) : Array Nat × Array Nat :=
  if 0 ≤ rdI cl i then (s.1.push (s.2.size + 1), s.2.push (rdI cl i).toNat)
  else (s.1.push s.2.size, s.2)

structure AggInv (cl : Array Int) (k : Nat) (s : Array Nat × Array Nat) : Prop where
  size_ip : s.1.size = k + 1
  first : rdN s.1 0 = 0
  last : rdN s.1 k = s.2.size
  row1 : ∀ i, i < k → 0 ≤ rdI cl i →
    rdN s.1 (i + 1) = rdN s.1 i + 1 ∧ rdN s.1 i < s.2.size ∧ rdN s.2 (rdN s.1 i) = (rdI cl i).toNat
  row0 : ∀ i, i < k → rdI cl i < 0 → rdN s.1 (i + 1) = rdN s.1 i

theorem aggInv_fold (cl : Array Int) : ∀ k, AggInv cl k ((List.range k).foldl (aggStep cl) (#[0], #[])) := by
  intro k
  induction k with
  | zero =>
    exact ⟨rfl, rfl, rfl, fun i hi => by omega, fun i hi => by omega⟩
  | succ k ih =>
    rw [List.range_succ, List.foldl_append, List.foldl_cons, List.foldl_nil]
    generalize (List.range k).foldl (aggStep cl) _ = s at ih ⊢
    obtain ⟨hsz, hfirst, hlast, h1, h0⟩ := ih
    unfold aggStep
    by_cases hk : 0 ≤ rdI cl k
    · rw [if_pos hk]
      refine ⟨by simp [hsz], ?_, ?_, ?_, ?_⟩
      · show rdN (s.1.push (s.2.size + 1)) 0 = 0
        rw [rdN_push, if_neg (by omega)]; exact hfirst
      · show rdN (s.1.push (s.2.size + 1)) (k + 1) = (s.2.push (rdI cl k).toNat).size
        rw [rdN_push, if_pos (by omega)]; simp
      · intro i hi hci
        show rdN (s.1.push (s.2.size + 1)) (i + 1) = rdN (s.1.push (s.2.size + 1)) i + 1 ∧
          rdN (s.1.push (s.2.size + 1)) i < (s.2.push (rdI cl k).toNat).size ∧
          rdN (s.2.push (rdI cl k).toNat) (rdN (s.1.push (s.2.size + 1)) i) = (rdI cl i).toNat
        rw [rdN_push s.1 _ i, if_neg (by omega)]
        by_cases hik : i = k
        · subst hik
          rw [rdN_push, if_pos (by omega), hlast, rdN_push, if_pos rfl]
          exact ⟨rfl, by simp, rfl⟩
        · obtain ⟨a, b, c⟩ := h1 i (by omega) hci
          rw [rdN_push, if_neg (by omega), rdN_push, if_neg (by omega)]
          exact ⟨a, by simp; omega, c⟩
      · intro i hi hci
        have hik : i ≠ k := by intro e; subst e; omega
        show rdN (s.1.push (s.2.size + 1)) (i + 1) = rdN (s.1.push (s.2.size + 1)) i
        rw [rdN_push, if_neg (by omega), rdN_push, if_neg (by omega)]
        exact h0 i (by omega) hci
    · rw [if_neg hk]
      refine ⟨by simp [hsz], ?_, ?_, ?_, ?_⟩
      · show rdN (s.1.push s.2.size) 0 = 0
        rw [rdN_push, if_neg (by omega)]; exact hfirst
      · show rdN (s.1.push s.2.size) (k + 1) = s.2.size
        rw [rdN_push, if_pos (by omega)]
      · intro i hi hci
        have hik : i ≠ k := by intro e; subst e; omega
        show rdN (s.1.push s.2.size) (i + 1) = rdN (s.1.push s.2.size) i + 1 ∧
          rdN (s.1.push s.2.size) i < s.2.size ∧ rdN s.2 (rdN (s.1.push s.2.size) i) = (rdI cl i).toNat
        rw [rdN_push, if_neg (by omega), rdN_push, if_neg (by omega)]
        exact h1 i (by omega) hci
      · intro i hi hci
        show rdN (s.1.push s.2.size) (i + 1) = rdN (s.1.push s.2.size) i
        by_cases hik : i = k
        · subst hik
          rw [rdN_push, if_pos (by omega), rdN_push, if_neg (by omega), hlast]
        · rw [rdN_push, if_neg (by omega), rdN_push, if_neg (by omega)]
          exact h0 i (by omega) hci

/-- **AggOp assembly**: the CSR arrays `aggOp` builds from `clusters` -/
theorem aggOp_spec (cl : Array Int) : AggSpec cl (aggOp cl).1 (aggOp cl).2.1 (aggOp cl).2.2 := by
  have h := aggInv_fold cl cl.size
  have he : aggOp cl = (((List.range cl.size).foldl (aggStep cl) (#[0], #[])).1,
      ((List.range cl.size).foldl (aggStep cl) (#[0], #[])).2,
      Array.replicate ((List.range cl.size).foldl (aggStep cl) (#[0], #[])).2.size 1) := rfl
  rw [he]
  generalize (List.range cl.size).foldl (aggStep cl) _ = s at h
  obtain ⟨hsz, hfirst, hlast, h1, h0⟩ := h
  refine ⟨hsz, hfirst, hlast, by simp, ?_, h0⟩
  intro i hi hci
  obtain ⟨a, b, c⟩ := h1 i hi hci
  refine ⟨a, b, c, ?_⟩
  show rdI (Array.replicate s.2.size 1) (rdN s.1 i) = 1
  simp [rdI, Array.getD_eq_getD_getElem?, b]

/-! ### `lloyd_aggregation` -/

theorem reach_congr {A B : Csr} (hn : A.n = B.n) (hap : A.ap = B.ap) (haj : A.aj = B.aj) {c v : Nat}
    (h : Reach A c v) : Reach B c v := by
  induction h with
  | refl => exact Reach.refl _
  | @step i jj _ hi hjj ih =>
    rw [haj]
    refine Reach.step ih (by omega) ?_
    unfold Csr.jjs at hjj ⊢
    rwa [← hap]

theorem LloydSpec.congr {A B : Csr} (hn : A.n = B.n) (hap : A.ap = B.ap) (haj : A.aj = B.aj)
    {k : Nat} {cl : Array Int} {ce : Array Nat} (h : LloydSpec A k cl ce) : LloydSpec B k cl ce := by
  refine ⟨by rw [← hn]; exact h.size_cl, h.size_ce, fun v hv => h.ids v (by omega),
    fun a ha => by rw [← hn]; exact h.root a ha, ?_, ?_⟩
  · intro v hv
    rw [h.assigned v (by omega)]
    constructor
    · rintro ⟨a, ha, hr⟩; exact ⟨a, ha, reach_congr hn hap haj hr⟩
    · rintro ⟨a, ha, hr⟩; exact ⟨a, ha, reach_congr hn.symm hap.symm haj.symm hr⟩
  · intro v hv h0
    exact reach_congr hn hap haj (h.connected v (by omega) h0)

theorem rdI_extract (p : Array Int) (k a : Nat) (ha : a < (p.extract 0 k).size) :
    rdI (p.extract 0 k) a = rdI p a := by
  have h1 : a < k ∧ a < p.size := by simp at ha; omega
  simp [rdI, Array.getD_eq_getD_getElem?, h1.1, h1.2]

/-- **Lloyd aggregation** (model of `lloyd_aggregation`; symmetric strength pattern, `perm` the drawn
permutation, `maxiter >= 1`): whenever the model returns `(AggOp, Cpts)`, `AggOp` is the CSR matrix of
a clustering `cl` with: no empty aggregate and root `Cpts[a]` in aggregate `a`; a node is aggregated
iff a root reaches it in the strength graph (otherwise `cl = -1`: empty row); aggregated nodes are
connected to their own root. -/
theorem lloydAggregation_spec {A : Csr}
    (hcol : ∀ i, i < A.n → ∀ jj ∈ A.jjs i, rdN A.aj jj < A.n) (hs : SymPat A)
    {measure : String} {ratio : Rat} {perm : Array Int} {maxiter : Nat} (h1 : 1 ≤ maxiter)
    (hperm : ∀ a b, a < perm.size → b < perm.size → rdI perm a = rdI perm b → a = b)
    {agg : Array Nat × Array Nat × Array Int} {ce : Array Nat}
    (h : lloydAggregation A measure ratio perm maxiter = .ok (some (agg, ce))) :
    ∃ cl, LloydSpec A (min (naggs ratio A.n) perm.size) cl ce ∧ AggSpec cl agg.1 agg.2.1 agg.2.2 := by
  unfold lloydAggregation at h
  split at h
  · cases h
  · split at h
    · cases h
    · rename_i x _
      split at h
      · cases h
      · simp only [] at h
        split at h
        · cases h
        · cases h
        · rename_i cl ce' heq
          injection h with h
          injection h with h
          injection h with hagg hce
          subst hagg hce
          refine ⟨cl, ?_, aggOp_spec cl⟩
          by_cases hacc : accepts { A with ax := x } (perm.extract 0 (naggs ratio A.n)) = true
          · have hinj : ∀ a b, a < (perm.extract 0 (naggs ratio A.n)).size →
                b < (perm.extract 0 (naggs ratio A.n)).size →
                rdI (perm.extract 0 (naggs ratio A.n)) a = rdI (perm.extract 0 (naggs ratio A.n)) b → a = b := by
              intro a b ha hb hab
              rw [rdI_extract _ _ _ ha, rdI_extract _ _ _ hb] at hab
              simp at ha hb
              exact hperm a b (by omega) (by omega) hab
            obtain ⟨cl2, ce2, h2, h3⟩ := lloydCluster_spec (A := { A with ax := x }) hcol hs hacc hinj maxiter h1
            rw [h2] at heq
            injection heq with heq
            injection heq with heq
            injection heq with hcl hce
            subst hcl hce
            have hsz : (perm.extract 0 (naggs ratio A.n)).size = min (naggs ratio A.n) perm.size := by
              simp
            rw [hsz] at h3
            exact LloydSpec.congr (A := { A with ax := x }) (B := A) rfl rfl rfl h3
          · unfold lloydCluster at heq
            rw [if_neg hacc] at heq
            cases heq

end PyamgV.ExtLloyd
