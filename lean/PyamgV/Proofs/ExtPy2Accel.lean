import PyamgV.Generated.PyLogic2
import PyamgV.Model.ExtPy2Worlds
import PyamgV.Proofs.ExtPy2Tactic
/-! PyamgV (extension E42, property C08): the definition GENERATED from the working tree by `harness/py2lean2.py` for
`MultilevelSolver.solve` (pyamg/multilevel.py), run on an accelerated request, does exactly what the hand-written
decision model `C08.plan` (Model/C08Accel.lean) says: same exception, same calls of the accelerator with the same
keyword arguments in the same order, same preconditioner, same callback, same residual-list initialisation, same
return value.  The statement is about `PyamgV.Generated.PyLogic2.multilevel_solve`, i.e. about what the source
says now; the run is `PyM2.exec` in the world / script of `Model/ExtPy2Worlds.lean`. -/
open PyamgV.ExtPy PyamgV.ExtPy2 PyamgV.Generated.PyLogic2 PyamgV.ExtPy2W PyamgV.C08
namespace PyamgV.ExtPy2Accel

/-- one accelerated call of the generated `solve`: (result or exception class, trace) -/
def run (T : Tables) (r : Req) (info : Int) (nr : Rat) : Except String PyVal × List PyVal :=
  let o := PyM2.exec (multilevel_solve (accelWorld T r) (.obj "self") (.obj "b") (if r.x0 then .obj "x0" else .none)
      (.float r.tol) (.int r.maxiter) (.str r.cycle) (match r.accel with | .name s => .str s | .fn _ => .obj "uacc")
      (if r.callback then .obj "cb" else .none) (if r.residuals then .obj "res" else .none) (.int 1)
      (.bool r.returnInfo)) { trace := [], script := accelScript T r info nr }
  (match o.1 with | .ok v => .ok v | .error e => .error e.cls, o.2.trace)

/-! ### what `C08.plan` predicts, written as a trace -/

def callEv (f : String) (args : List PyVal) (kw : List (String × PyVal)) : PyVal :=
  .tuple [.str "call", .obj f, .list args, .dict kw]
def binEv (op : String) (a b : PyVal) : PyVal := .tuple [.str "binop", .str op, a, b]

def x0Val (b : Bool) : PyVal := if b then .obj "x0" else .none
def cbVal (r : Req) : PyVal := if r.callback then .obj "cb" else .none

/-- `x = np.zeros_like(b)` / `x = np.array(x0)`: the event and the object `x` is afterwards -/
def xInit (r : Req) : PyVal × PyVal :=
  if r.x0 then (callEv "np.array" [.obj "x0"] [], .obj "xc") else (callEv "np.zeros_like" [.obj "b"] [], .obj "xz")

def warnEv : PyVal :=
  callEv "warn" [.str "Incompatible non-symmetric multigrid preconditioner detected, due to presmoother/postsmoother combination. CG requires SPD preconditioner, not just SPD matrix."] []

/-- what the nested function `callback_wrapper` calls (a summary of its body) -/
def wrapperCalls : List String := ["callback", "np.isscalar", "np.linalg.norm", "np.ravel", "residuals.append"]

def encCb (r : Req) : Cb → PyVal
  | .none => .none
  | .user => .obj "cb"
  | .wrapper => mkClosure "callback_wrapper" 0 wrapperCalls
      [("A", .obj "A"), ("b", .obj "b"), ("callback", cbVal r), ("residuals", .obj "res")]

def optFloat : Option Rat → PyVal
  | some q => .float q
  | none => .none

/-- one `Call` of the model as the event `accel(A, b, **kw)` -/
def encCall (r : Req) (c : Call) : PyVal :=
  callEv (targetLabel c.target) [.obj "A", .obj "b"]
    (if c.pyamgStyle then
      [("x0", x0Val c.x0), ("tol", optFloat c.tol), ("maxiter", .int c.maxiter), ("M", .obj "M"),
       ("callback", encCb r c.callback),
       ("residuals", match c.residualsKw with | some true => .obj "res" | _ => .none)]
     else
      [("x0", x0Val c.x0), ("maxiter", .int c.maxiter), ("M", .obj "M"), ("callback", encCb r c.callback),
       ("rtol", optFloat c.rtol)] ++ (match c.atol with | some _ => [("atol", .int 0)] | none => []))

/-- `residuals[:] = [norm(ravel(b) - A @ ravel(x))]` -/
def preinitEvs (x : PyVal) (nr : Rat) : List PyVal :=
  [callEv "np.ravel" [.obj "b"] [], callEv "np.ravel" [x] [], binEv "matmul" (.obj "A") (.obj "rx"),
   binEv "sub" (.obj "rb") (.obj "Ax"), callEv "np.linalg.norm" [.obj "rr"] [],
   .tuple [.str "setitem", .obj "res", sliceKey .none .none, .list [.float nr]]]

def clsOf (exc : String) : String := String.ofList (exc.toList.takeWhile (· != ':'))

def expected (T : Tables) (r : Req) (info : Int) (nr : Rat) : Except String PyVal × List PyVal :=
  let (e0, x) := xInit r
  match plan T r with
  | .raise warn exc => (.error (clsOf exc), [e0] ++ (if warn then [warnEv] else []))
  | .run warn calls preinit tuple =>
    let res : PyVal := if tuple then .tuple [.obj "xr", .int info] else .obj "xr"
    let pre (cyc : String) : List PyVal :=
      [e0] ++ (if warn then [warnEv] else []) ++ [callEv "self.aspreconditioner" [] [("cycle", .str cyc)]]
    match calls with
    | [c1] => (.ok res, pre c1.precond ++ [encCall r c1])
    | [c1, c2] =>
      (.ok res, pre c1.precond ++ [encCall r c1] ++ (if preinit then preinitEvs x nr else []) ++
        [callEv "inspect.signature" [.obj (targetLabel c2.target)] [], encCall r c2])
    | _ => (.error "model", [])

/-! ### the grids of requests -/

def bools : List Bool := [false, true]

/-- every name of the two tables, a name neither module has, and the four kinds of callables -/
def accels (T : Tables) : List Accel :=
  T.krylov.map .name ++ T.scipy.map (fun e => .name e.1) ++
    [.name "nope", .fn .pyamg, .fn (.scipy none), .fn (.scipy (some true)), .fn (.scipy (some false))]

/-- grid 1: every accelerator x every combination of the five Boolean options (V-cycle, no `symmetry` attribute) -/
def gridNames (T : Tables) (tol : Rat) (mi : Int) : List Req :=
  (accels T).flatMap fun a =>
  bools.flatMap fun ss => bools.flatMap fun x0 => bools.flatMap fun cb => bools.flatMap fun res => bools.map fun ri =>
    { cycle := "V", symmetry := none, symSmoothing := ss, accel := a, tol := tol, maxiter := mi, x0 := x0,
      callback := cb, residuals := res, returnInfo := ri }

def cycles : List String := ["V", "W", "F", "AMLI", "v", "amli"]
def syms : List (Option String) := [none, some "hermitian", some "symmetric", some "nonsymmetric"]
/-- one accelerator of every behaviour class: `cg` (warning), `fgmres` (AMLI allowed), another pyamg.krylov name, a
SciPy name with and one without `atol`, an unknown name, the callables -/
def accelReps : List Accel :=
  [.name "cg", .name "fgmres", .name "gmres", .name "bicg", .name "minres", .name "nope", .fn .pyamg, .fn (.scipy none),
   .fn (.scipy (some true)), .fn (.scipy (some false))]

/-- grid 2: every cycle spelling x every `symmetry` attribute x one accelerator per class x (symmetric smoothing,
`x0`, `return_info`), with a callback and a residual list -/
def gridCycles (tol : Rat) (mi : Int) : List Req :=
  cycles.flatMap fun cyc => syms.flatMap fun sym => accelReps.flatMap fun a =>
  bools.flatMap fun ss => bools.flatMap fun x0 => bools.map fun ri =>
    { cycle := cyc, symmetry := sym, symSmoothing := ss, accel := a, tol := tol, maxiter := mi, x0 := x0,
      callback := true, residuals := true, returnInfo := ri }

set_option maxRecDepth 100000 in
theorem gridNames_eq (tol : Rat) (mi info : Int) (nr : Rat) :
    (gridNames tables tol mi).map (fun r => run tables r info nr)
      = (gridNames tables tol mi).map (fun r => expected tables r info nr) := by
  kernel_rfl

set_option maxRecDepth 100000 in
theorem gridCycles_eq (tol : Rat) (mi info : Int) (nr : Rat) :
    (gridCycles tol mi).map (fun r => run tables r info nr)
      = (gridCycles tol mi).map (fun r => expected tables r info nr) := by
  kernel_rfl

/-- LINK to the C08 plan model, grid 1: for every accelerator of the tables (and an unknown name, and the four kinds
of callables), every combination of `symmetric_smoothing`, `x0`, `callback`, `residuals`, `return_info`, and ALL values
of `tol`, `maxiter`, the returned `info` and the recomputed residual norm: the generated `solve` raises / calls /
returns exactly what `C08.plan` says -/
theorem accel_refines_plan_names (tol : Rat) (mi info : Int) (nr : Rat) :
    ∀ r ∈ gridNames tables tol mi, run tables r info nr = expected tables r info nr :=
  List.map_inj_left.mp (gridNames_eq tol mi info nr)

/-- LINK to the C08 plan model, grid 2: every spelling of the cycle (incl. the AMLI guards), every `symmetry`
attribute (and its absence), one accelerator of every behaviour class -/
theorem accel_refines_plan_cycles (tol : Rat) (mi info : Int) (nr : Rat) :
    ∀ r ∈ gridCycles tol mi, run tables r info nr = expected tables r info nr :=
  List.map_inj_left.mp (gridCycles_eq tol mi info nr)

end PyamgV.ExtPy2Accel
