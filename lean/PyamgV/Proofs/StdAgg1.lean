import PyamgV.Proofs.Mis

/-! PyamgV (C12): `standard_aggregation`, pass 1 — model and invariant. Core only. -/
namespace PyamgV.Agg
open PyamgV

/-- pass-1 neighbour scan with the kernel's early `break`: (has_neighbors, has_aggregated_neighbors) -/
def scan1 (x : Array Int) (i : Nat) : List Nat → Bool → Bool × Bool
  | [], hasN => (hasN, false)
  | j :: js, hasN =>
    if i ≠ j then (if rd x j ≠ 0 then (true, true) else scan1 x i js true) else scan1 x i js hasN

theorem scan1_spec (x : Array Int) (i : Nat) : ∀ (l : List Nat) (hasN : Bool),
    ((scan1 x i l hasN).2 = true ↔ ∃ j ∈ l, j ≠ i ∧ rd x j ≠ 0) ∧
    ((scan1 x i l hasN).2 = false → ((scan1 x i l hasN).1 = true ↔ (hasN = true ∨ ∃ j ∈ l, j ≠ i))) ∧
    ((scan1 x i l hasN).2 = true → (scan1 x i l hasN).1 = true) := by
  intro l
  induction l with
  | nil => intro hasN; simp [scan1]
  | cons j js ih =>
    intro hasN
    simp only [scan1]
    by_cases hij : i ≠ j
    · simp only [hij, ne_eq, not_false_eq_true, if_true]
      by_cases hx : rd x j ≠ 0
      · simp only [hx, ne_eq, not_false_eq_true, if_true]
        refine ⟨⟨fun _ => ⟨j, by simp, fun e => hij e.symm, hx⟩, fun _ => trivial⟩, by simp, by simp⟩
      · simp only [hx, if_false]
        obtain ⟨h1, h2, h3⟩ := ih true
        have hx0 : rd x j = 0 := by simpa using hx
        refine ⟨?_, ?_, h3⟩
        · rw [h1]; constructor
          · rintro ⟨k, hk, hki, hkx⟩; exact ⟨k, by simp [hk], hki, hkx⟩
          · rintro ⟨k, hk, hki, hkx⟩
            rcases List.mem_cons.1 hk with rfl | hk
            · exact absurd hx0 hkx
            · exact ⟨k, hk, hki, hkx⟩
        · intro hf; rw [h2 hf]
          constructor
          · intro _; exact Or.inr ⟨j, by simp, fun e => hij e.symm⟩
          · intro _; exact Or.inl rfl
    · have hij' : i = j := by simpa using hij
      simp only [hij, if_false]
      obtain ⟨h1, h2, h3⟩ := ih hasN
      refine ⟨?_, ?_, h3⟩
      · rw [h1]; constructor
        · rintro ⟨k, hk, hki, hkx⟩; exact ⟨k, by simp [hk], hki, hkx⟩
        · rintro ⟨k, hk, hki, hkx⟩
          rcases List.mem_cons.1 hk with rfl | hk
          · exact absurd hij'.symm hki
          · exact ⟨k, hk, hki, hkx⟩
      · intro hf; rw [h2 hf]
        constructor
        · rintro (h | ⟨k, hk, hki⟩)
          · exact Or.inl h
          · exact Or.inr ⟨k, by simp [hk], hki⟩
        · rintro (h | ⟨k, hk, hki⟩)
          · exact Or.inl h
          · rcases List.mem_cons.1 hk with rfl | hk
            · exact absurd hij'.symm hki
            · exact Or.inr ⟨k, hk, hki⟩

/-- `for jj: x[Aj[jj]] = next` -/
def fill (x : Array Int) (l : List Nat) (v : Int) : Array Int := l.foldl (fun x j => wr x j v) x

theorem fill_spec (v : Int) : ∀ (l : List Nat) (x : Array Int), (∀ j ∈ l, j < x.size) →
    (fill x l v).size = x.size ∧ ∀ k, rd (fill x l v) k = if k ∈ l then v else rd x k := by
  intro l; induction l with
  | nil => intro x _; simp [fill]
  | cons j js ih =>
    intro x hb
    have hj : j < x.size := hb j (by simp)
    have := ih (wr x j v) (by intro k hk; simpa using hb k (by simp [hk]))
    simp only [fill, List.foldl_cons] at this ⊢
    refine ⟨by simpa using this.1, ?_⟩
    intro k; rw [this.2 k, rd_wr]
    by_cases hkj : j = k
    · subst hkj; simp [hj]
    · have : k ≠ j := fun e => hkj e.symm
      simp [hkj, this]

structure St where
  x : Array Int
  y : Array Int
  next : Int

def pass1Step (G : Graph) (s : St) (i : Nat) : St :=
  if rd s.x i ≠ 0 then s else
    let r := scan1 s.x i (G.adj i) false
    if r.1 = false then { s with x := wr s.x i (-(G.n : Int)) }
    else if r.2 = false then
      { x := fill (wr s.x i s.next) (G.adj i) s.next, y := wr s.y (s.next - 1).toNat (i : Int), next := s.next + 1 }
    else s

def pass1 (G : Graph) : St :=
  (List.range G.n).foldl (pass1Step G) ⟨Array.replicate G.n 0, Array.replicate G.n (-7), 1⟩

/-- no off-diagonal neighbour -/
def Isolated (G : Graph) (i : Nat) : Prop := ∀ j ∈ G.adj i, j = i

structure P1 (G : Graph) (t : Nat) (s : St) : Prop where
  xsize : s.x.size = G.n
  ysize : s.y.size = G.n
  next1 : 1 ≤ s.next
  nextt : s.next - 1 ≤ t
  vals : ∀ i, i < G.n → rd s.x i = 0 ∨ rd s.x i = -(G.n : Int) ∨ (1 ≤ rd s.x i ∧ rd s.x i < s.next)
  iso  : ∀ i, i < G.n → rd s.x i = -(G.n : Int) → Isolated G i ∧ i < t
  zero : ∀ i, i < t → i < G.n → rd s.x i = 0 → ∃ j ∈ G.adj i, j ≠ i ∧ 1 ≤ rd s.x j
  isoC : ∀ i, i < t → i < G.n → Isolated G i → rd s.x i = -(G.n : Int)
  root : ∀ a : Int, 1 ≤ a → a < s.next →
          0 ≤ rd s.y (a - 1).toNat ∧ (rd s.y (a - 1).toNat).toNat < t ∧
          rd s.x (rd s.y (a - 1).toNat).toNat = a
  incr : ∀ a b : Int, 1 ≤ a → a < b → b < s.next → rd s.y (a - 1).toNat < rd s.y (b - 1).toNat
  memb : ∀ j, j < G.n → 1 ≤ rd s.x j →
          j = (rd s.y (rd s.x j - 1).toNat).toNat ∨ j ∈ G.adj (rd s.y (rd s.x j - 1).toNat).toNat

end PyamgV.Agg
