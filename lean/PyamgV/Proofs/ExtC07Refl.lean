import PyamgV.Model.ExtC07Hh
import PyamgV.Proofs.C07GmresBack
import Mathlib.Tactic.Module
import Mathlib.Tactic.Positivity
import Mathlib.Tactic.LinearCombination

/-! PyamgV (C07, extension E11): Householder reflections over a `K`-module with a Euclidean form.
`reflL e w : x ↦ x − 2⟨w, x⟩ w` is what one pass of the loop of `apply_householders` does (`reflO_eq`); for
`w = 0` or `⟨w, w⟩ = 1` (`UZ`) it is an involutive isometry; chains of reflections `hhL` (what
`apply_householders` does with a range of reflectors, `applyHH_eq`) inherit this; the reflector built by
`newReflO` from a vector `u` maps `u` to `−α E'` (`househ`). -/
namespace PyamgV.C07
open Finset

variable {K : Type} [Field K] [LinearOrder K] [IsStrictOrderedRing K]
variable {V : Type} [AddCommGroup V] [Module K V]
variable (e : EForm K V)

/-- the Householder reflection `x ↦ x − 2⟨w, x⟩ w` -/
def reflL (w : V) : V →ₗ[K] V := LinearMap.id + (-2 : K) • (e.a w).smulRight w

theorem reflL_apply (w x : V) : reflL e w x = x + (e.a w x * (-2)) • w := by
  simp only [reflL, LinearMap.add_apply, LinearMap.id_apply, LinearMap.smul_apply,
    LinearMap.smulRight_apply, smul_smul]
  rw [mul_comm]

/-- unit vector or zero: the Householder vectors the models store -/
def UZ (w : V) : Prop := w = 0 ∨ e.a w w = 1

theorem refl_zero (x : V) : reflL e 0 x = x := by
  rw [reflL_apply]; simp

theorem refl_iso (w : V) (hw : UZ e w) (x y : V) : e.a (reflL e w x) (reflL e w y) = e.a x y := by
  rcases hw with rfl | hw
  · rw [refl_zero, refl_zero]
  · simp only [reflL_apply, map_add, map_smul, LinearMap.add_apply, LinearMap.smul_apply, smul_eq_mul, hw]
    rw [e.symm x w]
    ring

theorem refl_invol (w : V) (hw : UZ e w) (x : V) : reflL e w (reflL e w x) = x := by
  rcases hw with rfl | hw
  · rw [refl_zero, refl_zero]
  · rw [reflL_apply, reflL_apply]
    simp only [map_add, map_smul, smul_eq_mul, hw]
    module

theorem refl_fix (w x : V) (h : e.a w x = 0) : reflL e w x = x := by
  rw [reflL_apply, h]; simp

/-- the reflections `ws[0]`, then `ws[1]`, … -/
def hhL : List V → (V →ₗ[K] V)
  | [] => LinearMap.id
  | w :: ws => (hhL ws).comp (reflL e w)

theorem hhL_append (ws : List V) (w : V) : hhL e (ws ++ [w]) = (reflL e w).comp (hhL e ws) := by
  induction ws with
  | nil => simp [hhL]
  | cons q qs ih => simp only [List.cons_append, hhL, ih]; rfl

theorem hhL_iso : ∀ (ws : List V), (∀ w ∈ ws, UZ e w) → ∀ x y, e.a (hhL e ws x) (hhL e ws y) = e.a x y
  | [], _, _, _ => rfl
  | w :: ws, h, x, y => by
    simp only [hhL, LinearMap.comp_apply]
    rw [hhL_iso ws (fun q hq => h q (by simp [hq])), refl_iso e w (h w (by simp))]

theorem hhL_rev_cancel : ∀ (ws : List V), (∀ w ∈ ws, UZ e w) → ∀ x, hhL e ws.reverse (hhL e ws x) = x
  | [], _, _ => rfl
  | w :: ws, h, x => by
    rw [List.reverse_cons, hhL_append]
    simp only [hhL, LinearMap.comp_apply]
    rw [hhL_rev_cancel ws (fun q hq => h q (by simp [hq])), refl_invol e w (h w (by simp))]

theorem hhL_fix : ∀ (ws : List V) (x : V), (∀ w ∈ ws, e.a w x = 0) → hhL e ws x = x
  | [], _, _ => rfl
  | w :: ws, x, h => by
    simp only [hhL, LinearMap.comp_apply]
    rw [refl_fix e w x (h w (by simp)), hhL_fix ws x (fun q hq => h q (by simp [hq]))]

/-! ### the model's operations over the module -/
variable (A AH M : V →ₗ[K] V)

theorem reflO_eq (w z : V) : reflO (Ops.ofModule A AH M e) w z = reflL e w z := by
  rw [reflL_apply]; rfl

theorem applyHH_eq : ∀ (ws : List V) (z : V), applyHH (Ops.ofModule A AH M e) ws z = hhL e ws z
  | [], _ => rfl
  | w :: ws, z => by
    simp only [applyHH, List.foldl_cons, hhL, LinearMap.comp_apply]
    rw [reflO_eq]
    exact applyHH_eq ws _

/-- `_mysign` over an ordered field -/
def sgnK (a : K) : K := if a = 0 then 1 else a / |a|

theorem sgnK_unit (a : K) : sgnK a = 1 ∨ sgnK a = -1 := by
  unfold sgnK
  by_cases h : a = 0
  · left; rw [if_pos h]
  · rw [if_neg h]
    rcases lt_or_gt_of_ne h with hlt | hgt
    · right; rw [abs_of_neg hlt, div_neg, div_self h]
    · left; rw [abs_of_pos hgt, div_self h]

theorem sgnK_mul_nonneg (a : K) : 0 ≤ sgnK a * a := by
  unfold sgnK
  by_cases h : a = 0
  · rw [if_pos h, h]; simp
  · rw [if_neg h]
    rcases lt_or_gt_of_ne h with hlt | hgt
    · rw [abs_of_neg hlt, div_neg, div_self h]; linarith
    · rw [abs_of_pos hgt, div_self h]; linarith

/-- **the Householder vector**: for `u` with `ν² = ⟨u, u⟩ ≠ 0`, a unit vector `E'`, a sign `σ = ±1` with
`σ ⟨E', u⟩ ≥ 0` and `α = σ ν`, the normalised `w = (u + α E') / ‖u + α E'‖` is a unit vector and its reflection
maps `u` to `−α E'` -/
theorem househ (sqrt : K → K) (hsq : ∀ a, 0 ≤ a → sqrt a * sqrt a = a)
    (u E' : V) (hE : e.a E' E' = 1) (σ : K) (hσ : σ = 1 ∨ σ = -1) (hσu : 0 ≤ σ * e.a E' u)
    (ν : K) (hν : ν * ν = e.a u u) (hν0 : 0 ≤ ν) (hνne : ν ≠ 0) :
    e.a ((1 / sqrt (e.a (u + (σ * ν) • E') (u + (σ * ν) • E'))) • (u + (σ * ν) • E'))
        ((1 / sqrt (e.a (u + (σ * ν) • E') (u + (σ * ν) • E'))) • (u + (σ * ν) • E')) = 1 ∧
    reflL e ((1 / sqrt (e.a (u + (σ * ν) • E') (u + (σ * ν) • E'))) • (u + (σ * ν) • E')) u =
      (-(σ * ν)) • E' := by
  set c := e.a E' u with hc
  have hσ2 : σ * σ = 1 := by rcases hσ with h | h <;> rw [h] <;> ring
  have hνpos : 0 < ν := lt_of_le_of_ne hν0 (Ne.symm hνne)
  have hqq : e.a (u + (σ * ν) • E') (u + (σ * ν) • E') = 2 * (ν * ν + σ * ν * c) := by
    simp only [map_add, map_smul, LinearMap.add_apply, LinearMap.smul_apply, smul_eq_mul, hE]
    rw [e.symm u E', ← hc, ← hν]
    have : σ * ν * (σ * ν) = ν * ν := by
      calc σ * ν * (σ * ν) = (σ * σ) * (ν * ν) := by ring
        _ = ν * ν := by rw [hσ2, one_mul]
    linear_combination this
  have hqpos : 0 < e.a (u + (σ * ν) • E') (u + (σ * ν) • E') := by
    rw [hqq]
    have h1 : 0 < ν * ν := mul_pos hνpos hνpos
    have h2 : 0 ≤ σ * ν * c := by
      have : σ * ν * c = ν * (σ * c) := by ring
      rw [this]; exact mul_nonneg hν0 hσu
    linarith
  have hN := hsq _ (le_of_lt hqpos)
  set q := u + (σ * ν) • E' with hq
  set N := sqrt (e.a q q) with hNdef
  have hNne : N ≠ 0 := by
    intro h0; rw [h0, mul_zero] at hN; rw [← hN] at hqpos; exact lt_irrefl _ hqpos
  constructor
  · simp only [map_smul, LinearMap.smul_apply, smul_eq_mul]
    rw [← hN]; field_simp
  · rw [reflL_apply]
    have hqu : e.a q u = ν * ν + σ * ν * c := by
      simp only [hq, map_add, map_smul, LinearMap.add_apply, LinearMap.smul_apply, smul_eq_mul]
      rw [← hc, ← hν]
    have hcoef : e.a ((1 / N) • q) u * (-2) * (1 / N) = -1 := by
      simp only [map_smul, LinearMap.smul_apply, smul_eq_mul]
      rw [hqu]
      have : N * N = 2 * (ν * ν + σ * ν * c) := by rw [hN, hqq]
      field_simp
      linarith
    rw [smul_smul, hcoef, hq]
    module

end PyamgV.C07
