import PyamgV.Proofs.BellmanFord
import Mathlib.Data.Finset.Card
import Mathlib.Data.Finset.Range
import Mathlib.Algebra.BigOperators.Group.List.Basic
import Mathlib.Algebra.Order.BigOperators.Group.List

/-! PyamgV (C18/C17): `bellman_ford` terminates — with non-negative weights (the Python wrapper
rejects negative ones) and `n ≥ 1` nodes the `while(!done)` loop runs at most `n` passes, for
any order of the stored entries. Ingredients: after `k` passes `d[j]` is at most the length of
every walk with at most `k` edges from a centre (`Bound`); every walk can be shortened to fewer
than `n` edges without getting longer (cycle removal + pigeonhole); hence after `n-1` passes no
relaxation can fire. Together with `bellmanFord_spec` the kernel is totally correct. -/
namespace PyamgV.BF

variable {K : Type*} [Field K] [LinearOrder K] [IsStrictOrderedRing K]

/-! ### walks as explicit edge lists -/

inductive Chain (E : List (Edge K)) : Nat → List (Edge K) → Nat → Prop
  | nil (c : Nat) : Chain E c [] c
  | cons {c : Nat} (e : Edge K) (p : List (Edge K)) (j : Nat) :
      e ∈ E → e.1 = c → Chain E e.2.1 p j → Chain E c (e :: p) j

def len (p : List (Edge K)) : K := (p.map (fun e => e.2.2)).sum

def verts (c : Nat) (p : List (Edge K)) : List Nat := c :: p.map (fun e => e.2.1)

theorem chain_append {E : List (Edge K)} {a b c : Nat} {p q : List (Edge K)}
    (h1 : Chain E a p b) (h2 : Chain E b q c) : Chain E a (p ++ q) c := by
  induction h1 with
  | nil => exact h2
  | cons e p j he hc _ ih => exact Chain.cons e (p ++ q) c he hc (ih h2)

theorem chain_snoc_inv {E : List (Edge K)} : ∀ (p : List (Edge K)) (c j : Nat) (e : Edge K),
    Chain E c (p ++ [e]) j → Chain E c p e.1 ∧ e ∈ E ∧ e.2.1 = j := by
  intro p
  induction p with
  | nil =>
    intro c j e h
    cases h with
    | cons _ _ _ he hc hrest =>
      cases hrest with
      | nil => exact ⟨hc ▸ Chain.nil _, he, rfl⟩
  | cons a p ih =>
    intro c j e h
    cases h with
    | cons _ _ _ he hc hrest =>
      obtain ⟨h1, h2, h3⟩ := ih _ _ _ hrest
      exact ⟨Chain.cons a p _ he hc h1, h2, h3⟩

theorem len_append (p q : List (Edge K)) : len (p ++ q) = len p + len q := by
  unfold len; simp

theorem len_nonneg {E : List (Edge K)} (hE : ∀ e ∈ E, 0 ≤ e.2.2) {c j : Nat} {p : List (Edge K)}
    (h : Chain E c p j) : 0 ≤ len p := by
  induction h with
  | nil => simp [len]
  | cons e p j he _ _ ih =>
    have := hE e he
    unfold len at *
    simp only [List.map_cons, List.sum_cons]
    linarith

theorem walk_chain {E : List (Edge K)} {c j : Nat} {L : K} (h : Walk E c j L) :
    ∃ p, Chain E c p j ∧ len p = L := by
  induction h with
  | refl => exact ⟨[], Chain.nil _, by simp [len]⟩
  | @step i j' L' a _ he ih =>
    obtain ⟨p, hp, hl⟩ := ih
    refine ⟨p ++ [(i, j', a)], chain_append hp (Chain.cons _ [] _ he rfl (Chain.nil _)), ?_⟩
    rw [len_append, hl]; simp [len]

/-- split a chain at an occurrence of a vertex -/
theorem chain_split {E : List (Edge K)} {c j : Nat} {p : List (Edge K)} (h : Chain E c p j) :
    ∀ v, v ∈ verts c p → ∃ q1 q2, p = q1 ++ q2 ∧ Chain E c q1 v ∧ Chain E v q2 j := by
  induction h with
  | nil c =>
    intro v hv
    have : v = c := by simpa [verts] using hv
    subst this
    exact ⟨[], [], rfl, Chain.nil _, Chain.nil _⟩
  | @cons c e p j he hc hrest ih =>
    intro v hv
    by_cases hvc : v = c
    · subst hvc
      exact ⟨[], e :: p, rfl, Chain.nil _, Chain.cons e p j he hc hrest⟩
    · have hv' : v ∈ verts e.2.1 p := by
        simp only [verts, List.map_cons, List.mem_cons] at hv ⊢
        rcases hv with h | h | h
        · exact absurd h hvc
        · exact Or.inl h
        · exact Or.inr h
      obtain ⟨q1, q2, hq, h1, h2⟩ := ih v hv'
      exact ⟨e :: q1, q2, by rw [hq]; rfl, Chain.cons e q1 v he hc h1, h2⟩

/-- a chain whose vertex list has a repetition contains a non-empty closed sub-chain -/
theorem chain_cycle {E : List (Edge K)} {c j : Nat} {p : List (Edge K)} (h : Chain E c p j) :
    ¬ (verts c p).Nodup → ∃ p1 p2 p3 v, p = p1 ++ p2 ++ p3 ∧ p2 ≠ [] ∧
      Chain E c p1 v ∧ Chain E v p2 v ∧ Chain E v p3 j := by
  induction h with
  | nil c => intro hn; exact absurd (by simp [verts]) hn
  | @cons c e p j he hc hrest ih =>
    intro hn
    have hv : verts c (e :: p) = c :: verts e.2.1 p := by simp [verts]
    rw [hv, List.nodup_cons] at hn
    by_cases hmem : c ∈ verts e.2.1 p
    · obtain ⟨q1, q2, hq, h1, h2⟩ := chain_split hrest c hmem
      refine ⟨[], e :: q1, q2, c, by rw [hq]; rfl, by simp, Chain.nil _, ?_, h2⟩
      exact Chain.cons e q1 c he hc h1
    · have hnd : ¬ (verts e.2.1 p).Nodup := fun hnd => hn ⟨hmem, hnd⟩
      obtain ⟨p1, p2, p3, v, hp, hne, h1, h2, h3⟩ := ih hnd
      exact ⟨e :: p1, p2, p3, v, by rw [hp]; rfl, hne, Chain.cons e p1 v he hc h1, h2, h3⟩

theorem pigeonhole (n : Nat) (l : List Nat) (hl : ∀ x ∈ l, x < n) (hlen : n < l.length) :
    ¬ l.Nodup := by
  intro hnd
  have h1 : l.toFinset.card = l.length := List.toFinset_card_of_nodup hnd
  have h2 : l.toFinset ⊆ Finset.range n := by
    intro x hx
    rw [List.mem_toFinset] at hx
    exact Finset.mem_range.2 (hl x hx)
  have h3 := Finset.card_le_card h2
  rw [Finset.card_range] at h3
  omega

theorem verts_lt {E : List (Edge K)} {n : Nat} (hV : ∀ e ∈ E, e.2.1 < n) {c j : Nat}
    {p : List (Edge K)} (hc : c < n) (h : Chain E c p j) : ∀ v ∈ verts c p, v < n := by
  induction h with
  | nil c => intro v hv; have : v = c := by simpa [verts] using hv
             rw [this]; exact hc
  | @cons c e p j he hce hrest ih =>
    intro v hv
    simp only [verts, List.map_cons, List.mem_cons] at hv
    rcases hv with h | h | h
    · rw [h]; exact hc
    · rw [h]; exact hV e he
    · exact ih (hV e he) v (by simp [verts, h])

/-- **cycle removal**: every walk can be replaced by one with fewer than `n` edges that is not
longer -/
theorem chain_simple {E : List (Edge K)} {n : Nat} (hn : 1 ≤ n) (hE : ∀ e ∈ E, 0 ≤ e.2.2)
    (hV : ∀ e ∈ E, e.2.1 < n) :
    ∀ (m : Nat) (p : List (Edge K)) (c j : Nat), p.length ≤ m → c < n → Chain E c p j →
      ∃ p', Chain E c p' j ∧ len p' ≤ len p ∧ p'.length < n := by
  intro m
  induction m with
  | zero =>
    intro p c j hm _ h
    have : p = [] := List.eq_nil_of_length_eq_zero (by omega)
    subst this
    exact ⟨[], h, le_refl _, by simp; omega⟩
  | succ m ih =>
    intro p c j hm hc h
    by_cases hshort : p.length < n
    · exact ⟨p, h, le_refl _, hshort⟩
    · have hnd : ¬ (verts c p).Nodup := by
        apply pigeonhole n _ (verts_lt hV hc h)
        simp [verts]; omega
      obtain ⟨p1, p2, p3, v, hp, hne, h1, h2, h3⟩ := chain_cycle h hnd
      have hp2 : 1 ≤ p2.length := by
        cases p2 with
        | nil => exact absurd rfl hne
        | cons _ _ => simp
      have hnew : Chain E c (p1 ++ p3) j := chain_append h1 h3
      have hlen : (p1 ++ p3).length ≤ m := by
        have : p.length = p1.length + p2.length + p3.length := by rw [hp]; simp; omega
        simp; omega
      obtain ⟨p', hc', hl', hs'⟩ := ih (p1 ++ p3) c j hlen hc hnew
      refine ⟨p', hc', le_trans hl' ?_, hs'⟩
      rw [hp, len_append, len_append, len_append]
      have := len_nonneg hE h2
      linarith

/-! ### what `k` passes guarantee -/

/-- `d[j]` is at most the length of every chain with at most `k` edges from a centre -/
def Bound (E : List (Edge K)) (isC : Nat → Prop) (k : Nat) (s : St K) : Prop :=
  ∀ c, isC c → ∀ p j, Chain E c p j → p.length ≤ k → ∃ y, s.d j = some y ∧ y ≤ len p

/-- `x ≤ y` on `K ∪ {∞}` -/
def leE : Option K → Option K → Prop
  | _, none => True
  | none, some _ => False
  | some a, some b => a ≤ b

theorem leE_refl (x : Option K) : leE x x := by cases x <;> simp [leE]

theorem leE_trans {x y z : Option K} (h1 : leE x y) (h2 : leE y z) : leE x z := by
  cases x <;> cases y <;> cases z <;> simp_all [leE]
  exact le_trans h1 h2

theorem relax_mono (acc : St K × Bool) (e : Edge K) (v : Nat) :
    leE ((relax acc e).1.d v) (acc.1.d v) := by
  unfold relax
  by_cases hlt : ltE (addE (acc.1.d e.1) e.2.2) (acc.1.d e.2.1)
  · rw [if_pos hlt]
    simp only [upd]
    by_cases hv : v = e.2.1
    · rw [if_pos hv, hv]
      cases h1 : acc.1.d e.1 <;> cases h2 : acc.1.d e.2.1 <;> simp_all [ltE, addE, leE]
      exact le_of_lt hlt
    · rw [if_neg hv]; exact leE_refl _
  · rw [if_neg hlt]; exact leE_refl _

theorem fold_mono : ∀ (l : List (Edge K)) (acc : St K × Bool) (v : Nat),
    leE ((l.foldl relax acc).1.d v) (acc.1.d v) := by
  intro l
  induction l with
  | nil => intro acc v; exact leE_refl _
  | cons e es ih =>
    intro acc v
    rw [List.foldl_cons]
    exact leE_trans (ih _ v) (relax_mono acc e v)

/-- edge `e` has been relaxed relative to the distances at the start `s` of the pass -/
def Relaxed (s : St K) (t : St K) (e : Edge K) : Prop :=
  ∀ y, s.d e.1 = some y → ∃ z, t.d e.2.1 = some z ∧ z ≤ y + e.2.2

theorem relaxed_mono {s t t' : St K} {e : Edge K} (h : Relaxed s t e)
    (hm : ∀ v, leE (t'.d v) (t.d v)) : Relaxed s t' e := by
  intro y hy
  obtain ⟨z, hz, hzy⟩ := h y hy
  have := hm e.2.1
  rw [hz] at this
  cases h' : t'.d e.2.1 with
  | none => rw [h'] at this; simp [leE] at this
  | some z' => rw [h'] at this; exact ⟨z', rfl, le_trans (by simpa [leE] using this) hzy⟩

theorem relax_relaxed (s : St K) (acc : St K × Bool) (e : Edge K)
    (hm : ∀ v, leE (acc.1.d v) (s.d v)) : Relaxed s (relax acc e).1 e := by
  intro y hy
  have hi := hm e.1
  rw [hy] at hi
  cases hdi : acc.1.d e.1 with
  | none => rw [hdi] at hi; simp [leE] at hi
  | some y' =>
    rw [hdi] at hi
    have hy' : y' ≤ y := by simpa [leE] using hi
    unfold relax
    by_cases hlt : ltE (addE (acc.1.d e.1) e.2.2) (acc.1.d e.2.1)
    · rw [if_pos hlt]
      refine ⟨y' + e.2.2, ?_, by linarith⟩
      simp only [upd, if_true, hdi, addE, Option.map_some]
    · rw [if_neg hlt]
      rw [hdi] at hlt
      cases hdj : acc.1.d e.2.1 with
      | none => rw [hdj] at hlt; simp [addE, ltE] at hlt
      | some z =>
        rw [hdj] at hlt
        simp only [addE, Option.map_some, ltE, not_lt] at hlt
        exact ⟨z, rfl, by linarith⟩

theorem fold_relaxed (s : St K) : ∀ (l : List (Edge K)) (acc : St K × Bool),
    (∀ v, leE (acc.1.d v) (s.d v)) →
    (∀ v, leE ((l.foldl relax acc).1.d v) (s.d v)) ∧
    ∀ e ∈ l, Relaxed s (l.foldl relax acc).1 e := by
  intro l
  induction l with
  | nil => intro acc hm; exact ⟨hm, fun e he => by simp at he⟩
  | cons e es ih =>
    intro acc hm
    rw [List.foldl_cons]
    have hm' : ∀ v, leE ((relax acc e).1.d v) (s.d v) :=
      fun v => leE_trans (relax_mono acc e v) (hm v)
    obtain ⟨h1, h2⟩ := ih (relax acc e) hm'
    refine ⟨h1, ?_⟩
    intro e' he'
    rcases List.mem_cons.1 he' with rfl | he'
    · exact relaxed_mono (relax_relaxed s acc e' hm) (fun v => fold_mono es _ v)
    · exact h2 e' he'

/-- one more pass extends the bound by one edge -/
theorem pass_bound {E : List (Edge K)} {isC : Nat → Prop} {lab : Nat → Int} {k : Nat} {s : St K}
    (hS : Sound E isC lab s) (hB : Bound E isC k s) : Bound E isC (k+1) (pass E s).1 := by
  obtain ⟨_, hrel⟩ := fold_relaxed s E (s, false) (fun v => leE_refl _)
  have hS' : Sound E isC lab (pass E s).1 := pass_sound E (fun _ h => h) (s, false) hS
  intro c hc p j hp hlen
  rcases List.eq_nil_or_concat p with hnil | ⟨p', e, hpe⟩
  · subst hnil
    cases hp with
    | nil =>
      obtain ⟨x, hx, hx0⟩ := hS'.centre c hc
      exact ⟨x, hx, by simpa [len] using hx0⟩
  · rw [List.concat_eq_append] at hpe
    subst hpe
    obtain ⟨h1, h2, h3⟩ := chain_snoc_inv p' c j e hp
    have hlen' : p'.length ≤ k := by simp at hlen; omega
    obtain ⟨y, hy, hyl⟩ := hB c hc p' e.1 h1 hlen'
    obtain ⟨z, hz, hzy⟩ := hrel e h2 y hy
    refine ⟨z, by rw [← h3]; exact hz, ?_⟩
    rw [len_append]
    have : len [e] = e.2.2 := by simp [len]
    rw [this]; linarith

/-- once the bound covers `n - 1` edges, no relaxation fires any more -/
theorem relax_idle {E : List (Edge K)} {isC : Nat → Prop} {lab : Nat → Int} {n k : Nat}
    (hn : 1 ≤ n) (hE : ∀ e ∈ E, 0 ≤ e.2.2) (hV : ∀ e ∈ E, e.2.1 < n)
    (hCn : ∀ c, isC c → c < n) (hk : n - 1 ≤ k)
    (acc : St K × Bool) (hS : Sound E isC lab acc.1) (hB : Bound E isC k acc.1)
    (e : Edge K) (he : e ∈ E) : relax acc e = acc := by
  unfold relax
  by_cases hlt : ltE (addE (acc.1.d e.1) e.2.2) (acc.1.d e.2.1)
  · exfalso
    cases hdi : acc.1.d e.1 with
    | none => rw [hdi] at hlt; simp [addE, ltE] at hlt
    | some y =>
      obtain ⟨c, hc, hw, _⟩ := hS.walk e.1 y hdi
      obtain ⟨p, hp, hl⟩ := walk_chain hw
      have hfull : Chain E c (p ++ [e]) e.2.1 :=
        chain_append hp (Chain.cons e [] _ he rfl (Chain.nil _))
      obtain ⟨p', hp', hl', hs'⟩ := chain_simple hn hE hV _ _ c e.2.1 (Nat.le_refl _) (hCn c hc) hfull
      obtain ⟨z, hz, hzl⟩ := hB c hc p' e.2.1 hp' (by omega)
      rw [hdi, hz] at hlt
      simp only [addE, Option.map_some, ltE] at hlt
      have : len (p ++ [e]) = y + e.2.2 := by rw [len_append, hl]; simp [len]
      rw [this] at hl'
      linarith
  · rw [if_neg hlt]

theorem pass_idle {E : List (Edge K)} {isC : Nat → Prop} {lab : Nat → Int} {n k : Nat}
    (hn : 1 ≤ n) (hE : ∀ e ∈ E, 0 ≤ e.2.2) (hV : ∀ e ∈ E, e.2.1 < n)
    (hCn : ∀ c, isC c → c < n) (hk : n - 1 ≤ k) (s : St K) (hS : Sound E isC lab s)
    (hB : Bound E isC k s) : pass E s = (s, false) := by
  unfold pass
  have : ∀ (l : List (Edge K)), (∀ e ∈ l, e ∈ E) → l.foldl relax (s, false) = (s, false) := by
    intro l
    induction l with
    | nil => intro _; rfl
    | cons e es ih =>
      intro hl
      rw [List.foldl_cons, relax_idle hn hE hV hCn hk (s, false) hS hB e (hl e (by simp))]
      exact ih (fun x hx => hl x (by simp [hx]))
  exact this E (fun _ h => h)

/-- **termination**: `n` passes of fuel always suffice -/
theorem loop_terminates {E : List (Edge K)} {isC : Nat → Prop} {lab : Nat → Int} {n : Nat}
    (hn : 1 ≤ n) (hE : ∀ e ∈ E, 0 ≤ e.2.2) (hV : ∀ e ∈ E, e.2.1 < n)
    (hCn : ∀ c, isC c → c < n) :
    ∀ (fuel k : Nat) (s : St K), Sound E isC lab s → Bound E isC k s → 1 ≤ fuel →
      n ≤ fuel + k → ∃ t, loop E fuel s = some t := by
  intro fuel
  induction fuel with
  | zero => intro k s _ _ h; omega
  | succ f ih =>
    intro k s hS hB _ hfk
    simp only [loop]
    by_cases hch : (pass E s).2 = true
    · rw [if_pos hch]
      have hk : ¬ n - 1 ≤ k := by
        intro hk
        rw [pass_idle hn hE hV hCn hk s hS hB] at hch
        simp at hch
      have hS' : Sound E isC lab (pass E s).1 := pass_sound E (fun _ h => h) (s, false) hS
      exact ih (k+1) _ hS' (pass_bound hS hB) (by omega) (by omega)
    · rw [if_neg hch]; exact ⟨_, rfl⟩

/-- **C18, Bellman–Ford, total**: from the initial state the loop exits within `n` passes and
the distances are the shortest-walk lengths. -/
theorem bellmanFord_total {E : List (Edge K)} {isC : Nat → Prop} [DecidablePred isC]
    {lab : Nat → Int} {n : Nat} (hn : 1 ≤ n) (hE : ∀ e ∈ E, 0 ≤ e.2.2)
    (hV : ∀ e ∈ E, e.2.1 < n) (hCn : ∀ c, isC c → c < n) :
    ∃ t, loop E n ⟨fun v => if isC v then some 0 else none,
        fun v => if isC v then lab v else -1, fun _ => -1⟩ = some t ∧
      (∀ j x, t.d j = some x →
        (∃ c, isC c ∧ Walk E c j x ∧ t.m j = lab c) ∧ ∀ c L, isC c → Walk E c j L → x ≤ L) := by
  have h0 : Sound E isC lab (⟨fun v => if isC v then some 0 else none,
      fun v => if isC v then lab v else -1, fun _ => -1⟩ : St K) := by
    refine ⟨?_, ?_⟩
    · intro j x hx
      simp only at hx
      by_cases hj : isC j
      · rw [if_pos hj] at hx
        have : x = 0 := by simpa using hx.symm
        exact ⟨j, hj, by rw [this]; exact Walk.refl j, by simp [hj]⟩
      · rw [if_neg hj] at hx; simp at hx
    · intro c hc; exact ⟨0, by simp [hc], le_refl 0⟩
  have hB0 : Bound E isC 0 (⟨fun v => if isC v then some 0 else none,
      fun v => if isC v then lab v else -1, fun _ => -1⟩ : St K) := by
    intro c hc p j hp hlen
    have : p = [] := List.eq_nil_of_length_eq_zero (by omega)
    subst this
    cases hp with
    | nil => exact ⟨0, by simp [hc], by simp [len]⟩
  obtain ⟨t, ht⟩ := loop_terminates hn hE hV hCn n 0 _ h0 hB0 hn (by omega)
  exact ⟨t, ht, (bellmanFord_spec n t ht).1⟩

#print axioms bellmanFord_total
end PyamgV.BF
