import PyamgV.Model.ExtC16Relax
import PyamgV.Proofs.ExtC16RelaxNE
import PyamgV.Proofs.ExtC16RelaxCsc
import PyamgV.Proofs.ExtRelaxRefine
import PyamgV.Proofs.C16Relax

/-! PyamgV (C16, extension E29): the relaxation-type coarse solvers other than gauss_seidel / sor.

Model `C16R.relaxSolveR` / `C16R.relaxCallR` (Model/ExtC16Relax.lean, run by the driver op `ext_c16_relax` on the
inputs recorded from the real objects).  Theorems:

* consistency with the C16 model: `relaxSolveR_gs_sor`, `relaxSolveR_jacobi_norho`, `relaxCallR_eq_call`;
* shape / empty matrix: `relaxCallR_shape`, `relaxCallR_empty`;
* every modelled name **starts from zero and is `iterations` sweeps of its kernel model**:
  `relaxSolveR_jacobi`, `relaxSolveR_block_jacobi`, `relaxSolveR_block_gauss_seidel`, `relaxSolveR_richardson`,
  `relaxSolveR_chebyshev`, `relaxSolveR_jacobi_ne`, `relaxSolveR_gauss_seidel_ne`, `relaxSolveR_gauss_seidel_nr`;
* `polyStep_refines`: `relaxation.polynomial` is `x ← x + p(A)(b − A x)` (Horner form) on functions;
* **energy**: `relax_jacobi_energy` (jacobi with the recorded estimate, block_jacobi on point storage) under the
  damping bound, `relax_richardson_energy`;
* **2-norm**: `relax_gs_ne_error` (error, `gauss_seidel_ne`), `relax_gs_nr_residual` / `relax_gs_nr_residual_csr`
  (residual, `gauss_seidel_nr`; the second in terms of `A` itself through `cscOp_cscOf`), `relax_jacobi_ne_error`
  (error, `jacobi_ne` under its damping bound). -/
namespace PyamgV.C16R
open PyamgV PyamgV.K PyamgV.C16
set_option linter.unusedSectionVars false
set_option linter.unusedVariables false

/-! ## 1. the model: consistency, shape, closed forms (any scalar type) -/

section Model
variable {α : Type} [Add α] [Sub α] [Mul α] [Div α] [OfNat α 0] [OfNat α 1] [DecidableEq α]

/-- on `gauss_seidel` / `sor` the extended model is the C16 model -/
theorem relaxSolveR_gs_sor (conj : α → α) (name : String) (hn : name = "gauss_seidel" ∨ name = "sor")
    (o : Opts α) (ri : Rec α) (A : Csr α) (b : Array α) :
    relaxSolveR conj name o ri A b = relaxSolve name o A b := by
  unfold relaxSolveR
  by_cases hb : b.size ≠ A.n
  · unfold relaxSolve; simp [hb]
  · simp [hb, hn]

/-- on `jacobi` with `withrho=False` too -/
theorem relaxSolveR_jacobi_norho (conj : α → α) (o : Opts α) (ri : Rec α) (A : Csr α) (b : Array α)
    (hr : o.withrho = some false) :
    relaxSolveR conj "jacobi" o ri A b = relaxSolve "jacobi" o A b := by
  unfold relaxSolveR relaxSolve effOmega
  by_cases hb : b.size ≠ A.n
  · simp [hb]
  · by_cases hs : o.sweep.isSome <;> simp [hb, hr, hs]

/-- a matrix without stored entries: zero correction in the shape of `b` -/
theorem relaxCallR_empty (conj : α → α) (name : String) (o : Opts α) (ri : Rec α) (A : Csr α) (b : Arr α)
    (h : nnz A = 0) :
    relaxCallR conj name o ri A b = .ok ⟨Array.replicate b.data.size (0 : α), b.shape⟩ := by
  unfold relaxCallR; simp [h]

/-- whatever is returned has the shape and size of `b` -/
theorem relaxCallR_shape (conj : α → α) (name : String) (o : Opts α) (ri : Rec α) (A : Csr α) (b x : Arr α)
    (h : relaxCallR conj name o ri A b = .ok x) : x.shape = b.shape ∧ x.data.size = b.data.size := by
  unfold relaxCallR at h
  by_cases hz : nnz A = 0
  · rw [if_pos hz] at h
    injection h with h; subst h; simp
  · rw [if_neg hz] at h
    cases hs : relaxSolveR conj name o ri A b.data with
    | error e => rw [hs] at h; simp [Except.map, Except.bind] at h
    | ok y =>
      rw [hs] at h
      simp only [Except.map, Except.bind, reshape] at h
      by_cases hsz : y.size = b.data.size
      · rw [if_pos hsz] at h
        injection h with h; subst h; exact ⟨rfl, hsz⟩
      · rw [if_neg hsz] at h; cases h

/-- on `gauss_seidel` / `sor` a call of the extended model is `C16.call` of the solver object -/
theorem relaxCallR_eq_call (conj : α → α) (isPos : α → Bool) (cb : Csr α → Arr α → Except String (Arr α))
    (name : String) (hn : name = "gauss_seidel" ∨ name = "sor")
    (o : Opts α) (ri : Rec α) (st : St α) (A : Csr α) (b : Arr α) :
    call conj isPos cb (.relax name) o st A b = (st, relaxCallR conj name o ri A b, false) := by
  unfold call relaxCallR
  by_cases hz : nnz A = 0
  · simp [hz]
  · simp only [hz, if_false, relaxSolveR_gs_sor conj name hn]
    rfl

/-- the zero guess -/
abbrev x0 (b : Array α) : Array α := Array.replicate b.size (0 : α)

/-- **jacobi** (with or without the recorded estimate; `block_jacobi` on point storage is the same setup):
`iterations` calls of the `jacobi` kernel over all rows with `ω = omega/rho` resp. `omega`, from zeros -/
theorem relaxSolveR_jacobi (conj : α → α) (name : String) (o : Opts α) (ri : Rec α)
    (hn : name = "jacobi" ∨ (name = "block_jacobi" ∧ ri.bs = 1)) (A : Csr α) (b : Array α)
    (hb : b.size = A.n) (hs : o.sweep = none) (ω : α) (hω : effOmega o ri.rho id = some ω) :
    relaxSolveR conj name o ri A b =
      .ok (K.iter (fun x => K.jacobi ω A b (List.range A.n) (Array.replicate x.size 0) x)
        (o.iterations.getD 10) (x0 b)) := by
  unfold relaxSolveR
  rcases hn with rfl | ⟨rfl, hbs⟩
  · simp [hb, hs, hω, pyJacobi, x0]
  · simp [hb, hs, hω, hbs, pyJacobi, x0]

/-- **block_jacobi** on block storage (`bs ≥ 2`): `iterations` calls of the `block_jacobi` kernel over all block
rows with the recorded block inverses, from zeros -/
theorem relaxSolveR_block_jacobi (conj : α → α) (o : Opts α) (ri : Rec α) (A : Csr α) (b : Array α)
    (hb : b.size = A.n) (hs : o.sweep = none) (hbs : ri.bs ≠ 1) (hbs0 : ri.bs ≠ 0)
    (hd : ri.dinv.size = ri.bsr.n * (ri.bs * ri.bs)) (ω : α) (hω : effOmega o ri.rho id = some ω) :
    relaxSolveR conj "block_jacobi" o ri A b =
      .ok (K.iter (fun x => blockJacobi ω ri.bsr b ri.dinv ri.bs (List.range ri.bsr.n) (Array.replicate x.size 0) x)
        (o.iterations.getD 10) (x0 b)) := by
  unfold relaxSolveR
  simp [hb, hs, hω, hbs, hbs0, hd, pyBlockJacobi, x0]

/-- **block_gauss_seidel** on block storage: `iterations` passes (forward / backward / forward+backward) of the
`block_gauss_seidel` kernel with the recorded block inverses, from zeros -/
theorem relaxSolveR_block_gauss_seidel (conj : α → α) (o : Opts α) (ri : Rec α) (A : Csr α) (b : Array α)
    (hb : b.size = A.n) (ho : o.omega = none) (hr : o.withrho = none) (hbs : ri.bs ≠ 1) (hbs0 : ri.bs ≠ 0)
    (hd : ri.dinv.size = ri.bsr.n * (ri.bs * ri.bs)) :
    relaxSolveR conj "block_gauss_seidel" o ri A b =
      .ok (pyBlockGaussSeidel ri.bsr b ri.dinv ri.bs (o.iterations.getD 10) (o.sweep.getD .forward) (x0 b)) ∧
    pyBlockGaussSeidel ri.bsr b ri.dinv ri.bs (o.iterations.getD 10) .forward (x0 b) =
      K.iter (fun x => blockGaussSeidel ri.bsr b ri.dinv ri.bs (List.range (x.size / ri.bs)) x)
        (o.iterations.getD 10) (x0 b) := by
  constructor
  · unfold relaxSolveR
    simp [hb, ho, hr, hbs, hbs0, hd, x0]
  · rfl

/-- on point storage `block_gauss_seidel` is the `gauss_seidel` setup -/
theorem relaxSolveR_block_gauss_seidel_point (conj : α → α) (o : Opts α) (ri : Rec α) (A : Csr α) (b : Array α)
    (hbs : ri.bs = 1) :
    relaxSolveR conj "block_gauss_seidel" o ri A b = relaxSolve "gauss_seidel" o A b := by
  unfold relaxSolveR relaxSolve
  by_cases hb : b.size ≠ A.n
  · simp [hb]
  · by_cases h1 : (o.omega.isSome || o.withrho.isSome) = true <;> simp [hb, hbs, h1]

/-- **richardson**: `iterations` steps of `relaxation.polynomial` with the single coefficient `omega/rho`, from zeros -/
theorem relaxSolveR_richardson (conj : α → α) (o : Opts α) (ri : Rec α) (A : Csr α) (b : Array α)
    (hb : b.size = A.n) (hs : o.sweep = none) (hr : o.withrho = none) (ρ : α) (hρ : ri.rho = some ρ) :
    relaxSolveR conj "richardson" o ri A b =
      .ok (K.iter (polyStep A b [o.omega.getD 1 / ρ]) (o.iterations.getD 10) (x0 b)) := by
  unfold relaxSolveR
  simp [hb, hs, hr, hρ, pyPolynomial, x0]

/-- **chebyshev**: `iterations` steps of `relaxation.polynomial` with `-coefficients[:-1]`, from zeros -/
theorem relaxSolveR_chebyshev (conj : α → α) (o : Opts α) (ri : Rec α) (A : Csr α) (b : Array α)
    (hb : b.size = A.n) (hs : o.sweep = none) (hr : o.withrho = none) (ho : o.omega = none)
    (hc : chebCoeffs ri.cheb ≠ []) :
    relaxSolveR conj "chebyshev" o ri A b =
      .ok (K.iter (polyStep A b (chebCoeffs ri.cheb)) (o.iterations.getD 10) (x0 b)) := by
  unfold relaxSolveR
  have : (chebCoeffs ri.cheb).isEmpty = false := by
    cases h : chebCoeffs ri.cheb with
    | nil => exact absurd h hc
    | cons _ _ => rfl
  simp [hb, hs, hr, ho, this, pyPolynomial, x0]

/-- **jacobi_ne**: `iterations` times `delta = (b − A x)·Dinv`, then the `jacobi_ne` kernel over all rows with
`ω = omega/rho²` resp. `omega`, from zeros -/
theorem relaxSolveR_jacobi_ne (conj : α → α) (o : Opts α) (ri : Rec α) (A : Csr α) (b : Array α)
    (hb : b.size = A.n) (hs : o.sweep = none) (ω : α) (hω : effOmega o ri.rho (fun ρ => ρ * ρ) = some ω) :
    relaxSolveR conj "jacobi_ne" o ri A b =
      .ok (K.iter (fun x => K.jacobiNE conj ω A (vmul (C02.vsub b (C02.spmv A x)) (dinvRows conj A)) (List.range A.n) x)
        (o.iterations.getD 10) (x0 b)) := by
  unfold relaxSolveR
  simp [hb, hs, hω, pyJacobiNE, x0]

/-- **gauss_seidel_ne**: `iterations` passes of the `gauss_seidel_ne` kernel with `Dinv = 1/diag(A Aᴴ)`, from zeros -/
theorem relaxSolveR_gauss_seidel_ne (conj : α → α) (o : Opts α) (ri : Rec α) (A : Csr α) (b : Array α)
    (hb : b.size = A.n) (hr : o.withrho = none) :
    relaxSolveR conj "gauss_seidel_ne" o ri A b =
      .ok (pyGaussSeidelNE conj (o.omega.getD 1) A b (o.iterations.getD 10) (o.sweep.getD .forward) (x0 b)) ∧
    pyGaussSeidelNE conj (o.omega.getD 1) A b (o.iterations.getD 10) .forward (x0 b) =
      K.iter (fun x => K.gaussSeidelNE conj (o.omega.getD 1) A b (dinvRows conj A) (List.range x.size) x)
        (o.iterations.getD 10) (x0 b) := by
  constructor
  · unfold relaxSolveR
    simp [hb, hr, x0]
  · rfl

/-- **gauss_seidel_nr**: on the CSC arrays of `A`, `r = b − A x` once and `iterations` passes of the
`gauss_seidel_nr` kernel on `(x, r)` with `Dinv = 1/diag(Aᴴ A)`, from zeros -/
theorem relaxSolveR_gauss_seidel_nr (conj : α → α) (o : Opts α) (ri : Rec α) (A : Csr α) (b : Array α)
    (hb : b.size = A.n) (hr : o.withrho = none) :
    relaxSolveR conj "gauss_seidel_nr" o ri A b =
      .ok (pyGaussSeidelNR conj (o.omega.getD 1) (cscOf A) b (o.iterations.getD 10) (o.sweep.getD .forward) (x0 b)) ∧
    pyGaussSeidelNR conj (o.omega.getD 1) (cscOf A) b (o.iterations.getD 10) .forward (x0 b) =
      (K.iter (fun xr => K.gaussSeidelNR conj (o.omega.getD 1) (cscOf A) (dinvRows conj (cscOf A))
          (List.range (x0 b).size) xr.1 xr.2)
        (o.iterations.getD 10) (x0 b, C02.vsub b (cscMv (cscOf A) (x0 b)))).1 := by
  constructor
  · unfold relaxSolveR
    simp [hb, hr, x0]
  · rfl

end Model

/-! ## 2. ordered fields: energy and 2-norm statements -/

variable {R : Type} [Field R] [LinearOrder R] [IsStrictOrderedRing R] [DecidableEq R]

theorem fn_x0 (b : Array R) : fn (x0 b) = 0 := C16.fn_zeros b.size

theorem vscale_refines (c : R) (v : Array R) : (vscale c v).size = v.size ∧ fn (vscale c v) = c • fn v := by
  refine ⟨by simp [vscale], ?_⟩
  funext i
  unfold vscale
  rw [fn_map_range]
  by_cases h : i < v.size
  · simp [h, fn]
  · have : fn v i = 0 := fn_zero_of_size v i (by omega)
    simp [h, this]

/-- the polynomial of `relaxation.polynomial` in Horner form, applied to a residual -/
def polyOp (A : (Nat → R) →ₗ[R] (Nat → R)) (coeffs : List R) (r : Nat → R) : Nat → R :=
  match coeffs with
  | [] => 0
  | c0 :: cs => cs.foldl (fun h c => c • r + A h) (c0 • r)

/-- **`relaxation.polynomial`, one iteration**: `x ← x + p(A)(b − A x)` with
`p(A) r = (…((c₀ r) A + c₁ r) A + …) + c_k r` (the `norm(x) == 0` shortcut does not change the value) -/
theorem polyStep_refines (A : Csr R) (b : Array R) (hb : b.size = A.n) (coeffs : List R) (hc : coeffs ≠ [])
    (x : Array R) (hx : x.size = A.n) :
    (polyStep A b coeffs x).size = A.n ∧
    fn (polyStep A b coeffs x) = fn x + polyOp (csrOp A.n (rowOf A)) coeffs (fn b - csrOp A.n (rowOf A) (fn x)) := by
  obtain ⟨r, hrdef⟩ : ∃ r, r = (if x.all (fun v => decide (v = 0)) then b else C02.vsub b (C02.spmv A x)) := ⟨_, rfl⟩
  have hr : r.size = A.n ∧ fn r = fn b - csrOp A.n (rowOf A) (fn x) := by
    by_cases hz : x.all (fun v => decide (v = 0)) = true
    · rw [if_pos hz] at hrdef
      have hx0 : fn x = 0 := by
        funext i
        rw [Array.all_eq_true] at hz
        by_cases hi : i < x.size
        · have := hz i hi
          simp only [decide_eq_true_eq] at this
          simp [fn, rd, hi, this]
        · exact fn_zero_of_size x i (by omega)
      rw [hrdef, hx0]; simp [hb]
    · rw [if_neg hz] at hrdef
      rw [hrdef, vsub_size, vsub_refines _ _ (by rw [spmv_size, hb]), spmv_refines]
      exact ⟨hb, rfl⟩
  cases coeffs with
  | nil => exact absurd rfl hc
  | cons c0 cs =>
    have hfold : ∀ (cs : List R) (h : Array R), h.size = A.n →
        (cs.foldl (fun h c => C02.vadd (vscale c r) (C02.spmv A h)) h).size = A.n ∧
        fn (cs.foldl (fun h c => C02.vadd (vscale c r) (C02.spmv A h)) h) =
          cs.foldl (fun h c => c • fn r + csrOp A.n (rowOf A) h) (fn h) := by
      intro cs
      induction cs with
      | nil => intro h hh; exact ⟨hh, rfl⟩
      | cons c cs ih =>
        intro h hh
        rw [List.foldl_cons, List.foldl_cons]
        have h1 : (C02.vadd (vscale c r) (C02.spmv A h)).size = A.n := by
          rw [vadd_size, (vscale_refines c r).1, hr.1]
        have h2 : fn (C02.vadd (vscale c r) (C02.spmv A h)) = c • fn r + csrOp A.n (rowOf A) (fn h) := by
          rw [vadd_refines _ _ (by rw [spmv_size, (vscale_refines c r).1, hr.1]), (vscale_refines c r).2,
            spmv_refines]
        obtain ⟨s, f⟩ := ih _ h1
        exact ⟨s, by rw [f, h2]⟩
    obtain ⟨s, f⟩ := hfold cs (vscale c0 r) (by rw [(vscale_refines c0 r).1, hr.1])
    have hstep : polyStep A b (c0 :: cs) x =
        C02.vadd x (cs.foldl (fun h c => C02.vadd (vscale c r) (C02.spmv A h)) (vscale c0 r)) := by
      unfold polyStep; rw [hrdef]
    rw [hstep]
    refine ⟨by rw [vadd_size, hx], ?_⟩
    rw [vadd_refines _ _ (by rw [s, hx]), f, (vscale_refines c0 r).2, hr.2]
    rfl

/-- the energy form of the C16 theorems is the form of the C02 theorems -/
theorem energy_eq_ofOp (n : Nat) (rows : Nat → Row R) (hsym) (hpsd) (v : Nat → R) :
    (energy n rows hsym hpsd).en v = ((euc R n).ofOp (csrOp n rows) hsym hpsd).en v := rfl

/-- **energy clause, jacobi** (`('jacobi', {omega, withrho, iterations})` with the recorded estimate `rho`, and
`block_jacobi` on point storage): with `ω = omega/rho` resp. `omega` the damping actually used, `ω ≥ 0`, a non-zero
stored diagonal and the damping bound `ω‖D⁻¹r‖²_A ≤ 2⟨D⁻¹r, r⟩` (i.e. `ω·λ_max(D⁻¹A) ≤ 2`), on a symmetric positive
semidefinite matrix the result `x` from the zero guess satisfies `‖x* − x‖_A ≤ ‖x*‖_A` -/
theorem relax_jacobi_energy (conj : R → R) (name : String) (o : Opts R) (ri : Rec R)
    (hn : name = "jacobi" ∨ (name = "block_jacobi" ∧ ri.bs = 1)) (A : Csr R) (hs : o.sweep = none)
    (ω : R) (hω : effOmega o ri.rho id = some ω) (h0 : 0 ≤ ω)
    (b : Array R) (hb : b.size = A.n)
    (hsym : ∀ u v, (euc R A.n).a (csrOp A.n (rowOf A) u) v = (euc R A.n).a u (csrOp A.n (rowOf A) v))
    (hpsd : ∀ v, 0 ≤ (euc R A.n).a (csrOp A.n (rowOf A) v) v)
    (diag : Nat → R) (hdiag : ∀ i, i < A.n → HasDiag i (rowOf A i) (diag i)) (hnz : ∀ i, i < A.n → diag i ≠ 0)
    (hD : ∀ r, ω * (euc R A.n).a (csrOp A.n (rowOf A) (jacDinv A.n diag r)) (jacDinv A.n diag r) ≤
        2 * (euc R A.n).a (jacDinv A.n diag r) r)
    (xs : Nat → R) (hxs : csrOp A.n (rowOf A) xs = fn b) :
    ∃ x, relaxSolveR conj name o ri A b = .ok x ∧ x.size = b.size ∧
      (energy A.n (rowOf A) hsym hpsd).en (xs - fn x) ≤ (energy A.n (rowOf A) hsym hpsd).en xs := by
  refine ⟨_, relaxSolveR_jacobi conj name o ri hn A b hb hs ω hω, ?_, ?_⟩
  · have := (sm_refines (C02.Sm.jac ω (o.iterations.getD 10)) A b (x0 b) (by simp [hb])).1
    simpa [C02.Sm.run, pyJacobi] using this
  · have := pyJacobi_array_nonexp ω h0 A hsym hpsd diag hdiag hnz hD (o.iterations.getD 10) b (x0 b)
      (by simp [hb]) xs hxs
    rw [fn_x0, sub_zero] at this
    exact this

/-- **energy clause, richardson** (`('richardson', {omega, iterations})`): with `ω = omega/rho ≥ 0` and
`ω⟨A r, r⟩ ≤ 2⟨r, r⟩` (i.e. `ω·λ_max(A) ≤ 2`; `rho` = the recorded estimate of `ρ(A)`) -/
theorem relax_richardson_energy (conj : R → R) (o : Opts R) (ri : Rec R) (A : Csr R)
    (hs : o.sweep = none) (hr : o.withrho = none) (ρ : R) (hρ : ri.rho = some ρ)
    (h0 : 0 ≤ o.omega.getD 1 / ρ) (b : Array R) (hb : b.size = A.n)
    (hsym : ∀ u v, (euc R A.n).a (csrOp A.n (rowOf A) u) v = (euc R A.n).a u (csrOp A.n (rowOf A) v))
    (hpsd : ∀ v, 0 ≤ (euc R A.n).a (csrOp A.n (rowOf A) v) v)
    (hD : ∀ r, o.omega.getD 1 / ρ * (euc R A.n).a (csrOp A.n (rowOf A) r) r ≤ 2 * (euc R A.n).a r r)
    (xs : Nat → R) (hxs : csrOp A.n (rowOf A) xs = fn b) :
    ∃ x, relaxSolveR conj "richardson" o ri A b = .ok x ∧ x.size = b.size ∧
      (energy A.n (rowOf A) hsym hpsd).en (xs - fn x) ≤ (energy A.n (rowOf A) hsym hpsd).en xs := by
  refine ⟨_, relaxSolveR_richardson conj o ri A b hb hs hr ρ hρ, ?_⟩
  set ω := o.omega.getD 1 / ρ with hωdef
  have hk := kiter_refines (polyStep A b [ω])
    (fun x b => x + ω • (b - csrOp A.n (rowOf A) x)) (fn b) A.n
    (fun x hx => by
      obtain ⟨s, f⟩ := polyStep_refines A b hb [ω] (by simp) x hx
      exact ⟨s, by rw [f]; rfl⟩)
    (o.iterations.getD 10) (x0 b) (by simp [hb])
  refine ⟨by rw [hk.1, hb], ?_⟩
  rw [hk.2, fn_x0]
  have := (richardson_nonexp (euc R A.n) (csrOp A.n (rowOf A)) hsym hpsd ω h0 hD).iter
    (o.iterations.getD 10) 0 (fn b) xs hxs
  rw [sub_zero] at this
  exact this

/-- **2-norm clause, gauss_seidel_ne** (`('gauss_seidel_ne', {omega, sweep, iterations})`, `0 ≤ omega ≤ 2`, default 1):
for ANY square matrix with canonical rows (indices in range, none stored twice) and any solution `x*` of
`A x* = b`, the result from the zero guess satisfies `‖x* − x‖₂ ≤ ‖x*‖₂`.  (Not the energy norm: known finding
`ne-nr-relaxation-energy-norm`.) -/
theorem relax_gs_ne_error (o : Opts R) (ri : Rec R) (A : Csr R) (hr : o.withrho = none)
    (h0 : 0 ≤ o.omega.getD 1) (h2 : o.omega.getD 1 ≤ 2) (b : Array R) (hb : b.size = A.n)
    (hA : RowsOK A.n (rowOf A)) (xs : Nat → R) (hxs : csrOp A.n (rowOf A) xs = fn b) :
    ∃ x, relaxSolveR id "gauss_seidel_ne" o ri A b = .ok x ∧ x.size = b.size ∧
      (euc R A.n).en (xs - fn x) ≤ (euc R A.n).en xs := by
  refine ⟨_, (relaxSolveR_gauss_seidel_ne id o ri A b hb hr).1, ?_⟩
  obtain ⟨s, e⟩ := pyGaussSeidelNE_error (o.omega.getD 1) h0 h2 A hA b xs hxs (o.iterations.getD 10)
    (o.sweep.getD .forward) (x0 b) (by simp [hb])
  refine ⟨by rw [s, hb], ?_⟩
  rw [fn_x0, sub_zero] at e
  exact e

/-- **2-norm clause, gauss_seidel_nr** (`('gauss_seidel_nr', {omega, sweep, iterations})`, `0 ≤ omega ≤ 2`): with
`C = cscOf A` the CSC arrays the setup converts `A` to (canonical columns), the result from the zero guess satisfies
`‖b − A x‖₂ ≤ ‖b‖₂` — any square matrix, any right-hand side -/
theorem relax_gs_nr_residual (o : Opts R) (ri : Rec R) (A : Csr R) (hr : o.withrho = none)
    (h0 : 0 ≤ o.omega.getD 1) (h2 : o.omega.getD 1 ≤ 2) (b : Array R) (hb : b.size = A.n)
    (hC : RowsOK A.n (rowOf (cscOf A))) :
    ∃ x, relaxSolveR id "gauss_seidel_nr" o ri A b = .ok x ∧ x.size = b.size ∧
      (euc R A.n).en (fn b - cscOp A.n (rowOf (cscOf A)) (fn x)) ≤ (euc R A.n).en (fn b) := by
  refine ⟨_, (relaxSolveR_gauss_seidel_nr id o ri A b hb hr).1, ?_⟩
  have hn : (cscOf A).n = A.n := rfl
  obtain ⟨s, e⟩ := pyGaussSeidelNR_residual (o.omega.getD 1) h0 h2 (cscOf A) (by rw [hn]; exact hC) b (by rw [hn, hb])
    (o.iterations.getD 10) (o.sweep.getD .forward) (x0 b) (by simp [hb, hn])
  rw [hn] at s e
  refine ⟨by rw [s, hb], ?_⟩
  have hz : cscOp A.n (rowOf (cscOf A)) (fn (x0 b)) = 0 := by
    rw [fn_x0]; funext k; simp [cscOp]
  rw [hz, sub_zero] at e
  exact e

/-- the same in terms of the CSR matrix itself (`cscOf` is `A.tocsc()`: `cscOp_cscOf`, `rowsOK_cscOf`): for ANY square
matrix with canonical rows and ANY right-hand side, `‖b − A x‖₂ ≤ ‖b‖₂` -/
theorem relax_gs_nr_residual_csr (o : Opts R) (ri : Rec R) (A : Csr R) (hr : o.withrho = none)
    (h0 : 0 ≤ o.omega.getD 1) (h2 : o.omega.getD 1 ≤ 2) (b : Array R) (hb : b.size = A.n)
    (hA : RowsOK A.n (rowOf A)) :
    ∃ x, relaxSolveR id "gauss_seidel_nr" o ri A b = .ok x ∧ x.size = b.size ∧
      (euc R A.n).en (fn b - csrOp A.n (rowOf A) (fn x)) ≤ (euc R A.n).en (fn b) := by
  obtain ⟨x, h1, h2', h3⟩ := relax_gs_nr_residual o ri A hr h0 h2 b hb (rowsOK_cscOf A hA)
  refine ⟨x, h1, h2', ?_⟩
  rw [cscOp_cscOf A (fun i hi => (hA i hi).1)] at h3
  exact h3

/-- **2-norm clause, jacobi_ne** (`('jacobi_ne', {omega, withrho, iterations})`, `ω = omega/rho²` resp. `omega` the
damping actually used): with `ω ≥ 0` and the damping bound `ω‖Aᵀ D⁻¹ A v‖² ≤ 2⟨v, Aᵀ D⁻¹ A v⟩`
(`D = diag(A Aᵀ)`; i.e. `ω·λ_max(Aᵀ D⁻¹ A) ≤ 2`), for any square matrix with column indices in range and any
solution `x*`, the result from the zero guess satisfies `‖x* − x‖₂ ≤ ‖x*‖₂` -/
theorem relax_jacobi_ne_error (o : Opts R) (ri : Rec R) (A : Csr R) (hs : o.sweep = none)
    (ω : R) (hω : effOmega o ri.rho (fun ρ => ρ * ρ) = some ω) (h0 : 0 ≤ ω)
    (b : Array R) (hb : b.size = A.n) (hA : ∀ i, i < A.n → ∀ cv ∈ rowOf A i, cv.1 < A.n)
    (hD : ∀ v, ω * (euc R A.n).en (neOp A v) ≤ 2 * (euc R A.n).a v (neOp A v))
    (xs : Nat → R) (hxs : csrOp A.n (rowOf A) xs = fn b) :
    ∃ x, relaxSolveR id "jacobi_ne" o ri A b = .ok x ∧ x.size = b.size ∧
      (euc R A.n).en (xs - fn x) ≤ (euc R A.n).en xs := by
  refine ⟨_, relaxSolveR_jacobi_ne id o ri A b hb hs ω hω, ?_⟩
  obtain ⟨s, e⟩ := pyJacobiNE_error ω h0 A hA hD b hb xs hxs (o.iterations.getD 10) (x0 b) (by simp [hb])
  unfold pyJacobiNE at s e
  refine ⟨by rw [s, hb], ?_⟩
  rw [fn_x0, sub_zero] at e
  exact e

end PyamgV.C16R
