import PyamgV.Proofs.ExtCGRun
import PyamgV.Proofs.ExtCGHhRun

/-! PyamgV (extension E43, property C06): **complex `gmres_householder` and `fgmres` -- status, residual history and
callback tell the truth.**  The engines `chhEng`, `cfgEng` (`Model/ExtCGGmres.lean`) under the control flow `gRun`;
`chh_estInv` / `cfg_estInv`: a recorded estimate `np.abs(g[inner+1])` is the norm of the (preconditioned; `fgmres`:
true) residual of the iterate handed to `callback` (`cgmres_hh_estimate`, `cfgmres_estimate`), hence `GTruthful`. -/
set_option linter.unusedSectionVars false
set_option linter.unusedVariables false
namespace PyamgV.ExtCG
open PyamgV.C07 PyamgV.CHerm PyamgV.C07.CH PyamgV.ExtC06 Finset

variable {K : Type} [Field K] [StarRing K] [DecidableEq K]
variable {F₀ : Type} [Field F₀] [LinearOrder F₀] [IsStrictOrderedRing F₀]
variable {V : Type} [AddCommGroup V] [Module K V]

local notation "gF" => PyamgV.C07.F

variable (A AH M : V →ₗ[K] V) (E : HForm K F₀ V) (Eb : Nat → V) (R : ReMap K F₀) (hER : ∀ z, E.re z = R.re z)
  (sqrt : K → K) (hS : ExactSqrt R sqrt) (hdef : ∀ v, E.h v v = 0 → v = 0)
  (sqrtF : F₀ → F₀) (hsqF : ∀ a, 0 ≤ a → sqrtF a * sqrtF a = a)
  (n : Nat) (pre : Nat → V → V) (b : V) (hE : COrthoFam E Eb n)

local notation "sg" => csgn (star : K → K) sqrt nzK

include hER hS hdef hsqF hE in
theorem chh_estInv (thr : F₀) (hthr : 0 < thr) (maxInner : Nat) (hmax : maxInner ≤ n) :
    EstInv (chhEng (HOps.ofHerm A AH M E Eb) star sqrt sg nzK (modR R sqrtF) (nrmR R sqrtF) n b) ltF (fun a => a)
      thr maxInner := by
  intro x _ i h1 hi hlt
  obtain ⟨m, rfl⟩ : ∃ m, i = m + 1 := ⟨i - 1, by omega⟩
  have hst : stI (chhEng (HOps.ofHerm A AH M E Eb) star sqrt sg nzK (modR R sqrtF) (nrmR R sqrtF) n b) x (m + 1) =
      cghSeq A AH M E Eb sqrt n b x (m + 1) := rfl
  have hlen := (cghSeq_inv A AH M E Eb R hER sqrt hS hdef n b x hE (m + 1) (by omega)).1.lcols
  unfold EstOK
  rw [hst]
  show modR R sqrtF ((cghSeq A AH M E Eb sqrt n b x (m + 1)).g.getD (cghSeq A AH M E Eb sqrt n b x (m + 1)).cols.length 0) =
    nrmR R sqrtF (E.h (M (b - A (xH A AH M E Eb sqrt n b x m))) (M (b - A (xH A AH M E Eb sqrt n b x m))))
  rw [hlen]
  have hlt' : ltF (modR R sqrtF (gF (cghSeq A AH M E Eb sqrt n b x (m + 1)).g (m + 1))) thr = false := by
    have := hlt
    rw [hst] at this
    simpa [chhEng, hlen, C07.F] using this
  have hge : thr ≤ modR R sqrtF (gF (cghSeq A AH M E Eb sqrt n b x (m + 1)).g (m + 1)) := by
    simpa [ltF] using hlt'
  have hne : gF (cghSeq A AH M E Eb sqrt n b x (m + 1)).g (m + 1) ≠ 0 :=
    modR_ne_zero R sqrtF hsqF (ne_of_gt (lt_of_lt_of_le hthr hge))
  have hest := cgmres_hh_estimate A AH M E Eb R hER sqrt hS hdef n b x hE m (by omega) hne
  unfold modR nrmR
  rw [← hER, ← hER]
  exact congrArg sqrtF hest.symm

include hER hS hdef hsqF hE in
theorem cfg_estInv (thr : F₀) (hthr : 0 < thr) (maxInner : Nat) (hmax : maxInner ≤ n) :
    EstInv (cfgEng (HOps.ofHerm A AH M E Eb) star sqrt sg nzK (modR R sqrtF) (nrmR R sqrtF) n pre b) ltF
      (fun a => a) thr maxInner := by
  intro x _ i h1 hi hlt
  obtain ⟨m, rfl⟩ : ∃ m, i = m + 1 := ⟨i - 1, by omega⟩
  have hst : stI (cfgEng (HOps.ofHerm A AH M E Eb) star sqrt sg nzK (modR R sqrtF) (nrmR R sqrtF) n pre b) x (m + 1) =
      cfSeq A AH M E Eb sqrt n pre b x (m + 1) := rfl
  have hlen := (cfSeq_inv A AH M E Eb R hER sqrt hS hdef n pre b x hE (m + 1) (by omega)).1.lcols
  unfold EstOK
  rw [hst]
  show modR R sqrtF ((cfSeq A AH M E Eb sqrt n pre b x (m + 1)).g.getD
      (cfSeq A AH M E Eb sqrt n pre b x (m + 1)).cols.length 0) =
    nrmR R sqrtF (E.h (b - A (xF A AH M E Eb sqrt n pre b x m)) (b - A (xF A AH M E Eb sqrt n pre b x m)))
  rw [hlen]
  have hlt' : ltF (modR R sqrtF (gF (cfSeq A AH M E Eb sqrt n pre b x (m + 1)).g (m + 1))) thr = false := by
    have := hlt
    rw [hst] at this
    simpa [cfgEng, hlen, C07.F] using this
  have hge : thr ≤ modR R sqrtF (gF (cfSeq A AH M E Eb sqrt n pre b x (m + 1)).g (m + 1)) := by
    simpa [ltF] using hlt'
  have hne : gF (cfSeq A AH M E Eb sqrt n pre b x (m + 1)).g (m + 1) ≠ 0 :=
    modR_ne_zero R sqrtF hsqF (ne_of_gt (lt_of_lt_of_le hthr hge))
  have hest := cfgmres_estimate A AH M E Eb R hER sqrt hS hdef n pre b x hE m (by omega) hne
  unfold modR nrmR
  rw [← hER, ← hER]
  exact congrArg sqrtF hest.symm

include hER hS hdef hsqF hE in
/-- **complex `gmres_householder`** -/
theorem cgmres_hh_run_truthful (thr : F₀) (hthr : 0 < thr) (stag : V → V → Bool) (d : C06.GDims)
    (hI : 1 ≤ d.maxInner) (hO : 1 ≤ d.maxOuter) (hmax : d.maxInner ≤ n) (x0 : V) :
    GTruthful (gRun (chhEng (HOps.ofHerm A AH M E Eb) star sqrt sg nzK (modR R sqrtF) (nrmR R sqrtF) n b) ltF
        (fun a => a) thr stag d x0) x0
      (fun x => sqrtF (R.re (E.h (M (b - A x)) (M (b - A x)))))
      (fun x => ltF (sqrtF (R.re (E.h (M (b - A x)) (M (b - A x))))) thr) d :=
  gRun_truthful _ ltF _ thr stag d hI hO
    (chh_estInv A AH M E Eb R hER sqrt hS hdef sqrtF hsqF n b hE thr hthr d.maxInner hmax) x0

include hER hS hdef hsqF hE in
/-- **complex `fgmres`** (any maps `pre j` as preconditioner): history and criterion in the norm of the true residual -/
theorem cfgmres_run_truthful (thr : F₀) (hthr : 0 < thr) (stag : V → V → Bool) (d : C06.GDims)
    (hI : 1 ≤ d.maxInner) (hO : 1 ≤ d.maxOuter) (hmax : d.maxInner ≤ n) (x0 : V) :
    GTruthful (gRun (cfgEng (HOps.ofHerm A AH M E Eb) star sqrt sg nzK (modR R sqrtF) (nrmR R sqrtF) n pre b) ltF
        (fun a => a) thr stag d x0) x0
      (fun x => sqrtF (R.re (E.h (b - A x) (b - A x))))
      (fun x => ltF (sqrtF (R.re (E.h (b - A x) (b - A x)))) thr) d :=
  gRun_truthful _ ltF _ thr stag d hI hO
    (cfg_estInv A AH M E Eb R hER sqrt hS hdef sqrtF hsqF n pre b hE thr hthr d.maxInner hmax) x0

#print axioms cgmres_hh_run_truthful
#print axioms cfgmres_run_truthful
end PyamgV.ExtCG
