import PyamgV.Proofs.C14Dist

/-! PyamgV (C14): the CSR arrays printed by the driver (`rowsToOut`) are the flattening of the
rows with prefix-sum row pointers; the symmetric public row; the norm dispatch. -/
namespace PyamgV.C14
open PyamgV PyamgV.N

variable {α : Type}

theorem foldl_push_fst (r : RowOf α) (a : Array Nat) :
    r.foldl (fun a cv => a.push cv.1) a = a ++ (r.map Prod.fst).toArray := by
  induction r generalizing a with
  | nil => simp
  | cons c t ih =>
    simp only [List.foldl_cons, ih, List.map_cons]
    apply Array.ext'
    simp

theorem foldl_push_snd (r : RowOf α) (a : Array α) :
    r.foldl (fun a cv => a.push cv.2) a = a ++ (r.map Prod.snd).toArray := by
  induction r generalizing a with
  | nil => simp
  | cons c t ih =>
    simp only [List.foldl_cons, ih, List.map_cons]
    apply Array.ext'
    simp

/-- running row pointer: after the rows `rs`, starting from `k` stored entries -/
def ptrs (k : Nat) : List (RowOf α) → List Nat
  | [] => []
  | r :: t => (k + r.length) :: ptrs (k + r.length) t

theorem rowsToOut_fold (rows : List (RowOf α)) (sp sj : Array Nat) (sx : Array α) :
    rows.foldl (fun (o : Array Nat × Array Nat × Array α) r =>
      let sj := r.foldl (fun a cv => a.push cv.1) o.2.1
      let sx := r.foldl (fun a cv => a.push cv.2) o.2.2
      (o.1.push sj.size, sj, sx)) (sp, sj, sx)
    = (sp ++ (ptrs sj.size rows).toArray, sj ++ (rows.flatten.map Prod.fst).toArray,
       sx ++ (rows.flatten.map Prod.snd).toArray) := by
  induction rows generalizing sp sj sx with
  | nil => simp [ptrs]
  | cons r t ih =>
    simp only [List.foldl_cons]
    rw [foldl_push_fst, foldl_push_snd, ih]
    simp only [ptrs, Prod.mk.injEq]
    refine ⟨?_, ?_, ?_⟩ <;> apply Array.ext' <;> simp

/-- **the printed arrays**: `Sj`/`Sx` are the rows concatenated in order, `Sp` is `0` followed by
the running entry counts -/
theorem rowsToOut_spec (rows : List (RowOf α)) :
    rowsToOut rows = ((0 :: ptrs 0 rows).toArray, (rows.flatten.map Prod.fst).toArray,
      (rows.flatten.map Prod.snd).toArray) := by
  unfold rowsToOut
  rw [rowsToOut_fold]
  simp

theorem ptrs_length (k : Nat) (rows : List (RowOf α)) : (ptrs k rows).length = rows.length := by
  induction rows generalizing k with
  | nil => rfl
  | cons r t ih => simp [ptrs, ih]

/-- row pointer `i+1` is `k` plus the total length of the first `i+1` rows -/
theorem ptrs_getElem? (k : Nat) (rows : List (RowOf α)) (i : Nat) (hi : i < rows.length) :
    (ptrs k rows)[i]? = some (k + ((rows.take (i + 1)).map List.length).sum) := by
  induction rows generalizing k i with
  | nil => simp at hi
  | cons r t ih =>
    cases i with
    | zero => simp [ptrs]
    | succ i =>
      have hi' : i < t.length := by simpa using hi
      simp only [ptrs, List.getElem?_cons_succ, ih _ i hi', List.take_succ_cons, List.map_cons, List.sum_cons]
      congr 1; omega

/-! ### symmetric public row and the norm dispatch -/

/-- **rule at the level of the returned matrix**, symmetric measure: column `j` is stored in row `i` of
`symmetric_strength_of_connection(A, θ)` iff a stored entry of that column is the diagonal or
satisfies `|a_ij|² ≥ θ²·d_i·d_j`; the pattern is that of the kernel output (stored zeros included) -/
theorem pubSymmetricRow_col_iff (nrm nsq : α → Rat) (tiny θ : Rat) (d : Nat → Rat) (i : Nat) (row : RowOf α) (j : Nat) :
    j ∈ (scaleRow tiny (absRow nrm (symRow nsq θ d i row))).map Prod.fst ↔
      ∃ cv ∈ row, cv.1 = j ∧ (i = j ∨ nsq cv.2 ≥ θ * θ * d i * d j) := by
  rw [scaleRow_cols, absRow_cols]
  constructor
  · intro h
    obtain ⟨cv, hcv, rfl⟩ := List.mem_map.1 h
    have := (sym_rule nsq θ d i row cv).1 hcv
    exact ⟨cv, this.1, rfl, this.2⟩
  · rintro ⟨cv, hcv, rfl, h⟩
    exact List.mem_map.2 ⟨cv, (sym_rule nsq θ d i row cv).2 ⟨hcv, h⟩, rfl⟩

/-- the `norm` argument selects the kernel: `'min'` → signed kernel started at `0`, otherwise the `abs`
kernel started at `tiny`; either way row `i` is the public row function of row `i` -/
theorem pubClassicalNorm_row (norm : String) (tiny θ : Rat) (rows : List Row) (i : Nat) :
    (pubClassicalNorm norm tiny θ rows)[i]? =
      (rows[i]?).map (if norm = "min" then pubClassicalRow negQ absQ 0 tiny θ i
                      else pubClassicalRow absQ absQ tiny tiny θ i) := by
  unfold pubClassicalNorm
  split <;> exact pubClassical_row _ _ _ _ _ _ _

end PyamgV.C14

namespace PyamgV.C14
open PyamgV PyamgV.N

/-! ### the exact complex modulus -/

theorem sqrtNat?_spec (n s : Nat) (h : sqrtNat? n = some s) : s * s = n := by
  unfold sqrtNat? at h
  simp only at h
  split at h
  · rename_i h2; cases h; exact h2
  · cases h

/-- `sqrtQ? q = some r` only for the non-negative rational square root -/
theorem sqrtQ?_spec (q r : Rat) (h : sqrtQ? q = some r) : 0 ≤ r ∧ r * r = q := by
  unfold sqrtQ? at h
  split at h
  · cases h
  · rename_i hq
    have hq0 : 0 ≤ q := not_lt.1 hq
    split at h
    · rename_i a b ha hb
      cases h
      have ha2 := sqrtNat?_spec _ _ ha
      have hb2 := sqrtNat?_spec _ _ hb
      have hnum : 0 ≤ q.num := Rat.num_nonneg.2 hq0
      have hb0 : (b : Rat) ≠ 0 := by
        intro hb0
        have : b = 0 := by exact_mod_cast hb0
        rw [this] at hb2
        exact absurd hb2.symm (Nat.ne_of_gt q.den_pos)
      constructor
      · exact div_nonneg (Nat.cast_nonneg a) (Nat.cast_nonneg b)
      · have h1 : ((a : Rat) / b) * ((a : Rat) / b) = ((a * a : Nat) : Rat) / ((b * b : Nat) : Rat) := by
          push_cast; rw [div_mul_div_comm]
        rw [h1, ha2, hb2]
        have h2 : ((q.num.toNat : Nat) : Rat) = (q.num : Rat) := by
          have : ((q.num.toNat : Nat) : Int) = q.num := Int.toNat_of_nonneg hnum
          exact_mod_cast this
        rw [h2]
        exact Rat.num_div_den q
    · cases h

/-- the model's complex modulus is the true one whenever the request is accepted -/
theorem cnorm?_spec (z : CRat) (r : Rat) (h : cnorm? z = some r) : 0 ≤ r ∧ r * r = z.re * z.re + z.im * z.im := by
  unfold cnorm? at h
  exact sqrtQ?_spec _ _ h

theorem cnorm_nonneg (z : CRat) : 0 ≤ cnorm z := by
  unfold cnorm
  cases h : cnorm? z with
  | none => simp
  | some r => simpa using (cnorm?_spec z r h).1

end PyamgV.C14
