import PyamgV.Proofs.ExtC10RefineA

/-! PyamgV (C10, extension E8, part B): the block copy (`copyBlocks_spec`) and the loop over all
aggregates (`fitLoop_spec`): for every aggregate `j` the final `Ax` holds, in the aggregate's
segment, the columns `GS.mgs` computes from the copied candidate block, and block `j` of `R` holds
the entries of its `R` factor; different aggregates do not interfere (valid column pointers). -/
namespace PyamgV.C10R
open PyamgV PyamgV.C10M

theorem foldl_le {σ α : Type} (le : σ → σ → Prop) (hrefl : ∀ s, le s s)
    (htrans : ∀ a b c, le a b → le b c → le a c) (f : σ → α → σ) :
    ∀ (l : List α), (∀ s, ∀ x ∈ l, le s (f s x)) → ∀ s, le s (l.foldl f s) := by
  intro l
  induction l with
  | nil => intro _ s; exact hrefl s
  | cons y l ih =>
    intro hf s
    rw [List.foldl_cons]
    exact htrans _ _ _ (hf s y (List.mem_cons_self ..))
      (ih (fun s x hx => hf s x (List.mem_cons_of_mem _ hx)) (f s y))

theorem foldl_est {σ α : Type} (le : σ → σ → Prop) (hrefl : ∀ s, le s s)
    (htrans : ∀ a b c, le a b → le b c → le a c) (f : σ → α → σ) (P : α → σ → Prop)
    (hup : ∀ x s s', le s s' → P x s → P x s') :
    ∀ (l : List α), (∀ s, ∀ x ∈ l, le s (f s x)) → (∀ s, ∀ x ∈ l, P x (f s x)) →
      ∀ s, ∀ x ∈ l, P x (l.foldl f s) := by
  intro l
  induction l with
  | nil => intro _ _ s x hx; simp at hx
  | cons y l ih =>
    intro hf hest s x hx
    rw [List.foldl_cons]
    rcases List.mem_cons.1 hx with rfl | hx
    · exact hup _ _ _ (foldl_le le hrefl htrans f l (fun s x hx => hf s x (List.mem_cons_of_mem _ hx)) _)
        (hest s x (List.mem_cons_self ..))
    · exact ih (fun s x hx => hf s x (List.mem_cons_of_mem _ hx))
        (fun s x hx => hest s x (List.mem_cons_of_mem _ hx)) (f s y) x hx

variable {K : Type} [Field K] [LinearOrder K] [IsStrictOrderedRing K]

section copy
variable (K1 K2 : Nat) (ai : Array Nat) (b : Array K)

/-- the value the copy loop writes to position `q` -/
def cpVal (q : Nat) : K := b.getD (K1 * K2 * rdN ai (q / (K1 * K2)) + q % (K1 * K2)) 0

/-- `a'` has the size of `a` and every copied position of `a` is still copied in `a'` -/
def cpLe (a a' : Array K) : Prop :=
  a'.size = a.size ∧ ∀ q, a.getD q 0 = cpVal K1 K2 ai b q → a'.getD q 0 = cpVal K1 K2 ai b q

def cpAt (q : Nat) (a : Array K) : Prop := q < a.size → a.getD q 0 = cpVal K1 K2 ai b q

omit [LinearOrder K] [IsStrictOrderedRing K] in
theorem cpLe_refl (a : Array K) : cpLe K1 K2 ai b a a := ⟨rfl, fun _ h => h⟩

omit [LinearOrder K] [IsStrictOrderedRing K] in
theorem cpLe_trans (a a' a'' : Array K) (h : cpLe K1 K2 ai b a a') (h' : cpLe K1 K2 ai b a' a'') :
    cpLe K1 K2 ai b a a'' := ⟨by rw [h'.1, h.1], fun q hq => h'.2 q (h.2 q hq)⟩

omit [LinearOrder K] [IsStrictOrderedRing K] in
theorem cpAt_up (q : Nat) (a a' : Array K) (h : cpLe K1 K2 ai b a a') (hq : cpAt K1 K2 ai b q a) :
    cpAt K1 K2 ai b q a' := fun hlt => h.2 q (hq (by rw [← h.1]; exact hlt))

omit [LinearOrder K] [IsStrictOrderedRing K] in
theorem cp_step (a : Array K) (ii t : Nat) (ht : t < K1 * K2) :
    cpLe K1 K2 ai b a (a.setIfInBounds (K1 * K2 * ii + t) (b.getD (K1 * K2 * rdN ai ii + t) 0)) ∧
    cpAt K1 K2 ai b (K1 * K2 * ii + t)
      (a.setIfInBounds (K1 * K2 * ii + t) (b.getD (K1 * K2 * rdN ai ii + t) 0)) := by
  have hv : b.getD (K1 * K2 * rdN ai ii + t) 0 = cpVal K1 K2 ai b (K1 * K2 * ii + t) := by
    unfold cpVal
    rw [Nat.mul_add_div (by omega), Nat.div_eq_of_lt ht, Nat.mul_add_mod, Nat.mod_eq_of_lt ht, Nat.add_zero]
  rw [hv]
  refine ⟨⟨Array.size_setIfInBounds .., fun q hq => ?_⟩, fun hlt => ?_⟩
  · rw [getD_set]
    by_cases h : K1 * K2 * ii + t = q ∧ K1 * K2 * ii + t < a.size
    · rw [if_pos h, h.1]
    · rw [if_neg h]; exact hq
  · rw [Array.size_setIfInBounds] at hlt
    exact getD_set_eq _ _ _ hlt

omit [IsStrictOrderedRing K] in
/-- `Ax` after the copy loop: block `ii` of every column `j` is block `Ai[ii]` of `B` -/
theorem copyBlocks_spec (sqrt : K → K) (ok : K → Bool) (nCol : Nat) (ap : Array Nat) :
    (copyBlocks (fieldOps sqrt ok) nCol K1 K2 ap ai b).size = K1 * K2 * ai.size ∧
    ∀ j < nCol, ∀ ii, rdN ap j ≤ ii → ii < rdN ap (j+1) → ii < ai.size → ∀ t < K1 * K2,
      (copyBlocks (fieldOps sqrt ok) nCol K1 K2 ap ai b).getD (K1 * K2 * ii + t) 0 =
        b.getD (K1 * K2 * rdN ai ii + t) 0 := by
  let fT : Nat → Array K → Nat → Array K := fun ii a t =>
    a.setIfInBounds (K1 * K2 * ii + t) (b.getD (K1 * K2 * rdN ai ii + t) 0)
  let fI : Array K → Nat → Array K := fun a ii => (List.range (K1 * K2)).foldl (fT ii) a
  let fJ : Array K → Nat → Array K := fun a j =>
    (List.range' (rdN ap j) (rdN ap (j+1) - rdN ap j)).foldl fI a
  have hcb : copyBlocks (fieldOps sqrt ok) nCol K1 K2 ap ai b =
      (List.range nCol).foldl fJ (Array.replicate (K1 * K2 * ai.size) 0) := rfl
  have hT_le : ∀ ii a, ∀ t ∈ List.range (K1 * K2), cpLe K1 K2 ai b a (fT ii a t) :=
    fun ii a t ht => (cp_step K1 K2 ai b a ii t (List.mem_range.1 ht)).1
  have hT_at : ∀ ii a, ∀ t ∈ List.range (K1 * K2), cpAt K1 K2 ai b (K1 * K2 * ii + t) (fT ii a t) :=
    fun ii a t ht => (cp_step K1 K2 ai b a ii t (List.mem_range.1 ht)).2
  have hI_le : ∀ a ii, cpLe K1 K2 ai b a (fI a ii) := fun a ii =>
    foldl_le (cpLe K1 K2 ai b) (cpLe_refl K1 K2 ai b) (cpLe_trans K1 K2 ai b) (fT ii) _ (hT_le ii) a
  have hI_at : ∀ a ii, ∀ t < K1 * K2, cpAt K1 K2 ai b (K1 * K2 * ii + t) (fI a ii) := fun a ii t ht =>
    foldl_est (cpLe K1 K2 ai b) (cpLe_refl K1 K2 ai b) (cpLe_trans K1 K2 ai b) (fT ii)
      (fun t a => cpAt K1 K2 ai b (K1 * K2 * ii + t) a) (fun t => cpAt_up K1 K2 ai b _) _
      (hT_le ii) (hT_at ii) a t (List.mem_range.2 ht)
  have hJ_le : ∀ a j, cpLe K1 K2 ai b a (fJ a j) := fun a j =>
    foldl_le (cpLe K1 K2 ai b) (cpLe_refl K1 K2 ai b) (cpLe_trans K1 K2 ai b) fI _
      (fun a ii _ => hI_le a ii) a
  have hJ_at : ∀ a j, ∀ ii ∈ List.range' (rdN ap j) (rdN ap (j+1) - rdN ap j), ∀ t < K1 * K2,
      cpAt K1 K2 ai b (K1 * K2 * ii + t) (fJ a j) := fun a j =>
    foldl_est (cpLe K1 K2 ai b) (cpLe_refl K1 K2 ai b) (cpLe_trans K1 K2 ai b) fI
      (fun ii a => ∀ t < K1 * K2, cpAt K1 K2 ai b (K1 * K2 * ii + t) a)
      (fun ii s s' hle h t ht => cpAt_up K1 K2 ai b _ s s' hle (h t ht)) _
      (fun a ii _ => hI_le a ii) (fun a ii _ => hI_at a ii) a
  have hle := foldl_le (cpLe K1 K2 ai b) (cpLe_refl K1 K2 ai b) (cpLe_trans K1 K2 ai b) fJ
    (List.range nCol) (fun a j _ => hJ_le a j) (Array.replicate (K1 * K2 * ai.size) 0)
  have hat := foldl_est (cpLe K1 K2 ai b) (cpLe_refl K1 K2 ai b) (cpLe_trans K1 K2 ai b) fJ
    (fun j a => ∀ ii ∈ List.range' (rdN ap j) (rdN ap (j+1) - rdN ap j), ∀ t < K1 * K2,
      cpAt K1 K2 ai b (K1 * K2 * ii + t) a)
    (fun j s s' hle h ii hii t ht => cpAt_up K1 K2 ai b _ s s' hle (h ii hii t ht))
    (List.range nCol) (fun a j _ => hJ_le a j) (fun a j _ => hJ_at a j)
    (Array.replicate (K1 * K2 * ai.size) 0)
  rw [hcb]
  have hsize := hle.1
  rw [Array.size_replicate] at hsize
  refine ⟨hsize, ?_⟩
  intro j hj ii h1 h2 h3 t ht
  have := hat j (List.mem_range.2 hj) ii (List.mem_range'_1.2 ⟨h1, by omega⟩) t ht (by
    rw [hsize]
    have := Nat.mul_le_mul_left (K1 * K2) (Nat.succ_le_of_lt h3)
    rw [Nat.mul_succ] at this
    omega)
  rw [this]
  unfold cpVal
  rw [Nat.mul_add_div (by omega), Nat.div_eq_of_lt ht, Nat.mul_add_mod, Nat.mod_eq_of_lt ht, Nat.add_zero]

end copy

theorem ap_mono (ap : Array Nat) (nCol : Nat) (hmono : ∀ j < nCol, rdN ap j ≤ rdN ap (j+1)) :
    ∀ j' j, j ≤ j' → j' ≤ nCol → rdN ap j ≤ rdN ap j' := by
  intro j'
  induction j' with
  | zero => intro j hj _; have : j = 0 := by omega
            subst this; exact Nat.le_refl _
  | succ j' ih =>
    intro j hj hj'
    rcases Nat.eq_or_lt_of_le hj with h | h
    · subst h; exact Nat.le_refl _
    · exact Nat.le_trans (ih j (by omega) (by omega)) (hmono j' (by omega))

section outer
variable (sqrt : K → K) (ok : K → Bool) (tol : K) (K1 K2 : Nat) (ap : Array Nat)

/-- what `GS.mgs` computes from the columns of aggregate `j` stored in `ax0` -/
def aggOut (ax0 : Array K) (j : Nat) : GS.Out K (Fin (K1 * (rdN ap (j+1) - rdN ap j)) → K) :=
  GS.mgs C10.dotForm sqrt tol
    ((List.range K2).map (colV ax0 (K1 * K2 * rdN ap j) K2 (K1 * (rdN ap (j+1) - rdN ap j)))) []

/-- the final contents of aggregate `j`'s segment of `Ax` and of block `j` of `R` -/
def AggPost (st0 res : FitState K) (j : Nat) : Prop :=
  (∀ c < K2, colV res.ax (K1 * K2 * rdN ap j) K2 (K1 * (rdN ap (j+1) - rdN ap j)) c =
    (aggOut sqrt tol K1 K2 ap st0.ax j).q.getD c 0) ∧
  (∀ c < K2, ∀ bi < c, res.r.getD (j * K2 * K2 + K2 * bi + c) 0 =
    ((aggOut sqrt tol K1 K2 ap st0.ax j).r.getD c ([], 0)).1.getD bi 0) ∧
  (∀ c < K2, res.r.getD (j * K2 * K2 + K2 * c + c) 0 =
    ((aggOut sqrt tol K1 K2 ap st0.ax j).r.getD c ([], 0)).2) ∧
  (∀ c < K2, ∀ bi, c < bi → bi < K2 →
    res.r.getD (j * K2 * K2 + K2 * bi + c) 0 = st0.r.getD (j * K2 * K2 + K2 * bi + c) 0)

theorem seg_end (j : Nat) (hmono : rdN ap j ≤ rdN ap (j+1)) :
    K1 * K2 * rdN ap (j+1) = K1 * K2 * rdN ap j + K2 * (K1 * (rdN ap (j+1) - rdN ap j)) := by
  obtain ⟨cnt, hcnt⟩ := Nat.exists_eq_add_of_le hmono
  rw [hcnt, Nat.add_sub_cancel_left]
  ring

theorem AggPost_frame (st0 res res' : FitState K) (j : Nat) (hmono : rdN ap j ≤ rdN ap (j+1))
    (hax : ∀ p < K1 * K2 * rdN ap (j+1), res'.ax.getD p 0 = res.ax.getD p 0)
    (hr : ∀ p < (j + 1) * K2 * K2, res'.r.getD p 0 = res.r.getD p 0)
    (h : AggPost sqrt tol K1 K2 ap st0 res j) : AggPost sqrt tol K1 K2 ap st0 res' j := by
  obtain ⟨h1, h2, h3, h4⟩ := h
  have hend := seg_end K1 K2 ap j hmono
  have hrs : (j + 1) * K2 * K2 = j * K2 * K2 + K2 * K2 := by ring
  refine ⟨?_, ?_, ?_, ?_⟩
  · intro c hc
    rw [← h1 c hc]
    funext t
    exact hax _ (by have := pos_lt K2 _ c t.val hc t.isLt; omega)
  · intro c hc bi hbi
    rw [← h2 c hc bi hbi]
    exact hr _ (by have := pos_lt K2 K2 c bi hc (by omega); omega)
  · intro c hc
    rw [← h3 c hc]
    exact hr _ (by have := pos_lt K2 K2 c c hc hc; omega)
  · intro c hc bi hbi hbi2
    rw [← h4 c hc bi hbi hbi2]
    exact hr _ (by have := pos_lt K2 K2 c bi hc hbi2; omega)

/-- **all aggregates**: after the first `J` passes of the `j` loop the aggregates `< J` hold their
Gram-Schmidt result and everything from aggregate `J` on is untouched -/
theorem fitLoop_spec (nCol : Nat) (hmono : ∀ j < nCol, rdN ap j ≤ rdN ap (j+1)) (st0 : FitState K)
    (hsz : K1 * K2 * rdN ap nCol ≤ st0.ax.size) (hrz : nCol * K2 * K2 ≤ st0.r.size) :
    ∀ J ≤ nCol, ∀ res, res = (List.range J).foldl (aggBody (fieldOps sqrt ok) K1 K2 ap tol) st0 →
      res.ax.size = st0.ax.size ∧ res.r.size = st0.r.size ∧
      (∀ p, K1 * K2 * rdN ap J ≤ p → res.ax.getD p 0 = st0.ax.getD p 0) ∧
      (∀ p, J * K2 * K2 ≤ p → res.r.getD p 0 = st0.r.getD p 0) ∧
      (∀ j < J, AggPost sqrt tol K1 K2 ap st0 res j) := by
  intro J
  induction J with
  | zero =>
    intro _ res hres
    subst hres
    exact ⟨rfl, rfl, fun _ _ => rfl, fun _ _ => rfl, fun j hj => absurd hj (Nat.not_lt_zero _)⟩
  | succ J ih =>
    intro hJ res' hres'
    rw [List.range_succ, List.foldl_append, List.foldl_cons, List.foldl_nil] at hres'
    obtain ⟨i1, i2, i3, i4, i5⟩ := ih (by omega) _ rfl
    generalize (List.range J).foldl (aggBody (fieldOps sqrt ok) K1 K2 ap tol) st0 = res
      at i1 i2 i3 i4 i5 hres'
    have hm := hmono J (by omega)
    have hend := seg_end K1 K2 ap J hm
    have hrs : (J + 1) * K2 * K2 = J * K2 * K2 + K2 * K2 := by ring
    have hle1 : K1 * K2 * rdN ap (J+1) ≤ K1 * K2 * rdN ap nCol :=
      Nat.mul_le_mul_left _ (ap_mono ap nCol hmono nCol (J+1) hJ (Nat.le_refl _))
    have hle2 : (J + 1) * K2 * K2 ≤ nCol * K2 * K2 :=
      Nat.mul_le_mul_right _ (Nat.mul_le_mul_right _ hJ)
    have hle3 : K1 * K2 * rdN ap J ≤ K1 * K2 * rdN ap (J+1) := Nat.mul_le_mul_left _ hm
    obtain ⟨a1, a2, a3, a4, a5, a6, a7, a8⟩ := aggBody_spec sqrt ok tol K2 K1 ap res J hm
      (by rw [i1]; omega) (by rw [i2]; omega) res' hres' _ rfl _ rfl _ rfl _ rfl
    have hcols : (List.range K2).map (colV res.ax (K1 * K2 * rdN ap J) K2 (K1 * (rdN ap (J+1) - rdN ap J))) =
        (List.range K2).map (colV st0.ax (K1 * K2 * rdN ap J) K2 (K1 * (rdN ap (J+1) - rdN ap J))) := by
      apply List.map_congr_left
      intro c _
      funext t
      exact i3 _ (by omega)
    rw [hcols] at a3 a5 a6
    refine ⟨by rw [a1, i1], by rw [a2, i2], ?_, ?_, ?_⟩
    · intro p hp
      rw [a4 p (Or.inr (by omega)), i3 p (by omega)]
    · intro p hp
      rw [a8 p (Or.inr (by omega)), i4 p (by omega)]
    · intro j hj
      rcases Nat.eq_or_lt_of_le (Nat.le_of_lt_succ hj) with h | h
      · subst h
        refine ⟨a3, a5, a6, ?_⟩
        intro c hc bi hbi _
        rw [a7 c hc bi hbi]
        exact i4 _ (by omega)
      · have hmj := hmono j (by omega)
        have hlej : K1 * K2 * rdN ap (j+1) ≤ K1 * K2 * rdN ap J :=
          Nat.mul_le_mul_left _ (ap_mono ap nCol hmono J (j+1) (by omega) (by omega))
        have hlej2 : (j + 1) * K2 * K2 ≤ J * K2 * K2 :=
          Nat.mul_le_mul_right _ (Nat.mul_le_mul_right _ (by omega))
        exact AggPost_frame sqrt tol K1 K2 ap st0 res res' j hmj
          (fun p hp => a4 p (Or.inl (by omega))) (fun p hp => a8 p (Or.inl (by omega))) (i5 j h)

end outer
end PyamgV.C10R
