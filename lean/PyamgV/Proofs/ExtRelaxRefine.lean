import PyamgV.Proofs.C02Model
import PyamgV.Proofs.C02Example

/-! PyamgV (C09/C02 glue, extension E1): the EXECUTABLE array models of the relaxation kernels
(`K.gaussSeidel`, `K.sorGaussSeidel`, `K.jacobi`, the Python drivers `K.pyGaussSeidel`, `K.pyJacobi` of
Model/KRelax.lean -- the definitions the correspondence run compares bit-exactly with relaxation.h /
relaxation.py) carry the function-level theory:

* `jacobi_refines_rows` / `jacobi_refines_rows_closed` / `jacobi_array_formula`: the `jacobi` kernel for an
  ARBITRARY row list and an arbitrary caller buffer `temp0` (generalises `jacobi_refines`, which is the
  full-range call of the Python driver);
* `gaussSeidel_array_nonexp`, `sorGaussSeidel_array_nonexp`, `pyGaussSeidel_array_nonexp`: the energy of the
  error never increases under the array kernels / the Python driver (every sweep kind, every iteration count);
* `gaussSeidel_fixed_point`, `sorGaussSeidel_fixed_point`, `pyGaussSeidel_fixed_point`, `pyJacobi_fixed_point`:
  a solution of the swept rows is reproduced *as an array* (not only up to `fn`).

(`sorGaussSeidel_refines`, the SOR analogue of `gaussSeidel_refines`, lives in Proofs/C02Refine.lean.) -/
namespace PyamgV

variable {R : Type} [Field R] [LinearOrder R] [IsStrictOrderedRing R] [DecidableEq R]

/-! ### 0. arrays are determined by their size and their reading as a function -/

theorem array_ext_fn (x y : Array R) (hs : x.size = y.size) (h : fn x = fn y) : x = y := by
  apply Array.ext hs
  intro i h1 h2
  have := congrFun h i
  unfold fn K.rd at this
  simpa [Array.getD_eq_getD_getElem?, h1, h2] using this

/-! ### 1. the Jacobi kernel for arbitrary row lists and an arbitrary buffer `temp0` -/

/-- the buffer `temp` after the copy phase `temp[i] = x[i]` over the swept rows -/
def jacTempFn (rows : List Nat) (temp0 x : Nat → R) : Nat → R :=
  fun j => if j ∈ rows then x j else temp0 j

/-- **the executable `jacobi` kernel refines `jacSweepFn`** for every row list inside the vector (duplicates
allowed: all reads go to the frozen copy) and every caller buffer `temp0` of the size of `x`: the frozen copy
is `x` on the swept rows and the caller's `temp0` elsewhere -- the kernel really reads `temp0[j]` for a column
`j` outside the swept rows. -/
theorem jacobi_refines_rows (ω : R) (A : K.Csr R) (b temp0 x : Array R) (rows : List Nat)
    (ht : temp0.size = x.size) (hrows : ∀ i ∈ rows, i < x.size) :
    (K.jacobi ω A b rows temp0 x).size = x.size ∧
    fn (K.jacobi ω A b rows temp0 x) =
      jacSweepFn ω (rowOf A) (fn b) (jacTempFn rows (fn temp0) (fn x)) rows (fn x) := by
  obtain ⟨_, hc2⟩ := copy_refines x rows temp0 ht hrows
  have htemp : fn (rows.foldl (fun t i => K.wr t i (K.rd x i)) temp0) =
      jacTempFn rows (fn temp0) (fn x) := by
    funext j; rw [hc2 j]; rfl
  unfold K.jacobi
  simp only
  obtain ⟨h1, h2⟩ := jacLoop_refines ω A b
    (rows.foldl (fun t i => K.wr t i (K.rd x i)) temp0) rows x hrows
  refine ⟨h1, ?_⟩
  rw [h2, htemp]

theorem rowScan_congr (i : Nat) (row : Row R) (t t' : Nat → R)
    (h : ∀ cv ∈ row, cv.1 ≠ i → t cv.1 = t' cv.1) : rowScan i row t = rowScan i row t' := by
  unfold rowScan
  apply List.foldl_ext
  intro acc cv hcv
  by_cases hc : cv.1 = i
  · simp only [hc, if_true]
  · simp only [hc, if_false]; rw [h cv hcv hc]

theorem jacRowFn_congr (ω : R) (i : Nat) (row : Row R) (b t t' y : Nat → R) (hi : t i = t' i)
    (h : ∀ cv ∈ row, cv.1 ≠ i → t cv.1 = t' cv.1) :
    jacRowFn ω i row b t y = jacRowFn ω i row b t' y := by
  unfold jacRowFn
  rw [rowScan_congr i row t t' h, hi]

theorem jacSweepFn_congr (ω : R) (rows : Nat → Row R) (b t t' : Nat → R) (order : List Nat)
    (h : ∀ i ∈ order, t i = t' i ∧ ∀ cv ∈ rows i, cv.1 ≠ i → t cv.1 = t' cv.1) :
    ∀ y, jacSweepFn ω rows b t order y = jacSweepFn ω rows b t' order y := by
  induction order with
  | nil => intro y; rfl
  | cons i rest ih =>
    intro y
    unfold jacSweepFn
    rw [List.foldl_cons, List.foldl_cons,
      jacRowFn_congr ω i (rows i) b t t' y (h i (by simp)).1 (h i (by simp)).2]
    exact ih (fun j hj => h j (by simp [hj])) _

/-- when every off-diagonal column read by a swept row is itself swept, or the caller's buffer already holds
`x` there (in particular: full sweeps, as issued by `relaxation.jacobi`; block-closed row sets), the kernel is
the Jacobi sweep with frozen copy `x` -/
theorem jacobi_refines_rows_closed (ω : R) (A : K.Csr R) (b temp0 x : Array R) (rows : List Nat)
    (ht : temp0.size = x.size) (hrows : ∀ i ∈ rows, i < x.size)
    (hcols : ∀ i ∈ rows, ∀ cv ∈ rowOf A i, cv.1 ≠ i → cv.1 ∈ rows ∨ fn temp0 cv.1 = fn x cv.1) :
    (K.jacobi ω A b rows temp0 x).size = x.size ∧
    fn (K.jacobi ω A b rows temp0 x) = jacSweepFn ω (rowOf A) (fn b) (fn x) rows (fn x) := by
  obtain ⟨h1, h2⟩ := jacobi_refines_rows ω A b temp0 x rows ht hrows
  refine ⟨h1, ?_⟩
  rw [h2]
  apply jacSweepFn_congr
  intro i hi
  refine ⟨by simp [jacTempFn, hi], ?_⟩
  intro cv hcv hne
  unfold jacTempFn
  rcases hcols i hi cv hcv hne with hm | he
  · rw [if_pos hm]
  · by_cases hm : cv.1 ∈ rows
    · rw [if_pos hm]
    · rw [if_neg hm, he]

/-- **the array kernel computes the weighted-Jacobi splitting update**: with one stored non-zero diagonal
per row `< n`, under the hypotheses of `jacobi_refines_rows_closed`, entry `j` of the result is
`x_j + ω (b_j − (A x)_j) / d_j` on the swept rows and `x_j` elsewhere -/
theorem jacobi_array_formula (ω : R) (A : K.Csr R) (n : Nat) (diag : Nat → R)
    (hdiag : ∀ i, i < n → HasDiag i (rowOf A i) (diag i) ∧ diag i ≠ 0)
    (b temp0 x : Array R) (rows : List Nat) (ht : temp0.size = x.size) (hn : n ≤ x.size)
    (hrows : ∀ i ∈ rows, i < n)
    (hcols : ∀ i ∈ rows, ∀ cv ∈ rowOf A i, cv.1 ≠ i → cv.1 ∈ rows ∨ fn temp0 cv.1 = fn x cv.1) (j : Nat) :
    fn (K.jacobi ω A b rows temp0 x) j =
      if j ∈ rows then fn x j + ω * ((fn b j - rowDot (rowOf A j) (fn x)) / diag j) else fn x j := by
  obtain ⟨_, h2⟩ := jacobi_refines_rows_closed ω A b temp0 x rows ht
    (fun i hi => lt_of_lt_of_le (hrows i hi) hn) hcols
  rw [h2]
  exact jacSweep_formula ω n (rowOf A) diag hdiag (fn b) (fn x) rows hrows (fn x) j

/-! ### 2. energy: the array kernels never increase the energy of the error

The function-level sweep theorems with the right-hand side hypothesis only on the first `n` coordinates
(`gsSweep_nonexp` / `sorSweep_nonexp` ask for `A x* = b` as functions on `Nat`). -/

theorem gsSweep_energy (n : Nat) (rows : Nat → Row R) (hsym) (hpsd)
    (diag : Nat → R) (hdiag : ∀ i, i < n → HasDiag i (rows i) (diag i))
    (order : List Nat) (horder : ∀ i ∈ order, i < n) (b xs : Nat → R)
    (hxs : ∀ j, j < n → csrOp n rows xs j = b j) :
    ∀ x, (energy n rows hsym hpsd).en (xs - gsSweepFn rows b order x) ≤
      (energy n rows hsym hpsd).en (xs - x) := by
  induction order with
  | nil => intro x; simp [gsSweepFn]
  | cons i rest ih =>
    intro x
    have hi : i < n := horder i (by simp)
    have h1 := gsRow_energy n rows hsym hpsd i hi (diag i) (hdiag i hi) b x xs hxs
    have h2 := ih (fun j hj => horder j (by simp [hj])) (gsRowFn i (rows i) b x)
    simp only [gsSweepFn, List.foldl_cons] at h2 ⊢
    exact le_trans h2 h1

theorem sorSweep_energy (ω : R) (h0 : 0 ≤ ω) (h2 : ω ≤ 2) (n : Nat) (rows : Nat → Row R) (hsym) (hpsd)
    (diag : Nat → R) (hdiag : ∀ i, i < n → HasDiag i (rows i) (diag i))
    (order : List Nat) (horder : ∀ i ∈ order, i < n) (b xs : Nat → R)
    (hxs : ∀ j, j < n → csrOp n rows xs j = b j) :
    ∀ x, (energy n rows hsym hpsd).en (xs - sorSweepFn ω rows b order x) ≤
      (energy n rows hsym hpsd).en (xs - x) := by
  induction order with
  | nil => intro x; simp [sorSweepFn]
  | cons i rest ih =>
    intro x
    have hi : i < n := horder i (by simp)
    have h1 := sorRow_energy n rows hsym hpsd i hi (diag i) (hdiag i hi) ω h0 h2 b x xs hxs
    have h3 := ih (fun j hj => horder j (by simp [hj])) (sorRowFn ω i (rows i) b x)
    simp only [sorSweepFn, List.foldl_cons] at h3 ⊢
    exact le_trans h3 h1

/-- **Gauss-Seidel array kernel, any row list**: for a CSR structure whose first `n` rows store exactly one
diagonal entry each (zero allowed: such rows are skipped) and whose operator is symmetric positive
semidefinite, the energy of the error w.r.t. any solution `xs` of the first `n` equations does not increase. -/
theorem gaussSeidel_array_nonexp (A : K.Csr R) (n : Nat) (hsym) (hpsd) (diag : Nat → R)
    (hdiag : ∀ i, i < n → HasDiag i (rowOf A i) (diag i))
    (rows : List Nat) (hrows : ∀ i ∈ rows, i < n) (b x : Array R) (hn : n ≤ x.size)
    (xs : Nat → R) (hxs : ∀ j, j < n → csrOp n (rowOf A) xs j = fn b j) :
    (energy n (rowOf A) hsym hpsd).en (xs - fn (K.gaussSeidel A b rows x)) ≤
    (energy n (rowOf A) hsym hpsd).en (xs - fn x) := by
  rw [(gaussSeidel_refines A b rows x (fun i hi => lt_of_lt_of_le (hrows i hi) hn)).2]
  exact gsSweep_energy n (rowOf A) hsym hpsd diag hdiag rows hrows (fn b) xs hxs (fn x)

/-- **SOR array kernel, any row list, `0 ≤ ω ≤ 2`** -/
theorem sorGaussSeidel_array_nonexp (ω : R) (h0 : 0 ≤ ω) (h2 : ω ≤ 2) (A : K.Csr R) (n : Nat) (hsym) (hpsd)
    (diag : Nat → R) (hdiag : ∀ i, i < n → HasDiag i (rowOf A i) (diag i))
    (rows : List Nat) (hrows : ∀ i ∈ rows, i < n) (b x : Array R) (hn : n ≤ x.size)
    (xs : Nat → R) (hxs : ∀ j, j < n → csrOp n (rowOf A) xs j = fn b j) :
    (energy n (rowOf A) hsym hpsd).en (xs - fn (K.sorGaussSeidel ω A b rows x)) ≤
    (energy n (rowOf A) hsym hpsd).en (xs - fn x) := by
  rw [(sorGaussSeidel_refines ω A b rows x (fun i hi => lt_of_lt_of_le (hrows i hi) hn)).2]
  exact sorSweep_energy ω h0 h2 n (rowOf A) hsym hpsd diag hdiag rows hrows (fn b) xs hxs (fn x)

/-- **the Python driver `relaxation.gauss_seidel` / `sor`** (`sweep` forward, backward or symmetric, any
number of iterations, `0 ≤ ω ≤ 2`; the plain kernel runs iff `ω = 1`): non-expansive in the energy norm -/
theorem pyGaussSeidel_array_nonexp (ω : R) (h0 : 0 ≤ ω) (h2 : ω ≤ 2) (A : K.Csr R) (hsym) (hpsd)
    (diag : Nat → R) (hdiag : ∀ i, i < A.n → HasDiag i (rowOf A i) (diag i))
    (iters : Nat) (sw : K.Sweep) (b x : Array R) (hn : A.n ≤ x.size)
    (xs : Nat → R) (hxs : ∀ j, j < A.n → csrOp A.n (rowOf A) xs j = fn b j) :
    (energy A.n (rowOf A) hsym hpsd).en (xs - fn (K.pyGaussSeidel ω A b iters sw x)) ≤
    (energy A.n (rowOf A) hsym hpsd).en (xs - fn x) := by
  rw [pyGaussSeidel_eq]
  by_cases hω : ω = 1
  · rw [if_pos hω]
    exact gaussSeidel_array_nonexp A A.n hsym hpsd diag hdiag _ (pyOrder_lt _ _ _) b x hn xs hxs
  · rw [if_neg hω]
    exact sorGaussSeidel_array_nonexp ω h0 h2 A A.n hsym hpsd diag hdiag _ (pyOrder_lt _ _ _) b x hn xs hxs

/-- the driver keeps the size of the vector -/
theorem pyGaussSeidel_size (ω : R) (A : K.Csr R) (iters : Nat) (sw : K.Sweep) (b x : Array R)
    (hn : A.n ≤ x.size) : (K.pyGaussSeidel ω A b iters sw x).size = x.size := by
  have hr : ∀ i ∈ pyOrder A.n iters sw, i < x.size :=
    fun i hi => lt_of_lt_of_le (pyOrder_lt _ _ _ i hi) hn
  rw [pyGaussSeidel_eq]
  by_cases hω : ω = 1
  · rw [if_pos hω]; exact (gaussSeidel_refines A b _ x hr).1
  · rw [if_neg hω]; exact (sorGaussSeidel_refines ω A b _ x hr).1

/-- **the Python driver `relaxation.jacobi`** under its damping bound `ω‖D⁻¹r‖²_A ≤ 2⟨D⁻¹r, r⟩`
(i.e. `ω λ_max(D⁻¹A) ≤ 2`), non-zero diagonal: non-expansive, any number of iterations -/
theorem pyJacobi_array_nonexp (ω : R) (h0 : 0 ≤ ω) (A : K.Csr R) (hsym) (hpsd)
    (diag : Nat → R) (hdiag : ∀ i, i < A.n → HasDiag i (rowOf A i) (diag i))
    (hnz : ∀ i, i < A.n → diag i ≠ 0)
    (hD : ∀ r, ω * (euc R A.n).a (csrOp A.n (rowOf A) (jacDinv A.n diag r)) (jacDinv A.n diag r) ≤
        2 * (euc R A.n).a (jacDinv A.n diag r) r)
    (iters : Nat) (b x : Array R) (hx : x.size = A.n)
    (xs : Nat → R) (hxs : csrOp A.n (rowOf A) xs = fn b) :
    ((euc R A.n).ofOp (csrOp A.n (rowOf A)) hsym hpsd).en (xs - fn (K.pyJacobi ω A b iters x)) ≤
    ((euc R A.n).ofOp (csrOp A.n (rowOf A)) hsym hpsd).en (xs - fn x) := by
  have href := (sm_refines (C02.Sm.jac ω iters) A b x hx).2
  simp only [C02.Sm.run] at href
  rw [href]
  exact smF_nonexp (C02.Sm.jac ω iters) A hsym hpsd diag hdiag ⟨h0, hnz, hD⟩ (fn x) (fn b) xs hxs

/-! ### 3. fixed points, as arrays -/

theorem getLast?_getD_zero (l : List R) (h : ∀ v ∈ l, v = 0) : l.getLast?.getD 0 = 0 := by
  cases hl : l.getLast? with
  | none => rfl
  | some z => exact h z (List.mem_of_getLast? hl)

/-- all stored diagonal entries of the row are zero (in particular: none stored) ⟹ the kernel's `diag` is 0 -/
theorem rowScan_diag_zero (i : Nat) (row : Row R) (x : Nat → R)
    (h : ∀ cv ∈ row, cv.1 = i → cv.2 = 0) : (rowScan i row x).2 = 0 := by
  obtain ⟨_, h2⟩ := rowScan_spec i row x (0, 0)
  unfold rowScan
  rw [h2]
  apply getLast?_getD_zero
  intro v hv
  obtain ⟨cv, hcv, rfl⟩ := List.mem_map.1 hv
  obtain ⟨hm, hc⟩ := List.mem_filter.1 hcv
  exact h cv hm (by simpa using hc)

/-- row `i` is *consistent* at `x`: either the kernel skips it (every stored diagonal entry is zero / no
diagonal stored), or it stores exactly one diagonal entry and equation `i` of `A x = b` holds -/
def RowOK (i : Nat) (row : Row R) (b x : Nat → R) : Prop :=
  (∀ cv ∈ row, cv.1 = i → cv.2 = 0) ∨ ∃ d, HasDiag i row d ∧ rowDot row x = b i

theorem rowScan_of_rowOK (i : Nat) (row : Row R) (b x : Nat → R) (h : RowOK i row b x) :
    (rowScan i row x).2 = 0 ∨ (b i - (rowScan i row x).1) / (rowScan i row x).2 = x i := by
  rcases h with hz | ⟨d, hd, he⟩
  · exact Or.inl (rowScan_diag_zero i row x hz)
  · obtain ⟨h1, h2⟩ := rowScan_spec i row x (0, 0)
    have hdiag : (rowScan i row x).2 = d := by
      unfold rowScan; rw [h2]; unfold HasDiag at hd; rw [hd]; simp
    have hrs : (rowScan i row x).1 =
        ((row.filter (fun cv => cv.1 ≠ i)).map (fun cv => cv.2 * x cv.1)).sum := by
      unfold rowScan; rw [h1]; simp
    by_cases hd0 : d = 0
    · exact Or.inl (by rw [hdiag, hd0])
    · right
      rw [hdiag, hrs, ← he, rowDot_split i row x d hd]
      field_simp
      ring

theorem gsRowFn_fixed (i : Nat) (row : Row R) (b x : Nat → R) (h : RowOK i row b x) :
    gsRowFn i row b x = x := by
  have hs := rowScan_of_rowOK i row b x h
  unfold gsRowFn
  rw [show rowScan i row x = ((rowScan i row x).1, (rowScan i row x).2) from rfl]
  simp only
  by_cases hd : (rowScan i row x).2 = 0
  · rw [if_pos hd]
  · rw [if_neg hd]
    rcases hs with h0 | he
    · exact absurd h0 hd
    · rw [he]; exact Function.update_eq_self i x

theorem sorRowFn_fixed (ω : R) (i : Nat) (row : Row R) (b x : Nat → R) (h : RowOK i row b x) :
    sorRowFn ω i row b x = x := by
  rw [sorRow_eq, gsRowFn_fixed i row b x h]; simp

theorem jacRowFn_fixed (ω : R) (i : Nat) (row : Row R) (b x : Nat → R) (h : RowOK i row b x) :
    jacRowFn ω i row b x x = x := by
  have hs := rowScan_of_rowOK i row b x h
  unfold jacRowFn
  rw [show rowScan i row x = ((rowScan i row x).1, (rowScan i row x).2) from rfl]
  simp only
  by_cases hd : (rowScan i row x).2 = 0
  · rw [if_pos hd]
  · rw [if_neg hd]
    rcases hs with h0 | he
    · exact absurd h0 hd
    · rw [he]
      have : (1 - ω) * x i + ω * x i = x i := by ring
      rw [this]; exact Function.update_eq_self i x

theorem gsSweepFn_fixed (rows : Nat → Row R) (b x : Nat → R) (order : List Nat)
    (h : ∀ i ∈ order, RowOK i (rows i) b x) : gsSweepFn rows b order x = x := by
  induction order with
  | nil => rfl
  | cons i rest ih =>
    unfold gsSweepFn
    rw [List.foldl_cons, gsRowFn_fixed i (rows i) b x (h i (by simp))]
    exact ih (fun j hj => h j (by simp [hj]))

theorem sorSweepFn_fixed (ω : R) (rows : Nat → Row R) (b x : Nat → R) (order : List Nat)
    (h : ∀ i ∈ order, RowOK i (rows i) b x) : sorSweepFn ω rows b order x = x := by
  induction order with
  | nil => rfl
  | cons i rest ih =>
    unfold sorSweepFn
    rw [List.foldl_cons, sorRowFn_fixed ω i (rows i) b x (h i (by simp))]
    exact ih (fun j hj => h j (by simp [hj]))

theorem jacSweepFn_fixed (ω : R) (rows : Nat → Row R) (b x : Nat → R) (order : List Nat)
    (h : ∀ i ∈ order, RowOK i (rows i) b x) : jacSweepFn ω rows b x order x = x := by
  induction order with
  | nil => rfl
  | cons i rest ih =>
    unfold jacSweepFn
    rw [List.foldl_cons, jacRowFn_fixed ω i (rows i) b x (h i (by simp))]
    exact ih (fun j hj => h j (by simp [hj]))

/-- **fixed point of the Gauss-Seidel array kernel**: if every swept row is consistent at `xs`
(`RowOK`: skipped by the kernel, or exactly one stored diagonal and `(A xs)_i = b_i`), the kernel returns the
array `xs` itself -/
theorem gaussSeidel_fixed_point (A : K.Csr R) (b xs : Array R) (rows : List Nat)
    (hrows : ∀ i ∈ rows, i < xs.size)
    (hfix : ∀ i ∈ rows, RowOK i (rowOf A i) (fn b) (fn xs)) :
    K.gaussSeidel A b rows xs = xs := by
  obtain ⟨h1, h2⟩ := gaussSeidel_refines A b rows xs hrows
  exact array_ext_fn _ _ h1 (by rw [h2, gsSweepFn_fixed _ _ _ _ hfix])

theorem sorGaussSeidel_fixed_point (ω : R) (A : K.Csr R) (b xs : Array R) (rows : List Nat)
    (hrows : ∀ i ∈ rows, i < xs.size)
    (hfix : ∀ i ∈ rows, RowOK i (rowOf A i) (fn b) (fn xs)) :
    K.sorGaussSeidel ω A b rows xs = xs := by
  obtain ⟨h1, h2⟩ := sorGaussSeidel_refines ω A b rows xs hrows
  exact array_ext_fn _ _ h1 (by rw [h2, sorSweepFn_fixed _ _ _ _ _ hfix])

/-- **fixed point of the Python driver** `relaxation.gauss_seidel` / `sor`: every `ω`, every sweep kind,
every iteration count; `A xs = b` is needed only row-wise on the rows the kernel does not skip -/
theorem pyGaussSeidel_fixed_point (ω : R) (A : K.Csr R) (b xs : Array R) (iters : Nat) (sw : K.Sweep)
    (hn : A.n ≤ xs.size) (hfix : ∀ i, i < A.n → RowOK i (rowOf A i) (fn b) (fn xs)) :
    K.pyGaussSeidel ω A b iters sw xs = xs := by
  have hr : ∀ i ∈ pyOrder A.n iters sw, i < xs.size :=
    fun i hi => lt_of_lt_of_le (pyOrder_lt _ _ _ i hi) hn
  have hf : ∀ i ∈ pyOrder A.n iters sw, RowOK i (rowOf A i) (fn b) (fn xs) :=
    fun i hi => hfix i (pyOrder_lt _ _ _ i hi)
  rw [pyGaussSeidel_eq]
  by_cases hω : ω = 1
  · rw [if_pos hω]; exact gaussSeidel_fixed_point A b xs _ hr hf
  · rw [if_neg hω]; exact sorGaussSeidel_fixed_point ω A b xs _ hr hf

/-- fixed point of the `jacobi` array kernel (any row list, any buffer of the right size whose unswept
entries that are read agree with `xs`) -/
theorem jacobi_fixed_point (ω : R) (A : K.Csr R) (b temp0 xs : Array R) (rows : List Nat)
    (ht : temp0.size = xs.size) (hrows : ∀ i ∈ rows, i < xs.size)
    (hcols : ∀ i ∈ rows, ∀ cv ∈ rowOf A i, cv.1 ≠ i → cv.1 ∈ rows ∨ fn temp0 cv.1 = fn xs cv.1)
    (hfix : ∀ i ∈ rows, RowOK i (rowOf A i) (fn b) (fn xs)) :
    K.jacobi ω A b rows temp0 xs = xs := by
  obtain ⟨h1, h2⟩ := jacobi_refines_rows_closed ω A b temp0 xs rows ht hrows hcols
  exact array_ext_fn _ _ h1 (by rw [h2, jacSweepFn_fixed _ _ _ _ _ hfix])

/-- fixed point of the Python driver `relaxation.jacobi` -/
theorem pyJacobi_fixed_point (ω : R) (A : K.Csr R) (b xs : Array R) (iters : Nat)
    (hx : xs.size = A.n) (hfix : ∀ i, i < A.n → RowOK i (rowOf A i) (fn b) (fn xs)) :
    K.pyJacobi ω A b iters xs = xs := by
  have hstep : K.jacobi ω A b (List.range A.n) (Array.replicate xs.size 0) xs = xs := by
    obtain ⟨h1, h2⟩ := jacobi_refines ω A b xs A.n hx
    refine array_ext_fn _ _ (by rw [h1, hx]) ?_
    rw [h2]
    exact jacSweepFn_fixed _ _ _ _ _ (fun i hi => hfix i (by simpa using hi))
  unfold K.pyJacobi
  induction iters with
  | zero => rfl
  | succ k ih => simp only [K.iter]; rw [hstep]; exact ih

/-- `RowOK` from the usual hypotheses: one stored diagonal per row and `A xs = b` on the first `n` rows -/
theorem rowOK_of_solution (A : K.Csr R) (n : Nat) (diag : Nat → R)
    (hdiag : ∀ i, i < n → HasDiag i (rowOf A i) (diag i)) (b xs : Nat → R)
    (hxs : ∀ j, j < n → csrOp n (rowOf A) xs j = b j) (i : Nat) (hi : i < n) :
    RowOK i (rowOf A i) b xs :=
  Or.inr ⟨diag i, hdiag i hi, by rw [← hxs i hi, csrOp_apply n _ _ i hi]⟩

/-! ### 4. non-vacuity: the 3-point Poisson matrix `C02Ex.A3` (symmetric positive definite, `symA`, `psdA`)
meets every hypothesis of the energy theorem, so for all `x, b ∈ ℚ³`, every `0 ≤ ω ≤ 2`, every sweep: -/

theorem example_pyGaussSeidel_nonexp (ω : ℚ) (h0 : 0 ≤ ω) (h2 : ω ≤ 2) (iters : Nat) (sw : K.Sweep)
    (b x : Array ℚ) (hx : 3 ≤ x.size) (xs : Nat → ℚ)
    (hxs : ∀ j, j < 3 → csrOp 3 (rowOf C02Ex.A3) xs j = fn b j) :
    (energy 3 (rowOf C02Ex.A3) C02Ex.symA C02Ex.psdA).en
        (xs - fn (K.pyGaussSeidel ω C02Ex.A3 b iters sw x)) ≤
    (energy 3 (rowOf C02Ex.A3) C02Ex.symA C02Ex.psdA).en (xs - fn x) := by
  refine pyGaussSeidel_array_nonexp ω h0 h2 C02Ex.A3 C02Ex.symA C02Ex.psdA (fun _ => 2) ?_ iters sw b x hx xs hxs
  intro i hi
  have hi' : i < 3 := hi
  rcases i with _ | _ | _ | i
  · rw [C02Ex.rowA0]; simp [HasDiag]
  · rw [C02Ex.rowA1]; simp [HasDiag]
  · rw [C02Ex.rowA2]; simp [HasDiag]
  · omega

#print axioms jacobi_refines_rows
#print axioms jacobi_refines_rows_closed
#print axioms jacobi_array_formula
#print axioms gaussSeidel_array_nonexp
#print axioms sorGaussSeidel_array_nonexp
#print axioms pyGaussSeidel_array_nonexp
#print axioms pyJacobi_array_nonexp
#print axioms pyGaussSeidel_fixed_point
#print axioms pyJacobi_fixed_point
#print axioms jacobi_fixed_point
#print axioms example_pyGaussSeidel_nonexp
end PyamgV
