/-! PyamgV: serial MIS kernel model + proof (core Lean only) -/
namespace PyamgV

@[inline] def rd (a : Array Int) (i : Nat) : Int := a.getD i 0
@[inline] def wr (a : Array Int) (i : Nat) (v : Int) : Array Int := a.setIfInBounds i v

@[simp] theorem size_wr (a : Array Int) (i : Nat) (v : Int) : (wr a i v).size = a.size := by
  simp [wr]

theorem rd_wr (a : Array Int) (i j : Nat) (v : Int) :
    rd (wr a i v) j = if i = j ∧ i < a.size then v else rd a j := by
  unfold rd wr
  simp only [Array.getD_eq_getD_getElem?, Array.getElem?_setIfInBounds]
  by_cases h : i = j
  · subst h
    by_cases h2 : i < a.size <;> simp [h2]
  · simp [h]

/-- graph as adjacency function (derived from CSR by the driver) -/
structure Graph where
  n : Nat
  adj : Nat → List Nat

def misInner (act F : Int) (x : Array Int) (nbrs : List Nat) : Array Int :=
  nbrs.foldl (fun x j => if rd x j = act then wr x j F else x) x

def misStep (G : Graph) (act C F : Int) (x : Array Int) (i : Nat) : Array Int :=
  if rd x i ≠ act then x else misInner act F (wr x i C) (G.adj i)

def misSerial (G : Graph) (act C F : Int) (x : Array Int) : Array Int :=
  (List.range G.n).foldl (misStep G act C F) x

#eval misSerial ⟨4, fun i => [[1],[0,2],[1,3],[2]].getD i []⟩ (-1) 1 0 #[-1,-1,-1,-1]

end PyamgV

namespace PyamgV
open List

variable {G : Graph} {act C F : Int}

/-- what the inner loop does to each entry: an `act` neighbour becomes `F`, everything else is kept -/
theorem misInner_spec (act F : Int) (hAF : F ≠ act) (nbrs : List Nat) (x : Array Int)
    (hb : ∀ j ∈ nbrs, j < x.size) :
    (misInner act F x nbrs).size = x.size ∧
    ∀ k, rd (misInner act F x nbrs) k =
      if k ∈ nbrs ∧ rd x k = act then F else rd x k := by
  induction nbrs generalizing x with
  | nil => simp [misInner]
  | cons j js ih =>
    have hj : j < x.size := hb j (by simp)
    simp only [misInner, List.foldl_cons]
    by_cases hx : rd x j = act
    · simp only [hx, if_true]
      have := ih (wr x j F) (by intro k hk; simpa using hb k (by simp [hk]))
      rw [show misInner act F (wr x j F) js = List.foldl _ (wr x j F) js from rfl] at this
      refine ⟨by simpa using this.1, ?_⟩
      intro k
      rw [this.2 k, rd_wr]
      by_cases hkj : j = k
      · subst hkj; simp [hj, hx, hAF]
      · have : k ≠ j := fun h => hkj h.symm
        simp [hkj, this]
    · simp only [hx, if_false]
      have := ih x (by intro k hk; exact hb k (by simp [hk]))
      rw [show misInner act F x js = List.foldl _ x js from rfl] at this
      refine ⟨this.1, ?_⟩
      intro k
      rw [this.2 k]
      by_cases hkj : k = j
      · subst hkj; simp [hx]
      · simp [hkj]

end PyamgV

namespace PyamgV

structure GraphOK (G : Graph) : Prop where
  bound : ∀ i, i < G.n → ∀ j ∈ G.adj i, j < G.n
  symm  : ∀ i j, i < G.n → j < G.n → (j ∈ G.adj i ↔ i ∈ G.adj j)

structure Inv (G : Graph) (act C F : Int) (k : Nat) (x : Array Int) : Prop where
  size : x.size = G.n
  vals : ∀ i, i < G.n → rd x i = act ∨ rd x i = C ∨ rd x i = F
  done : ∀ i, i < k → i < G.n → rd x i ≠ act
  cnb  : ∀ i, i < G.n → rd x i = C → ∀ j ∈ G.adj i, j ≠ i → rd x j = F
  fnb  : ∀ j, j < G.n → rd x j = F → ∃ i ∈ G.adj j, i ≠ j ∧ rd x i = C

theorem misStep_inv (G : Graph) (hG : GraphOK G) (act C F : Int)
    (hCA : C ≠ act) (hFA : F ≠ act) (hCF : C ≠ F)
    (k : Nat) (hk : k < G.n) (x : Array Int) (h : Inv G act C F k x) :
    Inv G act C F (k+1) (misStep G act C F x k) := by
  unfold misStep
  by_cases hx : rd x k ≠ act
  · simp only [hx, ne_eq, not_false_eq_true, if_true]
    refine ⟨h.size, h.vals, ?_, h.cnb, h.fnb⟩
    intro i hi hin
    by_cases hik : i = k
    · subst hik; exact hx
    · exact h.done i (by omega) hin
  · have hxk : rd x k = act := by simpa using hx
    simp only [hxk, ne_eq, not_true_eq_false, if_false]
    have hb : ∀ j ∈ G.adj k, j < (wr x k C).size := by
      intro j hj; simp [h.size]; exact hG.bound k hk j hj
    obtain ⟨hsz, hsp⟩ := misInner_spec act F hFA (G.adj k) (wr x k C) hb
    -- entry formula for the new state
    have hw : ∀ m, rd (wr x k C) m = if m = k then C else rd x m := by
      intro m; rw [rd_wr]
      by_cases hmk : k = m
      · subst hmk; simp [h.size, hk]
      · have : m ≠ k := fun e => hmk e.symm
        simp [hmk, this]
    have hnew : ∀ m, rd (misInner act F (wr x k C) (G.adj k)) m =
        if m = k then C else if m ∈ G.adj k ∧ rd x m = act then F else rd x m := by
      intro m; rw [hsp m, hw m]
      by_cases hmk : m = k
      · subst hmk; simp [hCA]
      · simp [hmk]
    refine ⟨by simpa [h.size] using hsz, ?_, ?_, ?_, ?_⟩
    · intro i hi; rw [hnew i]
      rcases h.vals i hi with h1 | h1 | h1 <;> split <;> try split
      all_goals simp_all
    · intro i hi hin; rw [hnew i]
      by_cases hik : i = k
      · simp [hik, hCA]
      · have := h.done i (by omega) hin
        simp only [hik, if_false]; split
        · exact hFA
        · exact this
    · intro i hi hiC j hj hji
      rw [hnew i] at hiC
      have hjn : j < G.n := hG.bound i hi j hj
      by_cases hik : i = k
      · subst hik
        rw [hnew j]; simp only [hji, if_false]
        by_cases hja : rd x j = act
        · simp [hj, hja]
        · simp only [hja, and_false, if_false]
          rcases h.vals j hjn with h1 | h1 | h1
          · exact absurd h1 hja
          · -- j is C, so i (adjacent, act) would have to be F: contradiction
            have hij : i ∈ G.adj j := (hG.symm i j hi hjn).1 hj
            have := h.cnb j hjn h1 i hij (Ne.symm hji)
            rw [hxk] at this; exact absurd this.symm hFA
          · exact h1
      · simp only [hik, if_false] at hiC
        have hiC' : rd x i = C := by
          split at hiC
          · exact absurd hiC.symm hCF
          · exact hiC
        have hjF := h.cnb i hi hiC' j hj hji
        have hjk : j ≠ k := by
          intro e; subst e; rw [hxk] at hjF; exact hFA hjF.symm
        rw [hnew j]; simp only [hjk, if_false]
        have : rd x j ≠ act := by rw [hjF]; exact hFA
        simp [this, hjF]
    · intro j hj hjF
      rw [hnew j] at hjF
      by_cases hjk : j = k
      · subst hjk; simp at hjF; exact absurd hjF hCF
      · simp only [hjk, if_false] at hjF
        by_cases hc : j ∈ G.adj k ∧ rd x j = act
        · refine ⟨k, (hG.symm k j hk hj).1 hc.1, fun e => hjk e.symm, ?_⟩
          rw [hnew k]; simp
        · simp only [hc, if_false] at hjF
          obtain ⟨i, hi, hij, hiC⟩ := h.fnb j hj hjF
          refine ⟨i, hi, hij, ?_⟩
          have hik : i ≠ k := by intro e; subst e; rw [hxk] at hiC; exact hCA hiC.symm
          rw [hnew i]; simp only [hik, if_false]
          rw [hiC]; simp only [hCA, and_false, if_false]

end PyamgV

namespace PyamgV

theorem foldl_range_inv {σ : Type} (P : Nat → σ → Prop) (f : σ → Nat → σ) (n : Nat) (s : σ)
    (h0 : P 0 s) (hstep : ∀ k s, k < n → P k s → P (k+1) (f s k)) :
    P n ((List.range n).foldl f s) := by
  induction n with
  | zero => simpa using h0
  | succ m ih =>
    rw [List.range_succ, List.foldl_append]
    simp only [List.foldl_cons, List.foldl_nil]
    exact hstep m _ (by omega) (ih (fun k s hk hp => hstep k s (by omega) hp))

/-- Property-level statement: started from the all-active vector, the greedy serial kernel returns
an independent set (no two distinct adjacent C nodes) that is maximal (every node is C or is F with
a C neighbour). -/
theorem misSerial_correct (G : Graph) (hG : GraphOK G) (act C F : Int)
    (hCA : C ≠ act) (hFA : F ≠ act) (hCF : C ≠ F)
    (x0 : Array Int) (hsz : x0.size = G.n) (hact : ∀ i, i < G.n → rd x0 i = act) :
    let x := misSerial G act C F x0
    (∀ i j, i < G.n → j ∈ G.adj i → j ≠ i → rd x i = C → rd x j ≠ C) ∧
    (∀ i, i < G.n → rd x i = C ∨ (rd x i = F ∧ ∃ j ∈ G.adj i, j ≠ i ∧ rd x j = C)) := by
  intro x
  have hinv : Inv G act C F G.n x := by
    apply foldl_range_inv (fun k s => Inv G act C F k s)
    · refine ⟨hsz, fun i hi => Or.inl (hact i hi), fun i hi => by omega, ?_, ?_⟩
      · intro i hi h; rw [hact i hi] at h; exact absurd h.symm hCA
      · intro j hj h; rw [hact j hj] at h; exact absurd h.symm hFA
    · intro k s hk hp; exact misStep_inv G hG act C F hCA hFA hCF k hk s hp
  constructor
  · intro i j hi hj hji hiC hjC
    have := hinv.cnb i hi hiC j hj hji
    rw [hjC] at this; exact hCF this
  · intro i hi
    rcases hinv.vals i hi with h | h | h
    · exact absurd h (hinv.done i hi hi)
    · exact Or.inl h
    · exact Or.inr ⟨h, hinv.fnb i hi h⟩

#print axioms misSerial_correct
end PyamgV
