import PyamgV.Proofs.Herm

/-! PyamgV: small lemmas that discharge hypotheses of the cycle theorems:
 * Galerkin orthogonality from `R = Pᵀ` and `A_c = R A P`
 * damped Jacobi/Richardson (T3)
 * steepest-descent / minimal-residual exact line search -/
namespace PyamgV

variable {K : Type*} [Field K] [LinearOrder K] [IsStrictOrderedRing K]
variable {V : Type*} [AddCommGroup V] [Module K V]

/-- energy form `⟨A·,·⟩` built from a Euclidean form and a symmetric PSD operator -/
def EForm.ofOp (e : EForm K V) (A : V →ₗ[K] V) (hs : IsAdj e e A A) (hp : ∀ v, 0 ≤ e.a (A v) v) :
    EForm K V where
  a := e.a.comp A
  symm := by intro u v; simp only [LinearMap.comp_apply]; rw [hs u v, e.symm]
  nonneg := by intro v; simpa using hp v

/-- `WFH`'s Galerkin-orthogonality clause follows from `R` adjoint to `P` (per-level Euclidean
forms `e`, `ec`): if `w` solves the Galerkin coarse equation `R A P w = R A err`, then
`a(P w, P v) = a(err, P v)` for all `v`. -/
theorem galerkin_orth (e ec : EForm K V) (A P R : V →ₗ[K] V) (hs hp)
    (hadj : IsAdj e ec P R) (hnd : ∀ u, (∀ v, ec.a u v = 0) → u = 0)
    (err w : V) (hw : (R ∘ₗ A ∘ₗ P) w = R (A err)) (v : V) :
    (e.ofOp A hs hp).a (P w) (P v) = (e.ofOp A hs hp).a err (P v) := by
  show e.a (A (P w)) (P v) = e.a (A err) (P v)
  have h1 : e.a (A (P w)) (P v) = ec.a (R (A (P w))) v := by
    rw [e.symm, hadj v (A (P w)), ec.symm]
  have h2 : e.a (A err) (P v) = ec.a (R (A err)) v := by
    rw [e.symm, hadj v (A err), ec.symm]
  rw [h1, h2]
  have : R (A (P w)) = R (A err) := by simpa using hw
  rw [this]

/-- T3: damped Jacobi/Richardson-type iteration `x ← x + ω Dinv (b − A x)`.
If `Dinv` is symmetric PSD w.r.t. `e` and `ω·⟨A w, w⟩ ≤ 2·⟨D w, w⟩`-type bound holds in the form
`ω * a(Dinv r, Dinv r) ≤ 2 * e(Dinv r, r)` for all residuals `r`, the energy does not increase. -/
theorem jacobi_nonexp (e : EForm K V) (A Dinv : V →ₗ[K] V) (hs hp) (ω : K) (h0 : 0 ≤ ω)
    (hD : ∀ r, ω * (e.ofOp A hs hp).en (Dinv r) ≤ 2 * e.a (Dinv r) r) :
    NonExp (e.ofOp A hs hp) A (fun x b => x + ω • Dinv (b - A x)) := by
  intro x b xs hb
  set err := xs - x
  have hr : b - A x = A err := by rw [← hb]; simp [err]
  have : xs - (x + ω • Dinv (b - A x)) = err - ω • Dinv (A err) := by
    rw [hr]; show xs - (x + ω • Dinv (A err)) = (xs - x) - ω • Dinv (A err); abel
  rw [this]
  set w := Dinv (A err)
  -- en(err − ω w) = en err − 2ω a(err, w) + ω² en w,  a(err,w) = e(A err, w) = e(w, A err)
  have hexp : (e.ofOp A hs hp).en (err - ω • w) =
      (e.ofOp A hs hp).en err - 2 * ω * (e.ofOp A hs hp).a err w + ω * ω * (e.ofOp A hs hp).en w := by
    unfold EForm.en
    simp only [map_sub, map_smul, LinearMap.sub_apply, LinearMap.smul_apply, smul_eq_mul]
    rw [(e.ofOp A hs hp).symm w err]; ring
  have haw : (e.ofOp A hs hp).a err w = e.a w (A err) := by
    show e.a (A err) w = _; rw [e.symm]
  have := hD (A err)
  rw [hexp, haw]
  nlinarith [this, mul_nonneg h0 (sub_nonneg.2 this)]

/-- exact line search along `z`: the step `α = ⟨r,z⟩/⟨Az,z⟩` of steepest descent (z = M r)
minimises the energy of the error along `z`; in particular it does not increase it. -/
theorem line_search_nonexp (e : EForm K V) (A : V →ₗ[K] V) (hs hp) (xs x z : V) (α : K)
    (hα : α * e.a (A z) z = e.a (A (xs - x)) z) :
    (e.ofOp A hs hp).en (xs - (x + α • z)) ≤ (e.ofOp A hs hp).en (xs - x) := by
  have : xs - (x + α • z) = (xs - x) - α • z := by abel
  rw [this]
  apply EForm.en_sub_le
  show e.a (A ((xs - x) - α • z)) (α • z) = 0
  have hα' : e.a (A xs) z - e.a (A x) z = α * e.a (A z) z := by
    rw [hα]; simp only [map_sub, LinearMap.sub_apply]
  simp only [map_sub, map_smul, LinearMap.sub_apply, LinearMap.smul_apply, smul_eq_mul]
  rw [hα']; ring

#print axioms galerkin_orth
#print axioms jacobi_nonexp
#print axioms line_search_nonexp
end PyamgV
