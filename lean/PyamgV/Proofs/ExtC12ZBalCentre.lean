import PyamgV.Proofs.ExtC12ZBalFW

/-! PyamgV (C12, extension E56, part 1b): **`center_nodes` hands a state satisfying `Bal.Inv` back to the kernel**.

Setting: weights on a grid `h·ℕ` with `0 < tol`, `2·tol < h`, every weight `>= tol` (positive), symmetric sparsity
pattern, every node assigned.  If the state before `center_nodes` satisfies `Bal.Final` and `Bal.Inv` w.r.t. the
current centres (what `bellman_ford_balanced` returns: `Bal.kernel_spec`), then the state after `center_nodes` satisfies
`Bal.Inv` w.r.t. the (possibly moved) centres:

* every cluster is strongly connected inside itself (`cluster_conn`: the predecessor chains of `Final` lead from the
  centre to every member, the symmetric pattern leads back), hence all Floyd–Warshall distances of the cluster are
  finite (`C17R5.fwRun_connected`);
* `moveCentre_full`: the update loop writes `d[j] = D[i,j]`, `p[j] = P[i,j]` for exactly the members of the cluster and
  keeps the predecessor counts exact;
* `clusterStep_inv`: `Inv` w.r.t. the partially updated centre array is kept by the body of the cluster loop, together
  with "every predecessor lies in the cluster of its node" (`PIn`);
* `centerNodes_inv`: the whole kernel. -/
namespace PyamgV.C12ZB
open PyamgV.Bal PyamgV.BalLloyd
open PyamgV.BF (Walk)

/-- `v` is one of the centres `c[0..k-1]` -/
def isCen (k : Nat) (c : Array Nat) (v : Nat) : Prop := ∃ b, b < k ∧ rdN c b = v

/-- every non-centre has its predecessor in its own cluster -/
def PIn (n k : Nat) (c : Array Nat) (st : St) : Prop :=
  ∀ j, j < n → ¬ isCen k c j → ∃ i : Nat, i < n ∧ rdI st.p j = (i : Int) ∧ rdI st.m i = rdI st.m j

/-! ### `Inv` only looks at the labels of the centres -/

theorem inv_congr {n : Nat} {E : List Edge} {isC : Nat → Prop} {lab lab' : Nat → Int} {h : Rat} {st : St}
    (hI : Inv n E isC lab h st) (hl : ∀ c, isC c → lab c = lab' c) : Inv n E isC lab' h st := by
  refine ⟨hI.sd, hI.sm, hI.sp, hI.spc, hI.grid, ?_, ?_, hI.unas, hI.pred, hI.count⟩
  · intro j x hx
    obtain ⟨c, hc, hw, hm⟩ := hI.walk j x hx
    exact ⟨c, hc, hw, by rw [← hl c hc]; exact hm⟩
  · intro c hc
    obtain ⟨c1, c2, c3, c4⟩ := hI.centre c hc
    exact ⟨c1, c2, by rw [← hl c hc]; exact c3, c4⟩

theorem final_congr {n : Nat} {E : List Edge} {isC : Nat → Prop} {lab lab' : Nat → Int} {st : St}
    (hF : Final n E isC lab st) (hl : ∀ c, isC c → lab c = lab' c) : Final n E isC lab' st := by
  refine ⟨?_, hF.shortest, hF.unreachable, ?_, hF.chain, hF.untouched, hF.counts⟩
  · intro j x hx
    obtain ⟨c, hc, hw, hm⟩ := hF.realised j x hx
    exact ⟨c, hc, hw, by rw [← hl c hc]; exact hm⟩
  · intro c hc
    obtain ⟨c1, c2⟩ := hF.centres c hc
    exact ⟨c1, by rw [← hl c hc]; exact c2⟩

/-! ### stored entries -/

theorem mem_entries {A : Csr} {u v : Nat} {a : Rat} (he : (u, v, a) ∈ A.entries) :
    u < A.n ∧ ∃ jj ∈ A.jjs u, rdN A.aj jj = v ∧ rdQ A.ax jj = a := by
  unfold Csr.entries at he
  obtain ⟨i, hi, he⟩ := List.mem_flatMap.1 he
  obtain ⟨jj, hjj, hee⟩ := List.mem_map.1 he
  injection hee with e1 e2
  injection e2 with e2 e3
  subst e1
  exact ⟨List.mem_range.1 hi, jj, hjj, e2, e3⟩

theorem wf_cols {A : Csr} (hwf : A.wf = true) : ∀ i, i < A.n → ∀ jj ∈ A.jjs i, rdN A.aj jj < A.n := by
  intro i hi jj hjj
  unfold Csr.wf at hwf
  simp only [Bool.and_eq_true, decide_eq_true_eq, List.all_eq_true] at hwf
  exact (hwf.2 i (List.mem_range.2 hi) jj hjj).2

/-- symmetric sparsity pattern, on the stored entries -/
def SymE (A : Csr) : Prop := ∀ u v a, (u, v, a) ∈ A.entries → ∃ a', (v, u, a') ∈ A.entries

theorem cwalk_trans {A : Csr} {m : Array Int} {u v w : Nat} (h1 : C17R5.CWalk A m u v) (h2 : C17R5.CWalk A m v w) :
    C17R5.CWalk A m u w := by
  induction h1 with
  | refl _ => exact h2
  | cons hs hv hm _ ih => exact C17R5.CWalk.cons hs hv hm (ih h2)

/-- **every cluster is strongly connected inside itself** after a finished balanced Bellman–Ford pass (positive grid
weights, symmetric pattern): each assigned node is joined to a centre of its own cluster in both directions by stored
entries between nodes of the cluster -/
theorem to_centre {A : Csr} {isC : Nat → Prop} {lab : Nat → Int} {h tol : Rat}
    (H : Hyp A.n A.entries isC lab h tol) (hpos : ∀ e ∈ A.entries, 0 < e.2.2) (hsym : SymE A) {st : St}
    (hI : Inv A.n A.entries isC lab h st) (hF : Final A.n A.entries isC lab st) :
    ∀ j x, j < A.n → rdO st.d j = some x →
      ∃ c, isC c ∧ rdI st.m c = rdI st.m j ∧ C17R5.CWalk A st.m c j ∧ C17R5.CWalk A st.m j c := by
  have hh : 0 < h := by have := H.tol0; have := H.tolh; linarith
  suffices hmain : ∀ (kx : Nat) j x, j < A.n → rdO st.d j = some x → x = (kx : Rat) * h →
      ∃ c, isC c ∧ rdI st.m c = rdI st.m j ∧ C17R5.CWalk A st.m c j ∧ C17R5.CWalk A st.m j c by
    intro j x hj hx
    obtain ⟨kx, hkx⟩ := hI.grid j x hx
    exact hmain kx j x hj hx hkx
  intro kx
  induction kx using Nat.strong_induction_on with
  | _ kx ih =>
    intro j x hj hx hkx
    by_cases hc : isC j
    · exact ⟨j, hc, rfl, C17R5.CWalk.refl j, C17R5.CWalk.refl j⟩
    · obtain ⟨i, hi, hp, hmi, a, y, hmem, hdy, hxy⟩ := hF.chain j x hj hx hc
      obtain ⟨ky, hky⟩ := hI.grid i y hdy
      have ha : 0 < a := hpos _ hmem
      have hlt : ky < kx := by
        have h3 : (ky : Rat) * h < (kx : Rat) * h := by rw [← hky, ← hkx]; linarith
        have h4 := lt_of_mul_lt_mul_right h3 hh.le
        exact_mod_cast h4
      obtain ⟨c, hcc, hmc, w1, w2⟩ := ih ky hlt i y hi hdy hky
      obtain ⟨_, jj, hjj, hjv, _⟩ := mem_entries hmem
      obtain ⟨a', hmem'⟩ := hsym _ _ _ hmem
      obtain ⟨_, jj', hjj', hjv', _⟩ := mem_entries hmem'
      refine ⟨c, hcc, hmc.trans hmi, ?_, ?_⟩
      · exact cwalk_trans w1 (C17R5.CWalk.cons ⟨jj, hjj, hjv⟩ hj hmi.symm (C17R5.CWalk.refl j))
      · exact C17R5.CWalk.cons ⟨jj', hjj', hjv'⟩ hi hmi w2

/-! ### the update loop of `center_nodes` -/

theorem rdI_wr2 (pc : Array Int) (kp kn v : Nat) (hkp : kp < pc.size) (hkn : kn < pc.size) :
    rdI (wrI (wrI pc kp (rdI pc kp - 1)) kn (rdI (wrI pc kp (rdI pc kp - 1)) kn + 1)) v =
      rdI pc v - (if kp = v then 1 else 0) + (if kn = v then 1 else 0) := by
  rw [rdI_wrI, size_wrI]
  by_cases h1 : kn = v
  · rw [if_pos ⟨h1, hkn⟩, if_pos h1, rdI_wrI]
    by_cases h2 : kp = kn
    · rw [if_pos ⟨h2, hkp⟩, if_pos (h2.trans h1)]
      subst h2; subst h1; omega
    · rw [if_neg (fun hh => h2 hh.1), if_neg (fun hh => h2 (hh.trans h1.symm))]
      subst h1; omega
  · rw [if_neg (fun hh => h1 hh.1), if_neg h1, rdI_wrI]
    by_cases h2 : kp = v
    · rw [if_pos ⟨h2, hkp⟩, if_pos h2]
      subst h2; omega
    · rw [if_neg (fun hh => h2 hh.1), if_neg h2]; omega

structure MFull (n : Nat) (fw : FW) (gl : Nat → Nat) (N _i : Nat) (st : St) (T : Nat) (st1 : St) : Prop where
  em : st1.m = st.m
  es : st1.s = st.s
  sd : st1.d.size = n
  sp : st1.p.size = n
  spc : st1.pc.size = n
  same : ∀ v, (∀ t, t < T → gl t ≠ v) → rdO st1.d v = rdO st.d v ∧ rdI st1.p v = rdI st.p v
  wrote : ∀ t, t < T → rdO st1.d (gl t) = Dc N fw _i t ∧ rdI st1.p (gl t) = Pc N fw _i t
  count : ∀ v, v < n → rdI st1.pc v = cnt n st1.p v

/-- **the update loop**: `d[j] = D[i,j]`, `p[j] = P[i,j]` for the members, nothing else changes, the predecessor
counts stay exact -/
theorem moveCentre_full {n : Nat} {fw : FW} {glob : Nat → Option Nat} {gl : Nat → Nat} {N _i : Nat}
    (hgl : ∀ t, t < N → glob t = some (gl t) ∧ gl t < n)
    (hinj : ∀ t t', t < N → t' < N → gl t = gl t' → t = t')
    {st st' : St} (hsd : st.d.size = n) (hsp : st.p.size = n) (hspc : st.pc.size = n)
    (hcnt : ∀ v, v < n → rdI st.pc v = cnt n st.p v)
    (hf : moveCentre fw glob N _i st = some st') : MFull n fw gl N _i st N st' := by
  unfold moveCentre at hf
  refine foldlM_range_inv _ (fun T st1 => MFull n fw gl N _i st T st1) N st st'
    ⟨rfl, rfl, hsd, hsp, hspc, fun _ _ => ⟨rfl, rfl⟩, fun t ht => by omega, hcnt⟩ ?_ hf
  intro T b b' hT hb hst
  unfold moveStep at hst
  rw [(hgl T hT).1] at hst
  simp only at hst
  split at hst
  · rename_i hlt
    cases h1 : idx (rdI b.p (gl T)) b.pc.size with
    | none => rw [h1] at hst; cases hst
    | some kp =>
      rw [h1] at hst
      simp only at hst
      cases h2 : idx (rdI fw.P (_i * N + T)) (wrI b.pc kp (rdI b.pc kp - 1)).size with
      | none => rw [h2] at hst; cases hst
      | some kn =>
        rw [h2] at hst
        injection hst with hst
        subst hst
        obtain ⟨e1, l1⟩ := idx_some h1
        obtain ⟨e2, l2⟩ := idx_some h2
        rw [size_wrI] at l2
        have hjn : gl T < n := (hgl T hT).2
        refine ⟨hb.em, hb.es, by simp only [size_wrO]; exact hb.sd, by simp only [size_wrI]; exact hb.sp,
          by simp only [size_wrI]; exact hb.spc, ?_, ?_, ?_⟩
        · intro v hv
          have hne : gl T ≠ v := hv T (by omega)
          obtain ⟨s1, s2⟩ := hb.same v (fun t ht => hv t (by omega))
          constructor
          · show rdO (wrO b.d (gl T) _) v = _
            rw [rdO_wrO, if_neg (fun hh => hne hh.1)]; exact s1
          · show rdI (wrI b.p (gl T) _) v = _
            rw [rdI_wrI, if_neg (fun hh => hne hh.1)]; exact s2
        · intro t ht
          by_cases htT : t = T
          · subst htT
            constructor
            · show rdO (wrO b.d (gl t) _) (gl t) = _
              rw [rdO_wrO, if_pos ⟨rfl, hlt.1⟩]; rfl
            · show rdI (wrI b.p (gl t) _) (gl t) = _
              rw [rdI_wrI, if_pos ⟨rfl, hlt.2⟩]; rfl
          · have hne : gl T ≠ gl t := fun hh => htT (hinj t T (by omega) hT hh.symm)
            obtain ⟨w1, w2⟩ := hb.wrote t (by omega)
            constructor
            · show rdO (wrO b.d (gl T) _) (gl t) = _
              rw [rdO_wrO, if_neg (fun hh => hne hh.1)]; exact w1
            · show rdI (wrI b.p (gl T) _) (gl t) = _
              rw [rdI_wrI, if_neg (fun hh => hne hh.1)]; exact w2
        · intro v hv
          show rdI (wrI (wrI b.pc kp (rdI b.pc kp - 1)) kn (rdI (wrI b.pc kp (rdI b.pc kp - 1)) kn + 1)) v =
            cnt n (wrI b.p (gl T) (rdI fw.P (_i * N + T))) v
          rw [rdI_wr2 b.pc kp kn v l1 l2, cnt_wr n b.p (gl T) _ hjn (by rw [hb.sp]; exact hjn) v, hb.count v hv, e1, e2]
          have c1 : ((kp : Int) = (v : Int)) ↔ kp = v := by omega
          have c2 : ((kn : Int) = (v : Int)) ↔ kn = v := by omega
          simp only [c1, c2]
  · cases hst

/-! ### one cluster -/

theorem rdO_some_lt {a : Array (Option Rat)} {j : Nat} {x : Rat} (h : rdO a j = some x) : j < a.size := by
  by_contra hn
  simp [rdO, Array.getD_eq_getD_getElem?, Array.getElem?_eq_none (Nat.le_of_not_lt hn)] at h

theorem fwRun_some_le {tol : Rat} {A : Csr} {glob : Nat → Option Nat} {l : OArr} {m : Array Int} {a : Int}
    {N maxsize : Nat} {fw : FW} (hf : fwRun tol A glob l m a N maxsize = some fw) : N ≤ maxsize := by
  unfold fwRun at hf
  split at hf
  · rename_i hle
    by_contra hn
    have := Nat.mul_self_lt_mul_self (show maxsize < N by omega)
    omega
  · cases hf

/-- the bucket of cluster `a` in local indices -/
theorem loc_of_buckets {A : Csr} (hwf : A.wf = true) {k : Nat} {m0 s0 cptr : Array Int} {cc l : OArr}
    (hs0 : ∀ a, a < k → rdI s0 a = cnt A.n m0 a)
    (hB : Buckets A.n k m0 s0 cptr cc) (hL : LOK k s0 cptr cc l) {a : Nat} (ha : a < k) :
    ∃ gl : Nat → Nat, Loc A (globOf cptr cc a) l m0 (a : Int) (rdI s0 a).toNat gl ∧
    (∀ t t', t < (rdI s0 a).toNat → t' < (rdI s0 a).toNat → gl t = gl t' → t = t') ∧
    (∀ t, t < (rdI s0 a).toNat → ∀ g, globOf cptr cc a t = some g → rdU l g = some t) := by
  have hN : ∀ t : Nat, t < (rdI s0 a).toNat → (t : Int) < rdI s0 a := fun t ht => by omega
  refine ⟨fun t => (globOf cptr cc a t).getD 0, ⟨?_, ?_, wf_cols hwf⟩, ?_, ?_⟩
  · intro t ht
    obtain ⟨g, e1, gn, gm, _⟩ := hB a t ha (hN t ht)
    simp only [e1, Option.getD_some]
    exact ⟨trivial, gn, gm⟩
  · intro g hg hmg
    obtain ⟨t, ht, e1⟩ := C17R5.buckets_surj hs0 hB hg ha hmg
    refine ⟨t, by omega, hL a t ha ht g e1, by simp only [e1, Option.getD_some]⟩
  · intro t t' ht ht' he
    obtain ⟨g, e1, _, _, _⟩ := hB a t ha (hN t ht)
    obtain ⟨g', e1', _, _, _⟩ := hB a t' ha (hN t' ht')
    simp only [e1, e1', Option.getD_some] at he
    subst he
    exact (buckets_inj hB ha ha (hN t ht) (hN t' ht') e1 e1').2
  · intro t ht g hg
    exact hL a t ha (hN t ht) g hg

/-- **the body of the cluster loop keeps `Inv`** w.r.t. the partially updated centre array -/
theorem clusterStep_inv {tol h : Rat} (h0 : 0 < tol) (h1 : 2 * tol < h) {A : Csr} (hwf : A.wf = true)
    (hW : ∀ e ∈ A.entries, ∃ kk : Nat, e.2.2 = (kk : Rat) * h) (hpos : ∀ e ∈ A.entries, tol ≤ e.2.2)
    {maxsize k : Nat} {m0 s0 cptr : Array Int} {cc l : OArr}
    (hB : Buckets A.n k m0 s0 cptr cc) (hL : LOK k s0 cptr cc l)
    {acc acc' : St × Array Nat × Bool} {a : Nat} (ha : a < k)
    (hK : KInv A.n k acc.2.1 acc.1) (hm : acc.1.m = m0) (hs : acc.1.s = s0)
    (hconn : ∀ u v, u < A.n → v < A.n → rdI m0 u = (a : Int) → rdI m0 v = (a : Int) → C17R5.CWalk A m0 u v)
    (hI : Inv A.n A.entries (isCen k acc.2.1) (fun v => rdI m0 v) h acc.1)
    (hP : PIn A.n k acc.2.1 acc.1)
    (hf : clusterStep tol A maxsize cptr cc l acc a = some acc') :
    Inv A.n A.entries (isCen k acc'.2.1) (fun v => rdI m0 v) h acc'.1 ∧ PIn A.n k acc'.2.1 acc'.1 := by
  have hW0 : ∀ e ∈ A.entries, 0 ≤ e.2.2 := fun e he => le_trans (le_of_lt h0) (hpos e he)
  obtain ⟨hK', hm', _⟩ := clusterStep_spec h0 hW0 hB hL ha hK hm hs hf
  unfold clusterStep at hf
  simp only at hf
  cases e1 : fwRun tol A (globOf cptr cc a) l acc.1.m (Int.ofNat a) (rdI acc.1.s a).toNat maxsize with
  | none => rw [e1] at hf; cases hf
  | some fw =>
    rw [e1] at hf
    simp only at hf
    cases e2 : select tol (qOf fw.D (rdI acc.1.s a).toNat) (globOf cptr cc a) l (rdI acc.1.s a).toNat
        (rdN acc.2.1 a) with
    | none => rw [e2] at hf; cases hf
    | some i =>
      rw [e2] at hf
      simp only at hf
      split at hf
      · injection hf with hf
        subst hf
        exact ⟨hI, hP⟩
      · rename_i hne
        cases e3 : rdU l i with
        | none => rw [e3] at hf; cases hf
        | some _i =>
          rw [e3] at hf
          simp only at hf
          cases e4 : moveCentre fw (globOf cptr cc a) (rdI acc.1.s a).toNat _i acc.1 with
          | none => rw [e4] at hf; cases hf
          | some st' =>
            rw [e4] at hf
            injection hf with hf
            subst hf
            simp only at hK' hm' ⊢
            rw [hs] at e1 e2 e4
            rw [hm] at e1
            have hs0 : ∀ b, b < k → rdI s0 b = cnt A.n m0 b := by
              intro b hb; rw [← hs, ← hm]; exact hK.cnt b hb
            obtain ⟨gl, hLoc, hinj, hloc⟩ := loc_of_buckets hwf hs0 hB hL ha
            generalize hNdef : (rdI s0 a).toNat = N at e1 e2 e4 hLoc hinj hloc
            have hgrid : ∀ e ∈ A.entries, OnGrid h e.2.2 := hW
            obtain ⟨hFB, hPr⟩ := fwRun_inv (h := h) h0 (by linarith) hLoc hgrid e1
            -- all distances of the cluster are finite
            have hfin : ∀ t u, t < N → u < N → ∃ x, Dc N fw t u = some x := by
              have hLocal : C17R5.Local A (globOf cptr cc a) l m0 (Int.ofNat a) N :=
                ⟨fun t ht => ⟨gl t, (hLoc.slot t ht).1, (hLoc.slot t ht).2.1, (hLoc.slot t ht).2.2⟩,
                 fun g hg hmg => by
                   obtain ⟨t, ht, hlt, hgt⟩ := hLoc.back g hg hmg
                   exact ⟨t, ht, hlt, by rw [(hLoc.slot t ht).1, hgt]⟩,
                 hLoc.cols⟩
              obtain ⟨fw', e1', _, hall⟩ := C17R5.fwRun_connected (tol := tol) hLocal (fwRun_some_le e1) hloc hconn
              rw [e1] at e1'
              injection e1' with e1'
              subst e1'
              exact fun t u ht hu => hall t u ht hu
            -- the new centre
            obtain ⟨t0, ht0, hg0⟩ : ∃ t, t < N ∧ globOf cptr cc a t = some i := by
              rcases select_spec e2 with hh | hh
              · exact absurd hh hne
              · exact hh
            have hgl0 : gl t0 = i := by
              have := (hLoc.slot t0 ht0).1
              rw [hg0] at this
              injection this with this
              exact this.symm
            have h_i : _i = t0 := by
              have := hloc t0 ht0 i hg0
              rw [e3] at this
              injection this
            subst h_i
            have hin : i < A.n := by rw [← hgl0]; exact (hLoc.slot _i ht0).2.1
            have hmi : rdI m0 i = (a : Int) := by rw [← hgl0]; exact (hLoc.slot _i ht0).2.2
            have hM := moveCentre_full (n := A.n) (gl := gl) (fun t ht => ⟨(hLoc.slot t ht).1, (hLoc.slot t ht).2.1⟩)
              hinj hK.sd hK.sp hK.spc hI.count e4
            -- membership
            have hmem : ∀ j, j < A.n → rdI m0 j = (a : Int) → ∃ t, t < N ∧ gl t = j := by
              intro j hj hmj
              obtain ⟨t, ht, _, hgt⟩ := hLoc.back j hj hmj
              exact ⟨t, ht, hgt⟩
            have hnot : ∀ j, rdI m0 j ≠ (a : Int) → ∀ t, t < N → gl t ≠ j := by
              intro j hmj t ht he
              apply hmj
              rw [← he]; exact (hLoc.slot t ht).2.2
            -- the centre arrays
            have hcsz : a < acc.2.1.size := by rw [hK.sc]; exact ha
            have hc' : ∀ b, rdN (acc.2.1.setIfInBounds a i) b = if a = b then i else rdN acc.2.1 b := by
              intro b
              rw [rdN_set]
              by_cases hab : a = b
              · rw [if_pos ⟨hab, hcsz⟩, if_pos hab]
              · rw [if_neg (fun hh => hab hh.1), if_neg hab]
            have hcen : ∀ b, b < k → rdN acc.2.1 b < A.n ∧ rdI m0 (rdN acc.2.1 b) = (b : Int) := by
              intro b hb
              obtain ⟨c1, _, c3⟩ := hK.cen b hb
              rw [hm] at c3
              exact ⟨c1, c3⟩
            have hold_of_new : ∀ v, rdI m0 v ≠ (a : Int) → isCen k (acc.2.1.setIfInBounds a i) v → isCen k acc.2.1 v := by
              rintro v hv ⟨b, hb, hbv⟩
              rw [hc'] at hbv
              by_cases hab : a = b
              · rw [if_pos hab] at hbv
                exact absurd (hbv ▸ hmi) hv
              · rw [if_neg hab] at hbv
                exact ⟨b, hb, hbv⟩
            have hnew_of_old : ∀ v, rdI m0 v ≠ (a : Int) → isCen k acc.2.1 v → isCen k (acc.2.1.setIfInBounds a i) v := by
              rintro v hv ⟨b, hb, hbv⟩
              refine ⟨b, hb, ?_⟩
              rw [hc']
              by_cases hab : a = b
              · exfalso
                apply hv
                rw [← hbv, ← hab]
                exact (hcen a ha).2
              · rw [if_neg hab]; exact hbv
            have hnewc : isCen k (acc.2.1.setIfInBounds a i) i := ⟨a, ha, by rw [hc', if_pos rfl]⟩
            have hdsz : st'.d.size = A.n := hM.sd
            constructor
            · refine ⟨hM.sd, by rw [hM.em]; exact hK.sm, hM.sp, hM.spc, ?_, ?_, ?_, ?_, ?_, hM.count⟩
              · -- grid
                intro j x hx
                have hj : j < A.n := by rw [← hdsz]; exact rdO_some_lt hx
                by_cases hmj : rdI m0 j = (a : Int)
                · obtain ⟨t, ht, rfl⟩ := hmem j hj hmj
                  rw [(hM.wrote t ht).1] at hx
                  exact (hFB.snd _i t ht0 ht x hx).2
                · rw [(hM.same j (hnot j hmj)).1] at hx
                  exact hI.grid j x hx
              · -- walk
                intro j x hx
                have hj : j < A.n := by rw [← hdsz]; exact rdO_some_lt hx
                by_cases hmj : rdI m0 j = (a : Int)
                · obtain ⟨t, ht, rfl⟩ := hmem j hj hmj
                  rw [(hM.wrote t ht).1] at hx
                  refine ⟨i, hnewc, ?_, ?_⟩
                  · rw [← hgl0]; exact (hFB.snd _i t ht0 ht x hx).1
                  · show rdI st'.m (gl t) = rdI m0 i
                    rw [hm', hmj, hmi]
                · rw [(hM.same j (hnot j hmj)).1] at hx
                  obtain ⟨c0, hc0, hw, hmc⟩ := hI.walk j x hx
                  have hmc' : rdI m0 j = rdI m0 c0 := by
                    have := hmc
                    rw [hm] at this
                    exact this
                  refine ⟨c0, hnew_of_old c0 ?_ hc0, hw, by rw [hm']; exact hmc'⟩
                  rw [← hmc']; exact hmj
              · -- centre
                intro v hv
                by_cases hmv : rdI m0 v = (a : Int)
                · -- then `v` is the new centre
                  have hvi : v = i := by
                    obtain ⟨b, hb, hbv⟩ := hv
                    rw [hc'] at hbv
                    by_cases hab : a = b
                    · rw [if_pos hab] at hbv; exact hbv.symm
                    · rw [if_neg hab] at hbv
                      exfalso
                      have := (hcen b hb).2
                      rw [hbv, hmv] at this
                      exact hab (by exact_mod_cast this)
                  subst hvi
                  refine ⟨hin, ?_, by rw [hm'], Or.inr ?_⟩
                  · rw [← hgl0, (hM.wrote _i ht0).1]; exact (hFB.diag _i ht0).1
                  · rw [← hgl0, (hM.wrote _i ht0).2, (hFB.diag _i ht0).2]
                · obtain ⟨c1, c2, _, c4⟩ := hI.centre v (hold_of_new v hmv hv)
                  obtain ⟨s1, s2⟩ := hM.same v (hnot v hmv)
                  exact ⟨c1, by rw [s1]; exact c2, by rw [hm'], by rw [s2]; exact c4⟩
              · -- unassigned
                intro j hj hx
                by_cases hmj : rdI m0 j = (a : Int)
                · obtain ⟨t, ht, rfl⟩ := hmem j hj hmj
                  rw [(hM.wrote t ht).1] at hx
                  obtain ⟨x, hx'⟩ := hfin _i t ht0 ht
                  rw [hx'] at hx
                  cases hx
                · obtain ⟨s1, s2⟩ := hM.same j (hnot j hmj)
                  rw [s1] at hx
                  obtain ⟨u1, u2⟩ := hI.unas j hj hx
                  exact ⟨by rw [hm', ← hm]; exact u1, by rw [s2]; exact u2⟩
              · -- predecessors
                intro j x hj hx hnc
                by_cases hmj : rdI m0 j = (a : Int)
                · obtain ⟨t, ht, rfl⟩ := hmem j hj hmj
                  rw [(hM.wrote t ht).1] at hx
                  have htne : _i ≠ t := by
                    intro he
                    apply hnc
                    rw [← he, hgl0]; exact hnewc
                  obtain ⟨q, hq, hp, a0, y, he, hy, hle⟩ := hPr _i t ht0 ht htne x hx
                  refine ⟨gl q, (hLoc.slot q hq).2.1, by rw [(hM.wrote t ht).2]; exact hp, a0, y, he, ?_, hle, ?_⟩
                  · rw [(hM.wrote q hq).1]; exact hy
                  · intro _
                    rw [hm', (hLoc.slot t ht).2.2, (hLoc.slot q hq).2.2]
                · obtain ⟨s1, s2⟩ := hM.same j (hnot j hmj)
                  rw [s1] at hx
                  have hnc0 : ¬ isCen k acc.2.1 j := fun hh => hnc (hnew_of_old j hmj hh)
                  obtain ⟨i0, hi0, hp0, a0, y, he, hy, hle, htight⟩ := hI.pred j x hj hx hnc0
                  obtain ⟨i1, _, hp1, hmi1⟩ := hP j hj hnc0
                  have hi01 : i0 = i1 := by rw [hp0] at hp1; exact_mod_cast hp1
                  subst hi01
                  have hmi0 : rdI m0 i0 ≠ (a : Int) := by rw [← hm, hmi1, hm]; exact hmj
                  refine ⟨i0, hi0, by rw [s2]; exact hp0, a0, y, he, ?_, hle, ?_⟩
                  · rw [(hM.same i0 (hnot i0 hmi0)).1]; exact hy
                  · intro ht
                    rw [hm', ← hm]; exact htight ht
            · -- predecessors stay in their clusters
              intro j hj hnc
              by_cases hmj : rdI m0 j = (a : Int)
              · obtain ⟨t, ht, rfl⟩ := hmem j hj hmj
                have htne : _i ≠ t := by
                  intro he
                  apply hnc
                  rw [← he, hgl0]; exact hnewc
                obtain ⟨x, hx⟩ := hfin _i t ht0 ht
                obtain ⟨q, hq, hp, _⟩ := hPr _i t ht0 ht htne x hx
                refine ⟨gl q, (hLoc.slot q hq).2.1, by rw [(hM.wrote t ht).2]; exact hp, ?_⟩
                rw [hm', (hLoc.slot t ht).2.2, (hLoc.slot q hq).2.2]
              · obtain ⟨_, s2⟩ := hM.same j (hnot j hmj)
                have hnc0 : ¬ isCen k acc.2.1 j := fun hh => hnc (hnew_of_old j hmj hh)
                obtain ⟨i1, hi1, hp1, hmi1⟩ := hP j hj hnc0
                exact ⟨i1, hi1, by rw [s2]; exact hp1, by rw [hm', ← hm]; exact hmi1⟩

/-! ### the whole kernel -/

/-- **`center_nodes` preserves the invariant of balanced Bellman–Ford** (grid weights `>= tol`, `2·tol < h`, symmetric
pattern, every node assigned): from a state satisfying `Final` and `Inv` w.r.t. the centres `x.c` (a finished
`bellman_ford_balanced` pass) it produces a state satisfying `Inv` w.r.t. the new centres `y.c` (label of a centre =
its cluster id); cluster ids are untouched and the bookkeeping invariant `KInv` is kept -/
theorem centerNodes_inv {tol h : Rat} (h0 : 0 < tol) (h1 : 2 * tol < h) {A : Csr} (hwf : A.wf = true)
    (hW : ∀ e ∈ A.entries, ∃ kk : Nat, e.2.2 = (kk : Rat) * h) (hpos : ∀ e ∈ A.entries, tol ≤ e.2.2)
    (hsym : SymE A) {maxsize k : Nat} {x y : LSt} {ch : Bool}
    (hK : KInv A.n k x.c x.st) (hcc : x.cc.size = A.n) (hAs : ∀ j, j < A.n → 0 ≤ rdI x.st.m j)
    {lab : Nat → Int} (hlab : ∀ b, b < k → lab (rdN x.c b) = (b : Int))
    (hI : Inv A.n A.entries (isCen k x.c) lab h x.st) (hF : Final A.n A.entries (isCen k x.c) lab x.st)
    (hf : centerNodes tol A maxsize x = some (y, ch)) :
    Inv A.n A.entries (isCen k y.c) (fun v => rdI y.st.m v) h y.st ∧ y.st.m = x.st.m ∧
      KInv A.n k y.c y.st ∧ y.cc.size = A.n := by
  have hW0 : ∀ e ∈ A.entries, 0 ≤ e.2.2 := fun e he => le_trans (le_of_lt h0) (hpos e he)
  obtain ⟨hKy, hmy, hccy⟩ := centerNodes_spec h0 hW0 hK hcc hf
  refine ⟨?_, hmy, hKy, hccy⟩
  rw [hmy]
  -- labels: the cluster id of the centre
  have hl : ∀ c, isCen k x.c c → lab c = rdI x.st.m c := by
    rintro c ⟨b, hb, rfl⟩
    rw [hlab b hb, (hK.cen b hb).2.2]
  have hI0 : Inv A.n A.entries (isCen k x.c) (fun v => rdI x.st.m v) h x.st := inv_congr hI hl
  have hF0 : Final A.n A.entries (isCen k x.c) (fun v => rdI x.st.m v) x.st := final_congr hF hl
  have H : Hyp A.n A.entries (isCen k x.c) (fun v => rdI x.st.m v) h tol :=
    ⟨h0, h1, entries_bound A hwf, hW, by
      rintro c ⟨b, hb, rfl⟩
      show 0 ≤ rdI x.st.m (rdN x.c b)
      rw [(hK.cen b hb).2.2]; omega⟩
  have hfinite : ∀ j, j < A.n → ∃ xx, rdO x.st.d j = some xx := by
    intro j hj
    cases hd : rdO x.st.d j with
    | some xx => exact ⟨xx, rfl⟩
    | none => have := (hI.unas j hj hd).1; have := hAs j hj; omega
  -- every cluster is strongly connected
  have hconn : ∀ a, a < k → ∀ u v, u < A.n → v < A.n → rdI x.st.m u = (a : Int) → rdI x.st.m v = (a : Int) →
      C17R5.CWalk A x.st.m u v := by
    intro a ha u v hu hv hmu hmv
    obtain ⟨xu, hxu⟩ := hfinite u hu
    obtain ⟨xv, hxv⟩ := hfinite v hv
    obtain ⟨cu, ⟨bu, hbu, rfl⟩, hmcu, _, wu⟩ := to_centre H (fun e he => lt_of_lt_of_le h0 (hpos e he)) hsym hI0 hF0 u xu hu hxu
    obtain ⟨cv, ⟨bv, hbv, rfl⟩, hmcv, wv, _⟩ := to_centre H (fun e he => lt_of_lt_of_le h0 (hpos e he)) hsym hI0 hF0 v xv hv hxv
    rw [(hK.cen bu hbu).2.2, hmu] at hmcu
    rw [(hK.cen bv hbv).2.2, hmv] at hmcv
    have : bu = bv := by omega
    subst this
    exact cwalk_trans wu wv
  have hP0 : PIn A.n k x.c x.st := by
    intro j hj hnc
    obtain ⟨xx, hxx⟩ := hfinite j hj
    obtain ⟨i, hi, hp, hmi, _⟩ := hF.chain j xx hj hxx hnc
    exact ⟨i, hi, hp, hmi⟩
  unfold centerNodes at hf
  split at hf
  · simp only at hf
    cases e1 : fill A.n x.st.m (prefixSums x.st.s) x.cc with
    | none => rw [e1] at hf; cases hf
    | some f =>
      rw [e1] at hf
      simp only at hf
      cases e2 : setL (prefixSums x.st.s) x.st.s f.2 x.l with
      | none => rw [e2] at hf; cases hf
      | some l =>
        rw [e2] at hf
        simp only at hf
        cases e3 : (List.range x.c.size).foldlM
            (clusterStep tol A maxsize (prefixSums x.st.s) f.2 l) (x.st, x.c, false) with
        | none => rw [e3] at hf; cases hf
        | some r =>
          rw [e3] at hf
          injection hf with hf
          injection hf with hf1 hf2
          subst hf1
          simp only
          obtain ⟨hB, _⟩ := fill_spec hK.ss hK.cnt hcc e1
          obtain ⟨hL, _⟩ := setL_spec hK.ss hB e2
          rw [hK.sc] at e3
          have hfold := foldlM_range_inv _
            (fun _ (acc : St × Array Nat × Bool) => KInv A.n k acc.2.1 acc.1 ∧ acc.1.m = x.st.m ∧ acc.1.s = x.st.s ∧
              Inv A.n A.entries (isCen k acc.2.1) (fun v => rdI x.st.m v) h acc.1 ∧ PIn A.n k acc.2.1 acc.1)
            k (x.st, x.c, false) r ⟨hK, rfl, rfl, hI0, hP0⟩
            (fun a b b' ha hb hst => by
              obtain ⟨b1, b2, b3, b4, b5⟩ := hb
              obtain ⟨c1, c2, c3⟩ := clusterStep_spec h0 hW0 hB hL ha b1 b2 b3 hst
              obtain ⟨c4, c5⟩ := clusterStep_inv h0 h1 hwf hW hpos hB hL ha b1 b2 b3 (hconn a ha) b4 b5 hst
              exact ⟨c1, c2, c3, c4, c5⟩) e3
          exact hfold.2.2.2.1
  · cases hf

end PyamgV.C12ZB
