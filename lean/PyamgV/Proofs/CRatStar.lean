import PyamgV.Proofs.ExtComplexGs
import Mathlib.Algebra.Star.Basic
import Mathlib.Tactic.Ring

/-! `StarRing CRat` with `star = CRat.conj`, shared by the C05 and C16 complex developments. -/
namespace PyamgV.CRat

theorem conj_re (a : CRat) : (conj a).re = a.re := rfl
theorem conj_im (a : CRat) : (conj a).im = -a.im := rfl

instance : StarRing CRat where
  star := conj
  star_involutive a := by apply ext' <;> simp [conj_re, conj_im]
  star_mul a b := by apply ext' <;> simp [conj_re, conj_im] <;> ring
  star_add a b := by apply ext' <;> simp [conj_re, conj_im] <;> ring

theorem star_eq_conj : (star : CRat → CRat) = conj := rfl
@[simp] theorem star_re (a : CRat) : (star a).re = a.re := rfl
@[simp] theorem star_im (a : CRat) : (star a).im = -a.im := rfl

end PyamgV.CRat
