import PyamgV.Proofs.LinIter

/-! PyamgV: symmetric smoothing ⇒ symmetric (Hermitian) preconditioner for V and W cycles (C05) -/
namespace PyamgV

variable {K : Type*} [Field K] [LinearOrder K] [IsStrictOrderedRing K]
variable {V : Type*} [AddCommGroup V] [Module K V]

/-- `N` is the adjoint of `M` between the (Euclidean) forms `e₁` (codomain of M) and `e₂`. -/
def IsAdj (e₁ e₂ : EForm K V) (M N : V →ₗ[K] V) : Prop := ∀ u v, e₁.a (M u) v = e₂.a u (N v)

theorem IsAdj.add {e₁ e₂ : EForm K V} {M N M' N' : V →ₗ[K] V}
    (h : IsAdj e₁ e₂ M N) (h' : IsAdj e₁ e₂ M' N') : IsAdj e₁ e₂ (M + M') (N + N') := by
  intro u v; simp [h u v, h' u v]

theorem IsAdj.sub {e₁ e₂ : EForm K V} {M N M' N' : V →ₗ[K] V}
    (h : IsAdj e₁ e₂ M N) (h' : IsAdj e₁ e₂ M' N') : IsAdj e₁ e₂ (M - M') (N - N') := by
  intro u v; simp [h u v, h' u v]

theorem IsAdj.comp {e₁ e₂ e₃ : EForm K V} {M N M' N' : V →ₗ[K] V}
    (h : IsAdj e₁ e₂ M N) (h' : IsAdj e₂ e₃ M' N') : IsAdj e₁ e₃ (M ∘ₗ M') (N' ∘ₗ N) := by
  intro u v; simp [h (M' u) v, h' u (N v)]

theorem IsAdj.flip {e₁ e₂ : EForm K V} {M N : V →ₗ[K] V} (h : IsAdj e₁ e₂ M N) :
    IsAdj e₂ e₁ N M := by
  intro u v; rw [e₂.symm, ← h v u, e₁.symm]

/-- "first M₁ then M₂" has adjoint "first M₂ᵀ then M₁ᵀ" -/
theorem IsAdj.compM {e : EForm K V} {A M₁ M₂ N₁ N₂ : V →ₗ[K] V}
    (hA : IsAdj e e A A) (h₁ : IsAdj e e M₁ N₁) (h₂ : IsAdj e e M₂ N₂) :
    IsAdj e e (compM A M₁ M₂) (compM A N₂ N₁) := by
  unfold PyamgV.compM
  have := ((h₁.add h₂).sub ((h₂.comp hA).comp h₁))
  intro u v
  have := this u v
  simp only [LinearMap.add_apply, LinearMap.sub_apply, LinearMap.comp_apply, map_add, map_sub] at this ⊢
  rw [this]; abel_nf

/-- per-level Euclidean forms: `es.head` belongs to the finest level -/
def WFS (S : V →ₗ[K] V) : (e : EForm K V) → List (EForm K V) → List (LinLevel K V) → Prop
  | e, _, [] => IsAdj e e S S
  | e, ec :: es, L :: rest =>
      IsAdj e e L.A L.A ∧ IsAdj e e L.Qpre L.Qpost ∧ IsAdj e ec L.P L.R ∧ WFS S ec es rest
  | _, [], _ :: _ => False

theorem Mop_sym (S : V →ₗ[K] V) :
    ∀ (Ls : List (LinLevel K V)) (e : EForm K V) (es : List (EForm K V)),
      WFS S e es Ls → IsAdj e e (Mop S .V Ls) (Mop S .V Ls) ∧ IsAdj e e (Mop S .W Ls) (Mop S .W Ls) := by
  intro Ls
  induction Ls with
  | nil =>
    intro e es h
    have h' : IsAdj e e S S := by cases es <;> simpa [WFS] using h
    exact ⟨by simpa [Mop] using h', by simpa [Mop] using h'⟩
  | cons L rest ih =>
    intro e es h
    cases es with
    | nil => exact absurd h (by simp [WFS])
    | cons ec es =>
      obtain ⟨hA, hQ, hP, hrest⟩ := h
      have hAc : IsAdj ec ec (L.R ∘ₗ L.A ∘ₗ L.P) (L.R ∘ₗ L.A ∘ₗ L.P) := by
        have := (hP.flip.comp hA).comp hP
        simpa [LinearMap.comp_assoc] using this
      -- whatever symmetric coarse operator is used, the two-grid operator is symmetric
      have two : ∀ Mc : V →ₗ[K] V, IsAdj ec ec Mc Mc →
          IsAdj e e (compM L.A (compM L.A L.Qpre (L.P ∘ₗ Mc ∘ₗ L.R)) L.Qpost)
                    (compM L.A (compM L.A L.Qpre (L.P ∘ₗ Mc ∘ₗ L.R)) L.Qpost) := by
        intro Mc hMc
        have hC : IsAdj e e (L.P ∘ₗ Mc ∘ₗ L.R) (L.P ∘ₗ Mc ∘ₗ L.R) := by
          have := (hP.comp hMc).comp hP.flip
          simpa [LinearMap.comp_assoc] using this
        have h1 := IsAdj.compM hA (IsAdj.compM hA hQ hC) hQ.flip
        -- adjoint computed: compM A Qpre (compM A C Qpost); equal to the original by algebra
        intro u v
        rw [h1 u v]
        congr 1
        simp only [PyamgV.compM, LinearMap.add_apply, LinearMap.sub_apply, LinearMap.comp_apply,
          map_add, map_sub]
        abel
      obtain ⟨ihV, ihW⟩ := ih ec es hrest
      cases rest with
      | nil =>
        have hS : IsAdj ec ec S S := by simpa [WFS] using hrest
        exact ⟨by simpa [Mop] using two S hS, by simpa [Mop] using two S hS⟩
      | cons L' rest' =>
        refine ⟨by simpa [Mop] using two _ ihV, ?_⟩
        have : IsAdj ec ec (compM (L.R ∘ₗ L.A ∘ₗ L.P) (Mop S .W (L' :: rest')) (Mop S .W (L' :: rest')))
            (compM (L.R ∘ₗ L.A ∘ₗ L.P) (Mop S .W (L' :: rest')) (Mop S .W (L' :: rest'))) :=
          IsAdj.compM hAc ihW ihW
        simpa [Mop] using two _ this

#print axioms Mop_sym
end PyamgV
