import PyamgV.Proofs.C20PoissonDom

/-! PyamgV (C20): the matrix denoted by the output of `stencil_grid`, entry by entry: entry `(p, q)` is
the sum of the stencil values whose offset carries grid point `p` to grid point `q` (duplicate
diagonals add; nothing else contributes). -/
namespace PyamgV.C20
open PyamgV.Stencil

theorem sum_filterMap_unique (P : Triple → Prop) [DecidablePred P] (j0 : Nat) (v : Rat) (F : Nat → Option Triple)
    (hF : ∀ j t, F j = some t → t.2.2 = v ∧ (P t → j = j0)) :
    ∀ l : List Nat, l.Nodup → (∃ t ∈ l.filterMap F, P t) →
      ((l.filterMap F).map fun t => if P t then t.2.2 else 0).sum = v := by
  intro l
  induction l with
  | nil => intro _ h; simp at h
  | cons a l ih =>
    intro hnd hex
    have hnd' := (List.nodup_cons.1 hnd)
    cases hFa : F a with
    | none =>
      rw [List.filterMap_cons_none hFa] at hex ⊢
      exact ih hnd'.2 hex
    | some t =>
      rw [List.filterMap_cons_some hFa] at hex ⊢
      by_cases htp : P t
      · have ha : a = j0 := (hF a t hFa).2 htp
        have hrest : ((l.filterMap F).map fun t => if P t then t.2.2 else 0).sum = 0 := by
          apply sum_map_eq_zero
          intro t' ht'
          obtain ⟨j, hj, hFj⟩ := List.mem_filterMap.1 ht'
          rw [if_neg]
          intro hp'
          have : j = j0 := (hF j t' hFj).2 hp'
          exact hnd'.1 (by rw [ha, ← this]; exact hj)
        simp only [List.map_cons, List.sum_cons, htp, if_true, hrest, (hF a t hFa).1]
        simp
      · have hex' : ∃ t ∈ l.filterMap F, P t := by
          obtain ⟨t', ht', hp'⟩ := hex
          simp only [List.mem_cons] at ht'
          rcases ht' with rfl | ht'
          · exact absurd hp' htp
          · exact ⟨t', ht', hp'⟩
        have := ih hnd'.2 hex'
        simp only [List.map_cons, List.sum_cons, htp, if_false, this]
        simp

/-- one stencil entry contributes its value to entry `(p, q)` iff it generates the triple `(p, q, v)` -/
theorem entry_contrib (grid : List Nat) (off : List Int) (v : Rat) (p q : Nat) :
    entry (contrib grid off v) p q = if (p, q, v) ∈ contrib grid off v then v else 0 := by
  have hval : ∀ t ∈ contrib grid off v, t.2.2 = v := by
    intro t ht
    unfold contrib at ht
    simp only at ht
    split at ht
    · simp at ht
    · simp only [List.mem_filterMap, List.mem_range] at ht
      obtain ⟨j, _, hjt⟩ := ht
      split at hjt
      · simp at hjt
      · split at hjt
        · simp only [Option.some.injEq] at hjt; subst hjt; rfl
        · simp at hjt
  split
  · rename_i hmem
    have hex : ∃ t ∈ contrib grid off v, t.1 = p ∧ t.2.1 = q := ⟨(p, q, v), hmem, rfl, rfl⟩
    unfold entry
    unfold contrib at hex ⊢
    simp only at hex ⊢
    split at hex
    · simp at hex
    · rename_i hd
      rw [if_neg hd]
      apply sum_filterMap_unique (fun t => t.1 = p ∧ t.2.1 = q) q v _ _ _ List.nodup_range hex
      intro j t hjt
      split at hjt
      · simp at hjt
      · split at hjt
        · simp only [Option.some.injEq] at hjt
          subst hjt
          exact ⟨rfl, fun h => h.2⟩
        · simp at hjt
  · rename_i hmem
    unfold entry
    apply sum_map_eq_zero
    intro t ht
    rw [if_neg]
    rintro ⟨h1, h2⟩
    apply hmem
    have h3 := hval t ht
    have : t = (p, q, v) := by
      rcases t with ⟨a, b, c⟩
      simp only at h1 h2 h3
      rw [h1, h2, h3]
    rw [← this]; exact ht

open Classical in
/-- **the matrix of `stencil_grid`, entry by entry**: entry `(p, q)` is the sum of the stencil values whose
offset carries grid point `p` to grid point `q` (both inside the grid, row-major numbering) -/
theorem stencilGrid_entry (grid : List Nat) (sten : List (List Int × Rat))
    (hlen : ∀ ov ∈ sten, ov.1.length = grid.length) (p q : Nat) :
    entry (stencilGrid grid sten) p q =
      (sten.map fun ov => if q < prod grid ∧ p < prod grid ∧ Shift grid ov.1 (coordsR grid p) (coordsR grid q)
        then ov.2 else 0).sum := by
  rw [stencilGrid_eq]
  unfold entry
  rw [sum_flatMap']
  congr 1
  apply List.map_congr_left
  intro ov hov
  have h := entry_contrib grid ov.1 ov.2 p q
  unfold entry at h
  rw [h]
  have hm := contrib_mem grid ov.1 ov.2 (hlen ov hov) p q ov.2
  by_cases hc : (p, q, ov.2) ∈ contrib grid ov.1 ov.2
  · rw [if_pos hc, if_pos (hm.1 hc).2]
  · rw [if_neg hc, if_neg (fun h' => hc (hm.2 ⟨rfl, h'⟩))]

end PyamgV.C20
