import PyamgV.Proofs.C06CRat
import PyamgV.Proofs.GsArrayRefine
import PyamgV.Model.C02Cycle
import Mathlib.Algebra.Field.Defs
import Mathlib.Tactic.FieldSimp
import Mathlib.Tactic.Positivity

/-! PyamgV (extension E5, properties C02/C05): the **complex Gauss-Seidel row**.

1. `Field CRat`: the Gaussian rationals of the kernel models, *with the operations the models use*
   (`Model/CRat.lean`: `a / b = a·conj b / |b|²`), are a field.
2. The row lemmas of `Proofs/GsRefine.lean` / `Proofs/GsArrayRefine.lean` (`rowScan_spec`, `rowDot_split`,
   `gsRow_residual_zero`, `gaussSeidel_refines`) are stated there over an *ordered* field; they hold over any
   field with decidable equality (`*_field` below), hence over `CRat`.
3. `crat_gaussSeidel_row_residual_zero`: for the executable kernel model `K.gaussSeidel` over `CRat` (the
   definition the driver runs and C09 compares with relaxation.h; no conjugation in Gauss-Seidel), after
   the update of row `i` the complex residual `b_i − Σ_j a_ij x_j` (computed by the model's own `spmv`)
   is zero -- real and imaginary part -- whenever the row stores exactly one diagonal entry `d ≠ 0`. -/
set_option linter.unusedSectionVars false
namespace PyamgV

/-! ### `CRat` is a field -/
namespace CRat

theorem div_re (a b : CRat) : (a / b).re = (a.re * b.re + a.im * b.im) / normSq b := rfl
theorem div_im (a b : CRat) : (a / b).im = (a.im * b.re - a.re * b.im) / normSq b := rfl

instance : Inv CRat := ⟨fun a => ⟨a.re / normSq a, -a.im / normSq a⟩⟩

theorem inv_re (a : CRat) : (a⁻¹).re = a.re / normSq a := rfl
theorem inv_im (a : CRat) : (a⁻¹).im = -a.im / normSq a := rfl

theorem normSq_pos_of_ne {a : CRat} (h : a ≠ 0) : 0 < normSq a := by
  unfold normSq
  by_contra hn
  have h1 : a.re * a.re + a.im * a.im = 0 :=
    le_antisymm (not_lt.1 hn) (add_nonneg (mul_self_nonneg _) (mul_self_nonneg _))
  have hre : a.re = 0 := by nlinarith [mul_self_nonneg a.re, mul_self_nonneg a.im]
  have him : a.im = 0 := by nlinarith [mul_self_nonneg a.re, mul_self_nonneg a.im]
  exact h (ext' hre him)

instance : Field CRat where
  inv := Inv.inv
  div := (· / ·)
  div_eq_mul_inv a b := by
    apply ext'
    · rw [div_re, mul_re, inv_re, inv_im]; ring
    · rw [div_im, mul_im, inv_re, inv_im]; ring
  exists_pair_ne := ⟨0, 1, by decide⟩
  mul_inv_cancel a ha := by
    have hp := normSq_pos_of_ne ha
    have hne : normSq a ≠ 0 := ne_of_gt hp
    apply ext'
    · rw [mul_re, inv_re, inv_im, one_re]
      field_simp
      unfold normSq; ring
    · rw [mul_im, inv_re, inv_im, one_im]
      field_simp
      ring
  inv_zero := by
    apply ext'
    · rw [inv_re]; simp
    · rw [inv_im]; simp
  nnqsmul := _
  nnqsmul_def := fun _ _ => rfl
  qsmul := _
  qsmul_def := fun _ _ => rfl

end CRat

/-! ### the row lemmas over an arbitrary field -/
section field
variable {F : Type} [Field F] [DecidableEq F]

theorem rowScan_spec_field (i : Nat) (row : Row F) (x : Nat → F) :
    ∀ (acc : F × F),
      (row.foldl (fun acc cv => if cv.1 = i then (acc.1, cv.2) else (acc.1 + cv.2 * x cv.1, acc.2)) acc).1
        = acc.1 + ((row.filter (fun cv => cv.1 ≠ i)).map (fun cv => cv.2 * x cv.1)).sum ∧
      (row.foldl (fun acc cv => if cv.1 = i then (acc.1, cv.2) else (acc.1 + cv.2 * x cv.1, acc.2)) acc).2
        = (((row.filter (fun cv => cv.1 = i)).map (·.2)).getLast?).getD acc.2 := by
  induction row with
  | nil => intro acc; simp
  | cons cv rest ih =>
    intro acc
    simp only [List.foldl_cons]
    by_cases h : cv.1 = i
    · simp only [h, if_true]
      obtain ⟨h1, h2⟩ := ih (acc.1, cv.2)
      refine ⟨by simpa [h] using h1, ?_⟩
      rw [h2]
      simp only [List.filter_cons, h, decide_true, if_true, List.map_cons]
      cases hr : (List.map (·.2) (List.filter (fun cv => decide (cv.1 = i)) rest)) with
      | nil => simp
      | cons a l =>
        cases hl : (a :: l).getLast? with
        | none => simp at hl
        | some z => simp [List.getLast?_cons_cons, hl]
    · simp only [h, if_false]
      obtain ⟨h1, h2⟩ := ih (acc.1 + cv.2 * x cv.1, acc.2)
      refine ⟨?_, by simpa [h] using h2⟩
      rw [h1]; simp [h, add_assoc]

theorem rowDot_split_field (i : Nat) (row : Row F) (x : Nat → F) (d : F) (hd : HasDiag i row d) :
    rowDot row x = ((row.filter (fun cv => cv.1 ≠ i)).map (fun cv => cv.2 * x cv.1)).sum + d * x i := by
  unfold rowDot HasDiag at *
  induction row generalizing d with
  | nil => simp at hd
  | cons cv rest ih =>
    by_cases h : cv.1 = i
    · simp only [List.filter_cons, h, decide_true, if_true, List.map_cons, List.cons.injEq] at hd
      obtain ⟨hv, hrest⟩ := hd
      have hnone : ∀ cv' ∈ rest, cv'.1 ≠ i := by
        intro cv' hm hc
        have : cv'.2 ∈ List.map (·.2) (List.filter (fun cv => decide (cv.1 = i)) rest) :=
          List.mem_map.2 ⟨cv', List.mem_filter.2 ⟨hm, by simpa using hc⟩, rfl⟩
        rw [hrest] at this; simp at this
      have hf : rest.filter (fun cv => !decide (cv.1 = i)) = rest := by
        apply List.filter_eq_self.2; intro a ha; simpa using hnone a ha
      simp [h, hf, hv]; ring
    · simp only [List.filter_cons, h, decide_false] at hd
      have := ih d (by simpa using hd)
      simp only [List.map_cons, List.sum_cons, this]
      simp [h]; ring

/-- the value the kernel writes: with exactly one stored diagonal `d ≠ 0` the update is
`x_i ← (b_i − Σ_{j≠i} a_ij x_j) / d`, all other entries unchanged -/
theorem gsRowFn_eq_field (i : Nat) (row : Row F) (b x : Nat → F) (d : F)
    (hd : HasDiag i row d) (hd0 : d ≠ 0) :
    gsRowFn i row b x = Function.update x i
      ((b i - ((row.filter (fun cv => cv.1 ≠ i)).map (fun cv => cv.2 * x cv.1)).sum) / d) := by
  obtain ⟨h1, h2⟩ := rowScan_spec_field i row x (0, 0)
  have hdiag : (rowScan i row x).2 = d := by
    unfold rowScan; rw [h2]; unfold HasDiag at hd; rw [hd]; simp
  have hrs : (rowScan i row x).1 =
      ((row.filter (fun cv => cv.1 ≠ i)).map (fun cv => cv.2 * x cv.1)).sum := by
    unfold rowScan; rw [h1]; simp
  unfold gsRowFn
  rw [show rowScan i row x = ((rowScan i row x).1, (rowScan i row x).2) from rfl]
  simp only [hdiag, hd0, if_false]
  rw [hrs]

/-- **kernel fact over any field** (mirror of `gsRow_residual_zero`): after the update the residual of
row `i` is zero -/
theorem gsRow_residual_zero_field (i : Nat) (row : Row F) (b x : Nat → F) (d : F)
    (hd : HasDiag i row d) (hd0 : d ≠ 0) :
    b i - rowDot row (gsRowFn i row b x) = 0 := by
  rw [gsRowFn_eq_field i row b x d hd hd0, rowDot_split_field i row _ d hd]
  have hoff : ∀ v : F, ((row.filter (fun cv => cv.1 ≠ i)).map
      (fun cv => cv.2 * Function.update x i v cv.1)).sum =
      ((row.filter (fun cv => cv.1 ≠ i)).map (fun cv => cv.2 * x cv.1)).sum := by
    intro v
    congr 1
    apply List.map_congr_left
    intro cv hcv
    have : cv.1 ≠ i := by simpa using (List.mem_filter.1 hcv).2
    simp [Function.update_of_ne this]
  rw [hoff, Function.update_self]
  field_simp
  ring

theorem fn_wr_field (x : Array F) (i : Nat) (v : F) (hi : i < x.size) :
    fn (K.wr x i v) = Function.update (fn x) i v := by
  funext j
  unfold fn K.rd K.wr
  simp only [Array.getD_eq_getD_getElem?, Array.getElem?_setIfInBounds]
  by_cases h : i = j
  · subst h; simp [hi]
  · simp [h, Function.update_of_ne (Ne.symm h)]

/-- one row of the executable kernel = one row of the function model, any field -/
theorem gsStep_refines_field (A : K.Csr F) (b x : Array F) (i : Nat) (hi : i < x.size) :
    fn ((fun (x : Array F) (i : Nat) =>
      let (rsum, diag) := (A.jjs i).foldl (fun (acc : F × F) jj =>
        let j := K.rdN A.aj jj
        if i = j then (acc.1, K.rd A.ax jj) else (acc.1 + K.rd A.ax jj * K.rd x j, acc.2))
        ((0:F), (0:F))
      if diag = 0 then x else K.wr x i ((K.rd b i - rsum) / diag)) x i) =
    gsRowFn i (rowOf A i) (fn b) (fn x) := by
  have hscan : (A.jjs i).foldl (fun (acc : F × F) jj =>
        let j := K.rdN A.aj jj
        if i = j then (acc.1, K.rd A.ax jj) else (acc.1 + K.rd A.ax jj * K.rd x j, acc.2))
        ((0:F), (0:F)) = rowScan i (rowOf A i) (fn x) := by
    unfold rowScan rowOf
    rw [List.foldl_map]
    apply List.foldl_ext
    intro acc jj _
    by_cases h : i = K.rdN A.aj jj
    · simp only [h, if_true]
    · have h' : ¬ K.rdN A.aj jj = i := fun e => h e.symm
      simp only [h, h', if_false]
      rfl
  simp only
  rw [hscan]
  unfold gsRowFn
  rw [show rowScan i (rowOf A i) (fn x) = ((rowScan i (rowOf A i) (fn x)).1,
    (rowScan i (rowOf A i) (fn x)).2) from rfl]
  simp only
  by_cases hd : (rowScan i (rowOf A i) (fn x)).2 = 0
  · rw [if_pos hd, if_pos hd]
  · rw [if_neg hd, if_neg hd, fn_wr_field _ _ _ hi]
    rfl

/-- the executable sweep refines `gsSweepFn`, any field -/
theorem gaussSeidel_refines_field (A : K.Csr F) (b : Array F) :
    ∀ (rows : List Nat) (x : Array F), (∀ i ∈ rows, i < x.size) →
      (K.gaussSeidel A b rows x).size = x.size ∧
      fn (K.gaussSeidel A b rows x) =
        rows.foldl (fun x i => gsRowFn i (rowOf A i) (fn b) x) (fn x) := by
  intro rows
  induction rows with
  | nil => intro x _; exact ⟨rfl, rfl⟩
  | cons i rows ih =>
    intro x hrows
    have hi : i < x.size := hrows i (by simp)
    unfold K.gaussSeidel
    rw [List.foldl_cons, List.foldl_cons]
    have hstep := gsStep_refines_field A b x i hi
    simp only at hstep
    have hsz : ((fun (x : Array F) (i : Nat) =>
        let (rsum, diag) := (A.jjs i).foldl (fun (acc : F × F) jj =>
          let j := K.rdN A.aj jj
          if i = j then (acc.1, K.rd A.ax jj) else (acc.1 + K.rd A.ax jj * K.rd x j, acc.2))
          ((0:F), (0:F))
        if diag = 0 then x else K.wr x i ((K.rd b i - rsum) / diag)) x i).size = x.size := by
      simp only
      split
      · rfl
      · simp [K.wr]
    have := ih _ (fun j hj => by rw [hsz]; exact hrows j (by simp [hj]))
    unfold K.gaussSeidel at this
    refine ⟨this.1.trans hsz, ?_⟩
    rw [this.2, hstep]

theorem foldl_add_eq_sum_field {β : Type} (l : List β) (g : β → F) (s : F) :
    l.foldl (fun s j => s + g j) s = s + (l.map g).sum := by
  induction l generalizing s with
  | nil => simp
  | cons a l ih => simp only [List.foldl_cons, List.map_cons, List.sum_cons]; rw [ih]; ring

/-- entry `i` of the model's `A @ x` is the row dot product -/
theorem spmv_rd_field (A : K.Csr F) (x : Array F) (i : Nat) (hi : i < A.n) :
    K.rd (C02.spmv A x) i = rowDot (rowOf A i) (fn x) := by
  unfold C02.spmv K.rd
  simp only [Array.getD_eq_getD_getElem?, Array.getElem?_map, Array.getElem?_range, hi, if_true,
    Option.map_some, Option.getD_some]
  rw [foldl_add_eq_sum_field]
  unfold rowDot rowOf fn K.rd
  simp [List.map_map, Function.comp_def]

/-- **array-level statement, any field**: after `K.gaussSeidel` has updated row `i`, entry `i` of the
model's residual `b − A x` vanishes -/
theorem gaussSeidel_row_residual_zero_field (A : K.Csr F) (b x : Array F) (i : Nat)
    (hin : i < A.n) (hi : i < x.size) (d : F) (hd : HasDiag i (rowOf A i) d) (hd0 : d ≠ 0) :
    K.rd b i - K.rd (C02.spmv A (K.gaussSeidel A b [i] x)) i = 0 := by
  rw [spmv_rd_field A _ i hin]
  have h := (gaussSeidel_refines_field A b [i] x (by simpa using hi)).2
  simp only [List.foldl_cons, List.foldl_nil] at h
  rw [h]
  exact gsRow_residual_zero_field i (rowOf A i) (fn b) (fn x) d hd hd0

end field

/-! ### the statement for the executable complex model -/

/-- row `i` of `A` stores exactly one diagonal entry, with value `d` (stated on the raw CSR arrays) -/
def CsrHasDiag {α : Type} [OfNat α 0] (A : K.Csr α) (i : Nat) (d : α) : Prop :=
  ((A.jjs i).filter (fun jj => K.rdN A.aj jj = i)).map (fun jj => K.rd A.ax jj) = [d]

theorem csrHasDiag_iff {F : Type} [Field F] (A : K.Csr F) (i : Nat) (d : F) :
    CsrHasDiag A i d ↔ HasDiag i (rowOf A i) d := by
  unfold CsrHasDiag HasDiag rowOf
  rw [List.filter_map, List.map_map]
  rfl

/-- **complex Gauss-Seidel row** (mirror of `gsRow_residual_zero` for the Gaussian-rational kernel model the
driver executes): one row update of `K.gaussSeidel` over `CRat` zeroes the complex row residual. -/
theorem crat_gaussSeidel_row_residual_zero (A : K.Csr CRat) (b x : Array CRat) (i : Nat)
    (hin : i < A.n) (hi : i < x.size) (d : CRat) (hd : CsrHasDiag A i d) (hd0 : d ≠ 0) :
    K.rd b i - K.rd (C02.spmv A (K.gaussSeidel A b [i] x)) i = 0 :=
  gaussSeidel_row_residual_zero_field A b x i hin hi d ((csrHasDiag_iff A i d).1 hd) hd0

/-- in real and imaginary parts -/
theorem crat_gaussSeidel_row_residual_zero_parts (A : K.Csr CRat) (b x : Array CRat) (i : Nat)
    (hin : i < A.n) (hi : i < x.size) (d : CRat) (hd : CsrHasDiag A i d) (hd0 : d ≠ 0) :
    (K.rd (C02.spmv A (K.gaussSeidel A b [i] x)) i).re = (K.rd b i).re ∧
    (K.rd (C02.spmv A (K.gaussSeidel A b [i] x)) i).im = (K.rd b i).im := by
  have h := crat_gaussSeidel_row_residual_zero A b x i hin hi d hd hd0
  have h1 := congrArg CRat.re h
  have h2 := congrArg CRat.im h
  rw [CRat.sub_re, CRat.zero_re] at h1
  rw [CRat.sub_im, CRat.zero_im] at h2
  constructor <;> linarith

/-- the function-level form over `CRat` -/
theorem crat_gsRow_residual_zero (i : Nat) (row : Row CRat) (b x : Nat → CRat) (d : CRat)
    (hd : HasDiag i row d) (hd0 : d ≠ 0) : b i - rowDot row (gsRowFn i row b x) = 0 :=
  gsRow_residual_zero_field i row b x d hd hd0

/-- non-vacuity on a Hermitian 2×2 matrix `[[2, i], [-i, 2]]`, `b = (1, i)`, `x = (0, 1)`:
row 0 is updated to `(1 - i)/2` and the residual entry is exactly zero -/
example :
    let A : K.Csr CRat := ⟨2, #[0, 2, 4], #[0, 1, 0, 1], #[⟨2, 0⟩, ⟨0, 1⟩, ⟨0, -1⟩, ⟨2, 0⟩]⟩
    let b : Array CRat := #[⟨1, 0⟩, ⟨0, 1⟩]
    let x : Array CRat := #[⟨0, 0⟩, ⟨1, 0⟩]
    CsrHasDiag A 0 ⟨2, 0⟩ ∧ K.gaussSeidel A b [0] x = #[⟨1/2, -1/2⟩, ⟨1, 0⟩] ∧
    K.rd (C02.spmv A (K.gaussSeidel A b [0] x)) 0 = K.rd b 0 := by
  unfold CsrHasDiag
  decide +kernel

#print axioms crat_gaussSeidel_row_residual_zero
#print axioms gsRow_residual_zero_field
end PyamgV
