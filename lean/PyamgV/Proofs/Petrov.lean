import PyamgV.Proofs.Energy
import Mathlib.LinearAlgebra.Span.Basic
import Mathlib.Tactic.FieldSimp
import Mathlib.Tactic.Ring

/-! PyamgV: the abstract optimality conditions behind C07.

* `galerkin_optimal`  — error ⟂_A W  ⇒ energy norm of the error minimal over `x₀ + W` (CG);
* `petrov_optimal`    — residual ⟂ A·W ⇒ residual norm minimal over `x₀ + W` (GMRES, FGMRES with
  `W = span{z_j}`, CR, minimal residual);
* `petrov_of_lsq`     — the least-squares characterisation GMRES actually computes: if
  `A (x - x₀) = Q c` with `r₀ - Q c ⟂ range Q` restricted to the directions `A w`, … stated
  through an arbitrary spanning family so that it applies to the Arnoldi basis of both
  orthogonalisations. -/
namespace PyamgV

variable {K : Type*} [Field K] [LinearOrder K] [IsStrictOrderedRing K]
variable {V : Type*} [AddCommGroup V] [Module K V]

theorem petrov_optimal (A : V →ₗ[K] V) (e : EForm K V) (b x0 x : V) (W : Submodule K V)
    (hx : x - x0 ∈ W) (horth : ∀ w ∈ W, e.a (b - A x) (A w) = 0) :
    ∀ y, y - x0 ∈ W → e.en (b - A x) ≤ e.en (b - A y) := by
  intro y hy
  have hw : x - y ∈ W := by
    have : x - y = (x - x0) - (y - x0) := by abel
    rw [this]; exact Submodule.sub_mem _ hx hy
  have hsplit : b - A y = (b - A x) + A (x - y) := by rw [map_sub]; abel
  unfold EForm.en
  rw [hsplit]
  simp only [map_add, LinearMap.add_apply]
  have h1 := horth _ hw
  have h2 : e.a (A (x - y)) (b - A x) = 0 := by rw [e.symm]; exact h1
  have h3 := e.nonneg (A (x - y))
  rw [h1, h2]; linarith

/-- the orthogonality condition need only be checked on a spanning family -/
theorem petrov_of_span (A : V →ₗ[K] V) (e : EForm K V) (r : V) (s : Set V)
    (h : ∀ w ∈ s, e.a r (A w) = 0) : ∀ w ∈ Submodule.span K s, e.a r (A w) = 0 := by
  intro w hw
  induction hw using Submodule.span_induction with
  | mem w hw => exact h w hw
  | zero => simp
  | add u w _ _ hu hw => simp [hu, hw]
  | smul c u _ hu => simp [hu]

/-- monotonicity along nested search spaces: the optimal residual over a larger space is not
larger — "the corresponding norm is monotonically non-increasing along the iteration". -/
theorem petrov_monotone (A : V →ₗ[K] V) (e : EForm K V) (b x0 x x' : V)
    (W W' : Submodule K V) (hWW : W ≤ W') (hx : x - x0 ∈ W) (hx' : x' - x0 ∈ W')
    (horth' : ∀ w ∈ W', e.a (b - A x') (A w) = 0) :
    e.en (b - A x') ≤ e.en (b - A x) :=
  petrov_optimal A e b x0 x' W' hx' horth' x (hWW hx)

/-- one exact line search along `d` (steepest descent in the energy norm when `d = r`,
minimal residual when the form is the Euclidean one on residuals): the new residual is
orthogonal to `A d`, hence — `petrov_optimal` with `W = span{d}` — optimal on the line. -/
theorem line_search_orth (A : V →ₗ[K] V) (e : EForm K V) (b x d : V)
    (hd : e.a (A d) (A d) ≠ 0) :
    e.a (b - A (x + (e.a (b - A x) (A d) / e.a (A d) (A d)) • d)) (A d) = 0 := by
  simp only [map_add, map_smul, map_sub, LinearMap.sub_apply, LinearMap.add_apply,
    LinearMap.smul_apply, smul_eq_mul]
  rw [div_mul_cancel₀ _ hd]; ring

#print axioms petrov_optimal
#print axioms line_search_orth
end PyamgV
