import PyamgV.Proofs.ExtC11RefineBase
import PyamgV.Proofs.OnePoint

/-! PyamgV (C11, extension E6): **the array model of `one_point_interpolation`
(`C11M.onePoint`, air.h:46) is the proof-side operator `C11.onePointP`**: on every valid 0/1
splitting and every strength matrix whose columns are below `n`, row `i` of the CSR triple
`(Pp, Pj, Px)` the model returns is row `i` of `onePointP (isC split) n (rowOf C)` (coarse columns
as `Int`, as the kernel stores them), and `Pp` is the prefix sum of the row lengths. -/
namespace PyamgV.C11X
open PyamgV.N PyamgV.C11 PyamgV.C11M

/-- the `pointInd` array of the kernel -/
def pointInd (n : Nat) (split : Array Int) : Array Int :=
  (List.range (n - 1)).foldl (istep split) #[0]

/-- scan step of the kernel over the strength row (state `(max, ind, val)`) -/
def opScanStep (C : Csr) (split : Array Int) (t : Rat × Int × Rat) (i : Nat) : Rat × Int × Rat :=
  if isC split (rdN C.aj i) then
    let vv := absQ (rdQ C.ax i)
    if vv > t.1 then (vv, Int.ofNat (rdN C.aj i), rdQ C.ax i) else t
  else t

/-- the entries the kernel appends for `row` -/
def opModelRow (n : Nat) (C : Csr) (split : Array Int) (row : Nat) : List (Int × Rat) :=
  if isC split row then [((pointInd n split).getD row 0, 1)]
  else
    let t := (C.jjs row).foldl (opScanStep C split) ((-1 : Rat), (-1 : Int), (0 : Rat))
    if t.2.1 > -1 then [((pointInd n split).getD t.2.1.toNat 0, -t.2.2)] else []

def opStep (n : Nat) (C : Csr) (split : Array Int) (acc : Array Nat × Array Int × Array Rat) (row : Nat) :
    Array Nat × Array Int × Array Rat :=
  let pj := acc.2.1 ++ ((opModelRow n C split row).map Prod.fst).toArray
  let px := acc.2.2 ++ ((opModelRow n C split row).map Prod.snd).toArray
  (acc.1.push pj.size, pj, px)

theorem onePoint_eq_fold (n : Nat) (C : Csr) (split : Array Int) :
    onePoint n C split = (List.range n).foldl (opStep n C split) (#[0], #[], #[]) := by
  have hpi : (List.range (n - 1)).foldl (fun (a : Array Int) i => a.push (a.getD i 0 + rdI split i)) #[0] =
      pointInd n split := rfl
  have hsc : (fun (t : Rat × Int × Rat) i =>
      if isC split (rdN C.aj i) = true then
        if absQ (rdQ C.ax i) > t.1 then (absQ (rdQ C.ax i), Int.ofNat (rdN C.aj i), rdQ C.ax i) else t
      else t) = opScanStep C split := rfl
  unfold onePoint
  apply List.foldl_ext
  intro acc row _
  obtain ⟨pp, pj, px⟩ := acc
  simp only [opStep, opModelRow, hpi, hsc]
  by_cases hC : isC split row = true
  · simp only [hC, if_true]
    simp
  · simp only [hC]
    simp only [Bool.false_eq_true, if_false]
    generalize (C.jjs row).foldl (opScanStep C split) ((-1 : Rat), (-1 : Int), (0 : Rat)) = t
    by_cases h : t.2.1 > -1
    · simp only [h, if_true]
      simp
    · simp only [h, if_false]
      simp

/-- state of the push loop: row pointer, sizes, rows -/
theorem onePoint_state (n : Nat) (C : Csr) (split : Array Int) (m : Nat) :
    let r := (List.range m).foldl (opStep n C split) (#[0], #[], #[])
    r.1.size = m + 1 ∧
    (∀ j ≤ m, rdN r.1 j = off (fun i => (opModelRow n C split i).length) j) ∧
    PushInv (0 : Int) (0 : Rat) (opModelRow n C split) m r.2.1 r.2.2 := by
  induction m with
  | zero =>
    refine ⟨by simp, ?_, pushInv_zero _ _ _⟩
    intro j hj
    have : j = 0 := by omega
    subst this; simp [off, rdN]
  | succ m ih =>
    obtain ⟨h1, h2, h3⟩ := ih
    simp only [List.range_succ, List.foldl_append, List.foldl_cons, List.foldl_nil]
    generalize (List.range m).foldl (opStep n C split) (#[0], #[], #[]) = r at h1 h2 h3 ⊢
    have hstep := pushInv_step _ _ _ m r.2.1 r.2.2 h3
    refine ⟨by simp [opStep, h1], ?_, hstep⟩
    intro j hj
    simp only [opStep, rdN]
    rw [Array.getD_eq_getD_getElem?, Array.getElem?_push]
    rcases Nat.lt_succ_iff_lt_or_eq.1 (Nat.lt_succ_of_le hj) with hlt | heq
    · have h := h2 j (by omega)
      simp only [rdN] at h
      rw [Array.getD_eq_getD_getElem?] at h
      have hne : j ≠ r.1.size := by omega
      simp only [hne, if_false]
      exact h
    · have he : j = r.1.size := by omega
      simp only [he, if_true, Option.getD_some]
      rw [hstep.1, h1]

/-! ### the kernel's scan is `OnePoint.scan` -/

/-- proof-side scan state → kernel scan state -/
def opPhi (s : Rat × Option (Nat × Rat)) : Rat × Int × Rat :=
  (s.1, match s.2 with | none => (-1 : Int) | some c => Int.ofNat c.1, match s.2 with | none => 0 | some c => c.2)

theorem opScan_hom (C : Csr) (split : Array Int) (s : Rat × Option (Nat × Rat)) (i : Nat) :
    opScanStep C split (opPhi s) i =
      opPhi (if isC split (rdN C.aj i) = true ∧ |rdQ C.ax i| > s.1 then (|rdQ C.ax i|, some (rdN C.aj i, rdQ C.ax i)) else s) := by
  unfold opScanStep
  by_cases hC : isC split (rdN C.aj i) = true
  · simp only [hC, if_true, true_and, absQ_eq_abs]
    by_cases hg : |rdQ C.ax i| > s.1
    · have hg' : |rdQ C.ax i| > (opPhi s).1 := hg
      rw [if_pos hg', if_pos hg]; rfl
    · have hg' : ¬ |rdQ C.ax i| > (opPhi s).1 := hg
      rw [if_neg hg', if_neg hg]
  · simp only [hC]
    simp

theorem opScan_eq (C : Csr) (split : Array Int) (row : Nat) :
    (C.jjs row).foldl (opScanStep C split) ((-1 : Rat), (-1 : Int), (0 : Rat)) =
      opPhi (OnePoint.scan (isC split) (rowOf C row) ((-1 : Rat), none)) := by
  unfold OnePoint.scan rowOf
  rw [List.foldl_map]
  exact foldl_hom opPhi _ _ (fun s x => opScan_hom C split s x) (C.jjs row) ((-1 : Rat), none)

/-- the row the kernel appends is the row of the proof-side operator -/
theorem opModelRow_eq (n : Nat) (C : Csr) (split : Array Int) (hv : Valid split n)
    (hcols : ∀ i < n, ∀ jj ∈ C.jjs i, rdN C.aj jj < n) {i : Nat} (hi : i < n) :
    opModelRow n C split i =
      ((onePointP (isC split) n (rowOf C)).getD i []).map (fun cv => ((cv.1 : Int), cv.2)) := by
  have hn : n - 1 + 1 = n := by omega
  have hpi : ∀ j < n, (pointInd n split).getD j 0 = (cidx (isC split) j : Int) := by
    intro j hj
    have := inj_state split (n - 1) (fun k hk => hv k (by omega))
    exact this.2 j (by omega)
  rw [onePointP_row (isC split) n (rowOf C) hi]
  unfold opModelRow
  by_cases hC : isC split i = true
  · simp only [hC, if_true, List.map_cons, List.map_nil]
    rw [hpi i hi]
  · simp only [hC, Bool.false_eq_true, if_false]
    rw [opScan_eq]
    have hs := OnePoint.onePoint_spec (isC split) (rowOf C i)
    unfold OnePoint.onePoint at hs ⊢
    cases h : (OnePoint.scan (isC split) (rowOf C i) ((-1 : Rat), none)).2 with
    | none => simp [opPhi, h]
    | some c =>
      have hmem := (hs.2 c h).1
      simp only [rowOf, List.mem_map] at hmem
      obtain ⟨jj, hjj, hc⟩ := hmem
      have hlt : c.1 < n := by rw [← hc]; exact hcols i hi jj hjj
      have hpos : (Int.ofNat c.1) > -1 := by
        have : (0 : Int) ≤ Int.ofNat c.1 := Int.natCast_nonneg _
        omega
      simp only [opPhi, h]
      rw [if_pos hpos]
      simp only [List.map_cons, List.map_nil]
      rw [← hpi c.1 hlt]
      rfl

/-- **`one_point_interpolation`, array model = proof-side operator.**  For a valid 0/1 splitting and
a strength matrix with columns below `n`: the row pointer has `n+1` entries and is the prefix sum
of the row lengths of `onePointP`, and row `i` of `(Pp, Pj, Px)` is row `i` of `onePointP` (coarse
column cast to the kernel's integer type). -/
theorem onePoint_refines (n : Nat) (C : Csr) (split : Array Int) (hv : Valid split n)
    (hcols : ∀ i < n, ∀ jj ∈ C.jjs i, rdN C.aj jj < n) :
    (onePoint n C split).1.size = n + 1 ∧
    (∀ j ≤ n, rdN (onePoint n C split).1 j =
      off (fun i => ((onePointP (isC split) n (rowOf C)).getD i []).length) j) ∧
    ∀ i < n, rowAt (0 : Int) (0 : Rat) (onePoint n C split).1 (onePoint n C split).2.1
        (onePoint n C split).2.2 i =
      ((onePointP (isC split) n (rowOf C)).getD i []).map (fun cv => ((cv.1 : Int), cv.2)) := by
  rw [onePoint_eq_fold]
  obtain ⟨h1, h2, h3⟩ := onePoint_state n C split n
  have hlen : ∀ j ≤ n, off (fun i => (opModelRow n C split i).length) j =
      off (fun i => ((onePointP (isC split) n (rowOf C)).getD i []).length) j := by
    intro j hj
    unfold off
    congr 1
    apply List.map_congr_left
    intro i hi
    rw [List.mem_range] at hi
    rw [opModelRow_eq n C split hv hcols (show i < n by omega)]
    simp
  refine ⟨h1, fun j hj => (h2 j hj).trans (hlen j hj), ?_⟩
  intro i hi
  rw [rowAt_of_off _ _ _ _ _ _ n h2 hi, h3.2.2 i hi]
  exact opModelRow_eq n C split hv hcols hi

end PyamgV.C11X
