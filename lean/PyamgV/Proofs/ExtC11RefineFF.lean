import PyamgV.Proofs.ExtC11RefineBase

/-! PyamgV (C11, extension E6): **the array model of `remove_strong_FF_connections`
(`C11M.removeFF`, ruge_stuben.h:1150) is the proof-side removal predicate** of
`C11.removeFFRow` / `C11.commonC`:

* `removeFF_entry`: on a CSR matrix with a monotone row pointer, the entry stored at position
  `jj` of row `row` becomes `0` exactly when `row` and its column are F-points without a common
  strong C-point (`commonC`), and keeps its value otherwise;
* `removeFF_row`: hence, for an F-row of a valid splitting, the row of the new matrix after
  `eliminate_zeros` is `removeFFRow` (after `eliminate_zeros`). -/
namespace PyamgV.C11X
open PyamgV.N PyamgV.C11 PyamgV.C11M

/-- the kernel's `dependence` flag for the entry at position `jj` of row `row` -/
def ffDep (S : Csr) (split : Array Int) (row jj : Nat) : Bool :=
  (S.jjs row).any (fun ii =>
    isC split (rdN S.aj ii) && (S.jjs (rdN S.aj jj)).any (fun kk => rdN S.aj kk == rdN S.aj ii))

/-- the entry at position `jj` of row `row` is overwritten with zero -/
def ffZero (S : Csr) (split : Array Int) (row jj : Nat) : Bool :=
  isF split row && (isF split (rdN S.aj jj) && !ffDep S split row jj)

def zfold (l : List Nat) (z : Nat → Bool) (sx : Array Rat) : Array Rat :=
  l.foldl (fun sx jj => if z jj = true then sx.setIfInBounds jj 0 else sx) sx

theorem rdQ_set_zero (sx : Array Rat) (jj k : Nat) :
    rdQ (sx.setIfInBounds jj 0) k = if k = jj then 0 else rdQ sx k := by
  unfold rdQ
  rw [Array.getD_eq_getD_getElem?, Array.getD_eq_getD_getElem?, Array.getElem?_setIfInBounds]
  by_cases h : jj = k
  · subst h
    by_cases hlt : jj < sx.size
    · simp [hlt]
    · simp [hlt]
  · have h' : ¬ k = jj := fun e => h e.symm
    simp [h, h']

theorem zfold_spec (l : List Nat) (z : Nat → Bool) (sx : Array Rat) (k : Nat) :
    rdQ (zfold l z sx) k = if k ∈ l ∧ z k = true then 0 else rdQ sx k := by
  unfold zfold
  induction l generalizing sx with
  | nil => simp
  | cons a rest ih =>
    simp only [List.foldl_cons]
    rw [ih]
    by_cases hr : k ∈ rest ∧ z k = true
    · have : k ∈ a :: rest ∧ z k = true := ⟨List.mem_cons_of_mem _ hr.1, hr.2⟩
      rw [if_pos hr, if_pos this]
    · rw [if_neg hr]
      by_cases hz : z a = true
      · rw [if_pos hz, rdQ_set_zero]
        by_cases hk : k = a
        · subst hk
          rw [if_pos rfl, if_pos ⟨List.mem_cons_self, hz⟩]
        · rw [if_neg hk]
          have : ¬ (k ∈ a :: rest ∧ z k = true) := by
            rintro ⟨h1, h2⟩
            rcases List.mem_cons.1 h1 with h | h
            · exact hk h
            · exact hr ⟨h, h2⟩
          rw [if_neg this]
      · rw [if_neg hz]
        have : ¬ (k ∈ a :: rest ∧ z k = true) := by
          rintro ⟨h1, h2⟩
          rcases List.mem_cons.1 h1 with h | h
          · subst h; exact hz h2
          · exact hr ⟨h, h2⟩
        rw [if_neg this]

theorem removeFF_eq (S : Csr) (split : Array Int) :
    removeFF S split =
      (List.range S.n).foldl (fun sx row => zfold (S.jjs row) (ffZero S split row) sx) S.ax := by
  unfold removeFF
  apply List.foldl_ext
  intro sx row _
  unfold zfold
  by_cases hF : isF split row = true
  · rw [if_pos hF]
    apply List.foldl_ext
    intro sx jj _
    simp only [ffZero, ffDep, hF, Bool.true_and]
    by_cases hj : isF split (rdN S.aj jj) = true
    · simp only [hj, if_true, Bool.true_and]
      split <;> rename_i hd
      · simp [hd]
      · simp [hd]
    · simp [hj]
  · rw [if_neg hF]
    have hz : ∀ jj, ffZero S split row jj = false := by
      intro jj; simp [ffZero, hF]
    simp only [hz, Bool.false_eq_true, if_false]
    clear hz
    induction (S.jjs row) generalizing sx with
    | nil => rfl
    | cons a rest ih => simp

theorem rows_fold_spec (S : Csr) (split : Array Int) (m : Nat) (k : Nat) :
    rdQ ((List.range m).foldl (fun sx row => zfold (S.jjs row) (ffZero S split row) sx) S.ax) k =
      if ∃ row < m, k ∈ S.jjs row ∧ ffZero S split row k = true then 0 else rdQ S.ax k := by
  induction m with
  | zero => simp
  | succ m ih =>
    simp only [List.range_succ, List.foldl_append, List.foldl_cons, List.foldl_nil]
    rw [zfold_spec, ih]
    by_cases h1 : k ∈ S.jjs m ∧ ffZero S split m k = true
    · rw [if_pos h1, if_pos ⟨m, Nat.lt_succ_self m, h1⟩]
    · rw [if_neg h1]
      by_cases h2 : ∃ row < m, k ∈ S.jjs row ∧ ffZero S split row k = true
      · obtain ⟨row, hr, hh⟩ := h2
        rw [if_pos ⟨row, hr, hh⟩, if_pos ⟨row, Nat.lt_succ_of_lt hr, hh⟩]
      · rw [if_neg h2]
        have : ¬ ∃ row < m + 1, k ∈ S.jjs row ∧ ffZero S split row k = true := by
          rintro ⟨row, hr, hh⟩
          rcases Nat.lt_succ_iff_lt_or_eq.1 hr with hlt | heq
          · exact h2 ⟨row, hlt, hh⟩
          · subst heq; exact h1 hh
        rw [if_neg this]

/-- monotone row pointer: rows `i < j` are stored in disjoint, ordered slices -/
theorem ap_mono (ap : Array Nat) (n : Nat) (h : ∀ i < n, rdN ap i ≤ rdN ap (i + 1)) {i j : Nat}
    (hij : i ≤ j) (hj : j ≤ n) : rdN ap i ≤ rdN ap j := by
  induction j, hij using Nat.le_induction with
  | base => exact Nat.le_refl _
  | succ j hij ih => exact Nat.le_trans (ih (by omega)) (h j (by omega))

theorem mem_jjs (S : Csr) (i k : Nat) : k ∈ S.jjs i ↔ rdN S.ap i ≤ k ∧ k < rdN S.ap (i + 1) := by
  unfold Csr.jjs
  rw [List.mem_range'_1]
  constructor
  · rintro ⟨h1, h2⟩; exact ⟨h1, by omega⟩
  · rintro ⟨h1, h2⟩; exact ⟨h1, by omega⟩

theorem jjs_row_unique (S : Csr) (hap : ∀ i < S.n, rdN S.ap i ≤ rdN S.ap (i + 1)) {r r' k : Nat}
    (hr : r < S.n) (hr' : r' < S.n) (h : k ∈ S.jjs r) (h' : k ∈ S.jjs r') : r = r' := by
  rw [mem_jjs] at h h'
  rcases Nat.lt_trichotomy r r' with hlt | heq | hgt
  · have := ap_mono S.ap S.n hap (show r + 1 ≤ r' from hlt) (Nat.le_of_lt hr')
    omega
  · exact heq
  · have := ap_mono S.ap S.n hap (show r' + 1 ≤ r from hgt) (Nat.le_of_lt hr)
    omega

/-- **`remove_strong_FF_connections`, entry by entry** (CSR with monotone row pointer): the stored
entry `jj` of row `row` is zeroed iff `ffZero`, else unchanged -/
theorem removeFF_entry (S : Csr) (split : Array Int)
    (hap : ∀ i < S.n, rdN S.ap i ≤ rdN S.ap (i + 1)) {row jj : Nat} (hr : row < S.n)
    (hjj : jj ∈ S.jjs row) :
    rdQ (removeFF S split) jj = if ffZero S split row jj = true then 0 else rdQ S.ax jj := by
  rw [removeFF_eq, rows_fold_spec]
  by_cases hz : ffZero S split row jj = true
  · rw [if_pos hz, if_pos ⟨row, hr, hjj, hz⟩]
  · rw [if_neg hz]
    have : ¬ ∃ r < S.n, jj ∈ S.jjs r ∧ ffZero S split r jj = true := by
      rintro ⟨r, hr', h1, h2⟩
      have := jjs_row_unique S hap hr' hr h1 hjj
      subst this; exact hz h2
    rw [if_neg this]

/-- the kernel's `dependence` flag is the proof-side `commonC` of the two strength rows -/
theorem ffDep_eq_commonC (S : Csr) (split : Array Int) (row jj : Nat) :
    ffDep S split row jj = commonC (isC split) (rowOf S row) (rowOf S (rdN S.aj jj)) := by
  unfold ffDep commonC rowOf
  simp only [List.any_map, Function.comp_def]

/-- the matrix `S` with the data array replaced by the kernel's output -/
def removeFFCsr (S : Csr) (split : Array Int) : Csr := ⟨S.n, S.ap, S.aj, removeFF S split⟩

theorem filter_zeroed (l : List Nat) (c : Nat → Nat) (v : Nat → Rat) (keep : Nat → Bool) :
    (l.map (fun jj => (c jj, if keep (c jj) = true then v jj else 0))).filter (fun cv => decide (cv.2 ≠ 0)) =
    ((l.map (fun jj => (c jj, v jj))).filter (fun cv => keep cv.1)).filter (fun cv => decide (cv.2 ≠ 0)) := by
  induction l with
  | nil => rfl
  | cons a rest ih =>
    simp only [List.map_cons, List.filter_cons]
    by_cases hk : keep (c a) = true
    · simp only [hk, if_true, List.filter_cons]
      rw [ih]
    · simp only [hk]
      simp only [ne_eq, not_true_eq_false, decide_false, Bool.false_eq_true, if_false]
      exact ih

/-- **`remove_strong_FF_connections` + `eliminate_zeros` = `removeFFRow` (+ `eliminate_zeros`)** on
every F-row of a valid splitting (columns below `n`): the non-zero entries of the row of the new
matrix are the non-zero entries of the proof-side filtered row, in storage order.  (For a strength
matrix without stored zeros the right-hand filter is the identity on `S`'s entries.) -/
theorem removeFF_row (S : Csr) (split : Array Int) (hv : Valid split S.n)
    (hap : ∀ i < S.n, rdN S.ap i ≤ rdN S.ap (i + 1))
    (hcols : ∀ i < S.n, ∀ jj ∈ S.jjs i, rdN S.aj jj < S.n) {i : Nat} (hi : i < S.n)
    (hF : isC split i = false) :
    (rowOf (removeFFCsr S split) i).filter (fun cv => decide (cv.2 ≠ 0)) =
      (removeFFRow (isC split) (rowOf S) i).filter (fun cv => decide (cv.2 ≠ 0)) := by
  have hFi : isF split i = true := by rw [isF_eq_not_isC split S.n hv hi, hF]; rfl
  have hrow : rowOf (removeFFCsr S split) i =
      (S.jjs i).map (fun jj => (rdN S.aj jj,
        if (isC split (rdN S.aj jj) || commonC (isC split) (rowOf S i) (rowOf S (rdN S.aj jj))) = true
        then rdQ S.ax jj else 0)) := by
    show (S.jjs i).map (fun jj => (rdN S.aj jj, rdQ (removeFF S split) jj)) = _
    apply List.map_congr_left
    intro jj hjj
    rw [removeFF_entry S split hap hi hjj]
    have hjF := isF_eq_not_isC split S.n hv (hcols i hi jj hjj)
    simp only [ffZero, hFi, Bool.true_and, hjF, ffDep_eq_commonC]
    by_cases hc : isC split (rdN S.aj jj) = true
    · simp [hc]
    · have hc' : isC split (rdN S.aj jj) = false := by simpa using hc
      simp only [hc', Bool.not_false, Bool.true_and, Bool.false_or]
      generalize commonC (isC split) (rowOf S i) (rowOf S (rdN S.aj jj)) = d
      cases d <;> simp
  rw [hrow]
  have := filter_zeroed (S.jjs i) (fun jj => rdN S.aj jj) (fun jj => rdQ S.ax jj)
    (fun j => isC split j || commonC (isC split) (rowOf S i) (rowOf S j))
  exact this

end PyamgV.C11X
