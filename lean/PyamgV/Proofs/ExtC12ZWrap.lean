import PyamgV.Model.ExtC12ZWrap
import PyamgV.Proofs.ExtSpmm
import PyamgV.Proofs.ExtPairwise
import Mathlib.Algebra.Ring.Rat

/-! PyamgV (C12, extension E56): the composed model of the wrapper `pairwise_aggregation` (`C12ZW.wrapper`: strength of
connection, pairwise kernel, `T_temp`, `T @ T_temp`, Galerkin product between the matchings) returns a valid
partition whose aggregates have at most `2^m` nodes.

* `IsAssign T n k F`: the CSR matrix `T` is the `n x k` assignment matrix of the map `F`: row `i` stores exactly the
  one entry `(F i, 1)` with `F i < k` (rows beyond `n` are empty);
* `pwT_assign`, `mul_assign`: `T_temp` is the assignment matrix of `x - 1`, and SciPy's product (`Spmm.mul`, the raw
  arrays of `csr_matmat`) of two assignment matrices is the assignment matrix of the composed map;
* `loop_spec` / `wrapper_spec`: the run of the wrapper model is the chain of matchings `C12ZW.levels` (a
  `ExtPw.MatchChain`), `T` is the assignment matrix of the composed map `ExtPw.composeAll (maps ls)`, every
  `Cpts[a]` is a node of aggregate `a` (no aggregate is empty, the roots are distinct);
* `wrapper_fiber`: every aggregate has at most `2^(number of matchings performed)` nodes. -/
namespace PyamgV.C12ZW
open PyamgV.Spmm PyamgV.ExtPw

/-- `T` is the `n x k` assignment matrix of `F` -/
structure IsAssign (T : Csr Rat) (n k : Nat) (F : Nat → Nat) : Prop where
  rows : T.rows = n
  cols : T.cols = k
  row : ∀ i, i < n → T.row i = [(F i, 1)]
  lt : ∀ i, i < n → F i < k
  empty : ∀ i, n ≤ i → T.row i = []

theorem IsAssign.colsOK {T : Csr Rat} {n k : Nat} {F : Nat → Nat} (h : IsAssign T n k F) : T.ColsOK := by
  intro i e he
  by_cases hi : i < n
  · rw [h.row i hi] at he
    have : e = (F i, 1) := by simpa using he
    rw [this, h.cols]
    exact h.lt i hi
  · rw [h.empty i (by omega)] at he
    simp at he

theorem pwT_assign {n k : Nat} {x : Array Nat} (hx : ∀ v, v < n → 1 ≤ ExtPw.rd x v ∧ ExtPw.rd x v ≤ k) :
    IsAssign (Canon.pwT n k x) n k (fun v => ExtPw.rd x v - 1) := by
  refine ⟨rfl, rfl, ?_, ?_, ?_⟩
  · intro i hi
    unfold Canon.pwT
    rw [ofRows_row]
    simp [List.getD_eq_getElem?_getD, hi]
  · intro i hi
    have := hx i hi
    show ExtPw.rd x i - 1 < k
    omega
  · intro i hi
    unfold Canon.pwT
    rw [ofRows_row]
    simp [List.getD_eq_getElem?_getD, hi]

theorem getD_replicate_false (n k : Nat) : (Array.replicate n false).getD k false = false := by
  simp only [Array.getD_eq_getD_getElem?, Array.getElem?_replicate]
  split <;> rfl

theorem rd_replicate0 (n k : Nat) : Spmm.rd (Array.replicate n (0 : Rat)) k = 0 := by
  unfold Spmm.rd
  simp only [Array.getD_eq_getD_getElem?, Array.getElem?_replicate]
  split <;> rfl

/-- one row of `csr_matmat` when the row of `A` and the addressed row of `B` store one unit entry each -/
theorem mulRow_single (A B : Csr Rat) (i f g : Nat) (hA : A.row i = [(f, 1)]) (hB : B.row f = [(g, 1)])
    (hg : g < B.cols) : mulRow A B i = [(g, 1)] := by
  unfold mulRow accumRow
  rw [hA]
  simp only [List.foldl_cons, List.foldl_nil]
  rw [hB]
  simp only [List.foldl_cons, List.foldl_nil]
  unfold Acc.add Acc.init
  simp only [getD_replicate_false, Bool.false_eq_true, if_false]
  unfold drain
  simp only [List.foldl_cons, List.foldl_nil]
  have h1 : Spmm.rd (Spmm.wr (Array.replicate B.cols (0 : Rat)) g
      (Spmm.rd (Array.replicate B.cols (0 : Rat)) g + 1 * 1)) g = 1 := by
    rw [Spmm.rd_wr, if_pos ⟨rfl, by simpa using hg⟩, rd_replicate0]
    simp
  rw [h1]
  simp

/-- **`T @ T_temp`**: the raw arrays SciPy's product stores for two assignment matrices are those of the
assignment matrix of the composed map -/
theorem mul_assign {T Tt : Csr Rat} {n k k' : Nat} {F G : Nat → Nat} (hT : IsAssign T n k F)
    (hTt : IsAssign Tt k k' G) : IsAssign (mul T Tt) n k' (G ∘ F) := by
  refine ⟨hT.rows, hTt.cols, ?_, ?_, ?_⟩
  · intro i hi
    rw [mul_row T Tt hTt.colsOK, if_pos (by rw [hT.rows]; exact hi)]
    exact mulRow_single T Tt i (F i) (G (F i)) (hT.row i hi) (hTt.row (F i) (hT.lt i hi))
      (by rw [hTt.cols]; exact hTt.lt _ (hT.lt i hi))
  · intro i hi
    exact hTt.lt _ (hT.lt i hi)
  · intro i hi
    rw [mul_row T Tt hTt.colsOK, if_neg (by rw [hT.rows]; omega)]

/-! ### the accumulated result `(T, Cpts)` -/

/-- what the loop carries after at least one matching: `T` assigns the `n0` fine nodes to `k` aggregates by `F`,
`Cpts[a]` is a node of aggregate `a` -/
structure AccOK (n0 k : Nat) (T : Csr Rat) (cp : Array Nat) (F : Nat → Nat) : Prop where
  assign : IsAssign T n0 k F
  size : cp.size = k
  root : ∀ a, a < k → rdN cp a < n0 ∧ F (rdN cp a) = a

theorem rdN_map (cp y : Array Nat) (a : Nat) (ha : a < y.size) :
    rdN (pickRoots cp y) a = rdN cp (rdN y a) := by
  unfold pickRoots rdN
  simp [Array.getD_eq_getD_getElem?, ha]

theorem tTemp_pos {n k : Nat} {x : Array Nat} (hk : k ≠ 0) : tTemp n k x = Canon.pwT n k x := by
  unfold tTemp
  rw [if_neg hk]

/-- one level: the kernel result is a matching of the `n` nodes of the level matrix -/
theorem matchOnce_spec {norm : String} {tiny θ : Rat} {Ac : Csr Rat} {x y : Array Nat} {k : Nat}
    (h : matchOnce norm tiny θ Ac = some (x, y, k)) :
    y.size = k ∧ (∀ v, v < Ac.rows → 1 ≤ ExtPw.rd x v ∧ ExtPw.rd x v ≤ k) ∧
    (∀ a, a < k → ExtPw.rd y a < Ac.rows ∧ ExtPw.rd x (ExtPw.rd y a) - 1 = a) ∧
    FiberLe Ac.rows (fun v => ExtPw.rd x v - 1) 2 := by
  unfold matchOnce at h
  obtain ⟨_, hy, hx, hr, _⟩ := pairwise_model_spec h
  refine ⟨hy, hx, ?_, (pairwise_model_link h).2⟩
  intro a ha
  have := hr (a + 1) (by omega) (by omega)
  simp only [Nat.add_sub_cancel] at this
  exact ⟨this.1, by rw [this.2]; rfl⟩

theorem rd_eq (a : Array Nat) (i : Nat) : ExtPw.rd a i = rdN a i := rfl

/-- the accumulator after one more matching -/
theorem acc_step {n0 n k : Nat} {T : Csr Rat} {cp : Array Nat} {F : Nat → Nat} (hacc : AccOK n0 n T cp F)
    {x y : Array Nat} (hy : y.size = k) (hx : ∀ v, v < n → 1 ≤ ExtPw.rd x v ∧ ExtPw.rd x v ≤ k)
    (hr : ∀ a, a < k → ExtPw.rd y a < n ∧ ExtPw.rd x (ExtPw.rd y a) - 1 = a) :
    AccOK n0 k (mul T (Canon.pwT n k x)) (pickRoots cp y) ((fun v => ExtPw.rd x v - 1) ∘ F) := by
  refine ⟨mul_assign hacc.assign (pwT_assign hx), by unfold pickRoots; simp [hy], ?_⟩
  intro a ha
  rw [rdN_map cp y a (by omega)]
  obtain ⟨r1, r2⟩ := hr a ha
  rw [rd_eq] at r1
  obtain ⟨c1, c2⟩ := hacc.root _ r1
  refine ⟨c1, ?_⟩
  show ExtPw.rd x (F (rdN cp (rdN y a))) - 1 = a
  rw [c2]
  exact r2

theorem galerkin_rows (R A P : Csr Rat) : (galerkin R A P).rows = R.rows := rfl
theorem transpose_rows (A : Csr Rat) : (transpose A).rows = A.cols := rfl
theorem pwT_cols (n k : Nat) (x : Array Nat) : (Canon.pwT n k x).cols = k := rfl

/-- **the loop of the wrapper after the first matching**: from an accumulator `(T0, Cpts0)` that assigns `n0` fine
nodes to the `Ac.rows` nodes of the current level, every run that returns is a chain of matchings `ls` (the one
`levels` lists), `T` is the assignment matrix of the composed map and every `Cpts[a]` lies in aggregate `a` -/
theorem loop_spec (norm : String) (tiny θ : Rat) :
    ∀ (r : Nat) (Ac : Csr Rat) (n0 : Nat) (T0 : Csr Rat) (cp0 : Array Nat) (F0 : Nat → Nat) (T : Csr Rat)
      (cp : Array Nat), 0 < Ac.rows → AccOK n0 Ac.rows T0 cp0 F0 →
      loop norm tiny θ r Ac (some (T0, cp0)) = some (T, cp) →
      ∃ ls k, levels norm tiny θ r Ac = some ls ∧ ls.length ≤ r ∧ MatchChain Ac.rows (maps ls) ∧
        AccOK n0 k T cp (composeAll (maps ls) ∘ F0) ∧ (r = 0 ∨ 0 < k) := by
  intro r
  induction r with
  | zero =>
    intro Ac n0 T0 cp0 F0 T cp _ hacc h
    simp only [loop, Option.some.injEq, Prod.mk.injEq] at h
    obtain ⟨rfl, rfl⟩ := h
    exact ⟨[], Ac.rows, rfl, le_refl 0, MatchChain.nil _, hacc, Or.inl rfl⟩
  | succ r ih =>
    intro Ac n0 T0 cp0 F0 T cp hpos hacc h
    unfold loop at h
    unfold levels
    cases hm : matchOnce norm tiny θ Ac with
    | none => rw [hm] at h; cases h
    | some res =>
      obtain ⟨x, y, k⟩ := res
      rw [hm] at h
      simp only at h ⊢
      obtain ⟨hy, hx, hr, hfib⟩ := matchOnce_spec hm
      have hk : k ≠ 0 := by have := hx 0 hpos; omega
      rw [if_neg hk] at h ⊢
      rw [tTemp_pos hk] at h ⊢
      have hmap : ∀ v, v < Ac.rows → (fun v => ExtPw.rd x v - 1) v < k := by
        intro v hv; have := hx v hv; show ExtPw.rd x v - 1 < k; omega
      have hacc1 := acc_step hacc hy hx hr
      by_cases hr0 : r = 0
      · rw [if_pos hr0] at h ⊢
        simp only [Option.some.injEq, Prod.mk.injEq] at h
        obtain ⟨rfl, rfl⟩ := h
        refine ⟨[(x, y, k)], k, rfl, by simp, ?_, hacc1, Or.inr (by omega)⟩
        exact MatchChain.cons hmap hfib (MatchChain.nil k)
      · rw [if_neg hr0] at h ⊢
        have hrows : (galerkin (transpose (Canon.pwT Ac.rows k x)) Ac (Canon.pwT Ac.rows k x)).rows = k := rfl
        obtain ⟨ls, k', e1, e2, e3, e4, e5⟩ := ih _ n0 _ _ _ T cp (by rw [hrows]; omega)
          (by rw [hrows]; exact hacc1) h
        rw [e1]
        rw [hrows] at e3
        refine ⟨(x, y, k) :: ls, k', rfl, by simp; omega, MatchChain.cons hmap hfib e3, ?_, ?_⟩
        · exact e4
        · rcases e5 with e5 | e5
          · exact absurd e5 hr0
          · exact Or.inr e5

/-- the identity accumulator is never materialised: the first matching starts the accumulator -/
theorem first_acc {n k : Nat} {x y : Array Nat} (hy : y.size = k)
    (hx : ∀ v, v < n → 1 ≤ ExtPw.rd x v ∧ ExtPw.rd x v ≤ k)
    (hr : ∀ a, a < k → ExtPw.rd y a < n ∧ ExtPw.rd x (ExtPw.rd y a) - 1 = a) :
    AccOK n k (Canon.pwT n k x) y (fun v => ExtPw.rd x v - 1) :=
  ⟨pwT_assign hx, hy, fun a ha => ⟨(hr a ha).1, (hr a ha).2⟩⟩

/-- **the composed wrapper model returns a valid partition** (`n >= 1` nodes): the run is the chain of matchings
`ls` listed by `levels` (`1 <= |ls| <= matchings`); `T` is the `n x k` assignment matrix of the composed map
`F = composeAll (maps ls)` (one unit entry `(i, F i)` per row, `F i < k`: every node lies in exactly one aggregate);
`Cpts` has `k` entries, `Cpts[a] < n` and `F (Cpts[a]) = a`: no aggregate is empty, every root lies in the aggregate
it names (so the roots are distinct) -/
theorem wrapper_spec {norm : String} {tiny θ : Rat} {m : Nat} {A T : Csr Rat} {cp : Array Nat} (hn : 0 < A.rows)
    (h : wrapper norm tiny θ m A = some (T, cp)) :
    ∃ ls k, levels norm tiny θ m A = some ls ∧ 1 ≤ ls.length ∧ ls.length ≤ m ∧ 0 < k ∧
      MatchChain A.rows (maps ls) ∧ AccOK A.rows k T cp (composeAll (maps ls)) := by
  unfold wrapper at h
  split at h
  · rename_i hc
    obtain ⟨m', rfl⟩ : ∃ m', m = m' + 1 := ⟨m - 1, by omega⟩
    unfold loop at h
    unfold levels
    cases hm : matchOnce norm tiny θ A with
    | none => rw [hm] at h; cases h
    | some res =>
      obtain ⟨x, y, k⟩ := res
      rw [hm] at h
      simp only at h ⊢
      obtain ⟨hy, hx, hr, hfib⟩ := matchOnce_spec hm
      have hk : k ≠ 0 := by have := hx 0 hn; omega
      rw [if_neg hk] at h ⊢
      rw [tTemp_pos hk] at h ⊢
      have hmap : ∀ v, v < A.rows → (fun v => ExtPw.rd x v - 1) v < k := by
        intro v hv; have := hx v hv; show ExtPw.rd x v - 1 < k; omega
      have hacc1 := first_acc hy hx hr
      by_cases hr0 : m' = 0
      · rw [if_pos hr0] at h ⊢
        simp only [Option.some.injEq, Prod.mk.injEq] at h
        obtain ⟨rfl, rfl⟩ := h
        refine ⟨[(x, y, k)], k, rfl, by simp, by simp, by omega, ?_, hacc1⟩
        exact MatchChain.cons hmap hfib (MatchChain.nil k)
      · rw [if_neg hr0] at h ⊢
        have hrows : (galerkin (transpose (Canon.pwT A.rows k x)) A (Canon.pwT A.rows k x)).rows = k := rfl
        obtain ⟨ls, k', e1, e2, e3, e4, e5⟩ := loop_spec norm tiny θ m' _ A.rows _ _ _ T cp (by rw [hrows]; omega)
          (by rw [hrows]; exact hacc1) h
        rw [e1]
        rw [hrows] at e3
        refine ⟨(x, y, k) :: ls, k', rfl, by simp, by simp; omega, ?_, MatchChain.cons hmap hfib e3, e4⟩
        rcases e5 with e5 | e5
        · exact absurd e5 hr0
        · exact e5
  · cases h

/-- **the `2^m` bound for the composed model**: every aggregate of the returned `T` has at most
`2^(number of matchings performed) <= 2^matchings` nodes -/
theorem wrapper_fiber {norm : String} {tiny θ : Rat} {m : Nat} {A T : Csr Rat} {cp : Array Nat} (hn : 0 < A.rows)
    (h : wrapper norm tiny θ m A = some (T, cp)) :
    ∃ F k, IsAssign T A.rows k F ∧ FiberLe A.rows F (2 ^ m) := by
  obtain ⟨ls, k, _, _, hlen, _, hchain, hacc⟩ := wrapper_spec hn h
  refine ⟨composeAll (maps ls), k, hacc.assign, ?_⟩
  intro a
  have h1 := matchChain_fiber hchain a
  have h2 : (maps ls).length = ls.length := by unfold maps; simp
  rw [h2] at h1
  exact Nat.le_trans h1 (Nat.pow_le_pow_right (by omega) hlen)

/-- the roots are distinct -/
theorem AccOK.roots_distinct {n0 k : Nat} {T : Csr Rat} {cp : Array Nat} {F : Nat → Nat} (h : AccOK n0 k T cp F)
    {a b : Nat} (ha : a < k) (hb : b < k) (hab : rdN cp a = rdN cp b) : a = b := by
  have h1 := (h.root a ha).2
  have h2 := (h.root b hb).2
  rw [hab] at h1
  omega

/-- the model answers exactly for square well-formed matrices with `matchings >= 1` on which every kernel call
stays inside its arrays -/
theorem wrapper_none_of {norm : String} {tiny θ : Rat} {m : Nat} {A : Csr Rat}
    (h : ¬ (A.wf = true ∧ A.rows = A.cols ∧ 0 < m)) : wrapper norm tiny θ m A = none := by
  unfold wrapper
  rw [if_neg h]

/-! projections used by the non-vacuity examples (`Csr Rat` has no `DecidableEq`) -/
def shapeOf (r : Option (Csr Rat × Array Nat)) : Option (Nat × Nat × Array Nat) :=
  r.map fun r => (r.1.rows, r.1.cols, r.2)
def arraysOf (r : Option (Csr Rat × Array Nat)) : Option (Array Nat × Array Nat × Array Rat) :=
  r.map fun r => (r.1.ap, r.1.aj, r.1.ax)

end PyamgV.C12ZW
