import PyamgV.Model.ExtGraph
import PyamgV.Proofs.MisParTerm2
import PyamgV.Proofs.ColoringLoop

/-! PyamgV (C18 extension): bridge from the validated CSR-array model of one sweep of
`maximal_independent_set_parallel` (`G.misParPass`, `G.misParallel … (some 1)`) to the proof-side
sweep `parPass`, plus what a sweep does on an array that already holds other values (old colours):
generalised invariant, returned count = number of new `C` entries, progress. Core Lean only. -/
namespace PyamgV.Ext
open PyamgV PyamgV.Col

variable {W : Type} [LT W] [DecidableRel (α := W) (· < ·)] [DecidableEq W] [Inhabited W]

/-- proof-side graph (`adj` function) of CSR arrays -/
def pg (Gc : G.Graph) : Graph := ⟨Gc.n, Gc.row⟩

/-- weight array read as a function -/
def look (y : Array W) : Nat → W := fun i => y.getD i default

theorem scanNbrs_eq (act C : Int) (x : Array Int) (y : Array W) (i : Nat) :
    ∀ l, G.scanNbrs act C x y i l = scanP act C x (look y) i l := by
  intro l
  induction l with
  | nil => rfl
  | cons j js ih =>
    simp only [G.scanNbrs, scanP, ih]
    rfl

/-- one step of the sweep with its bookkeeping (count, `active_nodes` flag) -/
def cstep (Gc : G.Graph) (act C F : Int) (y : Array W) (acc : Array Int × Nat × Bool) (i : Nat) :
    Array Int × Nat × Bool :=
  if rd acc.1 i ≠ act then acc else
    match scanP act C acc.1 (look y) i (Gc.row i) with
    | some true => (wr acc.1 i F, acc.2.1, true)
    | some false => (acc.1, acc.2.1, true)
    | none => (wr (misInner act F acc.1 (Gc.row i)) i C, acc.2.1 + 1, acc.2.2)

theorem misParPass_eq (Gc : G.Graph) (act C F : Int) (y : Array W) (x : Array Int) :
    G.misParPass Gc act C F y x = (List.range Gc.n).foldl (cstep Gc act C F y) (x, 0, false) := by
  unfold G.misParPass
  congr 1
  funext acc i
  obtain ⟨x, cnt, a⟩ := acc
  simp only [cstep]
  rw [scanNbrs_eq]
  by_cases h : rd x i ≠ act
  · have h' : G.rdI x i ≠ act := h
    rw [if_pos h, if_pos h']
  · have h' : ¬ G.rdI x i ≠ act := h
    rw [if_neg h, if_neg h']
    cases scanP act C x (look y) i (Gc.row i) with
    | none => rfl
    | some b => cases b <;> rfl

theorem cstep_fst (Gc : G.Graph) (act C F : Int) (y : Array W) (acc : Array Int × Nat × Bool)
    (i : Nat) : (cstep Gc act C F y acc i).1 = parStep (pg Gc) act C F (look y) acc.1 i := by
  unfold cstep parStep
  by_cases h : rd acc.1 i ≠ act
  · rw [if_pos h, if_pos h]
  · rw [if_neg h, if_neg h]
    show (match scanP act C acc.1 (look y) i (Gc.row i) with
      | some true => (wr acc.1 i F, acc.2.1, true)
      | some false => (acc.1, acc.2.1, true)
      | none => (wr (misInner act F acc.1 (Gc.row i)) i C, acc.2.1 + 1, acc.2.2)).1 =
      match scanP act C acc.1 (look y) i (Gc.row i) with
      | some true => wr acc.1 i F
      | some false => acc.1
      | none => wr (misInner act F acc.1 (Gc.row i)) i C
    cases scanP act C acc.1 (look y) i (Gc.row i) with
    | none => rfl
    | some b => cases b <;> rfl

theorem cfold_fst (Gc : G.Graph) (act C F : Int) (y : Array W) :
    ∀ (l : List Nat) (acc : Array Int × Nat × Bool),
      (l.foldl (cstep Gc act C F y) acc).1 = l.foldl (parStep (pg Gc) act C F (look y)) acc.1 := by
  intro l
  induction l with
  | nil => intro acc; rfl
  | cons i is ih => intro acc; rw [List.foldl_cons, List.foldl_cons, ih, cstep_fst]

/-- the array returned by the validated sweep model is the proof-side sweep -/
theorem misParPass_fst (Gc : G.Graph) (act C F : Int) (y : Array W) (x : Array Int) :
    (G.misParPass Gc act C F y x).1 = parPass (pg Gc) act C F (look y) x := by
  rw [misParPass_eq, cfold_fst]; rfl

/-- `max_iters = 1` is exactly one sweep -/
theorem misParallel_one (Gc : G.Graph) (act C F : Int) (y : Array W) (x : Array Int) :
    G.misParallel Gc act C F y (some 1) x =
      ((G.misParPass Gc act C F y x).1, (G.misParPass Gc act C F y x).2.1) := by
  unfold G.misParallel
  simp only [G.misParallel.go]
  rcases G.misParPass Gc act C F y x with ⟨x', c, a⟩
  cases a <;> simp


/-! ### a sweep on an array holding other values -/

/-- generalised invariant of a sweep started from `x0`, in which the markers `C`, `F` do not occur -/
structure PG (G : Graph) (act C F : Int) (x0 x : Array Int) : Prop where
  size : x.size = G.n
  vals : ∀ i, i < G.n → (rd x0 i ≠ act ∧ rd x i = rd x0 i) ∨
    (rd x0 i = act ∧ (rd x i = act ∨ rd x i = C ∨ rd x i = F))
  cnb : ∀ i, i < G.n → rd x i = C → ∀ j ∈ G.adj i, j ≠ i → rd x j ≠ act ∧ rd x j ≠ C
  fnb : ∀ j, j < G.n → rd x j = F → ∃ i, i < G.n ∧ rd x i = C

theorem PG_init (G : Graph) (act C F : Int) (x0 : Array Int) (hsz : x0.size = G.n)
    (hfresh : ∀ i, i < G.n → rd x0 i ≠ C ∧ rd x0 i ≠ F) : PG G act C F x0 x0 := by
  refine ⟨hsz, ?_, ?_, ?_⟩
  · intro i _
    by_cases ha : rd x0 i = act
    · exact Or.inr ⟨ha, Or.inl ha⟩
    · exact Or.inl ⟨ha, rfl⟩
  · intro i hi hiC; exact absurd hiC (hfresh i hi).1
  · intro j hj hjF; exact absurd hjF (hfresh j hj).2

theorem parStep_PG (G : Graph) (hG : GraphOK G) (act C F : Int)
    (hCA : C ≠ act) (hFA : F ≠ act) (hCF : C ≠ F) (y : Nat → W) (x0 : Array Int)
    (k : Nat) (hk : k < G.n) (x : Array Int) (h : PG G act C F x0 x) :
    PG G act C F x0 (parStep G act C F y x k) := by
  unfold parStep
  by_cases hx : rd x k ≠ act
  · rw [if_pos hx]; exact h
  · have hxk : rd x k = act := by simpa using hx
    rw [if_neg hx]
    have hks : k < x.size := by rw [h.size]; exact hk
    have hk0 : rd x0 k = act := by
      rcases h.vals k hk with ⟨h1, h2⟩ | ⟨h1, _⟩
      · rw [h2] at hxk; exact absurd hxk h1
      · exact h1
    cases hs : scanP act C x y k (G.adj k) with
    | some b =>
      cases b with
      | false => exact h
      | true =>
        obtain ⟨j, hj, hjC⟩ := scanP_true _ hs
        have hjn : j < G.n := hG.bound k hk j hj
        have hjk : j ≠ k := by intro e; subst e; rw [hxk] at hjC; exact hCA hjC.symm
        have hnew : ∀ m, rd (wr x k F) m = if m = k then F else rd x m := by
          intro m; rw [rd_wr]
          by_cases hmk : k = m
          · subst hmk; simp [hks]
          · have : m ≠ k := fun e => hmk e.symm
            simp [hmk, this]
        refine ⟨by simp [h.size], ?_, ?_, ?_⟩
        · intro i hi; rw [hnew]
          by_cases hik : i = k
          · subst hik; rw [if_pos rfl]; exact Or.inr ⟨hk0, Or.inr (Or.inr rfl)⟩
          · rw [if_neg hik]; exact h.vals i hi
        · intro i hi hiC j' hj' hji
          rw [hnew] at hiC
          have hik : i ≠ k := by intro e; subst e; rw [if_pos rfl] at hiC; exact hCF hiC.symm
          rw [if_neg hik] at hiC
          have hold := h.cnb i hi hiC j' hj' hji
          have hjk' : j' ≠ k := by intro e; subst e; exact hold.1 hxk
          rw [hnew, if_neg hjk']; exact hold
        · intro j' hj' hjF
          refine ⟨j, hjn, ?_⟩
          rw [hnew, if_neg hjk]; exact hjC
    | none =>
      have hnoC := scanP_none _ hs
      have hb : ∀ j ∈ G.adj k, j < x.size := by
        intro j hj; rw [h.size]; exact hG.bound k hk j hj
      obtain ⟨hsz, hsp⟩ := misInner_spec act F hFA (G.adj k) x hb
      have hnew : ∀ m, rd (wr (misInner act F x (G.adj k)) k C) m =
          if m = k then C else if m ∈ G.adj k ∧ rd x m = act then F else rd x m := by
        intro m; rw [rd_wr, hsz]
        by_cases hmk : k = m
        · subst hmk; simp [hks]
        · have : m ≠ k := fun e => hmk e.symm
          simp only [hmk, false_and, if_false, this]; exact hsp m
      refine ⟨by simp [hsz, h.size], ?_, ?_, ?_⟩
      · intro i hi; rw [hnew]
        by_cases hik : i = k
        · subst hik; rw [if_pos rfl]; exact Or.inr ⟨hk0, Or.inr (Or.inl rfl)⟩
        · rw [if_neg hik]
          by_cases hc : i ∈ G.adj k ∧ rd x i = act
          · rw [if_pos hc]
            rcases h.vals i hi with ⟨h1, h2⟩ | ⟨h1, _⟩
            · rw [h2] at hc; exact absurd hc.2 h1
            · exact Or.inr ⟨h1, Or.inr (Or.inr rfl)⟩
          · rw [if_neg hc]; exact h.vals i hi
      · intro i hi hiC j hj hji
        rw [hnew] at hiC
        rw [hnew]
        by_cases hik : i = k
        · subst hik
          rw [if_neg hji]
          by_cases hja : rd x j = act
          · rw [if_pos ⟨hj, hja⟩]; exact ⟨hFA, fun e => hCF e.symm⟩
          · rw [if_neg (fun hc => hja hc.2)]; exact ⟨hja, hnoC j hj⟩
        · rw [if_neg hik] at hiC
          have hiC' : rd x i = C := by
            by_cases hc : i ∈ G.adj k ∧ rd x i = act
            · rw [if_pos hc] at hiC; exact absurd hiC.symm hCF
            · rw [if_neg hc] at hiC; exact hiC
          have hold := h.cnb i hi hiC' j hj hji
          have hjk : j ≠ k := by intro e; subst e; exact hold.1 hxk
          rw [if_neg hjk, if_neg (fun hc => hold.1 hc.2)]; exact hold
      · intro j hj _
        exact ⟨k, hk, by rw [hnew, if_pos rfl]⟩

theorem parPass_PG (G : Graph) (hG : GraphOK G) (act C F : Int)
    (hCA : C ≠ act) (hFA : F ≠ act) (hCF : C ≠ F) (y : Nat → W) (x0 : Array Int)
    (hsz : x0.size = G.n) (hfresh : ∀ i, i < G.n → rd x0 i ≠ C ∧ rd x0 i ≠ F) :
    PG G act C F x0 (parPass G act C F y x0) := by
  unfold parPass
  exact foldl_range_inv (fun _ s => PG G act C F x0 s) _ G.n x0 (PG_init G act C F x0 hsz hfresh)
    (fun k s hk hp => parStep_PG G hG act C F hCA hFA hCF y x0 k hk s hp)

/-- **progress**: a sweep that starts with an active node produces a `C` node -/
theorem parPass_progress (hW : WOrd W) (G : Graph) (hG : GraphOK G) (act C F : Int)
    (hCA : C ≠ act) (hFA : F ≠ act) (hCF : C ≠ F) (y : Nat → W) (x0 : Array Int)
    (hsz : x0.size = G.n) (hfresh : ∀ i, i < G.n → rd x0 i ≠ C ∧ rd x0 i ≠ F)
    (hsome : ∃ i, i < G.n ∧ rd x0 i = act) :
    ∃ i, i < G.n ∧ rd (parPass G act C F y x0) i = C := by
  have hP := parPass_PG G hG act C F hCA hFA hCF y x0 hsz hfresh
  obtain ⟨_, hlt⟩ := parPass_decreases hW G hG act C F hCA hFA y x0 hsz hsome
  -- some node stopped being active
  have hex : ∃ m, m < G.n ∧ rd x0 m = act ∧ rd (parPass G act C F y x0) m ≠ act := by
    apply Classical.byContradiction
    intro hne
    have hle : nAct G.n act x0 ≤ nAct G.n act (parPass G act C F y x0) := by
      unfold nAct
      apply List.countP_mono_left
      intro m hm hp
      have hm' := List.mem_range.1 hm
      have hp' : rd x0 m = act := by simpa using hp
      have : rd (parPass G act C F y x0) m = act := by
        apply Classical.byContradiction
        intro hn; exact hne ⟨m, hm', hp', hn⟩
      simpa using this
    omega
  obtain ⟨m, hm, hm0, hm1⟩ := hex
  rcases hP.vals m hm with ⟨h1, _⟩ | ⟨_, h2 | h2 | h2⟩
  · exact absurd hm0 h1
  · exact absurd h2 hm1
  · exact ⟨m, hm, h2⟩
  · exact hP.fnb m hm h2

/-! ### the returned count -/

theorem cstep_count (Gc : G.Graph) (hG : GraphOK (pg Gc)) (act C F : Int) (hCA : C ≠ act)
    (hFA : F ≠ act) (hCF : C ≠ F) (y : Array W) (acc : Array Int × Nat × Bool)
    (hsz : acc.1.size = Gc.n) (i : Nat) (hi : i < Gc.n) :
    (cstep Gc act C F y acc i).1.size = Gc.n ∧
    cntEq Gc.n C (cstep Gc act C F y acc i).1 + acc.2.1 =
      cntEq Gc.n C acc.1 + (cstep Gc act C F y acc i).2.1 := by
  unfold cstep
  by_cases h : rd acc.1 i ≠ act
  · rw [if_pos h]; exact ⟨hsz, rfl⟩
  · rw [if_neg h]
    have hxi : rd acc.1 i = act := by simpa using h
    have his : i < acc.1.size := by rw [hsz]; exact hi
    cases hs : scanP act C acc.1 (look y) i (Gc.row i) with
    | some b =>
      cases b with
      | false => exact ⟨hsz, rfl⟩
      | true =>
        refine ⟨by simpa using hsz, ?_⟩
        have : cntEq Gc.n C (wr acc.1 i F) = cntEq Gc.n C acc.1 := by
          unfold cntEq
          apply List.countP_congr
          intro m _
          rw [rd_wr]
          by_cases hmi : i = m
          · subst hmi
            have h1 : ¬ F = C := fun e => hCF e.symm
            have h2 : ¬ rd acc.1 i = C := by rw [hxi]; exact fun e => hCA e.symm
            simp [his, h1, h2]
          · simp [hmi]
        show cntEq Gc.n C (wr acc.1 i F) + acc.2.1 = cntEq Gc.n C acc.1 + acc.2.1
        rw [this]
    | none =>
      have hb : ∀ j ∈ Gc.row i, j < acc.1.size := by
        intro j hj; rw [hsz]; exact hG.bound i hi j hj
      obtain ⟨hs', hsp⟩ := misInner_spec act F hFA (Gc.row i) acc.1 hb
      refine ⟨by simpa [hsz] using hs', ?_⟩
      have hnew : ∀ m, rd (wr (misInner act F acc.1 (Gc.row i)) i C) m =
          if m = i then C else if m ∈ Gc.row i ∧ rd acc.1 m = act then F else rd acc.1 m := by
        intro m; rw [rd_wr, hs']
        by_cases hmk : i = m
        · subst hmk; simp [his]
        · have : m ≠ i := fun e => hmk e.symm
          simp only [hmk, false_and, if_false, this]; exact hsp m
      have hflip : cntEq Gc.n C (wr (misInner act F acc.1 (Gc.row i)) i C) =
          cntEq Gc.n C acc.1 + 1 := by
        unfold cntEq
        apply countP_flip (List.nodup_range) (k := i) (List.mem_range.2 hi)
        · intro m _ hmi
          rw [hnew m, if_neg hmi]
          by_cases hc : m ∈ Gc.row i ∧ rd acc.1 m = act
          · rw [if_pos hc]
            have h1 : ¬ F = C := fun e => hCF e.symm
            have h2 : ¬ rd acc.1 m = C := by rw [hc.2]; exact fun e => hCA e.symm
            simp [h1, h2]
          · rw [if_neg hc]
        · have : ¬ rd acc.1 i = C := by rw [hxi]; exact fun e => hCA e.symm
          simpa using this
        · have : rd (wr (misInner act F acc.1 (Gc.row i)) i C) i = C := by
            rw [hnew i, if_pos rfl]
          simpa using this
      show cntEq Gc.n C (wr (misInner act F acc.1 (Gc.row i)) i C) + acc.2.1 =
        cntEq Gc.n C acc.1 + (acc.2.1 + 1)
      rw [hflip]; omega

theorem misParPass_count (Gc : G.Graph) (hG : GraphOK (pg Gc)) (act C F : Int) (hCA : C ≠ act)
    (hFA : F ≠ act) (hCF : C ≠ F) (y : Array W) (x : Array Int) (hsz : x.size = Gc.n) :
    cntEq Gc.n C (G.misParPass Gc act C F y x).1 =
      cntEq Gc.n C x + (G.misParPass Gc act C F y x).2.1 := by
  rw [misParPass_eq]
  have key := foldl_range_inv
    (fun (_ : Nat) (acc : Array Int × Nat × Bool) =>
      acc.1.size = Gc.n ∧ cntEq Gc.n C acc.1 = cntEq Gc.n C x + acc.2.1)
    (cstep Gc act C F y) Gc.n (x, 0, false) ⟨hsz, rfl⟩
    (by
      intro k acc hk ⟨h1, h2⟩
      obtain ⟨h3, h4⟩ := cstep_count Gc hG act C F hCA hFA hCF y acc h1 k hk
      exact ⟨h3, by omega⟩)
  exact key.2

end PyamgV.Ext
