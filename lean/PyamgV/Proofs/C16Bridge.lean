import PyamgV.Model.C16Coarse
import PyamgV.Proofs.C16LinAlg
import Mathlib.Algebra.BigOperators.Fin

/-! PyamgV (C16): the dense array operations of `Model/C16Coarse.lean` (the ones the driver runs) read
as Mathlib matrices: `toMat`, `toVec`; `mulD`, `conjT id`, `idD`, `matVec`, `submat`, `gather`,
`scatter` are matrix product, transpose, `1`, `mulVec`, `submatrix`, `Mapᵀ b`, `Map y`.  Hence the
Boolean certificates `isPinv`, `isInv` the driver evaluates imply the Penrose equations / `A X = 1`
for the matrices the theorems of `C16LinAlg.lean` are about. -/
namespace PyamgV.C16
open PyamgV.K PyamgV.C02 Matrix
set_option linter.unusedSectionVars false

variable {K : Type} [Field K] [DecidableEq K]

def toMat (M : Dense K) (n : Nat) : Matrix (Fin n) (Fin n) K := Matrix.of fun i j => rdD M i.1 j.1
def toVec (x : Array K) (n : Nat) : Fin n → K := fun i => rd x i.1
theorem toMat_apply (M : Dense K) (n : Nat) (i j : Fin n) : toMat M n i j = rdD M i.1 j.1 := rfl
theorem toVec_apply (x : Array K) (n : Nat) (i : Fin n) : toVec x n i = rd x i.1 := rfl

theorem rd_range_map (f : Nat → K) (n i : Nat) (h : i < n) : rd ((Array.range n).map f) i = f i := by
  simp [rd, h]

theorem getD_range_map (f : Nat → Array K) (n i : Nat) (h : i < n) :
    ((Array.range n).map f).getD i #[] = f i := by
  simp [h]

theorem rdD_range_map (f : Nat → Array K) (n i j : Nat) (h : i < n) :
    rdD ((Array.range n).map f) i j = rd (f i) j := by
  unfold rdD; rw [getD_range_map f n i h]

theorem rdD_range_map2 (g : Nat → Nat → K) (nr nc i j : Nat) (hi : i < nr) (hj : j < nc) :
    rdD ((Array.range nr).map (fun i => (Array.range nc).map (fun j => g i j))) i j = g i j := by
  rw [rdD_range_map _ nr i j hi, rd_range_map _ nc j hj]

theorem foldl_sum (f : Nat → K) (m : Nat) :
    (List.range m).foldl (fun s k => s + f k) (0 : K) = ∑ k : Fin m, f k.1 := by
  induction m with
  | zero => simp
  | succ m ih => rw [List.range_succ, List.foldl_append, ih, Fin.sum_univ_castSucc]; simp

theorem toMat_mulD (A B : Dense K) (n : Nat) : toMat (mulD A B n n n) n = toMat A n * toMat B n := by
  ext i j
  rw [Matrix.mul_apply, toMat_apply]
  unfold mulD
  rw [rdD_range_map2 _ n n i.1 j.1 i.2 j.2, foldl_sum]
  rfl

theorem toMat_normalize (M : Dense K) (n : Nat) : toMat (normalize M n n) n = toMat M n := by
  ext i j
  rw [toMat_apply, toMat_apply]
  unfold normalize
  rw [rdD_range_map2 _ n n i.1 j.1 i.2 j.2]

theorem toMat_conjT (M : Dense K) (n : Nat) : toMat (conjT id M n n) n = (toMat M n)ᵀ := by
  ext i j
  rw [Matrix.transpose_apply, toMat_apply, toMat_apply]
  unfold conjT
  rw [rdD_range_map2 (fun j i => id (rdD M i j)) n n i.1 j.1 i.2 j.2]
  rfl

theorem toMat_idD (n : Nat) : toMat (idD n : Dense K) n = 1 := by
  ext i j
  rw [toMat_apply]
  unfold idD
  rw [rdD_range_map2 _ n n i.1 j.1 i.2 j.2, Matrix.one_apply]
  simp [Fin.ext_iff]

theorem toVec_matVec (M : Dense K) (n : Nat) (x : Array K) :
    toVec (matVec M n n x) n = toMat M n *ᵥ toVec x n := by
  funext i
  rw [toVec_apply]
  unfold matVec
  rw [rd_range_map _ n i.1 i.2, foldl_sum]
  rfl

/-- the Boolean certificate the driver evaluates implies the Penrose equations of the matrices read
off the arrays -/
theorem isPinv_sound (A X : Dense K) (n : Nat) (h : isPinv id A X n = true) :
    C16LA.Penrose (toMat A n) (toMat X n) := by
  unfold isPinv at h
  simp only [Bool.and_eq_true, decide_eq_true_eq] at h
  obtain ⟨⟨⟨h1, h2⟩, h3⟩, h4⟩ := h
  have e1 := congrArg (fun M => toMat M n) h1
  have e2 := congrArg (fun M => toMat M n) h2
  have e3 := congrArg (fun M => toMat M n) h3
  have e4 := congrArg (fun M => toMat M n) h4
  simp only [toMat_mulD, toMat_normalize, toMat_conjT] at e1 e2 e3 e4
  exact ⟨e1, e2, e3, e4⟩

theorem isInv_sound (M X : Dense K) (n : Nat) (h : isInv M X n = true) : toMat M n * toMat X n = 1 := by
  unfold isInv at h
  simp only [decide_eq_true_eq] at h
  have e := congrArg (fun M => toMat M n) h
  simpa only [toMat_mulD, toMat_idD] using e


/-! ### the `splu` compression on arrays -/

/-- the selected indices as a map `Fin r → Fin n` -/
def selIdx (nz : List Nat) (n : Nat) (h : ∀ j ∈ nz, j < n) : Fin nz.length → Fin n :=
  fun k => ⟨nz[k.1], h _ (List.getElem_mem k.2)⟩

theorem selIdx_injective (nz : List Nat) (n : Nat) (h : ∀ j ∈ nz, j < n) (hnd : nz.Nodup) :
    Function.Injective (selIdx nz n h) := by
  intro a b hab
  have : nz[a.1] = nz[b.1] := congrArg Fin.val hab
  exact Fin.ext ((List.Nodup.getElem_inj_iff hnd).1 this)

theorem rdD_submat (M : Dense K) (nz : List Nat) (k l : Nat) (hk : k < nz.length) (hl : l < nz.length) :
    rdD (submat M nz nz) k l = rdD M nz[k] nz[l] := by
  unfold submat rdD
  simp [rd, hk, hl]

theorem toMat_submat (M : Dense K) (nz : List Nat) (n : Nat) (h : ∀ j ∈ nz, j < n) :
    toMat (submat M nz nz) nz.length = (toMat M n).submatrix (selIdx nz n h) (selIdx nz n h) := by
  ext k l
  rw [toMat_apply, rdD_submat M nz k.1 l.1 k.2 l.2]
  rfl

theorem toVec_gather (nz : List Nat) (b : Array K) (n : Nat) (h : ∀ j ∈ nz, j < n) :
    toVec (gather nz b) nz.length = toVec b n ∘ selIdx nz n h := by
  funext k
  rw [toVec_apply]
  unfold gather
  simp [rd, selIdx, toVec, k.2]

theorem toVec_scatter (nz : List Nat) (y : Array K) (n : Nat) (h : ∀ j ∈ nz, j < n) (hnd : nz.Nodup) :
    toVec (scatter nz y n) n = C16LA.sel (selIdx nz n h) *ᵥ toVec y nz.length := by
  funext j
  rw [toVec_apply]
  unfold scatter
  rw [rd_range_map _ n j.1 j.2]
  by_cases hj : j.1 ∈ nz
  · rw [if_pos hj]
    have hlt : nz.idxOf j.1 < nz.length := List.idxOf_lt_length_iff.2 hj
    have hk : selIdx nz n h ⟨nz.idxOf j.1, hlt⟩ = j := by
      apply Fin.ext
      simp [selIdx]
    rw [← hk, C16LA.sel_mulVec_on _ (selIdx_injective nz n h hnd)]
    simp [hk, toVec]
  · rw [if_neg hj]
    rw [C16LA.sel_mulVec_off]
    intro k hk
    apply hj
    have : nz[k.1] = j.1 := congrArg Fin.val hk
    rw [← this]
    exact List.getElem_mem k.2

end PyamgV.C16
