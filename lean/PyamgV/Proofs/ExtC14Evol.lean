import PyamgV.Proofs.ExtC14Energy
import PyamgV.Model.ExtC14Evol

/-! PyamgV (C14, extension E28): theorems about the model `evolFull` of `evolution_strength_of_connection`
(`NullDim == 1`, `k = 2^(m+1)`, canonical CSR input).

* `mergeInner_spec`, `myInner_spec`: the two-pointer loop `my_inner` on sorted, duplicate-free index lists is the sparse
  dot product; on the stored row `i` / column `j` of a dense matrix `M` it is `Σ_k M(i,k) M(k,j)`: the kernel
  `incomplete_mat_mult_csr(M, M, mask)` writes the entries of `M·M` (`matSq`) onto the mask (`evP_entry`);
* `evStrengthRow_spec`: the strength values are non-negative and live on the pattern of `Atilde`;
* `evolFull_contract`: the common contract for the returned matrix. -/
namespace PyamgV.C14
open PyamgV PyamgV.N

/-! ### sums -/

theorem foldl_add_sum {α : Type} (l : List α) (f : α → Rat) (s : Rat) :
    l.foldl (fun s k => s + f k) s = s + (l.map f).sum := by
  induction l generalizing s with
  | nil => simp
  | cons a t ih => simp only [List.foldl_cons, List.map_cons, List.sum_cons]; rw [ih]; ring

theorem sumR_eq (n : Nat) (f : Nat → Rat) : sumR n f = ((List.range n).map f).sum := by
  unfold sumR; rw [foldl_add_sum]; ring

/-! ### `my_inner` -/

def SortedCols (a : Row) : Prop := a.Pairwise fun x y => x.1 < y.1

theorem entryOf_nil (j : Nat) : entryOf [] j = 0 := by simp [entryOf]

theorem entryOf_cons (c : Nat × Rat) (t : Row) (j : Nat) :
    entryOf (c :: t) j = if c.1 = j then c.2 else entryOf t j := by
  unfold entryOf
  by_cases h : c.1 = j
  · simp [h]
  · have : (c.1 == j) = false := by simpa using h
    simp [this, h]

theorem entryOf_absent (b : Row) (j : Nat) (h : ∀ cv ∈ b, cv.1 ≠ j) : entryOf b j = 0 := by
  induction b with
  | nil => exact entryOf_nil j
  | cons c t ih =>
    rw [entryOf_cons, if_neg (h c List.mem_cons_self)]
    exact ih fun cv hcv => h cv (List.mem_cons_of_mem _ hcv)

theorem sum_map_zero {α : Type} (l : List α) : (l.map fun _ => (0 : Rat)).sum = 0 := by
  induction l with
  | nil => rfl
  | cons a t ih => simp only [List.map_cons, List.sum_cons, ih, add_zero]

theorem sum_map_congr {α : Type} (l : List α) (f g : α → Rat) (h : ∀ x ∈ l, f x = g x) :
    (l.map f).sum = (l.map g).sum := by
  rw [List.map_congr_left h]

/-- **`my_inner` is the sparse dot product**: on index lists that are strictly increasing (canonical CSR row, canonical
CSC column) and with enough fuel, the two-pointer loop returns `s + Σ_{(k,v) ∈ a} v · b(k)` -/
theorem mergeInner_spec (f : Nat) (a b : Row) (s : Rat) (ha : SortedCols a) (hb : SortedCols b)
    (hf : a.length + b.length ≤ f) :
    mergeInner f a b s = s + (a.map fun cv => cv.2 * entryOf b cv.1).sum := by
  induction f generalizing a b s with
  | zero =>
    have h1 : a = [] := List.eq_nil_of_length_eq_zero (by omega)
    subst h1; simp [mergeInner]
  | succ f ih =>
    cases a with
    | nil => simp [mergeInner]
    | cons ca ta =>
      obtain ⟨ja, va⟩ := ca
      cases b with
      | nil =>
        simp only [mergeInner]
        have : ((((ja, va) :: ta).map fun cv => cv.2 * entryOf [] cv.1)).sum = 0 := by
          rw [sum_map_congr _ _ (fun _ => (0 : Rat)) (fun x _ => by rw [entryOf_nil]; ring)]
          exact sum_map_zero _
        rw [this]; ring
      | cons cb tb =>
        obtain ⟨jb, vb⟩ := cb
        have ha' := List.pairwise_cons.1 ha
        have hb' := List.pairwise_cons.1 hb
        simp only [List.length_cons] at hf
        simp only [mergeInner]
        by_cases h1 : ja = jb
        · subst h1
          rw [if_pos rfl, ih ta tb _ ha'.2 hb'.2 (by omega)]
          simp only [List.map_cons, List.sum_cons]
          rw [entryOf_cons, if_pos rfl]
          rw [sum_map_congr ta (fun cv => cv.2 * entryOf ((ja, vb) :: tb) cv.1) (fun cv => cv.2 * entryOf tb cv.1)
            (fun x hx => by
              have : ja < x.1 := ha'.1 x hx
              rw [entryOf_cons, if_neg (by simp only; omega)])]
          ring
        · rw [if_neg h1]
          by_cases h2 : ja < jb
          · rw [if_pos h2, ih ta ((jb, vb) :: tb) s ha'.2 hb (by simp only [List.length_cons]; omega)]
            simp only [List.map_cons, List.sum_cons]
            have h0 : entryOf ((jb, vb) :: tb) ja = 0 := by
              apply entryOf_absent
              intro cv hcv
              rcases List.mem_cons.1 hcv with rfl | hcv
              · simp only; omega
              · have : jb < cv.1 := hb'.1 cv hcv
                omega
            rw [h0]; ring
          · rw [if_neg h2, ih ((ja, va) :: ta) tb s ha hb'.2 (by simp only [List.length_cons]; omega)]
            congr 1
            apply sum_map_congr
            intro x hx
            have hx1 : ja ≤ x.1 := by
              rcases List.mem_cons.1 hx with rfl | hx
              · exact le_refl _
              · exact le_of_lt (ha'.1 x hx)
            rw [entryOf_cons, if_neg (by simp only; omega)]

/-! ### stored rows / columns of a dense matrix -/

/-- non-zero entries of `k ↦ v k` over an index list -/
def spOf (l : List Nat) (v : Nat → Rat) : Row := l.filterMap fun k => if v k ≠ 0 then some (k, v k) else none

theorem spRow_eq (n : Nat) (M : Mat) (i : Nat) : spRow n M i = spOf (List.range n) fun k => mget M i k := rfl
theorem spCol_eq (n : Nat) (M : Mat) (j : Nat) : spCol n M j = spOf (List.range n) fun k => mget M k j := rfl

theorem spOf_cons (k : Nat) (t : List Nat) (v : Nat → Rat) :
    spOf (k :: t) v = if v k ≠ 0 then (k, v k) :: spOf t v else spOf t v := by
  unfold spOf
  by_cases h : v k ≠ 0
  · simp [h]
  · simp [h]

theorem spOf_mem (l : List Nat) (v : Nat → Rat) (cv : Nat × Rat) (h : cv ∈ spOf l v) : cv.1 ∈ l ∧ cv.2 = v cv.1 := by
  unfold spOf at h
  obtain ⟨k, hk, hkv⟩ := List.mem_filterMap.1 h
  by_cases h0 : v k ≠ 0
  · rw [if_pos h0] at hkv
    have := Option.some.inj hkv
    subst this
    exact ⟨hk, rfl⟩
  · rw [if_neg h0] at hkv; exact absurd hkv (by simp)

theorem spOf_sorted (l : List Nat) (v : Nat → Rat) (hl : l.Pairwise (· < ·)) : SortedCols (spOf l v) := by
  induction l with
  | nil => simp [spOf, SortedCols]
  | cons k t ih =>
    have hl' := List.pairwise_cons.1 hl
    rw [spOf_cons]
    by_cases h0 : v k ≠ 0
    · rw [if_pos h0]
      unfold SortedCols
      rw [List.pairwise_cons]
      refine ⟨?_, ih hl'.2⟩
      intro cv hcv
      exact hl'.1 _ (spOf_mem t v cv hcv).1
    · rw [if_neg h0]; exact ih hl'.2

theorem entryOf_spOf (l : List Nat) (v : Nat → Rat) (k : Nat) : entryOf (spOf l v) k = if k ∈ l then v k else 0 := by
  induction l with
  | nil => simp [spOf, entryOf_nil]
  | cons k' t ih =>
    rw [spOf_cons]
    by_cases h0 : v k' ≠ 0
    · rw [if_pos h0, entryOf_cons]
      by_cases hk : k' = k
      · subst hk; simp
      · rw [if_neg hk, ih]
        have : (k ∈ k' :: t) ↔ k ∈ t := by
          rw [List.mem_cons]; constructor
          · rintro (h | h)
            · exact absurd h.symm hk
            · exact h
          · exact Or.inr
        simp only [this]
    · rw [if_neg h0, ih]
      have h0' : v k' = 0 := not_not.1 h0
      by_cases hk : k' = k
      · subst hk
        simp only [List.mem_cons, true_or, if_true]
        rw [h0']; split <;> rfl
      · have : (k ∈ k' :: t) ↔ k ∈ t := by
          rw [List.mem_cons]; constructor
          · rintro (h | h)
            · exact absurd h.symm hk
            · exact h
          · exact Or.inr
        simp only [this]

theorem sum_spOf (l : List Nat) (v h : Nat → Rat) :
    ((spOf l v).map fun cv => cv.2 * h cv.1).sum = (l.map fun k => v k * h k).sum := by
  induction l with
  | nil => simp [spOf]
  | cons k t ih =>
    rw [spOf_cons]
    by_cases h0 : v k ≠ 0
    · rw [if_pos h0]; simp only [List.map_cons, List.sum_cons]; rw [ih]
    · rw [if_neg h0, ih]
      have h0' : v k = 0 := not_not.1 h0
      simp only [List.map_cons, List.sum_cons, h0']; ring

/-- **the kernel's inner product of stored row `i` and stored column `j` of `M` is `(M·M)(i,j)`** -/
theorem myInner_spec (n : Nat) (M : Mat) (i j : Nat) :
    myInner (spRow n M i) (spCol n M j) = sumR n fun k => mget M i k * mget M k j := by
  unfold myInner
  rw [mergeInner_spec _ _ _ 0 (by rw [spRow_eq]; exact spOf_sorted _ _ List.pairwise_lt_range)
    (by rw [spCol_eq]; exact spOf_sorted _ _ List.pairwise_lt_range) (le_refl _)]
  rw [zero_add, sumR_eq, spRow_eq, spCol_eq]
  refine Eq.trans (sum_map_congr _ _
    (fun cv => cv.2 * (fun k => if k ∈ List.range n then mget M k j else 0) cv.1)
    (fun x _ => by rw [entryOf_spOf])) ?_
  refine Eq.trans (sum_spOf (List.range n) (fun k => mget M i k)
    (fun k => if k ∈ List.range n then mget M k j else 0)) ?_
  apply sum_map_congr
  intro k hk
  simp only [hk, if_true]

/-- the value `incomplete_mat_mult_csr` writes to a mask position `(i, j)` is the entry of the matrix square -/
theorem myInner_eq_matSq (n : Nat) (M : Mat) (i j : Nat) (hi : i < n) (hj : j < n) :
    myInner (spRow n M i) (spCol n M j) = mget (matSq n M) i j := by
  rw [myInner_spec]; unfold matSq; rw [mget_mkMat n _ i j hi hj]

/-- row `i` of `evP`: the mask row with the inner products written onto it -/
theorem evP_row (n : Nat) (M : Mat) (mask : List Row) (i : Nat) :
    (evP n M mask)[i]? = (mask[i]?).map fun row => row.map fun cv => (cv.1, myInner (spRow n M i) (spCol n M cv.1)) := by
  unfold evP; rw [mapRows_getElem?]

/-! ### the strength values -/

theorem elimZeros_cols_sub (row : Row) : ∀ j ∈ (elimZeros row).map Prod.fst, j ∈ row.map Prod.fst := by
  intro j hj
  obtain ⟨cv, hcv, rfl⟩ := List.mem_map.1 hj
  exact List.mem_map.2 ⟨cv, elimZeros_sub row cv hcv, rfl⟩

/-- the `NullDim == 1` shortcut: columns inside the columns of the `Atilde` row, values non-negative -/
theorem evStrengthRow_spec (wk sqe perf : Rat) (hperf : 0 ≤ perf) (b : Array Rat) (i : Nat) (p : Row) :
    (∀ j ∈ (evStrengthRow wk sqe perf b i p).map Prod.fst, j ∈ p.map Prod.fst) ∧
    ∀ cv ∈ evStrengthRow wk sqe perf b i p, 0 ≤ cv.2 := by
  unfold evStrengthRow
  simp only
  constructor
  · intro j hj
    rw [List.map_map] at hj
    have : (Prod.fst ∘ fun cv : Nat × Rat => (cv.1, if cv.2 < sqe then perf else cv.2)) = Prod.fst := by
      funext cv; rfl
    rw [this] at hj
    have h2 := elimZeros_cols_sub _ j hj
    rw [List.map_map] at h2
    obtain ⟨cv, hcv, rfl⟩ := List.mem_map.1 h2
    exact List.mem_map.2 ⟨cv, hcv, rfl⟩
  · intro cv hcv
    obtain ⟨c, hc, rfl⟩ := List.mem_map.1 hcv
    have hc' := elimZeros_sub _ c hc
    obtain ⟨c0, _, rfl⟩ := List.mem_map.1 hc'
    have hx : ∀ x : Rat, 0 ≤ x → 0 ≤ (if x < sqe then perf else x) := by
      intro x hx
      split
      · exact hperf
      · exact hx
    apply hx
    split
    · exact le_refl _
    · exact absQ_nonneg _

theorem evAtilde_row (c : Rat) (m : Nat) (rows : List Row) (i : Nat) :
    (evAtilde c m rows)[i]? = (rows[i]?).map fun row =>
      elimZeros ((elimZeros row).map fun cv => (cv.1,
        myInner (spRow rows.length (iter (matSq rows.length) m (evTt rows.length c (dense rows.length rows))) i)
          (spCol rows.length (iter (matSq rows.length) m (evTt rows.length c (dense rows.length rows))) cv.1))) := by
  unfold evAtilde
  simp only
  rw [List.getElem?_map, evP_row, List.getElem?_map]
  cases rows[i]? <;> simp

theorem evMeasure_row (wk sqe perf c : Rat) (m : Nat) (b : Array Rat) (rows : List Row) (i : Nat) :
    (evMeasure wk sqe perf c m b rows)[i]? = ((evAtilde c m rows)[i]?).map (evStrengthRow wk sqe perf b i) := by
  unfold evMeasure; rw [mapRows_getElem?]

theorem evAtilde_length (c : Rat) (m : Nat) (rows : List Row) : (evAtilde c m rows).length = rows.length := by
  unfold evAtilde evP; simp [mapRows_length]

theorem evMeasure_length (wk sqe perf c : Rat) (m : Nat) (b : Array Rat) (rows : List Row) :
    (evMeasure wk sqe perf c m b rows).length = rows.length := by
  unfold evMeasure; rw [mapRows_length, evAtilde_length]

/-- the strength values handed to the drop-tolerance filter: non-negative, inside the stored pattern of `A` -/
theorem evMeasure_spec (wk sqe perf c : Rat) (hperf : 0 ≤ perf) (m : Nat) (b : Array Rat) (rows : List Row) :
    (∀ r ∈ evMeasure wk sqe perf c m b rows, ∀ cv ∈ r, 0 ≤ cv.2) ∧
    ∀ i j, j ∈ ((evMeasure wk sqe perf c m b rows).getD i []).map Prod.fst → j ∈ (rows.getD i []).map Prod.fst := by
  constructor
  · intro r hr
    obtain ⟨i, hi, hget⟩ := List.getElem_of_mem hr
    have h1 : (evMeasure wk sqe perf c m b rows)[i]? = some r := by rw [List.getElem?_eq_getElem hi, hget]
    rw [evMeasure_row] at h1
    cases h2 : (evAtilde c m rows)[i]? with
    | none => rw [h2] at h1; simp at h1
    | some p =>
      rw [h2] at h1
      simp only [Option.map_some, Option.some.injEq] at h1
      subst h1
      exact (evStrengthRow_spec wk sqe perf hperf b i p).2
  · intro i j hj
    rw [List.getD_eq_getElem?_getD, evMeasure_row, evAtilde_row] at hj
    rw [List.getD_eq_getElem?_getD]
    cases h2 : rows[i]? with
    | none => rw [h2] at hj; simp at hj
    | some row =>
      rw [h2] at hj
      simp only [Option.map_some, Option.getD_some] at hj ⊢
      have h3 := (evStrengthRow_spec wk sqe perf hperf b i _).1 j hj
      have h4 := elimZeros_cols_sub _ j h3
      rw [List.map_map] at h4
      obtain ⟨cv, hcv, rfl⟩ := List.mem_map.1 h4
      exact List.mem_map.2 ⟨cv, elimZeros_sub row cv hcv, rfl⟩

/-- **`k = 2`: the matrix handed to the strength computation is `((I - c D⁻¹A)²)ᵀ` on the stored non-zero pattern of `A`**:
the entry written at a stored position `(i, j)` is `Σ_k Tᵀ(i,k) Tᵀ(k,j)` with `Tᵀ(i,k) = δ_ik - c·D⁻¹_k·A(k,i)`
(`evTtEntry`), then exact zeros are eliminated -/
theorem evAtilde_k2 (c : Rat) (rows : List Row) (i : Nat) (hi : i < rows.length)
    (hcols : ∀ cv ∈ rows.getD i [], cv.1 < rows.length) :
    (evAtilde c 0 rows)[i]? = some (elimZeros ((elimZeros (rows.getD i [])).map fun cv =>
      (cv.1, sumR rows.length fun k =>
        evTtEntry c (dense rows.length rows) i k * evTtEntry c (dense rows.length rows) k cv.1))) := by
  rw [evAtilde_row, List.getElem?_eq_getElem hi, List.getD_eq_getElem?_getD, List.getElem?_eq_getElem hi]
  simp only [Option.map_some, Option.getD_some, iter]
  congr 2
  apply List.map_congr_left
  intro cv hcv
  have hj : cv.1 < rows.length := by
    apply hcols
    rw [List.getD_eq_getElem?_getD, List.getElem?_eq_getElem hi]
    exact elimZeros_sub _ cv hcv
  rw [myInner_spec]
  congr 1
  unfold sumR
  apply List.foldl_ext
  intro s k hk
  have hk' : k < rows.length := List.mem_range.1 hk
  unfold evTt
  show s + mget (mkMat rows.length (evTtEntry c (dense rows.length rows))) i k *
      mget (mkMat rows.length (evTtEntry c (dense rows.length rows))) k cv.1 = _
  rw [mget_mkMat _ _ i k hi hk', mget_mkMat _ _ k cv.1 hk' hj]

/-- **rule of the `NullDim == 1` shortcut**: `(j, v)` is a strength value handed to the drop-tolerance filter iff `Atilde`
stores `(j, x)` in row `i` such that, with `z = (d_i / b_i)·b_j` and `ratio = z / x`, the ratio is not weak
(`|ratio| ≥ wk`), the angle is not obtuse (`z·x ≥ 0`), `|1 - ratio| ≠ 0`, and `v` is `|1 - ratio|`, replaced by `perf` when
it is below `sqe` -/
theorem evStrengthRow_rule (wk sqe perf : Rat) (b : Array Rat) (i : Nat) (p : Row) (cv : Nat × Rat) :
    cv ∈ evStrengthRow wk sqe perf b i p ↔
      ∃ x, (cv.1, x) ∈ p ∧
        ¬ (absQ (entryOf p i / bScal b i * bScal b cv.1 / x) < wk ∨ entryOf p i / bScal b i * bScal b cv.1 * x < 0) ∧
        absQ (1 - entryOf p i / bScal b i * bScal b cv.1 / x) ≠ 0 ∧
        cv.2 = if absQ (1 - entryOf p i / bScal b i * bScal b cv.1 / x) < sqe then perf
               else absQ (1 - entryOf p i / bScal b i * bScal b cv.1 / x) := by
  unfold evStrengthRow elimZeros
  simp only [List.mem_map, List.mem_filter, ne_eq, decide_eq_true_eq]
  constructor
  · rintro ⟨c1, ⟨⟨c0, hc0, rfl⟩, hnz⟩, rfl⟩
    simp only at hnz ⊢
    refine ⟨c0.2, hc0, ?_⟩
    by_cases hw : absQ (entryOf p i / bScal b i * bScal b c0.1 / c0.2) < wk ∨ entryOf p i / bScal b i * bScal b c0.1 * c0.2 < 0
    · rw [if_pos hw] at hnz; exact absurd rfl hnz
    · rw [if_neg hw] at hnz ⊢
      exact ⟨hw, hnz, rfl⟩
  · rintro ⟨x, hx, hw, hnz, hv⟩
    refine ⟨(cv.1, absQ (1 - entryOf p i / bScal b i * bScal b cv.1 / x)), ⟨⟨(cv.1, x), hx, ?_⟩, ?_⟩, ?_⟩
    · simp only [if_neg hw]
    · exact hnz
    · exact Prod.ext rfl hv.symm

/-- **contract of the whole of `evolution_strength_of_connection`** (model `evolFull`: canonical CSR input, one candidate
vector, `k = 2^(m+1)`, finite `epsilon`; any recorded `c = 1/ρ`, any `b`, any thresholds with `0 ≤ perf`): the returned row
`i` has its columns inside {diagonal} ∪ stored columns of row `i` of `A` ∪ (with `symmetrize_measure`) the rows `j` of `A`
that store column `i`; the diagonal is always stored; all entries lie in `[0,1]`; the row attains `1` -/
theorem evolFull_contract (big tiny ε wk sqe perf c : Rat) (ht : 0 < tiny) (ht1 : tiny ≤ 1) (hperf : 0 ≤ perf)
    (m : Nat) (symm : Bool) (b : Array Rat) (rows : List Row) (i : Nat) (hi : i < rows.length) :
    ∃ out, (evolFull big tiny ε wk sqe perf c m symm b rows)[i]? = some out ∧
      (∀ j ∈ out.map Prod.fst, j = i ∨ j ∈ (rows.getD i []).map Prod.fst ∨
          (symm = true ∧ i ∈ (rows.getD j []).map Prod.fst)) ∧
      i ∈ out.map Prod.fst ∧ (∀ cv ∈ out, 0 ≤ cv.2 ∧ cv.2 ≤ 1) ∧ ∃ cv ∈ out, cv.2 = 1 := by
  have hs := evMeasure_spec wk sqe perf c hperf m b rows
  obtain ⟨out, hout, hcols, hrest⟩ := evolTail_contract big tiny ε ht ht1 symm (evMeasure wk sqe perf c m b rows) hs.1 i
    (by rw [evMeasure_length]; exact hi)
  refine ⟨out, hout, ?_, hrest⟩
  intro j hj
  rcases hcols j hj with h | h | ⟨h1, h2⟩
  · exact Or.inl h
  · exact Or.inr (Or.inl (hs.2 i j h))
  · exact Or.inr (Or.inr ⟨h1, hs.2 j i h2⟩)

end PyamgV.C14
