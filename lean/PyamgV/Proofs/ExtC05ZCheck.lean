import PyamgV.Proofs.ExtC05BridgeCheck

/-! PyamgV (C05, extension E47): **Boolean certificates for the definiteness clause, evaluated by the driver on the
concrete CSR data of a model hierarchy** (import-free apart from the models; op `ext_c05z_spd` of
`Driver/ExtE47.lean`).  `Proofs/ExtC05ZPd.lean` / `Proofs/ExtC05ZSpd.lean` prove them sound.

* `ldl n B`: elimination without pivoting, returns the rows of a matrix `U` and the pivots `d` (not trusted);
* `pdCertB isPos n B U d`: `d_k` positive, `U` unit upper triangular, `B = Uᵀ diag(d) U` entry by entry;
* `pdB isPos n B`: the certificate of `ldl` passes: the symmetric matrix `B` is positive definite;
* `jacB isPos ω A`: `pdB` of `2 D − ω A` (the bound `ω A < 2 D` of damped Jacobi, `JacBound`);
* `nonExpB` / `strictB`: the parameters of a smoother of the cycle model give a non-expansive / strict iteration
  (Gauss–Seidel / SOR: `0 ≤ ω ≤ 2` / `0 < ω < 2`, one iteration at least; Jacobi: `0 < ω` and `jacB`; cf / fc Jacobi: the
  same test as Jacobi, strict when every iteration count is at least one);
* `galB L A'`: the dense copies satisfy `A' = R A P` (Galerkin coarse matrix);
* `invB A`: the Gauss–Jordan elimination of the model inverts `A`;
* `c05SpdCheck`: the conjunction over the hierarchy: finest matrix positive definite with positive diagonal, finest
  pre- or post-smoother strict, every smoother non-expansive, every coarse matrix (the coarsest included) the Galerkin
  product and invertible. -/
namespace PyamgV.C05Z
open PyamgV.K PyamgV.C05

variable {α : Type} [Add α] [Sub α] [Mul α] [Div α] [OfNat α 0] [OfNat α 1] [DecidableEq α]

/-- positivity test of the rational instance the driver runs -/
def posR (q : Rat) : Bool := decide (0 < q)

/-- `Σ_{k<n} f k` -/
def sumTo (n : Nat) (f : Nat → α) : α := (List.range n).foldl (fun s k => s + f k) (0:α)

/-- one elimination step of `ldl`: working copy, rows of `U` so far, pivots so far -/
def ldlStep (n : Nat) (st : Mat α × Mat α × Array α) (k : Nat) : Mat α × Mat α × Array α :=
  let W := st.1
  let p := mget W k k
  let urow : Array α := (Array.range n).map (fun j => if j < k then (0:α) else if j = k then (1:α) else mget W k j / p)
  let W' : Mat α := (Array.range n).map (fun i => (Array.range n).map (fun j =>
    if k < i ∧ k < j then mget W i j - mget W i k * (mget W k j / p) else mget W i j))
  (W', st.2.1.push urow, st.2.2.push p)

/-- `B = Uᵀ diag(d) U` by elimination without pivoting (rows of `U`, pivots `d`); the result is only a candidate
certificate, `pdCertB` decides -/
def ldl (n : Nat) (B : Mat α) : Mat α × Array α :=
  let st := (List.range n).foldl (ldlStep n) (B, #[], #[])
  (st.2.1, st.2.2)

/-- the certificate: positive pivots, `U` unit upper triangular, `B i j = Σ_k d_k U_ki U_kj` -/
def pdCertB (isPos : α → Bool) (n : Nat) (B U : Nat → Nat → α) (d : Nat → α) : Bool :=
  (List.range n).all (fun k => isPos (d k) && decide (U k k = 1) &&
    (List.range k).all (fun i => decide (U k i = 0))) &&
  (List.range n).all (fun i => (List.range n).all (fun j =>
    decide (B i j = sumTo n (fun k => d k * U k i * U k j))))

/-- the symmetric matrix `B` (first `n` rows and columns) is positive definite, certified -/
def pdB (isPos : α → Bool) (n : Nat) (B : Mat α) : Bool :=
  let c := ldl n B
  pdCertB isPos n (mget B) (mget c.1) (rd c.2)

/-- `2 D − ω A` from the dense copy of `A` -/
def jacMat (ω : α) (n : Nat) (Ad : Mat α) : Mat α :=
  (Array.range n).map (fun i => (Array.range n).map (fun j =>
    (if i = j then mget Ad i i + mget Ad i i else (0:α)) - ω * mget Ad i j))

/-- `ω A < 2 D` as quadratic forms, certified -/
def jacB (isPos : α → Bool) (ω : α) (A : Csr α) : Bool :=
  pdB isPos A.n (jacMat ω A.n (denseOfCsr A A.n))

/-- parameters of a non-expansive smoother of the cycle model -/
def nonExpB (isPos : α → Bool) (ofRat : Rat → α) (A : Csr α) : Sm → Bool
  | .none => true
  | .gs ω _ _ => decide (0 ≤ ω) && decide (ω ≤ 2)
  | .jac ω _ => decide (0 < ω) && jacB isPos (ofRat ω) A
  | .cfjac _ ω _ _ _ => decide (0 < ω) && jacB isPos (ofRat ω) A

/-- parameters of a strictly energy-reducing smoother of the cycle model -/
def strictB (isPos : α → Bool) (ofRat : Rat → α) (A : Csr α) : Sm → Bool
  | .gs ω _ k => decide (0 < ω) && decide (ω < 2) && decide (1 ≤ k)
  | .jac ω k => decide (0 < ω) && decide (1 ≤ k) && jacB isPos (ofRat ω) A
  | .cfjac _ ω it fi ci => decide (0 < ω) && decide (1 ≤ it) && decide (1 ≤ fi) && decide (1 ≤ ci) && jacB isPos (ofRat ω) A
  | .none => false

/-- the Gauss–Jordan elimination of the model inverts `A` -/
def invB (A : Csr α) : Bool := (solveDense A.n (denseOfCsr A A.n) (zeros A.n)).isSome

/-- positive diagonal of the dense copy -/
def diagPosB (isPos : α → Bool) (A : Csr α) : Bool :=
  (List.range A.n).all (fun i => isPos (mget (denseOfCsr A A.n) i i))

/-- `A' = R A P` for the dense copies -/
def galB (L : Lvl α) (A' : Csr α) : Bool :=
  denseOfCsr A' L.R.n ==
    mmul (denseOfCsr L.R L.A.n) (mmul (denseOfCsr L.A L.A.n) (denseOfCsr L.P L.R.n) L.A.n L.R.n) L.A.n L.R.n

/-- the matrix of the next level (the coarsest matrix below the last smoothing level) -/
def nextA (Ac : Csr α) : List (Lvl α) → Csr α
  | [] => Ac
  | L :: _ => L.A

/-- per level: both smoothers non-expansive, the next matrix is the Galerkin product and invertible -/
def lvlsB (isPos : α → Bool) (ofRat : Rat → α) (Ac : Csr α) : List (Lvl α) → Bool
  | [] => true
  | L :: rest => nonExpB isPos ofRat L.A L.pre && nonExpB isPos ofRat L.A L.post && galB L (nextA Ac rest) &&
      invB (nextA Ac rest) && lvlsB isPos ofRat Ac rest

/-- everything the definiteness theorem assumes beyond `c05Check`, as one Boolean -/
def c05SpdCheck (isPos : α → Bool) (ofRat : Rat → α) (Ac : Csr α) : List (Lvl α) → Bool
  | [] => false
  | L :: rest => pdB isPos L.A.n (denseOfCsr L.A L.A.n) && diagPosB isPos L.A && invB L.A &&
      (strictB isPos ofRat L.A L.pre || strictB isPos ofRat L.A L.post) && lvlsB isPos ofRat Ac (L :: rest)

/-- the components, for diagnostics: finest positive definite, positive diagonal, finest invertible, a strict finest
smoother, all smoothers non-expansive, Galerkin, coarse matrices invertible -/
def c05SpdParts (isPos : α → Bool) (ofRat : Rat → α) (Ac : Csr α) (Ls : List (Lvl α)) : List Bool :=
  match Ls with
  | [] => []
  | L :: rest =>
    let rec nexts : List (Lvl α) → List (Lvl α × Csr α)
      | [] => []
      | L :: rest => (L, nextA Ac rest) :: nexts rest
    let ps := nexts (L :: rest)
    [pdB isPos L.A.n (denseOfCsr L.A L.A.n), diagPosB isPos L.A, invB L.A,
     strictB isPos ofRat L.A L.pre || strictB isPos ofRat L.A L.post,
     ps.all (fun p => nonExpB isPos ofRat p.1.A p.1.pre && nonExpB isPos ofRat p.1.A p.1.post),
     ps.all (fun p => galB p.1 p.2), ps.all (fun p => invB p.2)]

end PyamgV.C05Z
