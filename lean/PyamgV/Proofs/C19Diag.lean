import PyamgV.Proofs.C19Scale
import Mathlib.Algebra.BigOperators.Group.List.Basic
import Mathlib.Tactic.Ring
import Mathlib.Tactic.FieldSimp

/-! PyamgV (C19): diagonal extraction, its inverse with the zero rule, and symmetric rescaling to a
unit diagonal -- statements about the executable models of `Model/C19Utils.lean`. -/
namespace PyamgV.C19

variable {K : Type} [Field K] [DecidableEq K]

theorem sumL_sum (l : List K) : sumL l = l.sum := by
  unfold sumL; rw [List.sum_eq_foldl]

/-- `Dinv` is `1/D` where `D != 0` and `0` elsewhere: `Dinv_i * D_i` is `1` resp. `0` -/
theorem invZero_getD (d : List K) (i : Nat) (hi : i < d.length) :
    (invZero d).getD i 0 = if d.getD i 0 = 0 then 0 else 1 / d.getD i 0 := by
  unfold invZero
  simp [List.getD_eq_getElem?_getD, List.getElem?_eq_getElem hi]

theorem invZero_mul (d : List K) (i : Nat) (hi : i < d.length) :
    (invZero d).getD i 0 * d.getD i 0 = if d.getD i 0 = 0 then 0 else 1 := by
  rw [invZero_getD d i hi]
  generalize d.getD i 0 = x
  by_cases h : x = 0
  · rw [if_pos h, if_pos h, zero_mul]
  · rw [if_neg h, if_neg h, one_div, inv_mul_cancel₀ h]

/-- the matrix entry `(slice, j)` (stored duplicates summed) of a slice whose values were all
multiplied by `c` -/
theorem entry_scale (r : RowOf K) (c : K) (j : Nat) :
    entry (r.map (fun cv => (cv.1, cv.2 * c))) j = entry r j * c := by
  unfold entry
  rw [sumL_sum, sumL_sum]
  induction r with
  | nil => simp
  | cons a l ih =>
    by_cases h : a.1 = j
    · simp [List.filter_cons, h] at ih ⊢
      rw [ih]; ring
    · simp [List.filter_cons, h] at ih ⊢
      exact ih

/-- ... and of a slice whose values were multiplied by `v[minor index]` -/
theorem entry_scaleMinor (r : RowOf K) (v : Array K) (j : Nat) :
    entry (r.map (fun cv => (cv.1, cv.2 * rd v cv.1))) j = entry r j * rd v j := by
  unfold entry
  rw [sumL_sum, sumL_sum]
  induction r with
  | nil => simp
  | cons a l ih =>
    by_cases h : a.1 = j
    · simp [List.filter_cons, h] at ih ⊢
      rw [ih]; ring
    · simp [List.filter_cons, h] at ih ⊢
      exact ih

/-- entries of the symmetrically scaled matrix: `a_ij * sinv_i * sinv_j` -/
theorem entry_symScaled (sinv : Array K) (rows : Rows K) (i j : Nat) :
    entry ((scaleMinor sinv (scaleMajor sinv rows)).getD i []) j = entry (rows.getD i []) j * rd sinv i * rd sinv j := by
  rw [scaleMinor_getD, scaleMajor_getD, entry_scaleMinor, entry_scale]

theorem allSome_spec (l : List (Option K)) (s : List K) (h : allSome l = some s) :
    s.length = l.length ∧ ∀ i, i < l.length → l.getD i none = some (s.getD i 0) := by
  induction l generalizing s with
  | nil => simp [allSome] at h; subst h; simp
  | cons a l ih =>
    cases a with
    | none => simp [allSome] at h
    | some x =>
      simp only [allSome] at h
      cases ht : allSome l with
      | none => rw [ht] at h; cases h
      | some t =>
        rw [ht] at h
        have hs : s = x :: t := (Option.some.inj h).symm
        subst hs
        obtain ⟨hl, hg⟩ := ih t ht
        refine ⟨by simp [hl], ?_⟩
        intro i hi
        cases i with
        | zero => simp
        | succ i =>
          have := hg i (by simpa using hi)
          simpa using this

/-- **symmetric rescaling gives a unit diagonal**: if the model returns `(s, sinv, out)` then for every
`i < n` with diagonal entry `d_i != 0` and root `s_i` (`sqrt? d_i = some s_i`, `s_i != 0`), the diagonal
entry of the result is `d_i / (s_i * s_i)`: `1` when `s_i^2 = d_i` (complex root), `d_i/|d_i| = ±1` when
`s_i^2 = |d_i|` (real data); rows with `d_i = 0` get a zero diagonal entry -/
theorem symRescale_diag (sqrt? : K → Option K) (n : Nat) (rows : Rows K) (s sinv : List K) (out : Rows K)
    (h : symRescale sqrt? n rows = some (s, sinv, out)) (i : Nat) (hi : i < n) :
    sqrt? (entry (rows.getD i []) i) = some (s.getD i 0) ∧
    entry (out.getD i []) i =
      if entry (rows.getD i []) i = 0 then 0
      else entry (rows.getD i []) i * (1 / s.getD i 0) * (1 / s.getD i 0) := by
  unfold symRescale at h
  cases hs : allSome ((diagOf n rows).map sqrt?) with
  | none => rw [hs] at h; cases h
  | some s' =>
    rw [hs] at h
    simp only [Option.some.injEq, Prod.mk.injEq] at h
    obtain ⟨h1, h2, h3⟩ := h
    subst h1
    obtain ⟨hl, hg⟩ := allSome_spec _ _ hs
    have hdl : (diagOf n rows).length = n := by simp [diagOf]
    have hd : (diagOf n rows).getD i 0 = entry (rows.getD i []) i := by
      simp [diagOf, List.getD_eq_getElem?_getD, hi]
    have hroot : sqrt? (entry (rows.getD i []) i) = some (s'.getD i 0) := by
      have := hg i (by simp [hdl, hi])
      simpa [List.getD_eq_getElem?_getD, List.getElem?_map, diagOf, hi] using this
    refine ⟨hroot, ?_⟩
    rw [← h3, entry_symScaled]
    have hsl : s'.length = n := by rw [hl]; simp [hdl]
    have hsi : rd (sqrtInv (diagOf n rows) s').toArray i = if entry (rows.getD i []) i = 0 then 0 else 1 / s'.getD i 0 := by
      unfold rd sqrtInv
      have hi2 : i < s'.length := by omega
      simp [Array.getD_eq_getD_getElem?, List.getElem?_zip_eq_some, hdl, hsl, hi, hi2, diagOf, List.getD_eq_getElem?_getD]
    rw [hsi]
    generalize entry (List.getD rows i []) i = e
    by_cases h0 : e = 0
    · rw [if_pos h0, if_pos h0]; ring
    · rw [if_neg h0, if_neg h0]

/-- scalar facts used with `symRescale_diag` -/
theorem unit_of_root (d s : K) (hd : d ≠ 0) (hs : s * s = d) : d * (1 / s) * (1 / s) = 1 := by
  have hs0 : s ≠ 0 := by
    intro h; rw [h, mul_zero] at hs; exact hd hs.symm
  field_simp
  rw [← hs]; ring

theorem sign_of_abs_root (d s : K) (hd : d ≠ 0) (hs : s * s = -d) : d * (1 / s) * (1 / s) = -1 := by
  have hs0 : s ≠ 0 := by
    intro h; rw [h, mul_zero] at hs; exact hd (neg_eq_zero.mp hs.symm)
  have : d * (1 / s) * (1 / s) = d / (s * s) := by field_simp
  rw [this, hs, div_neg, div_self hd]

#print axioms symRescale_diag
#print axioms invZero_mul
end PyamgV.C19
