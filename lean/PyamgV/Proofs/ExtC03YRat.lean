import PyamgV.Proofs.ExtC03YThm
import PyamgV.Proofs.ExtC03XThm

/-! PyamgV (extension E55, C03): **the scalar-polymorphic extended model contains the rational extended model of E38**.
Over `ℚ` with `conj = id` and the recorded calls of `C03X.Sm` read as recorded calls of `C03Y.Sm ℚ` (`ofSm`), `cycY` / `stepY` /
`solveY` / `precY` ARE `cycX` / `stepX` / `solveX` / `precX`, and `Sm.OK` is the same predicate: the two driver ops
(`c03x_run`, `c03y_run r`) run one model, and the theorems of Proofs/ExtC03XThm.lean are the `𝕜 = ℚ` instances of the
field-generic ones. -/
namespace PyamgV.C03Y.RatInst
open PyamgV
open PyamgV.C03 (Cyc iterN)

theorem vadd_eq : ∀ x y : List Rat, C03Y.vadd x y = C03.vadd x y
  | [], _ => rfl
  | _ :: _, [] => rfl
  | a :: x, c :: y => by simp only [C03Y.vadd, C03.vadd, vadd_eq x y]

theorem vneg_eq (x : List Rat) : C03Y.vneg x = C03.vneg x := by
  unfold C03Y.vneg C03.vneg
  apply List.map_congr_left
  intro a _
  exact zero_sub a

theorem vsub_eq : ∀ x y : List Rat, C03Y.vsub x y = C03.vsub x y
  | [], y => by simp only [C03Y.vsub, C03.vsub, vneg_eq]
  | _ :: _, [] => rfl
  | a :: x, c :: y => by simp only [C03Y.vsub, C03.vsub, vsub_eq x y]

theorem dot_eq : ∀ r x : List Rat, C03Y.dot r x = C03.dot r x
  | [], _ => rfl
  | _ :: _, [] => rfl
  | a :: r, c :: x => by simp only [C03Y.dot, C03.dot, dot_eq r x]

theorem matVec_eq (A : List (List Rat)) (x : List Rat) : C03Y.matVec A x = C03.matVec A x := by
  unfold C03Y.matVec C03.matVec
  apply List.map_congr_left
  intro r _
  exact dot_eq r x

theorem zeros_eq (n : Nat) : (C03Y.zeros n : List Rat) = C03.zeros n := rfl

theorem smooth_eq (A Q : List (List Rat)) (x b : List Rat) : C03Y.smooth A Q x b = C03.smooth A Q x b := by
  unfold C03Y.smooth C03.smooth
  rw [matVec_eq, vsub_eq, matVec_eq, vadd_eq]

/-- a level of `C03X.cycF` as a level of `C03Y.cycF` (same data, same smoother maps) -/
def ofLvlF (L : C03X.LvlF) : C03Y.LvlF Rat := ⟨L.A, L.P, L.R, L.pre, L.post⟩

theorem levelStepF_eq (L : C03X.LvlF) (coarse : List Rat → List Rat) (x b : List Rat) :
    C03Y.levelStepF (ofLvlF L) coarse x b = C03X.levelStepF L coarse x b := by
  unfold C03Y.levelStepF C03X.levelStepF ofLvlF
  simp only [matVec_eq, vsub_eq, vadd_eq]

/-- **the generic cycle over `ℚ` is the generic cycle of E38** -/
theorem cycF_eq (S : List (List Rat)) : ∀ (Ls : List C03X.LvlF) (c : Cyc) (cpl : Nat) (x b : List Rat),
    C03Y.cycF S c cpl (Ls.map ofLvlF) x b = C03X.cycF S c cpl Ls x b := by
  intro Ls
  induction Ls with
  | nil => intro c cpl x b; cases c <;> rfl
  | cons L rest ih =>
    intro c cpl x b
    cases rest with
    | nil =>
      have h1 : C03Y.cycF S c cpl ([L].map ofLvlF) x b = C03Y.levelStepF (ofLvlF L) (C03Y.matVec S) x b := by cases c <;> rfl
      have h2 : C03X.cycF S c cpl [L] x b = C03X.levelStepF L (C03.matVec S) x b := by cases c <;> rfl
      rw [h1, h2, levelStepF_eq]
      congr 1
      funext cb
      exact matVec_eq S cb
    | cons L' rest' =>
      cases c with
      | V =>
        have h1 : C03Y.cycF S .V cpl ((L :: L' :: rest').map ofLvlF) x b =
            C03Y.levelStepF (ofLvlF L) (fun cb => C03Y.cycF S .V 1 ((L' :: rest').map ofLvlF) (C03Y.zeros cb.length) cb) x b := rfl
        have h2 : C03X.cycF S .V cpl (L :: L' :: rest') x b =
            C03X.levelStepF L (fun cb => C03X.cycF S .V 1 (L' :: rest') (C03.zeros cb.length) cb) x b := rfl
        rw [h1, h2, levelStepF_eq]
        congr 1
        funext cb
        exact ih .V 1 _ _
      | W =>
        have h1 : C03Y.cycF S .W cpl ((L :: L' :: rest').map ofLvlF) x b =
            C03Y.levelStepF (ofLvlF L) (fun cb => C03Y.cycF S .W 1 ((L' :: rest').map ofLvlF)
              (C03Y.cycF S .W 1 ((L' :: rest').map ofLvlF) (C03Y.zeros cb.length) cb) cb) x b := rfl
        have h2 : C03X.cycF S .W cpl (L :: L' :: rest') x b =
            C03X.levelStepF L (fun cb => C03X.cycF S .W 1 (L' :: rest')
              (C03X.cycF S .W 1 (L' :: rest') (C03.zeros cb.length) cb) cb) x b := rfl
        rw [h1, h2, levelStepF_eq]
        congr 1
        funext cb
        rw [ih .W 1, ih .W 1]; rfl
      | F =>
        have h1 : C03Y.cycF S .F cpl ((L :: L' :: rest').map ofLvlF) x b =
            C03Y.levelStepF (ofLvlF L) (fun cb => iterN (fun cx => C03Y.cycF S .V 1 ((L' :: rest').map ofLvlF) cx cb) cpl
              (C03Y.cycF S .F cpl ((L' :: rest').map ofLvlF) (C03Y.zeros cb.length) cb)) x b := rfl
        have h2 : C03X.cycF S .F cpl (L :: L' :: rest') x b =
            C03X.levelStepF L (fun cb => iterN (fun cx => C03X.cycF S .V 1 (L' :: rest') cx cb) cpl
              (C03X.cycF S .F cpl (L' :: rest') (C03.zeros cb.length) cb)) x b := rfl
        rw [h1, h2, levelStepF_eq]
        congr 1
        funext cb
        rw [ih .F cpl]
        exact C03Y.iterN_congr _ _ (fun cx => ih .V 1 cx cb) _ _

/-- a recorded call of E38 as a recorded call of the scalar-polymorphic model -/
def ofSm : C03X.Sm → C03Y.Sm Rat
  | .mat Q => .mat Q
  | .poly A cs it => .poly A cs it
  | .bjac ω A D it => .bjac ω A D it
  | .bgs A D it sw => .bgs A D it sw
  | .jacne ω A it => .jacne ω A it
  | .gsne ω A it sw => .gsne ω A it sw
  | .gsnr ω A it sw => .gsnr ω A it sw
  | .cfjac cf ω A C F it fIt cIt => .cfjac cf ω A C F it fIt cIt
  | .schwarz A Tx Tp Sj Sp it sw => .schwarz A Tx Tp Sj Sp it sw
  | .gs ω A it sw => .gs ω A it sw
  | .jac ω A it => .jac ω A it

theorem applySm_eq (A : List (List Rat)) (s : C03X.Sm) : C03Y.applySm id A (ofSm s) = C03X.applySm A s := by
  cases s
  case mat Q => funext x b; exact smooth_eq A Q x b
  all_goals rfl

/-- the hypothesis of the theorems is the same predicate -/
theorem ok_iff (A : List (List Rat)) (s : C03X.Sm) : (ofSm s).OK A ↔ s.OK A := by
  cases s <;> exact Iff.rfl

def ofLvl (L : C03X.LvlX) : C03Y.LvlY Rat := ⟨L.A, L.P, L.R, ofSm L.pre, ofSm L.post⟩

theorem toF_eq (L : C03X.LvlX) : (ofLvl L).toF id = ofLvlF L.toF := by
  unfold C03Y.LvlY.toF ofLvl ofLvlF C03X.LvlX.toF
  simp only [applySm_eq]

/-- **over `ℚ` with `conj = id` the scalar-polymorphic extended cycle model IS the extended cycle model of E38** -/
theorem cycY_eq_cycX (S : List (List Rat)) (c : Cyc) (cpl : Nat) (Ls : List C03X.LvlX) (x b : List Rat) :
    C03Y.cycY id S c cpl (Ls.map ofLvl) x b = C03X.cycX S c cpl Ls x b := by
  unfold C03Y.cycY C03X.cycX
  rw [List.map_map]
  have : (C03Y.LvlY.toF id ∘ ofLvl) = (ofLvlF ∘ C03X.LvlX.toF) := by funext L; exact toF_eq L
  rw [this, ← List.map_map]
  exact cycF_eq S _ c cpl x b

theorem stepY_eq_stepX (S : List (List Rat)) (c : Cyc) (cpl : Nat) (Ls : List C03X.LvlX) (b x : List Rat) :
    C03Y.stepY id S c cpl (Ls.map ofLvl) b x = C03X.stepX S c cpl Ls b x := by
  cases Ls with
  | nil => exact matVec_eq S b
  | cons L rest => exact cycY_eq_cycX S c cpl (L :: rest) x b

theorem loopY_eq_loopM (step : List Rat → List Rat) (stop : List Rat → Bool) :
    ∀ (k : Nat) (x : List Rat), C03Y.loopY step stop k x = C03.loopM step stop k x
  | 0, _ => rfl
  | k + 1, x => by simp only [C03Y.loopY, C03.loopM, loopY_eq_loopM step stop k]

theorem solveY_eq_solveX (S : List (List Rat)) (c : Cyc) (cpl : Nat) (Ls : List C03X.LvlX) (stop : List Rat → Bool)
    (maxiter : Nat) (b x0 : List Rat) :
    C03Y.solveY id S c cpl (Ls.map ofLvl) stop maxiter b x0 = C03X.solveX S c cpl Ls stop maxiter b x0 := by
  unfold C03Y.solveY C03X.solveX
  rw [loopY_eq_loopM]
  congr 1
  funext x
  exact stepY_eq_stepX S c cpl Ls b x

theorem precY_eq_precX (S : List (List Rat)) (c : Cyc) (Ls : List C03X.LvlX) (stop : List Rat → Bool) (v : List Rat) :
    C03Y.precY id S c (Ls.map ofLvl) stop v = C03X.precX S c Ls stop v :=
  solveY_eq_solveX S c 1 Ls stop 1 v _

theorem allOK_iff (Ls : List C03X.LvlX) : C03Y.AllOK (Ls.map ofLvl) ↔ C03X.AllOK Ls := by
  unfold C03Y.AllOK C03X.AllOK
  constructor
  · intro h L hL
    have := h (ofLvl L) (List.mem_map_of_mem hL)
    exact ⟨(ok_iff L.A L.pre).1 this.1, (ok_iff L.A L.post).1 this.2⟩
  · intro h L hL
    obtain ⟨L', hL', rfl⟩ := List.mem_map.1 hL
    have := h L' hL'
    exact ⟨(ok_iff L'.A L'.pre).2 this.1, (ok_iff L'.A L'.post).2 this.2⟩

end PyamgV.C03Y.RatInst
