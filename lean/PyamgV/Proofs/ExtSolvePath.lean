import PyamgV.Model.ExtSolvePath
import PyamgV.Proofs.C08Accel
import PyamgV.Proofs.C03Thm
import PyamgV.Proofs.C01Solve
import PyamgV.Proofs.C02Thm
import Mathlib.Algebra.Module.LinearMap.End

/-! PyamgV (extension E17; C08 / C01 / C03): the three models of the solve path tied together.

0. `solvePy_measure_monotone`: C01's loop with any cycle: a measure the loop body never increases is
   non-increasing along the iterates the caller can observe (returned vector, callback arguments).
1. `plan_precond_is_precM`, `plan_precond_is_M`: the preconditioner the C08 plan hands to the
   accelerator (`M = aspreconditioner(cycle)`, run through C01's `solvePy` with `maxiter = 1`),
   on a C03 hierarchy, is C03's `precM`, i.e. the matrix `mopM c 1` applied to the vector.
2. `solvePyM_x`: C01's loop on C03's cycle returns what C03's own loop model `solveM` returns.
3. `solvePyM_error_propagation`: its iterates satisfy `e_k = (I − M A)^k e_0`.
4. `solvePyM_energy_monotone`: on a hierarchy satisfying C02's hypotheses (`WFG`) the energy of the
   error of the iterates of `solvePyM` is non-increasing and the returned iterate is no worse than `x0`. -/
namespace PyamgV.SolvePath
open PyamgV PyamgV.C03

variable {R : Type}

/-! ## glue between the three loop vocabularies -/

theorem iterate_eq_iterN {α : Type} (f : α → α) (k : Nat) (x : α) : iterate f k x = iterN f k x := by
  induction k generalizing x with
  | zero => rfl
  | succ k ih => simp only [iterate, iterN]; exact ih (f x)

/-- the loop body of C01 instantiated with C03's cycle is C03's `stepM` -/
theorem cyc_eq_stepM (S : Mat) (c : Cyc) (cpl : Nat) (Ls : List Lvl) (b : Vec) :
    C01.cyc (fun x => cycM S c cpl Ls x b) (matVec S b) Ls.isEmpty = stepM S c cpl Ls b := by
  funext x
  cases Ls with
  | nil => simp [C01.cyc, stepM]
  | cons L Ls => simp [C01.cyc, stepM]

/-- `solvePyM` is the bookkeeping loop on `stepM`, seen through the options -/
theorem solvePyM_eq (S : Mat) (c : Cyc) (cpl : Nat) (Ls : List Lvl) (resnorm : Vec → R)
    (below : R → Bool) (maxiter : Nat) (b : Vec) (x0 : Option Vec) (residuals : Option (List R))
    (hasCb returnInfo : Bool) :
    solvePyM S c cpl Ls resnorm below maxiter b x0 residuals hasCb returnInfo =
      (solve (stepM S c cpl Ls b) resnorm below maxiter (x0.getD (zeros b.length))).map
        (C01.view residuals.isSome hasCb returnInfo) := by
  unfold solvePyM
  rw [C01.solvePy_eq, cyc_eq_stepM]

/-- the bookkeeping loop of C01 and the loop model of C03 return the same vector -/
theorem loop_x_eq_loopM (step : Vec → Vec) (resnorm : Vec → R) (below : R → Bool) (maxiter : Nat) :
    ∀ (rem it : Nat) (x : Vec) (res : List R) (cb : List Vec), 1 ≤ rem → it + rem = maxiter →
      (loop step resnorm below maxiter rem it x res cb).map (·.x) =
        some (loopM step (fun y => below (resnorm y)) rem x) := by
  intro rem
  induction rem with
  | zero => intro it x res cb h; omega
  | succ rem ih =>
    intro it x res cb _ hsum
    simp only [loop, loopM]
    by_cases hb : below (resnorm (step x)) = true
    · simp only [if_pos hb, Option.map_some]
    · simp only [if_neg hb]
      by_cases hr : rem = 0
      · have hm : it + 1 = maxiter := by omega
        simp only [if_pos hm, if_pos hr, Option.map_some]
      · have hm : ¬ it + 1 = maxiter := by omega
        simp only [if_neg hm, if_neg hr]
        exact ih (it + 1) _ _ _ (by omega) (by omega)

theorem solve_x_eq_loopM (step : Vec → Vec) (resnorm : Vec → R) (below : R → Bool) (maxiter : Nat)
    (hm : 1 ≤ maxiter) (x0 : Vec) :
    (solve step resnorm below maxiter x0).map (·.x) =
      some (loopM step (fun y => below (resnorm y)) maxiter x0) :=
  loop_x_eq_loopM step resnorm below maxiter maxiter 0 x0 _ _ hm (by omega)

/-- **C01 loop on the C03 cycle = C03 loop**: the vector returned by `solvePyM` is `solveM` with the
residual test `below ∘ resnorm`, for every combination of the options -/
theorem solvePyM_x (S : Mat) (c : Cyc) (cpl : Nat) (Ls : List Lvl) (resnorm : Vec → R)
    (below : R → Bool) (maxiter : Nat) (hm : 1 ≤ maxiter) (b : Vec) (x0 : Option Vec)
    (residuals : Option (List R)) (hasCb returnInfo : Bool) :
    (solvePyM S c cpl Ls resnorm below maxiter b x0 residuals hasCb returnInfo).map (·.x) =
      some (solveM S c cpl Ls (fun y => below (resnorm y)) maxiter b (x0.getD (zeros b.length))) := by
  rw [solvePyM_eq, Option.map_map]
  exact solve_x_eq_loopM _ resnorm below maxiter hm _

/-! ## a measure that no cycle increases does not increase along the observable iterates -/

/-- **C01, any Lyapunov function.**  Let `μ` be a measure of the iterate (energy of the error,
functional value, …) that the loop body never increases on vectors satisfying an invariant `Inv`
preserved by the loop body, and let the start vector satisfy `Inv`.  Then for `maxiter ≥ 1`, every
tolerance test and every combination of the options, `solvePy` returns after `k` cycles the `k`-th
iterate, `μ` of it is at most `μ` of the start vector, `μ` never increases from one iterate to the
next, and `μ` is non-increasing along the list of vectors handed to the callback. -/
theorem solvePy_measure_monotone {X R M : Type} [Preorder M] (zeros : X) (cycleML : X → X) (coarse : X)
    (oneLevel : Bool) (resnorm : X → R) (below : R → Bool) (maxiter : Nat) (hm : 1 ≤ maxiter)
    (x0 : Option X) (residuals : Option (List R)) (hasCb returnInfo : Bool)
    (Inv : X → Prop) (μ : X → M)
    (hstep : ∀ x, Inv x → Inv (C01.cyc cycleML coarse oneLevel x) ∧
      μ (C01.cyc cycleML coarse oneLevel x) ≤ μ x)
    (h0 : Inv (x0.getD zeros)) (d : X) :
    ∃ p k, C01.solvePy zeros cycleML coarse oneLevel resnorm below maxiter x0 residuals hasCb returnInfo
        = some p ∧ 1 ≤ k ∧ k ≤ maxiter ∧
      p.x = iterate (C01.cyc cycleML coarse oneLevel) k (x0.getD zeros) ∧ Inv p.x ∧
      μ p.x ≤ μ (x0.getD zeros) ∧
      (∀ j, μ (iterate (C01.cyc cycleML coarse oneLevel) (j + 1) (x0.getD zeros)) ≤
        μ (iterate (C01.cyc cycleML coarse oneLevel) j (x0.getD zeros))) ∧
      (hasCb = true → p.cb.length = k ∧
        (∀ j, j < k → p.cb.getD j d = iterate (C01.cyc cycleML coarse oneLevel) (j + 1) (x0.getD zeros)) ∧
        ∀ i j, i ≤ j → j < k → μ (p.cb.getD j d) ≤ μ (p.cb.getD i d)) := by
  obtain ⟨p, k, hsol, h1, h2, hx, _, _, _, hcb, _⟩ :=
    C01.solvePy_spec zeros cycleML coarse oneLevel resnorm below maxiter x0 residuals hasCb returnInfo hm
  set g := C01.cyc cycleML coarse oneLevel with hg
  set xz := x0.getD zeros with hxz
  have inv : ∀ j, Inv (iterate g j xz) := by
    intro j
    induction j with
    | zero => exact h0
    | succ j ih => rw [iterate_succ']; exact (hstep _ ih).1
  have succ : ∀ j, μ (iterate g (j + 1) xz) ≤ μ (iterate g j xz) := by
    intro j; rw [iterate_succ']; exact (hstep _ (inv j)).2
  have anti : ∀ i j, i ≤ j → μ (iterate g j xz) ≤ μ (iterate g i xz) := by
    intro i j hij
    induction j with
    | zero => have : i = 0 := by omega
              subst this; exact le_refl _
    | succ j ih =>
      by_cases hj : i = j + 1
      · subst hj; exact le_refl _
      · exact le_trans (succ j) (ih (by omega))
  refine ⟨p, k, hsol, h1, h2, hx, hx ▸ inv k, ?_, succ, ?_⟩
  · rw [hx]; exact anti 0 k (Nat.zero_le _)
  · intro hc
    rw [hcb, if_pos hc]
    have get : ∀ j, j < k → ((List.range k).map (fun j => iterate g (j + 1) xz)).getD j d =
        iterate g (j + 1) xz := by
      intro j hj
      simp [List.getD_eq_getElem?_getD, hj]
    refine ⟨by simp, get, fun i j hij hj => ?_⟩
    rw [get j hj, get i (by omega)]
    exact anti (i + 1) (j + 1) (by omega)

/-! ## 1. the preconditioner of the accelerated branch -/

/-- `aspreconditioner(cycle).matvec` run through C01's model is C03's `precM` (combines C08's
`precond_one_cycle` with the definitions of `precM`/`solveM`) -/
theorem precPy_eq_precM (S : Mat) (c : Cyc) (Ls : List Lvl) (resnorm : Vec → Vec → R)
    (below : R → Bool) (stop : Vec → Bool) (v : Vec) :
    precPy S c Ls resnorm below v = some (precM S c Ls stop v) := by
  unfold precPy
  rw [solvePyM_eq, Option.map_map]
  have h := C08.precond_one_cycle (stepM S c 1 Ls v) (resnorm v) below (zeros v.length)
  simp only [Option.getD_none]
  rw [show ((fun (p : C01.PyOut Vec R) => p.x) ∘ C01.view (none : Option (List R)).isSome false false)
      = (fun o : Out Vec R => o.x) from rfl, h]
  simp only [precM, solveM, loopM_one]

/-- **C08 ∘ C01 ∘ C03, preconditioner**: in every call the plan of the accelerated branch issues, the
preconditioner (built for the upper-cased cycle string; `V`, `W` or `F`) applied to `v` is `precM`
of the C03 model of the hierarchy, whatever the tolerance test inside `solve` does -/
theorem plan_precond_is_precM (T : C08.Tables) (r : C08.Req) (w : Bool) (cs : List C08.Call) (p t : Bool)
    (h : C08.plan T r = .run w cs p t) (cl : C08.Call) (hcl : cl ∈ cs)
    (cy : Cyc) (hcy : parseCyc (C08.upper r.cycle) = some cy)
    (S : Mat) (Ls : List Lvl) (resnorm : Vec → Vec → R) (below : R → Bool) (stop : Vec → Bool) (v : Vec) :
    callPrecond S Ls resnorm below cl v = some (precM S cy Ls stop v) := by
  have hp := (C08.accel_wiring T r w cs p t h cl hcl).1
  unfold callPrecond
  rw [hp, hcy]
  exact precPy_eq_precM S cy Ls resnorm below stop v

/-- … and `precM` is the textbook operator: the accelerator is preconditioned with the linear map
`M = mopM c 1` of the requested cycle (`preconditioner_is_M` of C03) -/
theorem plan_precond_is_M (T : C08.Tables) (r : C08.Req) (w : Bool) (cs : List C08.Call) (p t : Bool)
    (h : C08.plan T r = .run w cs p t) (cl : C08.Call) (hcl : cl ∈ cs)
    (cy : Cyc) (hcy : parseCyc (C08.upper r.cycle) = some cy)
    (S : Mat) (L : Lvl) (Ls : List Lvl) (resnorm : Vec → Vec → R) (below : R → Bool) (v : Vec) :
    ∃ y, callPrecond S (L :: Ls) resnorm below cl v = some y ∧
      sem y = msem (mopM S cy 1 (L :: Ls)) (sem v) :=
  ⟨_, plan_precond_is_precM T r w cs p t h cl hcl cy hcy S (L :: Ls) resnorm below (fun _ => false) v,
    precM_eq S cy L Ls _ v⟩

/-- one-level hierarchy: the accelerator is preconditioned with the coarse solver -/
theorem plan_precond_one_level (T : C08.Tables) (r : C08.Req) (w : Bool) (cs : List C08.Call) (p t : Bool)
    (h : C08.plan T r = .run w cs p t) (cl : C08.Call) (hcl : cl ∈ cs)
    (cy : Cyc) (hcy : parseCyc (C08.upper r.cycle) = some cy)
    (S : Mat) (resnorm : Vec → Vec → R) (below : R → Bool) (v : Vec) :
    ∃ y, callPrecond S [] resnorm below cl v = some y ∧ sem y = msem S (sem v) :=
  ⟨_, plan_precond_is_precM T r w cs p t h cl hcl cy hcy S [] resnorm below (fun _ => false) v,
    precM_one_level S cy _ v⟩

/-- the cycle string of a plan that runs and is not `AMLI` … is not `AMLI`: for every accelerator
other than `fgmres` the preconditioner is one of the linear cycles whenever the string is a cycle name -/
theorem plan_cycle_not_amli (T : C08.Tables) (r : C08.Req) (w : Bool) (cs : List C08.Call) (p t : Bool)
    (h : C08.plan T r = .run w cs p t) (hacc : r.accel ≠ .name "fgmres") :
    C08.upper r.cycle ≠ "AMLI" := by
  obtain ⟨_, _, _, _, _, _, _, h2⟩ := C08.plan_run T r w cs p t h
  intro ha; exact h2 ⟨hacc, ha⟩

/-! ## 2. error propagation of the stand-alone solve -/

/-- the error propagator `I − M A` of one cycle of the model hierarchy (`M = mopM`, `A = levels[0].A`) -/
def errOp (S : Mat) (c : Cyc) (cpl : Nat) (L : Lvl) (Ls : List Lvl) : F →ₗ[Rat] F :=
  LinearMap.id - msem (mopM S c cpl (L :: Ls)) ∘ₗ msem L.A

/-- `k_cycles_error_propagation` with the propagator as a linear map: `e_k = (I − M A)^k e_0` -/
theorem cycM_iter_error_pow (S : Mat) (c : Cyc) (cpl : Nat) (L : Lvl) (Ls : List Lvl) (xs b : Vec)
    (hb : msem L.A (sem xs) = sem b) (k : Nat) (x : Vec) :
    sem xs - sem (iterN (fun x => cycM S c cpl (L :: Ls) x b) k x) =
      (errOp S c cpl L Ls ^ k) (sem xs - sem x) := by
  rw [cycM_iter_error S c cpl L Ls xs b hb k x, Module.End.pow_apply]
  rfl

theorem stepM_cons (S : Mat) (c : Cyc) (cpl : Nat) (L : Lvl) (Ls : List Lvl) (b : Vec) :
    stepM S c cpl (L :: Ls) b = fun x => cycM S c cpl (L :: Ls) x b := rfl

/-- **C01 loop on the C03 cycle, error propagation.**  For `maxiter ≥ 1` and a right-hand side with a
solution `xs` of the finest-level system, the call returns after `k` cycles (`1 ≤ k ≤ maxiter`, `info`
and the stopping rule as in C01) and the error of the returned vector is `(I − M A)^k` applied to the
error of the start vector (`x0`, or zeros when omitted); the `j`-th vector handed to the callback has
error `(I − M A)^(j+1) e_0`.  `M = mopM c cpl` is C03's matrix of the hierarchy. -/
theorem solvePyM_error_propagation (S : Mat) (c : Cyc) (cpl : Nat) (L : Lvl) (Ls : List Lvl)
    (resnorm : Vec → R) (below : R → Bool) (maxiter : Nat) (hm : 1 ≤ maxiter) (b : Vec)
    (x0 : Option Vec) (residuals : Option (List R)) (hasCb returnInfo : Bool)
    (xs : Vec) (hb : msem L.A (sem xs) = sem b) :
    ∃ p k, solvePyM S c cpl (L :: Ls) resnorm below maxiter b x0 residuals hasCb returnInfo = some p ∧
      1 ≤ k ∧ k ≤ maxiter ∧
      p.info = (if returnInfo then some (if below (resnorm p.x) then 0 else k) else none) ∧
      (below (resnorm p.x) = false → k = maxiter) ∧
      sem xs - sem p.x = (errOp S c cpl L Ls ^ k) (sem xs - sem (x0.getD (zeros b.length))) ∧
      (hasCb = true → p.cb.length = k ∧ ∀ j, j < k →
        sem xs - sem (p.cb.getD j []) =
          (errOp S c cpl L Ls ^ (j + 1)) (sem xs - sem (x0.getD (zeros b.length)))) := by
  obtain ⟨p, k, hs, h1, h2, hx, hinfo, hmax, _, hcb, _⟩ :=
    C01.solvePy_spec (zeros b.length) (fun x => cycM S c cpl (L :: Ls) x b) (matVec S b)
      (L :: Ls).isEmpty resnorm below maxiter x0 residuals hasCb returnInfo hm
  rw [cyc_eq_stepM, stepM_cons] at hx hcb
  refine ⟨p, k, hs, h1, h2, hinfo, hmax, ?_, ?_⟩
  · rw [hx, iterate_eq_iterN]
    exact cycM_iter_error_pow S c cpl L Ls xs b hb k _
  · intro hc
    rw [hcb, if_pos hc]
    refine ⟨by simp, fun j hj => ?_⟩
    have : ((List.range k).map (fun j => iterate (fun x => cycM S c cpl (L :: Ls) x b) (j + 1)
        (x0.getD (zeros b.length)))).getD j [] =
        iterate (fun x => cycM S c cpl (L :: Ls) x b) (j + 1) (x0.getD (zeros b.length)) := by
      simp [List.getD_eq_getElem?_getD, hj]
    rw [this, iterate_eq_iterN]
    exact cycM_iter_error_pow S c cpl L Ls xs b hb (j + 1) _

/-! ## 3. energy monotonicity of the stand-alone solve on an SPD hierarchy (C02's hypotheses) -/

/-- the abstract hierarchy (per-level Euclidean form, level) denoted by model data -/
def absH (ELs : List (EForm Rat F × Lvl)) : List (EForm Rat F × Level Rat F) :=
  ELs.map (fun q => (q.1, (absLvl q.2).toLevel))

/-- **one cycle of C03's model is non-expansive under C02's hypotheses** (`WFG`: `R` adjoint to `P`,
Galerkin coarse matrices, smoothers non-expansive in their level's energy, solvable coarse problems,
energy-exact coarsest solve; finest matrix symmetric PSD w.r.t. `e`): `cycle_nonexpansive_of_galerkin`
of C02 transported to the executable `cycM` through `model_refines_abstract_cycle` of C03 -/
theorem cycM_nonexp (S : Mat) (c : Cyc) (cpl : Nat) (e ec : EForm Rat F) (L : Lvl)
    (rest : List (EForm Rat F × Lvl)) (hs hp)
    (h : WFG (fun v => msem S v) e (msem L.A) (absH ((ec, L) :: rest)))
    (x b xs : Vec) (hb : msem L.A (sem xs) = sem b) :
    (e.ofOp (msem L.A) hs hp).en (sem xs - sem (cycM S c cpl (L :: rest.map Prod.snd) x b)) ≤
      (e.ofOp (msem L.A) hs hp).en (sem xs - sem x) := by
  rw [cycM_sem]
  have hg := cycle_nonexp_of_galerkin (fun v => msem S v) (ctype c cpl) (absH ((ec, L) :: rest)) e
    (msem L.A) hs hp h
  have hmap : (absH ((ec, L) :: rest)).map Prod.snd =
      (L :: rest.map Prod.snd).map (fun l => (absLvl l).toLevel) := by
    simp [absH, List.map_map, Function.comp_def]
  rw [hmap] at hg
  exact hg (sem x) (sem b) (sem xs) hb

theorem iterN_succ' {α : Type} (f : α → α) (k : Nat) (x : α) : iterN f (k + 1) x = f (iterN f k x) := by
  rw [← iterate_eq_iterN, ← iterate_eq_iterN, iterate_succ']

/-- **C01 ∘ C03 ∘ C02**: on a hierarchy satisfying C02's hypotheses the stand-alone solve
(`solvePyM`: C01's loop, all options, on C03's cycle) returns after `k` cycles a vector whose error
energy is at most that of the start vector; the error energy of successive iterates never increases;
the vectors handed to the callback are these iterates, so their error energies are non-increasing
along the list (`i ≤ j → ‖e(cb[j])‖_A ≤ ‖e(cb[i])‖_A`). -/
theorem solvePyM_energy_monotone (S : Mat) (c : Cyc) (cpl : Nat) (e ec : EForm Rat F) (L : Lvl)
    (rest : List (EForm Rat F × Lvl)) (hs hp)
    (h : WFG (fun v => msem S v) e (msem L.A) (absH ((ec, L) :: rest)))
    (resnorm : Vec → R) (below : R → Bool) (maxiter : Nat) (hm : 1 ≤ maxiter) (b : Vec)
    (x0 : Option Vec) (residuals : Option (List R)) (hasCb returnInfo : Bool)
    (xs : Vec) (hb : msem L.A (sem xs) = sem b) :
    ∃ p k, solvePyM S c cpl (L :: rest.map Prod.snd) resnorm below maxiter b x0 residuals hasCb
        returnInfo = some p ∧ 1 ≤ k ∧ k ≤ maxiter ∧
      p.x = iterN (fun x => cycM S c cpl (L :: rest.map Prod.snd) x b) k (x0.getD (zeros b.length)) ∧
      (e.ofOp (msem L.A) hs hp).en (sem xs - sem p.x) ≤
        (e.ofOp (msem L.A) hs hp).en (sem xs - sem (x0.getD (zeros b.length))) ∧
      (∀ j, (e.ofOp (msem L.A) hs hp).en (sem xs -
            sem (iterN (fun x => cycM S c cpl (L :: rest.map Prod.snd) x b) (j + 1) (x0.getD (zeros b.length)))) ≤
          (e.ofOp (msem L.A) hs hp).en (sem xs -
            sem (iterN (fun x => cycM S c cpl (L :: rest.map Prod.snd) x b) j (x0.getD (zeros b.length))))) ∧
      (hasCb = true → p.cb.length = k ∧ ∀ i j, i ≤ j → j < k →
        (e.ofOp (msem L.A) hs hp).en (sem xs - sem (p.cb.getD j [])) ≤
          (e.ofOp (msem L.A) hs hp).en (sem xs - sem (p.cb.getD i []))) := by
  obtain ⟨p, k, hsol, h1, h2, hx, _, h5, h6, h7⟩ :=
    solvePy_measure_monotone (zeros b.length) (fun x => cycM S c cpl (L :: rest.map Prod.snd) x b)
      (matVec S b) (L :: rest.map Prod.snd).isEmpty resnorm below maxiter hm x0 residuals hasCb returnInfo
      (fun _ => True) (fun x => (e.ofOp (msem L.A) hs hp).en (sem xs - sem x))
      (fun x _ => ⟨trivial, by
        rw [cyc_eq_stepM, stepM_cons]
        exact cycM_nonexp S c cpl e ec L rest hs hp h x b xs hb⟩) trivial []
  rw [cyc_eq_stepM, stepM_cons] at hx h6 h7
  simp only [iterate_eq_iterN] at hx h6
  exact ⟨p, k, hsol, h1, h2, hx, h5, h6, fun hc => ⟨(h7 hc).1, (h7 hc).2.2⟩⟩

end PyamgV.SolvePath
