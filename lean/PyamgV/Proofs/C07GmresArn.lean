import PyamgV.Model.C07Gmres
import PyamgV.Proofs.C07Refine
import PyamgV.Proofs.ArnoldiStep

/-! PyamgV (C07, GMRES with modified Gram–Schmidt): the Arnoldi part of the executable model
`gmresStep` (`Model/C07Gmres.lean`), instantiated with the operations of a `K`-module and an exact
square root, *is* `GS.arnoldiStep`, so by `arnoldiStep_inv` every state of the model carries an
orthonormal-or-zero basis `v_0 … v_j` and Hessenberg columns with the Arnoldi relation
`(MA) v_i = Σ_l H_{l i} v_l` — also through a breakdown (`gmres_model_arnoldi`).  These are the
`Arnoldi` hypotheses of `gmres_optimal_of_givens`; the rotations the model computes are unit
rotations that zero the subdiagonal (`lartg_unit`, `lartg_zero`). -/
namespace PyamgV.C07

variable {K : Type} [Field K] [LinearOrder K] [IsStrictOrderedRing K]
variable {V : Type} [AddCommGroup V] [Module K V]
variable (A AH M : V →ₗ[K] V) (e : EForm K V)

theorem orthO_eq (vs : List V) (w : V) :
    orthO (Ops.ofModule A AH M e) vs w = GS.orth e vs w := by
  induction vs generalizing w with
  | nil => rfl
  | cons q qs ih =>
    simp only [orthO, GS.orth]
    rw [← ih]
    rfl

/-- the breakdown test of the model over an ordered field -/
def posK (a : K) : Bool := decide (a > 0)

theorem newColO_eq (sqrt : K → K) (rem : V) :
    newColO (Ops.ofModule A AH M e) sqrt posK rem = GS.newCol e sqrt 0 rem := by
  unfold newColO GS.newCol posK
  simp only [Ops.ofModule]
  by_cases h : sqrt (e.a rem rem) > 0
  · simp [h]
  · simp [h]

theorem arnoldiO_eq (sqrt : K → K) (vs : List V) (vk : V) :
    arnoldiO (Ops.ofModule A AH M e) sqrt posK vs vk = GS.arnoldiStep e sqrt (M ∘ₗ A) vs vk := by
  unfold arnoldiO GS.arnoldiStep
  simp only [orthO_eq, newColO_eq]
  rfl

variable (sqrt : K → K) (nz : K → Bool) (n : Nat) (b x0 : V)

/-- the states of the GMRES(MGS) model over the module -/
def gmSeq (k : Nat) : GmSt K V :=
  iter (gmresStep (Ops.ofModule A AH M e) sqrt posK nz n x0) k (gmresInit (Ops.ofModule A AH M e) sqrt b x0)

theorem getLast_getD (vs : List V) (m : Nat) (h : m + 1 = vs.length) (d : V) :
    vs.getLast?.getD d = vs.getD m 0 := by
  rw [List.getLast?_eq_getElem?]
  have : vs.length - 1 = m := by omega
  rw [this, List.getD_eq_getElem?_getD]
  have hm : m < vs.length := by omega
  simp [List.getElem?_eq_getElem hm]

/-- **the model's Krylov basis is orthonormal (or zero after a breakdown) and satisfies the Arnoldi
relation for the preconditioned operator `MA`**, at every step -/
theorem gmres_model_arnoldi (hdef : ∀ v, e.a v v = 0 → v = 0)
    (hsq : ∀ a, 0 ≤ a → sqrt a * sqrt a = a) (hsq0 : ∀ a, 0 ≤ sqrt a) (k : Nat) :
    GS.ArnL e (M ∘ₗ A) (gmSeq A AH M e sqrt nz n b x0 k).vs (gmSeq A AH M e sqrt nz n b x0 k).cols := by
  induction k with
  | zero =>
    simp only [gmSeq, iter, gmresInit, Ops.ofModule]
    set r := M (b - A x0) with hr
    refine ⟨⟨?_, by simp, trivial⟩, by simp, by simp, by simp⟩
    by_cases h0 : sqrt (e.a r r) = 0
    · left; rw [h0]; simp
    · right
      have := hsq (e.a r r) (e.nonneg r)
      simp only [map_smul, LinearMap.smul_apply, smul_eq_mul]
      generalize sqrt (e.a r r) = t at this h0
      rw [← this]; field_simp
  | succ k ih =>
    have hstep : gmSeq A AH M e sqrt nz n b x0 (k+1) =
        gmresStep (Ops.ofModule A AH M e) sqrt posK nz n x0 (gmSeq A AH M e sqrt nz n b x0 k) := rfl
    rw [hstep]
    generalize gmSeq A AH M e sqrt nz n b x0 k = s at ih
    simp only [gmresStep, arnoldiO_eq]
    have hlast : s.vs.getD s.cols.length 0 = s.vs.getLast?.getD x0 :=
      (getLast_getD s.vs s.cols.length ih.len x0).symm
    exact GS.arnoldiStep_inv e hdef sqrt hsq hsq0 (M ∘ₗ A) s.vs s.cols _ hlast ih

/-! ### the rotation `lartgO` computes is a unit rotation that zeroes the second entry -/
theorem lartg_unit (hsq : ∀ a, 0 ≤ a → sqrt a * sqrt a = a) (f g : K) (hne : sqrt (f * f + g * g) ≠ 0) :
    (lartgO sqrt f g).1 * (lartgO sqrt f g).1 + (lartgO sqrt f g).2 * (lartgO sqrt f g).2 = 1 := by
  have h := hsq (f * f + g * g) (add_nonneg (mul_self_nonneg f) (mul_self_nonneg g))
  simp only [lartgO]
  generalize sqrt (f * f + g * g) = r at h hne
  field_simp
  have h2 : r ^ 2 = r * r := by ring
  rw [h2, h]; ring

theorem lartg_zero (f g : K) :
    -(lartgO sqrt f g).2 * f + (lartgO sqrt f g).1 * g = 0 := by
  simp only [lartgO]
  by_cases hne : sqrt (f * f + g * g) = 0
  · rw [hne]; simp
  · field_simp; ring

#print axioms gmres_model_arnoldi
end PyamgV.C07
