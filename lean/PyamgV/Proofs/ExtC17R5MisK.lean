import PyamgV.Proofs.ExtC17R4MisK
import PyamgV.Proofs.ExtGraphMisK

/-! PyamgV (C17, extension E46, round 5): TERMINATION inside the `Ck` model of `maximal_independent_set_k_parallel`
(`C17R4.misKParallel`, `Model/ExtC17R4Graph.lean`) with `max_iters = -1`, by refinement: the checked model computes, loop by loop,
what the function model `G.misK` (`Model/ExtGraph.lean`) computes, whose termination is `Ext.misK_total` (property C18).

* `propagateMax_ref`: one call of `csr_propagate_max` of the checked model = `G.propagateMax` (keys are `int` in the kernel, natural
  numbers in the function model: `KRel`);
* `propagateK_ref`: `k` calls with the two `std::swap`s = `G.iter (G.propagateMax ..) k`;
* `mkIter_ref`: one outer iteration = `G.misKIter` (states related by `Rel`: same `x`, `active`, `i_vals`, and `i_keys[i] = i`);
* `misKParallel_total`: with weights in a strict total order that the abstract comparisons of the checked model decide (`WAgree`), all
  above the marker `-1`, on a symmetric structurally valid pattern, for every `k ≥ 0`: the checked model returns within `n + 1`
  iterations (ANY fuel `≥ n + 1`), every access in range, and the result is a distance-`k` maximal independent set.
Core Lean only. -/
namespace PyamgV.C17R5
open PyamgV.Ck PyamgV.C17 PyamgV.C17R4 PyamgV.Ext

set_option linter.unusedSectionVars false
set_option linter.unusedVariables false

variable {W : Type} [LT W] [DecidableRel (α := W) (· < ·)] [DecidableEq W] [Inhabited W]

/-- the comparisons of the checked model are those of the ordered type -/
structure WAgree (w : WOps W) : Prop where
  gt : ∀ a b, w.gt a b = decide (b < a)
  eq : ∀ a b, w.eq a b = decide (a = b)

/-- the function-model graph of the kernel's `int` CSR arrays -/
def natG (n : Nat) (ap aj : Array Int) : G.Graph := ⟨n, ap.map Int.toNat, aj.map Int.toNat⟩

theorem getD_map_toNat (a : Array Int) (i : Nat) : (a.map Int.toNat).getD i 0 = (a.getD i 0).toNat := by
  simp only [Array.getD_eq_getD_getElem?, Array.getElem?_map]
  cases a[i]? <;> rfl

theorem natG_row (n : Nat) (ap aj : Array Int) (i : Nat) :
    (natG n ap aj).row i =
      (List.range' (ap.getD i 0).toNat ((ap.getD (i+1) 0).toNat - (ap.getD i 0).toNat)).map (fun q => (aj.getD q 0).toNat) := by
  unfold G.Graph.row natG G.rdN
  simp only [getD_map_toNat]

theorem arr_ext {α : Type} (d : α) {a b : Array α} {n : Nat} (ha : a.size = n) (hb : b.size = n)
    (h : ∀ i, i < n → a.getD i d = b.getD i d) : a = b := by
  apply Array.ext (by rw [ha, hb])
  intro i h1 h2
  have := h i (by omega)
  simpa [Array.getD_eq_getD_getElem?, h1, h2] using this

/-! ### `csr_propagate_max` -/

/-- one step of the `(k_max, v_max)` scan (function model) -/
def pstep (keys : Array Nat) (vals : Array W) (acc : Nat × W) (j : Nat) : Nat × W :=
  if keys.getD j 0 = acc.1 then acc
  else if vals.getD j default < acc.2 then acc
  else if acc.2 < vals.getD j default ∨ keys.getD j 0 > acc.1 then (keys.getD j 0, vals.getD j default)
  else acc

theorem propagateRow_eq (keys : Array Nat) (vals : Array W) (i : Nat) (row : List Nat) :
    G.propagateRow keys vals i row = row.foldl (pstep keys vals) (keys.getD i 0, vals.getD i default) := rfl

/-- the scan over the first `t` stored entries of a row that starts at position `s0` -/
def rowFold (aj : Array Int) (keys : Array Nat) (vals : Array W) (i s0 t : Nat) : Nat × W :=
  ((List.range' s0 t).map (fun q => (aj.getD q 0).toNat)).foldl (pstep keys vals) (keys.getD i 0, vals.getD i default)

theorem rowFold_succ (aj : Array Int) (keys : Array Nat) (vals : Array W) (i s0 t : Nat) :
    rowFold aj keys vals i s0 (t + 1) = pstep keys vals (rowFold aj keys vals i s0 t) (aj.getD (s0 + t) 0).toNat := by
  unfold rowFold
  rw [List.range'_concat, List.map_append, List.foldl_append]
  simp

/-- keys as the kernel stores them (`int`) and as the function model does -/
def KRel (n : Nat) (ik : Array Int) (keys : Array Nat) : Prop :=
  ik.size = n ∧ ∀ r, r < n → ik.getD r 0 = ((keys.getD r 0 : Nat) : Int)

/-- row `r` of `csr_propagate_max` in the function model -/
def PR (n : Nat) (ap aj : Array Int) (keys : Array Nat) (vals : Array W) (r : Nat) : Nat × W :=
  G.propagateRow keys vals r ((natG n ap aj).row r)

theorem PR_eq {n : Nat} {ap aj : Array Int} (hA : WFm (patS n ap aj) n) (keys : Array Nat) (vals : Array W) (r : Nat) (hr : r < n) :
    PR n ap aj keys vals r
      = rowFold aj keys vals r (ap.getD r 0).toNat ((ap.getD (r+1) 0) - (ap.getD r 0)).toNat := by
  unfold PR rowFold
  rw [propagateRow_eq, natG_row]
  have h1 := ap_nonneg_m (patS n ap aj) hA r (by show r ≤ n; omega)
  have h2 := hA.mono r (by show r < n; exact hr)
  have h1' : 0 ≤ ap.getD r 0 := h1
  have h2' : ap.getD r 0 ≤ ap.getD (r+1) 0 := h2
  have e : (ap.getD (r+1) 0).toNat - (ap.getD r 0).toNat = ((ap.getD (r+1) 0) - (ap.getD r 0)).toNat := by omega
  rw [e]

/-- **`csr_propagate_max`: the checked model computes the function model** -/
theorem propagateMax_ref (w : WOps W) (hw : WAgree w) {n : Nat} {ap aj : Array Int} (hA : WFm (patS n ap aj) n)
    (ik : Array Int) (keys : Array Nat) (hK : KRel n ik keys) (iv : Array W) (hiv : iv.size = n)
    (okv : Array Int × Array W) (h1 : okv.1.size = n) (h2 : okv.2.size = n) :
    Safe (propagateMax w n ap aj ik iv okv) (fun o =>
      KRel n o.1 (G.propagateMax (natG n ap aj) (keys, iv)).1 ∧ o.2 = (G.propagateMax (natG n ap aj) (keys, iv)).2) := by
  unfold propagateMax
  refine Safe.mono (forRange_safe_idx
    (fun (i : Int) (o : Array Int × Array W) => o.1.size = n ∧ o.2.size = n ∧
      ∀ r : Nat, (r : Int) < i → o.1.getD r 0 = (((PR n ap aj keys iv r).1 : Nat) : Int) ∧
        o.2.getD r default = (PR n ap aj keys iv r).2)
    0 (n : Int) (by omega) _ _ ⟨h1, h2, fun r hr => by omega⟩ ?_) (fun o h => ?_)
  · intro i i0 i1 st hst
    obtain ⟨s1, s2, s3⟩ := hst
    have hin : i.toNat < n := by omega
    refine Safe.bind (rd_safe ik i i0 (by rw [hK.1]; omega)) (fun k0 hk0 => ?_)
    refine Safe.bind (rd_safe iv i i0 (by rw [hiv]; omega)) (fun v0 hv0 => ?_)
    obtain ⟨q1, q2, hrow⟩ := row_facts hA i i0 i1
    refine Safe.bind q1 (fun s hs => ?_)
    refine Safe.bind q2 (fun e he => ?_)
    subst hs; subst he
    have hs0 : 0 ≤ ap.getD i.toNat 0 := ap_nonneg_m (patS n ap aj) hA i.toNat (by show i.toNat ≤ n; omega)
    have hmono : ap.getD i.toNat 0 ≤ ap.getD (i.toNat + 1) 0 := hA.mono i.toNat (by show i.toNat < n; omega)
    refine Safe.bind (P := fun km : Int × W => km.1 = (((PR n ap aj keys iv i.toNat).1 : Nat) : Int) ∧
      km.2 = (PR n ap aj keys iv i.toNat).2) ?_ (fun km hkm => ?_)
    · refine Safe.mono (forRange_safe_idx
        (fun (jj : Int) (km : Int × W) =>
          km.1 = (((rowFold aj keys iv i.toNat (ap.getD i.toNat 0).toNat (jj - ap.getD i.toNat 0).toNat).1 : Nat) : Int) ∧
          km.2 = (rowFold aj keys iv i.toNat (ap.getD i.toNat 0).toNat (jj - ap.getD i.toNat 0).toNat).2)
        _ _ hmono _ _ ?_ ?_) (fun km h => ?_)
      · have e0 : (ap.getD i.toNat 0 - ap.getD i.toNat 0).toNat = 0 := by omega
        rw [e0]
        show k0 = ((keys.getD i.toNat 0 : Nat) : Int) ∧ v0 = iv.getD i.toNat default
        exact ⟨by rw [hk0]; exact hK.2 i.toNat hin, hv0⟩
      · intro jj j1 j2 km hkm
        refine Safe.bind (hrow jj j1 j2) (fun j hj => ?_)
        obtain ⟨hje, hj0, hj1⟩ := hj
        refine Safe.bind (rd_safe ik j hj0 (by rw [hK.1]; omega)) (fun kj hkj => ?_)
        refine Safe.bind (rd_safe iv j hj0 (by rw [hiv]; omega)) (fun vj hvj => ?_)
        have et : (jj + 1 - ap.getD i.toNat 0).toNat = (jj - ap.getD i.toNat 0).toNat + 1 := by omega
        have ej : (ap.getD i.toNat 0).toNat + (jj - ap.getD i.toNat 0).toNat = jj.toNat := by omega
        rw [et, rowFold_succ, ej, ← hje]
        generalize rowFold aj keys iv i.toNat (ap.getD i.toNat 0).toNat (jj - ap.getD i.toNat 0).toNat = acc at hkm
        obtain ⟨a1, a2⟩ := hkm
        have hkj' : kj = ((keys.getD j.toNat 0 : Nat) : Int) := by rw [hkj]; exact hK.2 j.toNat (by omega)
        have hvj' : vj = iv.getD j.toNat default := hvj
        unfold pstep
        rw [← hvj']
        by_cases c1 : keys.getD j.toNat 0 = acc.1
        · rw [if_pos c1, if_pos (by rw [hkj', a1, c1])]
          exact Safe.pure ⟨a1, a2⟩
        · rw [if_neg c1, if_neg (by rw [hkj', a1]; omega)]
          by_cases c2 : vj < acc.2
          · rw [if_pos c2, if_pos (by rw [hw.gt, a2]; exact decide_eq_true c2)]
            exact Safe.pure ⟨a1, a2⟩
          · rw [if_neg c2, if_neg (by rw [hw.gt, a2]; simpa using c2)]
            by_cases c3 : acc.2 < vj ∨ keys.getD j.toNat 0 > acc.1
            · rw [if_pos c3, if_pos (by
                rcases c3 with c3 | c3
                · exact Or.inl (by rw [hw.gt, a2]; exact decide_eq_true c3)
                · exact Or.inr (by rw [hkj', a1]; omega))]
              exact Safe.pure ⟨hkj', rfl⟩
            · rw [if_neg c3, if_neg (by
                rintro (c4 | c4)
                · rw [hw.gt, a2] at c4; exact c3 (Or.inl (of_decide_eq_true c4))
                · rw [hkj', a1] at c4; exact c3 (Or.inr (by omega)))]
              exact Safe.pure ⟨a1, a2⟩
      · rw [PR_eq hA keys iv i.toNat hin]
        exact h
    · refine Safe.bind (wr_val st.1 i km.1 i0 (by rw [s1]; omega)) (fun ok' hok => ?_)
      refine Safe.bind (wr_val st.2 i km.2 i0 (by rw [s2]; omega)) (fun ov' hov => ?_)
      refine Safe.pure ⟨by show ok'.size = n; rw [hok]; simp [s1], by show ov'.size = n; rw [hov]; simp [s2], fun r hr => ?_⟩
      show ok'.getD r 0 = _ ∧ ov'.getD r default = _
      rw [hok, hov, getD_setG, getD_setG]
      by_cases hri : i.toNat = r
      · rw [if_pos ⟨hri, by rw [s1]; omega⟩, if_pos ⟨hri, by rw [s2]; omega⟩, ← hri]
        exact hkm
      · rw [if_neg (fun hh => hri hh.1), if_neg (fun hh => hri hh.1)]
        exact s3 r (by omega)
  · obtain ⟨o1, o2, o3⟩ := h
    have hn : (natG n ap aj).n = n := rfl
    refine ⟨⟨o1, fun r hr => ?_⟩, ?_⟩
    · show o.1.getD r 0 = (((G.tab (natG n ap aj).n fun i =>
        (G.propagateRow keys iv i ((natG n ap aj).row i)).1).getD r 0 : Nat) : Int)
      rw [hn, getD_tab _ _ _ r hr]
      exact (o3 r (by omega)).1
    · show o.2 = G.tab (natG n ap aj).n fun i => (G.propagateRow keys iv i ((natG n ap aj).row i)).2
      rw [hn]
      refine arr_ext default o2 (size_tab _ _) (fun r hr => ?_)
      rw [getD_tab _ _ _ r hr]
      exact (o3 r (by omega)).2

/-! ### `k` propagation rounds with the two `std::swap`s -/

theorem iter_succ' {α : Type} (f : α → α) : ∀ (t : Nat) (a : α), G.iter f (t + 1) a = f (G.iter f t a) := by
  intro t
  induction t with
  | zero => intro a; rfl
  | succ t ih => intro a; exact ih (f a)

theorem propagateK_ref (w : WOps W) (hw : WAgree w) {n : Nat} {ap aj : Array Int} (hA : WFm (patS n ap aj) n) (k : Int) (hk : 0 ≤ k)
    (kv : KV W) (keys : Array Nat) (hK : KRel n kv.ik keys) (hiv : kv.iv.size = n) (hok : kv.ok.size = n) (hov : kv.ov.size = n) :
    Safe (propagateK w n ap aj k kv) (fun kv' =>
      KRel n kv'.ik (G.iter (G.propagateMax (natG n ap aj)) k.toNat (keys, kv.iv)).1 ∧
      kv'.iv = (G.iter (G.propagateMax (natG n ap aj)) k.toNat (keys, kv.iv)).2 ∧
      kv'.iv.size = n ∧ kv'.ok.size = n ∧ kv'.ov.size = n) := by
  unfold propagateK
  refine Safe.mono (forRange_safe_idx
    (fun (t : Int) (kv' : KV W) =>
      KRel n kv'.ik (G.iter (G.propagateMax (natG n ap aj)) t.toNat (keys, kv.iv)).1 ∧
      kv'.iv = (G.iter (G.propagateMax (natG n ap aj)) t.toNat (keys, kv.iv)).2 ∧
      kv'.iv.size = n ∧ kv'.ok.size = n ∧ kv'.ov.size = n)
    0 k hk _ _ ⟨hK, rfl, hiv, hok, hov⟩ ?_) (fun r h => h)
  intro t t0 t1 kv' hkv'
  obtain ⟨a1, a2, a3, a4, a5⟩ := hkv'
  refine Safe.bind (propagateMax_ref w hw hA kv'.ik _ a1 kv'.iv a3 (kv'.ok, kv'.ov) a4 a5) (fun o ho => ?_)
  have et : (t + 1).toNat = t.toNat + 1 := by omega
  have hn : (natG n ap aj).n = n := rfl
  refine Safe.pure ⟨?_, ?_, ?_, a1.1, a3⟩
  · show KRel n o.1 (G.iter (G.propagateMax (natG n ap aj)) (t + 1).toNat (keys, kv.iv)).1
    rw [et, iter_succ']
    have := ho.1
    rw [a2] at this
    exact this
  · show o.2 = (G.iter (G.propagateMax (natG n ap aj)) (t + 1).toNat (keys, kv.iv)).2
    rw [et, iter_succ']
    have := ho.2
    rw [a2] at this
    exact this
  · show o.2.size = n
    rw [ho.2]
    show (G.tab (natG n ap aj).n _).size = n
    rw [size_tab]
    rfl

/-! ### one outer iteration -/

/-- the state of the checked model and the state of the function model describe the same vectors -/
structure Rel (n : Nat) (st : MK W) (s : G.KState W) : Prop where
  x : st.x = s.x
  act : st.act = s.active
  iv : st.kv.iv = s.vals
  ik : KRel n st.kv.ik (G.tab n id)
  ok : st.kv.ok.size = n
  ov : st.kv.ov.size = n
  sx : s.x.size = n
  sa : s.active.size = n
  sv : s.vals.size = n

/-- `x[i]` after the update loop -/
def xNew (K1 : Array Nat) (s : G.KState W) (r : Nat) : Int :=
  if K1.getD r 0 = r ∧ s.active.getD r false = true then 1 else G.rdI s.x r

/-- node `i` is within distance `k` of a member of the set -/
def hitK (cast : Int → W) (K2v : Array W) (i : Nat) : Bool := decide (K2v.getD i default = cast 1)

theorem misKIter_unfold (Gc : G.Graph) (k : Nat) (cast : Int → W) (y : Array W) (s : G.KState W) :
    G.misKIter Gc k cast y s =
      (⟨G.tab Gc.n (xNew (G.iter (G.propagateMax Gc) k (G.tab Gc.n id, s.vals)).1 s),
        G.tab Gc.n (fun i => if hitK cast (G.iter (G.propagateMax Gc) k (G.tab Gc.n id, G.tab Gc.n (fun i => cast (G.rdI
          (G.tab Gc.n (xNew (G.iter (G.propagateMax Gc) k (G.tab Gc.n id, s.vals)).1 s)) i)))).2 i then false
          else s.active.getD i false),
        G.tab Gc.n (fun i => if hitK cast (G.iter (G.propagateMax Gc) k (G.tab Gc.n id, G.tab Gc.n (fun i => cast (G.rdI
          (G.tab Gc.n (xNew (G.iter (G.propagateMax Gc) k (G.tab Gc.n id, s.vals)).1 s)) i)))).2 i then cast (-1)
          else y.getD i default)⟩,
       (List.range Gc.n).any (fun i => !hitK cast (G.iter (G.propagateMax Gc) k (G.tab Gc.n id, G.tab Gc.n (fun i => cast (G.rdI
          (G.tab Gc.n (xNew (G.iter (G.propagateMax Gc) k (G.tab Gc.n id, s.vals)).1 s)) i)))).2 i)) := rfl

theorem krel_id {n : Nat} {ik : Array Int} (h1 : ik.size = n) (h2 : ∀ r : Nat, r < n → ik.getD r 0 = (r : Int)) :
    KRel n ik (G.tab n id) := ⟨h1, fun r hr => by rw [getD_tab _ _ _ r hr]; exact h2 r hr⟩

theorem krel_id_val {n : Nat} {ik : Array Int} (h : KRel n ik (G.tab n id)) (r : Nat) (hr : r < n) : ik.getD r 0 = (r : Int) := by
  have := h.2 r hr
  rw [getD_tab _ _ _ r hr] at this
  exact this

/-- the loop `if(i_keys[i] == i && active[i]) x[i] = 1; i_keys[i] = i; i_vals[i] = x[i];` -/
theorem mkUpd_ref (w : WOps W) {n : Nat} (act : Array Bool) (hact : act.size = n) (x0 : Array Int) (hx0 : x0.size = n)
    (kv1 : KV W) (K1k : Array Nat) (hK : KRel n kv1.ik K1k) (hiv : kv1.iv.size = n) (hok : kv1.ok.size = n)
    (hov : kv1.ov.size = n) (s : G.KState W) (hx : x0 = s.x) (ha : act = s.active) :
    Safe (forRange 0 (n : Int) (x0, kv1) (fun i (s : Array Int × KV W) => do
        let ki ← Ck.rd s.2.ik i
        let ai ← Ck.rd act i
        let x ← (if ki = i ∧ ai = true then Ck.wr s.1 i 1 else pure s.1)
        let ik ← Ck.wr s.2.ik i i
        let xi ← Ck.rd x i
        let iv ← Ck.wr s.2.iv i (w.ofInt xi)
        pure (x, ⟨ik, s.2.ok, iv, s.2.ov⟩)))
      (fun r => r.1 = G.tab n (xNew K1k s) ∧ KRel n r.2.ik (G.tab n id) ∧
        r.2.iv = G.tab n (fun i => w.ofInt (G.rdI (G.tab n (xNew K1k s)) i)) ∧ r.2.ok.size = n ∧ r.2.ov.size = n) := by
  refine Safe.mono (forRange_safe_idx
    (fun (i : Int) (r : Array Int × KV W) =>
      r.1.size = n ∧ (∀ q : Nat, (q : Int) < i → r.1.getD q 0 = xNew K1k s q) ∧
      (∀ q : Nat, i ≤ (q : Int) → r.1.getD q 0 = x0.getD q 0) ∧
      r.2.ik.size = n ∧ (∀ q : Nat, (q : Int) < i → r.2.ik.getD q 0 = (q : Int)) ∧
      (∀ q : Nat, i ≤ (q : Int) → r.2.ik.getD q 0 = kv1.ik.getD q 0) ∧
      r.2.iv.size = n ∧ (∀ q : Nat, (q : Int) < i → r.2.iv.getD q default = w.ofInt (xNew K1k s q)) ∧
      r.2.ok.size = n ∧ r.2.ov.size = n)
    0 (n : Int) (by omega) _ _
    ⟨hx0, fun q hq => by omega, fun _ _ => rfl, hK.1, fun q hq => by omega, fun _ _ => rfl, hiv, fun q hq => by omega, hok, hov⟩
    ?_) (fun r h => ?_)
  · intro i i0 i1 r hr
    obtain ⟨b1, b2, b3, b4, b5, b6, b7, b8, b9, b10⟩ := hr
    have hin : i.toNat < n := by omega
    refine Safe.bind (rd_safe r.2.ik i i0 (by rw [b4]; omega)) (fun ki hki => ?_)
    refine Safe.bind (rd_safe act i i0 (by rw [hact]; omega)) (fun ai hai => ?_)
    have hki' : ki = ((K1k.getD i.toNat 0 : Nat) : Int) := by
      have hki0 : ki = r.2.ik.getD i.toNat 0 := hki
      rw [hki0, b6 i.toNat (by omega)]; exact hK.2 i.toNat hin
    have hai' : ai = s.active.getD i.toNat false := by rw [hai, ha]; rfl
    have hcond : (ki = i ∧ ai = true) ↔ (K1k.getD i.toNat 0 = i.toNat ∧ s.active.getD i.toNat false = true) := by
      rw [hki', hai']
      constructor
      · rintro ⟨c1, c2⟩; exact ⟨by omega, c2⟩
      · rintro ⟨c1, c2⟩; exact ⟨by omega, c2⟩
    have hxold : r.1.getD i.toNat 0 = G.rdI s.x i.toNat := by
      rw [b3 i.toNat (by omega), hx]; rfl
    refine Safe.bind (P := fun x' : Array Int => x'.size = n ∧ x'.getD i.toNat 0 = xNew K1k s i.toNat ∧
        ∀ q, q ≠ i.toNat → x'.getD q 0 = r.1.getD q 0) ?_ (fun x' hx' => ?_)
    · by_cases hc : ki = i ∧ ai = true
      · rw [if_pos hc]
        refine Safe.mono (wr_val r.1 i 1 i0 (by rw [b1]; omega)) (fun x' h => ?_)
        rw [h]
        refine ⟨by simp [b1], ?_, fun q hq => ?_⟩
        · rw [getD_setInt, if_pos ⟨rfl, by rw [b1]; omega⟩]
          unfold xNew; rw [if_pos (hcond.1 hc)]
        · rw [getD_setInt, if_neg (fun hh => hq hh.1.symm)]
      · rw [if_neg hc]
        refine Safe.pure ⟨b1, ?_, fun _ _ => rfl⟩
        unfold xNew; rw [if_neg (fun hh => hc (hcond.2 hh))]; exact hxold
    · obtain ⟨x1, x2, x3⟩ := hx'
      refine Safe.bind (wr_val r.2.ik i i i0 (by rw [b4]; omega)) (fun ik' hik => ?_)
      refine Safe.bind (rd_safe x' i i0 (by rw [x1]; omega)) (fun xi hxi => ?_)
      refine Safe.bind (wr_val r.2.iv i (w.ofInt xi) i0 (by rw [b7]; omega)) (fun iv' hiv' => ?_)
      have hxi' : xi = xNew K1k s i.toNat := by
        have hxi0 : xi = x'.getD i.toNat 0 := hxi
        rw [hxi0]; exact x2
      refine Safe.pure ⟨x1, fun q hq => ?_, fun q hq => ?_, by show ik'.size = n; rw [hik]; simp [b4], fun q hq => ?_,
        fun q hq => ?_, by show iv'.size = n; rw [hiv']; simp [b7], fun q hq => ?_, b9, b10⟩
      · by_cases hqi : q = i.toNat
        · rw [hqi]; exact x2
        · rw [x3 q hqi]; exact b2 q (by omega)
      · rw [x3 q (by omega)]; exact b3 q (by omega)
      · show ik'.getD q 0 = (q : Int)
        rw [hik, getD_setInt]
        by_cases hqi : i.toNat = q
        · rw [if_pos ⟨hqi, by rw [b4]; omega⟩]; omega
        · rw [if_neg (fun hh => hqi hh.1)]; exact b5 q (by omega)
      · show ik'.getD q 0 = kv1.ik.getD q 0
        rw [hik, getD_setInt, if_neg (fun hh => by omega)]
        exact b6 q (by omega)
      · show iv'.getD q default = w.ofInt (xNew K1k s q)
        rw [hiv', getD_setG]
        by_cases hqi : i.toNat = q
        · rw [if_pos ⟨hqi, by rw [b7]; omega⟩, hxi', hqi]
        · rw [if_neg (fun hh => hqi hh.1)]; exact b8 q (by omega)
  · obtain ⟨b1, b2, _, b4, b5, _, b7, b8, b9, b10⟩ := h
    have hx1 : r.1 = G.tab n (xNew K1k s) :=
      arr_ext 0 b1 (size_tab _ _) (fun q hq => by rw [getD_tab _ _ _ q hq]; exact b2 q (by omega))
    refine ⟨hx1, krel_id b4 (fun q hq => b5 q (by omega)), ?_, b9, b10⟩
    refine arr_ext default b7 (size_tab _ _) (fun q hq => ?_)
    rw [getD_tab _ _ _ q hq, b8 q (by omega)]
    show w.ofInt (xNew K1k s q) = w.ofInt ((G.tab n (xNew K1k s)).getD q 0)
    rw [getD_tab _ _ _ q hq]

/-- the last loop of an iteration: nodes within distance `k` of the set are retired, the others get their weight back -/
theorem mkFin_ref (w : WOps W) (hw : WAgree w) {n : Nat} (y : Array W) (hy : y.size = n) (act0 : Array Bool)
    (hact : act0.size = n) (kv2 : KV W) (hik : kv2.ik.size = n) (hiv : kv2.iv.size = n) (hok : kv2.ok.size = n)
    (hov : kv2.ov.size = n) :
    Safe (forRange 0 (n : Int) (act0, kv2, false) (fun i (s : Array Bool × KV W × Bool) => do
        let vi ← Ck.rd s.2.1.iv i
        if w.eq vi (w.ofInt 1) then do
          let a ← Ck.wr s.1 i false
          let iv ← Ck.wr s.2.1.iv i (w.ofInt (-1))
          let ik ← Ck.wr s.2.1.ik i i
          pure (a, ⟨ik, s.2.1.ok, iv, s.2.1.ov⟩, s.2.2)
        else do
          let yi ← Ck.rd y i
          let iv ← Ck.wr s.2.1.iv i yi
          let ik ← Ck.wr s.2.1.ik i i
          pure (s.1, ⟨ik, s.2.1.ok, iv, s.2.1.ov⟩, true)))
      (fun f => f.1 = G.tab n (fun i => if hitK w.ofInt kv2.iv i then false else act0.getD i false) ∧
        f.2.1.iv = G.tab n (fun i => if hitK w.ofInt kv2.iv i then w.ofInt (-1) else y.getD i default) ∧
        KRel n f.2.1.ik (G.tab n id) ∧ f.2.1.ok.size = n ∧ f.2.1.ov.size = n ∧
        f.2.2 = (List.range n).any (fun i => !hitK w.ofInt kv2.iv i)) := by
  refine Safe.mono (forRange_safe_idx
    (fun (i : Int) (f : Array Bool × KV W × Bool) =>
      f.1.size = n ∧
      (∀ q : Nat, (q : Int) < i → f.1.getD q false = if hitK w.ofInt kv2.iv q then false else act0.getD q false) ∧
      (∀ q : Nat, i ≤ (q : Int) → f.1.getD q false = act0.getD q false) ∧
      f.2.1.iv.size = n ∧
      (∀ q : Nat, (q : Int) < i → f.2.1.iv.getD q default = if hitK w.ofInt kv2.iv q then w.ofInt (-1) else y.getD q default) ∧
      (∀ q : Nat, i ≤ (q : Int) → f.2.1.iv.getD q default = kv2.iv.getD q default) ∧
      f.2.1.ik.size = n ∧ (∀ q : Nat, (q : Int) < i → f.2.1.ik.getD q 0 = (q : Int)) ∧
      f.2.1.ok.size = n ∧ f.2.1.ov.size = n ∧
      f.2.2 = (List.range i.toNat).any (fun i => !hitK w.ofInt kv2.iv i))
    0 (n : Int) (by omega) _ _
    ⟨hact, fun q hq => by omega, fun _ _ => rfl, hiv, fun q hq => by omega, fun _ _ => rfl, hik, fun q hq => by omega, hok, hov,
      rfl⟩ ?_) (fun f h => ?_)
  · intro i i0 i1 f hf
    obtain ⟨b1, b2, b3, b4, b5, b6, b7, b8, b9, b10, b11⟩ := hf
    have hin : i.toNat < n := by omega
    have et : (i + 1).toNat = i.toNat + 1 := by omega
    refine Safe.bind (rd_safe f.2.1.iv i i0 (by rw [b4]; omega)) (fun vi hvi => ?_)
    have hvi' : vi = kv2.iv.getD i.toNat default := by rw [hvi]; exact b6 i.toNat (by omega)
    have hcond : w.eq vi (w.ofInt 1) = hitK w.ofInt kv2.iv i.toNat := by
      rw [hw.eq, hvi']; rfl
    have hany : ∀ b : Bool, (List.range (i + 1).toNat).any (fun i => !hitK w.ofInt kv2.iv i)
        = ((List.range i.toNat).any (fun i => !hitK w.ofInt kv2.iv i) || !hitK w.ofInt kv2.iv i.toNat) := by
      intro _
      rw [et, List.range_succ, List.any_append]
      simp
    by_cases hc : w.eq vi (w.ofInt 1) = true
    · rw [if_pos hc]
      have hh : hitK w.ofInt kv2.iv i.toNat = true := by rw [← hcond]; exact hc
      refine Safe.bind (wr_val f.1 i false i0 (by rw [b1]; omega)) (fun a' ha' => ?_)
      refine Safe.bind (wr_val f.2.1.iv i (w.ofInt (-1)) i0 (by rw [b4]; omega)) (fun iv' hiv' => ?_)
      refine Safe.bind (wr_val f.2.1.ik i i i0 (by rw [b7]; omega)) (fun ik' hik' => ?_)
      refine Safe.pure ⟨by show a'.size = n; rw [ha']; simp [b1], fun q hq => ?_, fun q hq => ?_,
        by show iv'.size = n; rw [hiv']; simp [b4], fun q hq => ?_, fun q hq => ?_,
        by show ik'.size = n; rw [hik']; simp [b7], fun q hq => ?_, b9, b10, ?_⟩
      · show a'.getD q false = _
        rw [ha', getD_setG]
        by_cases hqi : i.toNat = q
        · rw [if_pos ⟨hqi, by rw [b1]; omega⟩, ← hqi, hh]; rfl
        · rw [if_neg (fun h => hqi h.1)]; exact b2 q (by omega)
      · show a'.getD q false = _
        rw [ha', getD_setG, if_neg (fun h => by omega)]; exact b3 q (by omega)
      · show iv'.getD q default = _
        rw [hiv', getD_setG]
        by_cases hqi : i.toNat = q
        · rw [if_pos ⟨hqi, by rw [b4]; omega⟩, ← hqi, hh]; rfl
        · rw [if_neg (fun h => hqi h.1)]; exact b5 q (by omega)
      · show iv'.getD q default = _
        rw [hiv', getD_setG, if_neg (fun h => by omega)]; exact b6 q (by omega)
      · show ik'.getD q 0 = (q : Int)
        rw [hik', getD_setInt]
        by_cases hqi : i.toNat = q
        · rw [if_pos ⟨hqi, by rw [b7]; omega⟩]; omega
        · rw [if_neg (fun h => hqi h.1)]; exact b8 q (by omega)
      · show f.2.2 = _
        rw [hany true, hh, b11]; simp
    · rw [if_neg hc]
      have hh : hitK w.ofInt kv2.iv i.toNat = false := by
        rw [← hcond]; cases hb : w.eq vi (w.ofInt 1) with
        | false => rfl
        | true => exact absurd hb hc
      refine Safe.bind (rd_safe y i i0 (by rw [hy]; omega)) (fun yi hyi => ?_)
      refine Safe.bind (wr_val f.2.1.iv i yi i0 (by rw [b4]; omega)) (fun iv' hiv' => ?_)
      refine Safe.bind (wr_val f.2.1.ik i i i0 (by rw [b7]; omega)) (fun ik' hik' => ?_)
      refine Safe.pure ⟨b1, fun q hq => ?_, fun q hq => b3 q (by omega),
        by show iv'.size = n; rw [hiv']; simp [b4], fun q hq => ?_, fun q hq => ?_,
        by show ik'.size = n; rw [hik']; simp [b7], fun q hq => ?_, b9, b10, ?_⟩
      · by_cases hqi : i.toNat = q
        · rw [← hqi, hh, b3 i.toNat (by omega)]; rfl
        · exact b2 q (by omega)
      · show iv'.getD q default = _
        rw [hiv', getD_setG]
        by_cases hqi : i.toNat = q
        · rw [if_pos ⟨hqi, by rw [b4]; omega⟩, ← hqi, hh, hyi]; rfl
        · rw [if_neg (fun h => hqi h.1)]; exact b5 q (by omega)
      · show iv'.getD q default = _
        rw [hiv', getD_setG, if_neg (fun h => by omega)]; exact b6 q (by omega)
      · show ik'.getD q 0 = (q : Int)
        rw [hik', getD_setInt]
        by_cases hqi : i.toNat = q
        · rw [if_pos ⟨hqi, by rw [b7]; omega⟩]; omega
        · rw [if_neg (fun h => hqi h.1)]; exact b8 q (by omega)
      · show true = _
        rw [hany true, hh]; simp
  · obtain ⟨b1, b2, _, b4, b5, _, b7, b8, b9, b10, b11⟩ := h
    refine ⟨arr_ext false b1 (size_tab _ _) (fun q hq => by rw [getD_tab _ _ _ q hq]; exact b2 q (by omega)),
      arr_ext default b4 (size_tab _ _) (fun q hq => by rw [getD_tab _ _ _ q hq]; exact b5 q (by omega)),
      krel_id b7 (fun q hq => b8 q (by omega)), b9, b10, ?_⟩
    rw [b11]
    have : (n : Int).toNat = n := by omega
    rw [this]

/-- **one outer iteration of the checked model = one iteration of the function model** -/
theorem mkIter_ref (w : WOps W) (hw : WAgree w) {n : Nat} {ap aj : Array Int} (hA : WFm (patS n ap aj) n) (k : Int) (hk : 0 ≤ k)
    (y : Array W) (hy : y.size = n) (st : MK W) (s : G.KState W) (hR : Rel n st s) :
    Safe (mkIter w n ap aj k y st) (fun st' =>
      Rel n st' (G.misKIter (natG n ap aj) k.toNat w.ofInt y s).1 ∧
      st'.work = (G.misKIter (natG n ap aj) k.toNat w.ofInt y s).2) := by
  rw [misKIter_unfold]
  have hn : (natG n ap aj).n = n := rfl
  rw [hn]
  unfold mkIter
  refine Safe.bind (propagateK_ref w hw hA k hk st.kv (G.tab n id) hR.ik (by rw [hR.iv]; exact hR.sv) hR.ok hR.ov)
    (fun kv1 h1 => ?_)
  obtain ⟨c1, c2, c3, c4, c5⟩ := h1
  rw [hR.iv] at c1 c2
  refine Safe.bind (mkUpd_ref w st.act (by rw [hR.act]; exact hR.sa) st.x (by rw [hR.x]; exact hR.sx) kv1 _ c1 c3 c4 c5 s
    hR.x hR.act) (fun r hr => ?_)
  obtain ⟨d1, d2, d3, d4, d5⟩ := hr
  refine Safe.bind (propagateK_ref w hw hA k hk r.2 (G.tab n id) d2 (by rw [d3]; exact size_tab _ _) d4 d5) (fun kv2 h2 => ?_)
  obtain ⟨e1, e2, e3, e4, e5⟩ := h2
  rw [d3] at e1 e2
  refine Safe.bind (mkFin_ref w hw y hy st.act (by rw [hR.act]; exact hR.sa) kv2 e1.1 e3 e4 e5) (fun f hf => ?_)
  obtain ⟨f1, f2, f3, f4, f5, f6⟩ := hf
  rw [e2, hR.act] at f1
  rw [e2] at f2 f6
  exact Safe.pure ⟨⟨d1, f1, f2, f3, f4, f5, size_tab _ _, size_tab _ _, size_tab _ _⟩, f6⟩

/-! ### the outer loop with `max_iters = -1` -/

theorem misKLoop_mono (Gc : G.Graph) (k : Nat) (cast : Int → W) (y : Array W) :
    ∀ (fuel it : Nat) (s : G.KState W) (xf : Array Int), G.misKLoop Gc k cast y none fuel it s = some xf →
      ∀ d, G.misKLoop Gc k cast y none (fuel + d) it s = some xf := by
  intro fuel
  induction fuel with
  | zero => intro it s xf h; simp [G.misKLoop] at h
  | succ f ih =>
    intro it s xf h d
    rw [show f + 1 + d = (f + d) + 1 by omega]
    unfold G.misKLoop at h ⊢
    simp only [Bool.false_eq_true, if_false] at h ⊢
    by_cases hw : (G.misKIter Gc k cast y s).2 = true
    · rw [if_pos hw] at h ⊢
      exact ih _ _ _ h d
    · rw [if_neg hw] at h ⊢
      exact h

theorem mkLoop_ref (w : WOps W) (hw : WAgree w) {n : Nat} {ap aj : Array Int} (hA : WFm (patS n ap aj) n) (k : Int) (hk : 0 ≤ k)
    (y : Array W) (hy : y.size = n) :
    ∀ (fuel : Nat) (iter : Int) (it : Nat) (st : Ck (MK W)) (s : G.KState W), st.ok = true → Rel n st.val s →
      ∀ xf, G.misKLoop (natG n ap aj) k.toNat w.ofInt y none fuel it s = some xf →
        ∃ r, mkLoop w n ap aj k y (-1) fuel iter st = some r ∧ Safe r (fun st' => st'.x = xf) := by
  intro fuel
  induction fuel with
  | zero => intro iter it st s _ _ xf h; simp [G.misKLoop] at h
  | succ f ih =>
    intro iter it st s hok hR xf h
    unfold G.misKLoop at h
    simp only [Bool.false_eq_true, if_false] at h
    have hb := Safe.bind_val hok (mkIter_ref w hw hA k hk y hy st.val s hR)
    unfold mkLoop
    rw [if_pos (Or.inl rfl)]
    simp only
    by_cases hwk : (G.misKIter (natG n ap aj) k.toNat w.ofInt y s).2 = true
    · rw [if_pos hwk] at h
      rw [if_pos (by rw [hb.2.2]; exact hwk)]
      exact ih (iter + 1) (it + 1) _ _ hb.1 hb.2.1 xf h
    · rw [if_neg hwk] at h
      rw [if_neg (by rw [hb.2.2]; exact hwk)]
      refine ⟨_, rfl, hb.1, ?_⟩
      show (st >>= mkIter w n ap aj k y).val.x = xf
      rw [hb.2.1.x]
      exact Option.some.inj h

/-- the initialisation `i_keys[i] = i; i_vals[i] = y[i]; x[i] = 0` and the fresh vectors -/
theorem mkInit_ref (w : WOps W) (n : Nat) (x : Array Int) (hx : x.size = n) (y : Array W) (hy : y.size = n) :
    Safe (forRange 0 (n : Int) (x, (Array.replicate n (0 : Int)), (Array.replicate n (w.ofInt 0)))
      (fun i (s : Array Int × Array Int × Array W) => do
        let ik ← Ck.wr s.2.1 i i
        let yi ← Ck.rd y i
        let iv ← Ck.wr s.2.2 i yi
        let x ← Ck.wr s.1 i 0
        pure (x, ik, iv)))
      (fun r => r.1 = G.tab n (fun _ => (0 : Int)) ∧ KRel n r.2.1 (G.tab n id) ∧ r.2.2 = G.tab n (fun i => y.getD i default)) := by
  refine Safe.mono (forRange_safe_idx
    (fun (i : Int) (r : Array Int × Array Int × Array W) =>
      r.1.size = n ∧ r.2.1.size = n ∧ r.2.2.size = n ∧
      ∀ q : Nat, (q : Int) < i → r.1.getD q 0 = 0 ∧ r.2.1.getD q 0 = (q : Int) ∧ r.2.2.getD q default = y.getD q default)
    0 (n : Int) (by omega) _ _ ⟨hx, by simp, by simp, fun q hq => by omega⟩ ?_) (fun r h => ?_)
  · intro i i0 i1 r hr
    obtain ⟨a1, a2, a3, a4⟩ := hr
    refine Safe.bind (wr_val r.2.1 i i i0 (by rw [a2]; omega)) (fun ik' hik => ?_)
    refine Safe.bind (rd_safe y i i0 (by rw [hy]; omega)) (fun yi hyi => ?_)
    refine Safe.bind (wr_val r.2.2 i yi i0 (by rw [a3]; omega)) (fun iv' hiv => ?_)
    refine Safe.bind (wr_val r.1 i 0 i0 (by rw [a1]; omega)) (fun x' hx' => ?_)
    refine Safe.pure ⟨by show x'.size = n; rw [hx']; simp [a1], by show ik'.size = n; rw [hik]; simp [a2],
      by show iv'.size = n; rw [hiv]; simp [a3], fun q hq => ?_⟩
    show x'.getD q 0 = 0 ∧ ik'.getD q 0 = (q : Int) ∧ iv'.getD q default = y.getD q default
    rw [hx', hik, hiv, getD_setInt, getD_setInt, getD_setG]
    by_cases hqi : i.toNat = q
    · rw [if_pos ⟨hqi, by rw [a1]; omega⟩, if_pos ⟨hqi, by rw [a2]; omega⟩, if_pos ⟨hqi, by rw [a3]; omega⟩, hyi, hqi]
      exact ⟨rfl, by omega, rfl⟩
    · rw [if_neg (fun h => hqi h.1), if_neg (fun h => hqi h.1), if_neg (fun h => hqi h.1)]
      exact a4 q (by omega)
  · obtain ⟨a1, a2, a3, a4⟩ := h
    exact ⟨arr_ext 0 a1 (size_tab _ _) (fun q hq => by rw [getD_tab _ _ _ q hq]; exact (a4 q (by omega)).1),
      krel_id a2 (fun q hq => (a4 q (by omega)).2.1),
      arr_ext default a3 (size_tab _ _) (fun q hq => by rw [getD_tab _ _ _ q hq]; exact (a4 q (by omega)).2.2)⟩

/-- **`maximal_independent_set_k_parallel` with `max_iters = -1` TERMINATES inside the checked model, in range, with a distance-`k`
maximal independent set**: symmetric structurally valid pattern, any `k ≥ 0`, weights in a strict total order decided by the model's
comparisons, all above the marker `-1` (`(R)(-1) < y[i]`; with a weight `≤ -1` the kernel need not terminate: finding of C18), any
start vector `x`: for EVERY fuel `≥ n + 1` the model returns, every access was in range, and the result is the MIS-`k` the function
model returns -/
theorem misKParallel_total (hW : PyamgV.WOrd W) (w : WOps W) (hw : WAgree w) {n : Nat} {ap aj : Array Int}
    (hA : WFm (patS n ap aj) n) (hG : GraphOK (pg (natG n ap aj))) (k : Int) (hk : 0 ≤ k)
    (x : Array Int) (hx : x.size = n) (y : Array W) (hy : y.size = n)
    (hzo : w.ofInt 0 < w.ofInt 1) (hyw : ∀ i, i < n → w.ofInt (-1) < y.getD i default) (fuel : Nat) (hfuel : n + 1 ≤ fuel) :
    ∃ r, misKParallel w n ap aj k x y (-1) fuel = some r ∧
      Safe r (fun x' => IsMISk (pg (natG n ap aj)) k.toNat x' ∧
        G.misK (natG n ap aj) k.toNat w.ofInt y none fuel = some x') := by
  obtain ⟨xf, hxf, hmis⟩ := misK_total hW (natG n ap aj) hG k.toNat w.ofInt y hzo hyw
  have hn : (natG n ap aj).n = n := rfl
  rw [hn] at hxf
  have hxf' : G.misK (natG n ap aj) k.toNat w.ofInt y none fuel = some xf := by
    unfold G.misK at hxf ⊢
    have := misKLoop_mono (natG n ap aj) k.toNat w.ofInt y (n + 1) 0 _ xf hxf (fuel - (n + 1))
    rw [show n + 1 + (fuel - (n + 1)) = fuel by omega] at this
    exact this
  have hloop := hxf'
  unfold G.misK at hloop
  rw [hn] at hloop
  have hinit : Safe (do
      let r ← forRange 0 (n : Int) (x, (Array.replicate n (0 : Int)), (Array.replicate n (w.ofInt 0)))
        (fun i (s : Array Int × Array Int × Array W) => do
          let ik ← Ck.wr s.2.1 i i
          let yi ← Ck.rd y i
          let iv ← Ck.wr s.2.2 i yi
          let x ← Ck.wr s.1 i 0
          pure (x, ik, iv))
      pure (⟨r.1, Array.replicate n true, ⟨r.2.1, Array.replicate n 0, r.2.2, Array.replicate n (w.ofInt 0)⟩, true⟩ : MK W))
      (fun st => Rel n st ⟨G.tab n (fun _ => 0), G.tab n (fun _ => true), G.tab n (fun i => y.getD i default)⟩) := by
    refine Safe.bind (mkInit_ref w n x hx y hy) (fun r hr => ?_)
    refine Safe.pure ⟨hr.1, ?_, hr.2.2, hr.2.1, by simp, by simp, size_tab _ _, size_tab _ _, size_tab _ _⟩
    exact arr_ext false (by simp) (size_tab _ _) (fun q hq => by rw [getD_tab _ _ _ q hq]; simp [hq])
  obtain ⟨r0, e0, hr0⟩ := mkLoop_ref w hw hA k hk y hy fuel 0 0 _ _ hinit.1 hinit.2 xf hloop
  refine ⟨r0 >>= fun st => pure st.x, ?_, ?_⟩
  · unfold misKParallel
    simp only
    rw [e0]
    rfl
  · refine Safe.bind hr0 (fun st hst => Safe.pure ?_)
    rw [hst]
    exact ⟨hmis, hxf'⟩

end PyamgV.C17R5
