import PyamgV.Proofs.ExtC20Kron
import Mathlib.Tactic.Positivity

/-! PyamgV (C20, extension E21): **strict positive definiteness of the FD Poisson matrix** produced by the
`stencil_grid` model, for every dimension `N ≥ 1` and every grid shape.

1-D: `yᵀ tridiag(-1,2,-1) y = y_0² + Σ_{c+1<g} (y_c - y_{c+1})² + y_{g-1}²` (edges + the two Dirichlet
boundary terms), which vanishes only for `y = 0`.  N-D: by the Kronecker-sum structure (`poissonFD_kron`)
`xᵀ A x = Σ_lines (1-D form along the first axis) + Σ_slices xᵀ A_rest x`, all terms non-negative, and the
first group already forces `x = 0`.  Hence `A x = 0 ⇒ x = 0` (nonsingular). -/
namespace PyamgV.C20
open PyamgV.Stencil Finset

/-! ## one dimension -/

theorem tri_self (c : Nat) : tri c c = 2 := by simp [tri]
theorem tri_up (c : Nat) : tri c (c + 1) = -1 := by simp [tri]
theorem tri_down (c : Nat) : tri (c + 1) c = -1 := by simp [tri]
theorem tri_far (c c' : Nat) (h : c + 1 < c') : tri c c' = 0 ∧ tri c' c = 0 := by
  unfold tri
  refine ⟨?_, ?_⟩
  · rw [if_neg (by omega), if_neg (by omega)]
  · rw [if_neg (by omega), if_neg (by omega)]

theorem qf_tri_one (y : Nat → Rat) : qf 1 tri y = 2 * y 0 ^ 2 := by
  simp [qf, mv, tri_self]; ring

theorem qf_tri_succ (g : Nat) (y : Nat → Rat) :
    qf (g + 2) tri y = qf (g + 1) tri y + 2 * y (g + 1) ^ 2 - 2 * y g * y (g + 1) := by
  have hmv : ∀ p, mv (g + 2) tri y p = mv (g + 1) tri y p + tri p (g + 1) * y (g + 1) :=
    fun p => Finset.sum_range_succ _ _
  have h1 : mv (g + 1) tri y (g + 1) = -y g := by
    unfold mv
    rw [Finset.sum_range_succ, Finset.sum_eq_zero, tri_down]
    · ring
    · intro q hq
      rw [(tri_far q (g + 1) (by have := Finset.mem_range.1 hq; omega)).2]; ring
  have h2 : (∑ p ∈ range (g + 1), y p * (tri p (g + 1) * y (g + 1))) = -y g * y (g + 1) := by
    rw [Finset.sum_range_succ, Finset.sum_eq_zero, tri_up]
    · ring
    · intro q hq
      rw [(tri_far q (g + 1) (by have := Finset.mem_range.1 hq; omega)).1]; ring
  unfold qf
  rw [Finset.sum_range_succ (n := g + 1)]
  simp only [hmv, mul_add, Finset.sum_add_distrib]
  rw [h1, h2, tri_self]
  ring

/-- `y_0² + Σ_{c<g} (y_c - y_{c+1})²` -/
def edgeSq (g : Nat) (y : Nat → Rat) : Rat := y 0 ^ 2 + ∑ c ∈ range g, (y c - y (c + 1)) ^ 2

/-- **1-D energy identity**: `yᵀ tridiag(-1,2,-1) y` on `g + 1` points is the sum over the `g` edges of
the squared differences plus the two Dirichlet boundary terms `y_0²` and `y_g²` -/
theorem qf_tri_sos (g : Nat) (y : Nat → Rat) : qf (g + 1) tri y = edgeSq g y + y g ^ 2 := by
  induction g with
  | zero => rw [qf_tri_one]; simp [edgeSq]; ring
  | succ g ih =>
    rw [qf_tri_succ, ih]
    unfold edgeSq
    rw [Finset.sum_range_succ]
    ring

theorem edgeSq_nonneg (g : Nat) (y : Nat → Rat) : 0 ≤ edgeSq g y := by
  unfold edgeSq
  exact add_nonneg (sq_nonneg _) (Finset.sum_nonneg fun c _ => sq_nonneg _)

theorem edgeSq_zero (g : Nat) (y : Nat → Rat) (h : edgeSq g y = 0) : ∀ c ≤ g, y c = 0 := by
  unfold edgeSq at h
  have hs : 0 ≤ ∑ c ∈ range g, (y c - y (c + 1)) ^ 2 := Finset.sum_nonneg fun c _ => sq_nonneg _
  have h0 : y 0 ^ 2 = 0 := by nlinarith [sq_nonneg (y 0)]
  have hsum : ∑ c ∈ range g, (y c - y (c + 1)) ^ 2 = 0 := by nlinarith [sq_nonneg (y 0)]
  have hall := (Finset.sum_eq_zero_iff_of_nonneg (fun c _ => sq_nonneg (y c - y (c + 1)))).1 hsum
  intro c
  induction c with
  | zero => intro _; exact pow_eq_zero_iff (by decide) |>.1 h0
  | succ c ih =>
    intro hc
    have h1 := ih (by omega)
    have h2 := hall c (Finset.mem_range.2 (by omega))
    have h3 : y c - y (c + 1) = 0 := pow_eq_zero_iff (by decide) |>.1 h2
    linarith

theorem qf_tri_nonneg (g : Nat) (y : Nat → Rat) : 0 ≤ qf g tri y := by
  cases g with
  | zero => simp [qf]
  | succ g => rw [qf_tri_sos]; exact add_nonneg (edgeSq_nonneg g y) (sq_nonneg _)

/-- **the 1-D operator is positive definite** -/
theorem qf_tri_zero (g : Nat) (y : Nat → Rat) (h : qf g tri y = 0) : ∀ c < g, y c = 0 := by
  cases g with
  | zero => intro c hc; omega
  | succ g =>
    rw [qf_tri_sos] at h
    have := edgeSq_nonneg g y
    have h0 : edgeSq g y = 0 := by nlinarith [sq_nonneg (y g)]
    intro c hc
    exact edgeSq_zero g y h0 c (by omega)

/-! ## every dimension -/

/-- entry function of the FD Poisson matrix of the model -/
def fdEntry (grid : List Nat) : Nat → Nat → Rat := entry (stencilGrid grid (poissonFD grid.length))

theorem fdEntry_kron (g : Nat) (gs : List Nat) :
    KronSum g (prod gs) (fdEntry (g :: gs)) tri (fdEntry gs) := poissonFD_kron g gs

/-- **N-D energy identity** (recursive form): the quadratic form on `g :: gs` is the sum of the 1-D forms
along the first axis (one per point of the remaining grid) and of the forms of the remaining grid (one
per index of the first axis) -/
theorem fd_qf_cons (g : Nat) (gs : List Nat) (x : Nat → Rat) :
    qf (prod (g :: gs)) (fdEntry (g :: gs)) x =
      (∑ r ∈ range (prod gs), qf g tri (fun c => x (c * prod gs + r))) +
        ∑ c ∈ range g, qf (prod gs) (fdEntry gs) (fun r => x (c * prod gs + r)) := by
  rw [prod_cons]
  exact qf_kron g (prod gs) _ _ _ (fdEntry_kron g gs) x

theorem fd_qf_nonneg : ∀ (grid : List Nat) (x : Nat → Rat), 0 ≤ qf (prod grid) (fdEntry grid) x := by
  intro grid
  induction grid with
  | nil =>
    intro x
    have h0 : fdEntry [] 0 0 = 0 := by
      have := poisson_diag [] false 0 (by simp [prod])
      simpa [centre, poissonStencil, fdEntry] using this
    simp [qf, mv, prod, h0]
  | cons g gs ih =>
    intro x
    rw [fd_qf_cons]
    exact add_nonneg (Finset.sum_nonneg fun r _ => qf_tri_nonneg g _) (Finset.sum_nonneg fun c _ => ih _)

theorem fd_qf_zero (grid : List Nat) (hne : grid ≠ []) (x : Nat → Rat)
    (h : qf (prod grid) (fdEntry grid) x = 0) : ∀ p < prod grid, x p = 0 := by
  cases grid with
  | nil => exact absurd rfl hne
  | cons g gs =>
    rw [fd_qf_cons] at h
    have h1 : 0 ≤ ∑ r ∈ range (prod gs), qf g tri (fun c => x (c * prod gs + r)) :=
      Finset.sum_nonneg fun r _ => qf_tri_nonneg g _
    have h2 : 0 ≤ ∑ c ∈ range g, qf (prod gs) (fdEntry gs) (fun r => x (c * prod gs + r)) :=
      Finset.sum_nonneg fun c _ => fd_qf_nonneg gs _
    have h3 : ∑ r ∈ range (prod gs), qf g tri (fun c => x (c * prod gs + r)) = 0 := by linarith
    have hall := (Finset.sum_eq_zero_iff_of_nonneg (fun r _ => qf_tri_nonneg g _)).1 h3
    intro p hp
    rw [prod_cons] at hp
    have hpos : 0 < prod gs := by
      rcases Nat.eq_zero_or_pos (prod gs) with h0 | h0
      · rw [h0] at hp; omega
      · exact h0
    have hc : p / prod gs < g := (Nat.div_lt_iff_lt_mul hpos).2 hp
    have hr : p % prod gs < prod gs := Nat.mod_lt _ hpos
    have := qf_tri_zero g _ (hall (p % prod gs) (Finset.mem_range.2 hr)) (p / prod gs) hc
    rwa [Nat.div_add_mod'] at this

/-! ## the statements for the model's triple list -/

theorem poissonFD_inrange (grid : List Nat) :
    ∀ t ∈ stencilGrid grid (poissonFD grid.length), t.1 < prod grid ∧ t.2.1 < prod grid := by
  intro t ht
  have := poisson_entries grid false t.1 t.2.1 t.2.2 ht
  exact ⟨this.1, this.2.1⟩

theorem poissonFD_qform_eq (grid : List Nat) (x : Nat → Rat) :
    qform (stencilGrid grid (poissonFD grid.length)) x = qf (prod grid) (fdEntry grid) x :=
  qform_eq_qf (prod grid) _ (poissonFD_inrange grid) x

/-- **the FD Poisson matrix is positive definite**, in every dimension `≥ 1` and on every grid shape:
`xᵀ A x ≥ 0`, with equality only if `x` vanishes on the whole grid -/
theorem poissonFD_posdef (grid : List Nat) (hne : grid ≠ []) (x : Nat → Rat) :
    0 ≤ qform (stencilGrid grid (poissonFD grid.length)) x ∧
      (qform (stencilGrid grid (poissonFD grid.length)) x = 0 → ∀ p < prod grid, x p = 0) := by
  rw [poissonFD_qform_eq]
  exact ⟨fd_qf_nonneg grid x, fd_qf_zero grid hne x⟩

/-- `xᵀ A x > 0` for every `x` that is nonzero somewhere on the grid -/
theorem poissonFD_qform_pos (grid : List Nat) (hne : grid ≠ []) (x : Nat → Rat)
    (hx : ∃ p, p < prod grid ∧ x p ≠ 0) : 0 < qform (stencilGrid grid (poissonFD grid.length)) x := by
  obtain ⟨h1, h2⟩ := poissonFD_posdef grid hne x
  rcases lt_or_eq_of_le h1 with h | h
  · exact h
  · obtain ⟨p, hp, hxp⟩ := hx
    exact absurd (h2 h.symm p hp) hxp

/-- **the FD Poisson matrix is nonsingular**: `A x = 0` on the grid forces `x = 0` on the grid -/
theorem poissonFD_nonsingular (grid : List Nat) (hne : grid ≠ []) (x : Nat → Rat)
    (h : ∀ p < prod grid, rowdot (stencilGrid grid (poissonFD grid.length)) x p = 0) :
    ∀ p < prod grid, x p = 0 := by
  apply (poissonFD_posdef grid hne x).2
  rw [qform_eq_sum_rowdot (prod grid) _ (fun t ht => (poissonFD_inrange grid t ht).1)]
  apply Finset.sum_eq_zero
  intro p hp
  rw [h p (Finset.mem_range.1 hp)]; ring

/-- the same for what the executable front end `poisson grid 'FD'` returns -/
theorem poisson_fd_posdef (grid : List Nat) (T : List Triple) (h : poisson grid false = some T) (x : Nat → Rat) :
    0 ≤ qform T x ∧ (qform T x = 0 → ∀ p < prod grid, x p = 0) ∧
      ((∀ p < prod grid, rowdot T x p = 0) → ∀ p < prod grid, x p = 0) := by
  unfold poisson at h
  split at h
  · exact absurd h (by simp)
  · rename_i hg
    have hne : grid ≠ [] := by
      intro h0; apply hg; left; rw [h0]; decide
    have hT : T = stencilGrid grid (poissonFD grid.length) := by
      simpa [poissonStencil] using (Option.some.inj h).symm
    rw [hT]
    exact ⟨(poissonFD_posdef grid hne x).1, (poissonFD_posdef grid hne x).2, poissonFD_nonsingular grid hne x⟩

end PyamgV.C20
