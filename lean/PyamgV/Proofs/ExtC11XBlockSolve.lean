import PyamgV.Proofs.ExtC11XBlockAsm
import Mathlib.Algebra.Order.Ring.Rat
import Mathlib.Algebra.Field.Rat
import Mathlib.Algebra.BigOperators.Group.List.Basic

/-! PyamgV (C11, extension E49): an exact solution of the assembled local systems gives a block row
that passes `bairCheck` — the block row of `block_approx_ideal_restriction_pass2` satisfies
`(R A)[c, f] = 0` on the neighbourhood whenever its `blocksize` dense solves are exact and the drop test
`|x| > 1e-15` drops nothing but zeros.  (`bairRow` verifies its row before returning it; this file shows
that the verification can only fail when a local solve failed or the drop test bit.) -/
namespace PyamgV.C11XB
open PyamgV.N PyamgV.C11M

/-- `x` solves the system the kernel hands to its dense solver (`a0` column-major) -/
def Solves (a0 : Array Rat) (nd : Nat) (rhs x : List Rat) : Prop :=
  ∀ i < nd, ((List.range nd).map (fun j => rdQ a0 (j * nd + i) * x.getD j 0)).sum = rhs.getD i 0

theorem sum_range_mul (g : Nat → Rat) (N bs : Nat) :
    ((List.range (N * bs)).map g).sum =
      ((List.range N).map (fun jb => ((List.range bs).map (fun t => g (jb * bs + t))).sum)).sum := by
  induction N with
  | zero => simp
  | succ N ih =>
    rw [Nat.add_mul, Nat.one_mul, List.range_add, List.map_append, List.sum_append, ih, List.range_succ,
      List.map_append, List.sum_append, List.map_map]
    simp [Function.comp_def]

theorem zip_range_map {β : Type} (nf : List Nat) (g : Nat → β) :
    nf.zip ((List.range nf.length).map g) = (List.range nf.length).map (fun i => (nf.getD i 0, g i)) := by
  apply List.ext_getElem
  · simp
  · intro i h1 h2
    have hi : i < nf.length := by simpa using h2
    simp [List.getElem?_eq_getElem hi]

theorem sum_ite (bs r : Nat) (hr : r < bs) (e : Nat → Rat) :
    ((List.range bs).map (fun t => (if r = t then (1 : Rat) else 0) * e t)).sum = e r := by
  induction bs with
  | zero => omega
  | succ n ih =>
    rw [List.range_succ, List.map_append, List.sum_append]
    by_cases hrn : r < n
    · rw [ih hrn]
      have : r ≠ n := by omega
      simp [this]
    · have hre : r = n := by omega
      subst hre
      have hz : ((List.range r).map (fun t => (if r = t then (1 : Rat) else 0) * e t)).sum = 0 := by
        apply List.sum_eq_zero
        intro x hx
        obtain ⟨t, ht, rfl⟩ := List.mem_map.1 hx
        have : r ≠ t := by have := List.mem_range.1 ht; omega
        simp [this]
      rw [hz]; simp

theorem map_sum_congr {l : List Nat} {f g : Nat → Rat} (h : ∀ x ∈ l, f x = g x) :
    (l.map f).sum = (l.map g).sum := by
  rw [List.map_congr_left h]

theorem rhsOf_getD (b0 : Array Rat) (nd r i : Nat) (hi : i < nd) : (rhsOf b0 nd r).getD i 0 = rdQ b0 (nd * r + i) := by
  unfold rhsOf
  rw [List.getD_eq_getElem _ _ (by simpa using hi)]
  simp

/-- an exact solution of the `r`-th local system annihilates row `r` of every block `(R A)[c, N_ib]` -/
theorem raBlk_of_solves (eps : Rat) (A : BMat) (c : Nat) (nf : List Nat) (xs : List (List Rat))
    (ib r cc : Nat) (hib : ib < nf.length) (hr : r < A.bs) (hcc : cc < A.bs)
    (hsol : Solves (assembleA0 A nf) (nf.length * A.bs) (rhsOf (assembleB0 A c nf) (nf.length * A.bs) r) (xs.getD r []))
    (hthr : ∀ j < nf.length * A.bs, thresh eps ((xs.getD r []).getD j 0) = (xs.getD r []).getD j 0) :
    raBlk A (bairAssemble eps A.bs c nf xs) (nf.getD ib 0) r cc = 0 := by
  have hi : ib * A.bs + cc < nf.length * A.bs := lt_mul_of hib hcc
  have h1 := hsol (ib * A.bs + cc) hi
  rw [rhsOf_getD _ _ _ _ hi, ← Nat.add_assoc, assembleB0_spec A c nf r ib cc hr hib hcc, sum_range_mul] at h1
  unfold raBlk bairAssemble
  rw [List.map_append, List.sum_append, zip_range_map, List.map_map]
  simp only [List.map_cons, List.map_nil, List.sum_cons, List.sum_nil, add_zero, Function.comp_def]
  have hI : ((List.range A.bs).map (fun t => (ident A.bs).getD (r * A.bs + t) 0 * A.entry c (nf.getD ib 0) t cc)).sum
      = A.entry c (nf.getD ib 0) r cc := by
    rw [map_sum_congr (g := fun t => (if r = t then (1 : Rat) else 0) * A.entry c (nf.getD ib 0) t cc)]
    · exact sum_ite A.bs r hr _
    · intro t ht
      rw [ident_getD A.bs r t hr (List.mem_range.1 ht)]
  rw [hI]
  have hN : ((List.range nf.length).map (fun jb => ((List.range A.bs).map (fun t =>
        (blockOf eps A.bs xs jb).getD (r * A.bs + t) 0 * A.entry (nf.getD jb 0) (nf.getD ib 0) t cc)).sum)).sum
      = -(A.entry c (nf.getD ib 0) r cc) := by
    rw [← h1]
    apply map_sum_congr
    intro jb hjb
    apply map_sum_congr
    intro t ht
    have hjb' := List.mem_range.1 hjb
    have ht' := List.mem_range.1 ht
    rw [blockOf_getD eps A.bs xs jb r t hr ht', hthr _ (lt_mul_of hjb' ht'),
      show (jb * A.bs + t) * (nf.length * A.bs) + (ib * A.bs + cc)
        = (jb * A.bs + t) * (nf.length * A.bs) + ib * A.bs + cc by omega,
      assembleA0_spec A nf jb ib t cc hjb' hib ht' hcc]
    ring
  rw [hN]; ring

/-- the check passes on a row assembled from exact solutions -/
theorem bairCheck_of_solves (eps : Rat) (A : BMat) (c : Nat) (nf : List Nat) (xs : List (List Rat))
    (hsol : ∀ r < A.bs, Solves (assembleA0 A nf) (nf.length * A.bs)
      (rhsOf (assembleB0 A c nf) (nf.length * A.bs) r) (xs.getD r []))
    (hthr : ∀ r < A.bs, ∀ j < nf.length * A.bs,
      thresh eps ((xs.getD r []).getD j 0) = (xs.getD r []).getD j 0) :
    bairCheck A nf (bairAssemble eps A.bs c nf xs) = true := by
  unfold bairCheck
  simp only [List.all_eq_true, beq_iff_eq, List.mem_range]
  intro f hf r hr cc hcc
  obtain ⟨ib, hib, rfl⟩ := List.getElem_of_mem hf
  rw [← List.getD_eq_getElem nf 0 hib]
  exact raBlk_of_solves eps A c nf xs ib r cc hib hr hcc (hsol r hr) (hthr r hr)

/-- **`bairRow` returns a row as soon as the local solves are exact** (and the drop test drops only zeros):
the model rejects nothing but singular local systems / dropped entries -/
theorem bairRow_of_solves (eps : Rat) (A : BMat) (S : Csr) (split : Array Int) (distance c : Nat)
    (xs : List (List Rat)) (hs : bairSolve A c (nbrF S split distance c) = some xs)
    (hsol : ∀ r < A.bs, Solves (assembleA0 A (nbrF S split distance c)) ((nbrF S split distance c).length * A.bs)
      (rhsOf (assembleB0 A c (nbrF S split distance c)) ((nbrF S split distance c).length * A.bs) r) (xs.getD r []))
    (hthr : ∀ r < A.bs, ∀ j < (nbrF S split distance c).length * A.bs,
      thresh eps ((xs.getD r []).getD j 0) = (xs.getD r []).getD j 0) :
    bairRow eps A S split distance c = some (bairAssemble eps A.bs c (nbrF S split distance c) xs) := by
  unfold bairRow
  simp only
  rw [hs]
  simp only
  rw [if_pos (bairCheck_of_solves eps A c _ xs hsol hthr)]

end PyamgV.C11XB
