import PyamgV.Proofs.ExtC17R4Cljp
import PyamgV.Proofs.ExtC17R4Term

/-! PyamgV (C17, extension E32, round 4): termination of `while(unassigned > 0)` in the `Ck` model of `cljp_naive_splitting`
(`Model/ExtC17R4Cljp.lean`), for `S`, `T` any two structurally valid patterns and weight comparisons `>` that are irreflexive and
transitive (`CjOrd`; IEEE doubles, exact arithmetic).  Invariant: `unassigned` never exceeds the number of `U_NODE` entries of
`splitting`; as long as it is positive a `U` node of maximal weight exists, it passes both scans of the selection (`nD ≥ 1`), so
`unassigned` drops in every pass and `n` passes suffice.  Core Lean only. -/
namespace PyamgV.C17R4
open PyamgV.Ck PyamgV.C17

set_option linter.unusedSectionVars false
set_option linter.unusedVariables false

variable {α : Type} [Inhabited α]

/-- `false` exactly for `U_NODE` -/
def notU (v : Int) : Bool := v != 2

/-- number of `U_NODE` entries -/
def cntU (n : Nat) (spl : Array Int) : Nat := nzc notU spl n

theorem notU_false {v : Int} : notU v = false ↔ v = 2 := by
  unfold notU
  constructor
  · intro h; simpa using h
  · intro h; simp [h]

/-- what termination needs of `weight[j] > weight[i]` -/
structure CjOrd (o : CjOps α) : Prop where
  gt_irrefl : ∀ a, o.gt a a = false
  gt_trans : ∀ a b c, o.gt a b = true → o.gt b c = true → o.gt a c = true

theorem cntU_set_ge (n : Nat) (spl : Array Int) (i : Nat) (v : Int) : cntU n spl ≤ cntU n (spl.setIfInBounds i v) + 1 :=
  nzc_set_ge notU spl i v n

/-! ### the scans and the selection -/

/-- a scan from a node that no `U` node beats does not break -/
theorem cjScan_noBreak (o : CjOps α) {n : Nat} {gp gj : Array Int} (hG : WFm (patS n gp gj) n) (spl : Array Int) (hspl : spl.size = n)
    (wt : Array α) (hwt : wt.size = n) (i : Int) (i0 : 0 ≤ i) (i1 : i < (n : Int)) (D : Array Int) (hD : D.size = n)
    (hmax : ∀ k, k < n → spl.getD k 0 = 2 → o.gt (wt.getD k default) (wt.getD i.toNat default) = false) :
    Safe (cjScan o gj spl wt i (gp.getD i.toNat 0) (gp.getD (i.toNat + 1) 0) D) (fun r => r.1 = D ∧ r.2 = false) := by
  obtain ⟨_, _, hrow⟩ := row_facts hG i i0 i1
  unfold cjScan
  apply forRange_safe (fun r : Array Int × Bool => r.1 = D ∧ r.2 = false) _ _ _ _ ⟨rfl, rfl⟩
  intro jj j1 j2 st hst
  rw [if_neg (by rw [hst.2]; exact Bool.false_ne_true)]
  refine Safe.bind (hrow jj j1 j2) (fun j hj => ?_)
  obtain ⟨_, hj0, hj1⟩ := hj
  refine Safe.bind (rd_safe spl j hj0 (by rw [hspl]; omega)) (fun sv hsv => ?_)
  have hsv' : sv = spl.getD j.toNat 0 := hsv
  by_cases hu : sv = 2
  · rw [if_pos hu]
    refine Safe.bind (rd_safe wt j hj0 (by rw [hwt]; omega)) (fun wj hwj => ?_)
    refine Safe.bind (rd_safe wt i i0 (by rw [hwt]; omega)) (fun wi hwi => ?_)
    have hg : ¬ (o.gt wj wi = true) := by
      have := hmax j.toNat (by omega) (by rw [← hsv']; exact hu)
      have e1 : wj = wt.getD j.toNat default := hwj
      have e2 : wi = wt.getD i.toNat default := hwi
      rw [e1, e2, this]; exact Bool.false_ne_true
    rw [if_neg hg]; exact Safe.pure hst
  · rw [if_neg hu]; exact Safe.pure hst

/-- SELECT INDEPENDENT SET with the bookkeeping: `unassigned` drops by `nD`, and `nD ≥ 1` when a `U` node exists -/
theorem cjSelect_progress (o : CjOps α) (ho : CjOrd o) {n : Nat} {sp sj tp tj : Array Int} (hS : WFm (patS n sp sj) n)
    (hT : WFm (patS n tp tj) n) (spl : Array Int) (hspl : spl.size = n) (wt : Array α) (hwt : wt.size = n) (D Dl : Array Int)
    (hD : D.size = n) (hDl : Dl.size = n) (un : Int) (hex : ∃ k, k < n ∧ spl.getD k 0 = 2) :
    Safe (cjSelect o n sp sj tp tj spl wt (D, Dl, un, 0))
      (fun r => r.1.size = n ∧ r.2.1.size = n ∧ 0 ≤ r.2.2.2 ∧ r.2.2.2 ≤ (n : Int) ∧ DlOK n r.2.1 r.2.2.2 ∧
        r.2.2.1 = un - r.2.2.2 ∧ 1 ≤ r.2.2.2) := by
  -- a `U` node of maximal weight
  obtain ⟨is, his, hPs, hmaxs⟩ := exists_maximal
    (fun j i => o.gt (wt.getD j default) (wt.getD i default) = true)
    (fun i h => by rw [ho.gt_irrefl] at h; cases h) (fun i j k h1 h2 => ho.gt_trans _ _ _ h1 h2)
    (fun k => spl.getD k 0 = 2) n hex
  have hmax : ∀ k, k < n → spl.getD k 0 = 2 → o.gt (wt.getD k default) (wt.getD is default) = false := by
    intro k hk hu
    cases hg : o.gt (wt.getD k default) (wt.getD is default) with
    | false => rfl
    | true => exact absurd hg (hmaxs k hk hu)
  unfold cjSelect
  refine Safe.mono (forRange_safe_idx
    (fun (i : Int) (r : Array Int × Array Int × Int × Int) =>
      r.1.size = n ∧ r.2.1.size = n ∧ 0 ≤ r.2.2.2 ∧ r.2.2.2 ≤ i ∧ DlOK n r.2.1 r.2.2.2 ∧ r.2.2.1 = un - r.2.2.2 ∧
      (r.2.2.2 = 0 → i ≤ (is : Int)))
    0 (n : Int) (by omega) _ _
    ⟨hD, hDl, Int.le_refl 0, Int.le_refl 0, fun k hk => by have : (k : Int) < 0 := hk; omega, by simp, fun _ => by omega⟩ ?_)
    (fun r h => ⟨h.1, h.2.1, h.2.2.1, h.2.2.2.1, h.2.2.2.2.1, h.2.2.2.2.2.1, by
      by_cases hh : 1 ≤ r.2.2.2
      · exact hh
      · exfalso
        have hz : r.2.2.2 = 0 := by have := h.2.2.1; omega
        have := h.2.2.2.2.2.2 hz
        omega⟩)
  intro i i0 i1 st hst
  obtain ⟨h1, h2, h3, h4, h5, h6, h7⟩ := hst
  refine Safe.bind (rd_safe spl i i0 (by rw [hspl]; omega)) (fun si hsi => ?_)
  have hsi' : si = spl.getD i.toNat 0 := hsi
  by_cases hu : si = 2
  · rw [if_pos hu]
    refine Safe.bind (wr_val st.1 i 1 i0 (by rw [h1]; omega)) (fun D1 hD1 => ?_)
    have hD1s : D1.size = n := by rw [hD1]; simp [h1]
    have hD1v : D1.getD i.toNat 0 = 1 := by rw [hD1, getD_setInt, if_pos ⟨rfl, by rw [h1]; omega⟩]
    obtain ⟨q1, q2, _⟩ := row_facts hS i i0 i1
    refine Safe.bind q1 (fun s hs => ?_)
    refine Safe.bind q2 (fun e he => ?_)
    subst hs; subst he
    by_cases hiis : i = (is : Int)
    · -- the row of the maximal node: both scans run to the end
      have hmi : ∀ k, k < n → spl.getD k 0 = 2 → o.gt (wt.getD k default) (wt.getD i.toNat default) = false := by
        rw [hiis]; simpa using hmax
      refine Safe.bind (cjScan_noBreak o hS spl hspl wt hwt i i0 i1 D1 hD1s hmi) (fun r hr => ?_)
      have hr1 : r.1 = D1 := hr.1
      refine Safe.bind (rd_safe r.1 i i0 (by rw [hr1, hD1s]; omega)) (fun di hdi => ?_)
      have hdi' : di = 1 := by
        have e : di = r.1.getD i.toNat 0 := hdi
        rw [e, hr1]; exact hD1v
      rw [if_pos hdi']
      obtain ⟨p1, p2, _⟩ := row_facts hT i i0 i1
      refine Safe.bind (P := fun D2 : Array Int => D2 = D1) ?_ (fun D2 hD2 => ?_)
      · refine Safe.bind p1 (fun s2 hs2 => ?_)
        refine Safe.bind p2 (fun e2 he2 => ?_)
        subst hs2; subst he2
        exact Safe.bind (cjScan_noBreak o hT spl hspl wt hwt i i0 i1 r.1 (by rw [hr1]; exact hD1s) hmi)
          (fun r2 hr2 => Safe.pure (by show r2.1 = D1; rw [hr2.1, hr1]))
      refine Safe.bind (rd_safe D2 i i0 (by rw [hD2, hD1s]; omega)) (fun di2 hdi2 => ?_)
      have hdi2' : di2 = 1 := by
        have e : di2 = D2.getD i.toNat 0 := hdi2
        rw [e, hD2]; exact hD1v
      rw [if_pos hdi2']
      have hpos : st.2.2.2.toNat < st.2.1.size := by rw [h2]; omega
      refine Safe.bind (wr_val st.2.1 st.2.2.2 i h3 hpos) (fun Dl' hDl' => ?_)
      refine Safe.pure ⟨by rw [hD2]; exact hD1s, by show Dl'.size = n; rw [hDl']; simp [h2], by show 0 ≤ st.2.2.2 + 1; omega,
        by show st.2.2.2 + 1 ≤ i + 1; omega, fun k hk => ?_, by show st.2.2.1 - 1 = un - (st.2.2.2 + 1); rw [h6]; omega,
        fun hz => by (have : st.2.2.2 + 1 = 0 := hz); omega⟩
      show 0 ≤ Dl'.getD k 0 ∧ Dl'.getD k 0 < (n : Int)
      rw [hDl', getD_setInt]
      by_cases hkk : st.2.2.2.toNat = k
      · rw [if_pos ⟨hkk, hpos⟩]; exact ⟨i0, i1⟩
      · rw [if_neg (fun h => hkk h.1)]
        have hk' : (k : Int) < st.2.2.2 + 1 := hk
        exact h5 k (by omega)
    · -- any other `U` row: in range, `nD` does not decrease
      have hnext : st.2.2.2 = 0 → i + 1 ≤ (is : Int) := fun hz => by have := h7 hz; omega
      refine Safe.bind (cjScan_safe o hS spl hspl wt hwt i i0 i1 D1 hD1s) (fun r hr => ?_)
      refine Safe.bind (rd_safe r.1 i i0 (by rw [hr]; omega)) (fun di _ => ?_)
      refine Safe.bind (P := fun D2 : Array Int => D2.size = n) ?_ (fun D2 hD2 => ?_)
      · by_cases hd : di = 1
        · rw [if_pos hd]
          obtain ⟨p1, p2, _⟩ := row_facts hT i i0 i1
          refine Safe.bind p1 (fun s2 hs2 => ?_)
          refine Safe.bind p2 (fun e2 he2 => ?_)
          subst hs2; subst he2
          exact Safe.bind (cjScan_safe o hT spl hspl wt hwt i i0 i1 r.1 hr) (fun r2 hr2 => Safe.pure hr2)
        · rw [if_neg hd]; exact Safe.pure hr
      refine Safe.bind (rd_safe D2 i i0 (by rw [hD2]; omega)) (fun di2 _ => ?_)
      by_cases hd : di2 = 1
      · rw [if_pos hd]
        have hpos : st.2.2.2.toNat < st.2.1.size := by rw [h2]; omega
        refine Safe.bind (wr_val st.2.1 st.2.2.2 i h3 hpos) (fun Dl' hDl' => ?_)
        refine Safe.pure ⟨hD2, by show Dl'.size = n; rw [hDl']; simp [h2], by show 0 ≤ st.2.2.2 + 1; omega,
          by show st.2.2.2 + 1 ≤ i + 1; omega, fun k hk => ?_, by show st.2.2.1 - 1 = un - (st.2.2.2 + 1); rw [h6]; omega,
          fun hz => by (have : st.2.2.2 + 1 = 0 := hz); omega⟩
        show 0 ≤ Dl'.getD k 0 ∧ Dl'.getD k 0 < (n : Int)
        rw [hDl', getD_setInt]
        by_cases hkk : st.2.2.2.toNat = k
        · rw [if_pos ⟨hkk, hpos⟩]; exact ⟨i0, i1⟩
        · rw [if_neg (fun h => hkk h.1)]
          have hk' : (k : Int) < st.2.2.2 + 1 := hk
          exact h5 k (by omega)
      · rw [if_neg hd]
        exact Safe.pure ⟨hD2, h2, h3, by show st.2.2.2 ≤ i + 1; omega, h5, h6, hnext⟩
  · rw [if_neg hu]
    have hne : i ≠ (is : Int) := by
      intro h
      apply hu
      rw [hsi', h]; simpa using hPs
    refine Safe.bind (wr_safe st.1 i 0 i0 (by rw [h1]; omega)) (fun D1 hD1 => ?_)
    exact Safe.pure ⟨by show D1.size = n; rw [hD1, h1], h2, h3, by show st.2.2.2 ≤ i + 1; omega, h5, h6,
      fun hz => by have := h7 hz; omega⟩

/-! ### the weight updates never let `unassigned` exceed the number of `U` nodes -/

theorem cjDrop_cnt (o : CjOps α) {n : Nat} (j : Int) (j0 : 0 ≤ j) (j1 : j < (n : Int)) (st : Array Int × Array α × Int)
    (h1 : st.1.size = n) (h2 : st.2.1.size = n) (hU : st.2.2 ≤ (cntU n st.1 : Int)) :
    Safe (cjDrop o j st) (fun r => r.1.size = n ∧ r.2.1.size = n ∧ r.2.2 ≤ (cntU n r.1 : Int) ∧ r.2.2 ≤ st.2.2) := by
  unfold cjDrop
  refine Safe.bind (rd_safe st.2.1 j j0 (by rw [h2]; omega)) (fun wj _ => ?_)
  refine Safe.bind (wr_safe st.2.1 j _ j0 (by rw [h2]; omega)) (fun wt hwt => ?_)
  have hws : wt.size = n := by rw [hwt, h2]
  refine Safe.bind (rd_safe wt j j0 (by rw [hws]; omega)) (fun wj2 _ => ?_)
  by_cases hl : o.ltOne wj2 = true
  · rw [if_pos hl]
    refine Safe.bind (wr_val st.1 j 0 j0 (by rw [h1]; omega)) (fun spl hspl => ?_)
    refine Safe.pure ⟨by show spl.size = n; rw [hspl]; simp [h1], hws, ?_, by show st.2.2 - 1 ≤ st.2.2; omega⟩
    show st.2.2 - 1 ≤ (cntU n spl : Int)
    have := cntU_set_ge n st.1 j.toNat 0
    rw [hspl]; omega
  · rw [if_neg hl]; exact Safe.pure ⟨h1, hws, hU, Int.le_refl _⟩

theorem cjP5_cnt (o : CjOps α) {n : Nat} {sp sj : Array Int} (hS : WFm (patS n sp sj) n) (Dl : Array Int) (hDl : Dl.size = n)
    (nD : Int) (hnD : nD ≤ (n : Int)) (hok : DlOK n Dl nD) (st : Array Int × Array α × Array Int × Int) (h1 : st.1.size = n)
    (h2 : st.2.1.size = n) (h3 : st.2.2.1.size = (sp.getD n 0).toNat) (hU : st.2.2.2 ≤ (cntU n st.1 : Int)) :
    Safe (cjP5 o sp sj Dl nD st) (fun r => r.1.size = n ∧ r.2.1.size = n ∧ r.2.2.1.size = (sp.getD n 0).toNat ∧
      r.2.2.2 ≤ (cntU n r.1 : Int) ∧ r.2.2.2 ≤ st.2.2.2) := by
  unfold cjP5
  apply forRange_safe (fun r : Array Int × Array α × Array Int × Int =>
    r.1.size = n ∧ r.2.1.size = n ∧ r.2.2.1.size = (sp.getD n 0).toNat ∧ r.2.2.2 ≤ (cntU n r.1 : Int) ∧ r.2.2.2 ≤ st.2.2.2)
    _ _ _ _ ⟨h1, h2, h3, hU, Int.le_refl _⟩
  intro iD d0 d1 s hs
  refine Safe.bind (rd_safe Dl iD d0 (by rw [hDl]; omega)) (fun c hc => ?_)
  have hc' : c = Dl.getD iD.toNat 0 := hc
  have hcr := hok iD.toNat (by omega)
  rw [← hc'] at hcr
  obtain ⟨q1, q2, hrow⟩ := row_facts hS c hcr.1 hcr.2
  refine Safe.bind q1 (fun a ha => ?_)
  refine Safe.bind q2 (fun b hb => ?_)
  subst ha; subst hb
  apply forRange_safe (fun r : Array Int × Array α × Array Int × Int =>
    r.1.size = n ∧ r.2.1.size = n ∧ r.2.2.1.size = (sp.getD n 0).toNat ∧ r.2.2.2 ≤ (cntU n r.1 : Int) ∧ r.2.2.2 ≤ st.2.2.2) _ _ _ _ hs
  intro jj j1 j2 t ht
  obtain ⟨t1, t2, t3, t4, t5⟩ := ht
  have hpos := pos_lt_nnz hS c hcr.1 hcr.2 jj j1 j2
  refine Safe.bind (hrow jj j1 j2) (fun j hj => ?_)
  refine Safe.bind (rd_safe t.1 j hj.2.1 (by rw [t1]; omega)) (fun sv _ => ?_)
  by_cases hu : sv = 2
  · rw [if_pos hu]
    refine Safe.bind (rd_safe t.2.2.1 jj hpos.1 (by rw [t3]; exact hpos.2)) (fun m _ => ?_)
    by_cases hm : m ≠ 0
    · rw [if_pos hm]
      refine Safe.bind (wr_safe t.2.2.1 jj 0 hpos.1 (by rw [t3]; exact hpos.2)) (fun em hem => ?_)
      refine Safe.bind (cjDrop_cnt o j hj.2.1 hj.2.2 (t.1, t.2.1, t.2.2.2) t1 t2 t4) (fun r hr => ?_)
      have hle : r.2.2 ≤ t.2.2.2 := hr.2.2.2
      exact Safe.pure ⟨hr.1, hr.2.1, by show em.size = _; rw [hem, t3], hr.2.2.1, by show r.2.2 ≤ st.2.2.2; omega⟩
    · rw [if_neg hm]; exact Safe.pure ⟨t1, t2, t3, t4, t5⟩
  · rw [if_neg hu]; exact Safe.pure ⟨t1, t2, t3, t4, t5⟩

theorem cjP6_cnt (o : CjOps α) {n : Nat} {sp sj tp tj : Array Int} (hS : WFm (patS n sp sj) n) (hT : WFm (patS n tp tj) n)
    (Dl : Array Int) (hDl : Dl.size = n) (nD : Int) (hnD : nD ≤ (n : Int)) (hok : DlOK n Dl nD)
    (st : Array Int × Array α × Array Int × Array Int × Int) (h1 : st.1.size = n) (h2 : st.2.1.size = n)
    (h3 : st.2.2.1.size = (sp.getD n 0).toNat) (h4 : st.2.2.2.1.size = n) (hU : st.2.2.2.2 ≤ (cntU n st.1 : Int)) :
    Safe (cjP6 o sp sj tp tj Dl nD st)
      (fun r => r.1.size = n ∧ r.2.1.size = n ∧ r.2.2.1.size = (sp.getD n 0).toNat ∧ r.2.2.2.1.size = n ∧
        r.2.2.2.2 ≤ (cntU n r.1 : Int) ∧ r.2.2.2.2 ≤ st.2.2.2.2) := by
  unfold cjP6
  apply forRange_safe (fun r : Array Int × Array α × Array Int × Array Int × Int =>
    r.1.size = n ∧ r.2.1.size = n ∧ r.2.2.1.size = (sp.getD n 0).toNat ∧ r.2.2.2.1.size = n ∧
      r.2.2.2.2 ≤ (cntU n r.1 : Int) ∧ r.2.2.2.2 ≤ st.2.2.2.2) _ _ _ _ ⟨h1, h2, h3, h4, hU, Int.le_refl _⟩
  intro iD d0 d1 s hs
  obtain ⟨s1, s2, s3, s4, s5, s6⟩ := hs
  refine Safe.bind (rd_safe Dl iD d0 (by rw [hDl]; omega)) (fun c hc => ?_)
  have hc' : c = Dl.getD iD.toNat 0 := hc
  have hcr := hok iD.toNat (by omega)
  rw [← hc'] at hcr
  obtain ⟨q1, q2, hrow⟩ := row_facts hT c hcr.1 hcr.2
  refine Safe.bind q1 (fun a ha => ?_)
  refine Safe.bind q2 (fun b hb => ?_)
  subst ha; subst hb
  refine Safe.bind (P := fun cache : Array Int => cache.size = n) ?_ (fun cache hcache => ?_)
  · apply forRange_safe (fun cache : Array Int => cache.size = n) _ _ _ _ s4
    intro jj j1 j2 cache hca
    refine Safe.bind (hrow jj j1 j2) (fun j hj => ?_)
    refine Safe.bind (rd_safe s.1 j hj.2.1 (by rw [s1]; omega)) (fun sv _ => ?_)
    by_cases hu : sv = 2
    · rw [if_pos hu]
      exact Safe.mono (wr_safe cache j c hj.2.1 (by rw [hca]; omega)) (fun c' h => by rw [h, hca])
    · rw [if_neg hu]; exact Safe.pure hca
  · refine forRange_safe (fun r : Array Int × Array α × Array Int × Array Int × Int =>
      r.1.size = n ∧ r.2.1.size = n ∧ r.2.2.1.size = (sp.getD n 0).toNat ∧ r.2.2.2.1.size = n ∧
        r.2.2.2.2 ≤ (cntU n r.1 : Int) ∧ r.2.2.2.2 ≤ st.2.2.2.2) _ _
      (s.1, s.2.1, s.2.2.1, cache, s.2.2.2.2) _ ⟨s1, s2, s3, hcache, s5, s6⟩ ?_
    intro jj j1 j2 t ht
    refine Safe.bind (hrow jj j1 j2) (fun j hj => ?_)
    obtain ⟨p1, p2, hrow2⟩ := row_facts hS j hj.2.1 hj.2.2
    refine Safe.bind p1 (fun a2 ha2 => ?_)
    refine Safe.bind p2 (fun b2 hb2 => ?_)
    subst ha2; subst hb2
    apply forRange_safe (fun r : Array Int × Array α × Array Int × Array Int × Int =>
      r.1.size = n ∧ r.2.1.size = n ∧ r.2.2.1.size = (sp.getD n 0).toNat ∧ r.2.2.2.1.size = n ∧
        r.2.2.2.2 ≤ (cntU n r.1 : Int) ∧ r.2.2.2.2 ≤ st.2.2.2.2) _ _ _ _ ht
    intro kk k1 k2 u hu
    obtain ⟨u1, u2, u3, u4, u5, u6⟩ := hu
    have hpos := pos_lt_nnz hS j hj.2.1 hj.2.2 kk k1 k2
    refine Safe.bind (hrow2 kk k1 k2) (fun k hk => ?_)
    have hkn : k.toNat < n := by omega
    have hkk3 : kk.toNat < u.2.2.1.size := by rw [u3]; exact hpos.2
    have hkc : k.toNat < u.2.2.2.1.size := by rw [u4]; exact hkn
    refine Safe.bind (rd_safe u.1 k hk.2.1 (by rw [u1]; exact hkn)) (fun sv _ => ?_)
    by_cases hU' : sv = 2
    · rw [if_pos hU']
      refine Safe.bind (rd_safe u.2.2.1 kk hpos.1 hkk3) (fun m _ => ?_)
      by_cases hm : m ≠ 0
      · rw [if_pos hm]
        refine Safe.bind (rd_safe u.2.2.2.1 k hk.2.1 hkc) (fun ck _ => ?_)
        by_cases hck : ck = c
        · rw [if_pos hck]
          refine Safe.bind (wr_safe u.2.2.1 kk 0 hpos.1 hkk3) (fun em hem => ?_)
          refine Safe.bind (cjDrop_cnt o k hk.2.1 hk.2.2 (u.1, u.2.1, u.2.2.2.2) u1 u2 u5) (fun r hr => ?_)
          have hle : r.2.2 ≤ u.2.2.2.2 := hr.2.2.2
          exact Safe.pure ⟨hr.1, hr.2.1, by show em.size = _; rw [hem, u3], u4, hr.2.2.1, by show r.2.2 ≤ st.2.2.2.2; omega⟩
        · rw [if_neg hck]; exact Safe.pure ⟨u1, u2, u3, u4, u5, u6⟩
      · rw [if_neg hm]; exact Safe.pure ⟨u1, u2, u3, u4, u5, u6⟩
    · rw [if_neg hU']; exact Safe.pure ⟨u1, u2, u3, u4, u5, u6⟩

/-! ### one pass, the loop -/

/-- the loop invariant: the array lengths, and `unassigned` does not exceed the number of `U` nodes -/
def CJT (n nnz : Nat) (st : CJ α) : Prop := CJInv n nnz st ∧ st.un ≤ (cntU n st.spl : Int)

/-- **one pass lowers `unassigned`** (when it is positive) -/
theorem cjPass_progress (o : CjOps α) (ho : CjOrd o) {n : Nat} {sp sj tp tj : Array Int} (hS : WFm (patS n sp sj) n)
    (hT : WFm (patS n tp tj) n) (st : CJ α) (hst : CJT n (sp.getD n 0).toNat st) (hpos : st.un > 0) :
    Safe (cjPass o n sp sj tp tj st) (fun st' => CJT n (sp.getD n 0).toNat st' ∧ st'.un + 1 ≤ st.un) := by
  obtain ⟨hI, hU⟩ := hst
  have hex : ∃ k, k < n ∧ st.spl.getD k 0 = 2 := by
    have hp : 0 < cntU n st.spl := by omega
    obtain ⟨k, hk, hz⟩ := nzc_pos notU st.spl n hp
    exact ⟨k, hk, notU_false.mp hz⟩
  unfold cjPass
  refine Safe.bind (cjSelect_progress o ho hS hT st.spl hI.spl st.wt hI.wt st.D st.Dl hI.D hI.Dl st.un hex) (fun sel hsel => ?_)
  obtain ⟨e1, e2, e3, e4, e5, e6, e7⟩ := hsel
  refine Safe.bind (P := fun spl : Array Int => spl.size = n ∧ sel.2.2.1 ≤ (cntU n spl : Int)) ?_ (fun spl hspl => ?_)
  · refine Safe.mono (forRange_safe_idx
      (fun (i : Int) (spl : Array Int) => spl.size = n ∧ (cntU n st.spl : Int) ≤ (cntU n spl : Int) + i)
      0 sel.2.2.2 e3 _ _ ⟨hI.spl, by omega⟩ ?_) (fun spl h => ⟨h.1, by rw [e6]; have := h.2; omega⟩)
    intro i i0 i1 spl hs
    refine Safe.bind (rd_safe sel.2.1 i i0 (by rw [e2]; omega)) (fun c hc => ?_)
    have hc' : c = sel.2.1.getD i.toNat 0 := hc
    have hcr := e5 i.toNat (by omega)
    rw [← hc'] at hcr
    refine Safe.mono (wr_val spl c 1 hcr.1 (by rw [hs.1]; omega)) (fun s' h => ?_)
    have := cntU_set_ge n spl c.toNat 1
    refine ⟨by rw [h]; simp [hs.1], ?_⟩
    rw [h]; have := hs.2; omega
  refine Safe.bind (cjP5_cnt o hS sel.2.1 e2 sel.2.2.2 e4 e5 (spl, st.wt, st.em, sel.2.2.1) hspl.1 hI.wt hI.em hspl.2) (fun p5 h5 => ?_)
  refine Safe.bind (cjP6_cnt o hS hT sel.2.1 e2 sel.2.2.2 e4 e5 (p5.1, p5.2.1, p5.2.2.1, st.cache, p5.2.2.2) h5.1 h5.2.1 h5.2.2.1
    hI.cache h5.2.2.2.1) (fun p6 h6 => ?_)
  refine Safe.pure ⟨⟨⟨h6.1, h6.2.1, h6.2.2.1, e1, e2, h6.2.2.2.1⟩, h6.2.2.2.2.1⟩, ?_⟩
  show p6.2.2.2.2 + 1 ≤ st.un
  have a1 := h6.2.2.2.2.2
  have a2 := h5.2.2.2.2
  have a1' : p6.2.2.2.2 ≤ p5.2.2.2 := a1
  have a2' : p5.2.2.2 ≤ sel.2.2.1 := a2
  omega

/-- `while(unassigned > 0)` terminates within `unassigned` passes -/
theorem cjWhile_total (o : CjOps α) (ho : CjOrd o) {n : Nat} {sp sj tp tj : Array Int} (hS : WFm (patS n sp sj) n)
    (hT : WFm (patS n tp tj) n) :
    ∀ (fuel : Nat) (st : Ck (CJ α)), Safe st (CJT n (sp.getD n 0).toNat) → st.val.un.toNat ≤ fuel →
      ∃ r, cjWhile o n sp sj tp tj fuel st = some r ∧ Safe r (CJT n (sp.getD n 0).toNat) := by
  intro fuel
  induction fuel with
  | zero =>
    intro st hst hf
    have : ¬ st.val.un > 0 := by omega
    exact ⟨st, by unfold cjWhile; rw [if_neg this], hst⟩
  | succ f ih =>
    intro st hst hf
    unfold cjWhile
    by_cases hpos : st.val.un > 0
    · rw [if_pos hpos]
      have hb := Safe.bind_val hst.1 (cjPass_progress o ho hS hT st.val hst.2 hpos)
      refine ih _ (Safe.mono hb (fun _ h => h.1)) ?_
      have := hb.2.2
      omega
    · rw [if_neg hpos]; exact ⟨st, rfl, hst⟩

/-- **`cljp_naive_splitting` terminates**: with an irreflexive and transitive `>` on the weights the selection loop ends within `n`
passes, for `S`, `T` any two structurally valid patterns, and the whole run is in range -/
theorem cljp_total (o : CjOps α) (ho : CjOrd o) (z : α) {n : Nat} {sp sj tp tj : Array Int} (hS : WFm (patS n sp sj) n)
    (hT : WFm (patS n tp tj) n) (spl : Array Int) (hspl : spl.size = n) (colorflag : Int) (rnd : Array α) :
    ∃ r, cljp o z n sp sj tp tj spl colorflag rnd n = some r ∧ Safe r (fun spl' => spl'.size = n) := by
  have hsz : sp.size = n + 1 := hS.ap_size
  by_cases hn0 : n = 0
  · have e : cljp o z n sp sj tp tj spl colorflag rnd n = some (pure spl) := by unfold cljp; rw [if_pos hn0]
    exact ⟨_, e, Safe.pure hspl⟩
  have hcf : colorflag = 1 → 0 < n := fun _ => by omega
  have hex : ∃ r, cljp o z n sp sj tp tj spl colorflag rnd n = some r := by
    unfold cljp
    rw [if_neg hn0]
    simp only
    have hinit : Safe (do
        let nnz ← rd sp (n : Int)
        let spl ← fillN n 2 spl
        let wt ← (if colorflag = 1 then cjColorWeights o n sp sj (Array.replicate n z)
          else cjRandWeights n rnd (Array.replicate n z))
        let wt ← cjCount o n sp sj wt
        pure (⟨spl, wt, Array.replicate nnz.toNat 1, Array.replicate n 0, Array.replicate n 0, Array.replicate n (-1), (n : Int)⟩ : CJ α))
        (fun st => CJT n (sp.getD n 0).toNat st ∧ st.un = (n : Int)) := by
      refine Safe.bind (rd_safe sp (n : Int) (by omega) (by rw [hsz]; omega)) (fun nnz hnnz => ?_)
      have hnnz' : nnz = sp.getD n 0 := by
        have : (n : Int).toNat = n := by omega
        rw [this] at hnnz; exact hnnz
      refine Safe.bind (fillN_safe n 2 spl hspl) (fun spl0 hspl0 => ?_)
      refine Safe.bind (P := fun wt : Array α => wt.size = n) ?_ (fun wt hwt => ?_)
      · by_cases hc : colorflag = 1
        · rw [if_pos hc]; exact cjColorWeights_safe o (hcf hc) hS _ (by simp)
        · rw [if_neg hc]; exact cjRandWeights_safe n rnd _ (by simp)
      refine Safe.bind (cjCount_safe o hS wt hwt) (fun wt2 hwt2 => ?_)
      have hall : cntU n spl0 = n := by
        apply nzc_all
        intro k hk
        show notU (spl0.getD k 0) = false
        rw [hspl0.2 k hk]; rfl
      exact Safe.pure ⟨⟨⟨hspl0.1, hwt2, by simp [hnnz'], by simp, by simp, by simp⟩, by show (n : Int) ≤ (cntU n spl0 : Int); rw [hall]; omega⟩, rfl⟩
    generalize hg : (do
        let nnz ← rd sp (n : Int)
        let spl ← fillN n 2 spl
        let wt ← (if colorflag = 1 then cjColorWeights o n sp sj (Array.replicate n z)
          else cjRandWeights n rnd (Array.replicate n z))
        let wt ← cjCount o n sp sj wt
        pure (⟨spl, wt, Array.replicate nnz.toNat 1, Array.replicate n 0, Array.replicate n 0, Array.replicate n (-1), (n : Int)⟩ : CJ α)) = init at hinit
    obtain ⟨r0, e0, _⟩ := cjWhile_total o ho hS hT n init (Safe.mono hinit (fun _ h => h.1)) (by rw [hinit.2.2]; omega)
    rw [e0]; exact ⟨_, rfl⟩
  obtain ⟨r, e⟩ := hex
  exact ⟨r, e, cljp_safe o z hS hT spl hspl colorflag rnd n r e⟩

end PyamgV.C17R4
