import PyamgV.Proofs.ExtC03YGen
import Mathlib.LinearAlgebra.Pi

/-! PyamgV (extension E55, C03): the recorded `gauss_seidel_nr` call (CSC arrays; the kernel loop on the pair `(x, r)`, `r = b − A x`
computed once per call by the Python driver) of the scalar-polymorphic extended cycle model is a linear iteration of the level
matrix, over any field and for any conjugation `conj` (the kernel multiplies the residual by `conj` of the stored column). -/
set_option linter.unusedSectionVars false
namespace PyamgV.C03Y
open PyamgV PyamgV.K Finset
open PyamgV.C03 (Cyc iterN)

variable {𝕜 : Type} [Field 𝕜] [DecidableEq 𝕜] (conj : 𝕜 → 𝕜)

/-- the operator of CSC arrays (`M.jjs j` = stored entries of column `j`), rows and columns `< M.n` -/
def cscLin (M : Csr 𝕜) : Fn 𝕜 →ₗ[𝕜] Fn 𝕜 where
  toFun u := fun q => if q < M.n then ExtC09.cscDot M q u else 0
  map_add' u v := by
    funext q; by_cases h : q < M.n <;> simp [h, ExtC09.cscDot, mul_add, Finset.sum_add_distrib]
  map_smul' c u := by
    funext q; by_cases h : q < M.n
    · simp only [h, if_true, ExtC09.cscDot, Pi.smul_apply, smul_eq_mul, RingHom.id_apply, Finset.mul_sum]
      apply Finset.sum_congr rfl; intro i _; ring
    · simp [h]

theorem cscLin_apply (M : Csr 𝕜) (u : Fn 𝕜) (q : Nat) :
    cscLin M u q = if q < M.n then ExtC09.cscDot M q u else 0 := rfl

theorem cscDense_getD (M : Csr 𝕜) (i : Nat) (hi : i < M.n) :
    (cscDense M).getD i [] = (List.range M.n).map (fun j => ExtC09.cscEntry M j i) := by
  unfold cscDense
  rw [List.getD_eq_getElem?_getD, List.getElem?_map, List.getElem?_range hi]
  simp only [Option.map_some, Option.getD_some]
  apply List.map_congr_left
  intro q _
  rw [foldl_ite_add, zero_add]
  rfl

theorem cscDense_length (M : Csr 𝕜) : (cscDense M).length = M.n := by simp [cscDense]

theorem cscDense_rows (M : Csr 𝕜) : ∀ r ∈ cscDense M, r.length ≤ M.n := by
  intro r hr
  unfold cscDense at hr
  rw [List.mem_map] at hr
  obtain ⟨i, _, rfl⟩ := hr
  simp

/-- **the dense form of CSC arrays denotes the CSC operator** -/
theorem msem_cscDense (M : Csr 𝕜) : msem (cscDense M) = cscLin M := by
  apply LinearMap.ext
  intro u
  funext i
  rw [msem_apply, cscLin_apply]
  by_cases hi : i < M.n
  · rw [if_pos hi, cscDense_getD M i hi, dotF_map_range]; rfl
  · rw [if_neg hi, getD_nil_of_le _ i (by rw [cscDense_length]; omega)]; rfl

/-- `u ↦ Σ_jj conj(a_jj) u_{idx jj}` over stored line `i` -/
def lineDot (M : Csr 𝕜) (i : Nat) : Fn 𝕜 →ₗ[𝕜] 𝕜 where
  toFun u := ((M.jjs i).map (fun jj => conj (rd M.ax jj) * u (rdN M.aj jj))).sum
  map_add' u v := by
    simp only [Pi.add_apply, mul_add]
    exact List.sum_map_add
  map_smul' c u := by
    simp only [Pi.smul_apply, smul_eq_mul, RingHom.id_apply]
    rw [← ExtC09.list_sum_mul_left]
    congr 1
    apply List.map_congr_left
    intro jj _; ring

def unitV (i : Nat) : Fn 𝕜 := fun p => if i = p then 1 else 0

/-- operator of the step of column `i`: `ω D_i e_i (A e_i)ᵀ` -/
def nrOp (M : Csr 𝕜) (D : Fn 𝕜) (ω : 𝕜) (i : Nat) : Fn 𝕜 →ₗ[𝕜] Fn 𝕜 :=
  (D i * ω) • (lineDot conj M i).smulRight (unitV i)

def nrF (M : Csr 𝕜) (D : Fn 𝕜) (ω : 𝕜) (i : Nat) : Fn 𝕜 → Fn 𝕜 → Fn 𝕜 :=
  fun x b => x + nrOp conj M D ω i (b - cscLin M x)

/-- the loop invariant of the kernel: `r = b − A x` -/
def NRInv (M : Csr 𝕜) (b : Array 𝕜) (xr : Array 𝕜 × Array 𝕜) : Prop :=
  xr.1.size = M.n ∧ xr.2.size = M.n ∧ ∀ q < xr.2.size, rd xr.2 q = rd b q - ExtC09.cscDot M q (ExtC09.vec xr.1)

theorem NRInv.vec_r {M : Csr 𝕜} {b : Array 𝕜} {xr : Array 𝕜 × Array 𝕜} (h : NRInv M b xr) (hb : b.size = M.n) :
    ExtC09.vec xr.2 = ExtC09.vec b - cscLin M (ExtC09.vec xr.1) := by
  funext q
  simp only [Pi.sub_apply, cscLin_apply]
  by_cases hq : q < M.n
  · rw [if_pos hq]; exact h.2.2 q (by rw [h.2.1]; exact hq)
  · rw [if_neg hq]
    unfold ExtC09.vec
    rw [ExtC09.rd_of_le _ _ (by rw [h.2.1]; omega), ExtC09.rd_of_le _ _ (by omega)]; ring

theorem nr_step (M : Csr 𝕜) (Dinv b : Array 𝕜) (ω : 𝕜) (hb : b.size = M.n) (i : Nat) (hi : i < M.n)
    (xr : Array 𝕜 × Array 𝕜) (h : NRInv M b xr) :
    NRInv M b (ExtC09.nrStep conj ω M Dinv xr i) ∧
      ExtC09.vec (ExtC09.nrStep conj ω M Dinv xr i).1 = nrF conj M (ExtC09.vec Dinv) ω i (ExtC09.vec xr.1) (ExtC09.vec b) := by
  obtain ⟨x, r⟩ := xr
  obtain ⟨hx, hr, hres⟩ := h
  simp only at hx hr hres
  have hsz := ExtC09.nrStep_sizes conj ω M Dinv (x, r) i
  refine ⟨⟨by rw [hsz.1]; exact hx, by rw [hsz.2]; exact hr, ?_⟩, ?_⟩
  · intro q hq
    rw [hsz.2] at hq
    exact ExtC09.nrStep_residual conj ω M b Dinv x r i hi (by rw [hx]; exact hi) hres q hq
  · have hvr := NRInv.vec_r (M := M) (b := b) (xr := (x, r)) ⟨hx, hr, hres⟩ hb
    simp only at hvr
    funext p
    unfold nrF nrOp
    simp only [Pi.add_apply, LinearMap.smul_apply, LinearMap.smulRight_apply, Pi.smul_apply, smul_eq_mul]
    rw [← hvr]
    have hd : ExtC09.nrDelta conj ω M Dinv r i = lineDot conj M i (ExtC09.vec r) * (rd Dinv i * ω) := by
      unfold ExtC09.nrDelta
      rw [ExtC09.foldl_add, zero_add]
      rfl
    show rd (wr x i (rd x i + ExtC09.nrDelta conj ω M Dinv r i)) p = _
    rw [ExtC09.rd_wr, hd]
    unfold ExtC09.vec unitV lineDot
    simp only [LinearMap.coe_mk, AddHom.coe_mk]
    by_cases hip : i = p
    · subst hip
      rw [if_pos ⟨rfl, by rw [hx]; exact hi⟩, if_pos rfl]
      ring
    · have : ¬ (i = p ∧ i < x.size) := fun hc => hip hc.1
      rw [if_neg this, if_neg hip]; ring

theorem nr_fold (M : Csr 𝕜) (Dinv b : Array 𝕜) (ω : 𝕜) (hb : b.size = M.n) :
    ∀ (cols : List Nat), (∀ i ∈ cols, i < M.n) → ∀ (xr : Array 𝕜 × Array 𝕜), NRInv M b xr →
      NRInv M b (cols.foldl (ExtC09.nrStep conj ω M Dinv) xr) ∧
      ExtC09.vec (cols.foldl (ExtC09.nrStep conj ω M Dinv) xr).1 =
        cols.foldl (fun x i => nrF conj M (ExtC09.vec Dinv) ω i x (ExtC09.vec b)) (ExtC09.vec xr.1) := by
  intro cols
  induction cols with
  | nil => intro _ xr h; exact ⟨h, rfl⟩
  | cons i cols ih =>
    intro hc xr h
    obtain ⟨h1, e1⟩ := nr_step conj M Dinv b ω hb i (hc i (by simp)) xr h
    obtain ⟨h2, e2⟩ := ih (fun j hj => hc j (by simp [hj])) _ h1
    simp only [List.foldl_cons]
    exact ⟨h2, by rw [e2, e1]⟩

def nrPassF (M : Csr 𝕜) (D : Fn 𝕜) (ω : 𝕜) (bw : Bool) : Fn 𝕜 → Fn 𝕜 → Fn 𝕜 :=
  fun x b => (dirRows M.n bw).foldl (fun x i => nrF conj M D ω i x b) x

def nrPassQ (M : Csr 𝕜) (D : Fn 𝕜) (ω : 𝕜) (bw : Bool) : Fn 𝕜 →ₗ[𝕜] Fn 𝕜 :=
  sweepM (cscLin M) ((dirRows M.n bw).map (nrOp conj M D ω))

theorem nr_pass_isLinIter (M : Csr 𝕜) (D : Fn 𝕜) (ω : 𝕜) (bw : Bool) :
    IsLinIter (cscLin M) (nrPassF conj M D ω bw) (nrPassQ conj M D ω bw) :=
  isLinIter_foldl _ _ _ _ (fun _ _ _ _ => rfl)

theorem nr_iter (M : Csr 𝕜) (Dinv b : Array 𝕜) (ω : 𝕜) (hb : b.size = M.n) (bw : Bool) :
    ∀ (k : Nat) (xr : Array 𝕜 × Array 𝕜), NRInv M b xr →
      NRInv M b (K.iter (fun (xr : Array 𝕜 × Array 𝕜) => gaussSeidelNR conj ω M Dinv (dirRows M.n bw) xr.1 xr.2) k xr) ∧
      ExtC09.vec (K.iter (fun (xr : Array 𝕜 × Array 𝕜) => gaussSeidelNR conj ω M Dinv (dirRows M.n bw) xr.1 xr.2) k xr).1 =
        iter (nrPassF conj M (ExtC09.vec Dinv) ω bw) (ExtC09.vec b) k (ExtC09.vec xr.1) := by
  intro k
  induction k with
  | zero => intro xr h; exact ⟨h, rfl⟩
  | succ k ih =>
    intro xr h
    have hstep := nr_fold conj M Dinv b ω hb (dirRows M.n bw) (fun i hi => (mem_dirRows _ _ _).1 hi) xr h
    obtain ⟨h2, e2⟩ := ih _ hstep.1
    simp only [K.iter, PyamgV.iter]
    rw [ExtC09.gaussSeidelNR_eq]
    exact ⟨h2, by rw [e2, hstep.2]; rfl⟩

theorem nr_call_refines (M : Csr 𝕜) (Dinv : Array 𝕜) (ω : 𝕜) (bw : Bool) (k : Nat) :
    Refines M.n (fun x b => gsnrCall conj ω M b Dinv bw k x) (fun x b => iter (nrPassF conj M (ExtC09.vec Dinv) ω bw) b k x) := by
  intro x b hx hb
  have h0 : NRInv M b (x, K.vsub b (cscmv M x)) := by
    refine ⟨hx, by rw [ExtC09.size_vsub]; exact hb, ?_⟩
    intro q hq
    simp only [ExtC09.size_vsub] at hq
    simp only
    unfold K.vsub K.vmap2
    rw [ExtC09.rd_toArray_map_range, if_pos hq, ExtC09.rd_cscmv M x q (by omega)]
  obtain ⟨h1, e1⟩ := nr_iter conj M Dinv b ω hb bw k _ h0
  show (gsnrCall conj ω M b Dinv bw k x).size = M.n ∧ ExtC09.vec (gsnrCall conj ω M b Dinv bw k x) = _
  unfold K.gsnrCall
  rw [hx]
  exact ⟨h1.1, e1⟩

/-- operator of the recorded `gauss_seidel_nr` call -/
noncomputable def gsnrQ (ω : 𝕜) (M : Csr 𝕜) (it : Nat) (sw : Sweep) : Fn 𝕜 →ₗ[𝕜] Fn 𝕜 :=
  sweepQ (cscLin M) (nrPassQ conj M (ExtC09.vec (normInv conj M)) ω) sw it

theorem gsnr_refines (ω : 𝕜) (M : Csr 𝕜) (it : Nat) (sw : Sweep) :
    Refines M.n (Sm.arr conj (.gsnr ω M it sw)) (sweepF (nrPassF conj M (ExtC09.vec (normInv conj M)) ω) sw it) := by
  cases sw
  · exact nr_call_refines conj M _ ω false it
  · exact nr_call_refines conj M _ ω true it
  · exact ((nr_call_refines conj M (normInv conj M) ω false 1).comp (nr_call_refines conj M (normInv conj M) ω true 1)).iter it

/-- **`gauss_seidel_nr` in the extended cycle model is a linear iteration of the level matrix** -/
theorem gsnr_semLin (ω : 𝕜) (M : Csr 𝕜) (it : Nat) (sw : Sweep) :
    SemLin (cscDense M) (viaArr M.n (Sm.arr conj (.gsnr ω M it sw))) (Tn M.n ∘ₗ gsnrQ conj ω M it sw ∘ₗ Tn M.n) := by
  apply semLin_viaArr M.n (cscDense M) (le_of_eq (cscDense_length M)) (cscDense_rows M) _ _ _ (gsnr_refines conj ω M it sw)
  rw [msem_cscDense]
  exact sweep_isLinIter _ _ _ (fun bw => nr_pass_isLinIter conj M _ ω bw) sw it

end PyamgV.C03Y
