import PyamgV.Proofs.C05Adj
import PyamgV.Proofs.ExtSmoothers
import PyamgV.Proofs.ExtSmoothersNE

/-! PyamgV (extension E36, property C05): adjoint pairs for the smoother families outside the first cycle
model, at the operator level (`V` any module over an ordered field, `e` the Euclidean form, `A` the level
operator, `compM A M₁ M₂` = "first `M₁` then `M₂`", `sweepM A Qs` the `compM`-fold of a list of steps,
`powM A M k` = `iterations = k`).

* `sweepM_reverse_adj`    a sweep over steps with self-adjoint operators, run backwards, is the adjoint of the
                          forward sweep (generalises `sweepOp_reverse_adj` from matrix rows to any steps: blocks,
                          subdomains); `sweepM_symmetric_selfadj`: forward followed by backward is self-adjoint.
* `poly_pair`             polynomial family (`chebyshev`, `richardson`): `p(A)` with the same coefficients before and
                          after is an adjoint pair, any `iterations`.
* `blockJacobi_pair`      `block_jacobi`: `ω Dinv`, `Dinv` an exact inverse of a symmetric block diagonal.
* `blockSweep_pair`, `blockSweep_symmetric`
                          `block_gauss_seidel` (and multiplicative Schwarz): steps `x ← x + I S Iᵀ (b − A x)` with
                          `S` symmetric; forward/backward are an adjoint pair, symmetric is self-adjoint.
* normal-equation smoothers: `ne_sweep_err_adj`, `nr_sweep_res_adj`, `jacobi_ne_err_selfadj` -- forward and
  backward `gauss_seidel_ne` have **error propagators** `I − Q A` that are adjoint for the *Euclidean* form (for
  `gauss_seidel_nr`: the **residual propagators** `I − A Q`), whereas a symmetric cycle needs `Q_post = Q_preᵀ`,
  equivalently error propagators adjoint for the *energy* form (`adj_pair_energy`); a `Q` that is both commutes
  with `A` (`both_adjoint_commute`). -/
namespace PyamgV.C05Y
open PyamgV

variable {K : Type*} [Field K] [LinearOrder K] [IsStrictOrderedRing K]
variable {V : Type*} [AddCommGroup V] [Module K V]

/-! ## sweeps over arbitrary steps -/

theorem foldl_compM (A : V →ₗ[K] V) (Qs : List (V →ₗ[K] V)) (M0 : V →ₗ[K] V) :
    Qs.foldl (compM A) M0 = compM A M0 (sweepM A Qs) := by
  induction Qs generalizing M0 with
  | nil => simp [sweepM, compM_zero_right]
  | cons Q rest ih =>
    simp only [sweepM, List.foldl_cons]
    rw [ih (compM A M0 Q), ih (compM A 0 Q), compM_zero_left, compM_assoc]

theorem sweepM_nil (A : V →ₗ[K] V) : sweepM A ([] : List (V →ₗ[K] V)) = 0 := rfl

theorem sweepM_cons (A Q : V →ₗ[K] V) (Qs : List (V →ₗ[K] V)) :
    sweepM A (Q :: Qs) = compM A Q (sweepM A Qs) := by
  show (Q :: Qs).foldl (compM A) 0 = _
  rw [List.foldl_cons, foldl_compM, compM_zero_left]

theorem sweepM_append (A : V →ₗ[K] V) (Qs Rs : List (V →ₗ[K] V)) :
    sweepM A (Qs ++ Rs) = compM A (sweepM A Qs) (sweepM A Rs) := by
  show (Qs ++ Rs).foldl (compM A) 0 = _
  rw [List.foldl_append, foldl_compM]
  rfl

theorem sweepM_snoc (A Q : V →ₗ[K] V) (Qs : List (V →ₗ[K] V)) :
    sweepM A (Qs ++ [Q]) = compM A (sweepM A Qs) Q := by
  rw [sweepM_append, sweepM_cons, sweepM_nil, compM_zero_right]

/-- step-wise adjoint lists: the sweep over the adjoints in reverse order is the adjoint of the sweep -/
theorem sweepM_adj {e : EForm K V} {A : V →ₗ[K] V} (hA : IsAdj e e A A) :
    ∀ (Qs Ns : List (V →ₗ[K] V)), List.Forall₂ (IsAdj e e) Qs Ns →
      IsAdj e e (sweepM A Qs) (sweepM A Ns.reverse) := by
  intro Qs Ns h
  induction h with
  | nil => simpa [sweepM_nil] using IsAdj.zero e
  | cons hQ _ ih =>
    rw [sweepM_cons, List.reverse_cons, sweepM_snoc]
    exact IsAdj.compM hA hQ ih

/-- **a sweep over self-adjoint steps run backwards is the adjoint of the forward sweep** -/
theorem sweepM_reverse_adj {e : EForm K V} {A : V →ₗ[K] V} (hA : IsAdj e e A A)
    (Qs : List (V →ₗ[K] V)) (h : ∀ Q ∈ Qs, IsAdj e e Q Q) :
    IsAdj e e (sweepM A Qs) (sweepM A Qs.reverse) := by
  apply sweepM_adj hA
  induction Qs with
  | nil => exact List.Forall₂.nil
  | cons Q rest ih =>
    exact List.Forall₂.cons (h Q (by simp)) (ih (fun Q' hQ' => h Q' (by simp [hQ'])))

/-- forward sweep followed by the backward sweep (`sweep='symmetric'`) is self-adjoint -/
theorem sweepM_symmetric_selfadj {e : EForm K V} {A : V →ₗ[K] V} (hA : IsAdj e e A A)
    (Qs : List (V →ₗ[K] V)) (h : ∀ Q ∈ Qs, IsAdj e e Q Q) :
    IsAdj e e (sweepM A (Qs ++ Qs.reverse)) (sweepM A (Qs ++ Qs.reverse)) := by
  rw [sweepM_append]
  exact IsAdj.compM hA (sweepM_reverse_adj hA Qs h) (sweepM_reverse_adj hA Qs h).flip

/-! ## 1. polynomial family -/

/-- **`chebyshev` / `richardson` with the same coefficients before and after are an adjoint pair**
(`A` symmetric, real coefficients, any `iterations`) -/
theorem poly_pair (e : EForm K V) (A : V →ₗ[K] V) (hA : IsAdj e e A A) (c0 : K) (cs : List K) (k : Nat) :
    IsAdj e e (powM A (polyOp A c0 cs) k) (powM A (polyOp A c0 cs) k) :=
  IsAdj.powM hA (polyOp_adj e A hA c0 cs) k

/-! ## 2. block Jacobi, block Gauss–Seidel -/

theorem isAdj_smul {e : EForm K V} {M N : V →ₗ[K] V} (h : IsAdj e e M N) (c : K) :
    IsAdj e e (c • M) (c • N) := by
  intro u v; simp [h u v]

/-- the exact inverse of a symmetric operator is symmetric (a right inverse suffices) -/
theorem inv_selfadj (e : EForm K V) (D Dinv : V →ₗ[K] V) (hD : IsAdj e e D D) (hinv : ∀ r, D (Dinv r) = r) :
    IsAdj e e Dinv Dinv := by
  intro u v
  calc e.a (Dinv u) v = e.a (Dinv u) (D (Dinv v)) := by rw [hinv v]
    _ = e.a (D (Dinv u)) (Dinv v) := (hD (Dinv u) (Dinv v)).symm
    _ = e.a u (Dinv v) := by rw [hinv u]

/-- **`block_jacobi` with the same `omega` before and after is an adjoint pair**: operator `ω Dinv`, `Dinv` the
exact inverse of the symmetric block diagonal `D` -/
theorem blockJacobi_pair (e : EForm K V) (A D Dinv : V →ₗ[K] V) (hA : IsAdj e e A A) (hD : IsAdj e e D D)
    (hinv : ∀ r, D (Dinv r) = r) (ω : K) (k : Nat) :
    IsAdj e e (powM A (ω • Dinv) k) (powM A (ω • Dinv) k) :=
  IsAdj.powM hA (isAdj_smul (inv_selfadj e D Dinv hD hinv) ω) k

/-- operator of one block / subdomain step `x ← x + I S Iᵀ (b − A x)` -/
def subQ (s : Subdomain K V) : V →ₗ[K] V := s.I ∘ₗ s.S ∘ₗ s.It

/-- one block step of `block_gauss_seidel` / one subdomain of `schwarz` -/
def subFn (A : V →ₗ[K] V) (s : Subdomain K V) (x b : V) : V := x + s.I (s.S (s.It (b - A x)))

theorem subFn_isLinIter (A : V →ₗ[K] V) (s : Subdomain K V) : IsLinIter A (subFn A s) (subQ s) := by
  intro x b; rfl

/-- a sweep over a list of blocks / subdomains -/
def subSweepFn (A : V →ₗ[K] V) (subs : List (Subdomain K V)) (x b : V) : V :=
  subs.foldl (fun x s => subFn A s x b) x

theorem subSweep_isLinIter (A : V →ₗ[K] V) (subs : List (Subdomain K V)) :
    IsLinIter A (subSweepFn A subs) (sweepM A (subs.map subQ)) := by
  have := IsLinIter.foldl A (subs.map (fun s => (subFn A s, subQ s)))
    (by
      intro t ht
      obtain ⟨s, _, rfl⟩ := List.mem_map.1 ht
      exact subFn_isLinIter A s)
  intro x b
  have h2 := this x b
  simp only [List.foldl_map, List.map_map] at h2
  exact h2

/-- a block step with a symmetric local inverse is self-adjoint (`Iᵀ` the adjoint of the injection `I`) -/
theorem subQ_selfadj (e ew : EForm K V) (s : Subdomain K V) (hI : IsAdj e ew s.I s.It) (hS : IsAdj ew ew s.S s.S) :
    IsAdj e e (subQ s) (subQ s) := by
  have := (hI.comp hS).comp hI.flip
  simpa [subQ, LinearMap.comp_assoc] using this

/-- the local inverse of a symmetric diagonal block `Iᵀ A I` is symmetric on the range of `Iᵀ`; stated for a
right inverse on the whole local space -/
theorem local_inverse_selfadj (e ew : EForm K V) (A : V →ₗ[K] V) (s : Subdomain K V) (hA : IsAdj e e A A)
    (hI : IsAdj e ew s.I s.It) (hinv : ∀ r, (s.It ∘ₗ A ∘ₗ s.I) (s.S r) = r) : IsAdj ew ew s.S s.S := by
  apply inv_selfadj ew (s.It ∘ₗ A ∘ₗ s.I) s.S _ hinv
  have := (hI.flip.comp hA).comp hI
  simpa [LinearMap.comp_assoc] using this

/-- **forward / backward `block_gauss_seidel` (or Schwarz) sweeps are an adjoint pair**, any `iterations` -/
theorem blockSweep_pair (e ew : EForm K V) (A : V →ₗ[K] V) (hA : IsAdj e e A A) (subs : List (Subdomain K V))
    (h : ∀ s ∈ subs, IsAdj e ew s.I s.It ∧ IsAdj ew ew s.S s.S) (k : Nat) :
    IsAdj e e (powM A (sweepM A (subs.map subQ)) k) (powM A (sweepM A (subs.reverse.map subQ)) k) := by
  apply IsAdj.powM hA
  rw [List.map_reverse]
  apply sweepM_reverse_adj hA
  intro Q hQ
  obtain ⟨s, hs, rfl⟩ := List.mem_map.1 hQ
  exact subQ_selfadj e ew s (h s hs).1 (h s hs).2

/-- **`sweep='symmetric'` block Gauss–Seidel is self-adjoint**, any `iterations` -/
theorem blockSweep_symmetric (e ew : EForm K V) (A : V →ₗ[K] V) (hA : IsAdj e e A A) (subs : List (Subdomain K V))
    (h : ∀ s ∈ subs, IsAdj e ew s.I s.It ∧ IsAdj ew ew s.S s.S) (k : Nat) :
    IsAdj e e (powM A (sweepM A ((subs ++ subs.reverse).map subQ)) k)
      (powM A (sweepM A ((subs ++ subs.reverse).map subQ)) k) := by
  apply IsAdj.powM hA
  rw [List.map_append, List.map_reverse]
  apply sweepM_symmetric_selfadj hA
  intro Q hQ
  obtain ⟨s, hs, rfl⟩ := List.mem_map.1 hQ
  exact subQ_selfadj e ew s (h s hs).1 (h s hs).2

/-! ## 3. normal-equation smoothers: which adjoint they have -/

/-- what a symmetric cycle needs of a smoother pair, in terms of error propagators: `Q_post = Q_preᵀ` makes
`I − Q_pre A` and `I − Q_post A` adjoint for the **energy** form `⟨A·,·⟩` -/
theorem adj_pair_energy (e : EForm K V) (A M N : V →ₗ[K] V) (hs hp) (h : IsAdj e e M N) :
    IsAdj (e.ofOp A hs hp) (e.ofOp A hs hp) (M ∘ₗ A) (N ∘ₗ A) := by
  intro u v
  show e.a (A (M (A u))) v = e.a (A u) (N (A v))
  rw [hs (M (A u)) v, h (A u) (A v)]

/-- composition on the right with `A` turns `compM A` into `compM id`: `(I − M₂A)(I − M₁A) = I − compM(M₁, M₂) A` -/
theorem compM_comp_right (A M₁ M₂ : V →ₗ[K] V) :
    compM A M₁ M₂ ∘ₗ A = compM LinearMap.id (M₁ ∘ₗ A) (M₂ ∘ₗ A) := by
  ext x; simp [compM]

theorem compM_comp_left (A M₁ M₂ : V →ₗ[K] V) :
    A ∘ₗ compM A M₁ M₂ = compM LinearMap.id (A ∘ₗ M₁) (A ∘ₗ M₂) := by
  ext x; simp [compM]

theorem sweepM_comp_right (A : V →ₗ[K] V) (Qs : List (V →ₗ[K] V)) :
    sweepM A Qs ∘ₗ A = sweepM LinearMap.id (Qs.map (· ∘ₗ A)) := by
  induction Qs with
  | nil => simp [sweepM_nil]
  | cons Q rest ih => rw [sweepM_cons, List.map_cons, sweepM_cons, compM_comp_right, ih]

theorem sweepM_comp_left (A : V →ₗ[K] V) (Qs : List (V →ₗ[K] V)) :
    A ∘ₗ sweepM A Qs = sweepM LinearMap.id (Qs.map (A ∘ₗ ·)) := by
  induction Qs with
  | nil => simp [sweepM_nil]
  | cons Q rest ih => rw [sweepM_cons, List.map_cons, sweepM_cons, compM_comp_left, ih]

theorem powM_comp_right (A M : V →ₗ[K] V) (k : Nat) :
    powM A M k ∘ₗ A = powM LinearMap.id (M ∘ₗ A) k := by
  induction k with
  | zero => simp [powM]
  | succ k ih => rw [powM, powM, compM_comp_right, ih]

theorem powM_comp_left (A M : V →ₗ[K] V) (k : Nat) :
    A ∘ₗ powM A M k = powM LinearMap.id (A ∘ₗ M) k := by
  induction k with
  | zero => simp [powM]
  | succ k ih => rw [powM, powM, compM_comp_left, ih]

theorem isAdj_id (e : EForm K V) : IsAdj e e (LinearMap.id : V →ₗ[K] V) LinearMap.id := by
  intro u v; rfl

/-- one Kaczmarz row: `Q_i A = (Dinv_i ω) a aᵀ` is symmetric for the Euclidean form -/
theorem neRow_err_selfadj (e : EForm K V) (A : V →ₗ[K] V) (ω : K) (r : NERow K V) (hr : r.IsRow e A) :
    IsAdj e e (neRowOp ω r ∘ₗ A) (neRowOp ω r ∘ₗ A) := by
  intro u v
  simp only [neRowOp, LinearMap.comp_apply, LinearMap.smul_apply, LinearMap.smulRight_apply, map_smul,
    LinearMap.smul_apply, smul_eq_mul]
  rw [← hr u, ← hr v, e.symm u r.a]
  ring

/-- **forward / backward `gauss_seidel_ne` sweeps (same `omega`, any `iterations`): the error propagators
`I − Q_f A` and `I − Q_b A` are adjoint for the EUCLIDEAN form** (no symmetry of `A` is needed) -/
theorem ne_sweep_err_adj (e : EForm K V) (A : V →ₗ[K] V) (ω : K) (rows : List (NERow K V))
    (hr : ∀ r ∈ rows, r.IsRow e A) (k : Nat) :
    IsAdj e e (powM A (sweepM A (rows.map (neRowOp ω))) k ∘ₗ A)
      (powM A (sweepM A (rows.reverse.map (neRowOp ω))) k ∘ₗ A) := by
  rw [powM_comp_right, powM_comp_right, sweepM_comp_right, sweepM_comp_right]
  apply IsAdj.powM (isAdj_id e)
  rw [List.map_reverse, List.map_reverse]
  apply sweepM_reverse_adj (isAdj_id e)
  intro Q hQ
  obtain ⟨Q', hQ', rfl⟩ := List.mem_map.1 hQ
  obtain ⟨r, hrm, rfl⟩ := List.mem_map.1 hQ'
  exact neRow_err_selfadj e A ω r (hr r hrm)

/-- the symmetric `gauss_seidel_ne` sweep has a Euclidean-self-adjoint error propagator -/
theorem ne_sweep_symmetric_err_selfadj (e : EForm K V) (A : V →ₗ[K] V) (ω : K) (rows : List (NERow K V))
    (hr : ∀ r ∈ rows, r.IsRow e A) (k : Nat) :
    IsAdj e e (powM A (sweepM A ((rows ++ rows.reverse).map (neRowOp ω))) k ∘ₗ A)
      (powM A (sweepM A ((rows ++ rows.reverse).map (neRowOp ω))) k ∘ₗ A) := by
  rw [powM_comp_right, sweepM_comp_right]
  apply IsAdj.powM (isAdj_id e)
  rw [List.map_append, List.map_append, List.map_reverse, List.map_reverse]
  apply sweepM_symmetric_selfadj (isAdj_id e)
  intro Q hQ
  obtain ⟨Q', hQ', rfl⟩ := List.mem_map.1 hQ
  obtain ⟨r, hrm, rfl⟩ := List.mem_map.1 hQ'
  exact neRow_err_selfadj e A ω r (hr r hrm)

/-- one NR column: `A Q_i = (Dinv_i ω) (A u)(A u)ᵀ` is symmetric for the Euclidean form -/
theorem nrCol_res_selfadj (e : EForm K V) (A : V →ₗ[K] V) (ω : K) (c : NRCol K V) :
    IsAdj e e (A ∘ₗ nrColOp e ω A c) (A ∘ₗ nrColOp e ω A c) := by
  intro u v
  simp only [nrColOp, LinearMap.comp_apply, LinearMap.smul_apply, LinearMap.smulRight_apply, map_smul,
    LinearMap.smul_apply, smul_eq_mul]
  rw [e.symm (A c.u) u]
  ring

/-- **forward / backward `gauss_seidel_nr` sweeps: the residual propagators `I − A Q_f`, `I − A Q_b` are adjoint
for the EUCLIDEAN form** -/
theorem nr_sweep_res_adj (e : EForm K V) (A : V →ₗ[K] V) (ω : K) (cols : List (NRCol K V)) (k : Nat) :
    IsAdj e e (A ∘ₗ powM A (sweepM A (cols.map (nrColOp e ω A))) k)
      (A ∘ₗ powM A (sweepM A (cols.reverse.map (nrColOp e ω A))) k) := by
  rw [powM_comp_left, powM_comp_left, sweepM_comp_left, sweepM_comp_left]
  apply IsAdj.powM (isAdj_id e)
  rw [List.map_reverse, List.map_reverse]
  apply sweepM_reverse_adj (isAdj_id e)
  intro Q hQ
  obtain ⟨Q', hQ', rfl⟩ := List.mem_map.1 hQ
  obtain ⟨c, _, rfl⟩ := List.mem_map.1 hQ'
  exact nrCol_res_selfadj e A ω c

/-- **`jacobi_ne`** (`Q = ω Aᵀ Dinv`, `Dinv` a symmetric scaling): the error propagator `I − Q A = I − ω Aᵀ Dinv A`
is self-adjoint for the EUCLIDEAN form, any `iterations` -/
theorem jacobi_ne_err_selfadj (e : EForm K V) (A At Dinv : V →ₗ[K] V) (hadj : IsAdj e e A At)
    (hD : IsAdj e e Dinv Dinv) (ω : K) (k : Nat) :
    IsAdj e e (powM A (ω • (At ∘ₗ Dinv)) k ∘ₗ A) (powM A (ω • (At ∘ₗ Dinv)) k ∘ₗ A) := by
  rw [powM_comp_right]
  apply IsAdj.powM (isAdj_id e)
  intro u v
  simp only [LinearMap.comp_apply, LinearMap.smul_apply, map_smul, smul_eq_mul]
  congr 1
  calc e.a (At (Dinv (A u))) v = e.a v (At (Dinv (A u))) := e.symm _ _
    _ = e.a (A v) (Dinv (A u)) := (hadj v _).symm
    _ = e.a (Dinv (A u)) (A v) := e.symm _ _
    _ = e.a (A u) (Dinv (A v)) := hD (A u) (A v)
    _ = e.a u (At (Dinv (A v))) := hadj u _

/-- a smoother operator that is symmetric in both senses (Euclidean-symmetric `Q`, as a symmetric cycle needs, and
Euclidean-symmetric `Q A`, as the normal-equation smoothers have) commutes with `A`: `⟨Q A u, v⟩ = ⟨A Q u, v⟩` -/
theorem both_adjoint_commute (e : EForm K V) (A Q : V →ₗ[K] V) (hA : IsAdj e e A A) (hQ : IsAdj e e Q Q)
    (hQA : IsAdj e e (Q ∘ₗ A) (Q ∘ₗ A)) (u v : V) : e.a (Q (A u)) v = e.a (A (Q u)) v := by
  have h1 : e.a (Q (A u)) v = e.a u (Q (A v)) := hQA u v
  rw [h1, hA (Q u) v, hQ u (A v)]

end PyamgV.C05Y
