import PyamgV.Proofs.GsEnergy

/-! PyamgV (C09): the weighted Jacobi kernel computes `x' = x + ω D⁻¹ (b − A x)` on the swept rows
(rows with a zero diagonal are left unchanged). -/
namespace PyamgV

variable {K : Type*} [Field K] [LinearOrder K] [IsStrictOrderedRing K] [DecidableEq K]

/-- one row of the `jacobi` kernel: reads the frozen copy `temp`, writes `x` -/
def jacRowFn (ω : K) (i : Nat) (row : Row K) (b temp x : Nat → K) : Nat → K :=
  let (rsum, diag) := rowScan i row temp
  if diag = 0 then x else Function.update x i ((1 - ω) * temp i + ω * ((b i - rsum) / diag))

/-- **Jacobi row formula**: with a unique stored diagonal `d ≠ 0`, the new entry is
`temp_i + ω (b_i − (A temp)_i) / d`. -/
theorem jacRow_formula (ω : K) (i : Nat) (row : Row K) (b temp x : Nat → K) (d : K)
    (hd : HasDiag i row d) (hd0 : d ≠ 0) :
    jacRowFn ω i row b temp x i = temp i + ω * ((b i - rowDot row temp) / d) ∧
    ∀ j, j ≠ i → jacRowFn ω i row b temp x j = x j := by
  obtain ⟨h1, h2⟩ := rowScan_spec i row temp (0, 0)
  have hdiag : (rowScan i row temp).2 = d := by
    unfold rowScan; rw [h2]; unfold HasDiag at hd; rw [hd]; simp
  have hrs : (rowScan i row temp).1 =
      ((row.filter (fun cv => cv.1 ≠ i)).map (fun cv => cv.2 * temp cv.1)).sum := by
    unfold rowScan; rw [h1]; simp
  unfold jacRowFn
  rw [show rowScan i row temp = ((rowScan i row temp).1, (rowScan i row temp).2) from rfl]
  simp only [hdiag, hd0, if_false]
  constructor
  · rw [Function.update_self, hrs, rowDot_split i row temp d hd]
    field_simp
    ring
  · intro j hj; rw [Function.update_of_ne hj]

/-- zero diagonal: the row is left unchanged -/
theorem jacRow_zero_diag (ω : K) (i : Nat) (row : Row K) (b temp x : Nat → K)
    (hd : HasDiag i row 0) : jacRowFn ω i row b temp x = x := by
  obtain ⟨_, h2⟩ := rowScan_spec i row temp (0, 0)
  have hdiag : (rowScan i row temp).2 = 0 := by
    unfold rowScan; rw [h2]; unfold HasDiag at hd; rw [hd]; simp
  unfold jacRowFn
  rw [show rowScan i row temp = ((rowScan i row temp).1, (rowScan i row temp).2) from rfl]
  simp [hdiag]

#print axioms jacRow_formula
end PyamgV
