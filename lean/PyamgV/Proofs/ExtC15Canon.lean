import PyamgV.Model.ExtC15Canon
import PyamgV.Proofs.ExtSpmmMat

/-! PyamgV (extension E41, C15): the canonical stored form of a CSR matrix is unique.

* `sorted_rows_unique`: two rows strictly sorted by column with the same set of stored columns and the same
  sums per column are equal lists;
* `csr_ext`: two well-formed CSR matrices of the same shape whose rows are equal lists have equal arrays;
* `canonical_unique`: strictly sorted rows + same dense meaning + same stored pattern => equal arrays;
  `canonical_unique_nz`: without stored zeros the pattern is determined by the meaning;
* `canonNZ_unique`: `sum_duplicates(); eliminate_zeros()` returns arrays that depend on the dense meaning only;
  `canonNZ_fixed`: it returns a canonical matrix unchanged. -/
namespace PyamgV.Canon
open PyamgV.Spmm

variable {α : Type}

/-- strictly sorted by column (hence duplicate-free) -/
abbrev Sorted (l : List (Nat × α)) : Prop := l.Pairwise (fun a b => a.1 < b.1)

/-- the stored columns of a row -/
abbrev keys (l : List (Nat × α)) : List Nat := l.map (·.1)

/-! ### rows -/
section rows
variable [AddCommMonoid α]

theorem ksum_tail_zero (e : Nat × α) (t : List (Nat × α)) (h : Sorted (e :: t)) : ksum t e.1 = 0 := by
  apply ksum_eq_zero
  intro x hx
  have := (List.pairwise_cons.1 h).1 x hx
  omega

/-- in a strictly sorted row the sum under a stored column is the stored value -/
theorem ksum_sorted_mem (l : List (Nat × α)) (hl : Sorted l) (j : Nat) (v : α) (h : (j, v) ∈ l) : ksum l j = v := by
  induction l with
  | nil => cases h
  | cons e t ih =>
    rw [ksum_cons]
    rcases List.mem_cons.1 h with h1 | h1
    · subst h1
      rw [if_pos rfl, ksum_tail_zero _ t hl, add_zero]
    · have hlt := (List.pairwise_cons.1 hl).1 _ h1
      have hne : ¬ e.1 = j := by
        have : e.1 < j := hlt
        omega
      rw [if_neg hne, zero_add]
      exact ih (List.pairwise_cons.1 hl).2 h1

theorem ksum_not_mem (l : List (Nat × α)) (j : Nat) (h : j ∉ keys l) : ksum l j = 0 := by
  apply ksum_eq_zero
  intro e he hej
  exact h (List.mem_map.2 ⟨e, he, hej⟩)

/-- without stored zeros the stored columns of a strictly sorted row are those with a non-zero sum -/
theorem keys_iff_ksum_ne (l : List (Nat × α)) (hl : Sorted l) (hnz : ∀ e ∈ l, e.2 ≠ 0) (j : Nat) :
    j ∈ keys l ↔ ksum l j ≠ 0 := by
  constructor
  · intro h
    obtain ⟨e, he, hej⟩ := List.mem_map.1 h
    have : ksum l j = e.2 := ksum_sorted_mem l hl j e.2 (by rw [← hej]; exact he)
    rw [this]
    exact hnz e he
  · intro h
    by_cases hm : j ∈ keys l
    · exact hm
    · exact absurd (ksum_not_mem l j hm) h

/-- **uniqueness of a canonical row**: strictly sorted, same stored columns, same sums => same list -/
theorem sorted_rows_unique (l l' : List (Nat × α)) (hl : Sorted l) (hl' : Sorted l')
    (hkeys : ∀ j, j ∈ keys l ↔ j ∈ keys l') (hval : ∀ j, ksum l j = ksum l' j) : l = l' := by
  induction l generalizing l' with
  | nil =>
    cases l' with
    | nil => rfl
    | cons e' t' =>
      have : e'.1 ∈ keys ([] : List (Nat × α)) := (hkeys e'.1).2 (by simp [keys])
      simp [keys] at this
  | cons e t ih =>
    cases l' with
    | nil =>
      have : e.1 ∈ keys ([] : List (Nat × α)) := (hkeys e.1).1 (by simp [keys])
      simp [keys] at this
    | cons e' t' =>
      have h1 := List.pairwise_cons.1 hl
      have h1' := List.pairwise_cons.1 hl'
      have lt_of_mem : ∀ j, j ∈ keys t → e.1 < j := by
        intro j hj
        obtain ⟨x, hx, hxj⟩ := List.mem_map.1 hj
        have := h1.1 x hx
        omega
      have lt_of_mem' : ∀ j, j ∈ keys t' → e'.1 < j := by
        intro j hj
        obtain ⟨x, hx, hxj⟩ := List.mem_map.1 hj
        have := h1'.1 x hx
        omega
      have hk : e.1 = e'.1 := by
        have a1 : e.1 ∈ keys (e' :: t') := (hkeys e.1).1 (by simp [keys])
        have a2 : e'.1 ∈ keys (e :: t) := (hkeys e'.1).2 (by simp [keys])
        have b1 : e.1 = e'.1 ∨ e.1 ∈ keys t' := by simpa [keys] using a1
        have b2 : e'.1 = e.1 ∨ e'.1 ∈ keys t := by simpa [keys] using a2
        rcases b1 with b1 | b1
        · exact b1
        · rcases b2 with b2 | b2
          · exact b2.symm
          · have := lt_of_mem _ b2
            have := lt_of_mem' _ b1
            omega
      have hv : e.2 = e'.2 := by
        have := hval e.1
        rw [ksum_cons, ksum_cons, if_pos rfl, if_pos hk.symm, ksum_tail_zero e t hl, hk, ksum_tail_zero e' t' hl',
          add_zero, add_zero] at this
        exact this
      have he : e = e' := Prod.ext hk hv
      subst he
      congr 1
      apply ih t' h1.2 h1'.2
      · intro j
        constructor
        · intro hj
          have hlt := lt_of_mem j hj
          have : j ∈ keys (e :: t') := (hkeys j).1 (by simp only [keys, List.map_cons, List.mem_cons]; exact Or.inr hj)
          have : j = e.1 ∨ j ∈ keys t' := by simpa [keys] using this
          rcases this with h | h
          · omega
          · exact h
        · intro hj
          have hlt := lt_of_mem' j hj
          have : j ∈ keys (e :: t) := (hkeys j).2 (by simp only [keys, List.map_cons, List.mem_cons]; exact Or.inr hj)
          have : j = e.1 ∨ j ∈ keys t := by simpa [keys] using this
          rcases this with h | h
          · omega
          · exact h
      · intro j
        by_cases hj : e.1 = j
        · subst hj
          rw [ksum_tail_zero e t hl, ksum_tail_zero e t' hl']
        · have := hval j
          rw [ksum_cons, ksum_cons, if_neg hj, zero_add, zero_add] at this
          exact this

end rows

/-! ### arrays -/
section arrays

theorem rdN_eq_getElem (a : Array Nat) (i : Nat) (h : i < a.size) : rdN a i = a[i] := by
  unfold rdN
  simp [Array.getD_eq_getD_getElem?, Array.getElem?_eq_getElem h]

theorem rd_eq_getElem [OfNat α 0] (a : Array α) (i : Nat) (h : i < a.size) : rd a i = a[i] := by
  unfold rd
  simp [Array.getD_eq_getD_getElem?, Array.getElem?_eq_getElem h]

/-- every position below `f n` lies in one of the `n` segments `f i .. f (i + 1)` -/
theorem find_row (f : Nat → Nat) (n : Nat) (h0 : f 0 = 0) (jj : Nat) (hjj : jj < f n) :
    ∃ i, i < n ∧ f i ≤ jj ∧ jj < f (i + 1) := by
  induction n with
  | zero => omega
  | succ n ih =>
    by_cases h : jj < f n
    · obtain ⟨i, hi, h1, h2⟩ := ih h
      exact ⟨i, by omega, h1, h2⟩
    · exact ⟨n, by omega, by omega, hjj⟩

variable [OfNat α 0]

theorem row_length (A : Csr α) (i : Nat) : (A.row i).length = rdN A.ap (i + 1) - rdN A.ap i := by
  unfold Csr.row
  simp

theorem row_getElem? (A : Csr α) (i k : Nat) (hk : k < rdN A.ap (i + 1) - rdN A.ap i) :
    (A.row i)[k]? = some (rdN A.aj (rdN A.ap i + k), rd A.ax (rdN A.ap i + k)) := by
  unfold Csr.row
  rw [List.getElem?_map, List.getElem?_range' hk]
  simp

omit [OfNat α 0] in
theorem csr_wf_spec (A : Csr α) (h : A.wf = true) :
    A.ap.size = A.rows + 1 ∧ rdN A.ap 0 = 0 ∧ (∀ i, i < A.rows → rdN A.ap i ≤ rdN A.ap (i + 1)) ∧
      rdN A.ap A.rows = A.aj.size ∧ A.aj.size = A.ax.size := by
  unfold Csr.wf at h
  simp only [Bool.and_eq_true, beq_iff_eq, List.all_eq_true, List.mem_range, decide_eq_true_eq] at h
  obtain ⟨⟨⟨⟨⟨h1, h2⟩, h3⟩, h4⟩, h5⟩, _⟩ := h
  exact ⟨h1, h2, h3, h4, h5⟩

/-- **two well-formed CSR matrices of one shape whose rows are equal lists have equal arrays** -/
theorem csr_ext (A A' : Csr α) (hA : A.wf = true) (hA' : A'.wf = true) (hr : A.rows = A'.rows)
    (hc : A.cols = A'.cols) (hrow : ∀ i, i < A.rows → A.row i = A'.row i) : A = A' := by
  obtain ⟨h1, h2, h3, h4, h5⟩ := csr_wf_spec A hA
  obtain ⟨h1', h2', h3', h4', h5'⟩ := csr_wf_spec A' hA'
  have hap : ∀ i, i ≤ A.rows → rdN A.ap i = rdN A'.ap i := by
    intro i
    induction i with
    | zero => intro _; rw [h2, h2']
    | succ i ih =>
      intro hi
      have e1 := ih (by omega)
      have e2 : (A.row i).length = (A'.row i).length := by rw [hrow i (by omega)]
      rw [row_length, row_length] at e2
      have m1 := h3 i (by omega)
      have m2 := h3' i (by omega)
      omega
  have eap : A.ap = A'.ap := by
    apply Array.ext (by omega)
    intro i hi hi'
    rw [← rdN_eq_getElem _ _ hi, ← rdN_eq_getElem _ _ hi']
    exact hap i (by omega)
  have esz : A.aj.size = A'.aj.size := by rw [← h4, ← h4', hap _ (Nat.le_refl _), hr]
  have hent : ∀ jj, jj < A.aj.size → rdN A.aj jj = rdN A'.aj jj ∧ rd A.ax jj = rd A'.ax jj := by
    intro jj hjj
    obtain ⟨i, hi, l1, l2⟩ := find_row (rdN A.ap) A.rows h2 jj (by omega)
    have g1 := row_getElem? A i (jj - rdN A.ap i) (by omega)
    have g2 := row_getElem? A' i (jj - rdN A.ap i) (by rw [← eap]; omega)
    rw [hrow i hi] at g1
    rw [← eap, g1] at g2
    have hpos : rdN A.ap i + (jj - rdN A.ap i) = jj := by omega
    rw [hpos] at g2
    simp only [Option.some.injEq, Prod.mk.injEq] at g2
    exact g2
  have eaj : A.aj = A'.aj := by
    apply Array.ext esz
    intro i hi hi'
    rw [← rdN_eq_getElem _ _ hi, ← rdN_eq_getElem _ _ hi']
    exact (hent i hi).1
  have eax : A.ax = A'.ax := by
    apply Array.ext (by omega)
    intro i hi hi'
    rw [← rd_eq_getElem _ _ hi, ← rd_eq_getElem _ _ hi']
    exact (hent i (by omega)).2
  cases A; cases A'
  simp only at hr hc eap eaj eax
  subst hr hc eap eaj eax
  rfl

/-- row `i` of a matrix assembled from a function of the row number -/
theorem ofRows_range_row (r c : Nat) (f : Nat → List (Nat × α)) (i : Nat) :
    (ofRows r c ((List.range r).map f)).row i = if i < r then f i else [] := by
  rw [ofRows_row]
  by_cases hi : i < r
  · simp [List.getD_eq_getElem?_getD, hi]
  · simp [List.getD_eq_getElem?_getD, hi]

end arrays

/-! ### canonical CSR -/
section canonical
variable [Semiring α]

/-- canonical CSR with the explicit zeros tracked: well formed, every row strictly sorted by column (what
`has_canonical_format` means); stored zeros are allowed -/
def Canonical (A : Csr α) : Prop := A.wf = true ∧ ∀ i, Sorted (A.row i)

/-- the stored pattern (explicit zeros included) -/
def stored (A : Csr α) (i j : Nat) : Prop := j ∈ keys (A.row i)

def NoZeros (A : Csr α) : Prop := ∀ i, ∀ e ∈ A.row i, e.2 ≠ 0

/-- **uniqueness of the canonical form, stored zeros tracked**: two canonical CSR matrices with the same dense
meaning and the same stored pattern have equal `indptr`, `indices`, `data` -/
theorem canonical_unique (A A' : Csr α) (hA : Canonical A) (hA' : Canonical A') (h : A.SameMeaning A')
    (hpat : ∀ i j, i < A.rows → (stored A i j ↔ stored A' i j)) : A = A' := by
  apply csr_ext A A' hA.1 hA'.1 h.1 h.2.1
  intro i hi
  apply sorted_rows_unique _ _ (hA.2 i) (hA'.2 i) (fun j => hpat i j hi)
  intro j
  have := h.2.2 i j
  unfold Csr.val at this
  rw [if_pos hi, if_pos (h.1 ▸ hi), rowVal_eq_ksum, rowVal_eq_ksum] at this
  exact this

/-- without stored zeros the pattern is the support of the meaning -/
theorem stored_iff_val_ne (A : Csr α) (hA : Canonical A) (hz : NoZeros A) (i j : Nat) (hi : i < A.rows) :
    stored A i j ↔ A.val i j ≠ 0 := by
  unfold stored Csr.val
  rw [if_pos hi, rowVal_eq_ksum]
  exact keys_iff_ksum_ne _ (hA.2 i) (hz i) j

/-- **uniqueness of the canonical form**: sorted, duplicate-free, no stored zeros + same dense meaning =>
equal arrays -/
theorem canonical_unique_nz (A A' : Csr α) (hA : Canonical A) (hA' : Canonical A') (hz : NoZeros A) (hz' : NoZeros A')
    (h : A.SameMeaning A') : A = A' := by
  apply canonical_unique A A' hA hA' h
  intro i j hi
  rw [stored_iff_val_ne A hA hz i j hi, stored_iff_val_ne A' hA' hz' i j (h.1 ▸ hi), h.2.2]

end canonical

/-! ### the executable checkers decide the predicates -/
section checkers

theorem strictAsc_iff (l : List (Nat × α)) : strictAsc l = true ↔ Sorted l := by
  induction l with
  | nil => simp [strictAsc]
  | cons a t ih =>
    cases t with
    | nil => simp [strictAsc]
    | cons b t =>
      simp only [strictAsc, Bool.and_eq_true, decide_eq_true_eq, ih]
      constructor
      · rintro ⟨hab, hs⟩
        refine List.pairwise_cons.2 ⟨?_, hs⟩
        intro x hx
        rcases List.mem_cons.1 hx with rfl | hx
        · exact hab
        · have := (List.pairwise_cons.1 hs).1 x hx
          omega
      · intro hs
        have h1 := List.pairwise_cons.1 hs
        exact ⟨h1.1 b List.mem_cons_self, h1.2⟩

variable [Semiring α]

theorem row_empty_of_ge (A : Csr α) (hA : A.wf = true) (i : Nat) (hi : A.rows ≤ i) : A.row i = [] := by
  obtain ⟨h1, _⟩ := csr_wf_spec A hA
  have : rdN A.ap (i + 1) = 0 := by
    unfold rdN
    simp [Array.getD_eq_getD_getElem?, Array.getElem?_eq_none (by omega : A.ap.size ≤ i + 1)]
  apply List.eq_nil_of_length_eq_zero
  rw [row_length, this]
  omega

/-- the checker the driver runs decides `Canonical` -/
theorem isCanonical_iff (A : Csr α) : isCanonical A = true ↔ Canonical A := by
  unfold isCanonical Canonical
  simp only [Bool.and_eq_true, List.all_eq_true, List.mem_range, strictAsc_iff]
  constructor
  · rintro ⟨hw, hs⟩
    refine ⟨hw, fun i => ?_⟩
    by_cases hi : i < A.rows
    · exact hs i hi
    · rw [row_empty_of_ge A hw i (by omega)]; exact List.Pairwise.nil
  · rintro ⟨hw, hs⟩
    exact ⟨hw, fun i _ => hs i⟩

theorem noStoredZeros_iff [DecidableEq α] (A : Csr α) (hA : A.wf = true) : noStoredZeros A = true ↔ NoZeros A := by
  unfold noStoredZeros NoZeros
  simp only [List.all_eq_true, List.mem_range, decide_eq_true_eq]
  constructor
  · intro h i e he
    by_cases hi : i < A.rows
    · exact h i hi e he
    · rw [row_empty_of_ge A hA i (by omega)] at he; cases he
  · intro h i _ e he
    exact h i e he

end checkers

/-! ### the canonicaliser -/
section canoniser
variable [Semiring α] [DecidableEq α]

omit [Semiring α] in
theorem eliminateZeros_row [OfNat α 0] (A : Csr α) (i : Nat) :
    (eliminateZeros A).row i = if i < A.rows then (A.row i).filter (fun e => e.2 ≠ 0) else [] := by
  unfold eliminateZeros
  exact ofRows_range_row _ _ _ i

omit [DecidableEq α] in
theorem sumDuplicates_row (A : Csr α) (i : Nat) :
    (sumDuplicates A).row i = if i < A.rows then canon (A.row i) else [] := by
  unfold sumDuplicates
  exact ofRows_range_row _ _ _ i

theorem canonNZ_row (A : Csr α) (i : Nat) : (canonNZ A).row i = if i < A.rows then canonRow (A.row i) else [] := by
  unfold canonNZ
  rw [eliminateZeros_row, sumDuplicates_row]
  show (if i < A.rows then _ else _) = _
  by_cases hi : i < A.rows
  · simp only [hi, if_true]; rfl
  · simp only [hi, if_false]

theorem canonNZ_rows (A : Csr α) : (canonNZ A).rows = A.rows := rfl
theorem canonNZ_cols (A : Csr α) : (canonNZ A).cols = A.cols := rfl

theorem ksum_filter_ne_zero (l : List (Nat × α)) (j : Nat) : ksum (l.filter fun e => e.2 ≠ 0) j = ksum l j := by
  induction l with
  | nil => rfl
  | cons e t ih =>
    by_cases hz : e.2 = 0
    · rw [List.filter_cons_of_neg (by simpa using hz), ih, ksum_cons, hz]
      simp
    · rw [List.filter_cons_of_pos (by simpa using hz), ksum_cons, ksum_cons, ih]

theorem ksum_canonRow (l : List (Nat × α)) (j : Nat) : ksum (canonRow l) j = ksum l j := by
  unfold canonRow
  rw [ksum_filter_ne_zero, ksum_canon]

theorem canonRow_sorted (l : List (Nat × α)) : Sorted (canonRow l) :=
  (canon_sorted l).sublist List.filter_sublist

theorem canonRow_nz (l : List (Nat × α)) : ∀ e ∈ canonRow l, e.2 ≠ 0 := by
  intro e he
  unfold canonRow at he
  simpa using (List.mem_filter.1 he).2

theorem canonRow_keys (l : List (Nat × α)) : ∀ x ∈ canonRow l, ∃ y ∈ l, y.1 = x.1 := by
  intro x hx
  unfold canonRow at hx
  exact mem_canon l x (List.mem_filter.1 hx).1

/-- `sum_duplicates(); eliminate_zeros()` keeps the dense meaning -/
theorem val_canonNZ (A : Csr α) (i j : Nat) : (canonNZ A).val i j = A.val i j := by
  unfold Csr.val
  rw [canonNZ_row, canonNZ_rows]
  by_cases hi : i < A.rows
  · simp only [hi, if_true, rowVal_eq_ksum, ksum_canonRow]
  · simp only [hi, if_false]

theorem canonNZ_wf (A : Csr α) (hA : A.wf = true) : (canonNZ A).wf = true := by
  unfold canonNZ eliminateZeros
  apply ofRows_wf
  · simp [sumDuplicates, ofRows]
  · intro l hl e he
    rw [List.mem_map] at hl
    obtain ⟨i, hi, rfl⟩ := hl
    have hi' : i < A.rows := by
      have := List.mem_range.1 hi
      exact this
    rw [sumDuplicates_row, if_pos hi'] at he
    obtain ⟨y, hy, hye⟩ := mem_canon _ e (List.mem_filter.1 he).1
    show e.1 < A.cols
    rw [← hye]
    exact A.wf_colsOK hA i y hy

/-- ... and returns the canonical form: well formed, rows strictly sorted, no stored zeros -/
theorem canonNZ_canonical (A : Csr α) (hA : A.wf = true) : Canonical (canonNZ A) ∧ NoZeros (canonNZ A) := by
  refine ⟨⟨canonNZ_wf A hA, ?_⟩, ?_⟩
  · intro i
    rw [canonNZ_row]
    by_cases hi : i < A.rows
    · simp only [hi, if_true]; exact canonRow_sorted _
    · simp only [hi, if_false]; exact List.Pairwise.nil
  · intro i e he
    rw [canonNZ_row] at he
    by_cases hi : i < A.rows
    · simp only [hi, if_true] at he; exact canonRow_nz _ e he
    · simp only [hi, if_false] at he; cases he

theorem canonNZ_sameMeaning (A : Csr α) : (canonNZ A).SameMeaning A := ⟨rfl, rfl, val_canonNZ A⟩

/-- **the canonical form is a function of the dense meaning**: two stored forms of one matrix (any order inside the
rows, duplicates, explicit zeros) are brought to the SAME arrays -/
theorem canonNZ_unique (A A' : Csr α) (hA : A.wf = true) (hA' : A'.wf = true) (h : A.SameMeaning A') :
    canonNZ A = canonNZ A' := by
  obtain ⟨c1, z1⟩ := canonNZ_canonical A hA
  obtain ⟨c2, z2⟩ := canonNZ_canonical A' hA'
  apply canonical_unique_nz _ _ c1 c2 z1 z2
  refine ⟨h.1, h.2.1, ?_⟩
  intro i j
  rw [val_canonNZ, val_canonNZ, h.2.2]

/-- a canonical matrix without stored zeros is a fixed point of the canonicaliser -/
theorem canonNZ_fixed (A : Csr α) (hA : Canonical A) (hz : NoZeros A) : canonNZ A = A := by
  obtain ⟨c1, z1⟩ := canonNZ_canonical A hA.1
  exact canonical_unique_nz _ _ c1 hA z1 hz (canonNZ_sameMeaning A)

omit [DecidableEq α] in
/-- `sum_duplicates()` alone returns the canonical form with the zeros kept -/
theorem canonSD_canonical (A : Csr α) (hA : A.wf = true) : Canonical (canonSD A) := by
  refine ⟨?_, sumDuplicates_sorted A⟩
  unfold canonSD sumDuplicates
  apply ofRows_wf
  · simp
  · intro l hl e he
    rw [List.mem_map] at hl
    obtain ⟨i, _, rfl⟩ := hl
    obtain ⟨y, hy, hye⟩ := mem_canon _ e he
    rw [← hye]
    exact A.wf_colsOK hA i y hy

end canoniser

end PyamgV.Canon
