import PyamgV.Model.KRelax
import PyamgV.Proofs.GsSweep

/-! PyamgV (C02/C09 glue): the *executable* array model of `gauss_seidel` (`PyamgV.K.gaussSeidel`,
the one compared bit-exactly with the real kernel) refines the function-level model
`gsSweepFn` the energy and linear-iteration theorems are about: reading the result array as a
function gives exactly `gsSweepFn` of the input arrays read as functions, for every list of rows
inside the vector. So `gsSweep_nonexp`, `gsSweep_isLinIter`, `sweepOp_reverse_adj`,
`gsSweep_strict_full` are statements about the validated model. -/
namespace PyamgV

variable {R : Type} [Field R] [LinearOrder R] [IsStrictOrderedRing R] [DecidableEq R]

/-- an array read as a function (zero outside) -/
def fn (x : Array R) : Nat → R := fun i => K.rd x i

/-- row `i` of the CSR structure as the list of (column, value) pairs the proofs use -/
def rowOf (A : K.Csr R) (i : Nat) : Row R :=
  (A.jjs i).map (fun jj => (K.rdN A.aj jj, K.rd A.ax jj))

theorem fn_wr (x : Array R) (i : Nat) (v : R) (hi : i < x.size) :
    fn (K.wr x i v) = Function.update (fn x) i v := by
  funext j
  unfold fn K.rd K.wr
  simp only [Array.getD_eq_getD_getElem?, Array.getElem?_setIfInBounds]
  by_cases h : i = j
  · subst h; simp [hi]
  · simp [h, Function.update_of_ne (Ne.symm h)]

/-- one row of the executable kernel = one row of the proof model -/
theorem gsStep_refines (A : K.Csr R) (b x : Array R) (i : Nat) (hi : i < x.size) :
    fn ((fun (x : Array R) (i : Nat) =>
      let (rsum, diag) := (A.jjs i).foldl (fun (acc : R × R) jj =>
        let j := K.rdN A.aj jj
        if i = j then (acc.1, K.rd A.ax jj) else (acc.1 + K.rd A.ax jj * K.rd x j, acc.2))
        ((0:R), (0:R))
      if diag = 0 then x else K.wr x i ((K.rd b i - rsum) / diag)) x i) =
    gsRowFn i (rowOf A i) (fn b) (fn x) := by
  have hscan : (A.jjs i).foldl (fun (acc : R × R) jj =>
        let j := K.rdN A.aj jj
        if i = j then (acc.1, K.rd A.ax jj) else (acc.1 + K.rd A.ax jj * K.rd x j, acc.2))
        ((0:R), (0:R)) = rowScan i (rowOf A i) (fn x) := by
    unfold rowScan rowOf
    rw [List.foldl_map]
    apply List.foldl_ext
    intro acc jj _
    by_cases h : i = K.rdN A.aj jj
    · simp only [h, if_true]
    · have h' : ¬ K.rdN A.aj jj = i := fun e => h e.symm
      simp only [h, h', if_false]
      rfl
  simp only
  rw [hscan]
  unfold gsRowFn
  rw [show rowScan i (rowOf A i) (fn x) = ((rowScan i (rowOf A i) (fn x)).1,
    (rowScan i (rowOf A i) (fn x)).2) from rfl]
  simp only
  by_cases hd : (rowScan i (rowOf A i) (fn x)).2 = 0
  · rw [if_pos hd, if_pos hd]
  · rw [if_neg hd, if_neg hd, fn_wr _ _ _ hi]
    rfl

/-- **the executable sweep refines `gsSweepFn`** -/
theorem gaussSeidel_refines (A : K.Csr R) (b : Array R) :
    ∀ (rows : List Nat) (x : Array R), (∀ i ∈ rows, i < x.size) →
      (K.gaussSeidel A b rows x).size = x.size ∧
      fn (K.gaussSeidel A b rows x) = gsSweepFn (rowOf A) (fn b) rows (fn x) := by
  intro rows
  induction rows with
  | nil => intro x _; exact ⟨rfl, rfl⟩
  | cons i rows ih =>
    intro x hrows
    have hi : i < x.size := hrows i (by simp)
    unfold K.gaussSeidel gsSweepFn
    rw [List.foldl_cons, List.foldl_cons]
    have hstep := gsStep_refines A b x i hi
    simp only at hstep
    -- the step keeps the size
    have hsz : ((fun (x : Array R) (i : Nat) =>
        let (rsum, diag) := (A.jjs i).foldl (fun (acc : R × R) jj =>
          let j := K.rdN A.aj jj
          if i = j then (acc.1, K.rd A.ax jj) else (acc.1 + K.rd A.ax jj * K.rd x j, acc.2))
          ((0:R), (0:R))
        if diag = 0 then x else K.wr x i ((K.rd b i - rsum) / diag)) x i).size = x.size := by
      simp only
      split
      · rfl
      · simp [K.wr]
    have := ih _ (fun j hj => by rw [hsz]; exact hrows j (by simp [hj]))
    unfold K.gaussSeidel gsSweepFn at this
    refine ⟨this.1.trans hsz, ?_⟩
    rw [this.2, hstep]

#print axioms gsStep_refines
#print axioms gaussSeidel_refines
end PyamgV
