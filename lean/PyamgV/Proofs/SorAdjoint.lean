import PyamgV.Proofs.GsAdjoint
import PyamgV.Proofs.Sor

/-! PyamgV (C03/C05 for SOR): the SOR row update is the linear iteration with operator
`rowQ i (d/ω)` — Gauss–Seidel with the diagonal divided by ω — so an SOR sweep over any row order
is `x + M(b − Ax)` with `M = sweepOp A (diag/ω) order`, and by `sweepOp_reverse_adj` the backward
SOR sweep **with the same ω** is the adjoint of the forward one. With different ω's the two
operators are built from different `diag/ω` and adjointness is lost — defect #4a. -/
namespace PyamgV

variable {K : Type*} [Field K] [LinearOrder K] [IsStrictOrderedRing K] [DecidableEq K]

theorem rowQ_scale (i : Nat) (d ω : K) (r : Nat → K) :
    rowQ i (d / ω) r = ω • rowQ i d r := by
  simp only [rowQ, LinearMap.coe_mk, AddHom.coe_mk, smul_smul]
  congr 1
  by_cases hω : ω = 0
  · subst hω; simp
  · by_cases hd : d = 0
    · subst hd; simp
    · field_simp

theorem sorRow_isLinIter (ω : K) (n : Nat) (rows : Nat → Row K) (i : Nat) (hi : i < n) (d : K)
    (hd : HasDiag i (rows i) d) (hd0 : d ≠ 0) :
    IsLinIter (csrOp n rows) (fun x b => sorRowFn ω i (rows i) b x) (rowQ i (d / ω)) := by
  intro x b
  show sorRowFn ω i (rows i) b x = x + rowQ i (d / ω) (b - csrOp n rows x)
  rw [sorRow_eq, rowQ_scale]
  have h := gsRow_isLinIter n rows i hi d hd hd0 x b
  have h' : gsRowFn i (rows i) b x = x + rowQ i d (b - csrOp n rows x) := h
  rw [h']; simp

/-- the kernel's outer loop over an explicit row order -/
def sorSweepFn (ω : K) (rows : Nat → Row K) (b : Nat → K) (order : List Nat) (x : Nat → K) :
    Nat → K :=
  order.foldl (fun x i => sorRowFn ω i (rows i) b x) x

theorem sorSweep_isLinIter (ω : K) (n : Nat) (rows : Nat → Row K) (diag : Nat → K)
    (hdiag : ∀ i, i < n → HasDiag i (rows i) (diag i) ∧ diag i ≠ 0) :
    ∀ (order : List Nat), (∀ i ∈ order, i < n) →
      IsLinIter (csrOp n rows) (fun x b => sorSweepFn ω rows b order x)
        (sweepOp (csrOp n rows) (fun i => diag i / ω) order) := by
  intro order
  induction order with
  | nil => intro _; simpa [sorSweepFn, sweepOp] using isLinIter_id (csrOp n rows)
  | cons i rest ih =>
    intro h
    have hi := h i (by simp)
    have h1 := sorRow_isLinIter ω n rows i hi (diag i) (hdiag i hi).1 (hdiag i hi).2
    have h2 := ih (fun j hj => h j (by simp [hj]))
    have := h1.comp h2
    simpa [sorSweepFn, sweepOp] using this

/-- **forward/backward SOR with the same ω are an adjoint pair** (A symmetric) -/
theorem sorSweep_reverse_adj (ω : K) (n : Nat) (A : (Nat → K) →ₗ[K] (Nat → K)) (diag : Nat → K)
    (hA : IsAdj (euc K n) (euc K n) A A) (order : List Nat) (h : ∀ i ∈ order, i < n) :
    IsAdj (euc K n) (euc K n) (sweepOp A (fun i => diag i / ω) order)
      (sweepOp A (fun i => diag i / ω) order.reverse) :=
  sweepOp_reverse_adj n A (fun i => diag i / ω) hA order h

/-- **an SOR sweep in any row order, 0 ≤ ω ≤ 2, never increases the energy of the error** -/
theorem sorSweep_nonexp (ω : K) (h0 : 0 ≤ ω) (h2 : ω ≤ 2) (n : Nat) (rows : Nat → Row K)
    (hsym) (hpsd) (diag : Nat → K) (hdiag : ∀ i, i < n → HasDiag i (rows i) (diag i))
    (order : List Nat) (horder : ∀ i ∈ order, i < n) :
    NonExp (energy n rows hsym hpsd) (csrOp n rows) (fun x b => sorSweepFn ω rows b order x) := by
  intro x b xs hb
  have hxs : ∀ j, j < n → csrOp n rows xs j = b j := fun j _ => by rw [hb]
  induction order generalizing x with
  | nil => simp [sorSweepFn]
  | cons i rest ih =>
    have hi : i < n := horder i (by simp)
    have h1 := sorRow_energy n rows hsym hpsd i hi (diag i) (hdiag i hi) ω h0 h2 b x xs hxs
    have h3 := ih (fun j hj => horder j (by simp [hj])) (sorRowFn ω i (rows i) b x)
    simp only [sorSweepFn, List.foldl_cons] at h3 ⊢
    exact le_trans h3 h1

#print axioms sorSweep_nonexp
#print axioms sorSweep_isLinIter
#print axioms sorSweep_reverse_adj
end PyamgV
