import PyamgV.Proofs.ExtC10RefineC
import Mathlib.Algebra.Order.Ring.Rat
import Mathlib.Algebra.Field.Rat

/-! PyamgV (C10, extension E8, part D): the four fit theorems restated for the array-level kernel
model.  `kernelT st a c` is column `(a, c)` of the tentative prolongator read off the kernel's `Ax`
exactly as `fitPy` / `fit_candidates` assemble the BSR matrix; `kernelR st a c' c` is entry
`(c', c)` of block `a` of the kernel's `R`.  `cscAgg` is the aggregate map of the CSC arrays. -/
namespace PyamgV.C10R
open PyamgV PyamgV.C10M

/-- the `Rat` instance the driver executes (`c10_fitk r`) is the field instance of the theorems -/
theorem ratOps_eq : ratOps = fieldOps ratSqrt ratSqrtOk := rfl

variable {K : Type} [Field K] [LinearOrder K] [IsStrictOrderedRing K]

/-- the aggregate of unknown `i`: the first column of `AggOp` that lists node `i / K1` -/
def cscAgg (nFine nCol K1 : Nat) (ap ai : Array Nat) : Fin (nFine * K1) → Option (Fin nCol) := fun i =>
  (List.finRange nCol).find? (fun a =>
    (List.range' (rdN ap a.val) (rdN ap (a.val+1) - rdN ap a.val)).any (fun ii => rdN ai ii == i.val / K1))

theorem cscAgg_spec {nFine nCol : Nat} (K1 : Nat) {ap ai : Array Nat} (hV : ValidAgg nFine nCol ap ai) :
    AggSpec nFine nCol K1 ap ai (cscAgg nFine nCol K1 ap ai) := by
  intro i a
  have hp : ∀ a' : Fin nCol,
      (List.range' (rdN ap a'.val) (rdN ap (a'.val+1) - rdN ap a'.val)).any
        (fun ii => rdN ai ii == i.val / K1) = true ↔
      ∃ ii, rdN ap a'.val ≤ ii ∧ ii < rdN ap (a'.val + 1) ∧ rdN ai ii = i.val / K1 := by
    intro a'
    rw [List.any_eq_true]
    constructor
    · rintro ⟨ii, hm, he⟩
      have := List.mem_range'_1.1 hm
      exact ⟨ii, this.1, by omega, by simpa using he⟩
    · rintro ⟨ii, h1, h2, h3⟩
      exact ⟨ii, List.mem_range'_1.2 ⟨h1, by omega⟩, by simpa using h3⟩
  unfold cscAgg
  constructor
  · intro h
    have h' := List.find?_some h
    exact (hp a).1 h'
  · rintro ⟨ii, h1, h2, h3⟩
    cases hf : (List.finRange nCol).find? (fun a =>
      (List.range' (rdN ap a.val) (rdN ap (a.val+1) - rdN ap a.val)).any
        (fun ii => rdN ai ii == i.val / K1)) with
    | none =>
      have := List.find?_eq_none.1 hf a (List.mem_finRange a)
      exact absurd ((hp a).2 ⟨ii, h1, h2, h3⟩) this
    | some a' =>
      have hf' := List.find?_some hf
      obtain ⟨ii', g1, g2, g3⟩ := (hp a').1 hf'
      have e : ii = ii' := hV.inj ii (seg_lt hV a ii h2) ii' (seg_lt hV a' ii' g2) (by rw [h3, g3])
      subst e
      congr 1
      apply Fin.ext
      rcases Nat.lt_trichotomy a'.val a.val with hlt | heq | hgt
      · have := ap_mono ap nCol hV.mono a.val (a'.val + 1) (by omega) (by omega)
        omega
      · exact heq
      · have := ap_mono ap nCol hV.mono a'.val (a.val + 1) (by omega) (by omega)
        omega

/-- column `(a, c)` of the tentative prolongator assembled from the kernel's `Ax` (as `fitPy` does):
row `i` is stored in the block of node `i / K1` if aggregate `a` lists that node, else it is zero -/
def kernelT (st : FitState K) (nFine nCol K1 K2 : Nat) (ap ai : Array Nat) (a : Fin nCol) (c : Nat) :
    Fin (nFine * K1) → K := fun i =>
  match (List.range' (rdN ap a.val) (rdN ap (a.val+1) - rdN ap a.val)).find?
      (fun ii => rdN ai ii == i.val / K1) with
  | some ii => st.ax.getD (K1 * K2 * ii + (i.val % K1) * K2 + c) 0
  | none => 0

/-- entry `(c', c)` of block `a` of the kernel's `R` (the coarse candidates `B_c[(a, c'), c]`) -/
def kernelR (st : FitState K) (K2 : Nat) (a c' c : Nat) : K := st.r.getD (a * K2 * K2 + K2 * c' + c) 0

section restate
variable (sqrt : K → K) (ok : K → Bool) (tol : K) {nFine nCol : Nat} (K1 K2 : Nat) {ap ai : Array Nat}
  (b : Array K) (hV : ValidAgg nFine nCol ap ai) (agg : Fin (nFine * K1) → Option (Fin nCol))
  (hagg : AggSpec nFine nCol K1 ap ai agg)
include hV hagg

omit hV hagg in
theorem fitAgg_q_mem (a : Fin nCol) (c : Nat) (hc : c < K2) :
    (C10.fitAgg sqrt tol agg (candB nFine K1 K2 b) K2 a).q.getD c 0 ∈
      (C10.fitAgg sqrt tol agg (candB nFine K1 K2 b) K2 a).q := by
  have hl : (C10.fitAgg sqrt tol agg (candB nFine K1 K2 b) K2 a).q.length = K2 := by
    have := (C10.mgs_lengths (C10.dotForm (K := K) (ι := Fin (nFine * K1))) sqrt tol
      ((List.range K2).map (C10.masked agg (candB nFine K1 K2 b) a)) []).2.2
    simpa [C10.fitAgg] using this
  rw [List.getD_eq_getElem?_getD, List.getElem?_eq_getElem (by rw [hl]; exact hc)]
  exact List.getElem_mem _

/-- **refinement, `T`**: the column assembled from the kernel's `Ax` is the column of `C10.fitAgg` -/
theorem kernelT_eq (a : Fin nCol) (c : Nat) (hc : c < K2) :
    kernelT (fitCandidates (fieldOps sqrt ok) nCol K1 K2 ap ai b tol) nFine nCol K1 K2 ap ai a c =
      (C10.fitAgg sqrt tol agg (candB nFine K1 K2 b) K2 a).q.getD c 0 := by
  funext i
  have hK1 : 0 < K1 := pos_of_lt_mul_right _ _ _ i.isLt
  unfold kernelT
  split
  · rename_i ii heq
    have hm := List.mem_range'_1.1 (List.mem_of_find?_eq_some heq)
    have he : rdN ai ii = i.val / K1 := by simpa using List.find?_some heq
    exact fit_refines_q sqrt ok tol K1 K2 b hV agg hagg a ii hm.1 (by omega) (i.val % K1)
      (Nat.mod_lt _ hK1) c hc i (by rw [he]; exact (Nat.div_add_mod' i.val K1).symm)
  · rename_i heq
    have hno := List.find?_eq_none.1 heq
    have hna : agg i ≠ some a := by
      intro h
      obtain ⟨ii, h1, h2, h3⟩ := (hagg i a).1 h
      exact hno ii (List.mem_range'_1.2 ⟨h1, by omega⟩) (by simpa using h3)
    exact (C10.fit_support sqrt tol agg (candB nFine K1 K2 b) K2 a _
      (fitAgg_q_mem sqrt tol K1 K2 b agg a c hc) i hna).symm

/-- `R` entries of the kernel in terms of `C10.fitAgg` -/
theorem kernelR_eq (a : Fin nCol) (c' c : Nat) (hc' : c' < K2) (hc : c < K2) :
    kernelR (fitCandidates (fieldOps sqrt ok) nCol K1 K2 ap ai b tol) K2 a.val c' c =
      if c' < c then ((C10.fitAgg sqrt tol agg (candB nFine K1 K2 b) K2 a).r.getD c ([], 0)).1.getD c' 0
      else if c' = c then ((C10.fitAgg sqrt tol agg (candB nFine K1 K2 b) K2 a).r.getD c ([], 0)).2
      else 0 :=
  fit_refines_r sqrt ok tol K1 K2 b hV agg hagg a c' c hc' hc

/-- **pattern(T) = AggOp ⊗ block for the kernel's `Ax`**: column `(a, c)` vanishes on every unknown
outside aggregate `a` (in particular on unknowns of no aggregate) -/
theorem kernel_support (a : Fin nCol) (c : Nat) (hc : c < K2) (i : Fin (nFine * K1)) (hi : agg i ≠ some a) :
    kernelT (fitCandidates (fieldOps sqrt ok) nCol K1 K2 ap ai b tol) nFine nCol K1 K2 ap ai a c i = 0 := by
  rw [kernelT_eq sqrt ok tol K1 K2 b hV agg hagg a c hc]
  exact C10.fit_support sqrt tol agg (candB nFine K1 K2 b) K2 a _
    (fitAgg_q_mem sqrt tol K1 K2 b agg a c hc) i hi

/-- columns of different aggregates of the kernel's `T` are orthogonal -/
theorem kernel_cross_orthogonal (a a' : Fin nCol) (h : a ≠ a') (c c' : Nat) (hc : c < K2) (hc' : c' < K2) :
    ∑ i, kernelT (fitCandidates (fieldOps sqrt ok) nCol K1 K2 ap ai b tol) nFine nCol K1 K2 ap ai a c i *
      kernelT (fitCandidates (fieldOps sqrt ok) nCol K1 K2 ap ai b tol) nFine nCol K1 K2 ap ai a' c' i = 0 := by
  rw [kernelT_eq sqrt ok tol K1 K2 b hV agg hagg a c hc, kernelT_eq sqrt ok tol K1 K2 b hV agg hagg a' c' hc',
    ← C10.dotForm_apply]
  exact C10.fit_cross_orthogonal sqrt tol agg (candB nFine K1 K2 b) K2 a a' h _
    (fitAgg_q_mem sqrt tol K1 K2 b agg a c hc) _ (fitAgg_q_mem sqrt tol K1 K2 b agg a' c' hc')

omit hV hagg in
theorem ONZ_getD {V : Type} [AddCommGroup V] [Module K V] (e : EForm K V) :
    ∀ (qs : List V), GS.ONZ e qs →
      (∀ i, i < qs.length → e.a (qs.getD i 0) (qs.getD i 0) = 0 ∨ e.a (qs.getD i 0) (qs.getD i 0) = 1) ∧
      (∀ i j, i < j → j < qs.length → e.a (qs.getD i 0) (qs.getD j 0) = 0) := by
  intro qs
  induction qs with
  | nil => intro _; exact ⟨fun i hi => absurd hi (Nat.not_lt_zero _), fun i j _ hj => absurd hj (Nat.not_lt_zero _)⟩
  | cons q qs ih =>
    intro h
    obtain ⟨h1, h2, h3⟩ := h
    obtain ⟨i1, i2⟩ := ih h3
    refine ⟨?_, ?_⟩
    · intro i hi
      cases i with
      | zero => exact h1
      | succ i => exact i1 i (by simpa using hi)
    · intro i j hij hj
      cases j with
      | zero => omega
      | succ j =>
        have hj' : j < qs.length := by simpa using hj
        cases i with
        | zero =>
          apply h2
          rw [List.getD_cons_succ, List.getD_eq_getElem?_getD, List.getElem?_eq_getElem hj']
          exact List.getElem_mem _
        | succ i => exact i2 i j (by omega) hj'

/-- **`TᵀT = I` up to dropped columns, for the kernel's `Ax`**: inside one aggregate the columns are
pairwise orthogonal and each has squared norm `1` (kept) or `0` (dropped) -/
theorem kernel_local (hsq : ∀ x, 0 ≤ x → sqrt x * sqrt x = x) (hsq0 : ∀ x, 0 ≤ sqrt x) (htol : 0 ≤ tol)
    (a : Fin nCol) :
    (∀ c < K2,
      ∑ i, kernelT (fitCandidates (fieldOps sqrt ok) nCol K1 K2 ap ai b tol) nFine nCol K1 K2 ap ai a c i *
        kernelT (fitCandidates (fieldOps sqrt ok) nCol K1 K2 ap ai b tol) nFine nCol K1 K2 ap ai a c i = 0 ∨
      ∑ i, kernelT (fitCandidates (fieldOps sqrt ok) nCol K1 K2 ap ai b tol) nFine nCol K1 K2 ap ai a c i *
        kernelT (fitCandidates (fieldOps sqrt ok) nCol K1 K2 ap ai b tol) nFine nCol K1 K2 ap ai a c i = 1) ∧
    (∀ c < K2, ∀ c' < K2, c ≠ c' →
      ∑ i, kernelT (fitCandidates (fieldOps sqrt ok) nCol K1 K2 ap ai b tol) nFine nCol K1 K2 ap ai a c i *
        kernelT (fitCandidates (fieldOps sqrt ok) nCol K1 K2 ap ai b tol) nFine nCol K1 K2 ap ai a c' i = 0) := by
  obtain ⟨l1, l2, _, _⟩ := C10.fit_local sqrt hsq hsq0 tol htol agg (candB nFine K1 K2 b) K2 a
  obtain ⟨o1, o2⟩ := ONZ_getD _ _ l1
  refine ⟨?_, ?_⟩
  · intro c hc
    rw [kernelT_eq sqrt ok tol K1 K2 b hV agg hagg a c hc, ← C10.dotForm_apply]
    exact o1 c (by rw [l2]; exact hc)
  · intro c hc c' hc' hne
    rw [kernelT_eq sqrt ok tol K1 K2 b hV agg hagg a c hc, kernelT_eq sqrt ok tol K1 K2 b hV agg hagg a c' hc',
      ← C10.dotForm_apply]
    rcases Nat.lt_or_gt_of_ne hne with h | h
    · exact o2 c c' h (by rw [l2]; exact hc')
    · rw [(C10.dotForm (K := K)).symm]
      exact o2 c' c h (by rw [l2]; exact hc)

omit hV hagg [LinearOrder K] [IsStrictOrderedRing K] in
theorem comb_apply {ι : Type} (qs : List (ι → K)) (i : ι) : ∀ (cs : List K),
    GS.comb cs qs i = ∑ k ∈ Finset.range qs.length, cs.getD k 0 * qs.getD k 0 i := by
  induction qs with
  | nil => intro cs; cases cs <;> simp [GS.comb]
  | cons q qs ih =>
    intro cs
    cases cs with
    | nil => simp [GS.comb]
    | cons c cs =>
      simp only [GS.comb, Pi.add_apply, Pi.smul_apply, smul_eq_mul, List.length_cons]
      rw [Finset.sum_range_succ', ih cs]
      simp only [List.getD_cons_succ, List.getD_cons_zero]
      ring

omit hV hagg [LinearOrder K] [IsStrictOrderedRing K] in
/-- column `c` of `T_a·R_a` as the sum over the `K2` coarse unknowns of the aggregate -/
theorem colTR_sum {ι : Type} (o : GS.Out K (ι → K)) (c : Nat) (hc : c < K2) (hl : o.q.length = K2)
    (i : ι) :
    C10.colTR o c i = ∑ c' ∈ Finset.range K2, o.q.getD c' 0 i *
      (if c' < c then (o.r.getD c ([], 0)).1.getD c' 0
       else if c' = c then (o.r.getD c ([], 0)).2 else 0) := by
  have hsub : Finset.range (c + 1) ⊆ Finset.range K2 := Finset.range_subset_range.2 (by omega)
  rw [← Finset.sum_subset hsub (fun x _ hx => by
    have : ¬ x < c + 1 := fun h => hx (Finset.mem_range.2 h)
    rw [if_neg (by omega), if_neg (by omega), mul_zero])]
  rw [Finset.sum_range_succ, if_neg (Nat.lt_irrefl c), if_pos rfl]
  unfold C10.colTR
  simp only [Pi.add_apply, Pi.smul_apply, smul_eq_mul]
  rw [comb_apply, List.length_take, hl, Nat.min_eq_left (Nat.le_of_lt hc), mul_comm (o.q.getD c 0 i)]
  congr 1
  apply Finset.sum_congr rfl
  intro k hk
  have hk' := Finset.mem_range.1 hk
  rw [if_pos hk', mul_comm]
  congr 2
  simp only [List.getD_eq_getElem?_getD, List.getElem?_take, if_pos hk']

/-- **`T · B_c = B` on every aggregated unknown, for the kernel's `Ax` and `R`** (up to the
remainders the drop rule discarded): the product of the assembled prolongator with the kernel's `R`,
summed over *all* coarse unknowns `(a', c')`, gives `B[i, c] − drop`, where `drop` is the discarded
remainder of candidate `c` in the aggregate of `i` (zero unless the candidate was dropped, and then
of norm at most `tol·‖candidate‖`, `kernel_drop_bound`) -/
theorem kernel_reproduces (hsq : ∀ x, 0 ≤ x → sqrt x * sqrt x = x) (hsq0 : ∀ x, 0 ≤ sqrt x) (htol : 0 ≤ tol)
    (a : Fin nCol) (i : Fin (nFine * K1)) (hi : agg i = some a) (c : Nat) (hc : c < K2) :
    ∑ a' : Fin nCol, ∑ c' ∈ Finset.range K2,
      kernelT (fitCandidates (fieldOps sqrt ok) nCol K1 K2 ap ai b tol) nFine nCol K1 K2 ap ai a' c' i *
        kernelR (fitCandidates (fieldOps sqrt ok) nCol K1 K2 ap ai b tol) K2 a'.val c' c =
      candB nFine K1 K2 b i c - (C10.fitAgg sqrt tol agg (candB nFine K1 K2 b) K2 a).drop.getD c 0 i := by
  rw [← C10.fit_reproduces sqrt hsq hsq0 tol htol agg (candB nFine K1 K2 b) K2 a i hi c hc]
  apply Finset.sum_congr rfl
  intro a' _
  have hl := (C10.fit_local sqrt hsq hsq0 tol htol agg (candB nFine K1 K2 b) K2 a').2.1
  rw [colTR_sum K2 _ c hc hl i]
  apply Finset.sum_congr rfl
  intro c' hc'
  have hc'' := Finset.mem_range.1 hc'
  rw [kernelT_eq sqrt ok tol K1 K2 b hV agg hagg a' c' hc'', kernelR_eq sqrt ok tol K1 K2 b hV agg hagg a' c' c hc'' hc]

omit hV hagg in
/-- what the drop rule discards: nothing, or a remainder of norm at most `tol·‖candidate‖` -/
theorem kernel_drop_bound (hsq : ∀ x, 0 ≤ x → sqrt x * sqrt x = x) (hsq0 : ∀ x, 0 ≤ sqrt x) (htol : 0 ≤ tol)
    (a : Fin nCol) :
    ∀ d ∈ (C10.fitAgg sqrt tol agg (candB nFine K1 K2 b) K2 a).drop, d = 0 ∨ ∃ c < K2,
      sqrt ((C10.dotForm (K := K)).a d d) ≤ tol * sqrt ((C10.dotForm (K := K)).a
        (C10.masked agg (candB nFine K1 K2 b) a c) (C10.masked agg (candB nFine K1 K2 b) a c)) :=
  (C10.fit_local sqrt hsq hsq0 tol htol agg (candB nFine K1 K2 b) K2 a).2.2.2

end restate
end PyamgV.C10R
