import PyamgV.Proofs.C07GmresInv
import Mathlib.Algebra.BigOperators.Intervals

/-! PyamgV (C07, GMRES): `backSub` solves the upper triangular system stored by columns, and
`combO` is `x₀ + Σ y_j v_j`. -/
namespace PyamgV.C07
open Finset

variable {K : Type} [Field K]

theorem foldl_range_sum (f : Nat → K) : ∀ N, (List.range N).foldl (fun t d => t + f d) 0 = ∑ d ∈ range N, f d
  | 0 => by simp
  | N+1 => by rw [List.range_succ, List.foldl_append, foldl_range_sum f N, Finset.sum_range_succ]; rfl

/-- entry `(i, j)` of the triangular matrix stored by columns -/
def Rent (rcols : List (List K)) (i j : Nat) : K := (rcols.getD j []).getD i 0

theorem backSub_suffix (rcols : List (List K)) (g : List K) : ∀ (i : Nat) (acc : List K),
    ∃ pre : List K, pre.length = i ∧ backSub rcols g i acc = pre ++ acc
  | 0, acc => ⟨[], rfl, rfl⟩
  | i+1, acc => by
    simp only [backSub]
    obtain ⟨pre, hl, he⟩ := backSub_suffix rcols g i
      (((g.getD i 0 - (List.range (rcols.length - (i + 1))).foldl
        (fun t d => t + (rcols.getD (i + 1 + d) []).getD i 0 * acc.getD d 0) 0) /
          (rcols.getD i []).getD i 0) :: acc)
    exact ⟨pre ++ [(g.getD i 0 - (List.range (rcols.length - (i + 1))).foldl
        (fun t d => t + (rcols.getD (i + 1 + d) []).getD i 0 * acc.getD d 0) 0) /
          (rcols.getD i []).getD i 0], by simp [hl], by rw [he]; simp⟩

theorem F_pre_append (pre acc : List K) (d : Nat) : F (pre ++ acc) (pre.length + d) = F acc d := by
  simp [F, List.getD_eq_getElem?_getD, List.getElem?_append]

/-- every row handled by the call is solved: `g_r = Σ_{d < m-r} R_{r,r+d} y_{r+d}` -/
theorem backSub_rows (rcols : List (List K)) (g : List K)
    (hdiag : ∀ i, i < rcols.length → Rent rcols i i ≠ 0) :
    ∀ (i : Nat) (acc : List K), i ≤ rcols.length → acc.length = rcols.length - i →
      ∀ r, r < i → F g r = ∑ d ∈ range (rcols.length - r), Rent rcols r (r + d) * F (backSub rcols g i acc) (r + d)
  | 0, _, _, _ => by intro r hr; omega
  | i+1, acc, hi, hacc => by
    intro r hr
    simp only [backSub]
    set s := (List.range (rcols.length - (i + 1))).foldl
      (fun t d => t + (rcols.getD (i + 1 + d) []).getD i 0 * acc.getD d 0) 0 with hs
    set yi := (g.getD i 0 - s) / (rcols.getD i []).getD i 0 with hyi
    by_cases hri : r < i
    · exact backSub_rows rcols g hdiag i (yi :: acc) (by omega) (by simp [hacc]; omega) r hri
    · have : r = i := by omega
      subst this
      obtain ⟨pre, hl, he⟩ := backSub_suffix rcols g r (yi :: acc)
      rw [he]
      have hm : rcols.length - r = (rcols.length - (r + 1)) + 1 := by omega
      rw [hm, Finset.sum_range_succ']
      have h0 : F (pre ++ yi :: acc) (r + 0) = yi := by
        have := F_pre_append pre (yi :: acc) 0
        rw [hl] at this; rw [this]; simp [F]
      have hd : ∀ d, F (pre ++ yi :: acc) (r + (d + 1)) = F acc d := by
        intro d
        have := F_pre_append pre (yi :: acc) (d + 1)
        rw [hl] at this; rw [this]; simp [F]
      rw [h0]
      simp only [hd]
      have hsum : s = ∑ d ∈ range (rcols.length - (r + 1)), Rent rcols r (r + (d + 1)) * F acc d := by
        rw [hs, foldl_range_sum]
        refine Finset.sum_congr rfl (fun d _ => ?_)
        simp only [Rent, F]
        congr 2; congr 1; omega
      rw [← hsum, hyi]
      have hne : (rcols.getD r []).getD r 0 ≠ 0 := hdiag r (by omega)
      simp only [Rent, Nat.add_zero, F]
      field_simp
      ring

variable [LinearOrder K] [IsStrictOrderedRing K] {V : Type} [AddCommGroup V] [Module K V]

theorem combO_eq (A AH M : V →ₗ[K] V) (e : EForm K V) : ∀ (y : List K) (vs : List V) (x : V),
    y.length ≤ vs.length →
    combO (Ops.ofModule A AH M e) x y vs = x + ∑ j ∈ range y.length, F y j • vs.getD j 0
  | [], vs, x, _ => by cases vs <;> simp [combO]
  | c :: cs, [], x, h => by simp at h
  | c :: cs, v :: vs, x, h => by
    have ih := combO_eq A AH M e cs vs (x + c • v) (by simpa using h)
    simp only [combO, List.length_cons]
    have e1 : (Ops.ofModule A AH M e).add x ((Ops.ofModule A AH M e).smul c v) = x + c • v := rfl
    rw [e1, ih, Finset.sum_range_succ']
    simp only [F, List.getD_cons_succ, List.getD_cons_zero]
    abel

end PyamgV.C07
