import PyamgV.Proofs.RsBucket2

/-! PyamgV (C13/C17): popping the top position, and the inner loops, preserve the bucket
invariant together with "visited positions hold decided nodes". -/
namespace PyamgV.RS

/-- remove the node at the last unvisited position from its interval -/
def popTop (s : St) (top : Nat) : St :=
  let i := rdN s.i2n top
  let li := rdN s.lam i
  { s with icnt := wrN s.icnt li (rdN s.icnt li - 1) }

theorem popTop_inv (n L top : Nat) (s : St) (h : BInv n L (top+1) s) : BInv n L top (popTop s top) := by
  unfold popTop
  simp only
  have htop := h.top
  have hb := h.blk top (by omega)
  have hlamAt : lamAt s top = rdN s.lam (rdN s.i2n top) := rfl
  rw [hlamAt] at hb
  generalize hli : rdN s.lam (rdN s.i2n top) = li at hb
  have hliL : li < L := by rw [← hli]; exact h.lamL _ (h.p1 top (by omega)).1
  -- top is the last position of its block
  have hlast : rdN s.iptr li + rdN s.icnt li = top + 1 := by
    have := h.blk' li hliL (rdN s.iptr li + rdN s.icnt li - 1) (by omega) (by omega)
    omega
  have hicnt' : ∀ v, rdN (wrN s.icnt li (rdN s.icnt li - 1)) v =
      if v = li then rdN s.icnt li - 1 else rdN s.icnt v := by
    intro v; rw [rdN_wrN, h.szc]
    by_cases hv : li = v
    · subst hv; simp [hliL]
    · have : v ≠ li := fun e => hv e.symm
      rw [if_neg (fun hh => hv hh.1), if_neg this]
  refine ⟨h.szl, h.szi, h.szn, h.szp, by simp [h.szc], by omega, h.p1, h.p2, h.lamL, ?_, ?_, ?_⟩
  · intro p hp
    have ob := h.blk p (by omega)
    show rdN s.iptr (lamAt s p) ≤ p ∧ p < rdN s.iptr (lamAt s p) + rdN (wrN s.icnt li (rdN s.icnt li - 1)) (lamAt s p)
    have hlap : lamAt { s with icnt := wrN s.icnt li (rdN s.icnt li - 1) } p = lamAt s p := rfl
    generalize lamAt s p = v at ob ⊢
    rw [hicnt' v]
    by_cases hv : v = li
    · rw [if_pos hv]; subst hv; omega
    · rw [if_neg hv]; exact ob
  · intro v hv p hp1 hp2
    have hp2' : p < rdN s.iptr v + rdN (wrN s.icnt li (rdN s.icnt li - 1)) v := hp2
    rw [hicnt' v] at hp2'
    by_cases hvl : v = li
    · rw [if_pos hvl] at hp2'
      subst hvl
      have := h.blk' v hv p hp1 (by omega)
      exact ⟨by omega, this.2⟩
    · rw [if_neg hvl] at hp2'
      have := h.blk' v hv p hp1 hp2'
      refine ⟨?_, this.2⟩
      by_cases hpt : p = top
      · exfalso; rw [hpt] at this
        have e : lamAt s top = li := hli
        rw [e] at this; exact hvl this.2.symm
      · omega
  · intro p q hpq hq; exact h.sorted p q hpq (by omega)

/-- visited positions hold decided nodes -/
def VInv (n top1 : Nat) (s : St) : Prop :=
  ∀ p, top1 ≤ p → p < n → rdI s.sp (rdN s.i2n p) ≠ U

/-- `incr`/`decr` only permute unvisited positions -/
theorem incr_BV (n L top1 : Nat) (s : St) (k : Nat) (hB : BInv n L top1 s) (hV : VInv n top1 s)
    (hk : k < n) (hnL : n + 1 ≤ L) (hspn : s.sp.size = n) :
    BInv n L top1 (incr n s k) ∧ VInv n top1 (incr n s k) ∧ (incr n s k).sp = s.sp := by
  rw [incr_eq]
  by_cases hU : rdI s.sp k ≠ U
  · rw [if_pos hU]; exact ⟨hB, hV, rfl⟩
  · rw [if_neg hU]
    by_cases hg : rdN s.lam k ≥ n - 1
    · rw [if_pos hg]; exact ⟨hB, hV, rfl⟩
    · rw [if_neg hg]
      have hUe : rdI s.sp k = U := by simpa using hU
      -- a U node sits at an unvisited position
      have hpos : rdN s.n2i k < top1 := by
        by_cases hlt : rdN s.n2i k < top1
        · exact hlt
        · exfalso
          have := hV (rdN s.n2i k) (by omega) (hB.p2 k hk).1
          rw [(hB.p2 k hk).2] at this; exact this hUe
      have hinv := incrCore_inv n L top1 s k hB hk hpos (by omega)
      refine ⟨hinv, ?_, rfl⟩
      -- visited positions are untouched by the swap
      intro p hp1 hp2
      have hb_old := hB.blk (rdN s.n2i k) hpos
      have hla : lamAt s (rdN s.n2i k) = rdN s.lam k := by unfold lamAt; rw [(hB.p2 k hk).2]
      rw [hla] at hb_old
      have hnewlt := (hB.blk' (rdN s.lam k) (hB.lamL k hk)
        (rdN s.iptr (rdN s.lam k) + rdN s.icnt (rdN s.lam k) - 1) (by omega) (by omega)).1
      have : rdN (incrCore s k).i2n p = rdN s.i2n p := by
        show rdN (wrN (wrN s.i2n _ _) _ _) p = _
        rw [rdN_wrN, if_neg (by omega), rdN_wrN, if_neg (by omega)]
      show rdI (incrCore s k).sp (rdN (incrCore s k).i2n p) ≠ U
      rw [this]; exact hV p hp1 hp2

theorem decr_BV (n L top1 : Nat) (s : St) (k : Nat) (hB : BInv n L top1 s) (hV : VInv n top1 s)
    (hk : k < n) :
    BInv n L top1 (decr s k) ∧ VInv n top1 (decr s k) ∧ (decr s k).sp = s.sp := by
  rw [decr_eq]
  by_cases hU : rdI s.sp k ≠ U
  · rw [if_pos hU]; exact ⟨hB, hV, rfl⟩
  · rw [if_neg hU]
    by_cases hg : rdN s.lam k = 0
    · rw [if_pos hg]; exact ⟨hB, hV, rfl⟩
    · rw [if_neg hg]
      have hUe : rdI s.sp k = U := by simpa using hU
      have hpos : rdN s.n2i k < top1 := by
        by_cases hlt : rdN s.n2i k < top1
        · exact hlt
        · exfalso
          have := hV (rdN s.n2i k) (by omega) (hB.p2 k hk).1
          rw [(hB.p2 k hk).2] at this; exact this hUe
      have hinv := decrCore_inv n L top1 s k hB hk hpos (by omega)
      refine ⟨hinv, ?_, rfl⟩
      intro p hp1 hp2
      have hb_old := hB.blk (rdN s.n2i k) hpos
      have hla : lamAt s (rdN s.n2i k) = rdN s.lam k := by unfold lamAt; rw [(hB.p2 k hk).2]
      rw [hla] at hb_old
      have hnewlt := (hB.blk' (rdN s.lam k) (hB.lamL k hk) (rdN s.iptr (rdN s.lam k)) (Nat.le_refl _) (by omega)).1
      have : rdN (decrCore s k).i2n p = rdN s.i2n p := by
        show rdN (wrN (wrN s.i2n _ _) _ _) p = _
        rw [rdN_wrN, if_neg (by omega), rdN_wrN, if_neg (by omega)]
      show rdI (decrCore s k).sp (rdN (decrCore s k).i2n p) ≠ U
      rw [this]; exact hV p hp1 hp2

#print axioms popTop_inv
#print axioms incr_BV
#print axioms decr_BV
end PyamgV.RS
