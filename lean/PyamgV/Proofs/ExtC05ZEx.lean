import PyamgV.Proofs.ExtC05ZSpd
import PyamgV.Proofs.ExtC05ZY
import PyamgV.Proofs.ExtC05BridgeEx

/-! PyamgV (C05, extension E47): non-vacuity of `flag_denseM_spd_checked` -- on the two-level 3-point Poisson
hierarchy of `Proofs/ExtC05RefineEx.lean` (over `ℚ`, `ofRat = id`, exactly as the driver runs it) the Boolean
`c05SpdCheck` evaluates to `true` (kernel evaluation) for forward / backward Gauss–Seidel and for damped Jacobi with
`ω = 1` (the certificate of `2 D − A` passes), so the executed V- and W-cycle matrices are symmetric positive definite with
no hypothesis left; with `ω = 2` (Jacobi) the checker says `false`. -/
namespace PyamgV.C05ZEx
open PyamgV PyamgV.C05 PyamgV.C02Ex PyamgV.C05Ex PyamgV.C05Z Finset

theorem spd5 : c05SpdCheck posR id Ac3 [L5] = true := by decide +kernel

/-- Gauss–Seidel forward / backward: symmetric positive definite `denseM`, nothing left to assume -/
theorem example_denseM_spd (c : Cyc) (M : Mat ℚ) (h : denseM id Ac3 c [L5] = some M) :
    M.size = 3 ∧ (∀ i j, i < 3 → j < 3 → mget M i j = mget M j i) ∧
    ∀ x : Nat → ℚ, (∃ j, j < 3 ∧ x j ≠ 0) →
      0 < ∑ i ∈ range 3, ∑ j ∈ range 3, x i * mget M i j * x j :=
  flag_denseM_spd_checked_rat pre post Ac3 [L5] flag5 check5 spd5 c M h

def preJ (ω : Rat) : List Cfg := [⟨some "jacobi", [("omega", .num ω), ("withrho", .num 0)]⟩]
def L5J (ω : Rat) : Lvl ℚ := ⟨A3, P3, R3, [0, 2], .jac ω 1, .jac ω 1⟩

theorem flagJ : flag (preJ 1) (preJ 1) [L5J 1].length = some true := by decide
theorem checkJ : c05Check id (preJ 1) (preJ 1) Ac3 [L5J 1] = true := by decide +kernel
/-- the bound `A < 2 D` of damped Jacobi with `ω = 1` is certified on the 3-point Poisson matrix … -/
theorem jacB1 : jacB posR 1 A3 = true := by decide +kernel
theorem spdJ : c05SpdCheck posR id Ac3 [L5J 1] = true := by decide +kernel

/-- … and the executed cycle with damped Jacobi before and after is symmetric positive definite -/
theorem example_denseM_spd_jacobi (c : Cyc) (M : Mat ℚ) (h : denseM id Ac3 c [L5J 1] = some M) :
    M.size = 3 ∧ (∀ i j, i < 3 → j < 3 → mget M i j = mget M j i) ∧
    ∀ x : Nat → ℚ, (∃ j, j < 3 ∧ x j ≠ 0) →
      0 < ∑ i ∈ range 3, ∑ j ∈ range 3, x i * mget M i j * x j :=
  flag_denseM_spd_checked_rat (preJ 1) (preJ 1) Ac3 [L5J 1] flagJ checkJ spdJ c M h

/-- the checker does reject: `ω = 2` violates `ω A < 2 D`; a hierarchy whose coarse matrix is not the Galerkin product -/
theorem spd_rejects : c05SpdCheck posR id Ac3 [L5J 2] = false ∧ jacB posR 2 A3 = false ∧
    c05SpdCheck posR id A3 [L5] = false := by decide +kernel

/-- cf / fc Jacobi with `ω = 1` pass the non-expansiveness test on the 3-point Poisson matrix; they are strict exactly when
every iteration count is at least one -/
theorem cf_nonexp_example : nonExpB posR id A3 (.cfjac true 1 1 1 1) = true ∧ nonExpB posR id A3 (.cfjac false 1 2 1 0) = true ∧
    strictB posR id A3 (.cfjac true 1 1 1 1) = true ∧ strictB posR id A3 (.cfjac true 1 1 1 0) = false := by decide +kernel

def preCF : List Cfg := [⟨some "cf_jacobi", []⟩]
def postCF : List Cfg := [⟨some "fc_jacobi", []⟩]
def L5CF : Lvl ℚ := ⟨A3, P3, R3, [0, 2], .cfjac true 1 1 1 1, .cfjac false 1 1 1 1⟩

theorem flagCF : flag preCF postCF [L5CF].length = some true := by decide
theorem checkCF : c05Check id preCF postCF Ac3 [L5CF] = true := by decide +kernel
theorem spdCF : c05SpdCheck posR id Ac3 [L5CF] = true := by decide +kernel

/-- the executed cycle with `cf_jacobi` before and `fc_jacobi` after is symmetric positive definite -/
theorem example_denseM_spd_cf (c : Cyc) (M : Mat ℚ) (h : denseM id Ac3 c [L5CF] = some M) :
    M.size = 3 ∧ (∀ i j, i < 3 → j < 3 → mget M i j = mget M j i) ∧
    ∀ x : Nat → ℚ, (∃ j, j < 3 ∧ x j ≠ 0) →
      0 < ∑ i ∈ range 3, ∑ j ∈ range 3, x i * mget M i j * x j :=
  flag_denseM_spd_checked_rat preCF postCF Ac3 [L5CF] flagCF checkCF spdCF c M h

/-- the same hierarchy as a hierarchy of the extended model -/
def L5Y : C05Y.LvlY ℚ := ⟨A3, P3, R3, [0, 2], .base (.gs 1 .forward 1), .base (.gs 1 .backward 1)⟩

theorem base5 : toBaseH [L5Y] = some [L5] := rfl

/-- the executed extended model on it: `denseMY` symmetric positive definite, nothing left to assume -/
theorem example_denseMY_spd (c : Cyc) (M : Mat ℚ) (h : C05Y.denseMY id id Ac3 c [L5Y] = some M) :
    M.size = 3 ∧ (∀ i j, i < 3 → j < 3 → mget M i j = mget M j i) ∧
    ∀ x : Nat → ℚ, (∃ j, j < 3 ∧ x j ≠ 0) →
      0 < ∑ i ∈ range 3, ∑ j ∈ range 3, x i * mget M i j * x j :=
  flag_denseMY_spd_checked_rat pre post Ac3 [L5Y] [L5] base5 flag5 check5 spd5 c M h

#print axioms spd5
#print axioms example_denseMY_spd
#print axioms example_denseM_spd
#print axioms example_denseM_spd_jacobi
#print axioms spd_rejects
#print axioms example_denseM_spd_cf
end PyamgV.C05ZEx
