/-! PyamgV (C15/C16): the coarse-solver object caches a factorisation on first use.
State machine `call : Cache → (A, b) → Cache × x`; reuse theorem. Core only. -/
namespace PyamgV.Cache

variable {Mat Vec Fact : Type}

/-- `GenericSolver.__call__` for the direct solvers: factor on first use, then reuse -/
def call (factor : Mat → Fact) (apply : Fact → Vec → Vec) (c : Option Fact) (A : Mat) (b : Vec) :
    Option Fact × Vec :=
  match c with
  | none => let f := factor A; (some f, apply f b)
  | some f => (some f, apply f b)

/-- run a whole history of calls, returning the final cache and all results -/
def run (factor : Mat → Fact) (apply : Fact → Vec → Vec) :
    Option Fact → List (Mat × Vec) → Option Fact × List Vec
  | c, [] => (c, [])
  | c, (A, b) :: rest =>
    let (c', x) := call factor apply c A b
    let (c'', xs) := run factor apply c' rest
    (c'', x :: xs)

/-- **Reuse**: if every call of a history passes the same matrix `A`, each result is the one a
fresh solver would give — `apply (factor A) b` — whatever was solved before. -/
theorem run_same_matrix (factor : Mat → Fact) (apply : Fact → Vec → Vec) (A : Mat) :
    ∀ (hist : List (Mat × Vec)) (c : Option Fact), (c = none ∨ c = some (factor A)) →
      (∀ e ∈ hist, e.1 = A) →
      (run factor apply c hist).2 = hist.map (fun e => apply (factor A) e.2) ∧
      ((run factor apply c hist).1 = none ∨ (run factor apply c hist).1 = some (factor A)) := by
  intro hist
  induction hist with
  | nil => intro c hc _; exact ⟨rfl, hc⟩
  | cons e rest ih =>
    intro c hc hA
    obtain ⟨A', b⟩ := e
    have hA' : A' = A := hA (A', b) (by simp)
    subst hA'
    have hrest : ∀ e ∈ rest, e.1 = A' := fun e he => hA e (by simp [he])
    rcases hc with rfl | rfl
    · have := ih (some (factor A')) (Or.inr rfl) hrest
      simp only [run, call, List.map_cons]
      exact ⟨by rw [this.1], this.2⟩
    · have := ih (some (factor A')) (Or.inr rfl) hrest
      simp only [run, call, List.map_cons]
      exact ⟨by rw [this.1], this.2⟩

/-- the history-independence corollary used by C15: the answer to the last call does not depend
on the calls before it -/
theorem last_independent (factor : Mat → Fact) (apply : Fact → Vec → Vec) (A : Mat)
    (h1 h2 : List (Mat × Vec)) (b : Vec) (hh1 : ∀ e ∈ h1, e.1 = A) (hh2 : ∀ e ∈ h2, e.1 = A) :
    ((run factor apply none (h1 ++ [(A, b)])).2).getLast? =
    ((run factor apply none (h2 ++ [(A, b)])).2).getLast? := by
  have e1 := (run_same_matrix factor apply A (h1 ++ [(A, b)]) none (Or.inl rfl)
    (by intro e he; rcases List.mem_append.1 he with h | h; exact hh1 e h; simp at h; rw [h])).1
  have e2 := (run_same_matrix factor apply A (h2 ++ [(A, b)]) none (Or.inl rfl)
    (by intro e he; rcases List.mem_append.1 he with h | h; exact hh2 e h; simp at h; rw [h])).1
  rw [e1, e2]; simp

/-- what the cache does NOT protect against (documented, outside the property): a different
matrix after the first call is answered with the stale factorisation -/
example : (run (fun (a : Nat) => a) (fun f (b : Nat) => f + b) none [(1, 10), (2, 10)]).2 = [11, 11] := rfl

#print axioms last_independent
end PyamgV.Cache
