import PyamgV.Proofs.ExtC16Complex
import PyamgV.Model.C05Cycle

/-! PyamgV (C05, extension E47, complex data): **an exact, proved-sound certificate that the executed complex model matrix is
Hermitian positive definite.**

For Gaussian-rational hierarchies the definiteness theorems (ordered fields) do not apply.  What the driver can still decide
exactly is whether the matrix `denseM CRat.ofRat …` it computed is Hermitian positive definite: `isHPD CRat.conj posC M n` of
`Model/C16Coarse.lean` (elimination without pivoting, every pivot real and positive), whose soundness is
`C16X.isHPD_sound_crat`.  Here it is restated for the matrices of the cycle model (`C05.Mat = C02.Dense`, `mget = rdD`). -/
namespace PyamgV.C05Z
open PyamgV PyamgV.C05 PyamgV.C16 PyamgV.C16X Matrix

/-- the matrix of the C16 development read off a matrix of the cycle model is `mget` -/
theorem toMat_mget (M : Mat CRat) (n : Nat) (i j : Fin n) : toMat M n i j = mget M i.1 j.1 := rfl

/-- **`isHPD CRat.conj posC M n = true` ⇒ `M` (first `n` rows and columns, read by `mget`) is Hermitian and
`Re (xᴴ M x) > 0` for every `x ≠ 0`** -/
theorem hpd_certificate_complex (M : Mat CRat) (n : Nat) (h : isHPD CRat.conj Drv.C16.posC M n = true) :
    (∀ i j : Fin n, star (mget M j.1 i.1) = mget M i.1 j.1) ∧
    ∀ x : Fin n → CRat, x ≠ 0 → 0 < (∑ i, star (x i) * ∑ j, mget M i.1 j.1 * x j).re := by
  obtain ⟨h1, h2⟩ := isHPD_sound_crat M n h
  refine ⟨?_, ?_⟩
  · intro i j
    have := congrFun (congrFun h1 i) j
    rwa [conjTranspose_apply] at this
  · intro x hx
    exact h2 x hx

#print axioms hpd_certificate_complex
end PyamgV.C05Z
