import PyamgV.Model.CRat
import Mathlib.Tactic.Ring
import Mathlib.Algebra.Order.Field.Rat
/-! PyamgV (C06): the Gaussian rationals `CRat` of the models form a commutative ring *with the
operations the models use* (the instances of `Model/CRat.lean`, not re-defined ones), so the
solver theorems proved over an arbitrary `CommRing` apply to the complex runs of the driver. -/
namespace PyamgV.CRat

theorem ext' {a b : CRat} (h1 : a.re = b.re) (h2 : a.im = b.im) : a = b := by
  cases a; cases b; simp_all

@[simp] theorem add_re (a b : CRat) : (a + b).re = a.re + b.re := rfl
@[simp] theorem add_im (a b : CRat) : (a + b).im = a.im + b.im := rfl
@[simp] theorem sub_re (a b : CRat) : (a - b).re = a.re - b.re := rfl
@[simp] theorem sub_im (a b : CRat) : (a - b).im = a.im - b.im := rfl
@[simp] theorem neg_re (a : CRat) : (-a).re = -a.re := rfl
@[simp] theorem neg_im (a : CRat) : (-a).im = -a.im := rfl
@[simp] theorem mul_re (a b : CRat) : (a * b).re = a.re * b.re - a.im * b.im := rfl
@[simp] theorem mul_im (a b : CRat) : (a * b).im = a.re * b.im + a.im * b.re := rfl
@[simp] theorem zero_re : (0 : CRat).re = 0 := rfl
@[simp] theorem zero_im : (0 : CRat).im = 0 := rfl
@[simp] theorem one_re : (1 : CRat).re = 1 := rfl
@[simp] theorem one_im : (1 : CRat).im = 0 := rfl

instance : CommRing CRat where
  add := (· + ·)
  zero := 0
  neg := Neg.neg
  sub := (· - ·)
  mul := (· * ·)
  one := 1
  add_assoc a b c := by apply ext' <;> simp <;> ring
  zero_add a := by apply ext' <;> simp
  add_zero a := by apply ext' <;> simp
  add_comm a b := by apply ext' <;> simp <;> ring
  neg_add_cancel a := by apply ext' <;> simp
  sub_eq_add_neg a b := by apply ext' <;> simp <;> ring
  mul_assoc a b c := by apply ext' <;> simp <;> ring
  one_mul a := by apply ext' <;> simp
  mul_one a := by apply ext' <;> simp
  left_distrib a b c := by apply ext' <;> simp <;> ring
  right_distrib a b c := by apply ext' <;> simp <;> ring
  mul_comm a b := by apply ext' <;> simp <;> ring
  zero_mul a := by apply ext' <;> simp
  mul_zero a := by apply ext' <;> simp
  nsmul := nsmulRec
  zsmul := zsmulRec

end PyamgV.CRat
