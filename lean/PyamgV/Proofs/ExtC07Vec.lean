import PyamgV.Proofs.ExtC07Hom
import PyamgV.Proofs.ExtC07Kry
import PyamgV.Proofs.ExtC07Restart
import PyamgV.Proofs.C07Vec

/-! PyamgV (C07, extension E11): **the instance the driver executes**.  `toFn : Vector K n → (Fin n → K)` commutes
with every operation of `vecOps` / `hopsVec` (`opsHom_vec`, `hopsHom_vec`: coordinate access, unit vectors and
"zero the first `i` entries" are `get`/`basis`/`tail` of `HOps.ofModule` for the coordinate family `stdE`), so by
`Proofs/ExtC07Hom.lean` the GMRES models run on `Vector K n` are carried onto the models over the module `Fin n → K`
with the Euclidean form, and the theorems hold for the very definitions the correspondence run executes (over an
ordered field with an exact square root instead of binary64):
`gmres_mgs_vec_optimal_krylov`, `gmres_restart_vec_optimal`, `fgmres_vec_optimal`, `gmres_hh_vec_optimal_krylov`. -/
namespace PyamgV.C07
open Finset

variable {K : Type} [Field K] [LinearOrder K] [IsStrictOrderedRing K] {n : Nat}

/-- the coordinate vectors of `Kⁿ` -/
def stdE (n : Nat) : Nat → (Fin n → K) := fun i j => if j.val = i then 1 else 0

/-- the `i`-th coordinate as an inner product -/
theorem dot_stdE (i : Nat) (v : Fin n → K) :
    (dotForm K n).a (stdE n i) v = if h : i < n then v ⟨i, h⟩ else 0 := by
  rw [dotForm_a]
  by_cases h : i < n
  · rw [dif_pos h, Finset.sum_eq_single ⟨i, h⟩]
    · simp [stdE]
    · intro j _ hj
      have : ¬ j.val = i := fun hji => hj (Fin.ext hji)
      simp [stdE, this]
    · intro hh; exact absurd (Finset.mem_univ _) hh
  · rw [dif_neg h]
    apply Finset.sum_eq_zero
    intro j _
    have : ¬ j.val = i := by have := j.2; omega
    simp [stdE, this]

theorem stdE_ortho : OrthoFam (dotForm K n) (stdE (K := K) n) n := by
  intro i j hi hj
  rw [dot_stdE, dif_pos hi]
  simp only [stdE]

variable (A M : Vector (Vector K n) n)

theorem opsHom_vec : OpsHom toFn (vecOps (fun (a : K) => a) A M) (modOps A M) :=
  ⟨hom_add A M, hom_sub A M, hom_smul A M, hom_dot A M, hom_A A M, hom_M A M⟩

/-- the module-level operations `hopsVec` is carried onto -/
def modHOps : HOps K (Fin n → K) :=
  HOps.ofModule (linOf A) (linOf (vctrans (fun a => a) A)) (linOf M) (dotForm K n) (stdE n)

theorem hopsHom_vec : HOpsHom toFn (hopsVec (fun (a : K) => a) A M) (modHOps A M) := by
  refine ⟨opsHom_vec A M, ?_, ?_, ?_⟩
  · intro v i
    show v[i]?.getD 0 = (dotForm K n).a (stdE n i) (toFn v)
    rw [dot_stdE]
    by_cases h : i < n
    · rw [dif_pos h]; simp [toFn, h]
    · rw [dif_neg h]; simp [h]
  · intro i
    funext j
    simp [toFn, hopsVec, modHOps, HOps.ofModule, stdE]
  · intro i v
    funext j
    show toFn (Vector.ofFn (fun l : Fin n => if l.val < i then 0 else v[l])) j =
      ((toFn v - ∑ l ∈ range i, (dotForm K n).a (stdE n l) (toFn v) • stdE n l : Fin n → K)) j
    simp only [Pi.sub_apply, Finset.sum_apply, Pi.smul_apply, smul_eq_mul, stdE]
    by_cases hji : j.val < i
    · rw [Finset.sum_eq_single j.val]
      · rw [dot_stdE, dif_pos j.2]
        simp [toFn, hji]
      · intro l _ hl
        have : ¬ j.val = l := fun h => hl h.symm
        simp [this]
      · intro h; exact absurd (Finset.mem_range.mpr hji) h
    · rw [Finset.sum_eq_zero]
      · simp [toFn, hji]
      · intro l hl
        have : ¬ j.val = l := by have := Finset.mem_range.mp hl; omega
        simp [this]

variable (sqrt : K → K) (b x0 : Vector K n)

/-! ### the states of the models on `Vector K n` -/

/-- GMRES(MGS) on vectors: the states behind `gmresMgs (vecOps …)` -/
def gmVec (k : Nat) : GmSt K (Vector K n) :=
  iter (gmresStep (vecOps (fun (a : K) => a) A M) sqrt posK nzK n x0) k
    (gmresInit (vecOps (fun (a : K) => a) A M) sqrt b x0)

theorem gmVec_map (k : Nat) : mapGm toFn (gmVec A M sqrt b x0 k) =
    gmSeq (linOf A) (linOf (vctrans (fun a => a) A)) (linOf M) (dotForm K n) sqrt nzK n (toFn b) (toFn x0) k :=
  gmIter_hom toFn _ _ (opsHom_vec A M) sqrt posK nzK n b x0 k

theorem getLast_map_some {α β : Type} (f : α → β) (l : List α) (y : β) (h : (l.map f).getLast? = some y) :
    ∃ x, l.getLast? = some x ∧ f x = y := by
  rw [List.getLast?_map] at h
  cases hx : l.getLast? with
  | none => rw [hx] at h; simp at h
  | some x => rw [hx] at h; exact ⟨x, rfl, by simpa using h⟩

variable (hsq : ∀ a, 0 ≤ a → sqrt a * sqrt a = a) (hsq0 : ∀ a, 0 ≤ sqrt a)

include hsq hsq0 in
/-- **GMRES(MGS) on `Vector K n`** (the definition the driver runs, op `c07_gmres_mgs`): `gmres_mgs_optimal_krylov`
for the vector instance -/
theorem gmres_mgs_vec_optimal_krylov (m : Nat) (hmn : m + 1 < n)
    (hbeta : sqrt ((dotForm K n).a (linOf M (toFn b - linOf A (toFn x0))) (linOf M (toFn b - linOf A (toFn x0)))) ≠ 0)
    (hnbv : ∀ i, i ≤ m + 1 → (dotForm K n).a (((gmVec A M sqrt b x0 (m+1)).vs.map toFn).getD i 0)
      (((gmVec A M sqrt b x0 (m+1)).vs.map toFn).getD i 0) ≠ 0)
    (hnbr : ∀ i, i < m + 1 → Rent (gmVec A M sqrt b x0 (m+1)).rcols i i ≠ 0) :
    ∃ xk, (gmresMgs (vecOps (fun (a : K) => a) A M) sqrt posK nzK n b x0 (m+1)).getLast? = some xk ∧
      toFn xk - toFn x0 ∈ PCG.kry (linOf A) (linOf M) (dotForm K n) (toFn b) (toFn x0) (m+1) ∧
      ∀ y : Vector K n, toFn y - toFn x0 ∈ PCG.kry (linOf A) (linOf M) (dotForm K n) (toFn b) (toFn x0) (m+1) →
        (dotForm K n).en (linOf M (toFn b) - (linOf M ∘ₗ linOf A) (toFn xk)) ≤
          (dotForm K n).en (linOf M (toFn b) - (linOf M ∘ₗ linOf A) (toFn y)) := by
  have hmap := gmVec_map A M sqrt b x0 (m+1)
  obtain ⟨xk', h1, h2, h3⟩ := gmres_mgs_model_optimal_krylov (linOf A) (linOf (vctrans (fun a => a) A)) (linOf M)
    (dotForm K n) sqrt n (toFn b) (toFn x0) dotForm_def hsq hsq0 m hmn hbeta
    (by rw [← hmap]; exact hnbv) (by rw [← hmap]; exact hnbr)
  rw [← hmap] at h1
  obtain ⟨xk, hx1, hx2⟩ := getLast_map_some toFn _ _ h1
  exact ⟨xk, hx1, by rw [hx2]; exact h2, fun y hy => by rw [hx2]; exact h3 _ hy⟩

include hsq hsq0 in
/-- **restarted GMRES(MGS) on `Vector K n`** (op `ext_gmres_restart`): entry `j·r + m` of the log of the vector
model is the minimiser of the preconditioned residual over `x^(j) + K_{m+1}(MA, M(b − A x^(j)))` -/
theorem gmres_restart_vec_optimal (r cycles j m : Nat) (hj : j < cycles) (hm : m < r) (hmn : m + 1 < n)
    (hnb : NoBreakdown (linOf A) (linOf (vctrans (fun a => a) A)) (linOf M) (dotForm K n) sqrt n (toFn b)
      (toFn (gmresRestartPt (vecOps (fun (a : K) => a) A M) sqrt posK nzK n b x0 r j)) (m + 1)) :
    ∃ xk, (gmresRestart (vecOps (fun (a : K) => a) A M) sqrt posK nzK n b x0 r cycles)[j * r + m]? = some xk ∧
      toFn xk - toFn (gmresRestartPt (vecOps (fun (a : K) => a) A M) sqrt posK nzK n b x0 r j) ∈
        PCG.kry (linOf A) (linOf M) (dotForm K n) (toFn b)
          (toFn (gmresRestartPt (vecOps (fun (a : K) => a) A M) sqrt posK nzK n b x0 r j)) (m + 1) ∧
      ∀ y : Vector K n, toFn y - toFn (gmresRestartPt (vecOps (fun (a : K) => a) A M) sqrt posK nzK n b x0 r j) ∈
        PCG.kry (linOf A) (linOf M) (dotForm K n) (toFn b)
          (toFn (gmresRestartPt (vecOps (fun (a : K) => a) A M) sqrt posK nzK n b x0 r j)) (m + 1) →
        (dotForm K n).en (linOf M (toFn b) - (linOf M ∘ₗ linOf A) (toFn xk)) ≤
          (dotForm K n).en (linOf M (toFn b) - (linOf M ∘ₗ linOf A) (toFn y)) := by
  have hpt := gmresRestartPt_hom toFn _ _ (opsHom_vec A M) sqrt posK nzK n b x0 r j
  have hlog := gmresRestart_hom toFn _ _ (opsHom_vec A M) sqrt posK nzK n b x0 r cycles
  have hpt' : toFn (gmresRestartPt (vecOps (fun (a : K) => a) A M) sqrt posK nzK n b x0 r j) =
      restartPt (linOf A) (linOf (vctrans (fun a => a) A)) (linOf M) (dotForm K n) sqrt n (toFn b) (toFn x0) r j := hpt
  rw [hpt'] at hnb ⊢
  obtain ⟨xk', h1, h2, h3⟩ := gmres_restart_optimal (linOf A) (linOf (vctrans (fun a => a) A)) (linOf M)
    (dotForm K n) sqrt n (toFn b) (toFn x0) r dotForm_def hsq hsq0 cycles j m hj hm hmn hnb
  have hlog' : restartLog (linOf A) (linOf (vctrans (fun a => a) A)) (linOf M) (dotForm K n) sqrt n (toFn b)
      (toFn x0) r cycles = (gmresRestart (vecOps (fun (a : K) => a) A M) sqrt posK nzK n b x0 r cycles).map toFn :=
    hlog.symm
  rw [hlog', List.getElem?_map] at h1
  cases hx : (gmresRestart (vecOps (fun (a : K) => a) A M) sqrt posK nzK n b x0 r cycles)[j * r + m]? with
  | none => rw [hx] at h1; simp at h1
  | some xk =>
    rw [hx] at h1
    have hx2 : toFn xk = xk' := by simpa using h1
    exact ⟨xk, rfl, by rw [hx2]; exact h2, fun y hy => by rw [hx2]; exact h3 _ hy⟩

/-! ### FGMRES and GMRES(Householder) on vectors -/

variable (pre : Nat → Vector K n → Vector K n)

/-- the preconditioners read as maps of `Kⁿ` -/
def preFn (j : Nat) (f : Fin n → K) : Fin n → K := toFn (pre j (Vector.ofFn f))

omit [Field K] [LinearOrder K] [IsStrictOrderedRing K] in
theorem preFn_hom (j : Nat) (v : Vector K n) : toFn (pre j v) = preFn pre j (toFn v) := by
  unfold preFn
  congr 2
  apply Vector.ext
  intro i hi
  simp [toFn]

/-- FGMRES on vectors: the states behind `fgmresHh (hopsVec …)` -/
def fgVec (k : Nat) : HhSt K (Vector K n) :=
  iter (fgStep (hopsVec (fun (a : K) => a) A M) sqrt sgnK nzK n pre x0) k
    (hhInit (hopsVec (fun (a : K) => a) A M) sqrt sgnK
      ((hopsVec (fun (a : K) => a) A M).o.sub b ((hopsVec (fun (a : K) => a) A M).o.A x0)))

theorem fgVec_map (k : Nat) : mapHh toFn (fgVec A M sqrt b x0 pre k) =
    fgSeq (linOf A) (linOf (vctrans (fun a => a) A)) (linOf M) (dotForm K n) (stdE n) sqrt n (preFn pre)
      (toFn b) (toFn x0) k :=
  fgIter_hom toFn _ _ (hopsHom_vec A M) sqrt sgnK nzK n pre (preFn pre) (preFn_hom pre) b x0 k

include hsq hsq0 in
/-- **FGMRES on `Vector K n`** (the definition the driver runs, op `ext_fgmres`): after `m + 1 < n` inner
iterations the recorded iterate minimises `‖b − A x‖₂` over `x₀ + span{z_0 … z_m}` -/
theorem fgmres_vec_optimal (m : Nat) (hmn : m + 1 < n)
    (hbeta : sqrt ((dotForm K n).a (toFn b - linOf A (toFn x0)) (toFn b - linOf A (toFn x0))) ≠ 0)
    (hnbr : ∀ i, i < m + 1 → Rent (fgVec A M sqrt b x0 pre (m+1)).rcols i i ≠ 0) :
    ∃ xk, (fgmresHh (hopsVec (fun (a : K) => a) A M) sqrt sgnK nzK n pre b x0 (m+1)).getLast? = some xk ∧
      toFn xk - toFn x0 ∈ Submodule.span K
        (Set.range (fun j : Fin (m+1) => ((fgVec A M sqrt b x0 pre (m+1)).zs.map toFn).getD j 0)) ∧
      ∀ y : Vector K n, toFn y - toFn x0 ∈ Submodule.span K
        (Set.range (fun j : Fin (m+1) => ((fgVec A M sqrt b x0 pre (m+1)).zs.map toFn).getD j 0)) →
        (dotForm K n).en (toFn b - linOf A (toFn xk)) ≤ (dotForm K n).en (toFn b - linOf A (toFn y)) := by
  have hmap := fgVec_map A M sqrt b x0 pre (m+1)
  obtain ⟨xk', h1, h2, h3⟩ := fgmres_hh_optimal (linOf A) (linOf (vctrans (fun a => a) A)) (linOf M)
    (dotForm K n) (stdE n) sqrt n (preFn pre) (toFn b) (toFn x0) dotForm_def hsq hsq0 stdE_ortho m hmn hbeta
    (by rw [← hmap]; exact hnbr)
  rw [← hmap] at h1 h2 h3
  obtain ⟨xk, hx1, hx2⟩ := getLast_map_some toFn _ _ h1
  exact ⟨xk, hx1, by rw [hx2]; exact h2, fun y hy => by rw [hx2]; exact h3 _ hy⟩

/-- GMRES(Householder) on vectors: the states behind `gmresHh (hopsVec …)` -/
def ghVec (k : Nat) : HhSt K (Vector K n) :=
  iter (ghStep (hopsVec (fun (a : K) => a) A M) sqrt sgnK nzK n x0) k
    (hhInit (hopsVec (fun (a : K) => a) A M) sqrt sgnK
      ((hopsVec (fun (a : K) => a) A M).o.M
        ((hopsVec (fun (a : K) => a) A M).o.sub b ((hopsVec (fun (a : K) => a) A M).o.A x0))))

theorem ghVec_map (k : Nat) : mapHh toFn (ghVec A M sqrt b x0 k) =
    ghSeq (linOf A) (linOf (vctrans (fun a => a) A)) (linOf M) (dotForm K n) (stdE n) sqrt n (toFn b) (toFn x0) k :=
  ghIter_hom toFn _ _ (hopsHom_vec A M) sqrt sgnK nzK n b x0 k

include hsq hsq0 in
/-- **GMRES(Householder) on `Vector K n`** (op `ext_gmres_hh`): C07 as stated -/
theorem gmres_hh_vec_optimal_krylov (m : Nat) (hmn : m + 1 < n)
    (hbeta : sqrt ((dotForm K n).a (linOf M (toFn b - linOf A (toFn x0))) (linOf M (toFn b - linOf A (toFn x0)))) ≠ 0)
    (hsub : ∀ j, j < m → F ((ghVec A M sqrt b x0 (m+1)).cols.getD j []) (j + 1) ≠ 0)
    (hnbr : ∀ i, i < m + 1 → Rent (ghVec A M sqrt b x0 (m+1)).rcols i i ≠ 0) :
    ∃ xk, (gmresHh (hopsVec (fun (a : K) => a) A M) sqrt sgnK nzK n b x0 (m+1)).getLast? = some xk ∧
      toFn xk - toFn x0 ∈ PCG.kry (linOf A) (linOf M) (dotForm K n) (toFn b) (toFn x0) (m+1) ∧
      ∀ y : Vector K n, toFn y - toFn x0 ∈ PCG.kry (linOf A) (linOf M) (dotForm K n) (toFn b) (toFn x0) (m+1) →
        (dotForm K n).en (linOf M (toFn b) - (linOf M ∘ₗ linOf A) (toFn xk)) ≤
          (dotForm K n).en (linOf M (toFn b) - (linOf M ∘ₗ linOf A) (toFn y)) := by
  have hmap := ghVec_map A M sqrt b x0 (m+1)
  obtain ⟨xk', h1, h2, h3⟩ := gmres_hh_optimal_krylov (linOf A) (linOf (vctrans (fun a => a) A)) (linOf M)
    (dotForm K n) (stdE n) sqrt n (toFn b) (toFn x0) dotForm_def hsq hsq0 stdE_ortho m hmn hbeta
    (by rw [← hmap]; exact hsub) (by rw [← hmap]; exact hnbr)
  rw [← hmap] at h1
  obtain ⟨xk, hx1, hx2⟩ := getLast_map_some toFn _ _ h1
  exact ⟨xk, hx1, by rw [hx2]; exact h2, fun y hy => by rw [hx2]; exact h3 _ hy⟩

#print axioms gmres_mgs_vec_optimal_krylov
#print axioms gmres_restart_vec_optimal
#print axioms fgmres_vec_optimal
#print axioms gmres_hh_vec_optimal_krylov
end PyamgV.C07
