import PyamgV.Proofs.ExtC09Block
import PyamgV.Model.ExtC09XIndexed

/-! PyamgV (extension E33, property C09): MEANING of the conversion model `Csr.toCsc` of Model/ExtC09Block.lean
(SciPy `csr_tocsc`): stored line `j` of the result lists exactly the stored entries of column `j` of the input
(ascending row, stored order inside a row, duplicates kept); hence the CSC entries, the CSC matrix-vector product and the
residual the `gauss_seidel_nr` driver starts from are the ones of the CSR input, and the public `gauss_seidel_nr` on CSR
input keeps the exact solution. -/
namespace PyamgV.ExtC09X
open PyamgV PyamgV.K PyamgV.ExtC09 Finset

set_option linter.unusedSectionVars false
set_option linter.unusedVariables false

variable {R : Type} [Field R] [DecidableEq R]

/-- the stored entries `(row, value)` of column `j` of a CSR matrix: ascending row, stored order inside a row -/
def colEntries (A : Csr R) (j : Nat) : List (Nat × R) :=
  (List.range A.n).flatMap (fun i => ((A.jjs i).filter (fun jj => rdN A.aj jj = j)).map (fun jj => (i, rd A.ax jj)))

/-- offset of sublist `j` inside the concatenation -/
def offs {β : Type} (L : List (List β)) (j : Nat) : Nat := ((L.take j).map List.length).sum

theorem offs_succ {β : Type} (L : List (List β)) (j : Nat) (hj : j < L.length) :
    offs L (j + 1) = offs L j + L[j].length := by
  unfold offs
  induction L generalizing j with
  | nil => simp at hj
  | cons a L ih =>
    cases j with
    | zero => simp
    | succ j =>
      simp only [List.take_succ_cons, List.map_cons, List.sum_cons, List.getElem_cons_succ]
      rw [ih j (by simpa using hj)]
      omega

theorem flatten_getElem? {β : Type} (L : List (List β)) (j t : Nat) (hj : j < L.length) (ht : t < L[j].length) :
    L.flatten[offs L j + t]? = some (L[j][t]) := by
  unfold offs
  induction L generalizing j with
  | nil => simp at hj
  | cons a L ih =>
    cases j with
    | zero =>
      simp only [List.take_zero, List.map_nil, List.sum_nil, Nat.zero_add, List.flatten_cons, List.getElem_cons_zero] at ht ⊢
      rw [List.getElem?_append_left ht, List.getElem?_eq_getElem ht]
    | succ j =>
      simp only [List.take_succ_cons, List.map_cons, List.sum_cons, List.flatten_cons, List.getElem_cons_succ] at ht ⊢
      rw [List.getElem?_append_right (by omega)]
      have : a.length + ((L.take j).map List.length).sum + t - a.length = ((L.take j).map List.length).sum + t := by omega
      rw [this]
      exact ih j (by simpa using hj) ht

theorem rdN_toArray_map_range (m : Nat) (f : Nat → Nat) (i : Nat) :
    rdN ((List.range m).map f).toArray i = if i < m then f i else 0 := by
  unfold K.rdN
  by_cases h : i < m <;> simp [Array.getD_eq_getD_getElem?, h]

/-- the column lists the model concatenates -/
def cscCols (A : Csr R) : List (List (Nat × R)) := (List.range A.n).map (colEntries A)

theorem toCsc_n (A : Csr R) : A.toCsc.n = A.n := rfl
theorem toCsc_ap (A : Csr R) :
    A.toCsc.ap = ((List.range (A.n + 1)).map (fun j => offs (cscCols A) j)).toArray := rfl
theorem toCsc_aj (A : Csr R) : A.toCsc.aj = ((cscCols A).flatten.map (·.1)).toArray := rfl
theorem toCsc_ax (A : Csr R) : A.toCsc.ax = ((cscCols A).flatten.map (·.2)).toArray := rfl

/-- **stored line `j` of `A.tocsc()` lists exactly the stored entries of column `j` of `A`**: `(row, value)` pairs by
ascending row, stored order inside a row, duplicates kept -/
theorem toCsc_col (A : Csr R) (j : Nat) (hj : j < A.n) :
    (A.toCsc.jjs j).map (fun ii => (rdN A.toCsc.aj ii, rd A.toCsc.ax ii)) = colEntries A j := by
  have hlen : (cscCols A).length = A.n := by simp [cscCols]
  have hj' : j < (cscCols A).length := by rw [hlen]; exact hj
  have hLj : (cscCols A)[j] = colEntries A j := by simp [cscCols]
  have hjjs : A.toCsc.jjs j = List.range' (offs (cscCols A) j) (colEntries A j).length := by
    unfold Csr.jjs
    rw [toCsc_ap, rdN_toArray_map_range, rdN_toArray_map_range, if_pos (by omega), if_pos (by omega),
      offs_succ _ j hj', hLj]
    congr 1
    omega
  rw [hjjs]
  apply List.ext_getElem
  · simp
  · intro t h1 h2
    simp only [List.length_map, List.length_range'] at h1
    have ht : t < (cscCols A)[j].length := by rw [hLj]; exact h1
    have hget := flatten_getElem? (cscCols A) j t hj' ht
    simp only [List.getElem_map, List.getElem_range', Nat.one_mul]
    rw [toCsc_aj, toCsc_ax]
    unfold K.rdN K.rd
    simp only [Array.getD_eq_getD_getElem?, List.getElem?_toArray, List.getElem?_map, hget, Option.map_some,
      Option.getD_some]
    simp [hLj]

/-! ### entries and products -/

theorem filter_pair_sum {ι : Type} (L : List ι) (f : ι → Nat) (g : ι → R) (q : Nat) :
    ((L.filter (fun i => decide (f i = q))).map g).sum =
      (((L.map (fun i => (f i, g i))).filter (fun e => decide (e.1 = q))).map (·.2)).sum := by
  induction L with
  | nil => simp
  | cons a L ih =>
    by_cases h : f a = q
    · simp [h, ih]
    · simp [h, ih]

theorem flatMap_filter_sum (S : Nat → List Nat) (v : Nat → R) (m q : Nat) :
    ((((List.range m).flatMap (fun i => (S i).map (fun jj => (i, v jj)))).filter
      (fun e => decide (e.1 = q))).map (·.2)).sum = if q < m then ((S q).map v).sum else 0 := by
  induction m with
  | zero => simp
  | succ m ih =>
    rw [List.range_succ, List.flatMap_append, List.filter_append, List.map_append, List.sum_append, ih]
    simp only [List.flatMap_cons, List.flatMap_nil, List.append_nil]
    have hone : ((((S m).map (fun jj => (m, v jj))).filter (fun e => decide (e.1 = q))).map (·.2)).sum =
        if m = q then ((S m).map v).sum else 0 := by
      by_cases hq : m = q
      · rw [if_pos hq]
        induction S m with
        | nil => simp
        | cons a L ih2 => simp [hq] at ih2 ⊢; exact ih2
      · rw [if_neg hq]
        induction S m with
        | nil => simp
        | cons a L ih2 => simp [hq] at ih2 ⊢; exact ih2
    rw [hone]
    by_cases h1 : q < m
    · rw [if_pos h1, if_neg (by omega), if_pos (by omega), add_zero]
    · by_cases h2 : m = q
      · subst h2; rw [if_neg h1, if_pos rfl, if_pos (by omega), zero_add]
      · rw [if_neg h1, if_neg h2, if_neg (by omega), add_zero]

/-- **entry `(q, j)` read from the converted CSC arrays = entry `(q, j)` of the CSR input** (duplicates summed) -/
theorem toCsc_cscEntry (A : Csr R) (j q : Nat) (hj : j < A.n) (hq : q < A.n) :
    cscEntry A.toCsc j q = csrEntry A q j := by
  unfold cscEntry
  rw [filter_pair_sum (A.toCsc.jjs j) (fun ii => rdN A.toCsc.aj ii) (fun ii => rd A.toCsc.ax ii) q, toCsc_col A j hj]
  unfold colEntries
  rw [flatMap_filter_sum (fun i => (A.jjs i).filter (fun jj => rdN A.aj jj = j)) (fun jj => rd A.ax jj) A.n q, if_pos hq]
  rfl

theorem csrRow_congr (A : Csr R) (i : Nat) (u u' : Nat → R) (h : ∀ jj ∈ A.jjs i, u (rdN A.aj jj) = u' (rdN A.aj jj)) :
    csrRow A i u = csrRow A i u' := by
  unfold csrRow
  congr 1
  apply List.map_congr_left
  intro jj hjj
  rw [h jj hjj]

/-- a CSR row whose columns lie inside the matrix, applied to a vector, is the sum over the dense entries -/
theorem csrRow_eq_sum_entries (A : Csr R) (i : Nat) (u : Nat → R) (hcols : ∀ jj ∈ A.jjs i, rdN A.aj jj < A.n) :
    csrRow A i u = ∑ j ∈ range A.n, csrEntry A i j * u j := by
  rw [← csrRow_supported A i A.n (fun c => c) u]
  apply csrRow_congr
  intro jj hjj
  rw [Finset.sum_ite_eq' (range A.n) (rdN A.aj jj), if_pos (mem_range.2 (hcols jj hjj))]

/-- **`(A.tocsc()) u = A u`** on the rows of the matrix -/
theorem toCsc_cscDot (A : Csr R) (q : Nat) (hq : q < A.n) (u : Nat → R) (hcols : ∀ jj ∈ A.jjs q, rdN A.aj jj < A.n) :
    cscDot A.toCsc q u = csrRow A q u := by
  unfold cscDot
  rw [csrRow_eq_sum_entries A q u hcols, toCsc_n]
  apply Finset.sum_congr rfl
  intro j hj
  rw [toCsc_cscEntry A j q (mem_range.1 hj) hq]

/-- SciPy's `csc_matvec` on the converted arrays is the CSR row product of the input -/
theorem toCsc_matvec (A : Csr R) (x : Array R) (q : Nat) (hq : q < A.n) (hcols : ∀ jj ∈ A.jjs q, rdN A.aj jj < A.n) :
    rd (cscmv A.toCsc x) q = csrRow A q (vec x) := by
  rw [rd_cscmv A.toCsc x q (by rw [toCsc_n]; exact hq), toCsc_cscDot A q hq _ hcols]

/-- the residual the public `gauss_seidel_nr` starts from, on CSR input, is `b − A x` in the CSR rows of the input -/
theorem pubGaussSeidelNR_initial_residual (A : Csr R) (b x : Array R) (hb : b.size = A.n) (q : Nat) (hq : q < A.n)
    (hcols : ∀ jj ∈ A.jjs q, rdN A.aj jj < A.n) :
    rd (vsub b (cscmv A.toCsc x)) q = rd b q - csrRow A q (vec x) := by
  unfold K.vsub K.vmap2
  rw [rd_toArray_map_range, if_pos (by omega), toCsc_matvec A x q hq hcols]

/-- the column correction `δ = ω Dinv_i ⟨A e_i, r⟩` computed from the converted arrays is the one of column `i` of the
CSR input: `⟨A e_i, r⟩ = Σ_{(q, v) stored in column i} conj v · r_q` -/
theorem nrDelta_toCsc (conj : R → R) (ω : R) (A : Csr R) (Dinv r : Array R) (i : Nat) (hi : i < A.n) :
    nrDelta conj ω A.toCsc Dinv r i =
      ((colEntries A i).map (fun e => conj e.2 * rd r e.1)).sum * (rd Dinv i * ω) := by
  unfold nrDelta
  rw [foldl_add, zero_add, ← toCsc_col A i hi, List.map_map]
  rfl

/-- public model = driver model on the converted arrays -/
theorem pubGaussSeidelNR_eq (conj : R → R) (ω : R) (A : Csr R) (b : Array R) (Dinv? : Option (Array R))
    (iters : Nat) (sw : Sweep) (x : Array R) :
    pubGaussSeidelNR conj ω A b Dinv? iters sw x = pyGaussSeidelNR conj ω A.toCsc b Dinv? iters sw x := rfl

/-- the exact solution of `A x = b` (CSR rows of the input) is returned unchanged by the public `gauss_seidel_nr` on CSR
input: every `omega`, `Dinv`, sweep kind, `iterations` -/
theorem pubGaussSeidelNR_fixed_point (conj : R → R) (ω : R) (A : Csr R) (b x : Array R) (Dinv? : Option (Array R))
    (iters : Nat) (sw : Sweep) (hb : b.size = A.n)
    (hcols : ∀ i < A.n, ∀ jj ∈ A.jjs i, rdN A.aj jj < A.n)
    (hsol : ∀ q < A.n, csrRow A q (vec x) = rd b q) :
    pubGaussSeidelNR conj ω A b Dinv? iters sw x = x := by
  rw [pubGaussSeidelNR_eq]
  apply pyGaussSeidelNR_fixed_point conj ω A.toCsc b x Dinv? iters sw (by rw [toCsc_n]; exact hb)
  intro q hq
  rw [toCsc_n] at hq
  rw [toCsc_cscDot A q hq _ (hcols q hq)]
  exact hsol q hq

/-- **`relaxation.gauss_seidel_nr` on CSR input, three layers**: the public model (conversion `A.tocsc()` included) is the
`gauss_seidel_nr` kernel model on the converted arrays started from the residual `b − A x`; that residual, the column
corrections `δ_i = ω Dinv_i Σ_{(q,v) in column i of A} conj v · r_q` and the residual updates `r_q −= δ_i A_{q i}` are the ones
of the CSR input (dense entries `csrEntry A q i`, duplicates summed) -/
theorem pubGaussSeidelNR_layers (conj : R → R) (ω : R) (A : Csr R) (b x : Array R) (Dinv? : Option (Array R))
    (hb : b.size = A.n) (hcols : ∀ i < A.n, ∀ jj ∈ A.jjs i, rdN A.aj jj < A.n) :
    pubGaussSeidelNR conj ω A b Dinv? 1 .forward x =
      ((List.range x.size).foldl (nrStep conj ω A.toCsc (Dinv?.getD (normInv conj A.toCsc)))
        (x, vsub b (cscmv A.toCsc x))).1 ∧
    (∀ q < A.n, rd (vsub b (cscmv A.toCsc x)) q = rd b q - csrRow A q (vec x)) ∧
    ∀ (D z r : Array R) (i : Nat), i < A.n →
      (nrStep conj ω A.toCsc D (z, r) i).1 =
        wr z i (rd z i + ((colEntries A i).map (fun e => conj e.2 * rd r e.1)).sum * (rd D i * ω)) ∧
      ∀ q < r.size, q < A.n → rd (nrStep conj ω A.toCsc D (z, r) i).2 q =
        rd r q - ((colEntries A i).map (fun e => conj e.2 * rd r e.1)).sum * (rd D i * ω) * csrEntry A q i := by
  refine ⟨?_, ?_, ?_⟩
  · rw [pubGaussSeidelNR_eq]
    simp [K.pyGaussSeidelNR, K.gsnrCall, K.iter, K.dirRows, gaussSeidelNR_eq]
  · intro q hq
    exact pubGaussSeidelNR_initial_residual A b x hb q hq (hcols q hq)
  · intro D z r i hi
    refine ⟨?_, ?_⟩
    · unfold nrStep
      simp only
      rw [nrDelta_toCsc conj ω A D r i hi]
    · intro q hqr hq
      rw [nrStep_r conj ω A.toCsc D z r i q hqr, nrDelta_toCsc conj ω A D r i hi, toCsc_cscEntry A i q hi hq]

end PyamgV.ExtC09X
