import PyamgV.Model.ExtC11XGmres
import PyamgV.Proofs.C07GmresOpt

/-! PyamgV (C11, extension E49): the Arnoldi loop of `dense_GMRES` (`C11XG.arnStep`) over a `K`-module with
an exact square root.  As long as the loop does not `break`, every pass is `GS.arnoldiStep`, so the basis is
orthonormal and `B v_j = Σ_l H[l, j] v_l` (`arn_inv`).  In the last of `m` passes no vector is stored; if the
`m` orthonormal vectors are complete (`hfull`: true in `Kⁿ` for `m = n`) the remainder of that pass is zero,
and the Arnoldi relation holds for all `m` columns with the square Hessenberg array (`arn_final`). -/
namespace PyamgV.C11XG
open PyamgV PyamgV.C07 Finset

variable {K : Type} [Field K] [LinearOrder K] [IsStrictOrderedRing K]
variable {V : Type} [AddCommGroup V] [Module K V]
variable (B AH M : V →ₗ[K] V) (e : EForm K V) (sqrt : K → K) (small : K → Bool) (m : Nat) (b : V) (normb : K)

/-- the states of the Arnoldi loop over the module -/
def arnSeq (k : Nat) : ArnSt K V :=
  iter (arnStep (Ops.ofModule B AH M e) (fun v a => (1 / a) • v) sqrt small m b) k ⟨[(1 / normb) • b], [], false, m⟩

structure ArnInv (k : Nat) (s : ArnSt K V) : Prop where
  arn : GS.ArnL e B s.vs s.cols
  clen : s.cols.length = k
  norm1 : ∀ v ∈ s.vs, e.a v v = 1
  collen : ∀ j < k, (s.cols.getD j []).length = j + 2
  stop : s.stop = false
  rank : s.rank = m
  v0 : s.vs.getD 0 0 = (1 / normb) • b

theorem arnStep_unfold (s : ArnSt K V) (hs : s.stop = false) :
    arnStep (Ops.ofModule B AH M e) (fun v a => (1 / a) • v) sqrt small m b s =
      let r := GS.orth e s.vs (B (s.vs.getLast?.getD b))
      let nrm := sqrt (e.a r.1 r.1)
      if small nrm then ⟨s.vs, s.cols ++ [r.2 ++ [0]], true, s.cols.length + 1⟩
      else if s.cols.length + 1 < m then ⟨s.vs ++ [(1 / nrm) • r.1], s.cols ++ [r.2 ++ [nrm]], false, s.rank⟩
      else ⟨s.vs, s.cols ++ [r.2 ++ [0]], false, s.rank⟩ := by
  unfold arnStep
  simp only [hs, Bool.false_eq_true, if_false]
  rw [orthO_eq]
  rfl

variable (hdef : ∀ v, e.a v v = 0 → v = 0) (hsq : ∀ a, 0 ≤ a → sqrt a * sqrt a = a) (hsq0 : ∀ a, 0 ≤ sqrt a)
  (hsm : ∀ a, small a = false → a ≠ 0) (hb : e.a b b = normb * normb) (hnb0 : normb ≠ 0)
  (hnb : ∀ k, k + 1 < m → (arnSeq B AH M e sqrt small m b normb (k + 1)).stop = false)

include hdef hsq hsq0 hsm hb hnb0 hnb in
/-- no `break` in the first `m - 1` passes: orthonormal basis and Arnoldi relation -/
theorem arn_inv : ∀ k, k + 1 ≤ m → ArnInv B e m b normb k (arnSeq B AH M e sqrt small m b normb k) := by
  intro k
  induction k with
  | zero =>
    intro _
    have h1 : e.a ((1 / normb) • b) ((1 / normb) • b) = 1 := by
      simp only [map_smul, LinearMap.smul_apply, smul_eq_mul, hb]
      field_simp
    refine ⟨⟨⟨Or.inr h1, by simp, trivial⟩, by simp [arnSeq, iter], by simp [arnSeq, iter],
      by simp [arnSeq, iter]⟩, rfl, ?_, by intro j hj; omega, rfl, rfl, rfl⟩
    intro v hv
    simp only [arnSeq, iter, List.mem_singleton] at hv
    rw [hv]; exact h1
  | succ k ih =>
    intro hk
    have ihk := ih (by omega)
    have hstop := hnb k (by omega)
    have hstep : arnSeq B AH M e sqrt small m b normb (k + 1) =
        arnStep (Ops.ofModule B AH M e) (fun v a => (1 / a) • v) sqrt small m b (arnSeq B AH M e sqrt small m b normb k) := rfl
    rw [hstep] at hstop ⊢
    generalize arnSeq B AH M e sqrt small m b normb k = s at ihk hstop ⊢
    rw [arnStep_unfold B AH M e sqrt small m b s ihk.stop] at hstop ⊢
    simp only at hstop ⊢
    set r := GS.orth e s.vs (B (s.vs.getLast?.getD b)) with hr
    by_cases hsmall : small (sqrt (e.a r.1 r.1)) = true
    · rw [if_pos hsmall] at hstop; simp at hstop
    · rw [if_neg hsmall]
      have hlt : s.cols.length + 1 < m := by rw [ihk.clen]; omega
      rw [if_pos hlt]
      have hne : sqrt (e.a r.1 r.1) ≠ 0 := hsm _ (by simpa using hsmall)
      have hpos : sqrt (e.a r.1 r.1) > 0 := lt_of_le_of_ne (hsq0 _) (Ne.symm hne)
      have hlast : s.vs.getD s.cols.length 0 = s.vs.getLast?.getD b :=
        (getLast_getD s.vs s.cols.length ihk.arn.len b).symm
      have hnc : GS.newCol e sqrt 0 r.1 = ((1 / sqrt (e.a r.1 r.1)) • r.1, sqrt (e.a r.1 r.1)) := by
        unfold GS.newCol; simp only; rw [if_pos hpos]
      have hA := GS.arnoldiStep_inv e hdef sqrt hsq hsq0 B s.vs s.cols _ hlast ihk.arn
      have hAs : GS.arnoldiStep e sqrt B s.vs (s.vs.getLast?.getD b) =
          ((1 / sqrt (e.a r.1 r.1)) • r.1, r.2 ++ [sqrt (e.a r.1 r.1)]) := by
        unfold GS.arnoldiStep
        simp only
        rw [← hr, hnc]
      rw [hAs] at hA
      simp only at hA
      have hn1 : e.a ((1 / sqrt (e.a r.1 r.1)) • r.1) ((1 / sqrt (e.a r.1 r.1)) • r.1) = 1 := by
        have h2 := hsq _ (e.nonneg r.1)
        simp only [map_smul, LinearMap.smul_apply, smul_eq_mul]
        generalize sqrt (e.a r.1 r.1) = t at h2 hne
        rw [← h2]; field_simp
      refine ⟨hA, by simp [ihk.clen], ?_, ?_, rfl, ihk.rank, ?_⟩
      · intro v hv
        rcases List.mem_append.1 hv with h | h
        · exact ihk.norm1 v h
        · simp only [List.mem_singleton] at h; rw [h]; exact hn1
      · intro j hj
        by_cases hjk : j < k
        · rw [List.getD_append _ _ _ _ (by rw [ihk.clen]; exact hjk)]
          exact ihk.collen j hjk
        · have hje : j = s.cols.length := by rw [ihk.clen]; omega
          rw [hje, List.getD_append_right _ _ _ _ (Nat.le_refl _)]
          simp only [Nat.sub_self, List.getD_cons_zero, List.length_append, List.length_singleton]
          rw [hr, orth_len, ← ihk.arn.len]
      · have hpos' : 0 < s.vs.length := by have := ihk.arn.len; omega
        rw [List.getD_append _ _ _ _ hpos']
        exact ihk.v0

theorem F_getD_out (u : List K) (l : Nat) (h : u.length ≤ l) : F u l = 0 := by
  simp [F, List.getD_eq_getElem?_getD, List.getElem?_eq_none h]

include hdef hsq hsq0 hsm hb hnb0 hnb in
/-- after all `m` passes, when the `m` basis vectors are complete -/
theorem arn_final (hm : 1 ≤ m)
    (hfull : ∀ w : V, (∀ v ∈ (arnSeq B AH M e sqrt small m b normb (m - 1)).vs, e.a v w = 0) → w = 0) :
    (arnSeq B AH M e sqrt small m b normb m).vs.length = m ∧
    (arnSeq B AH M e sqrt small m b normb m).rank = m ∧
    (∀ v ∈ (arnSeq B AH M e sqrt small m b normb m).vs, e.a v v = 1) ∧
    (arnSeq B AH M e sqrt small m b normb m).vs.getD 0 0 = (1 / normb) • b ∧
    (∀ j l, j < m → j + 1 < l → hent (arnSeq B AH M e sqrt small m b normb m).cols l j = 0) ∧
    hent (arnSeq B AH M e sqrt small m b normb m).cols m (m - 1) = 0 ∧
    (∀ j < m, B ((arnSeq B AH M e sqrt small m b normb m).vs.getD j 0) =
      ∑ l ∈ range m, hent (arnSeq B AH M e sqrt small m b normb m).cols l j •
        (arnSeq B AH M e sqrt small m b normb m).vs.getD l 0) := by
  have hI := arn_inv B AH M e sqrt small m b normb hdef hsq hsq0 hsm hb hnb0 hnb (m - 1) (by omega)
  have hstep : arnSeq B AH M e sqrt small m b normb m =
      arnStep (Ops.ofModule B AH M e) (fun v a => (1 / a) • v) sqrt small m b (arnSeq B AH M e sqrt small m b normb (m - 1)) := by
    have h1 : arnSeq B AH M e sqrt small m b normb (m - 1 + 1) =
      arnStep (Ops.ofModule B AH M e) (fun v a => (1 / a) • v) sqrt small m b (arnSeq B AH M e sqrt small m b normb (m - 1)) := rfl
    rw [Nat.sub_add_cancel hm] at h1
    exact h1
  rw [hstep]
  generalize arnSeq B AH M e sqrt small m b normb (m - 1) = s at hI hfull ⊢
  rw [arnStep_unfold B AH M e sqrt small m b s hI.stop]
  simp only
  set r := GS.orth e s.vs (B (s.vs.getLast?.getD b)) with hr
  have hvl : s.vs.length = m := by have := hI.arn.len; rw [hI.clen] at this; omega
  have hnlt : ¬ s.cols.length + 1 < m := by rw [hI.clen]; omega
  -- both remaining branches store the same basis, column and rank
  have hres : ∃ st : Bool, (if small (sqrt (e.a r.1 r.1)) = true then
        (⟨s.vs, s.cols ++ [r.2 ++ [0]], true, s.cols.length + 1⟩ : ArnSt K V)
      else if s.cols.length + 1 < m then ⟨s.vs ++ [(1 / sqrt (e.a r.1 r.1)) • r.1],
        s.cols ++ [r.2 ++ [sqrt (e.a r.1 r.1)]], false, s.rank⟩
      else ⟨s.vs, s.cols ++ [r.2 ++ [0]], false, s.rank⟩) = ⟨s.vs, s.cols ++ [r.2 ++ [0]], st, m⟩ := by
    by_cases hsmall : small (sqrt (e.a r.1 r.1)) = true
    · refine ⟨true, ?_⟩
      rw [if_pos hsmall, hI.clen]
      have : m - 1 + 1 = m := by omega
      rw [this]
    · refine ⟨false, ?_⟩
      rw [if_neg hsmall, if_neg hnlt, hI.rank]
  obtain ⟨st, hst⟩ := hres
  rw [hst]
  simp only
  have hz : ∀ q ∈ s.vs, e.a q q = 0 → q = 0 := fun q _ hq => hdef q hq
  obtain ⟨o1, o2, o3⟩ := GS.orth_spec e s.vs (B (s.vs.getLast?.getD b)) hI.arn.onz hz
  rw [← hr] at o1 o2 o3
  have hr0 : r.1 = 0 := hfull r.1 o2
  have hlast : s.vs.getLast?.getD b = s.vs.getD (m - 1) 0 := by
    have := getLast_getD s.vs s.cols.length hI.arn.len b
    rw [hI.clen] at this; exact this
  have hcolj : ∀ j, j < m - 1 → (s.cols ++ [r.2 ++ [0]]).getD j [] = s.cols.getD j [] := by
    intro j hj
    exact List.getD_append _ _ _ _ (by rw [hI.clen]; exact hj)
  have hcoll : (s.cols ++ [r.2 ++ [0]]).getD (m - 1) [] = r.2 ++ [0] := by
    have : m - 1 = s.cols.length := hI.clen.symm
    rw [this, List.getD_append_right _ _ _ _ (Nat.le_refl _)]
    simp
  refine ⟨hvl, trivial, hI.norm1, hI.v0, ?_, ?_, ?_⟩
  · intro j l hj hjl
    unfold hent
    by_cases hj1 : j < m - 1
    · rw [hcolj j hj1]
      exact F_getD_out _ l (by rw [hI.collen j hj1]; omega)
    · have hje : j = m - 1 := by omega
      rw [hje, hcoll]
      exact F_getD_out _ l (by rw [List.length_append, o3, hvl]; simp; omega)
  · unfold hent
    rw [hcoll]
    show F (r.2 ++ [0]) m = 0
    rw [F_append_zero]
    exact F_getD_out _ m (by rw [o3, hvl])
  · intro j hj
    by_cases hj1 : j < m - 1
    · have hrel := hI.arn.rel j (by rw [hI.clen]; exact hj1)
      rw [hrel, comb_eq_sum _ _ (hI.arn.clen j (by rw [hI.clen]; exact hj1)), hvl]
      refine Finset.sum_congr rfl (fun l _ => ?_)
      unfold hent
      rw [hcolj j hj1]; rfl
    · have hje : j = m - 1 := by omega
      rw [hje, ← hlast, o1, hr0, add_zero, comb_eq_sum _ _ (by rw [o3]), hvl]
      refine Finset.sum_congr rfl (fun l _ => ?_)
      unfold hent
      rw [hcoll]
      show F r.2 l • _ = F (r.2 ++ [0]) l • _
      rw [F_append_zero]

end PyamgV.C11XG
