import PyamgV.Proofs.ExtC19bBlock
import PyamgV.Proofs.ExtComplexGs

/-! PyamgV (C19, extension E26): the complex runs of the driver.  `CRat.conj` on the Gaussian rationals
(with the field operations of `Model/CRat.lean`, `Field CRat` from `Proofs/ExtComplexGs.lean`) is a
positive definite conjugation, so `pinv_total`, `blockDiagInv_total`, `scaleBlockInverse_spec` apply to
`c19_pinv c`, `c19_blockdiag c`, `c19_sbi c`. -/
namespace PyamgV.C19
open PyamgV

/-- the real part as an additive map -/
def CRat.reHom : CRat →+ ℚ := ⟨⟨CRat.re, rfl⟩, fun _ _ => rfl⟩

theorem isConj_crat : IsConj CRat.conj where
  add a b := by apply CRat.ext' <;> simp [CRat.conj]; ring
  mul a b := by apply CRat.ext' <;> simp [CRat.conj] <;> ring
  invol a := by apply CRat.ext' <;> simp [CRat.conj]
  posdef k v h := by
    have h1 := congrArg CRat.reHom h
    rw [map_sum] at h1
    have hnn : ∀ i ∈ Finset.univ, 0 ≤ CRat.reHom (CRat.conj (v i) * v i) := by
      intro i _
      show 0 ≤ (CRat.conj (v i) * v i).re
      simp only [CRat.mul_re, CRat.conj]
      nlinarith [mul_self_nonneg (v i).re, mul_self_nonneg (v i).im]
    funext i
    have h2 := (Finset.sum_eq_zero_iff_of_nonneg hnn).mp h1 i (Finset.mem_univ i)
    have h3 : (v i).re * (v i).re - -(v i).im * (v i).im = 0 := h2
    apply CRat.ext'
    · show (v i).re = 0
      nlinarith [mul_self_nonneg (v i).re, mul_self_nonneg (v i).im]
    · show (v i).im = 0
      nlinarith [mul_self_nonneg (v i).re, mul_self_nonneg (v i).im]

theorem pinv_total_crat (n m : Nat) (A : Mat CRat) (hA : Shaped n m A) (hn : 0 < n) (hm : 0 < m) :
    ∃ X, Mat.pinv CRat.conj A = some X ∧ Mat.isPenrose CRat.conj A X = true ∧ Shaped m n X ∧
      ∀ Y, Shaped m n Y → Mat.isPenrose CRat.conj A Y = true → Y = X :=
  pinv_total CRat.conj isConj_crat n m A hA hn hm

#print axioms isConj_crat
#print axioms pinv_total_crat

end PyamgV.C19
