import PyamgV.Proofs.C11Thm

/-! PyamgV (C11): **modified classical interpolation reproduces constants for every C/F
splitting.**  `classical_interpolation(modified=True)` first removes the strong F–F connections
that share no strong C-point (`remove_strong_FF_connections`); on an M-matrix whose strength rows
carry `A`'s (negative) off-diagonal values this establishes, by itself, the two side conditions
of the row-sum theorem (non-zero inner and outer denominators).  So the weights of every F-row of
a zero-row-sum row with at least one strongly connected C-point sum to one — no condition on the
splitting.  For `modified=False` the same argument works exactly when the splitting already
satisfies the common-C condition (`classicalP_rowsum_of_commonC`). -/
namespace PyamgV.C11

variable {K : Type*} [Field K] [LinearOrder K] [IsStrictOrderedRing K]

/-- the rows the interpolation formula of row `i` reads: `i` itself and its strong neighbours -/
def near (S : Nat → Row K) (i : Nat) : List Nat := i :: (S i).map (·.1)

theorem near_of_mem {S : Nat → Row K} {i : Nat} {ck : Nat × K} (h : ck ∈ S i) : ck.1 ∈ near S i :=
  List.mem_cons_of_mem _ (List.mem_map.2 ⟨ck, h, rfl⟩)

theorem near_self (S : Nat → Row K) (i : Nat) : i ∈ near S i := List.mem_cons_self

theorem sum_nonpos' {α : Type*} (l : List α) (f : α → K) (hle : ∀ x ∈ l, f x ≤ 0) :
    (l.map f).sum ≤ 0 := by
  induction l with
  | nil => simp
  | cons a rest ih =>
    simp only [List.map_cons, List.sum_cons]
    have := ih (fun y hy => hle y (List.mem_cons_of_mem _ hy))
    have ha : f a ≤ 0 := hle a (by simp)
    linarith

theorem sum_neg_of_nonpos {α : Type*} (l : List α) (f : α → K) (hle : ∀ x ∈ l, f x ≤ 0)
    (hlt : ∃ x ∈ l, f x < 0) : (l.map f).sum < 0 := by
  induction l with
  | nil => obtain ⟨x, hx, _⟩ := hlt; simp at hx
  | cons a rest ih =>
    simp only [List.map_cons, List.sum_cons]
    have hrest : (rest.map f).sum ≤ 0 := sum_nonpos' rest f (fun y hy => hle y (List.mem_cons_of_mem _ hy))
    have ha : f a ≤ 0 := hle a (by simp)
    obtain ⟨x, hx, hxlt⟩ := hlt
    rcases List.mem_cons.1 hx with rfl | hx
    · linarith
    · have := ih (fun y hy => hle y (List.mem_cons_of_mem _ hy)) ⟨x, hx, hxlt⟩
      linarith

theorem commonC_spec {isC : Nat → Bool} {si sk : Row K} (h : commonC isC si sk = true) :
    ∃ cl ∈ si, isC cl.1 = true ∧ ∃ cm ∈ sk, cm.1 = cl.1 := by
  simp only [commonC, List.any_eq_true, Bool.and_eq_true, beq_iff_eq] at h
  obtain ⟨cl, hcl, hC, cm, hcm, he⟩ := h
  exact ⟨cl, hcl, hC, cm, hcm, he⟩

/-- the inner denominator of a strong F-neighbour `k` that shares a strong C-point with row `i`
is negative on an M-matrix -/
theorem inner_neg (isC : Nat → Bool) (srow : Row K) (A S : Nat → Row K) (k : Nat)
    (hk : isC k = false)
    (hoff : ∀ cl ∈ Classical.strongC isC srow, Classical.lookup (A k) cl.1 ≤ 0)
    (hSA : ∀ cm ∈ S k, cm.1 ≠ k → Classical.lookup (A k) cm.1 = cm.2 ∧ cm.2 < 0)
    (hcommon : ∃ cl ∈ Classical.strongC isC srow, ∃ cm ∈ S k, cm.1 = cl.1) :
    Classical.inner isC srow (A k) < 0 := by
  unfold Classical.inner
  apply sum_neg_of_nonpos
  · intro cl hcl
    exact hoff cl hcl
  · obtain ⟨cl, hcl, cm, hcm, he⟩ := hcommon
    have hC : isC cl.1 = true := (List.mem_filter.1 hcl).2
    have hne : cm.1 ≠ k := by intro h; rw [he] at h; rw [h, hk] at hC; exact Bool.false_ne_true hC
    obtain ⟨h1, h2⟩ := hSA cm hcm hne
    refine ⟨cl, hcl, ?_⟩
    rw [← he, h1]; exact h2

/-- the outer denominator is positive: zero row sum minus a negative strong sum -/
theorem denom_pos (isC : Nat → Bool) (i : Nat) (hF : isC i = false) (arow srow : Row K)
    (hzero : Classical.rsum arow = 0)
    (hneg : ∀ cm ∈ srow, cm.1 ≠ i → cm.2 < 0)
    (hC : ∃ cj ∈ srow, isC cj.1 = true) :
    0 < Classical.denom i arow srow := by
  unfold Classical.denom
  rw [hzero]
  have : Classical.rsum (srow.filter (fun cv => decide (cv.1 ≠ i))) < 0 := by
    unfold Classical.rsum
    apply sum_neg_of_nonpos
    · intro cm hcm
      have := List.mem_filter.1 hcm
      exact le_of_lt (hneg cm this.1 (by simpa using this.2))
    · obtain ⟨cj, hcj, hCj⟩ := hC
      have hne : cj.1 ≠ i := by intro h; rw [h, hF] at hCj; exact Bool.false_ne_true hCj
      exact ⟨cj, List.mem_filter.2 ⟨hcj, by simpa using hne⟩, hneg cj hcj hne⟩
  linarith

/-- **modified classical interpolation: weights sum to one for every splitting** -/
theorem classicalModP_rowsum (eps : K) (isC : Nat → Bool) (n : Nat) (A S : Nat → Row K) {i : Nat}
    (hi : i < n) (hF : isC i = false)
    (hdiag : ∀ k ∈ near S i, 0 < Classical.lookupLast (A k) k)
    (hoff : ∀ k ∈ near S i, ∀ cj ∈ S i, cj.1 ≠ k → Classical.lookup (A k) cj.1 ≤ 0)
    (hnodup : ∀ k ∈ near S i, ∀ cj ∈ S i, Classical.lookupLast (A k) cj.1 = Classical.lookup (A k) cj.1)
    (hSA : ∀ k ∈ near S i, ∀ cm ∈ S k, cm.1 ≠ k → Classical.lookup (A k) cm.1 = cm.2 ∧ cm.2 < 0)
    (hzero : Classical.rsum (A i) = 0)
    (hC : ∃ cj ∈ S i, isC cj.1 = true)
    (hkeep : ∀ ck ∈ Classical.strongF isC i (removeFFRow isC S i),
      ∀ cj ∈ Classical.strongC isC (removeFFRow isC S i),
        Classical.lookup (A ck.1) cj.1 = 0 ∨ |Classical.lookup (A ck.1) cj.1| > eps * |ck.2|) :
    rsum ((classicalModP eps isC n A S).getD i []) = 1 := by
  rw [classicalModP_row eps isC n A S hi]
  simp only [hF, Bool.false_eq_true, if_false]
  rw [rsum_renum]
  have hFk : ∀ ck ∈ Classical.strongF isC i (removeFFRow isC S i), isC ck.1 = false := by
    intro ck hck
    have := (List.mem_filter.1 hck).2
    simp only [Bool.and_eq_true, Bool.not_eq_true', decide_eq_true_eq] at this
    exact this.1
  have hCj : ∀ cj ∈ Classical.strongC isC (removeFFRow isC S i), isC cj.1 = true :=
    fun cj hcj => (List.mem_filter.1 hcj).2
  have hNear : ∀ ck ∈ Classical.strongF isC i (removeFFRow isC S i), ck.1 ∈ near S i :=
    fun ck hck => near_of_mem (mem_removeFFRow (List.mem_filter.1 hck).1)
  have hM : Classical.MRows isC i (removeFFRow isC S i) A :=
    ⟨fun ck hck => hdiag ck.1 (hNear ck hck),
     fun ck hck cj hcj => hoff ck.1 (hNear ck hck) cj (mem_removeFFRow (List.mem_filter.1 hcj).1) (by
       intro h; have h1 := hFk ck hck; have h2 := hCj cj hcj; rw [h, h1] at h2
       exact Bool.false_ne_true h2),
     fun ck hck cj hcj => hnodup ck.1 (hNear ck hck) cj (mem_removeFFRow (List.mem_filter.1 hcj).1)⟩
  have hden : Classical.denom i (A i) (removeFFRow isC S i) ≠ 0 := by
    apply ne_of_gt
    apply denom_pos isC i hF _ _ hzero
    · intro cm hcm hne
      exact (hSA i (near_self S i) cm (mem_removeFFRow hcm) hne).2
    · obtain ⟨cj, hcj, hCj'⟩ := hC
      exact ⟨cj, List.mem_filter.2 ⟨hcj, by simp [hCj']⟩, hCj'⟩
  have hinner : ∀ ck ∈ Classical.strongF isC i (removeFFRow isC S i),
      Classical.inner isC (removeFFRow isC S i) (A ck.1) ≠ 0 := by
    intro ck hck
    apply ne_of_lt
    have hkF := hFk ck hck
    apply inner_neg isC _ A S ck.1 hkF (fun cl hcl => hM.offd ck hck cl hcl) (hSA ck.1 (hNear ck hck))
    have hmem : ck ∈ removeFFRow isC S i := (List.mem_filter.1 hck).1
    have hkeepk := (List.mem_filter.1 hmem).2
    simp only [hkF, Bool.false_or] at hkeepk
    obtain ⟨cl, hcl, hClC, cm, hcm, he⟩ := commonC_spec hkeepk
    refine ⟨cl, ?_, cm, hcm, he⟩
    exact List.mem_filter.2 ⟨List.mem_filter.2 ⟨hcl, by simp [hClC]⟩, hClC⟩
  have := Classical.classicalRowM_rowsum eps isC i hF (removeFFRow isC S i) A hM hzero hden hinner hkeep
  simpa [rsum, Classical.rsum] using this

/-- unmodified classical interpolation: the same conclusion when every strongly connected
F-neighbour shares a strong C-point with the row (the condition C1 of Ruge–Stüben that a second
pass is meant to establish) -/
theorem classicalP_rowsum_of_commonC (eps : K) (isC : Nat → Bool) (n : Nat) (A S : Nat → Row K)
    {i : Nat} (hi : i < n) (hF : isC i = false)
    (hoff : ∀ k ∈ near S i, ∀ cj ∈ S i, cj.1 ≠ k → Classical.lookup (A k) cj.1 ≤ 0)
    (hSA : ∀ k ∈ near S i, ∀ cm ∈ S k, cm.1 ≠ k → Classical.lookup (A k) cm.1 = cm.2 ∧ cm.2 < 0)
    (hzero : Classical.rsum (A i) = 0)
    (hC : ∃ cj ∈ S i, isC cj.1 = true)
    (hcommon : ∀ ck ∈ Classical.strongF isC i (S i), commonC isC (S i) (S ck.1) = true)
    (hkeep : ∀ ck ∈ Classical.strongF isC i (S i), ∀ cj ∈ Classical.strongC isC (S i),
      Classical.lookup (A ck.1) cj.1 = 0 ∨ |Classical.lookup (A ck.1) cj.1| > eps * |ck.2|) :
    rsum ((classicalP eps isC n A S).getD i []) = 1 := by
  apply classicalP_rowsum eps isC n A S hi hF hzero
  · apply ne_of_gt
    exact denom_pos isC i hF _ _ hzero (fun cm hcm hne => (hSA i (near_self S i) cm hcm hne).2) hC
  · intro ck hck
    apply ne_of_lt
    have hkF : isC ck.1 = false := by
      have := (List.mem_filter.1 hck).2
      simp only [Bool.and_eq_true, Bool.not_eq_true', decide_eq_true_eq] at this
      exact this.1
    have hN : ck.1 ∈ near S i := near_of_mem (List.mem_filter.1 hck).1
    apply inner_neg isC _ A S ck.1 hkF (fun cl hcl => hoff ck.1 hN cl (List.mem_filter.1 hcl).1 (by
      intro h; have h2 := (List.mem_filter.1 hcl).2; rw [h, hkF] at h2
      exact Bool.false_ne_true h2)) (hSA ck.1 hN)
    obtain ⟨cl, hcl, hClC, cm, hcm, he⟩ := commonC_spec (hcommon ck hck)
    exact ⟨cl, List.mem_filter.2 ⟨hcl, hClC⟩, cm, hcm, he⟩
  · exact hkeep

/-! ### eq. (9): the modified weights in closed form -/

/-- removing F–F connections never touches the strongly connected C-points … -/
theorem strongC_removeFFRow (isC : Nat → Bool) (S : Nat → Row K) (i : Nat) :
    Classical.strongC isC (removeFFRow isC S i) = Classical.strongC isC (S i) := by
  unfold Classical.strongC removeFFRow
  rw [List.filter_filter]
  apply List.filter_congr
  intro cv _
  cases isC cv.1 <;> simp

/-- … and keeps exactly the strong F-neighbours that share a strong C-point with the row
(`F_i^s \ F_i^{s*}` of De Sterck–Falgout–Nolting–Yang) -/
theorem strongF_removeFFRow (isC : Nat → Bool) (S : Nat → Row K) (i : Nat) :
    Classical.strongF isC i (removeFFRow isC S i) =
      (Classical.strongF isC i (S i)).filter (fun ck => commonC isC (S i) (S ck.1)) := by
  unfold Classical.strongF removeFFRow
  rw [List.filter_filter, List.filter_filter]
  apply List.filter_congr
  intro cv _
  cases isC cv.1 <;> simp [Bool.and_comm]

/-- **published modified formula (eq. (9))** on M-matrix rows: with `C = C_i^s`,
`F' = {k ∈ F_i^s : C_i^s ∩ C_k^s ≠ ∅}` and `s'` the strength row restricted to `C ∪ F'`,
`w_ij = -(a_ij + Σ_{k∈F'} a_ik a_kj / Σ_{m∈C} a_km) / (Σ_m a_im − Σ_{m∈s', m≠i} a_im)` -/
theorem modified_formula (eps : K) (isC : Nat → Bool) (i : Nat) (S A : Nat → Row K)
    (hM : Classical.MRows isC i (removeFFRow isC S i) A)
    (cj : Nat × K) (hcj : cj ∈ Classical.strongC isC (S i))
    (hkeep : ∀ ck ∈ Classical.strongF isC i (removeFFRow isC S i),
      Classical.lookup (A ck.1) cj.1 = 0 ∨ |Classical.lookup (A ck.1) cj.1| > eps * |ck.2|) :
    (cj.1, -(cj.2 + (((Classical.strongF isC i (S i)).filter
          (fun ck => commonC isC (S i) (S ck.1))).map (fun ck =>
        ck.2 * Classical.lookup (A ck.1) cj.1 / Classical.inner isC (S i) (A ck.1))).sum) /
        Classical.denom i (A i) (removeFFRow isC S i))
      ∈ Classical.classicalRowM eps isC i (removeFFRow isC S i) A := by
  rw [Classical.classicalRowM_eq eps isC i _ A hM]
  have h := Classical.classicalRow_formula eps isC i (removeFFRow isC S i) A cj
    (by rw [strongC_removeFFRow]; exact hcj) hkeep
  rw [strongF_removeFFRow] at h
  have hin : ∀ krow : Row K, Classical.inner isC (removeFFRow isC S i) krow = Classical.inner isC (S i) krow := by
    intro krow; unfold Classical.inner; rw [strongC_removeFFRow]
  simpa only [hin] using h

end PyamgV.C11
