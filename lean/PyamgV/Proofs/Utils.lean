import PyamgV.Proofs.GsEnergy
import Mathlib.Algebra.Order.AbsoluteValue.Basic

/-! PyamgV (C19): row/column scaling of a CSR matrix equals multiplication by the diagonal
matrices; Ritz values of a symmetric operator never exceed a Rayleigh bound. -/
namespace PyamgV

variable {K : Type*} [Field K] [LinearOrder K] [IsStrictOrderedRing K] [DecidableEq K]

/-- `csr_scale_rows`: every stored entry of row `i` is multiplied by `v i` -/
def scaleRows (v : Nat → K) (rows : Nat → Row K) : Nat → Row K :=
  fun i => (rows i).map (fun cv => (cv.1, v i * cv.2))

/-- `csr_scale_columns`: every stored entry in column `j` is multiplied by `w j` -/
def scaleCols (w : Nat → K) (rows : Nat → Row K) : Nat → Row K :=
  fun i => (rows i).map (fun cv => (cv.1, cv.2 * w cv.1))

theorem rowDot_map_left (c : K) (row : Row K) (u : Nat → K) :
    rowDot (row.map (fun cv => (cv.1, c * cv.2))) u = c * rowDot row u := by
  unfold rowDot; induction row with
  | nil => simp
  | cons a rest ih =>
    simp only [List.map_cons, List.sum_cons] at ih ⊢
    rw [ih]; ring

theorem rowDot_map_right (w : Nat → K) (row : Row K) (u : Nat → K) :
    rowDot (row.map (fun cv => (cv.1, cv.2 * w cv.1))) u = rowDot row (fun j => w j * u j) := by
  unfold rowDot; induction row with
  | nil => simp
  | cons a rest ih =>
    simp only [List.map_cons, List.sum_cons] at ih ⊢
    rw [ih]; ring

/-- **scale_rows = diag(v) · A** -/
theorem scaleRows_spec (n : Nat) (v : Nat → K) (rows : Nat → Row K) (u : Nat → K) (i : Nat) (hi : i < n) :
    csrOp n (scaleRows v rows) u i = v i * csrOp n rows u i := by
  rw [csrOp_apply _ _ _ _ hi, csrOp_apply _ _ _ _ hi]
  exact rowDot_map_left (v i) (rows i) u

/-- **scale_columns = A · diag(w)** -/
theorem scaleCols_spec (n : Nat) (w : Nat → K) (rows : Nat → Row K) (u : Nat → K) (i : Nat) (hi : i < n) :
    csrOp n (scaleCols w rows) u i = csrOp n rows (fun j => w j * u j) i := by
  rw [csrOp_apply _ _ _ _ hi, csrOp_apply _ _ _ _ hi]
  exact rowDot_map_right w (rows i) u

/-- the pattern is untouched by either scaling (same columns, same order) -/
theorem scaleRows_pattern (v : Nat → K) (rows : Nat → Row K) (i : Nat) :
    ((scaleRows v rows) i).map (·.1) = (rows i).map (·.1) := by
  simp [scaleRows, List.map_map, Function.comp_def]

section Ritz
variable {V W : Type*} [AddCommGroup V] [Module K V] [AddCommGroup W] [Module K W]

/-- **Ritz values never exceed the Rayleigh bound**: if `|⟨A x, x⟩| ≤ ρ ⟨x, x⟩` for all `x`
(true with ρ = spectral radius for a symmetric `A`), `Q` has orthonormal columns
(`⟨Q y, Q z⟩ = ⟨y, z⟩₂`) and `θ` is an eigenvalue of `H = Qᵀ A Q` with eigenvector `y ≠ 0`
(in the form `⟨A Q y, Q z⟩ = θ ⟨y, z⟩₂` for all `z`), then `|θ| ≤ ρ`. -/
theorem ritz_le_rho (e : EForm K V) (e2 : EForm K W) (A : V →ₗ[K] V) (Q : W →ₗ[K] V) (ρ θ : K)
    (hray : ∀ x, |e.a (A x) x| ≤ ρ * e.a x x)
    (horth : ∀ y z, e.a (Q y) (Q z) = e2.a y z)
    (y : W) (hy : 0 < e2.a y y) (heig : ∀ z, e.a (A (Q y)) (Q z) = θ * e2.a y z) :
    |θ| ≤ ρ := by
  have h1 := hray (Q y)
  rw [heig y, horth y y, abs_mul, abs_of_pos hy] at h1
  exact le_of_mul_le_mul_right h1 hy

end Ritz

#print axioms scaleRows_spec
#print axioms ritz_le_rho
end PyamgV
