import PyamgV.Proofs.C13Wrap
import PyamgV.Proofs.C13Term
import Mathlib.Algebra.Order.Field.Basic
import Mathlib.Tactic.Linarith

/-! PyamgV (C13): the weight types the driver executes.  `ℚ` (the exact values of the doubles the
kernels compare) is a strict total order (`ratOrd`, for PMIS/PMISc), obeys the CLJP weight laws
(`ratLaw`) and its comparison is a strict partial order (`ratLt`, for the termination of the CLJP
selection loop); the instances of the wrapper-level theorems for these weights follow. -/
namespace PyamgV.C13
open PyamgV

/-- the weights the MIS kernel compares (doubles, i.e. dyadic rationals, compared exactly) are
strictly totally ordered -/
theorem ratOrd : WOrd Rat :=
  ⟨fun a => lt_irrefl a, fun a _ h h' => lt_irrefl a (lt_trans h h'), fun _ _ _ => lt_trans,
   fun a b => lt_trichotomy a b⟩

/-- the laws of the CLJP weight arithmetic hold over ℚ with `ge w k := k ≤ w` -/
theorem ratLaw : KCljp.WLaw ratOps (fun w k => (k : Rat) ≤ w) := by
  refine ⟨?_, ?_, ?_, ?_⟩
  · intro w k h
    show ((k + 1 : Nat) : Rat) ≤ w + 1
    push_cast; linarith
  · intro w k h
    show (k : Rat) ≤ w - 1
    have : ((k + 1 : Nat) : Rat) ≤ w := h
    push_cast at this; linarith
  · intro w h
    show decide (w < 1) = false
    have : ((1 : Nat) : Rat) ≤ w := h
    push_cast at this
    simp [not_lt.2 this]
  · intro w k h
    have : ((k + 1 : Nat) : Rat) ≤ w := h
    push_cast at this
    show (k : Rat) ≤ w
    linarith

theorem ratLt : KCljp.LtOrd ratOps :=
  ⟨fun a => by show decide (a < a) = false; simp,
   fun a b c h1 h2 => by
     have h1' : a < b := by simpa [ratOps] using h1
     have h2' : b < c := by simpa [ratOps] using h2
     show decide (a < c) = true
     simpa using lt_trans h1' h2'⟩

/-- the selection loop of the wrapper-level CLJP model exits within `n + 1` passes -/
theorem cljp_exits {V : Type} [Inhabited V] (o : KCljp.WOps V) (hO : KCljp.LtOrd o) (S : Pat) (w0 : Array V) :
    (cljpSplit o S w0).2 = true := by
  rw [cljpSplit_eq]
  exact KCljp.run_exits (prep_KSOK S) o hO w0 (S.n + 1) (by show S.n ≤ S.n + 1; omega)

/-- **`CLJP`/`CLJPc` over exact rational weights — unconditional**: for every pattern and all initial
weights `≥ 0` the model returns (the loop exits), with one 0/1 flag per node, and every fine point
that strongly depends on some node strongly depends on a coarse point. -/
theorem cljp_rat (S : Pat) (w0 : Array Rat) (hw : w0.size = S.n) (h0 : ∀ m, m < S.n → 0 ≤ KCljp.rdW w0 m) :
    (cljpSplit ratOps S w0).2 = true ∧
    (cljpSplit ratOps S w0).1.size = S.n ∧
    (∀ k, k < S.n → KCljp.rdI (cljpSplit ratOps S w0).1 k = 0 ∨ KCljp.rdI (cljpSplit ratOps S w0).1 k = 1) ∧
    (∀ k, k < S.n → KCljp.rdI (cljpSplit ratOps S w0).1 k = 0 → offRow S k ≠ [] →
        ∃ c ∈ offRow S k, KCljp.rdI (cljpSplit ratOps S w0).1 c = 1) :=
  ⟨cljp_exits ratOps ratLt S w0,
   cljp_spec ratOps ratLaw S w0 hw (fun m hm => by simpa using h0 m hm) (cljp_exits ratOps ratLt S w0)⟩

/-- `PMIS`/`PMISc` with the weights the kernel saw -/
theorem pmis_rat (S : Pat) (w : Nat → Rat) :
    (pmisSplit S w true).size = S.n ∧
    (∀ i, i < S.n → rd (pmisSplit S w true) i = 0 ∨ rd (pmisSplit S w true) i = 1) ∧
    (∀ i j, i < S.n → j < S.n → Conn S i j →
        rd (pmisSplit S w true) i = 1 → rd (pmisSplit S w true) j ≠ 1) ∧
    (∀ i j, i < S.n → j < S.n → Conn S i j → rd (pmisSplit S w true) i = 0 →
        ∃ c, Conn S i c ∧ rd (pmisSplit S w true) c = 1) := pmis_spec ratOrd S w

end PyamgV.C13
