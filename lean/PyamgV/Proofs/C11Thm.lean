import PyamgV.Proofs.C11Kernel

/-! PyamgV (C11): theorems about the whole-operator definitions of `C11Kernel`:
coarse renumbering is an order isomorphism of the C-points onto `0..nc-1`; C-rows are unit rows;
F-rows are supported on strongly connected C-points; row sums (direct, classical under the
common-C condition, modified classical for *every* splitting) and exact interpolation of
constants; one-point and injection structure. -/
namespace PyamgV.C11

variable {K : Type*} [Field K] [LinearOrder K] [IsStrictOrderedRing K]

/-! ### coarse renumbering -/

theorem cidx_succ (isC : Nat → Bool) (j : Nat) :
    cidx isC (j + 1) = cidx isC j + (if isC j = true then 1 else 0) := by
  unfold cidx
  rw [List.range_succ, List.filter_append, List.length_append]
  by_cases h : isC j = true <;> simp [h]

theorem cidx_mono (isC : Nat → Bool) {j k : Nat} (h : j ≤ k) : cidx isC j ≤ cidx isC k := by
  induction k, h using Nat.le_induction with
  | base => exact Nat.le_refl _
  | succ k _ ih => rw [cidx_succ]; omega

/-- a C-point gets a smaller coarse index than everything after it -/
theorem cidx_lt (isC : Nat → Bool) {j k : Nat} (hj : isC j = true) (h : j < k) :
    cidx isC j < cidx isC k := by
  have h1 := cidx_succ isC j
  rw [if_pos hj] at h1
  have h2 := cidx_mono isC (show j + 1 ≤ k from h)
  omega

/-- distinct C-points get distinct coarse indices -/
theorem cidx_inj (isC : Nat → Bool) {j k : Nat} (hj : isC j = true) (hk : isC k = true)
    (h : cidx isC j = cidx isC k) : j = k := by
  rcases Nat.lt_trichotomy j k with hlt | heq | hgt
  · have := cidx_lt isC hj hlt; omega
  · exact heq
  · have := cidx_lt isC hk hgt; omega

/-- coarse indices of C-points below `n` lie in `0..nc-1`, `nc = cidx n` = number of C-points -/
theorem cidx_lt_nc (isC : Nat → Bool) {j n : Nat} (hj : isC j = true) (h : j < n) :
    cidx isC j < cidx isC n := cidx_lt isC hj h

/-! ### rows of the operators -/

theorem directP_row (isC : Nat → Bool) (n : Nat) (A S : Nat → Row K) {i : Nat} (hi : i < n) :
    (directP isC n A S).getD i [] =
      if isC i then [(cidx isC i, 1)] else renum isC (Direct.directRow isC i (A i) (S i)) := by
  simp [directP, List.getD, hi]

theorem classicalP_row (eps : K) (isC : Nat → Bool) (n : Nat) (A S : Nat → Row K) {i : Nat}
    (hi : i < n) :
    (classicalP eps isC n A S).getD i [] =
      if isC i then [(cidx isC i, 1)] else renum isC (Classical.classicalRow eps isC i (S i) A) := by
  simp [classicalP, List.getD, hi]

theorem classicalModP_row (eps : K) (isC : Nat → Bool) (n : Nat) (A S : Nat → Row K) {i : Nat}
    (hi : i < n) :
    (classicalModP eps isC n A S).getD i [] =
      if isC i then [(cidx isC i, 1)]
      else renum isC (Classical.classicalRowM eps isC i (removeFFRow isC S i) A) := by
  simp [classicalModP, List.getD, hi]

theorem onePointP_row (isC : Nat → Bool) (n : Nat) (S : Nat → Row K) {i : Nat} (hi : i < n) :
    (onePointP isC n S).getD i [] =
      if isC i then [(cidx isC i, 1)]
      else match OnePoint.onePoint isC (S i) with
        | none => []
        | some c => [(cidx isC c.1, -c.2)] := by
  unfold onePointP
  rw [List.getD_eq_getElem?_getD, List.getElem?_map, List.getElem?_range hi]
  rfl

theorem injectionP_row (isC : Nat → Bool) (n : Nat) {i : Nat} (hi : i < n) :
    (injectionP (K := K) isC n).getD i [] = if isC i then [(cidx isC i, (1 : K))] else [] := by
  simp [injectionP, List.getD, hi]

/-- **every coarse point gets an identity row** (all five operators): one entry, value one, in
the point's own coarse column — and by `cidx_inj` no other C-point uses that column. -/
theorem coarse_rows_identity (eps : K) (isC : Nat → Bool) (n : Nat) (A S : Nat → Row K) {i : Nat}
    (hi : i < n) (hC : isC i = true) :
    (directP isC n A S).getD i [] = [(cidx isC i, 1)] ∧
    (classicalP eps isC n A S).getD i [] = [(cidx isC i, 1)] ∧
    (classicalModP eps isC n A S).getD i [] = [(cidx isC i, 1)] ∧
    (onePointP isC n S).getD i [] = [(cidx isC i, 1)] ∧
    (injectionP (K := K) isC n).getD i [] = [(cidx isC i, 1)] := by
  rw [directP_row isC n A S hi, classicalP_row eps isC n A S hi, classicalModP_row eps isC n A S hi,
    onePointP_row isC n S hi, injectionP_row isC n hi]
  simp [hC]

/-! ### support of the fine rows -/

theorem mem_renum {isC : Nat → Bool} {r : Row K} {cw : Nat × K} (h : cw ∈ renum isC r) :
    ∃ jv ∈ r, cw = (cidx isC jv.1, jv.2) := by
  simp only [renum, List.mem_map] at h
  obtain ⟨jv, hjv, rfl⟩ := h
  exact ⟨jv, hjv, rfl⟩

/-- direct interpolation: every weight of an F-row sits on the coarse index of a strongly
connected C-point `j ≠ i` (inside `0..nc-1` when the strength row stays below `n`) -/
theorem directP_support (isC : Nat → Bool) (n : Nat) (A S : Nat → Row K) {i : Nat} (hi : i < n)
    (hF : isC i = false) (hcols : ∀ cv ∈ S i, cv.1 < n) :
    ∀ cw ∈ (directP isC n A S).getD i [],
      ∃ j, cw.1 = cidx isC j ∧ isC j = true ∧ j ≠ i ∧ (∃ v, (j, v) ∈ S i) ∧ cw.1 < cidx isC n := by
  intro cw h
  rw [directP_row isC n A S hi] at h
  simp only [hF, Bool.false_eq_true, if_false] at h
  obtain ⟨jv, hjv, rfl⟩ := mem_renum h
  obtain ⟨h1, h2, v, h3⟩ := Direct.directRow_support isC i (A i) (S i) jv hjv
  exact ⟨jv.1, rfl, h1, h2, ⟨v, h3⟩, cidx_lt_nc isC h1 (hcols (jv.1, v) h3)⟩

theorem classicalP_support (eps : K) (isC : Nat → Bool) (n : Nat) (A S : Nat → Row K) {i : Nat}
    (hi : i < n) (hF : isC i = false) (hcols : ∀ cv ∈ S i, cv.1 < n) :
    ∀ cw ∈ (classicalP eps isC n A S).getD i [],
      ∃ j, cw.1 = cidx isC j ∧ isC j = true ∧ (∃ v, (j, v) ∈ S i) ∧ cw.1 < cidx isC n := by
  intro cw h
  rw [classicalP_row eps isC n A S hi] at h
  simp only [hF, Bool.false_eq_true, if_false] at h
  obtain ⟨jv, hjv, rfl⟩ := mem_renum h
  obtain ⟨h1, v, h3⟩ := Classical.classicalRow_support eps isC i (S i) A jv hjv
  exact ⟨jv.1, rfl, h1, ⟨v, h3⟩, cidx_lt_nc isC h1 (hcols (jv.1, v) h3)⟩

theorem mem_removeFFRow {isC : Nat → Bool} {S : Nat → Row K} {i : Nat} {cv : Nat × K}
    (h : cv ∈ removeFFRow isC S i) : cv ∈ S i := (List.mem_filter.1 h).1

theorem classicalModP_support (eps : K) (isC : Nat → Bool) (n : Nat) (A S : Nat → Row K) {i : Nat}
    (hi : i < n) (hF : isC i = false) (hcols : ∀ cv ∈ S i, cv.1 < n) :
    ∀ cw ∈ (classicalModP eps isC n A S).getD i [],
      ∃ j, cw.1 = cidx isC j ∧ isC j = true ∧ (∃ v, (j, v) ∈ S i) ∧ cw.1 < cidx isC n := by
  intro cw h
  rw [classicalModP_row eps isC n A S hi] at h
  simp only [hF, Bool.false_eq_true, if_false] at h
  obtain ⟨jv, hjv, rfl⟩ := mem_renum h
  simp only [Classical.classicalRowM, List.mem_map] at hjv
  obtain ⟨cj, hcj, rfl⟩ := hjv
  have hm := List.mem_filter.1 hcj
  have hS : cj ∈ S i := mem_removeFFRow hm.1
  exact ⟨cj.1, rfl, hm.2, ⟨cj.2, hS⟩, cidx_lt_nc isC hm.2 (hcols cj hS)⟩

/-! ### row sums and constants -/

theorem rsum_renum (isC : Nat → Bool) (r : Row K) : rsum (renum isC r) = rsum r := by
  simp [rsum, renum, List.map_map, Function.comp_def]

/-- a row whose weights sum to one reproduces constants: `(P c·1)_i = c` -/
theorem applyRow_const (r : Row K) (c : K) (h : rsum r = 1) : applyRow r (fun _ => c) = c := by
  have : applyRow r (fun _ => c) = rsum r * c := by
    unfold applyRow rsum
    clear h
    induction r with
    | nil => simp
    | cons a rest ih => simp only [List.map_cons, List.sum_cons]; rw [ih]; ring
  rw [this, h, one_mul]

/-- direct interpolation, zero-row-sum M-matrix row with a non-degenerate strong C set -/
theorem directP_rowsum (isC : Nat → Bool) (n : Nat) (A S : Nat → Row K) {i : Nat} (hi : i < n)
    (hF : isC i = false)
    (hoff : ∀ cv ∈ Direct.offd i (A i), cv.2 < 0)
    (hstr : ∀ cv ∈ Direct.strongC isC i (S i), cv.2 < 0)
    (hzero : Direct.diagOf i (A i) + ((Direct.offd i (A i)).map (·.2)).sum = 0)
    (hssn : ((Direct.strongC isC i (S i)).map (·.2)).sum ≠ 0)
    (hdiag : Direct.diagOf i (A i) ≠ 0) :
    rsum ((directP isC n A S).getD i []) = 1 := by
  rw [directP_row isC n A S hi]
  simp only [hF, Bool.false_eq_true, if_false]
  rw [rsum_renum]
  exact Direct.directRow_rowsum isC i (A i) (S i) hoff hstr hzero hssn hdiag

theorem classicalP_rowsum (eps : K) (isC : Nat → Bool) (n : Nat) (A S : Nat → Row K) {i : Nat}
    (hi : i < n) (hF : isC i = false)
    (hzero : Classical.rsum (A i) = 0)
    (hden : Classical.denom i (A i) (S i) ≠ 0)
    (hinner : ∀ ck ∈ Classical.strongF isC i (S i), Classical.inner isC (S i) (A ck.1) ≠ 0)
    (hkeep : ∀ ck ∈ Classical.strongF isC i (S i), ∀ cj ∈ Classical.strongC isC (S i),
      Classical.lookup (A ck.1) cj.1 = 0 ∨ |Classical.lookup (A ck.1) cj.1| > eps * |ck.2|) :
    rsum ((classicalP eps isC n A S).getD i []) = 1 := by
  rw [classicalP_row eps isC n A S hi]
  simp only [hF, Bool.false_eq_true, if_false]
  rw [rsum_renum]
  exact Classical.classicalRow_rowsum eps isC i hF (S i) A hzero hden hinner hkeep

/-! ### one-point and injection interpolation -/

/-- **one-point interpolation, F-row**: empty iff the strength row has no C-point; otherwise exactly
one entry, on the coarse index of a strongly connected C-point of maximal |strength|, with the
kernel's value `-C[i, j]` -/
theorem onePointP_spec (isC : Nat → Bool) (n : Nat) (S : Nat → Row K) {i : Nat} (hi : i < n)
    (hF : isC i = false) :
    ((∀ cv ∈ S i, isC cv.1 = false) → (onePointP isC n S).getD i [] = []) ∧
    ((∃ cv ∈ S i, isC cv.1 = true) → ∃ c ∈ S i, isC c.1 = true ∧
      (∀ cv ∈ S i, isC cv.1 = true → |cv.2| ≤ |c.2|) ∧
      (onePointP isC n S).getD i [] = [(cidx isC c.1, -c.2)]) := by
  rw [onePointP_row isC n S hi]
  simp only [hF, Bool.false_eq_true, if_false]
  have hs := OnePoint.onePoint_spec isC (S i)
  cases h : OnePoint.onePoint isC (S i) with
  | none =>
    refine ⟨fun _ => rfl, ?_⟩
    rintro ⟨cv, hcv, hC⟩
    have := hs.1 h cv hcv
    rw [this] at hC; exact absurd hC (by decide)
  | some c =>
    obtain ⟨h1, h2, h3⟩ := hs.2 c h
    refine ⟨?_, fun _ => ⟨c, h1, h2, h3, rfl⟩⟩
    intro hall
    have := hall c h1
    rw [this] at h2; exact absurd h2 (by decide)

/-- **injection**: C-rows are unit rows, F-rows are empty -/
theorem injectionP_spec (isC : Nat → Bool) (n : Nat) {i : Nat} (hi : i < n) :
    (isC i = true → (injectionP (K := K) isC n).getD i [] = [(cidx isC i, 1)]) ∧
    (isC i = false → (injectionP (K := K) isC n).getD i [] = []) := by
  rw [injectionP_row isC n hi]
  constructor <;> intro h <;> simp [h]

end PyamgV.C11
