import PyamgV.Model.C19Utils
import PyamgV.Proofs.Utils

/-! PyamgV (C19): the *executable* scaling models of `Model/C19Utils.lean` (the ones compared exactly
with `scale_rows` / `scale_columns` and the CSC kernels on every run) are the function-level
`scaleRows` / `scaleCols` of `Proofs/Utils.lean`; hence they are `diag(v) A` and `A diag(v)`, and
they never touch the sparsity structure. -/
namespace PyamgV.C19
open PyamgV

section structure_
variable {K : Type} [Mul K] [OfNat K 0]

theorem scaleMajor_getD (v : Array K) (rows : Rows K) (i : Nat) :
    (scaleMajor v rows).getD i [] = (rows.getD i []).map (fun cv => (cv.1, cv.2 * rd v i)) := by
  unfold scaleMajor
  by_cases h : i < rows.length
  · simp [List.getD_eq_getElem?_getD, List.getElem?_mapIdx, List.getElem?_eq_getElem h]
  · have h' : rows.length ≤ i := Nat.le_of_not_lt h
    simp [List.getD_eq_getElem?_getD, List.getElem?_mapIdx, List.getElem?_eq_none h']

theorem scaleMinor_getD (v : Array K) (rows : Rows K) (i : Nat) :
    (scaleMinor v rows).getD i [] = (rows.getD i []).map (fun cv => (cv.1, cv.2 * rd v cv.1)) := by
  unfold scaleMinor
  by_cases h : i < rows.length
  · simp [List.getD_eq_getElem?_getD, List.getElem?_eq_getElem h]
  · have h' : rows.length ≤ i := Nat.le_of_not_lt h
    simp [List.getD_eq_getElem?_getD, List.getElem?_eq_none h']

/-- neither scaling touches the structure: same index array, same slice lengths -/
theorem scaleMajor_idx (v : Array K) (rows : Rows K) : idxOf (scaleMajor v rows) = idxOf rows := by
  unfold idxOf scaleMajor
  induction rows using List.reverseRecOn with
  | nil => simp
  | append_singleton l a ih => simp [List.mapIdx_append, List.flatMap_append, ih, List.map_map, Function.comp_def]

theorem scaleMinor_idx (v : Array K) (rows : Rows K) : idxOf (scaleMinor v rows) = idxOf rows := by
  unfold idxOf scaleMinor
  induction rows with
  | nil => simp
  | cons a l ih => simp [List.flatMap_cons, ih, List.map_map, Function.comp_def]

theorem scaleMajor_lengths (v : Array K) (rows : Rows K) :
    (scaleMajor v rows).map List.length = rows.map List.length := by
  apply List.ext_getElem?
  intro i
  simp [scaleMajor, List.getElem?_mapIdx, List.getElem?_map]
  cases rows[i]? <;> simp

theorem scaleMinor_lengths (v : Array K) (rows : Rows K) :
    (scaleMinor v rows).map List.length = rows.map List.length := by
  simp [scaleMinor, List.map_map, Function.comp_def]

end structure_

variable {K : Type} [Field K] [LinearOrder K] [IsStrictOrderedRing K] [DecidableEq K]

/-- a list of slices read as the function the proofs use (empty outside) -/
def rowsFn (rows : Rows K) : Nat → Row K := fun i => rows.getD i []
/-- an array read as a function (zero outside) -/
def vecFn (v : Array K) : Nat → K := fun i => rd v i

/-- the executable row scaling is the proof-side `scaleRows` -/
theorem scaleMajor_eq_scaleRows (v : Array K) (rows : Rows K) :
    rowsFn (scaleMajor v rows) = scaleRows (vecFn v) (rowsFn rows) := by
  funext i
  unfold rowsFn scaleRows vecFn
  rw [scaleMajor_getD]
  apply List.map_congr_left
  intro cv _
  rw [mul_comm]

/-- the executable column scaling is the proof-side `scaleCols` -/
theorem scaleMinor_eq_scaleCols (v : Array K) (rows : Rows K) :
    rowsFn (scaleMinor v rows) = scaleCols (vecFn v) (rowsFn rows) := by
  funext i
  unfold rowsFn scaleCols vecFn
  rw [scaleMinor_getD]

/-- **`csr_scale_rows` (`csc_scale_columns`) model = `diag(v) · A`**, as operators, row by row -/
theorem scaleMajor_spec (n : Nat) (v : Array K) (rows : Rows K) (u : Nat → K) (i : Nat) (hi : i < n) :
    csrOp n (rowsFn (scaleMajor v rows)) u i = rd v i * csrOp n (rowsFn rows) u i := by
  rw [scaleMajor_eq_scaleRows]
  exact scaleRows_spec n (vecFn v) (rowsFn rows) u i hi

/-- **`csr_scale_columns` (`csc_scale_rows`) model = `A · diag(v)`** -/
theorem scaleMinor_spec (n : Nat) (v : Array K) (rows : Rows K) (u : Nat → K) (i : Nat) (hi : i < n) :
    csrOp n (rowsFn (scaleMinor v rows)) u i = csrOp n (rowsFn rows) (fun j => rd v j * u j) i := by
  rw [scaleMinor_eq_scaleCols]
  exact scaleCols_spec n (vecFn v) (rowsFn rows) u i hi

#print axioms scaleMajor_spec
#print axioms scaleMinor_spec
#print axioms scaleMajor_idx
end PyamgV.C19
