import PyamgV.Proofs.ExtC03YLin

/-! PyamgV (extension E55, C03): the generic part of the scalar-polymorphic extended cycle model `Model/ExtC03YCyc.lean`, over an
arbitrary field (the statements of Proofs/ExtC03XGen.lean, which are about `ℚ`):

* `SemLin A f Q` -- the list-level map `f` is, under `sem`, the linear iteration `x + Q (b − A x)`;
* `cycF_sem`/`cycF_affine` -- a cycle `cycF` whose smoothers all satisfy `SemLin` refines the abstract recursion `cyc` and is the
  linear iteration with the textbook operator `MopL`;
* `semLin_viaArr` -- an array kernel that refines a function-level model `f` (`Refines`) which is a linear iteration for `msem A`
  gives a `SemLin` list-level smoother; the operator is `Tn ∘ Q ∘ Tn` (`Tn` = first `n` coordinates);
* `msem_csrDense` -- the dense form of CSR arrays denotes the CSR operator. -/
set_option linter.unusedSectionVars false
namespace PyamgV.C03Y
open PyamgV
open PyamgV.C03 (Cyc iterN)

variable {𝕜 : Type} [Field 𝕜] [DecidableEq 𝕜]

/-- `f` is, under `sem`, the linear iteration `x ← x + Q (b − A x)` -/
def SemLin (A : Mat 𝕜) (f : Vec 𝕜 → Vec 𝕜 → Vec 𝕜) (Q : Fn 𝕜 →ₗ[𝕜] Fn 𝕜) : Prop :=
  ∀ x b, sem (f x b) = sem x + Q (sem b - msem A (sem x))

theorem semLin_smooth (A Q : Mat 𝕜) : SemLin A (smooth A Q) (msem Q) := fun x b => sem_smooth A Q x b

/-- a level of `cycF` together with the operators of its two smoothers -/
structure LvlQ (𝕜 : Type) [Field 𝕜] where
  L : LvlF 𝕜
  Qpre : Fn 𝕜 →ₗ[𝕜] Fn 𝕜
  Qpost : Fn 𝕜 →ₗ[𝕜] Fn 𝕜

/-- the abstract level denoted by the data -/
def LvlQ.abs (L : LvlQ 𝕜) : LinLevel 𝕜 (Fn 𝕜) where
  A := msem L.L.A
  P := msem L.L.P
  R := msem L.L.R
  pre := fun x b => x + L.Qpre (b - msem L.L.A x)
  post := fun x b => x + L.Qpost (b - msem L.L.A x)
  Qpre := L.Qpre
  Qpost := L.Qpost

def LvlQ.Good (L : LvlQ 𝕜) : Prop := SemLin L.L.A L.L.pre L.Qpre ∧ SemLin L.L.A L.L.post L.Qpost

theorem wflsQ (Ls : List (LvlQ 𝕜)) : WFLs (Ls.map LvlQ.abs) := by
  induction Ls with
  | nil => trivial
  | cons L Ls ih => exact ⟨fun _ _ => rfl, fun _ _ => rfl, ih⟩

/-- one level of `__solve` around an arbitrary coarse-correction map -/
def levelStepF (L : LvlF 𝕜) (coarse : Vec 𝕜 → Vec 𝕜) (x b : Vec 𝕜) : Vec 𝕜 :=
  let x1 := L.pre x b
  let coarse_b := matVec L.R (vsub b (matVec L.A x1))
  L.post (vadd x1 (matVec L.P (coarse coarse_b))) b

theorem sem_levelStepF (L : LvlQ 𝕜) (hL : L.Good) (coarse : Vec 𝕜 → Vec 𝕜) (g : Fn 𝕜 → Fn 𝕜)
    (h : ∀ cb, sem (coarse cb) = g (sem cb)) (x b : Vec 𝕜) :
    sem (levelStepF L.L coarse x b) =
      L.abs.post (L.abs.pre (sem x) (sem b) +
        L.abs.P (g (L.abs.R (sem b - L.abs.A (L.abs.pre (sem x) (sem b)))))) (sem b) := by
  simp only [levelStepF, hL.1 _ _, hL.2 _ _, sem_vadd, sem_matVec, sem_vsub, h, LvlQ.abs]

/-- **refinement**: a cycle of `cycF` whose smoothers are `SemLin` is, under `sem`, the abstract recursion `cyc` -/
theorem cycF_sem (S : Mat 𝕜) : ∀ (Ls : List (LvlQ 𝕜)), (∀ l ∈ Ls, l.Good) → ∀ (c : Cyc) (cpl : Nat) (L : LvlQ 𝕜), L.Good →
    ∀ (x b : Vec 𝕜),
    sem (cycF S c cpl ((L :: Ls).map (·.L)) x b) =
      cyc (fun v => msem S v) (ctype c cpl) ((L :: Ls).map (fun l => l.abs.toLevel)) (sem x) (sem b) := by
  intro Ls
  induction Ls with
  | nil =>
    intro _ c cpl L hL x b
    have h1 : cycF S c cpl ([L].map (·.L)) x b = levelStepF L.L (matVec S) x b := by cases c <;> rfl
    rw [h1, sem_levelStepF L hL (matVec S) (fun v => msem S v) (fun cb => sem_matVec S cb)]
    simp only [List.map_cons, List.map_nil]
    rw [cyc_single]
  | cons L' rest ih =>
    intro hall c cpl L hL x b
    have hL' : L'.Good := hall L' (by simp)
    have hrest : ∀ l ∈ rest, l.Good := fun l hl => hall l (by simp [hl])
    have ih' := ih hrest
    cases c with
    | V =>
      have h1 : cycF S .V cpl ((L :: L' :: rest).map (·.L)) x b =
          levelStepF L.L (fun cb => cycF S .V 1 ((L' :: rest).map (·.L)) (zeros cb.length) cb) x b := rfl
      rw [h1, sem_levelStepF L hL _
        (fun rc => cyc (fun v => msem S v) .V ((L' :: rest).map (fun l => l.abs.toLevel)) 0 rc)
        (fun cb => by rw [ih' .V 1 L' hL', sem_zeros]; rfl)]
      rfl
    | W =>
      have h1 : cycF S .W cpl ((L :: L' :: rest).map (·.L)) x b =
          levelStepF L.L (fun cb => cycF S .W 1 ((L' :: rest).map (·.L))
            (cycF S .W 1 ((L' :: rest).map (·.L)) (zeros cb.length) cb) cb) x b := rfl
      rw [h1, sem_levelStepF L hL _
        (fun rc => cyc (fun v => msem S v) .W ((L' :: rest).map (fun l => l.abs.toLevel))
          (cyc (fun v => msem S v) .W ((L' :: rest).map (fun l => l.abs.toLevel)) 0 rc) rc)
        (fun cb => by rw [ih' .W 1 L' hL', ih' .W 1 L' hL', sem_zeros]; rfl)]
      rfl
    | F =>
      have h1 : cycF S .F cpl ((L :: L' :: rest).map (·.L)) x b =
          levelStepF L.L (fun cb => iterN (fun cx => cycF S .V 1 ((L' :: rest).map (·.L)) cx cb) cpl
            (cycF S .F cpl ((L' :: rest).map (·.L)) (zeros cb.length) cb)) x b := rfl
      rw [h1, sem_levelStepF L hL _
        (fun rc => iter (cyc (fun v => msem S v) .V ((L' :: rest).map (fun l => l.abs.toLevel)))
          rc cpl
          (cyc (fun v => msem S v) (.F cpl) ((L' :: rest).map (fun l => l.abs.toLevel)) 0 rc))
        (fun cb => by
          rw [sem_iterN _
            (cyc (fun v => msem S v) .V ((L' :: rest).map (fun l => l.abs.toLevel))) (sem cb)
            (fun v => by rw [ih' .V 1 L' hL']; rfl), ih' .F cpl L' hL', sem_zeros]; rfl)]
      rfl

theorem map_toLevelQ (Ls : List (LvlQ 𝕜)) :
    Ls.map (fun l => l.abs.toLevel) = (Ls.map LvlQ.abs).map (·.toLevel) := by
  simp [List.map_map]

/-- **one cycle of `cycF` is `x ← x + M (b − A x)`**, `M` the textbook operator composed from the smoothers' operators -/
theorem cycF_affine (S : Mat 𝕜) (c : Cyc) (cpl : Nat) (L : LvlQ 𝕜) (Ls : List (LvlQ 𝕜)) (hL : L.Good)
    (hLs : ∀ l ∈ Ls, l.Good) (x b : Vec 𝕜) :
    sem (cycF S c cpl ((L :: Ls).map (·.L)) x b) =
      sem x + MopL (msem S) (ctype c cpl) ((L :: Ls).map LvlQ.abs) (sem b - msem L.L.A (sem x)) := by
  rw [cycF_sem S Ls hLs c cpl L hL, map_toLevelQ]
  exact CF.cycL_isLinIter (msem S) (Ls.map LvlQ.abs) (ctype c cpl) L.abs (wflsQ (L :: Ls)) (sem x) (sem b)

/-! ## array kernels on zero-padding lists -/

/-- the first `n` coordinates -/
def Tn (n : Nat) : Fn 𝕜 →ₗ[𝕜] Fn 𝕜 where
  toFun u := fun i => if i < n then u i else 0
  map_add' u v := by funext i; by_cases h : i < n <;> simp [h]
  map_smul' c u := by funext i; by_cases h : i < n <;> simp [h]

theorem Tn_apply (n : Nat) (u : Fn 𝕜) (i : Nat) : Tn n u i = if i < n then u i else 0 := rfl

/-- the array function `g` (vectors of size `n`) computes the function-level model `f` -/
def Refines (n : Nat) (g : Array 𝕜 → Array 𝕜 → Array 𝕜) (f : Fn 𝕜 → Fn 𝕜 → Fn 𝕜) : Prop :=
  ∀ x b : Array 𝕜, x.size = n → b.size = n →
    (g x b).size = n ∧ ExtC09.vec (g x b) = f (ExtC09.vec x) (ExtC09.vec b)

theorem Refines.comp {n : Nat} {g₁ g₂ : Array 𝕜 → Array 𝕜 → Array 𝕜} {f₁ f₂ : Fn 𝕜 → Fn 𝕜 → Fn 𝕜}
    (h₁ : Refines n g₁ f₁) (h₂ : Refines n g₂ f₂) :
    Refines n (fun x b => g₂ (g₁ x b) b) (fun x b => f₂ (f₁ x b) b) := by
  intro x b hx hb
  obtain ⟨s1, e1⟩ := h₁ x b hx hb
  obtain ⟨s2, e2⟩ := h₂ (g₁ x b) b s1 hb
  exact ⟨s2, by rw [e2, e1]⟩

theorem Refines.id (n : Nat) : Refines (𝕜 := 𝕜) n (fun x _ => x) (fun x _ => x) := fun _ _ hx _ => ⟨hx, rfl⟩

theorem Refines.iter {n : Nat} {g : Array 𝕜 → Array 𝕜 → Array 𝕜} {f : Fn 𝕜 → Fn 𝕜 → Fn 𝕜}
    (h : Refines n g f) (k : Nat) :
    Refines n (fun x b => K.iter (fun x => g x b) k x) (fun x b => iter f b k x) := by
  induction k with
  | zero => exact Refines.id n
  | succ k ih =>
    intro x b hx hb
    obtain ⟨s1, e1⟩ := h x b hx hb
    obtain ⟨s2, e2⟩ := ih (g x b) b s1 hb
    simp only [K.iter, PyamgV.iter]
    exact ⟨s2, by rw [e2, e1]⟩

theorem size_padA (n : Nat) (v : Vec 𝕜) : (padA n v).size = n := by simp [padA]

theorem vec_padA (n : Nat) (v : Vec 𝕜) : ExtC09.vec (padA n v) = Tn n (sem v) := by
  funext i
  unfold ExtC09.vec padA
  rw [ExtC09.rd_toArray_map_range, Tn_apply]
  rfl

theorem sem_viaArr (n : Nat) (g : Array 𝕜 → Array 𝕜 → Array 𝕜) (x b : Vec 𝕜) (i : Nat) :
    sem (viaArr n g x b) i = if i < n then K.rd (g (padA n x) (padA n b)) i else sem x i := by
  unfold viaArr sem
  by_cases h : i < n
  · rw [if_pos h, List.getD_eq_getElem?_getD, List.getElem?_append_left (by simpa using h)]
    simp [h]
  · rw [if_neg h, List.getD_eq_getElem?_getD, List.getElem?_append_right (by simpa using h)]
    simp only [List.length_map, List.length_range, List.getElem?_drop]
    rw [List.getD_eq_getElem?_getD]
    congr 2
    omega

theorem getD_nil_of_le (A : Mat 𝕜) (i : Nat) (h : A.length ≤ i) : A.getD i [] = [] := by
  rw [List.getD_eq_getElem?_getD, List.getElem?_eq_none h]; rfl

theorem dotF_congr (r : Vec 𝕜) : ∀ (f g : Fn 𝕜), (∀ j < r.length, f j = g j) → dotF r f = dotF r g := by
  induction r with
  | nil => intro f g _; rfl
  | cons a r ih =>
    intro f g h
    simp only [dotF]
    rw [h 0 (by simp), ih (fun j => f (j + 1)) (fun j => g (j + 1)) (fun j hj => h (j + 1) (by simpa using hj))]

theorem msem_Tn (n : Nat) (A : Mat 𝕜) (hc : ∀ r ∈ A, r.length ≤ n) (u : Fn 𝕜) : msem A (Tn n u) = msem A u := by
  funext i
  rw [msem_apply, msem_apply]
  apply dotF_congr
  intro j hj
  have hlen : (A.getD i []).length ≤ n := by
    by_cases hi : i < A.length
    · have : A.getD i [] = A[i] := by simp [List.getD_eq_getElem?_getD, hi]
      rw [this]; exact hc _ (List.getElem_mem hi)
    · rw [getD_nil_of_le A i (Nat.le_of_not_lt hi)]; simp
  rw [Tn_apply, if_pos (by omega)]

theorem Tn_msem (n : Nat) (A : Mat 𝕜) (hr : A.length ≤ n) (u : Fn 𝕜) : Tn n (msem A u) = msem A u := by
  funext i
  rw [Tn_apply]
  by_cases h : i < n
  · rw [if_pos h]
  · rw [if_neg h, msem_apply]
    rw [getD_nil_of_le A i (by omega)]; rfl

/-- **an array kernel that computes a linear iteration for `msem A` is a `SemLin` smoother of the level matrix `A`**
(`A` with at most `n` rows and columns); the operator is `Q` restricted to the first `n` coordinates -/
theorem semLin_viaArr (n : Nat) (A : Mat 𝕜) (hr : A.length ≤ n) (hc : ∀ r ∈ A, r.length ≤ n)
    (g : Array 𝕜 → Array 𝕜 → Array 𝕜) (f : Fn 𝕜 → Fn 𝕜 → Fn 𝕜) (Q : Fn 𝕜 →ₗ[𝕜] Fn 𝕜)
    (href : Refines n g f) (hlin : IsLinIter (msem A) f Q) :
    SemLin A (viaArr n g) (Tn n ∘ₗ Q ∘ₗ Tn n) := by
  intro x b
  funext i
  rw [sem_viaArr]
  obtain ⟨_, hv⟩ := href (padA n x) (padA n b) (size_padA n x) (size_padA n b)
  have hres : Tn n (sem b) - msem A (Tn n (sem x)) = Tn n (sem b - msem A (sem x)) := by
    rw [msem_Tn n A hc, map_sub, Tn_msem n A hr]
  by_cases h : i < n
  · rw [if_pos h]
    have := congrFun hv i
    unfold ExtC09.vec at this
    rw [this]
    change f (ExtC09.vec (padA n x)) (ExtC09.vec (padA n b)) i = _
    rw [vec_padA, vec_padA, hlin, hres]
    simp only [Pi.add_apply, LinearMap.comp_apply, Tn_apply, if_pos h]
  · rw [if_neg h]
    simp only [Pi.add_apply, LinearMap.comp_apply, Tn_apply, if_neg h, add_zero]

/-! ## the dense form of CSR arrays denotes the CSR operator -/

theorem dotF_map_range (n : Nat) (e : Nat → 𝕜) (u : Fn 𝕜) :
    dotF ((List.range n).map e) u = ∑ q ∈ Finset.range n, e q * u q := by
  have gen : ∀ (m s : Nat) (u : Fn 𝕜), dotF ((List.range' s m).map e) u = ∑ q ∈ Finset.range m, e (s + q) * u q := by
    intro m
    induction m with
    | zero => intro s u; simp
    | succ m ih =>
      intro s u
      rw [List.range'_succ, List.map_cons, dotF, ih (s + 1) (fun j => u (j + 1)), Finset.sum_range_succ']
      simp only [Nat.add_zero]
      rw [add_comm]
      congr 1
      apply Finset.sum_congr rfl
      intro q _
      rw [show s + 1 + q = s + (q + 1) by omega]
  have := gen n 0 u
  rw [← List.range_eq_range'] at this
  simpa using this

theorem foldl_ite_add {ι : Type} (l : List ι) (p : ι → Prop) [DecidablePred p] (t : ι → 𝕜) (a : 𝕜) :
    l.foldl (fun s k => if p k then s + t k else s) a = a + ((l.filter (fun k => decide (p k))).map t).sum := by
  induction l generalizing a with
  | nil => simp
  | cons k l ih =>
    simp only [List.foldl_cons]
    by_cases h : p k
    · rw [if_pos h, ih, List.filter_cons_of_pos (by simpa using h)]; simp; ring
    · rw [if_neg h, ih, List.filter_cons_of_neg (by simpa using h)]

theorem csrDense_getD (A : K.Csr 𝕜) (i : Nat) (hi : i < A.n) :
    (csrDense A).getD i [] = (List.range A.n).map (fun q => ExtC09.csrEntry A i q) := by
  unfold csrDense
  rw [List.getD_eq_getElem?_getD, List.getElem?_map, List.getElem?_range hi]
  simp only [Option.map_some, Option.getD_some]
  apply List.map_congr_left
  intro q _
  rw [foldl_ite_add, zero_add]
  rfl

theorem csrDense_length (A : K.Csr 𝕜) : (csrDense A).length = A.n := by simp [csrDense]

theorem csrDense_rows (A : K.Csr 𝕜) : ∀ r ∈ csrDense A, r.length ≤ A.n := by
  intro r hr
  unfold csrDense at hr
  rw [List.mem_map] at hr
  obtain ⟨i, _, rfl⟩ := hr
  simp

/-- `Σ_{q<n} a_{iq} u_q = Σ_jj a_jj u_{col jj}` when the stored columns of row `i` are below `n` -/
theorem sum_csrEntry (A : K.Csr 𝕜) (i n : Nat) (hcols : ∀ jj ∈ A.jjs i, K.rdN A.aj jj < n) (u : Fn 𝕜) :
    ∑ q ∈ Finset.range n, ExtC09.csrEntry A i q * u q = ExtC09.csrRow A i u := by
  have h := ExtC09.csrRow_supported A i n (fun c => c) u
  rw [← h]
  unfold ExtC09.csrRow
  congr 1
  apply List.map_congr_left
  intro jj hjj
  simp [Finset.sum_ite_eq', hcols jj hjj]

/-- **the dense form of CSR arrays with in-range columns denotes the CSR operator** -/
theorem msem_csrDense (A : K.Csr 𝕜) (hc : ColsOK A) : msem (csrDense A) = ExtC09.csrLin A := by
  apply LinearMap.ext
  intro u
  funext i
  rw [msem_apply, ExtC09.csrLin_apply]
  by_cases hi : i < A.n
  · rw [if_pos hi, csrDense_getD A i hi, dotF_map_range, sum_csrEntry A i A.n (hc i hi)]
  · rw [if_neg hi]
    rw [getD_nil_of_le _ i (by rw [csrDense_length]; omega)]; rfl

/-- **recorded CSR call**: an array kernel refining a linear iteration for the CSR operator is a `SemLin` smoother of a
level whose matrix is the dense form of these arrays -/
theorem semLin_csr (M : K.Csr 𝕜) (hc : ColsOK M) (g : Array 𝕜 → Array 𝕜 → Array 𝕜) (f : Fn 𝕜 → Fn 𝕜 → Fn 𝕜)
    (Q : Fn 𝕜 →ₗ[𝕜] Fn 𝕜) (href : Refines M.n g f) (hlin : IsLinIter (ExtC09.csrLin M) f Q) :
    SemLin (csrDense M) (viaArr M.n g) (Tn M.n ∘ₗ Q ∘ₗ Tn M.n) := by
  apply semLin_viaArr M.n (csrDense M) (le_of_eq (csrDense_length M)) (csrDense_rows M) g f Q href
  rw [msem_csrDense M hc]; exact hlin

/-! ## sweeps: lists of steps, directions, `iterations` -/

theorem Refines.foldl {ι : Type} {n : Nat} (gs : ι → Array 𝕜 → Array 𝕜 → Array 𝕜) (fs : ι → Fn 𝕜 → Fn 𝕜 → Fn 𝕜)
    (l : List ι) (h : ∀ i ∈ l, Refines n (gs i) (fs i)) :
    Refines n (fun x b => l.foldl (fun x i => gs i x b) x) (fun x b => l.foldl (fun x i => fs i x b) x) := by
  induction l with
  | nil => exact Refines.id n
  | cons i l ih =>
    intro x b hx hb
    obtain ⟨s1, e1⟩ := h i (by simp) x b hx hb
    obtain ⟨s2, e2⟩ := ih (fun j hj => h j (by simp [hj])) (gs i x b) b s1 hb
    simp only [List.foldl_cons]
    exact ⟨s2, by rw [e2, e1]⟩

theorem isLinIter_foldl {ι : Type} (A : Fn 𝕜 →ₗ[𝕜] Fn 𝕜) (fs : ι → Fn 𝕜 → Fn 𝕜 → Fn 𝕜) (Qs : ι → Fn 𝕜 →ₗ[𝕜] Fn 𝕜) (l : List ι)
    (h : ∀ i ∈ l, IsLinIter A (fs i) (Qs i)) :
    IsLinIter A (fun x b => l.foldl (fun x i => fs i x b) x) (sweepM A (l.map Qs)) := by
  have := IsLinIter.foldl A (l.map (fun i => (fs i, Qs i)))
    (by
      intro s hs
      obtain ⟨i, hi, rfl⟩ := List.mem_map.1 hs
      exact h i hi)
  intro x b
  have h2 := this x b
  simp only [List.foldl_map, List.map_map] at h2
  exact h2

/-- the sweep structure of the Python drivers: `iterations` forward passes, backward passes, or forward-then-backward -/
def sweepF (pass : Bool → Fn 𝕜 → Fn 𝕜 → Fn 𝕜) (sw : K.Sweep) (k : Nat) : Fn 𝕜 → Fn 𝕜 → Fn 𝕜 :=
  match sw with
  | .forward => fun x b => iter (pass false) b k x
  | .backward => fun x b => iter (pass true) b k x
  | .symmetric => fun x b => iter (fun x b => pass true (pass false x b) b) b k x

def sweepQ (A : Fn 𝕜 →ₗ[𝕜] Fn 𝕜) (Qp : Bool → Fn 𝕜 →ₗ[𝕜] Fn 𝕜) (sw : K.Sweep) (k : Nat) : Fn 𝕜 →ₗ[𝕜] Fn 𝕜 :=
  match sw with
  | .forward => powM A (Qp false) k
  | .backward => powM A (Qp true) k
  | .symmetric => powM A (compM A (Qp false) (Qp true)) k

theorem sweep_isLinIter (A : Fn 𝕜 →ₗ[𝕜] Fn 𝕜) (pass : Bool → Fn 𝕜 → Fn 𝕜 → Fn 𝕜) (Qp : Bool → Fn 𝕜 →ₗ[𝕜] Fn 𝕜)
    (h : ∀ bw, IsLinIter A (pass bw) (Qp bw)) (sw : K.Sweep) (k : Nat) :
    IsLinIter A (sweepF pass sw k) (sweepQ A Qp sw k) := by
  cases sw
  · exact CF.IsLinIter.pow (h false) k
  · exact CF.IsLinIter.pow (h true) k
  · exact CF.IsLinIter.pow (CF.IsLinIter.comp (h false) (h true)) k

theorem sweep_refines {n : Nat} (gp : Bool → Array 𝕜 → Array 𝕜 → Array 𝕜) (pass : Bool → Fn 𝕜 → Fn 𝕜 → Fn 𝕜)
    (h : ∀ bw, Refines n (gp bw) (pass bw)) (sw : K.Sweep) (k : Nat) :
    Refines n (fun x b => match sw with
      | .forward => K.iter (fun x => gp false x b) k x
      | .backward => K.iter (fun x => gp true x b) k x
      | .symmetric => K.iter (fun x => gp true (gp false x b) b) k x) (sweepF pass sw k) := by
  cases sw
  · exact (h false).iter k
  · exact (h true).iter k
  · exact ((h false).comp (h true)).iter k

theorem mem_dirRows (n : Nat) (bw : Bool) (i : Nat) : i ∈ K.dirRows n bw ↔ i < n := by
  unfold K.dirRows
  cases bw <;> simp

end PyamgV.C03Y
